(* Proofs about Model/ValidityWindow.v: soundness of VerifyExpiryReplayProtection under the
   consensus-engine contract (C09), builder/verify agreement, restart repopulation. *)
From Coq Require Import List NArith ZArith Bool Lia ZifyN ZifyNat ZifyBool.
Import ListNotations.
From HV Require Import Model.ValidityWindow.
Local Open Scope Z_scope.

(* ------------------------------------------------------------------ emap *)
Lemma em_has_In s x : em_has s x = true <-> exists e, In (x, e) s.
Proof.
  unfold em_has. rewrite existsb_exists. split.
  - intros [[y e] [Hin Heq]]. cbn [fst] in Heq. apply N.eqb_eq in Heq. subst. eauto.
  - intros [e Hin]. exists (x, e). split; [assumption|]. cbn [fst]. apply N.eqb_refl.
Qed.

Lemma em_add1_incl s it p : In p s -> In p (em_add1 s it).
Proof.
  unfold em_add1. destruct (snd it =? 0); [tauto|]. destruct (em_has s (fst it)); [tauto|].
  intros H. right. exact H.
Qed.

Lemma em_add_incl its : forall s p, In p s -> In p (em_add s its).
Proof.
  unfold em_add. induction its as [|it its IH]; intros s p H; cbn [fold_left]; [exact H|].
  apply IH. apply em_add1_incl. exact H.
Qed.

Lemma em_add1_In s it p : In p (em_add1 s it) -> In p s \/ p = it.
Proof.
  unfold em_add1. destruct (snd it =? 0); [tauto|]. destruct (em_has s (fst it)); [tauto|].
  intros [H|H]; [right; symmetry; exact H | left; exact H].
Qed.

Lemma em_add_In its : forall s p, In p (em_add s its) -> In p s \/ In p its.
Proof.
  unfold em_add. induction its as [|it its IH]; intros s p H; cbn [fold_left] in H; [left; exact H|].
  apply IH in H. destruct H as [H|H].
  - apply em_add1_In in H. destruct H as [H|H]; [left; exact H | right; left; symmetry; exact H].
  - right. right. exact H.
Qed.

Lemma em_add1_has_new s x e : e <> 0 -> em_has (em_add1 s (x, e)) x = true.
Proof.
  intros He. unfold em_add1. cbn [fst snd]. destruct (Z.eqb_spec e 0); [contradiction|].
  destruct (em_has s x) eqn:Hh; [exact Hh|].
  apply em_has_In. exists e. left. reflexivity.
Qed.

Lemma em_has_mono s s' x : (forall p, In p s -> In p s') -> em_has s x = true -> em_has s' x = true.
Proof. rewrite !em_has_In. intros Hs [e He]. exists e. apply Hs. exact He. Qed.

Lemma em_add_has_new its : forall s x e, In (x, e) its -> e <> 0 -> em_has (em_add s its) x = true.
Proof.
  unfold em_add. induction its as [|it its IH]; intros s x e Hin He; [contradiction|].
  cbn [fold_left]. destruct Hin as [Heq|Hin].
  - subst it. eapply em_has_mono; [apply (em_add_incl its)|]. apply em_add1_has_new. exact He.
  - eapply IH; eassumption.
Qed.

Lemma em_set_min_In s t p : In p (em_set_min s t) <-> In p s /\ t <= snd p.
Proof. unfold em_set_min. rewrite filter_In. rewrite Z.leb_le. tauto. Qed.

(* ------------------------------------------------------------------ marker loop *)
Definition anyb (m : list bool) : bool := existsb (fun x => x) m.

Lemma mark_length has stop : forall items m, length (fst (mark has items m stop)) = length m.
Proof.
  induction items as [|it items IH]; intros [|mi m]; cbn [mark fst length]; try reflexivity.
  destruct mi; cbn [fst length]; [rewrite IH; reflexivity|].
  destruct (has (fst it)); [destruct stop|]; cbn [fst length]; try rewrite IH; reflexivity.
Qed.

(* stop = true on an unmarked marker: either nothing is found and the marker is unchanged, or a
   mark is set *)
Lemma mark_stop_spec has : forall items m,
  anyb m = false ->
  (snd (mark has items m true) = false ->
     fst (mark has items m true) = m /\
     forall it, In it (firstn (length m) items) -> has (fst it) = false) /\
  (snd (mark has items m true) = true -> anyb (fst (mark has items m true)) = true).
Proof.
  induction items as [|it items IH]; intros [|mi m] Hm; cbn [mark fst snd length firstn];
    try (split; [intros _; split; [reflexivity | intros ? []] | discriminate]).
  cbn [anyb existsb] in Hm. apply orb_false_iff in Hm. destruct Hm as [Hmi Hm]. subst mi.
  destruct (has (fst it)) eqn:Hh; cbn [fst snd].
  - split; [discriminate | reflexivity].
  - destruct (IH m Hm) as [IH1 IH2]. split.
    + intros Hs. destruct (IH1 Hs) as [Hf Hall]. split; [rewrite Hf; reflexivity|].
      intros it' [Heq|Hin]; [subst; exact Hh | apply Hall; exact Hin].
    + intros Hs. cbn [anyb existsb]. apply IH2 in Hs. unfold anyb in Hs. rewrite Hs. reflexivity.
Qed.

(* position-wise facts for any stop flag *)
Lemma mark_nth_false has stop : forall items m i,
  nth i (fst (mark has items m stop)) true = false -> nth i m true = false.
Proof.
  induction items as [|it items IH]; intros [|mi m] i; cbn [mark fst]; try (intros H; exact H).
  destruct mi.
  - cbn [fst]. destruct i; cbn [nth]; [intros H; exact H | apply IH].
  - destruct (has (fst it)); [destruct stop|]; cbn [fst]; destruct i; cbn [nth]; try (intros H; exact H);
      try discriminate; try apply IH; try reflexivity.
Qed.

Lemma mark_nth_false_has has : forall items m i it,
  length m = length items ->
  nth_error items i = Some it ->
  nth i (fst (mark has items m false)) true = false -> has (fst it) = false.
Proof.
  induction items as [|it0 items IH]; intros [|mi m] i it Hlen Hnth; cbn [length] in Hlen; try discriminate.
  - destruct i; discriminate.
  - cbn [mark]. destruct mi.
    + cbn [fst]. destruct i; cbn [nth nth_error] in *; [discriminate|].
      apply IH; [lia | exact Hnth].
    + destruct (has (fst it0)) eqn:Hh; cbn [fst]; destruct i; cbn [nth nth_error] in *.
      * discriminate.
      * apply IH; [lia | exact Hnth].
      * intros _. inversion Hnth. subst. exact Hh.
      * apply IH; [lia | exact Hnth].
Qed.

Lemma mark_none has stop : forall items m,
  (forall it, In it items -> has (fst it) = false) ->
  anyb m = false -> mark has items m stop = (m, false).
Proof.
  induction items as [|it items IH]; intros [|mi m] Hall Hm; cbn [mark]; try reflexivity.
  cbn [anyb existsb] in Hm. apply orb_false_iff in Hm. destruct Hm as [Hmi Hm]. subst mi.
  rewrite (Hall it (or_introl eq_refl)).
  rewrite IH; [reflexivity | intros it' H; apply Hall; right; exact H | exact Hm].
Qed.

Lemma anyb_repeat n : anyb (repeat false n) = false.
Proof. induction n; cbn; [reflexivity | exact IHn]. Qed.

Lemma has_dup_spec : forall l acc, has_dup acc l = false ->
  NoDup l /\ forall x, In x l -> ~ In x acc.
Proof.
  induction l as [|x l IH]; intros acc H; cbn [has_dup] in H.
  - split; [constructor | intros ? []].
  - destruct (existsb (N.eqb x) acc) eqn:Hex; [discriminate|].
    destruct (IH _ H) as [Hnd Hacc]. split.
    + constructor; [|exact Hnd]. intros Hin. apply (Hacc x Hin). left. reflexivity.
    + intros y [Hy|Hy] Hin.
      * subst y. assert (existsb (N.eqb x) acc = true) as Ht
          by (apply existsb_exists; exists x; split; [exact Hin | apply N.eqb_refl]).
        congruence.
      * apply (Hacc y Hy). right. exact Hin.
Qed.

Lemma block_has_In b x : block_has b x = true <-> In x (ids (b_items b)).
Proof.
  unfold block_has, ids. rewrite existsb_exists, in_map_iff. split.
  - intros [p [Hin Heq]]. apply N.eqb_eq in Heq. exists p. split; assumption.
  - intros [p [Heq Hin]]. exists p. split; [exact Hin | apply N.eqb_eq; exact Heq].
Qed.

Lemma in_ids its x : In x (ids its) <-> exists e, In (x, e) its.
Proof.
  unfold ids. rewrite in_map_iff. split.
  - intros [[y e] [Heq Hin]]. cbn [fst] in Heq. subst. eauto.
  - intros [e Hin]. exists (x, e). split; [reflexivity | exact Hin].
Qed.

(* ------------------------------------------------------------------ trees *)
Definition sub (idx tree : index) : Prop := forall i b, idx i = Some b -> tree i = Some b.

Lemma idx_of_sub tree fl : sub (idx_of tree fl) tree.
Proof.
  intros i b. unfold idx_of. destruct (tree i) as [b'|]; [|discriminate].
  destruct (fl <=? b_height b')%N; [intros H; exact H | discriminate].
Qed.

(* hypotheses on the block tree; [ts_pos] is kept apart (F-23) *)
(* every item of the block is inside its validity interval (chain.Base.Execute / C10 for
   transactions, Node.Verify itself for DSMR chunk certificates) *)
Definition interval_ok (W : Z) (b : block) : Prop :=
  forall x e, In (x, e) (b_items b) -> b_ts b <= e <= b_ts b + W.

Record tree_ok0 (tree : index) : Prop := {
  t_id : forall i b, tree i = Some b -> b_id b = i;
  t_parent : forall i b, tree i = Some b -> b_height b <> 0%N ->
     exists p, tree (b_parent b) = Some p /\ b_height b = N.succ (b_height p) /\ b_ts p <= b_ts b;
  t_nonneg : forall i b, tree i = Some b -> 0 <= b_ts b;
  t_expiry : forall i j b b' x e e', tree i = Some b -> tree j = Some b' ->
     In (x, e) (b_items b) -> In (x, e') (b_items b') -> e = e'
}.
Definition ts_pos (tree : index) : Prop :=
  forall i b, tree i = Some b -> b_height b <> 0%N -> 0 < b_ts b.

Section Tree.
Variables (tree : index) (W : Z).
Hypothesis TOK : tree_ok0 tree.

Definition in_tree (b : block) : Prop := tree (b_id b) = Some b.

Lemma tree_in i b : tree i = Some b -> in_tree b.
Proof. intros H. unfold in_tree. rewrite (t_id _ TOK _ _ H). exact H. Qed.

(* [reach b a]: a is b or an ancestor of b *)
Inductive reach : block -> block -> Prop :=
| reach_refl b : reach b b
| reach_step b p a : b_height b <> 0%N -> tree (b_parent b) = Some p -> reach p a -> reach b a.

Lemma reach_inv b a : reach b a ->
  a = b \/ (b_height b <> 0%N /\ exists p, tree (b_parent b) = Some p /\ reach p a).
Proof. intros H. inversion H; subst; [left; reflexivity | right; eauto]. Qed.

Lemma reach_trans b a c : reach b a -> reach a c -> reach b c.
Proof. induction 1; intros Hc; [exact Hc | eapply reach_step; eauto]. Qed.

Lemma reach_in b a : in_tree b -> reach b a -> in_tree a.
Proof. intros Hb H. induction H as [b | b p a Hh Hp Hr IH]; [exact Hb | apply IH; eapply tree_in; exact Hp]. Qed.

Lemma reach_ts b a : in_tree b -> reach b a -> b_ts a <= b_ts b.
Proof.
  intros Hb H. induction H as [b | b p a Hh Hp Hr IH]; [lia|].
  destruct (t_parent _ TOK _ _ Hb Hh) as [p' [Hp' [_ Hts]]].
  rewrite Hp in Hp'. inversion Hp'; subst p'.
  specialize (IH (tree_in _ _ Hp)). lia.
Qed.

Lemma reach_height b a : in_tree b -> reach b a -> (a = b \/ (b_height a < b_height b)%N).
Proof.
  intros Hb H. induction H as [b | b p a Hh Hp Hr IH]; [left; reflexivity|].
  destruct (t_parent _ TOK _ _ Hb Hh) as [p' [Hp' [Hhe _]]].
  rewrite Hp in Hp'. inversion Hp'; subst p'.
  right. destruct (IH (tree_in _ _ Hp)) as [Heq|Hlt]; [subst; lia | lia].
Qed.

(* a path from b passing through two blocks: they are ordered *)
Lemma reach_linear b a c : in_tree b -> reach b a -> reach b c ->
  (b_height c <= b_height a)%N -> reach a c.
Proof.
  intros Hb Ha. revert c. induction Ha as [b | b p a Hh Hp Hr IH]; intros c Hc Hle; [exact Hc|].
  destruct (reach_inv _ _ Hc) as [Heq | [_ [p' [Hp' Hr']]]].
  - subst c. exfalso.
    assert (reach b a) as Hba by (eapply reach_step; eauto).
    destruct (reach_height _ _ Hb Hba) as [Heq|Hlt]; [|lia].
    subst a. destruct (reach_height _ _ (tree_in _ _ Hp) Hr) as [Heq|Hlt].
    + subst p. destruct (t_parent _ TOK _ _ Hb Hh) as [p' [Hp' [Hhe _]]].
      rewrite Hp in Hp'. inversion Hp'; subst p'. lia.
    + destruct (t_parent _ TOK _ _ Hb Hh) as [p' [Hp' [Hhe _]]].
      rewrite Hp in Hp'. inversion Hp'; subst p'. lia.
  - rewrite Hp in Hp'. inversion Hp'; subst p'. apply IH; [eapply tree_in; exact Hp | exact Hr' | exact Hle].
Qed.

Lemma is_anc_reach : forall fuel a b ab bb,
  tree a = Some ab -> tree b = Some bb -> is_anc tree fuel a b = true -> reach bb ab.
Proof.
  induction fuel as [|f IH]; intros a b ab bb Ha Hb H; cbn [is_anc] in H.
  - destruct (N.eqb_spec a b); [|discriminate]. subst. rewrite Ha in Hb. inversion Hb. constructor.
  - destruct (N.eqb_spec a b) as [Heq|Hne].
    + subst. rewrite Ha in Hb. inversion Hb. constructor.
    + rewrite Hb in H. destruct (N.eqb_spec (b_height bb) 0); [discriminate|].
      destruct (t_parent _ TOK _ _ Hb n) as [p [Hp _]].
      eapply reach_step; [exact n | exact Hp | eapply IH; eauto].
Qed.

(* ------------------------------------------------------------------ window invariants *)
Definition seen_complete (w : win) (lb : block) : Prop :=
  forall a x e, reach lb a -> In (x, e) (b_items a) -> b_ts lb <= e -> e <> 0 -> em_has (seen w) x = true.
Definition seen_from_tree (w : win) : Prop :=
  forall x e, In (x, e) (seen w) -> exists i b, tree i = Some b /\ In (x, e) (b_items b).

(* soundness of the stop=true walk *)
Lemma walk_sound idx w oldest items lb :
  sub idx tree -> in_tree lb -> last_h w = b_height lb -> seen_complete w lb ->
  forall fuel anc m m',
  in_tree anc -> reach anc lb ->
  anyb m = false -> length m = length items ->
  walk idx w oldest items true fuel anc m = (m', false) -> anyb m' = false ->
  forall a x e, reach anc a -> In (x, e) items -> In (x, e) (b_items a) ->
    oldest <= b_ts a -> e <> 0 -> b_ts lb <= e -> False.
Proof.
  intros Hsub Hlb Hlh Hsc. induction fuel as [|f IH]; intros anc m m' Hanc Hrl Hm Hlen Hw Hm' a x e Hra Hxi Hxa Hold He Hle;
    cbn [walk] in Hw; [discriminate|].
  destruct (Z.ltb_spec (b_ts anc) oldest) as [Hlt|Hge].
  { pose proof (reach_ts _ _ Hanc Hra). lia. }
  destruct ((b_height anc <=? last_h w)%N || (b_height anc =? 0)%N) eqn:Hc.
  - (* consult seen: anc must be lb *)
    assert (anc = lb) as ->.
    { destruct (reach_height _ _ Hanc Hrl) as [Heq|Hlt]; [symmetry; exact Heq|]. exfalso. lia. }
    inversion Hw; subst m'. clear Hw.
    destruct (mark_stop_spec (em_has (seen w)) items m Hm) as [S1 S2].
    destruct (snd (mark (em_has (seen w)) items m true)) eqn:Hs.
    + rewrite (S2 eq_refl) in Hm'. discriminate.
    + destruct (S1 eq_refl) as [_ Hall].
      assert (em_has (seen w) x = false) as Hno.
      { apply (Hall (x, e)). rewrite Hlen, firstn_all. exact Hxi. }
      rewrite (Hsc a x e Hra Hxa Hle He) in Hno. discriminate.
  - (* processing ancestor *)
    destruct (mark_stop_spec (block_has anc) items m Hm) as [S1 S2].
    destruct (snd (mark (block_has anc) items m true)) eqn:Hs; cbn [andb] in Hw.
    + inversion Hw; subst m'. rewrite (S2 eq_refl) in Hm'. discriminate.
    + destruct (S1 eq_refl) as [Hf Hall]. rewrite Hf in Hw.
      destruct (idx (b_parent anc)) as [p|] eqn:Hp; [|discriminate].
      apply Hsub in Hp.
      destruct (reach_inv _ _ Hra) as [Heq | [Hh [p' [Hp' Hr']]]].
      * subst a. assert (block_has anc x = false) as Hno.
        { apply (Hall (x, e)). rewrite Hlen, firstn_all. exact Hxi. }
        assert (block_has anc x = true) as Hyes by (apply block_has_In, in_ids; eauto). congruence.
      * rewrite Hp in Hp'. inversion Hp'; subst p'.
        destruct (reach_inv _ _ Hrl) as [Heq | [_ [p' [Hp'' Hrl']]]].
        { subst lb. exfalso. lia. }
        rewrite Hp in Hp''. inversion Hp''; subst p'.
        exact (IH p m m' (tree_in _ _ Hp) Hrl' Hm Hlen Hw Hm' a x e Hr' Hxi Hxa Hold He Hle).
Qed.

Definition no_repeat_below (b p : block) : Prop :=
  NoDup (ids (b_items b)) /\
  forall a x, reach p a -> In x (ids (b_items b)) -> ~ In x (ids (b_items a)).

Lemma oldest_le b a x e : interval_ok W b -> interval_ok W a -> in_tree a ->
  In (x, e) (b_items b) -> In (x, e) (b_items a) -> oldest_allowed W (b_ts b) <= b_ts a.
Proof.
  intros Hib Hia Ha Hxb Hxa. unfold oldest_allowed.
  pose proof (Hib _ _ Hxb). pose proof (Hia _ _ Hxa).
  pose proof (t_nonneg _ TOK _ _ Ha). lia.
Qed.

Lemma verify_sound idx w b p lb :
  ts_pos tree -> sub idx tree -> in_tree lb -> last_h w = b_height lb -> seen_complete w lb ->
  in_tree b -> b_height b <> 0%N -> tree (b_parent b) = Some p -> reach p lb ->
  interval_ok W b -> (forall a, reach p a -> interval_ok W a) ->
  verify_replay idx w W b = 0%N -> no_repeat_below b p.
Proof.
  intros Hpos Hsub Hlb Hlh Hsc Hb Hh Hp Hrl Hib Hip Hv. unfold verify_replay in Hv.
  destruct (t_parent _ TOK _ _ Hb Hh) as [p' [Hp' [Hhe Hts]]].
  rewrite Hp in Hp'. inversion Hp'; subst p'.
  pose proof (tree_in _ _ Hp) as Hpin.
  assert ((b_height lb <= b_height p)%N) as Hlp
    by (destruct (reach_height _ _ Hpin Hrl) as [->|?]; lia).
  destruct (N.leb_spec (b_height b) (last_h w)); [lia|].
  destruct (has_dup [] (ids (b_items b))) eqn:Hd; [discriminate|].
  destruct (idx (b_parent b)) as [q|] eqn:Hq; [|discriminate].
  apply Hsub in Hq. rewrite Hp in Hq. inversion Hq; subst q.
  destruct (walk idx w (oldest_allowed W (b_ts b)) (b_items b) true (fuel_of p) p
                 (no_marks (length (b_items b)))) as [m' er] eqn:Hwk.
  cbn [fst snd] in Hv.
  destruct er; [discriminate|].
  destruct (existsb (fun x => x) m') eqn:Hany; [discriminate|].
  split; [apply (has_dup_spec _ _ Hd)|].
  intros a x Hra Hxb Hxa.
  apply in_ids in Hxb. destruct Hxb as [e Hxb]. apply in_ids in Hxa. destruct Hxa as [e' Hxa].
  pose proof (reach_in _ _ Hpin Hra) as Hain.
  assert (e' = e) as -> by (eapply (t_expiry _ TOK); [exact Hain | exact Hb | exact Hxa | exact Hxb]).
  pose proof (Hib _ _ Hxb) as Hint.
  pose proof (Hpos _ _ Hb Hh) as Hpos'.
  pose proof (reach_ts _ _ Hpin Hrl) as Htl.
  assert (oldest_allowed W (b_ts b) <= b_ts a) as Hold by exact (oldest_le b a x e Hib (Hip a Hra) Hain Hxb Hxa).
  assert (e <> 0) as He by lia.
  assert (b_ts lb <= e) as Hle by lia.
  exact (walk_sound idx w _ (b_items b) lb Hsub Hlb Hlh Hsc (fuel_of p) p _ m' Hpin Hrl
            (anyb_repeat _) (repeat_length _ _) Hwk Hany a x e Hra Hxb Hxa Hold He Hle).
Qed.

(* ------------------------------------------------------------------ Accept keeps the invariant *)
Lemma accept_from_tree w b : in_tree b -> seen_from_tree w -> seen_from_tree (accept w b).
Proof.
  intros Hb Hs x e Hin. cbn [accept seen] in Hin. apply em_add_In in Hin. destruct Hin as [Hin|Hin].
  - apply em_set_min_In in Hin. apply Hs. tauto.
  - exists (b_id b), b. split; assumption.
Qed.

Lemma from_tree_expiry w x e e' a : seen_from_tree w -> in_tree a ->
  In (x, e') (seen w) -> In (x, e) (b_items a) -> e' = e.
Proof.
  intros Hs Ha Hin Hxa. destruct (Hs _ _ Hin) as [i [b [Hb Hxb]]].
  exact (t_expiry _ TOK _ _ _ _ _ _ _ Hb Ha Hxb Hxa).
Qed.

Lemma accept_complete w lb b :
  in_tree lb -> seen_complete w lb -> seen_from_tree w -> in_tree b ->
  (b_height b <> 0%N -> tree (b_parent b) = Some lb) ->
  seen_complete (accept w b) b.
Proof.
  intros Hlb Hsc Hft Hb Hpar a x e Hra Hxa Hle He.
  destruct (reach_inv _ _ Hra) as [Heq | [Hh [p [Hp Hr]]]].
  - subst a. cbn [accept seen]. eapply em_add_has_new; eauto.
  - rewrite (Hpar Hh) in Hp. inversion Hp; subst p.
    destruct (t_parent _ TOK _ _ Hb Hh) as [p' [Hp' [_ Hts]]]. rewrite (Hpar Hh) in Hp'. inversion Hp'; subst p'.
    assert (em_has (seen w) x = true) as Hold by (eapply Hsc; eauto; lia).
    apply em_has_In in Hold. destruct Hold as [e' Hin].
    assert (e' = e) as -> by exact (from_tree_expiry w x e e' a Hft (reach_in _ _ Hlb Hr) Hin Hxa).
    cbn [accept seen]. apply em_has_In. exists e. apply em_add_incl. apply em_set_min_In. cbn [snd]. tauto.
Qed.

(* ------------------------------------------------------------------ populate (restart) *)
Lemma fold_accept_from_tree : forall L w, (forall b, In b L -> in_tree b) -> seen_from_tree w ->
  seen_from_tree (fold_left accept L w).
Proof.
  induction L as [|b L IH]; intros w HL Hw; cbn [fold_left]; [exact Hw|].
  apply IH; [intros; apply HL; right; assumption | apply accept_from_tree; [apply HL; left; reflexivity | exact Hw]].
Qed.

Lemma fold_accept_keep x e : forall L w, (forall b, In b L -> b_ts b <= e) ->
  In (x, e) (seen w) -> In (x, e) (seen (fold_left accept L w)).
Proof.
  induction L as [|b L IH]; intros w HL Hin; cbn [fold_left]; [exact Hin|].
  apply IH; [intros; apply HL; right; assumption|].
  cbn [accept seen]. apply em_add_incl. apply em_set_min_In. cbn [snd]. split; [exact Hin|]. apply HL. left. reflexivity.
Qed.

Lemma fold_accept_last_h : forall L w b, last_h (fold_left accept (L ++ [b]) w) = b_height b.
Proof. intros. rewrite fold_left_app. reflexivity. Qed.

Lemma fold_accept_has L1 a L2 w x e :
  (forall b, In b (L1 ++ a :: L2) -> in_tree b) -> seen_from_tree w ->
  In (x, e) (b_items a) -> e <> 0 -> (forall b, In b L2 -> b_ts b <= e) ->
  em_has (seen (fold_left accept (L1 ++ a :: L2) w)) x = true.
Proof.
  intros HL Hw Hxa He HL2. rewrite fold_left_app. cbn [fold_left].
  set (w1 := fold_left accept L1 w).
  assert (seen_from_tree w1) as Hw1
    by (apply fold_accept_from_tree; [intros; apply HL, in_or_app; left; assumption | exact Hw]).
  assert (in_tree a) as Ha by (apply HL, in_or_app; right; left; reflexivity).
  assert (em_has (seen (accept w1 a)) x = true) as Hh by (cbn [accept seen]; eapply em_add_has_new; eauto).
  apply em_has_In in Hh. destruct Hh as [e' Hin].
  assert (e' = e) as ->
    by exact (from_tree_expiry (accept w1 a) x e e' a (accept_from_tree w1 a Ha Hw1) Ha Hin Hxa).
  apply em_has_In. exists e. apply fold_accept_keep; assumption.
Qed.

Lemma pop_walk_spec idx oldest head :
  sub idx tree -> in_tree head ->
  forall fuel parent acc L,
  (exists pre, acc = pre ++ [head]) ->
  (forall b, In b acc -> reach head b) ->
  reach head parent ->
  (forall a, reach head a -> In a acc \/ (a <> parent /\ reach parent a)) ->
  pop_walk idx oldest fuel parent acc = (L, true) ->
  (exists pre, L = pre ++ [head]) /\ (forall b, In b L -> reach head b) /\
  (forall a, reach head a -> oldest <= b_ts a -> In a L).
Proof.
  intros Hsub Hhead. induction fuel as [|f IH]; intros parent acc L Hpre Hacc Hrp Hcov Hpw; cbn [pop_walk] in Hpw;
    [discriminate|].
  pose proof (reach_in _ _ Hhead Hrp) as Hpin.
  destruct (N.eqb_spec (b_height parent) 0) as [Hz|Hnz].
  - inversion Hpw; subst L. split; [exact Hpre|]. split; [exact Hacc|].
    intros a Hra _. destruct (Hcov a Hra) as [Hin | [Hne Hr]]; [exact Hin|].
    exfalso. destruct (reach_inv _ _ Hr) as [Heq | [Hh _]]; [congruence | contradiction].
  - destruct (idx (b_parent parent)) as [p|] eqn:Hp; [|discriminate].
    apply Hsub in Hp.
    assert (reach head p) as Hrhp
      by (eapply reach_trans; [exact Hrp | eapply reach_step; [exact Hnz | exact Hp | constructor]]).
    assert (forall a, reach head a -> In a (p :: acc) \/ (a <> p /\ reach p a)) as Hcov'.
    { intros a Hra. destruct (Hcov a Hra) as [Hin | [Hne Hr]]; [left; right; exact Hin|].
      destruct (reach_inv _ _ Hr) as [Heq | [_ [p' [Hp' Hr']]]]; [congruence|].
      rewrite Hp in Hp'. inversion Hp'; subst p'.
      destruct (reach_inv _ _ Hr') as [Heq|_].
      - left. left. symmetry. exact Heq.
      - assert (a = p \/ a <> p) as [->|Hnp].
        { destruct (reach_height _ _ (tree_in _ _ Hp) Hr') as [->|Hlt]; [left; reflexivity | right; intros ->; lia]. }
        + left. left. reflexivity.
        + right. split; assumption. }
    assert (exists pre, p :: acc = pre ++ [head]) as Hpre'
      by (destruct Hpre as [pre ->]; exists (p :: pre); reflexivity).
    assert (forall b, In b (p :: acc) -> reach head b) as Hacc'
      by (intros b [<-|Hin]; [exact Hrhp | apply Hacc; exact Hin]).
    destruct (Z.ltb_spec (b_ts p) oldest) as [Hlt|Hge].
    + inversion Hpw; subst L. split; [exact Hpre'|]. split; [exact Hacc'|].
      intros a Hra Hold. destruct (Hcov' a Hra) as [Hin | [Hne Hr]]; [exact Hin|].
      exfalso. pose proof (reach_ts _ _ (tree_in _ _ Hp) Hr). lia.
    + eapply IH; eauto.
Qed.

Lemma populate_complete idx head w :
  sub idx tree -> in_tree head -> (forall a, reach head a -> interval_ok W a) ->
  new_window idx W head = (w, true) ->
  last_h w = b_height head /\ seen_complete w head /\ seen_from_tree w.
Proof.
  intros Hsub Hhead Hpi Hnw. unfold new_window, populate in Hnw. cbn [fst snd] in Hnw.
  destruct (pop_walk idx (oldest_allowed W (b_ts head)) (fuel_of head) head [head]) as [L full] eqn:Hpw.
  cbn [fst snd] in Hnw. inversion Hnw; subst full w. clear Hnw.
  destruct (pop_walk_spec idx (oldest_allowed W (b_ts head)) head Hsub Hhead (fuel_of head) head [head] L) as [[pre Hpre] [HL Hcov]].
  - exists []. reflexivity.
  - intros b [<-|[]]. constructor.
  - constructor.
  - intros a Hra. destruct (reach_height _ _ Hhead Hra) as [->|Hlt]; [left; left; reflexivity|].
    right. split; [intros ->; lia | exact Hra].
  - exact Hpw.
  - assert (forall b, In b L -> in_tree b) as HLin by (intros b Hb; eapply reach_in; [exact Hhead | apply HL; exact Hb]).
    assert (seen_from_tree win0) as H0 by (intros x e []).
    split; [|split].
    + rewrite Hpre. apply fold_accept_last_h.
    + intros a x e Hra Hxa Hle He.
      pose proof (reach_in _ _ Hhead Hra) as Hain.
      assert (In a L) as Hin.
      { apply Hcov; [exact Hra|]. unfold oldest_allowed.
        pose proof (Hpi a Hra _ _ Hxa). pose proof (t_nonneg _ TOK _ _ Hain). lia. }
      apply in_split in Hin. destruct Hin as [L1 [L2 HLeq]].
      rewrite HLeq. apply fold_accept_has with (e := e); try assumption.
      * rewrite <- HLeq. exact HLin.
      * intros b Hb. assert (reach head b) as Hrb by (apply HL; rewrite HLeq; apply in_or_app; right; right; exact Hb).
        pose proof (reach_ts _ _ Hhead Hrb). lia.
    + apply fold_accept_from_tree; assumption.
Qed.

(* ------------------------------------------------------------------ the system invariant *)
Definition clean (b : block) : Prop :=
  (forall a, reach b a -> NoDup (ids (b_items a))) /\
  (forall a1 a2 x, reach b a1 -> reach a1 a2 -> a1 <> a2 ->
     In x (ids (b_items a1)) -> ~ In x (ids (b_items a2))) /\
  (forall a, reach b a -> interval_ok W a).

Lemma clean_child b p : in_tree b -> b_height b <> 0%N -> tree (b_parent b) = Some p ->
  clean p -> interval_ok W b -> no_repeat_below b p -> clean b.
Proof.
  intros Hb Hh Hp [C1 [C2 C3]] Hib [N1 N2]. split; [|split].
  - intros a Hra. destruct (reach_inv _ _ Hra) as [->|[_ [p' [Hp' Hr]]]]; [exact N1|].
    rewrite Hp in Hp'. inversion Hp'; subst p'. apply C1. exact Hr.
  - intros a1 a2 x Hr1 Hr2 Hne Hx1.
    destruct (reach_inv _ _ Hr1) as [->|[_ [p' [Hp' Hr]]]].
    + destruct (reach_inv _ _ Hr2) as [Heq|[_ [p' [Hp' Hr]]]]; [congruence|].
      rewrite Hp in Hp'. inversion Hp'; subst p'. apply N2; assumption.
    + rewrite Hp in Hp'. inversion Hp'; subst p'. eapply C2; eauto.
  - intros a Hra. destruct (reach_inv _ _ Hra) as [->|[_ [p' [Hp' Hr]]]]; [exact Hib|].
    rewrite Hp in Hp'. inversion Hp'; subst p'. apply C3. exact Hr.
Qed.

(* the verification function of the component: accepting implies the replay check passed and the
   block's items are inside their validity interval *)
Variable vf : vfun.
Hypothesis VF : forall idx w b, in_tree b -> vf tree idx w W b = 0%N ->
  verify_replay idx w W b = 0%N /\ interval_ok W b.

Record Inv (s : sys) (e : eng) : Prop := {
  i_last : exists lb, tree (e_last e) = Some lb /\ last_h (s_win s) = b_height lb /\
                      seen_complete (s_win s) lb /\ seen_from_tree (s_win s);
  i_ever : forall v, In v (e_ever e) -> exists vb, tree v = Some vb /\ clean vb;
  i_ver : forall v, In v (e_verified e) -> In v (e_ever e);
  i_lastever : In (e_last e) (e_ever e)
}.

Lemma mem_In x l : mem x l = true <-> In x l.
Proof.
  unfold mem. rewrite existsb_exists. split.
  - intros [y [Hin Heq]]. apply N.eqb_eq in Heq. subst. exact Hin.
  - intros Hin. exists x. split; [exact Hin | apply N.eqb_refl].
Qed.

Lemma step_inv (POS : ts_pos tree) s e o e' :
  Inv s e -> eng_step tree e o (snd (step vf tree W s o)) = Some e' -> Inv (fst (step vf tree W s o)) e'.
Proof.
  intros [[lb [Hlb [Hlh [Hsc Hft]]]] Hever Hver Hle] Hes.
  pose proof (tree_in _ _ Hlb) as Hlbin.
  destruct o as [b | b | b | h fl | p now items]; cbn [step] in *.
  - (* Verify *)
    destruct (tree b) as [blk|] eqn:Hb; cbn [fst snd eng_step] in *; [|discriminate].
    rewrite Hb in Hes.
    destruct (negb (b_height blk =? 0)%N &&
              (mem (b_parent blk) (e_verified e) || (b_parent blk =? e_last e)%N) &&
              is_anc tree (anc_fuel tree (b_parent blk)) (e_last e) (b_parent blk)) eqn:Hc; [|discriminate].
    apply andb_true_iff in Hc. destruct Hc as [Hc Hanc]. apply andb_true_iff in Hc. destruct Hc as [Hh Hpar].
    apply negb_true_iff in Hh. apply N.eqb_neq in Hh.
    destruct (N.eqb_spec (vf tree (idx_of tree (s_floor s)) (s_win s) W blk) 0) as [Hv|Hv];
      inversion Hes; subst e'; clear Hes.
    + assert (In (b_parent blk) (e_ever e)) as Hpe.
      { apply orb_true_iff in Hpar. destruct Hpar as [Hm|Hm].
        - apply Hver, mem_In. exact Hm.
        - apply N.eqb_eq in Hm. rewrite Hm. exact Hle. }
      destruct (Hever _ Hpe) as [pb [Hpb Hclean]].
      assert (reach pb lb) as Hrl by exact (is_anc_reach _ _ _ _ _ Hlb Hpb Hanc).
      assert (clean blk) as Hcb.
      { pose proof (tree_in _ _ Hb) as Hbin.
        destruct (VF _ _ _ Hbin Hv) as [Hv' Hib].
        apply (clean_child blk pb Hbin Hh Hpb Hclean Hib).
        exact (verify_sound _ _ blk pb lb POS (idx_of_sub tree _) Hlbin Hlh Hsc Hbin Hh Hpb Hrl Hib
                 (proj2 (proj2 Hclean)) Hv'). }
      constructor; cbn [e_last e_ever e_verified].
      * exists lb. repeat split; assumption.
      * intros v [<-|Hin]; [exists blk; split; assumption | apply Hever; exact Hin].
      * intros v [<-|Hin]; [left; reflexivity | right; apply Hver; exact Hin].
      * right. exact Hle.
    + constructor; [exists lb; repeat split; assumption | assumption | assumption | assumption].
  - (* Accept *)
    destruct (tree b) as [blk|] eqn:Hb; cbn [fst snd eng_step] in *; [|discriminate].
    rewrite Hb in Hes.
    destruct (mem b (e_verified e) && (b_parent blk =? e_last e)%N) eqn:Hc; [|discriminate].
    inversion Hes; subst e'; clear Hes.
    apply andb_true_iff in Hc. destruct Hc as [Hm Hpar]. apply mem_In in Hm. apply N.eqb_eq in Hpar.
    pose proof (tree_in _ _ Hb) as Hbin.
    constructor; cbn [e_last e_ever e_verified s_win].
    + exists blk. split; [exact Hb|]. split; [reflexivity|]. split.
      * apply (accept_complete (s_win s) lb blk Hlbin Hsc Hft Hbin). intros _. rewrite Hpar. exact Hlb.
      * apply accept_from_tree; assumption.
    + exact Hever.
    + exact Hver.
    + apply Hver. exact Hm.
  - (* Reject *)
    cbn [fst snd eng_step] in *.
    destruct (mem b (e_verified e)); [|discriminate]. inversion Hes; subst e'; clear Hes.
    constructor; cbn [e_last e_ever e_verified].
    + exists lb. repeat split; assumption.
    + exact Hever.
    + intros v Hin. apply filter_In in Hin. apply Hver. tauto.
    + exact Hle.
  - (* Restart *)
    destruct (tree h) as [blk|] eqn:Hb; cbn [fst snd eng_step] in *; [|discriminate].
    destruct (new_window (idx_of tree (N.max fl (s_floor s))) W blk) as [w' complete] eqn:Hnw.
    cbn [fst snd] in *.
    destruct (complete && (mem h (e_verified e) || (h =? e_last e)%N) &&
              is_anc tree (anc_fuel tree h) (e_last e) h) eqn:Hc; [|discriminate].
    inversion Hes; subst e'; clear Hes.
    apply andb_true_iff in Hc. destruct Hc as [Hc _]. apply andb_true_iff in Hc. destruct Hc as [Hcomp Hm].
    subst complete.
    assert (In h (e_ever e)) as Hhe.
    { apply orb_true_iff in Hm. destruct Hm as [Hm|Hm]; [apply Hver, mem_In; exact Hm|].
      apply N.eqb_eq in Hm. rewrite Hm. exact Hle. }
    destruct (Hever _ Hhe) as [hb [Hhb Hhclean]]. rewrite Hb in Hhb. inversion Hhb; subst hb.
    destruct (populate_complete _ _ _ (idx_of_sub tree _) (tree_in _ _ Hb) (proj2 (proj2 Hhclean)) Hnw)
      as [P1 [P2 P3]].
    constructor; cbn [e_last e_ever e_verified s_win].
    + exists blk. repeat split; assumption.
    + exact Hever.
    + intros v [].
    + exact Hhe.
  - (* IsRepeat *)
    destruct (tree p) as [blk|] eqn:Hb; cbn [fst snd eng_step] in *; [|discriminate].
    inversion Hes; subst e'. constructor; [exists lb; repeat split; assumption | assumption | assumption | assumption].
Qed.

Lemma run_inv (POS : ts_pos tree) : forall ops s e e',
  Inv s e -> eng_run tree e ops (run vf tree W s ops) = Some e' ->
  forall v, In v (e_ever e') -> exists vb, tree v = Some vb /\ clean vb.
Proof.
  induction ops as [|o ops IH]; intros s e e' HI Hr; cbn [run eng_run] in Hr.
  - inversion Hr; subst e'. apply (i_ever _ _ HI).
  - destruct (eng_step tree e o (snd (step vf tree W s o))) as [e1|] eqn:Hes; [|discriminate].
    eapply IH; [eapply step_inv; eauto | exact Hr].
Qed.

Lemma inv0 g gb : tree g = Some gb -> b_height gb = 0%N -> NoDup (ids (b_items gb)) ->
  interval_ok W gb -> Inv (sys0 tree W gb) (eng0 g).
Proof.
  intros Hg Hh Hnd Hig. pose proof (tree_in _ _ Hg) as Hgin.
  assert (forall a, reach gb a -> interval_ok W a) as Hpi
    by (intros a Hra; destruct (reach_inv _ _ Hra) as [->|[Hne _]]; [exact Hig | congruence]).
  assert (new_window (idx_of tree 0%N) W gb = (fst (new_window (idx_of tree 0%N) W gb), true)) as Hnw.
  { unfold new_window, populate, fuel_of. cbn [pop_walk fst snd]. rewrite Hh. reflexivity. }
  destruct (populate_complete _ _ _ (idx_of_sub tree _) Hgin Hpi Hnw) as [P1 [P2 P3]].
  constructor; cbn [sys0 eng0 e_last e_ever e_verified s_win].
  - exists gb. repeat split; assumption.
  - intros v [<-|[]]. exists gb. split; [exact Hg|]. split; [|split].
    + intros a Hra. destruct (reach_inv _ _ Hra) as [->|[Hne _]]; [exact Hnd | congruence].
    + intros a1 a2 x Hr1 Hr2 Hne. exfalso.
      destruct (reach_inv _ _ Hr1) as [->|[Hne' _]]; [|congruence].
      destruct (reach_inv _ _ Hr2) as [->|[Hne' _]]; congruence.
    + exact Hpi.
  - intros v [].
  - left. reflexivity.
Qed.

(* ------------------------------------------------------------------ builder filter = verify *)
Lemma walk_nth_false idx w oldest items stop : forall fuel anc m i,
  nth i (fst (walk idx w oldest items stop fuel anc m)) true = false -> nth i m true = false.
Proof.
  induction fuel as [|f IH]; intros anc m i; cbn [walk]; [intros H; exact H|].
  destruct (b_ts anc <? oldest); [intros H; exact H|].
  destruct ((b_height anc <=? last_h w)%N || (b_height anc =? 0)%N); cbn [fst].
  - apply mark_nth_false.
  - destruct (stop && snd (mark (block_has anc) items m stop)); cbn [fst]; [apply mark_nth_false|].
    destruct (idx (b_parent anc)); cbn [fst]; [|apply mark_nth_false].
    intros H. apply IH in H. eapply mark_nth_false. exact H.
Qed.

Lemma walk_filter idx w oldest items keep : forall fuel anc m m',
  length m = length items ->
  walk idx w oldest items false fuel anc m = (m', false) ->
  (forall it, In it keep -> exists i, nth_error items i = Some it /\ nth i m' true = false) ->
  walk idx w oldest keep true fuel anc (no_marks (length keep)) = (no_marks (length keep), false).
Proof.
  induction fuel as [|f IH]; intros anc m m' Hlen Hw Hkeep; cbn [walk] in *; [discriminate|].
  destruct (b_ts anc <? oldest); [reflexivity|].
  destruct ((b_height anc <=? last_h w)%N || (b_height anc =? 0)%N).
  - inversion Hw; subst m'. rewrite mark_none; [reflexivity | | apply anyb_repeat].
    intros it Hin. destruct (Hkeep it Hin) as [i [Hnth Hf]]. eapply mark_nth_false_has; eauto.
  - cbn [andb] in Hw.
    assert (forall it, In it keep -> block_has anc (fst it) = false) as Hno.
    { intros it Hin. destruct (Hkeep it Hin) as [i [Hnth Hf]].
      assert (nth i (fst (mark (block_has anc) items m false)) true = false) as Hf1.
      { destruct (idx (b_parent anc)) as [p|]; [|inversion Hw; subst; exact Hf].
        replace m' with (fst (walk idx w oldest items false f p (fst (mark (block_has anc) items m false)))) in Hf
          by (rewrite Hw; reflexivity).
        eapply walk_nth_false. exact Hf. }
      eapply mark_nth_false_has; eauto. }
    rewrite (mark_none _ true keep _ Hno (anyb_repeat _)). cbn [snd fst andb].
    destruct (idx (b_parent anc)) as [p|]; [|discriminate].
    eapply IH; [|exact Hw|exact Hkeep]. rewrite mark_length. exact Hlen.
Qed.

(* the items the builder keeps: those whose bit is not set *)
Definition kept (items : list item) (m : list bool) : list item :=
  map fst (filter (fun p => negb (snd p)) (combine items m)).

Lemma kept_spec items : forall m it, In it (kept items m) ->
  exists i, nth_error items i = Some it /\ nth i m true = false.
Proof.
  unfold kept. induction items as [|x items IH]; intros [|mi m] it Hin; cbn [combine filter map] in Hin; try contradiction.
  cbn [snd] in Hin. destruct mi; cbn [negb] in Hin.
  - destruct (IH m it Hin) as [i [H1 H2]]. exists (S i). split; assumption.
  - destruct Hin as [Heq|Hin].
    + exists O. cbn [fst] in Heq. subst. split; reflexivity.
    + destruct (IH m it Hin) as [i [H1 H2]]. exists (S i). split; assumption.
Qed.

Lemma nodup_has_dup : forall l acc, NoDup l -> (forall x, In x l -> ~ In x acc) -> has_dup acc l = false.
Proof.
  induction l as [|x l IH]; intros acc Hnd Hacc; cbn [has_dup]; [reflexivity|].
  inversion Hnd; subst.
  destruct (existsb (N.eqb x) acc) eqn:Hex.
  - apply existsb_exists in Hex. destruct Hex as [y [Hy Heq]]. apply N.eqb_eq in Heq. subst y.
    exfalso. apply (Hacc x); [left; reflexivity | exact Hy].
  - apply IH; [assumption|]. intros y Hy [Heq|Hin]; [subst; contradiction | apply (Hacc y); [right; exact Hy | exact Hin]].
Qed.

Lemma builder_agrees_gen idx w parent now items m newid keep :
  idx (b_id parent) = Some parent ->
  is_repeat idx w W parent now items = (m, false) ->
  (forall it, In it keep -> exists i, nth_error items i = Some it /\ nth i m true = false) ->
  NoDup (ids keep) ->
  verify_replay idx w W (mkB newid (b_id parent) (N.succ (b_height parent)) now keep) = 0%N.
Proof.
  intros Hp Hr Hk Hnd. unfold verify_replay. cbn [b_height b_items b_parent b_ts].
  destruct (N.succ (b_height parent) <=? last_h w)%N; [reflexivity|].
  rewrite nodup_has_dup; [|exact Hnd|intros ? ? []].
  rewrite Hp. unfold is_repeat in Hr.
  erewrite walk_filter; [| |exact Hr|exact Hk]; [|apply repeat_length].
  cbn [fst snd]. fold (anyb (no_marks (length keep))). unfold no_marks. rewrite anyb_repeat. reflexivity.
Qed.

Lemma builder_agrees idx w parent now items m newid :
  idx (b_id parent) = Some parent ->
  is_repeat idx w W parent now items = (m, false) ->
  NoDup (ids (kept items m)) ->
  verify_replay idx w W (mkB newid (b_id parent) (N.succ (b_height parent)) now (kept items m)) = 0%N.
Proof.
  intros Hp Hr Hnd. unfold verify_replay. cbn [b_height b_items b_parent b_ts].
  destruct (N.succ (b_height parent) <=? last_h w)%N; [reflexivity|].
  rewrite nodup_has_dup; [|exact Hnd|intros ? ? []].
  rewrite Hp. unfold is_repeat in Hr.
  erewrite walk_filter; [| |exact Hr|apply kept_spec]; [|apply repeat_length].
  cbn [fst snd]. fold (anyb (no_marks (length (kept items m)))). unfold no_marks. rewrite anyb_repeat. reflexivity.
Qed.

End Tree.
