(* Indexer_proofs.v — invariants and proofs for Model/Indexer.v *)
From Coq Require Import List NArith Bool Lia.
From Coq Require Import ZifyN ZifyNat ZifyBool.
Import ListNotations.
From HV Require Import Lib.AssocN Model.Indexer.
Local Open Scope N_scope.

Lemma init_latest W : get_latest (init W) = (1, None).
Proof. reflexivity. Qed.
