(* Indexer_proofs.v — invariants and proofs for Model/Indexer.v *)
From Coq Require Import List NArith Bool Lia Sorted PeanoNat.
From Coq Require Import ZifyN ZifyNat ZifyBool.
Import ListNotations.
From HV Require Import Lib.AssocN Model.Indexer.
Local Open Scope N_scope.

(* ------------------------------------------------------------------ one chain of accepted blocks *)
Record chain_wf (U : list eblock) : Prop := mkWf {
  wf_h : forall b1 b2, In b1 U -> In b2 U -> eh b1 = eh b2 -> b1 = b2;
  wf_id : forall b1 b2, In b1 U -> In b2 U -> eid b1 = eid b2 -> b1 = b2;
  wf_tx : forall b1 b2 i1 i2 t, In b1 U -> In b2 U ->
            nth_error (etxs b1) i1 = Some t -> nth_error (etxs b2) i2 = Some t -> b1 = b2 /\ i1 = i2;
  wf_res : forall b, In b U -> length (eres b) = length (etxs b)
}.

Lemma wf_nodup U b : chain_wf U -> In b U -> NoDup (etxs b).
Proof.
  intros Hwf Hb. apply NoDup_nth_error. intros i j Hi Hij.
  destruct (nth_error (etxs b) i) as [t|] eqn:Ei; [|apply nth_error_None in Ei; lia].
  symmetry in Hij. destruct (wf_tx U Hwf b b i j t Hb Hb Ei Hij) as [_ H]. exact H.
Qed.

Lemma opt_ext {A} (a b : option A) : (forall x, a = Some x <-> b = Some x) -> a = b.
Proof.
  intros H. destruct a as [x|], b as [y|]; try reflexivity.
  - symmetry. apply H. reflexivity.
  - symmetry. apply H. reflexivity.
  - apply H. reflexivity.
Qed.

(* ------------------------------------------------------------------ cache coherence *)
Record Coh (U : list eblock) (s : ist) : Prop := mkCoh {
  c_key : forall h b, aget h (i_h2b s) = Some b -> eh b = h /\ In b U;
  c_id : forall i h, aget i (i_id2h s) = Some h <-> exists b, aget h (i_h2b s) = Some b /\ eid b = i;
  c_tx : forall t h idx, aget t (i_tx s) = Some (h, idx) <->
           exists b, aget h (i_h2b s) = Some b /\ nth_error (etxs b) (N.to_nat idx) = Some t
}.

Lemma aget_fold_adel {V} (l : list N) : forall (m : amap V) t,
  aget t (fold_left (fun m t => adel t m) l m) = if memN t l then None else aget t m.
Proof.
  induction l as [|x r IH]; intros m t; cbn [fold_left memN]; [reflexivity|].
  rewrite IH, aget_adel. rewrite (N.eqb_sym t x). destruct (memN t r); destruct (x =? t); reflexivity.
Qed.

Lemma nth_error_memN l i t : nth_error l i = Some t -> memN t l = true.
Proof. intros H. apply memN_In. eapply nth_error_In. exact H. Qed.

Lemma memN_false_nth l t i : memN t l = false -> nth_error l i = Some t -> False.
Proof. intros H1 H2. apply nth_error_memN in H2. congruence. Qed.

(* evictBlockFromCache *)
Lemma evict_spec U s h : chain_wf U -> Coh U s ->
  Coh U (evict s h) /\
  (forall k, aget k (i_h2b (evict s h)) = if k =? h then None else aget k (i_h2b s)) /\
  i_last (evict s h) = i_last s /\ i_W (evict s h) = i_W s /\ i_db (evict s h) = i_db s.
Proof.
  intros Hwf [Hk Hi Ht]. unfold evict. destruct (aget h (i_h2b s)) as [eb|] eqn:E.
  - destruct (Hk h eb E) as [Heh HeU]. cbn [set_caches i_h2b i_last i_W i_db i_id2h i_tx].
    assert (Hh2b : forall k, aget k (adel (eh eb) (i_h2b s)) = if k =? h then None else aget k (i_h2b s)).
    { intros k. rewrite aget_adel, Heh, (N.eqb_sym h k). reflexivity. }
    split; [|auto]. constructor; cbn [set_caches i_h2b i_id2h i_tx].
    + intros k b. rewrite Hh2b. destruct (k =? h); [discriminate | apply Hk].
    + intros i k. rewrite aget_adel, Hh2b. destruct (eid eb =? i) eqn:Ei.
      * apply N.eqb_eq in Ei. split; [discriminate|]. intros [b [Hb Hbi]]. exfalso.
        destruct (k =? h) eqn:Ekh; [discriminate|]. destruct (Hk k b Hb) as [Hbk HbU].
        assert (b = eb) by (apply (wf_id U Hwf); auto; congruence). subst b. apply N.eqb_neq in Ekh. congruence.
      * apply N.eqb_neq in Ei. rewrite Hi. split.
        -- intros [b [Hb Hbi]]. exists b. split; [|exact Hbi]. destruct (k =? h) eqn:Ekh; [|exact Hb].
           apply N.eqb_eq in Ekh. subst k. congruence.
        -- intros [b [Hb Hbi]]. exists b. split; [|exact Hbi]. destruct (k =? h); [discriminate | exact Hb].
    + intros t k idx. rewrite aget_fold_adel, Hh2b. destruct (memN t (etxs eb)) eqn:Em.
      * split; [discriminate|]. intros [b [Hb Hbt]]. exfalso.
        destruct (k =? h) eqn:Ekh; [discriminate|]. destruct (Hk k b Hb) as [Hbk HbU].
        apply memN_In, In_nth_error in Em. destruct Em as [j Hj].
        destruct (wf_tx U Hwf b eb _ _ t HbU HeU Hbt Hj) as [-> _]. apply N.eqb_neq in Ekh. congruence.
      * rewrite Ht. split.
        -- intros [b [Hb Hbt]]. exists b. split; [|exact Hbt]. destruct (k =? h) eqn:Ekh; [|exact Hb].
           apply N.eqb_eq in Ekh. subst k. exfalso. assert (b = eb) by congruence. subst b.
           eapply memN_false_nth; eauto.
        -- intros [b [Hb Hbt]]. exists b. split; [|exact Hbt]. destruct (k =? h); [discriminate | exact Hb].
  - split; [constructor; assumption|]. split; [|auto].
    intros k. destruct (k =? h) eqn:Ekh; [|reflexivity]. apply N.eqb_eq in Ekh. subst k. exact E.
Qed.

Lemma evict_many_spec U l : forall s, chain_wf U -> Coh U s ->
  Coh U (fold_left evict l s) /\
  (forall k, aget k (i_h2b (fold_left evict l s)) = if memN k l then None else aget k (i_h2b s)) /\
  i_last (fold_left evict l s) = i_last s /\ i_W (fold_left evict l s) = i_W s /\ i_db (fold_left evict l s) = i_db s.
Proof.
  induction l as [|x r IH]; intros s Hwf Hc; cbn [fold_left memN]; [auto|].
  destruct (evict_spec U s x Hwf Hc) as [Hc1 [Hh1 [Hl1 [HW1 Hd1]]]].
  destruct (IH (evict s x) Hwf Hc1) as [Hc2 [Hh2 [Hl2 [HW2 Hd2]]]].
  split; [exact Hc2|]. split; [|split; [congruence | split; congruence]].
  intros k. rewrite Hh2, Hh1. destruct (k =? x); destruct (memN k r); reflexivity.
Qed.

(* the three puts + lastHeight *)
Definition pure_insert (s : ist) (b : eblock) : ist :=
  set_caches s (aput (eid b) (eh b) (i_id2h s)) (aput (eh b) b (i_h2b s))
             (put_txs (eh b) 0 (etxs b) (i_tx s)) (hmax (i_last s) (eh b)).

Lemma put_txs_notin h l : forall i0 m t, ~ In t l -> aget t (put_txs h i0 l m) = aget t m.
Proof.
  induction l as [|x r IH]; intros i0 m t Hni; cbn [put_txs]; [reflexivity|].
  rewrite IH by (intros H; apply Hni; right; exact H).
  apply aget_aput_ne. intros ->. apply Hni. left. reflexivity.
Qed.

Lemma put_txs_in h l : forall i0 m t p, NoDup l -> nth_error l p = Some t ->
  aget t (put_txs h i0 l m) = Some (h, i0 + N.of_nat p).
Proof.
  induction l as [|x r IH]; intros i0 m t p Hnd Hp; [destruct p; discriminate|].
  inversion Hnd as [|y l' Hni Hnd']; subst. cbn [put_txs]. destruct p as [|p]; cbn [nth_error] in Hp.
  - injection Hp as ->. rewrite put_txs_notin by exact Hni. rewrite aget_aput_eq. f_equal. f_equal. lia.
  - rewrite (IH _ _ t p Hnd' Hp). f_equal. f_equal. lia.
Qed.

Lemma pure_insert_coh U s b : chain_wf U -> In b U -> Coh U s -> Coh U (pure_insert s b).
Proof.
  intros Hwf HbU [Hk Hi Ht]. constructor; cbn [pure_insert set_caches i_h2b i_id2h i_tx].
  - intros k x. rewrite aget_aput. destruct (k =? eh b) eqn:E.
    + apply N.eqb_eq in E. intros H. injection H as <-. auto.
    + apply Hk.
  - intros i k. rewrite !aget_aput. destruct (i =? eid b) eqn:Ei.
    + apply N.eqb_eq in Ei. subst i. split.
      * intros H. injection H as <-. exists b. rewrite N.eqb_refl. auto.
      * intros [x [Hx Hxi]]. destruct (k =? eh b) eqn:Ek; [apply N.eqb_eq in Ek; congruence|]. exfalso.
        destruct (Hk k x Hx) as [Hxk HxU]. assert (x = b) by (apply (wf_id U Hwf); auto). subst x.
        apply N.eqb_neq in Ek. congruence.
    + apply N.eqb_neq in Ei. rewrite Hi. split.
      * intros [x [Hx Hxi]]. exists x. split; [|exact Hxi]. destruct (k =? eh b) eqn:Ek; [|exact Hx]. exfalso.
        apply N.eqb_eq in Ek. subst k. destruct (Hk _ x Hx) as [Hxk HxU].
        assert (x = b) by (apply (wf_h U Hwf); auto). subst x. congruence.
      * intros [x [Hx Hxi]]. exists x. split; [|exact Hxi]. destruct (k =? eh b) eqn:Ek; [|exact Hx].
        exfalso. injection Hx as <-. congruence.
  - intros t k idx.
    assert (Hnd : NoDup (etxs b)) by (eapply wf_nodup; eauto).
    destruct (memN t (etxs b)) eqn:Em.
    + apply memN_In, In_nth_error in Em. destruct Em as [p Hp].
      rewrite (put_txs_in _ _ _ _ _ _ Hnd Hp). rewrite N.add_0_l. split.
      * intros H. injection H as <- <-. exists b. rewrite aget_aput_eq. rewrite Nnat.Nat2N.id. auto.
      * intros [x [Hx Hxt]]. rewrite aget_aput in Hx.
        assert (HxU : In x U /\ eh x = k).
        { destruct (k =? eh b) eqn:Ek; [injection Hx as <-; apply N.eqb_eq in Ek; auto | destruct (Hk k x Hx); auto]. }
        destruct HxU as [HxU Hxk].
        destruct (wf_tx U Hwf b x _ _ t HbU HxU Hp Hxt) as [<- Hpi]. f_equal. f_equal; [congruence | lia].
    + rewrite put_txs_notin; [|intros H; apply memN_In in H; congruence]. rewrite Ht. split.
      * intros [x [Hx Hxt]]. exists x. split; [|exact Hxt]. rewrite aget_aput. destruct (k =? eh b) eqn:Ek; [|exact Hx].
        exfalso. apply N.eqb_eq in Ek. subst k. destruct (Hk _ x Hx) as [Hxk HxU].
        assert (x = b) by (apply (wf_h U Hwf); auto). subst x. eapply memN_false_nth; eauto.
      * intros [x [Hx Hxt]]. exists x. split; [|exact Hxt]. rewrite aget_aput in Hx. destruct (k =? eh b) eqn:Ek; [|exact Hx].
        exfalso. injection Hx as <-. eapply memN_false_nth; eauto.
Qed.

(* which cached heights insertBlockIntoCache evicts *)
Definition evicted (s : ist) (b : eblock) (k : N) : bool :=
  (i_W s <=? eh b) &&
  match i_last s with
  | Some l => if eh b =? l + 1 then k =? eh b - i_W s else k <=? eh b - i_W s
  | None => k =? eh b - i_W s
  end.

Lemma memN_filter p l k : memN k (filter p l) = p k && memN k l.
Proof.
  induction l as [|x r IH]; cbn [filter memN]; [destruct (p k); reflexivity|].
  destruct (p x) eqn:Ep; cbn [memN]; rewrite IH; destruct (k =? x) eqn:E; cbn [orb]; try reflexivity.
  - apply N.eqb_eq in E. subst. rewrite Ep. reflexivity.
  - apply N.eqb_eq in E. subst. rewrite Ep. reflexivity.
Qed.

Lemma insert_cache_spec U s b : chain_wf U -> In b U -> Coh U s ->
  Coh U (insert_cache s b) /\ i_last (insert_cache s b) = hmax (i_last s) (eh b) /\
  i_W (insert_cache s b) = i_W s /\ i_db (insert_cache s b) = i_db s /\
  (forall k, aget k (i_h2b (insert_cache s b)) =
             if k =? eh b then Some b else if evicted s b k then None else aget k (i_h2b s)).
Proof.
  intros Hwf HbU Hc. unfold insert_cache.
  set (s1 := if i_W s <=? eh b then _ else s).
  assert (H1 : Coh U s1 /\ (forall k, aget k (i_h2b s1) = if evicted s b k then None else aget k (i_h2b s)) /\
               i_W s1 = i_W s /\ i_db s1 = i_db s /\ i_last s1 = i_last s).
  { unfold s1, evicted. destruct (i_W s <=? eh b); cbn [andb]; [|auto].
    destruct (i_last s) as [l|] eqn:El.
    - destruct (eh b =? l + 1).
      + destruct (evict_spec U s (eh b - i_W s) Hwf Hc) as [Ha [Hb [Hl [Hd He]]]].
        split; [exact Ha|]. split; [exact Hb|]. split; [exact Hd|]. split; [exact He | congruence].
      + destruct (evict_many_spec U (filter (fun k => k <=? eh b - i_W s) (akeys (i_h2b s))) s Hwf Hc) as [Ha [Hb [Hl [Hd He]]]].
        split; [exact Ha|]. split; [|split; [exact Hd|]; split; [exact He | congruence]]. intros k. rewrite Hb, memN_filter.
        destruct (k <=? eh b - i_W s); cbn [andb]; [|reflexivity].
        destruct (memN k (akeys (i_h2b s))) eqn:Em; [reflexivity|].
        apply aget_None_keys. intros H. apply memN_In in H. congruence.
    - destruct (evict_spec U s (eh b - i_W s) Hwf Hc) as [Ha [Hb [Hl [Hd He]]]].
      split; [exact Ha|]. split; [exact Hb|]. split; [exact Hd|]. split; [exact He | congruence]. }
  destruct H1 as [Hc1 [Hh1 [HW1 [Hd1 Hl1]]]]. rewrite <- Hl1.
  change (set_caches s1 _ _ _ _) with (pure_insert s1 b).
  split; [apply pure_insert_coh; assumption|]. split; [reflexivity|]. split; [exact HW1|]. split; [exact Hd1|].
  intros k. cbn [pure_insert set_caches i_h2b]. rewrite aget_aput, Hh1. reflexivity.
Qed.

Lemma insert_noevict s x :
  (forall k y, aget k (i_h2b s) = Some y -> eh x < k + i_W s) -> insert_cache s x = pure_insert s x.
Proof.
  intros Hlow. unfold insert_cache.
  assert (Hev : forall k, k + i_W s <= eh x -> evict s k = s).
  { intros k Hk. unfold evict. destruct (aget k (i_h2b s)) as [y|] eqn:E; [|reflexivity].
    apply Hlow in E. lia. }
  assert (H1 : (if i_W s <=? eh x
      then match i_last s with
           | Some l => if eh x =? l + 1 then evict s (eh x - i_W s)
                       else fold_left evict (filter (fun k => k <=? eh x - i_W s) (akeys (i_h2b s))) s
           | None => evict s (eh x - i_W s)
           end
      else s) = s).
  { destruct (i_W s <=? eh x) eqn:EW; [|reflexivity].
    assert (evict s (eh x - i_W s) = s) by (apply Hev; lia).
    destruct (i_last s) as [l|]; [|assumption]. destruct (eh x =? l + 1); [assumption|].
    assert (filter (fun k => k <=? eh x - i_W s) (akeys (i_h2b s)) = []) as ->; [|reflexivity].
    destruct (filter _ _) as [|k r] eqn:Ef; [reflexivity|]. exfalso.
    assert (Hin : In k (filter (fun k => k <=? eh x - i_W s) (akeys (i_h2b s)))) by (rewrite Ef; left; reflexivity).
    apply filter_In in Hin. destruct Hin as [Hin Hle]. apply In_keys_aget in Hin. destruct Hin as [y Hy].
    apply Hlow in Hy. lia. }
  rewrite H1. reflexivity.
Qed.

(* ------------------------------------------------------------------ the representation invariant *)
(* the highest notified height (the indexer's lastHeight never moves backwards) *)
Definition top_height (bs : list eblock) : option N := fold_left hmax (map eh bs) None.

Lemma top_height_app bs b : top_height (bs ++ [b]) = hmax (top_height bs) (eh b).
Proof. unfold top_height. rewrite map_app, fold_left_app. reflexivity. Qed.

Lemma hmax_fold_spec l : forall o L,
  (forall x, In x l -> x <= L) -> (forall a, o = Some a -> a <= L) -> (In L l \/ o = Some L) ->
  fold_left hmax l o = Some L.
Proof.
  induction l as [|x r IH]; intros o L Hall Ho Hin; cbn [fold_left].
  - destruct Hin as [[]|H]; exact H.
  - apply IH.
    + intros y Hy. apply Hall. right. exact Hy.
    + intros a Ha. unfold hmax in Ha. destruct o as [c|].
      * destruct (c <? x) eqn:E; injection Ha as <-; [apply Hall; left; reflexivity | apply Ho; reflexivity].
      * injection Ha as <-. apply Hall. left. reflexivity.
    + destruct Hin as [[->|Hin]|Hin]; [|left; exact Hin|].
      * right. unfold hmax. destruct o as [c|]; [|reflexivity]. specialize (Ho c eq_refl).
        destruct (c <? L) eqn:E; [reflexivity|]. f_equal. lia.
      * right. subst o. unfold hmax. assert (x <= L) by (apply Hall; left; reflexivity).
        destruct (L <? x) eqn:E; [f_equal; lia | reflexivity].
Qed.

Lemma hmax_fold_inv l : forall o m, fold_left hmax l o = Some m ->
  (In m l \/ o = Some m) /\ (forall x, In x l -> x <= m) /\ (forall a, o = Some a -> a <= m).
Proof.
  induction l as [|x r IH]; intros o m H; cbn [fold_left] in H.
  - split; [right; exact H|]. split; [intros x []|]. intros a Ha. rewrite Ha in H. injection H as <-. lia.
  - apply IH in H. destruct H as [H1 [H2 H3]].
    assert (Hx : x <= m /\ (forall a, o = Some a -> a <= m) /\ (hmax o x = Some m -> x = m \/ o = Some m)).
    { unfold hmax in *. destruct o as [c|].
      - destruct (c <? x) eqn:E.
        + specialize (H3 x eq_refl). split; [lia|]. split; [intros a Ha; injection Ha as <-; lia|].
          intros Hm. injection Hm as ->. left. reflexivity.
        + specialize (H3 c eq_refl). split; [lia|]. split; [intros a Ha; injection Ha as <-; lia|].
          intros Hm. right. exact Hm.
      - specialize (H3 x eq_refl). split; [lia|]. split; [discriminate|].
        intros Hm. injection Hm as ->. left; reflexivity. }
    destruct Hx as [Hx1 [Hx2 Hx3]]. split; [|split].
    + destruct H1 as [H1|H1]; [left; right; exact H1|].
      destruct (Hx3 H1) as [->|Ho]; [left; left; reflexivity | right; exact Ho].
    + intros y [<-|Hy]; [exact Hx1 | apply H2; exact Hy].
    + exact Hx2.
Qed.

(* top_height is the maximum of the notified heights *)
Lemma top_height_spec bs m :
  top_height bs = Some m <-> (exists b, In b bs /\ eh b = m) /\ (forall x, In x bs -> eh x <= m).
Proof.
  unfold top_height. split.
  - intros H. apply hmax_fold_inv in H. destruct H as [[H1|H1] [H2 _]]; [|discriminate].
    split.
    + apply in_map_iff in H1. destruct H1 as [b [Hb1 Hb2]]. exists b. auto.
    + intros x Hx. apply H2. apply in_map. exact Hx.
  - intros [[b [Hb1 Hb2]] Hall]. apply hmax_fold_spec.
    + intros x Hx. apply in_map_iff in Hx. destruct Hx as [y [<- Hy]]. apply Hall. exact Hy.
    + discriminate.
    + left. rewrite <- Hb2. apply in_map. exact Hb1.
Qed.

Lemma top_height_none bs : top_height bs = None <-> bs = [].
Proof.
  split; [|intros ->; reflexivity]. destruct bs as [|b r]; [reflexivity|]. intros H. exfalso.
  unfold top_height in H. cbn [map fold_left hmax] in H.
  destruct (fold_left hmax (map eh r) (Some (eh b))) as [m|] eqn:E; [discriminate|].
  clear H. revert E. generalize (eh b). induction (map eh r) as [|x l IH]; intros a E; cbn [fold_left hmax] in E; [discriminate|].
  destruct (a <? x); eapply IH; exact E.
Qed.

Lemma top_height_In bs l : top_height bs = Some l -> exists x, In x bs /\ eh x = l.
Proof. intros H. apply top_height_spec in H. tauto. Qed.

Record Rep (W : N) (U bs : list eblock) (s : ist) : Prop := mkRep {
  r_W : i_W s = W;
  r_coh : Coh U s;
  r_sub : incl bs U;
  r_h2b : forall k x, aget k (i_h2b s) = Some x <->
            In x bs /\ eh x = k /\ exists l, i_last s = Some l /\ k <= l /\ l < k + W;
  r_le : forall x, In x bs -> exists l, i_last s = Some l /\ eh x <= l;
  r_last : i_last s = top_height bs;
  r_db : forall k, aget k (i_db s) = aget k (i_h2b s);
  r_nd : NoDup (akeys (i_db s))
}.

Lemma rep_init W U : Rep W U [] (init W).
Proof.
  constructor; cbn; auto.
  - constructor; cbn.
    + discriminate.
    + intros i h. split; [discriminate | intros [b [H _]]; discriminate].
    + intros t h idx. split; [discriminate | intros [b [H _]]; discriminate].
  - intros x [].
  - intros k x. split; [discriminate | intros [[] _]].
  - intros x [].
  - constructor.
Qed.

Lemma coh_set_db U s d : Coh U s -> Coh U (set_db s d).
Proof. intros [H1 H2 H3]. constructor; assumption. Qed.

(* a notification that is not ignored: at or above the last height, or below it but inside the window *)
Lemma rep_notify_live W U bs s b consec :
  W <> 0 -> chain_wf U -> In b U -> stale s b = false ->
  consec = match i_last s with None => true | Some l => eh b =? l + 1 end ->
  Rep W U bs s -> Rep W U (bs ++ [b]) (store_block (insert_cache s b) b consec).
Proof.
  intros HW0 Hwf HbU Hlive Hconsec [HW Hc Hsub Hh Hle Hlast Hdb Hnd].
  destruct (insert_cache_spec U s b Hwf HbU Hc) as [Hc1 [Hl1 [HW1 [Hd1 Hh1]]]].
  unfold store_block. set (c := insert_cache s b) in *.
  rewrite HW1, HW, Hd1.
  (* old cache keys are inside the old window *)
  assert (Hold : forall k x, aget k (i_h2b s) = Some x -> exists l, i_last s = Some l /\ k <= l /\ l < k + W).
  { intros k x Hx. apply Hh in Hx. tauto. }
  (* the new last height *)
  assert (HL : exists L, hmax (i_last s) (eh b) = Some L /\ eh b <= L /\ L < eh b + W /\
                 (forall l, i_last s = Some l -> l <= L /\ (L = l \/ (L = eh b /\ l < eh b)))).
  { unfold stale in Hlive. rewrite HW in Hlive. unfold hmax. destruct (i_last s) as [l|].
    - destruct (l <? eh b) eqn:E.
      + exists (eh b). split; [reflexivity|]. split; [lia|]. split; [lia|]. intros l' Hl'. injection Hl' as <-. lia.
      + exists l. split; [reflexivity|]. split; [lia|]. split.
        * destruct (eh b <? l) eqn:E1; destruct (W <=? l - eh b) eqn:E2; cbn [andb] in Hlive; try discriminate; lia.
        * intros l' Hl'. injection Hl' as <-. lia.
    - exists (eh b). split; [reflexivity|]. split; [lia|]. split; [lia|]. discriminate. }
  destruct HL as [L [HL [HL1 [HL2 HL3]]]]. rewrite HL in Hl1.
  assert (HF : forall k, aget k (i_h2b c) = if k =? eh b then Some b else if L <? k + W then aget k (i_h2b s) else None).
  { intros k. rewrite Hh1. destruct (k =? eh b) eqn:Ek; [reflexivity|]. unfold evicted. rewrite HW.
    destruct (aget k (i_h2b s)) as [x|] eqn:Ex.
    - destruct (Hold k x Ex) as [l [Hl [Hkl Hlk]]]. rewrite Hl. destruct (HL3 l Hl) as [HL4 HL5].
      destruct (eh b =? l + 1) eqn:Ec; destruct (W <=? eh b) eqn:EW; destruct (L <? k + W) eqn:Ew; cbn [andb];
        try reflexivity; try (destruct (k =? eh b - W) eqn:E1; try reflexivity; lia);
        try (destruct (k <=? eh b - W) eqn:E1; try reflexivity; lia).
    - destruct (_ && _); destruct (L <? k + W); reflexivity. }
  constructor; cbn [set_db i_W i_h2b i_last i_db i_id2h i_tx].
  - congruence.
  - apply coh_set_db. exact Hc1.
  - intros x Hx. apply in_app_or in Hx. destruct Hx as [Hx|[<-|[]]]; auto.
  - intros k x. rewrite HF, Hl1. destruct (k =? eh b) eqn:Ek.
    + apply N.eqb_eq in Ek. subst k. split.
      * intros H. injection H as <-. split; [apply in_or_app; right; left; reflexivity|]. split; [reflexivity|].
        exists L. split; [reflexivity | lia].
      * intros [Hx [Hxk _]]. f_equal. apply (wf_h U Hwf); auto.
        apply in_app_or in Hx. destruct Hx as [Hx|[<-|[]]]; auto.
    + apply N.eqb_neq in Ek. destruct (L <? k + W) eqn:Ew.
      * rewrite Hh. split.
        -- intros [Hx [Hxk [l [Hl [Hkl Hlk]]]]]. split; [apply in_or_app; left; exact Hx|]. split; [exact Hxk|].
           exists L. destruct (HL3 l Hl) as [HL4 _]. split; [reflexivity | lia].
        -- intros [Hx [Hxk [l' [Hl' [Hkl Hlk]]]]]. injection Hl' as <-.
           apply in_app_or in Hx. destruct Hx as [Hx|[<-|[]]]; [|congruence].
           split; [exact Hx|]. split; [exact Hxk|]. destruct (Hle x Hx) as [l [Hl Hxl]]. exists l.
           destruct (HL3 l Hl) as [HL4 _]. split; [exact Hl | lia].
      * split; [discriminate|]. intros [_ [_ [l' [Hl' [Hkl Hlk]]]]]. injection Hl' as <-. lia.
  - intros x Hx. exists L. split; [exact Hl1|]. apply in_app_or in Hx. destruct Hx as [Hx|[<-|[]]]; [|lia].
    destruct (Hle x Hx) as [l [Hl Hxl]]. destruct (HL3 l Hl) as [HL4 _]. lia.
  - rewrite Hl1, top_height_app, <- Hlast. symmetry. exact HL.
  - intros k. rewrite HF.
    assert (Hd2 : forall k, aget k (if W <=? eh b then adel (eh b - W) (aput (eh b) b (i_db s)) else aput (eh b) b (i_db s)) =
             if (W <=? eh b) && (k =? eh b - W) then None else if k =? eh b then Some b else aget k (i_db s)).
    { intros k'. destruct (W <=? eh b); cbn [andb]; [|apply aget_aput].
      rewrite aget_adel, aget_aput, (N.eqb_sym (eh b - W) k'). reflexivity. }
    destruct (negb consec && (W <? eh b)) eqn:Ef.
    + rewrite aget_afilter, Hd2, Hdb. rewrite Hconsec in Ef.
      destruct (i_last s) as [l|] eqn:El; [|discriminate]. destruct (HL3 l eq_refl) as [HL4 HL5].
      destruct (k =? eh b) eqn:Ek; destruct (k <? eh b - W) eqn:E1; destruct (W <=? eh b) eqn:E2;
        destruct (k =? eh b - W) eqn:E3; destruct (L <? k + W) eqn:E4; cbn [negb andb]; try reflexivity; try lia.
      all: destruct (aget k (i_h2b s)) as [x|] eqn:Ex; try reflexivity;
           destruct (Hold k x Ex) as [l' [Hl' [Hkl Hlk]]]; assert (l' = l) by congruence; subst l'; lia.
    + rewrite Hd2, Hdb. rewrite Hconsec in Ef.
      destruct (k =? eh b) eqn:Ek; destruct (W <=? eh b) eqn:E2;
        destruct (k =? eh b - W) eqn:E3; destruct (L <? k + W) eqn:E4; cbn [negb andb]; try reflexivity; try lia.
      all: destruct (aget k (i_h2b s)) as [x|] eqn:Ex; try reflexivity;
           destruct (Hold k x Ex) as [l [Hl [Hkl Hlk]]]; rewrite Hl in Ef; destruct (HL3 l Hl) as [HL4 HL5];
           destruct (eh b =? l + 1) eqn:E5; cbn [negb andb] in Ef; lia.
  - assert (NoDup (akeys (if W <=? eh b then adel (eh b - W) (aput (eh b) b (i_db s)) else aput (eh b) b (i_db s)))).
    { destruct (W <=? eh b); auto using nodup_adel, nodup_aput. }
    destruct (_ && _); auto using nodup_afilter.
Qed.

(* a notification below the window is ignored: the history grows by a block outside the window *)
Lemma rep_notify_stale W U bs s b :
  In b U -> stale s b = true -> Rep W U bs s -> Rep W U (bs ++ [b]) s.
Proof.
  intros HbU Hst Hr.
  unfold stale in Hst. rewrite (r_W _ _ _ _ Hr) in Hst. destruct (i_last s) as [l|] eqn:El; [|discriminate].
  apply andb_true_iff in Hst. destruct Hst as [Hst1 Hst2].
  destruct Hr as [HW Hc Hsub Hh Hle Hlast Hdb Hnd].
  constructor; auto.
  - intros x Hx. apply in_app_or in Hx. destruct Hx as [Hx|[<-|[]]]; auto.
  - intros k x. rewrite Hh. split.
    + intros [Hx R]. split; [apply in_or_app; left; exact Hx | exact R].
    + intros [Hx [Hxk [l' [Hl' [Hkl Hlk]]]]]. apply in_app_or in Hx. destruct Hx as [Hx|[<-|[]]].
      * split; [exact Hx|]. split; [exact Hxk|]. exists l'. auto.
      * exfalso. assert (l' = l) by congruence. subst l'. lia.
  - intros x Hx. apply in_app_or in Hx. destruct Hx as [Hx|[<-|[]]]; [apply Hle; exact Hx|].
    exists l. split; [exact El | lia].
  - rewrite top_height_app, <- Hlast, El. unfold hmax. destruct (l <? eh b) eqn:E; [lia | reflexivity].
Qed.

Lemma rep_notify W U bs s b :
  W <> 0 -> chain_wf U -> In b U -> Rep W U bs s -> Rep W U (bs ++ [b]) (notify s b).
Proof.
  intros HW0 Hwf HbU Hr. unfold notify. destruct (stale s b) eqn:Est.
  - apply rep_notify_stale; assumption.
  - apply rep_notify_live; auto.
Qed.

(* ------------------------------------------------------------------ reload on restart *)
Lemma ins_sorted_In e l x : In x (ins_sorted e l) <-> x = e \/ In x l.
Proof.
  induction l as [|y r IH]; cbn [ins_sorted In]; [intuition|].
  destruct (fst e <=? fst y); cbn [In]; [intuition | rewrite IH; intuition].
Qed.

Lemma sort_db_In d x : In x (sort_db d) <-> In x d.
Proof.
  induction d as [|y r IH]; cbn [sort_db fold_right In]; [tauto|].
  fold (sort_db r). rewrite ins_sorted_In, IH. intuition.
Qed.

Definition kle (a b : N * eblock) : Prop := fst a <= fst b.

Lemma ins_sorted_sorted e l : StronglySorted kle l -> StronglySorted kle (ins_sorted e l).
Proof.
  induction 1 as [|y r Hs IH Hf]; cbn [ins_sorted]; [repeat constructor|].
  destruct (fst e <=? fst y) eqn:E.
  - constructor; [constructor; assumption|]. constructor; [unfold kle; lia|].
    rewrite Forall_forall in Hf |- *. intros z Hz. specialize (Hf z Hz). unfold kle in *. lia.
  - constructor; [exact IH|]. rewrite Forall_forall in Hf |- *. intros z Hz.
    apply ins_sorted_In in Hz. destruct Hz as [->|Hz]; [unfold kle; lia | apply Hf; exact Hz].
Qed.

Lemma sort_db_sorted d : StronglySorted kle (sort_db d).
Proof.
  induction d as [|y r IH]; cbn [sort_db fold_right]; [constructor|]. apply ins_sorted_sorted. exact IH.
Qed.

Lemma sorted_last_max l d : StronglySorted kle l -> forall e, In e l -> fst e <= fst (last l d).
Proof.
  induction 1 as [|y r Hs IH Hf]; intros e He; [destruct He|].
  destruct r as [|z r'].
  - destruct He as [<-|[]]. cbn. lia.
  - change (last (y :: z :: r') d) with (last (z :: r') d). destruct He as [<-|He]; [|apply IH; exact He].
    rewrite Forall_forall in Hf. assert (Hl : In (last (z :: r') d) (z :: r')).
    { clear. generalize z. induction r' as [|w r IH]; intros z0; [left; reflexivity|].
      change (last (z0 :: w :: r) d) with (last (w :: r) d). right. apply IH. }
    apply Hf in Hl. exact Hl.
Qed.

Lemma rebuild_fold U W L : chain_wf U -> forall l c done,
  i_W c = W -> Coh U c ->
  (forall e, In e l -> eh (snd e) = fst e /\ In (snd e) U /\ fst e <= L /\ L < fst e + W) ->
  (forall k x, aget k (i_h2b c) = Some x <-> In (k, x) done) ->
  (forall k x, In (k, x) done -> L < k + W) ->
  let c' := fold_left (fun c e => insert_cache c (snd e)) l c in
  Coh U c' /\ i_W c' = W /\ i_db c' = i_db c /\
  (forall k x, aget k (i_h2b c') = Some x <-> In (k, x) (done ++ l)) /\
  i_last c' = fold_left hmax (map (fun e => eh (snd e)) l) (i_last c).
Proof.
  intros Hwf. induction l as [|e r IH]; intros c done HW Hc Hent Hdone Hlow; cbn zeta.
  - cbn [fold_left]. rewrite app_nil_r. auto.
  - cbn [fold_left]. destruct (Hent e (or_introl eq_refl)) as [He1 [He2 [He3 He4]]].
    assert (Hpi : insert_cache c (snd e) = pure_insert c (snd e)).
    { apply insert_noevict. intros k y Hy. apply Hdone in Hy. apply Hlow in Hy. rewrite HW. lia. }
    rewrite Hpi.
    assert (Hdone' : forall k x, aget k (i_h2b (pure_insert c (snd e))) = Some x <-> In (k, x) (done ++ [e])).
    { intros k x. cbn [pure_insert set_caches i_h2b]. rewrite aget_aput, in_app_iff. cbn [In].
      destruct (k =? eh (snd e)) eqn:Ek.
      - apply N.eqb_eq in Ek. split.
        + intros H. injection H as <-. right. left. destruct e; cbn in *; congruence.
        + intros [H|[H|[]]].
          * apply Hdone in H. destruct (c_key U c Hc k x H) as [Hxk HxU]. f_equal.
            apply (wf_h U Hwf); auto. congruence.
          * subst e. reflexivity.
      - apply N.eqb_neq in Ek. rewrite Hdone. split; [auto|]. intros [H|[H|[]]]; [exact H|].
        subst e. cbn in *. congruence. }
    destruct (IH (pure_insert c (snd e)) (done ++ [e])) as [Ha [Hb [Hd [Hf Hg]]]].
    + exact HW.
    + apply pure_insert_coh; assumption.
    + intros e' He'. apply Hent. right. exact He'.
    + exact Hdone'.
    + intros k x H. apply in_app_or in H. destruct H as [H|[H|[]]]; [eapply Hlow; eauto|].
      subst e. cbn in *. exact He4.
    + split; [exact Ha|]. split; [exact Hb|]. split; [exact Hd|]. split.
      * intros k x. rewrite Hf, <- app_assoc. reflexivity.
      * rewrite Hg. reflexivity.
Qed.

Lemma rep_restart W U bs s : W <> 0 -> chain_wf U -> Rep W U bs s ->
  Rep W U bs (restart s W) /\ i_last (restart s W) = i_last s.
Proof.
  intros HW0 Hwf [HW Hc Hsub Hh Hle Hlast Hdb Hnd].
  unfold restart. set (s0 := mkI W [] [] [] None (i_db s)).
  (* facts about the stored entries *)
  assert (Hent : forall e, In e (i_db s) -> aget (fst e) (i_h2b s) = Some (snd e)).
  { intros [k x] He. cbn [fst snd]. rewrite <- Hdb. apply In_aget_nodup; assumption. }
  assert (Hc0 : Coh U s0).
  { constructor; cbn.
    - discriminate.
    - intros i h. split; [discriminate | intros [b [H _]]; discriminate].
    - intros t h idx. split; [discriminate | intros [b [H _]]; discriminate]. }
  destruct (i_last s) as [L|] eqn:EL.
  - pose proof (rebuild_fold U W L Hwf (sort_db (i_db s)) s0 [] eq_refl Hc0) as HR.
    cbn zeta in HR. destruct HR as [Ha [Hb [Hd [Hf Hg]]]].
    + intros e He. apply (proj1 (sort_db_In _ _)) in He. apply Hent in He. apply Hh in He.
      destruct He as [Hx [Hxk [l [Hl [Hkl Hlk]]]]]. injection Hl as <-. split; [exact Hxk|]. auto.
    + intros k x. cbn. split; [discriminate | intros []].
    + intros k x [].
    + cbn [app] in Hf. set (s1 := fold_left _ _ s0) in *.
      (* the reloaded height->block map is the store, which was the old map *)
      assert (Hsame : forall k, aget k (i_h2b s1) = aget k (i_h2b s)).
      { intros k. apply opt_ext. intros x. rewrite Hf, sort_db_In. split.
        - intros H. apply Hent in H. exact H.
        - intros H. rewrite <- Hdb in H. apply aget_In. exact H. }
      (* last height *)
      destruct (top_height_In bs L (eq_sym Hlast)) as [xL [HxL HxLh]].
      assert (HL : aget L (i_h2b s) = Some xL) by (apply Hh; split; [exact HxL|]; split; [exact HxLh|]; exists L; split; [reflexivity | lia]).
      assert (HinL : In (L, xL) (sort_db (i_db s))) by (apply (proj2 (sort_db_In _ _)), aget_In; rewrite Hdb; exact HL).
      assert (Hlast1 : i_last s1 = Some L).
      { rewrite Hg. cbn [s0 i_last]. apply hmax_fold_spec.
        - intros y Hy. apply in_map_iff in Hy. destruct Hy as [e [<- He]].
          apply (proj1 (sort_db_In _ _)) in He. apply Hent in He. apply Hh in He.
          destruct He as [_ [Hek [l [Hl [Hkl _]]]]]. injection Hl as <-. lia.
        - discriminate.
        - left. apply in_map_iff. exists (L, xL). split; [exact HxLh | exact HinL]. }
      rewrite Hlast1.
      assert (Hrep1 : forall d', (forall k, aget k d' = aget k (i_db s)) -> NoDup (akeys d') -> Rep W U bs (set_db s1 d')).
      { intros d' Hd' Hnd'. constructor; cbn [set_db i_W i_h2b i_last i_db i_id2h i_tx].
        - exact Hb.
        - apply coh_set_db. exact Ha.
        - exact Hsub.
        - intros k x. rewrite Hsame, Hlast1. apply Hh.
        - intros x Hx. rewrite Hlast1. apply Hle. exact Hx.
        - rewrite Hlast1. exact Hlast.
        - intros k. rewrite Hd', Hsame. apply Hdb.
        - exact Hnd'. }
      destruct (W <? L) eqn:EWL.
      * split; [|cbn [set_db i_last]; exact Hlast1]. apply Hrep1.
        -- intros k. rewrite Hd. cbn [s0 i_db]. rewrite aget_afilter. destruct (k <? L - W) eqn:Ek; cbn [negb]; [|reflexivity].
           symmetry. rewrite Hdb. destruct (aget k (i_h2b s)) as [x|] eqn:Ex; [|reflexivity].
           apply Hh in Ex. destruct Ex as [_ [_ [l [Hl [Hkl Hlk]]]]]. injection Hl as <-. lia.
        -- rewrite Hd. cbn [s0 i_db]. apply nodup_afilter. exact Hnd.
      * split; [|exact Hlast1]. replace s1 with (set_db s1 (i_db s1)) by (destruct s1; reflexivity). apply Hrep1.
        -- intros k. rewrite Hd. reflexivity.
        -- rewrite Hd. exact Hnd.
  - (* nothing was ever notified: empty store *)
    assert (Hbs : bs = []).
    { destruct bs as [|x r]; [reflexivity|]. destruct (Hle x (or_introl eq_refl)) as [l [Hl _]]. discriminate. }
    assert (Hempty : i_db s = []).
    { destruct (i_db s) as [|[k x] r] eqn:Ed; [reflexivity|]. exfalso.
      assert (H : aget k (i_h2b s) = Some x) by (rewrite <- Hdb; cbn [aget]; rewrite N.eqb_refl; reflexivity).
      apply Hh in H. destruct H as [_ [_ [l [Hl _]]]]. discriminate. }
    subst s0. rewrite Hempty. cbn [sort_db fold_right fold_left i_last].
    split; [|reflexivity]. subst bs. apply rep_init.
Qed.

(* ------------------------------------------------------------------ histories *)
Fixpoint notifs (ops : list iop) : list eblock :=
  match ops with
  | [] => []
  | INotify b :: r => b :: notifs r
  | IRestart _ :: r => notifs r
  end.

Definition same_window (W : N) (ops : list iop) : Prop := forall W', In (IRestart W') ops -> W' = W.

Lemma irun_cons s o ops : irun s (o :: ops) = irun (istep s o) ops.
Proof. reflexivity. Qed.
Lemma irun_app s a b : irun s (a ++ b) = irun (irun s a) b.
Proof. unfold irun. apply fold_left_app. Qed.
Lemma notifs_app a b : notifs (a ++ b) = notifs a ++ notifs b.
Proof. induction a as [|o a IH]; [reflexivity|]. destruct o; cbn [app notifs]; rewrite IH; reflexivity. Qed.

Lemma rep_run W U : W <> 0 -> chain_wf U -> forall ops s bs,
  Rep W U bs s -> incl (notifs ops) U -> same_window W ops ->
  Rep W U (bs ++ notifs ops) (irun s ops).
Proof.
  intros HW0 Hwf. induction ops as [|o r IH]; intros s bs Hrep Hincl Hsw.
  - cbn [notifs irun fold_left]. rewrite app_nil_r. exact Hrep.
  - rewrite irun_cons. destruct o as [b|W']; cbn [notifs istep] in *.
    + replace (bs ++ b :: notifs r) with ((bs ++ [b]) ++ notifs r) by (rewrite <- app_assoc; reflexivity).
      assert (Hrep' : Rep W U (bs ++ [b]) (notify s b)).
      { apply rep_notify; auto. apply Hincl. left. reflexivity. }
      apply IH; [exact Hrep' | |].
      * intros x Hx. apply Hincl. right. exact Hx.
      * intros W' H. apply Hsw. right. exact H.
    + assert (W' = W) by (apply Hsw; left; reflexivity). subst W'.
      destruct (rep_restart W U bs s HW0 Hwf Hrep) as [Hrep' Hl].
      apply IH; [exact Hrep' | exact Hincl |].
      intros W' H. apply Hsw. right. exact H.
Qed.

Theorem rep_reach W U ops : W <> 0 -> chain_wf U -> incl (notifs ops) U -> same_window W ops ->
  Rep W U (notifs ops) (irun (init W) ops).
Proof.
  intros HW0 Hwf Hincl Hsw. apply (rep_run W U HW0 Hwf ops (init W) []); auto. apply rep_init.
Qed.

(* ------------------------------------------------------------------ answers are determined by the history *)
(* height h is inside the window of a history whose last notified height is [last] *)
Definition inwin (W : N) (last : option N) (h : N) : Prop := exists l, last = Some l /\ h <= l /\ l < h + W.

Lemma rep_by_height W U bs s : Rep W U bs s -> forall h b,
  get_by_height s h = Some b <-> In b bs /\ eh b = h /\ inwin W (top_height bs) h.
Proof. intros Hr h b. unfold get_by_height, inwin. rewrite <- (r_last _ _ _ _ Hr). apply (r_h2b _ _ _ _ Hr). Qed.

Lemma rep_by_id W U bs s : chain_wf U -> Rep W U bs s -> forall i b,
  get_block s i = Some b <-> In b bs /\ eid b = i /\ inwin W (top_height bs) (eh b).
Proof.
  intros Hwf Hr i b. unfold get_block. pose proof (r_coh _ _ _ _ Hr) as Hc.
  destruct (aget i (i_id2h s)) as [h|] eqn:Ei.
  - apply (c_id U s Hc) in Ei. destruct Ei as [x [Hx Hxi]].
    destruct (c_key U s Hc h x Hx) as [Hxh HxU].
    pose proof (proj1 (rep_by_height W U bs s Hr h x) Hx) as [Hxb [_ Hxw]].
    unfold get_by_height. rewrite Hx. split.
    + intros H. injection H as <-. rewrite Hxh. auto.
    + intros [Hb [Hbi Hw]]. f_equal. apply (wf_id U Hwf); [exact HxU | apply (r_sub _ _ _ _ Hr); exact Hb | congruence].
  - split; [discriminate|]. intros [Hb [Hbi Hw]]. exfalso.
    assert (Hx : aget (eh b) (i_h2b s) = Some b) by (apply (rep_by_height W U bs s Hr); auto).
    assert (aget i (i_id2h s) = Some (eh b)) by (apply (c_id U s Hc); eauto). congruence.
Qed.

Lemma rep_tx_found W U bs s : chain_wf U -> Rep W U bs s -> forall t b p,
  In b bs -> inwin W (top_height bs) (eh b) -> nth_error (etxs b) p = Some t ->
  exists r, nth_error (eres b) p = Some r /\ get_tx s t = TxFound t (ets b) r.
Proof.
  intros Hwf Hr t b p Hb Hw Hp. pose proof (r_coh _ _ _ _ Hr) as Hc.
  assert (Hx : aget (eh b) (i_h2b s) = Some b) by (apply (rep_by_height W U bs s Hr); auto).
  assert (Htx : aget t (i_tx s) = Some (eh b, N.of_nat p)).
  { apply (c_tx U s Hc). exists b. rewrite Nnat.Nat2N.id. auto. }
  assert (HbU : In b U) by (apply (r_sub _ _ _ _ Hr); exact Hb).
  destruct (nth_error (eres b) p) as [r|] eqn:Er.
  - exists r. split; [reflexivity|]. unfold get_tx. rewrite Htx, Hx, Nnat.Nat2N.id, Hp, Er. reflexivity.
  - exfalso. apply nth_error_None in Er. rewrite (wf_res U Hwf b HbU) in Er.
    assert (nth_error (etxs b) p <> None) by congruence. apply nth_error_Some in H. lia.
Qed.

Lemma rep_tx_none W U bs s : chain_wf U -> Rep W U bs s -> forall t,
  (forall b, In b bs -> inwin W (top_height bs) (eh b) -> ~ In t (etxs b)) -> get_tx s t = TxNone.
Proof.
  intros Hwf Hr t Hno. pose proof (r_coh _ _ _ _ Hr) as Hc. unfold get_tx.
  destruct (aget t (i_tx s)) as [[h idx]|] eqn:Et; [|reflexivity]. exfalso.
  apply (c_tx U s Hc) in Et. destruct Et as [b [Hb Hbt]].
  apply (rep_by_height W U bs s Hr) in Hb. destruct Hb as [Hb [Hbh Hw]]. subst h.
  apply (Hno b Hb Hw). eapply nth_error_In. exact Hbt.
Qed.

Lemma rep_latest W U bs s : W <> 0 -> Rep W U bs s ->
  match top_height bs with
  | None => get_latest s = (1, None)
  | Some l => exists b, In b bs /\ eh b = l /\ get_latest s = (0, Some b)
  end.
Proof.
  intros HW0 Hr. unfold get_latest. rewrite (r_last _ _ _ _ Hr).
  destruct (top_height bs) as [l|] eqn:El; [|reflexivity].
  destruct (top_height_In bs l El) as [b [Hb Hbl]]. exists b. split; [exact Hb|]. split; [exact Hbl|].
  assert (get_by_height s l = Some b) as ->; [|reflexivity].
  apply (rep_by_height W U bs s Hr). split; [exact Hb|]. split; [exact Hbl|]. exists l. rewrite El. split; [reflexivity | lia].
Qed.

(* two states representing the same history give the same answers *)
Definition answers_eq (s1 s2 : ist) : Prop :=
  (forall h, get_by_height s1 h = get_by_height s2 h) /\ (forall i, get_block s1 i = get_block s2 i) /\
  (forall t, get_tx s1 t = get_tx s2 t) /\ get_latest s1 = get_latest s2.

Lemma rep_answers_eq W U bs s1 s2 : W <> 0 -> chain_wf U -> Rep W U bs s1 -> Rep W U bs s2 -> answers_eq s1 s2.
Proof.
  intros HW0 Hwf H1 H2.
  assert (Hh : forall h, get_by_height s1 h = get_by_height s2 h).
  { intros h. apply opt_ext. intros x. rewrite (rep_by_height W U bs s1 H1), (rep_by_height W U bs s2 H2). reflexivity. }
  split; [exact Hh|]. split; [|split].
  - intros i. apply opt_ext. intros x. rewrite (rep_by_id W U bs s1 Hwf H1), (rep_by_id W U bs s2 Hwf H2). reflexivity.
  - intros t. pose proof (r_coh _ _ _ _ H1) as C1. pose proof (r_coh _ _ _ _ H2) as C2.
    assert (Htx : aget t (i_tx s1) = aget t (i_tx s2)).
    { apply opt_ext. intros [h idx]. rewrite (c_tx U s1 C1), (c_tx U s2 C2).
      split; intros [b [Hb Hbt]]; exists b; (split; [|exact Hbt]).
      - specialize (Hh h). unfold get_by_height in Hh. congruence.
      - specialize (Hh h). unfold get_by_height in Hh. congruence. }
    unfold get_tx. rewrite Htx. destruct (aget t (i_tx s2)) as [[h idx]|]; [|reflexivity].
    specialize (Hh h). unfold get_by_height in Hh. rewrite Hh. reflexivity.
  - unfold get_latest. rewrite (r_last _ _ _ _ H1), (r_last _ _ _ _ H2). destruct (top_height bs) as [l|]; [|reflexivity].
    rewrite (Hh l). reflexivity.
Qed.

Lemma rep_set_ext W U bs bs' s : Rep W U bs s -> (forall x, In x bs <-> In x bs') -> top_height bs = top_height bs' ->
  Rep W U bs' s.
Proof.
  intros [HW Hc Hsub Hh Hle Hlast Hdb Hnd] Hext Hl. constructor; auto.
  - intros x Hx. apply Hsub. apply Hext. exact Hx.
  - intros k x. rewrite Hh, Hext. reflexivity.
  - intros x Hx. apply Hle. apply Hext. exact Hx.
  - congruence.
Qed.

(* ------------------------------------------------------------------ the three property statements *)
Theorem window_answers W ops :
  W <> 0 -> chain_wf (notifs ops) -> same_window W ops ->
  let s := irun (init W) ops in
  let bs := notifs ops in
  (forall h b, get_by_height s h = Some b <-> In b bs /\ eh b = h /\ inwin W (top_height bs) h) /\
  (forall i b, get_block s i = Some b <-> In b bs /\ eid b = i /\ inwin W (top_height bs) (eh b)) /\
  (forall t b p, In b bs -> inwin W (top_height bs) (eh b) -> nth_error (etxs b) p = Some t ->
     exists r, nth_error (eres b) p = Some r /\ get_tx s t = TxFound t (ets b) r) /\
  (forall t, (forall b, In b bs -> inwin W (top_height bs) (eh b) -> ~ In t (etxs b)) -> get_tx s t = TxNone) /\
  match top_height bs with
  | None => get_latest s = (1, None)
  | Some l => exists b, In b bs /\ eh b = l /\ get_latest s = (0, Some b)
  end.
Proof.
  intros HW0 Hwf Hsw s bs.
  assert (Hr : Rep W bs bs s) by (apply rep_reach; auto using incl_refl).
  split; [apply (rep_by_height W bs bs s Hr)|]. split; [apply (rep_by_id W bs bs s Hwf Hr)|].
  split; [apply (rep_tx_found W bs bs s Hwf Hr)|]. split; [apply (rep_tx_none W bs bs s Hwf Hr)|].
  apply (rep_latest W bs bs s HW0 Hr).
Qed.

Theorem restart_stable W ops1 ops2 :
  W <> 0 -> chain_wf (notifs (ops1 ++ ops2)) -> same_window W (ops1 ++ ops2) ->
  answers_eq (irun (init W) (ops1 ++ IRestart W :: ops2)) (irun (init W) (ops1 ++ ops2)).
Proof.
  intros HW0 Hwf Hsw.
  assert (Hn : notifs (ops1 ++ IRestart W :: ops2) = notifs (ops1 ++ ops2)) by (rewrite !notifs_app; reflexivity).
  apply (rep_answers_eq W (notifs (ops1 ++ ops2)) (notifs (ops1 ++ ops2))); auto.
  - rewrite <- Hn at 2. apply rep_reach; auto.
    + rewrite Hn. apply incl_refl.
    + intros W' H. apply in_app_or in H. destruct H as [H|[H|H]].
      * apply Hsw. apply in_or_app. left. exact H.
      * congruence.
      * apply Hsw. apply in_or_app. right. exact H.
  - apply rep_reach; auto using incl_refl.
Qed.

Lemma top_height_absorb bs b : In b bs -> hmax (top_height bs) (eh b) = top_height bs.
Proof.
  intros Hb. destruct (top_height bs) as [m|] eqn:E.
  - apply top_height_spec in E. destruct E as [_ Hall]. specialize (Hall b Hb). unfold hmax.
    destruct (m <? eh b) eqn:E1; [lia | reflexivity].
  - apply top_height_none in E. subst bs. destruct Hb.
Qed.

(* delivering ANY already notified block once more (the last one, or an older one) changes no answer *)
Theorem redelivery_idempotent W ops b :
  W <> 0 -> In b (notifs ops) -> chain_wf (notifs ops) -> same_window W ops ->
  answers_eq (irun (init W) (ops ++ [INotify b])) (irun (init W) ops).
Proof.
  intros HW0 Hb Hwf Hsw.
  apply (rep_answers_eq W (notifs ops) (notifs ops)); auto; [|apply rep_reach; auto using incl_refl].
  apply (rep_set_ext W (notifs ops) (notifs (ops ++ [INotify b]))).
  - apply rep_reach; auto.
    + rewrite notifs_app. cbn [notifs]. intros x Hx. apply in_app_or in Hx. destruct Hx as [Hx|[<-|[]]]; auto.
    + intros W' H. apply in_app_or in H. destruct H as [H|[H|[]]]; [apply Hsw; exact H | discriminate].
  - intros x. rewrite notifs_app. cbn [notifs]. rewrite in_app_iff. cbn [In]. split; [intros [H|[<-|[]]]; auto | auto].
  - rewrite notifs_app. cbn [notifs]. rewrite top_height_app. apply top_height_absorb. exact Hb.
Qed.

Lemma chain_wf_incl A B : incl A B -> chain_wf B -> chain_wf A.
Proof.
  intros Hi [H1 H2 H3 H4]. constructor.
  - intros b1 b2 Ha Hb. apply H1; apply Hi; assumption.
  - intros b1 b2 Ha Hb. apply H2; apply Hi; assumption.
  - intros b1 b2 i1 i2 t Ha Hb. apply H3; apply Hi; assumption.
  - intros b Hb. apply H4. apply Hi. exact Hb.
Qed.

(* the height GetLatestBlock reports *)
Definition latest_height (s : ist) : option N :=
  match snd (get_latest s) with Some b => Some (eh b) | None => None end.

Lemma latest_height_top W ops :
  W <> 0 -> chain_wf (notifs ops) -> same_window W ops ->
  latest_height (irun (init W) ops) = top_height (notifs ops).
Proof.
  intros HW0 Hwf Hsw. destruct (window_answers W ops HW0 Hwf Hsw) as [_ [_ [_ [_ H]]]]. cbv zeta in H.
  unfold latest_height. destruct (top_height (notifs ops)) as [l|].
  - destruct H as [b [_ [Hbl ->]]]. cbn [snd]. congruence.
  - rewrite H. reflexivity.
Qed.

(* the repaired defect, part 1: no notification (newer, repeated or older) moves GetLatestBlock backwards *)
Theorem latest_monotone W ops b l :
  W <> 0 -> chain_wf (notifs (ops ++ [INotify b])) -> same_window W ops ->
  latest_height (irun (init W) ops) = Some l ->
  exists l', latest_height (irun (init W) (ops ++ [INotify b])) = Some l' /\ l <= l' /\ eh b <= l'.
Proof.
  intros HW0 Hwf Hsw Hl.
  assert (Hwf0 : chain_wf (notifs ops)).
  { apply (chain_wf_incl _ (notifs (ops ++ [INotify b]))); [|exact Hwf].
    rewrite notifs_app. intros x Hx. apply in_or_app. left. exact Hx. }
  assert (Hsw1 : same_window W (ops ++ [INotify b])).
  { intros W' H. apply in_app_or in H. destruct H as [H|[H|[]]]; [apply Hsw; exact H | discriminate]. }
  rewrite (latest_height_top W ops HW0 Hwf0 Hsw) in Hl.
  rewrite (latest_height_top W _ HW0 Hwf Hsw1), notifs_app. cbn [notifs]. rewrite top_height_app, Hl.
  unfold hmax. destruct (l <? eh b) eqn:E; eexists; (split; [reflexivity | lia]).
Qed.

(* the repaired defect, part 2: at most W heights are served at any time *)
Theorem served_at_most_window W ops (hs : list N) :
  W <> 0 -> chain_wf (notifs ops) -> same_window W ops ->
  NoDup hs -> (forall h, In h hs -> get_by_height (irun (init W) ops) h <> None) ->
  N.of_nat (length hs) <= W.
Proof.
  intros HW0 Hwf Hsw Hnd Hserved.
  destruct (window_answers W ops HW0 Hwf Hsw) as [Hh _]. cbv zeta in Hh.
  destruct hs as [|h0 r] eqn:Ehs; [cbn; lia|]. rewrite <- Ehs in *.
  assert (Hin0 : In h0 hs) by (rewrite Ehs; left; reflexivity).
  destruct (get_by_height (irun (init W) ops) h0) as [b0|] eqn:E0; [|exfalso; apply (Hserved h0 Hin0); exact E0].
  apply Hh in E0. destruct E0 as [_ [_ [L [HL _]]]].
  assert (Hbound : forall h, In h hs -> (L + 1 - W) <= h /\ h < (L + 1 - W) + N.of_nat (N.to_nat W)).
  { intros h Hin. destruct (get_by_height (irun (init W) ops) h) as [x|] eqn:E; [|exfalso; apply (Hserved h Hin); exact E].
    apply Hh in E. destruct E as [_ [_ [L' [HL' [H1 H2]]]]]. assert (L' = L) by congruence. subst L'. lia. }
  pose proof (NoDup_interval_length hs (L + 1 - W) (N.to_nat W) Hnd Hbound). lia.
Qed.

(* deliveries whose heights never decrease (consecutive, gaps, repeats): the highest height is the last one *)
Definition last_height (bs : list eblock) : option N :=
  match rev bs with [] => None | b :: _ => Some (eh b) end.

Fixpoint monoL (last : option N) (bs : list eblock) : Prop :=
  match bs with
  | [] => True
  | b :: r => (forall l, last = Some l -> l <= eh b) /\ monoL (Some (eh b)) r
  end.

Lemma mono_fold bs : forall o, monoL o bs ->
  fold_left hmax (map eh bs) o = match rev bs with [] => o | b :: _ => Some (eh b) end.
Proof.
  induction bs as [|b r IH]; intros o Hm; [reflexivity|].
  destruct Hm as [Hm1 Hm2]. cbn [map fold_left rev].
  assert (Hb : hmax o (eh b) = Some (eh b)).
  { unfold hmax. destruct o as [l|]; [|reflexivity]. specialize (Hm1 l eq_refl).
    destruct (l <? eh b) eqn:E; [reflexivity|]. f_equal. lia. }
  rewrite Hb, (IH _ Hm2). destruct (rev r) as [|x t]; reflexivity.
Qed.

Theorem mono_top_last bs : monoL None bs -> top_height bs = last_height bs.
Proof. intros Hm. unfold top_height, last_height. rewrite (mono_fold bs None Hm). destruct (rev bs); reflexivity. Qed.

(* decidable well-formedness for the examples *)
Fixpoint nodupNb (l : list N) : bool :=
  match l with [] => true | x :: r => negb (memN x r) && nodupNb r end.

Lemma nodupNb_spec l : nodupNb l = true -> NoDup l.
Proof.
  induction l as [|x r IH]; cbn [nodupNb]; [constructor|].
  intros H. apply andb_true_iff in H. destruct H as [H1 H2]. constructor; [|auto].
  intros Hin. apply memN_In in Hin. rewrite Hin in H1. discriminate.
Qed.

(* blocks listed with pairwise distinct heights, ids and transactions, one result per transaction *)
Definition table_wfb (t : list eblock) : bool :=
  nodupNb (map eh t) && nodupNb (map eid t) && nodupNb (flat_map etxs t) &&
  forallb (fun b => Nat.eqb (length (eres b)) (length (etxs b))) t.

Lemma NoDup_map_inj {A} (f : A -> N) l x y : NoDup (map f l) -> In x l -> In y l -> f x = f y -> x = y.
Proof.
  induction l as [|z r IH]; cbn [map]; intros Hnd Hx Hy Hf; [destruct Hx|].
  inversion Hnd as [|a l' Hni Hnd']; subst.
  destruct Hx as [->|Hx], Hy as [->|Hy]; auto.
  - exfalso. apply Hni. rewrite Hf. apply in_map. exact Hy.
  - exfalso. apply Hni. rewrite <- Hf. apply in_map. exact Hx.
Qed.

Lemma nodup_app_left {A} (a b : list A) : NoDup (a ++ b) -> NoDup a.
Proof.
  induction a as [|x a IH]; cbn [app]; intros H; [constructor|].
  inversion H as [|y l Hni Hnd]; subst. constructor; [|auto]. intros Hin. apply Hni. apply in_or_app. left. exact Hin.
Qed.
Lemma nodup_app_right {A} (a b : list A) : NoDup (a ++ b) -> NoDup b.
Proof. induction a as [|x a IH]; cbn [app]; intros H; [exact H|]. inversion H; subst. auto. Qed.

Lemma flat_nodup_tx (t : list eblock) : NoDup (flat_map etxs t) ->
  forall b1 b2 i1 i2 x, In b1 t -> In b2 t -> nth_error (etxs b1) i1 = Some x -> nth_error (etxs b2) i2 = Some x ->
  b1 = b2 /\ i1 = i2.
Proof.
  induction t as [|z r IH]; cbn [flat_map]; intros Hnd b1 b2 i1 i2 x H1 H2 Hn1 Hn2; [destruct H1|].
  assert (Hl : NoDup (etxs z)) by (eapply nodup_app_left; exact Hnd).
  assert (Hr : NoDup (flat_map etxs r)) by (eapply nodup_app_right; exact Hnd).
  assert (Hdisj : forall y b, In b r -> In y (etxs z) -> In y (etxs b) -> False).
  { intros y b Hb Hyz Hyb. clear -Hnd Hb Hyz Hyb. induction (etxs z) as [|w l IHl]; [destruct Hyz|].
    cbn [app] in Hnd. inversion Hnd as [|a l' Hni Hnd']; subst. destruct Hyz as [->|Hyz].
    - apply Hni. apply in_or_app. right. apply in_flat_map. exists b. auto.
    - apply IHl; assumption. }
  destruct H1 as [<-|H1], H2 as [<-|H2].
  - split; [reflexivity|]. apply (proj1 (NoDup_nth_error (etxs z)) Hl); [|congruence].
    apply nth_error_Some. congruence.
  - exfalso. eapply Hdisj; eauto using nth_error_In.
  - exfalso. eapply Hdisj; eauto using nth_error_In.
  - eapply IH; eauto.
Qed.

Lemma table_wfb_spec t : table_wfb t = true -> chain_wf t.
Proof.
  unfold table_wfb. rewrite !andb_true_iff. intros [[[H1 H2] H3] H4].
  apply nodupNb_spec in H1, H2, H3. rewrite forallb_forall in H4. constructor.
  - intros b1 b2 Hb1 Hb2. apply (NoDup_map_inj eh t); assumption.
  - intros b1 b2 Hb1 Hb2. apply (NoDup_map_inj eid t); assumption.
  - intros b1 b2 i1 i2 x Hb1 Hb2. apply (flat_nodup_tx t); assumption.
  - intros b Hb. apply PeanoNat.Nat.eqb_eq. apply H4. exact Hb.
Qed.
