(* AcceptPipeline_proofs.v — reachable-state invariant of the accept pipeline and what recovery does on it (C18). *)
From Coq Require Import List NArith Bool Lia ZifyN ZifyNat ZifyBool.
Import ListNotations.
From HV Require Import Model.AcceptPipeline.
Local Open Scope N_scope.

(* ---- upto / nondecb / proj ------------------------------------------------------------------------------------ *)

Lemma upto_snoc a len : upto a len ++ [a + N.of_nat len] = upto a (S len).
Proof.
  revert a; induction len as [|len IH]; intros a.
  - cbn [upto app N.of_nat]. now rewrite N.add_0_r.
  - change (upto a (S len)) with (a :: upto (N.succ a) len).
    change (upto a (S (S len))) with (a :: upto (N.succ a) (S len)).
    cbn [app]. f_equal. rewrite <- IH. do 2 f_equal. lia.
Qed.

Lemma upto_length a len : length (upto a len) = len.
Proof. revert a; induction len as [|len IH]; intros a; cbn [upto length]; [reflexivity | now rewrite IH]. Qed.

Lemma In_upto x a len : In x (upto a len) <-> a <= x /\ x < a + N.of_nat len.
Proof.
  revert a; induction len as [|len IH]; intros a.
  - cbn [upto In]. lia.
  - cbn [upto In]. rewrite IH. lia.
Qed.

Lemma nondecb_app_one l y :
  nondecb l = true -> (forall x, In x l -> x <= y) -> nondecb (l ++ [y]) = true.
Proof.
  induction l as [|x r IH]; intros Hs Hle.
  - reflexivity.
  - cbn [app]. destruct r as [|z r'].
    + cbn [app nondecb]. rewrite andb_true_r. apply N.leb_le. apply Hle. now left.
    + cbn [nondecb] in Hs. apply andb_true_iff in Hs as [Hxz Hr].
      change ((z :: r') ++ [y]) with (z :: (r' ++ [y])).
      cbn [nondecb]. rewrite Hxz. cbn [andb].
      change (z :: (r' ++ [y])) with ((z :: r') ++ [y]). apply IH.
      * exact Hr.
      * intros w Hw. apply Hle. now right.
Qed.

Lemma nondecb_upto a len : nondecb (upto a len) = true.
Proof.
  revert a; induction len as [|len IH]; intros a.
  - reflexivity.
  - cbn [upto]. specialize (IH (N.succ a)). destruct len as [|len'].
    + reflexivity.
    + cbn [upto] in *. cbn [nondecb] in *. rewrite IH. rewrite andb_true_r. apply N.leb_le. lia.
Qed.

Lemma proj_app j a b : proj j (a ++ b) = proj j a ++ proj j b.
Proof. unfold proj. now rewrite filter_app, map_app. Qed.

Lemma proj_prefix j h a m :
  proj j (map (fun x => (x, h)) (upto a m)) = if (a <=? j) && (j <? a + N.of_nat m) then [h] else [].
Proof.
  revert a; induction m as [|m IH]; intros a.
  - cbn [upto map]. unfold proj. cbn [filter map].
    destruct (a <=? j) eqn:E1; destruct (j <? a + N.of_nat 0) eqn:E2; cbn [andb]; try reflexivity. lia.
  - cbn [upto map]. unfold proj in *. cbn [filter fst]. destruct (a =? j) eqn:Eaj.
    + cbn [map snd]. rewrite IH.
      apply N.eqb_eq in Eaj. subst a.
      replace (N.succ j <=? j) with false by lia. cbn [andb].
      replace (j <=? j) with true by lia. replace (j <? j + N.of_nat (S m)) with true by lia. reflexivity.
    + rewrite IH. apply N.eqb_neq in Eaj.
      destruct (N.succ a <=? j) eqn:E1; destruct (j <? N.succ a + N.of_nat m) eqn:E2;
        destruct (a <=? j) eqn:E3; destruct (j <? a + N.of_nat (S m)) eqn:E4; cbn [andb]; try reflexivity; lia.
Qed.

Lemma proj_notify_all ns j h : j < ns -> proj j (notify_all ns h) = [h].
Proof.
  intros Hj. unfold notify_all. rewrite proj_prefix.
  replace (0 <=? j) with true by lia. replace (j <? 0 + N.of_nat (N.to_nat ns)) with true by lia. reflexivity.
Qed.

Definition full_log (ns b : N) : list event := flat_map (notify_all ns) (upto 0 (S (N.to_nat b))).

Lemma proj_flat_notify ns j l : j < ns -> proj j (flat_map (notify_all ns) l) = l.
Proof.
  intros Hj. induction l as [|h l IH].
  - reflexivity.
  - cbn [flat_map]. rewrite proj_app, proj_notify_all by exact Hj. cbn [app]. now rewrite IH.
Qed.

Lemma full_log_succ ns h : 1 <= h -> full_log ns (N.pred h) ++ notify_all ns h = full_log ns h.
Proof.
  intros Hh. unfold full_log.
  replace (S (N.to_nat h)) with (S (S (N.to_nat (N.pred h)))) by lia.
  rewrite <- (upto_snoc 0 (S (N.to_nat (N.pred h)))).
  rewrite flat_map_app. cbn [flat_map]. rewrite app_nil_r.
  do 2 f_equal. lia.
Qed.

(* ---- the invariant of reachable states -------------------------------------------------------------------------- *)

Definition cur_list (s : state) : list N := match st_cur s with Some (h, _) => [h] | None => [] end.
Definition pend_list (s : state) : list N := match st_pend s with Some h => [h] | None => [] end.

(* highest block fully processed (all subscribers notified) *)
Definition done_h (s : state) : N :=
  match st_cur s with
  | Some (_, SCommitted _) => N.pred (p_state (st_p s))
  | _ => p_state (st_p s)
  end.

Definition partial_log (s : state) : list event :=
  match st_cur s with
  | Some (h, SCommitted j) => map (fun x => (x, h)) (upto 0 (N.to_nat j))
  | _ => []
  end.

Definition cur_ok (ns : N) (s : state) : Prop :=
  let p := st_p s in
  match st_cur s with
  | None => p_results p = p_state p
  | Some (h, SGot) => h = N.succ (p_state p) /\ p_results p = p_state p
  | Some (h, SWrote) => h = N.succ (p_state p) /\ p_results p = h
  | Some (h, SCommitted j) => h = p_state p /\ p_results p = h /\ j <= ns /\ 1 <= h
  end.

Record inv (ns : N) (s : state) : Prop := mkInv {
  inv_cur : cur_ok ns s;
  inv_log : st_log s = full_log ns (done_h s) ++ partial_log s;
  inv_chain : exists len : nat,
      cur_list s ++ st_queue s ++ pend_list s = upto (N.succ (done_h s)) len
      /\ p_index (st_p s) = done_h s + N.of_nat len;
  inv_q : (length (st_queue s) <= 16)%nat
}.

Lemma inv_init ns : inv ns (init ns).
Proof.
  constructor.
  - reflexivity.
  - unfold init, done_h, partial_log, full_log. cbn [st_cur st_log st_p p_state].
    cbn [N.to_nat upto flat_map]. now rewrite !app_nil_r.
  - exists O. split; reflexivity.
  - cbn. lia.
Qed.

Lemma upto_cons_inv h rest a len :
  h :: rest = upto a len -> exists len', len = S len' /\ h = a /\ rest = upto (N.succ a) len'.
Proof.
  destruct len as [|len']; cbn [upto]; intros H; [discriminate|].
  injection H as -> ->. now exists len'.
Qed.

Lemma inv_step ns s l s' : inv ns s -> step ns s l = Some s' -> inv ns s'.
Proof.
  intros [Hcur Hlog [len [Hch Hidx]] Hq] Hstep.
  destruct s as [[idx st res] pend q cur lg].
  unfold cur_ok, done_h, partial_log, cur_list, pend_list in *.
  cbn [st_p st_pend st_queue st_cur st_log p_index p_state p_results] in *.
  destruct l; unfold step, set_cur in Hstep; cbn [st_p st_pend st_queue st_cur st_log p_index p_state p_results] in Hstep.
  - (* LIndex *)
    destruct pend as [hp|]; [discriminate|]. injection Hstep as <-.
    constructor; unfold cur_ok, done_h, partial_log, cur_list, pend_list;
      cbn [st_p st_pend st_queue st_cur st_log p_index p_state p_results].
    + exact Hcur.
    + exact Hlog.
    + exists (S len). split.
      * rewrite app_nil_r in Hch. rewrite app_assoc. rewrite Hch. rewrite <- upto_snoc. do 2 f_equal. lia.
      * lia.
    + exact Hq.
  - (* LEnqueue *)
    destruct pend as [hp|]; [|discriminate].
    destruct (N.of_nat (length q) <? queue_cap) eqn:Ecap; [|discriminate]. injection Hstep as <-.
    constructor; unfold cur_ok, done_h, partial_log, cur_list, pend_list;
      cbn [st_p st_pend st_queue st_cur st_log p_index p_state p_results].
    + exact Hcur.
    + exact Hlog.
    + exists len. split; [|exact Hidx]. rewrite app_nil_r. exact Hch.
    + rewrite app_length. cbn [length]. unfold queue_cap in Ecap. lia.
  - (* LTake *)
    destruct cur as [[hc stg]|]; [discriminate|]. destruct q as [|h q']; [discriminate|]. injection Hstep as <-.
    cbn [app] in Hch. apply upto_cons_inv in Hch as [len' [-> [-> Hrest]]].
    constructor; unfold cur_ok, done_h, partial_log, cur_list, pend_list;
      cbn [st_p st_pend st_queue st_cur st_log p_index p_state p_results].
    + split; [reflexivity | exact Hcur].
    + exact Hlog.
    + exists (S len'). split; [|exact Hidx]. cbn [app upto]. now rewrite Hrest.
    + cbn [length] in Hq. lia.
  - (* LWrite *)
    destruct cur as [[hc [| |j]]|]; try discriminate. injection Hstep as <-.
    destruct Hcur as [Hh Hres].
    constructor; unfold cur_ok, done_h, partial_log, cur_list, pend_list;
      cbn [st_p st_pend st_queue st_cur st_log p_index p_state p_results].
    + split; [exact Hh | reflexivity].
    + exact Hlog.
    + exists len. split; [exact Hch | exact Hidx].
    + exact Hq.
  - (* LCommit *)
    destruct cur as [[hc [| |j]]|]; try discriminate. injection Hstep as <-.
    destruct Hcur as [Hh Hres].
    constructor; unfold cur_ok, done_h, partial_log, cur_list, pend_list;
      cbn [st_p st_pend st_queue st_cur st_log p_index p_state p_results].
    + repeat split; first [lia | exact Hres].
    + replace (N.pred hc) with st by lia. cbn [N.to_nat upto map]. exact Hlog.
    + exists len. replace (N.pred hc) with st by lia. split; [exact Hch | exact Hidx].
    + exact Hq.
  - (* LNotify *)
    destruct cur as [[hc [| |j]]|]; try discriminate.
    destruct (j <? ns) eqn:Ej; [|discriminate]. injection Hstep as <-.
    destruct Hcur as [Hh [Hres [Hj H1]]].
    constructor; unfold cur_ok, done_h, partial_log, cur_list, pend_list;
      cbn [st_p st_pend st_queue st_cur st_log p_index p_state p_results].
    + repeat split; try assumption. lia.
    + rewrite Hlog. rewrite <- app_assoc. f_equal.
      replace (N.to_nat (N.succ j)) with (S (N.to_nat j)) by lia.
      rewrite <- upto_snoc, map_app. cbn [map]. do 3 f_equal. lia.
    + exists len. split; [exact Hch | exact Hidx].
    + exact Hq.
  - (* LFinish *)
    destruct cur as [[hc [| |j]]|]; try discriminate.
    destruct (j =? ns) eqn:Ej; [|discriminate]. injection Hstep as <-.
    destruct Hcur as [Hh [Hres [Hj H1]]]. apply N.eqb_eq in Ej. subst j. subst hc.
    cbn [app] in Hch. apply upto_cons_inv in Hch as [len' [-> [_ Hrest]]].
    constructor; unfold cur_ok, done_h, partial_log, cur_list, pend_list;
      cbn [st_p st_pend st_queue st_cur st_log p_index p_state p_results].
    + exact Hres.
    + rewrite app_nil_r. rewrite Hlog. apply full_log_succ. exact H1.
    + exists len'. split.
      * cbn [app]. rewrite Hrest. f_equal. lia.
      * lia.
    + exact Hq.
Qed.

Lemma inv_run ns tr : forall s s', inv ns s -> run ns s tr = Some s' -> inv ns s'.
Proof.
  induction tr as [|l tr IH]; intros s s' Hi Hr; cbn [run] in Hr.
  - now injection Hr as <-.
  - destruct (step ns s l) as [s1|] eqn:E; [|discriminate].
    eapply IH; [eapply inv_step; eassumption | exact Hr].
Qed.

Lemma inv_reachable ns tr s : run ns (init ns) tr = Some s -> inv ns s.
Proof. apply inv_run, inv_init. Qed.

Lemma run_app ns a b s : run ns s (a ++ b) = match run ns s a with Some s1 => run ns s1 b | None => None end.
Proof.
  revert s; induction a as [|l a IH]; intros s; cbn [app run].
  - reflexivity.
  - destruct (step ns s l); [apply IH | reflexivity].
Qed.

(* ---- numeric consequences of the invariant ------------------------------------------------------------------------ *)

Lemma inv_numbers ns s :
  inv ns s ->
  let p := st_p s in
  p_state p <= p_index p /\ p_index p <= p_state p + 18
  /\ (p_index p = p_state p -> p_results p = p_state p)
  /\ (done_h s = p_state p \/ (N.succ (done_h s) = p_state p /\ exists j, st_cur s = Some (p_state p, SCommitted j))).
Proof.
  intros [Hcur Hlog [len [Hch Hidx]] Hq].
  destruct s as [[idx st res] pend q cur lg].
  unfold cur_ok, done_h, partial_log, cur_list, pend_list in *.
  cbn [st_p st_pend st_queue st_cur st_log p_index p_state p_results] in *.
  assert (Hlen : (len <= 18)%nat).
  { apply (f_equal (@length N)) in Hch. rewrite !app_length, upto_length in Hch.
    destruct cur as [[hc stg]|]; destruct pend; cbn [length] in Hch; lia. }
  destruct cur as [[hc [| |j]]|].
  - destruct Hcur as [Hh Hres]. cbn [app] in Hch. apply upto_cons_inv in Hch as [len' [-> _]].
    repeat split; first [lia | now left].
  - destruct Hcur as [Hh Hres]. cbn [app] in Hch. apply upto_cons_inv in Hch as [len' [-> _]].
    repeat split; first [lia | now left].
  - destruct Hcur as [Hh [Hres [Hj H1]]]. cbn [app] in Hch. apply upto_cons_inv in Hch as [len' [-> _]].
    subst hc. repeat split; first [lia | right; split; [lia | now exists j]].
  - repeat split; first [lia | now left].
Qed.

(* ---- recovery on reachable states ------------------------------------------------------------------------------------- *)

Lemma recover_equal ns p :
  p_index p = p_state p -> p_results p = p_state p ->
  recover ns p = ROk (p_index p) p (notify_all ns (p_index p)).
Proof.
  intros Hi Hr. destruct p as [idx st res]. cbn [p_index p_state p_results] in *. subst st res.
  unfold recover, extract. cbn [p_index p_state p_results].
  destruct (idx =? 0) eqn:E0.
  - apply N.eqb_eq in E0. subst idx. reflexivity.
  - rewrite N.eqb_refl. cbn [negb andb].
    cbn [p_index]. rewrite N.ltb_irrefl. rewrite N.sub_diag. reflexivity.
Qed.

Lemma recover_plus_one ns p : p_index p = N.succ (p_state p) -> recover ns p = RPanic.
Proof.
  intros Hi. destruct p as [idx st res]. cbn [p_index p_state] in *. subst idx.
  unfold recover, extract. cbn [p_index p_state p_results].
  replace (N.succ st =? 0) with false by lia.
  replace (N.succ st =? st) with false by lia. rewrite N.eqb_refl. reflexivity.
Qed.

Lemma recover_ge_two ns p : p_state p + 2 <= p_index p -> recover ns p = RErr E_INVALID_STATE.
Proof.
  intros Hi. destruct p as [idx st res]. cbn [p_index p_state] in *.
  unfold recover, extract. cbn [p_index p_state p_results].
  replace (idx =? 0) with false by lia.
  replace (idx =? st) with false by lia. replace (idx =? N.succ st) with false by lia. reflexivity.
Qed.

(* the full C18 statement about one crash state *)
Definition recovery_correct (ns : N) (s : state) : Prop :=
  let last := p_index (st_p s) in
  exists p' rlog,
    recover ns (crash s) = ROk last p' rlog
    /\ p_index p' = last /\ p_state p' = last /\ p_results p' = last
    /\ forall j, j < ns ->
         (forall h, h <= last -> In h (proj j (st_log s ++ rlog)))
         /\ nondecb (proj j (st_log s ++ rlog)) = true.

Lemma recovers_when_equal ns s :
  inv ns s -> p_index (st_p s) = p_state (st_p s) -> recovery_correct ns s.
Proof.
  intros Hinv Heq. pose proof (inv_numbers ns s Hinv) as [Hle [Hub [Hres Hdone]]]. cbn zeta in *.
  specialize (Hres Heq).
  exists (st_p s), (notify_all ns (p_index (st_p s))).
  split; [unfold crash; now apply recover_equal|].
  split; [reflexivity|]. split; [now rewrite Heq|]. split; [now rewrite Hres, Heq|].
  intros j Hj.
  rewrite (inv_log ns s Hinv). rewrite !proj_app. unfold full_log.
  rewrite proj_flat_notify by exact Hj. rewrite proj_notify_all by exact Hj.
  set (i := p_index (st_p s)) in *.
  destruct Hdone as [Hd | [Hd [jj Hc]]].
  - (* nothing half-notified *)
    assert (Hpart : proj j (partial_log s) = [] \/ proj j (partial_log s) = [i]).
    { unfold partial_log. destruct (st_cur s) as [[hc [| |j']]|] eqn:Ec; try (now left).
      pose proof (inv_cur ns s Hinv) as Hco. unfold cur_ok in Hco. rewrite Ec in Hco.
      destruct Hco as [Hh _]. rewrite proj_prefix. destruct (_ && _); [right | now left].
      subst hc. now rewrite <- Heq. }
    split.
    + intros h Hh. apply in_or_app. destruct (N.eq_dec h i) as [->|Hne].
      * right. now left.
      * left. apply in_or_app. left. apply In_upto. lia.
    + destruct Hpart as [-> | ->].
      * rewrite app_nil_r. apply nondecb_app_one; [apply nondecb_upto|]. intros x Hx. apply In_upto in Hx. lia.
      * apply nondecb_app_one.
        -- apply nondecb_app_one; [apply nondecb_upto|]. intros x Hx. apply In_upto in Hx. lia.
        -- intros x Hx. apply in_app_or in Hx as [Hx | [<- | []]]; [apply In_upto in Hx|]; lia.
  - (* block i committed, some subscribers not yet notified *)
    assert (Hpart : proj j (partial_log s) = [] \/ proj j (partial_log s) = [i]).
    { unfold partial_log. rewrite Hc. rewrite proj_prefix. destruct (_ && _); [right | now left]. now rewrite <- Heq. }
    split.
    + intros h Hh. apply in_or_app. destruct (N.eq_dec h i) as [->|Hne].
      * right. now left.
      * left. apply in_or_app. left. apply In_upto. lia.
    + destruct Hpart as [-> | ->].
      * rewrite app_nil_r. apply nondecb_app_one; [apply nondecb_upto|]. intros x Hx. apply In_upto in Hx. lia.
      * apply nondecb_app_one.
        -- apply nondecb_app_one; [apply nondecb_upto|]. intros x Hx. apply In_upto in Hx. lia.
        -- intros x Hx. apply in_app_or in Hx as [Hx | [<- | []]]; [apply In_upto in Hx|]; lia.
Qed.

(* ---- the crash-free reference run ------------------------------------------------------------------------------------------ *)

Lemma notify_run ns p h : forall m j lg,
  j + N.of_nat m = ns ->
  run ns (mkS p None [] (Some (h, SCommitted j)) lg) (repeat LNotify m ++ [LFinish])
  = Some (mkS p None [] None (lg ++ map (fun x => (x, h)) (upto j m))).
Proof.
  induction m as [|m IH]; intros j lg Hj.
  - cbn [repeat app run]. unfold step, set_cur. cbn [st_cur st_p st_pend st_queue st_log upto map].
    replace (j =? ns) with true by lia. now rewrite app_nil_r.
  - cbn [repeat app run]. unfold step at 1. unfold set_cur. cbn [st_cur st_p st_pend st_queue st_log].
    replace (j <? ns) with true by lia.
    rewrite IH by lia. cbn [upto map]. now rewrite <- app_assoc.
Qed.

Lemma block_run ns b lg :
  run ns (resume (mkP b b b) lg) (block_trace ns)
  = Some (resume (mkP (N.succ b) (N.succ b) (N.succ b)) (lg ++ notify_all ns (N.succ b))).
Proof.
  unfold block_trace, resume.
  change ([LIndex; LEnqueue; LTake; LWrite; LCommit] ++ repeat LNotify (N.to_nat ns) ++ [LFinish])
    with (LIndex :: LEnqueue :: LTake :: LWrite :: LCommit :: (repeat LNotify (N.to_nat ns) ++ [LFinish])).
  cbn [run]. unfold step at 1. cbn [st_p st_pend st_queue st_cur st_log p_index p_state p_results].
  unfold step at 1. cbn [st_p st_pend st_queue st_cur st_log p_index p_state p_results length N.of_nat].
  change (0 <? queue_cap) with true. cbn iota. cbn [app].
  unfold step at 1. cbn [st_p st_pend st_queue st_cur st_log p_index p_state p_results].
  unfold step at 1. unfold set_cur. cbn [st_p st_pend st_queue st_cur st_log p_index p_state p_results].
  unfold step at 1. unfold set_cur. cbn [st_p st_pend st_queue st_cur st_log p_index p_state p_results].
  rewrite notify_run by lia. reflexivity.
Qed.

Lemma seq_run ns len : forall b lg,
  run ns (resume (mkP b b b) lg) (seq_trace ns len)
  = Some (resume (mkP (b + N.of_nat len) (b + N.of_nat len) (b + N.of_nat len))
                 (lg ++ flat_map (notify_all ns) (upto (N.succ b) len))).
Proof.
  induction len as [|len IH]; intros b lg.
  - cbn [seq_trace run N.of_nat upto flat_map]. now rewrite N.add_0_r, app_nil_r.
  - cbn [seq_trace]. rewrite run_app, block_run, IH. cbn [upto flat_map].
    rewrite <- app_assoc. do 3 f_equal; lia.
Qed.

(* ---- statements used by Props/C18.v ------------------------------------------------------------------------------------------ *)

Lemma recovers_partial ns tr s :
  run ns (init ns) tr = Some s -> p_index (st_p s) = p_state (st_p s) -> recovery_correct ns s.
Proof. intros Hrun Heq. apply recovers_when_equal; [eapply inv_reachable; eassumption | exact Heq]. Qed.

Lemma recovery_outcome ns tr s :
  run ns (init ns) tr = Some s ->
  let p := crash s in
  (p_index p = p_state p /\ recover ns p = ROk (p_index p) p (notify_all ns (p_index p)))
  \/ (p_index p = p_state p + 1 /\ recover ns p = RPanic)
  \/ (p_state p + 2 <= p_index p /\ p_index p <= p_state p + 18 /\ recover ns p = RErr E_INVALID_STATE).
Proof.
  intros Hrun. pose proof (inv_numbers ns s (inv_reachable ns tr s Hrun)) as [Hle [Hub [Hres _]]].
  cbn zeta in *. unfold crash.
  destruct (N.eq_dec (p_index (st_p s)) (p_state (st_p s))) as [He | Hne].
  - left. split; [exact He | apply recover_equal; [exact He | exact (Hres He)]].
  - right. destruct (N.eq_dec (p_index (st_p s)) (p_state (st_p s) + 1)) as [He1 | Hne1].
    + left. split; [exact He1 | apply recover_plus_one; lia].
    + right. split; [lia | split; [exact Hub | apply recover_ge_two; lia]].
Qed.

Lemma reference_run ns len :
  exists lg, run ns (init ns) (seq_trace ns len)
             = Some (resume (mkP (N.of_nat len) (N.of_nat len) (N.of_nat len)) lg).
Proof.
  pose proof (seq_run ns len 0 (notify_all ns 0)) as H. rewrite !N.add_0_l in H.
  eexists. exact H.
Qed.

Definition wit_plus1 : list label := [LIndex].
Definition wit_plus2 : list label := [LIndex; LEnqueue; LIndex].

Lemma not_recovery_correct_plus1 :
  exists s, run 2 (init 2) wit_plus1 = Some s /\ ~ recovery_correct 2 s.
Proof.
  eexists. split; [vm_compute; reflexivity|].
  intros [p' [rlog [Hrec _]]]. vm_compute in Hrec. discriminate Hrec.
Qed.
