(* Theory behind property C24 (block execution reads exactly the declared keys from parent state),
   over Chain.block_reads / fetch / run_txs / execute_block. *)
From stdpp Require Import gmap.
From Coq Require Import NArith ZArith Lia.
From HV Require Import Lib.Bytes Lib.U64 Model.Keys Model.Tstate Model.Fees Model.TxStatic Model.Chain Model.ParExec
                       Proofs.Keys_proofs Proofs.Tstate_proofs Proofs.ChainBridge_proofs Proofs.ParExec_proofs.
Local Open Scope N_scope.

(* ------------------------------------------------------------------ declared keys *)

Lemma keys_add_all_dom decls : forall m m' k, keys_add_all m decls = Some m' ->
  (is_Some (m' !! k) <-> is_Some (m !! k) \/ k ∈ map fst decls).
Proof.
  induction decls as [|[k0 p0] rest IH]; intros m m' k H; cbn [keys_add_all map fst] in *.
  - inversion H; subst. split; [auto|]. intros [Hs|Hin]; [exact Hs|]. inversion Hin.
  - destruct (keys_add m k0 p0) as [m1|] eqn:E; [|discriminate H].
    apply keys_add_some in E. destruct E as [_ ->]. rewrite (IH _ _ k H).
    destruct (decide (k0 = k)) as [->|Hne].
    + rewrite lookup_insert. split; [intros _; right; left | intros _; left; eauto].
    + rewrite lookup_insert_ne by exact Hne. split.
      * intros [Hs|Hin]; [left; exact Hs | right; right; exact Hin].
      * intros [Hs|Hin]; [left; exact Hs|]. inversion Hin; subst; [contradiction | right; assumption].
Qed.

Lemma state_keys_dom t sk k : state_keys t = Some sk -> (is_Some (sk !! k) <-> k ∈ map fst (tx_decls t)).
Proof.
  unfold state_keys. intros H. rewrite (keys_add_all_dom _ _ _ k H). rewrite lookup_empty.
  split; [intros [[x Hx]|Hin]; [discriminate Hx | exact Hin] | auto].
Qed.

Definition union_keys (ptxs : list ptx) : gmap key perm :=
  foldr (fun p acc => match p with (_, sk, _) => sk ∪ acc end) (∅ : gmap key perm) ptxs.

Lemma union_keys_spec ptxs k : is_Some (union_keys ptxs !! k) <->
  exists t sk u, (t, sk, u) ∈ ptxs /\ is_Some (sk !! k).
Proof.
  induction ptxs as [|[[t sk] u] l IH]; cbn [union_keys foldr].
  - rewrite lookup_empty. split; [intros [x Hx]; discriminate Hx|]. intros (t & sk & u & Hin & _). inversion Hin.
  - fold (union_keys l). rewrite lookup_union_is_Some, IH. split.
    + intros [Hs|(t' & sk' & u' & Hin & Hs)].
      * exists t, sk, u. split; [left | exact Hs].
      * exists t', sk', u'. split; [right; exact Hin | exact Hs].
    + intros (t' & sk' & u' & Hin & Hs). inversion Hin; subst.
      * left. exact Hs.
      * right. exists t', sk', u'. auto.
Qed.

Lemma declared_keys_spec ptxs k : k ∈ declared_keys ptxs <->
  exists t sk u, (t, sk, u) ∈ ptxs /\ is_Some (sk !! k).
Proof.
  rewrite <- union_keys_spec. unfold declared_keys. fold (union_keys ptxs).
  change (k ∈ (map_to_list (union_keys ptxs)).*1 <-> is_Some (union_keys ptxs !! k)).
  rewrite elem_of_list_fmap. split.
  - intros [[k' p] [-> Hin]]. apply elem_of_map_to_list in Hin. cbn [fst]. eauto.
  - intros [p Hp]. exists (k, p). split; [reflexivity | apply elem_of_map_to_list, Hp].
Qed.

Lemma declared_keys_nodup ptxs : NoDup (declared_keys ptxs).
Proof. unfold declared_keys. apply NoDup_fst_map_to_list. Qed.

(* the prepared prefix consists of transactions of the block with their state keys *)
Lemma prepared_prefix_in r : forall txs fm t sk u, (t, sk, u) ∈ prepared_prefix r fm txs ->
  t ∈ txs /\ state_keys t = Some sk.
Proof.
  induction txs as [|t0 txs IH]; intros fm t sk u Hin; cbn [prepared_prefix] in Hin; [inversion Hin|].
  destruct (state_keys t0) as [sk0|] eqn:Esk; [|inversion Hin].
  destruct (units r t0 sk0) as [u0|]; [|inversion Hin].
  destruct (consume fm u0 (r_max_units r)) as [[[|] c] fm1]; [|inversion Hin].
  inversion Hin; subst.
  - split; [left | exact Esk].
  - destruct (IH _ _ _ _ ltac:(eassumption)) as [Hx Hy]. split; [right; exact Hx | exact Hy].
Qed.

Lemma prepare_prefix r : forall txs fm ptxs fm', prepare r fm txs = inl (ptxs, fm') ->
  prepared_prefix r fm txs = ptxs /\ map (fun p : ptx => fst (fst p)) ptxs = txs.
Proof.
  induction txs as [|t0 txs IH]; intros fm ptxs fm' H; cbn [prepare prepared_prefix] in *.
  - inversion H; subst. auto.
  - destruct (state_keys t0) as [sk0|]; [|discriminate H].
    destruct (units r t0 sk0) as [u0|]; [|discriminate H].
    destruct (consume fm u0 (r_max_units r)) as [[[|] c] fm1]; [|discriminate H].
    destruct (prepare r fm1 txs) as [[l fm2]|e] eqn:Ep; [|discriminate H].
    inversion H; subst. destruct (IH _ _ _ Ep) as [-> Hm]. cbn [map fst]. rewrite Hm. auto.
Qed.

Lemma fail_hits_spec b ptxs : fail_hits b ptxs = true <->
  exists f, b_fail_key b = Some f /\ f ∈ declared_keys ptxs.
Proof.
  unfold fail_hits. destruct (b_fail_key b) as [f|].
  - rewrite existsb_exists. split.
    + intros [[[t sk] u] [Hin H]]. apply bool_decide_eq_true in H. exists f. split; [reflexivity|].
      apply declared_keys_spec. exists t, sk, u. split; [apply elem_of_list_In, Hin | exact H].
    + intros (f' & Hf & Hin). inversion Hf; subst f'. apply declared_keys_spec in Hin.
      destruct Hin as (t & sk & u & Hin & Hs). exists (t, sk, u). split; [apply elem_of_list_In, Hin|].
      apply bool_decide_eq_true. exact Hs.
  - split; [discriminate | intros (f & Hf & _); discriminate Hf].
Qed.

Lemma is_fail_spec b k : is_fail b k = true <-> b_fail_key b = Some k.
Proof.
  unfold is_fail. destruct (b_fail_key b) as [f|]; [|split; discriminate].
  destruct (bytes_eqb f k) eqn:E.
  - apply key_eqb_eq in E. subst. tauto.
  - apply bytes_eqb_neq in E. split; [discriminate | intros H; inversion H; contradiction].
Qed.

(* ------------------------------------------------------------------ what block_reads reports *)

Definition metas (mk : meta_keys) : list key := [mk_height mk; mk_ts mk; mk_fee mk].

Definition declared_by_block (b : block) (k : key) : Prop :=
  exists t, t ∈ b_txs b /\ k ∈ map fst (tx_decls t).

(* every block, whatever its fate: the reported reads are a prefix of the three metadata keys followed
   by a duplicate-free list of keys declared by transactions of the block *)
Lemma block_reads_only_declared r mk p b :
  exists ms dk, fst (block_reads r mk p b) = ms ++ dk /\ ms `prefix_of` metas mk /\ NoDup dk /\
                forall k, k ∈ dk -> declared_by_block b k.
Proof.
  assert (P0 : [] `prefix_of` metas mk) by (exists (metas mk); reflexivity).
  assert (P1 : [mk_height mk] `prefix_of` metas mk) by (exists [mk_ts mk; mk_fee mk]; reflexivity).
  assert (P2 : [mk_height mk; mk_ts mk] `prefix_of` metas mk) by (exists [mk_fee mk]; reflexivity).
  assert (P3 : metas mk `prefix_of` metas mk) by (exists []; rewrite app_nil_r; reflexivity).
  assert (E : forall ms, ms `prefix_of` metas mk ->
     exists ms' dk, ms = ms' ++ dk /\ ms' `prefix_of` metas mk /\ NoDup dk /\ forall k, k ∈ dk -> declared_by_block b k).
  { intros ms Hms. exists ms, []. rewrite app_nil_r. split; [reflexivity|]. split; [exact Hms|].
    split; [constructor|]. intros k Hk. inversion Hk. }
  unfold block_reads.
  destruct (b_too_late b); [apply E, P0|].
  destruct (is_fail b (mk_height mk)); [apply E, P1|].
  destruct (p_height p) as [ph|]; [|apply E, P1].
  destruct (negb (b_height b =? ph + 1)); [apply E, P1|].
  destruct (is_fail b (mk_ts mk)); [apply E, P2|].
  destruct (b_ts b <? Z.of_N (p_ts p) + r_min_gap r)%Z; [apply E, P2|].
  destruct ((match b_txs b with [] => true | _ => false end) && (b_ts b <? Z.of_N (p_ts p) + r_min_empty_gap r)%Z); [apply E, P2|].
  destruct (is_fail b (mk_fee mk)); [apply E, P3|].
  destruct (b_vw_dup b); [apply E, P3|].
  cbn [fst]. eexists (metas mk), _. split; [reflexivity|]. split; [exact P3|]. split; [apply declared_keys_nodup|].
  intros k Hk. apply declared_keys_spec in Hk. destruct Hk as (t & sk & u & Hin & Hs).
  destruct (prepared_prefix_in _ _ _ _ _ _ Hin) as [Ht Hsk].
  exists t. split; [exact Ht|]. apply (state_keys_dom _ _ _ Hsk), Hs.
Qed.

(* a block that executes successfully: the reads are exactly the metadata keys and every key declared
   by a transaction of the block, each declared key once, and the list is schedule-independent *)
Lemma block_reads_exact r mk p b o : execute_block r mk p b = inl o ->
  exists dk, block_reads r mk p b = (metas mk ++ dk, true) /\ NoDup dk /\
             forall k, k ∈ dk <-> declared_by_block b k.
Proof.
  unfold execute_block, block_reads. intros H.
  destruct (b_too_late b); [discriminate H|].
  destruct (is_fail b (mk_height mk)); [discriminate H|].
  destruct (p_height p) as [ph|]; [|discriminate H].
  destruct (negb (b_height b =? ph + 1)); [discriminate H|].
  destruct (is_fail b (mk_ts mk)); [discriminate H|].
  destruct (b_ts b <? Z.of_N (p_ts p) + r_min_gap r)%Z; [discriminate H|].
  destruct ((match b_txs b with [] => true | _ => false end) && (b_ts b <? Z.of_N (p_ts p) + r_min_empty_gap r)%Z); [discriminate H|].
  destruct (is_fail b (mk_fee mk)); [discriminate H|].
  destruct (b_vw_dup b); [discriminate H|].
  destruct (fail_hits b _) eqn:Efh; [discriminate H|].
  destruct (prepare r _ (b_txs b)) as [[ptxs fm']|e] eqn:Ep; [|discriminate H].
  destruct (prepare_prefix _ _ _ _ _ Ep) as [Epre Hmap]. rewrite Epre in *.
  destruct (prepare_lookup _ _ _ _ _ Ep) as [Hlen Hl].
  exists (declared_keys ptxs). split; [|split; [apply declared_keys_nodup|]].
  - unfold ptx in Hlen. rewrite Hlen, Nat.eqb_refl. reflexivity.
  - intros k. rewrite declared_keys_spec. split.
    + intros (t & sk & u & Hin & Hs). apply elem_of_list_lookup in Hin. destruct Hin as [i Hi].
      destruct (Hl _ _ _ _ Hi) as [Ht Hsk]. exists t. split; [eapply elem_of_list_lookup_2, Ht|].
      apply (state_keys_dom _ _ _ Hsk), Hs.
    + intros (t & Ht & Hk). rewrite <- Hmap in Ht. apply elem_of_list_fmap in Ht.
      destruct Ht as [[[t' sk] u] [-> Hin]]. cbn [fst] in Hk. exists t', sk, u. split; [exact Hin|].
      apply elem_of_list_lookup in Hin. destruct Hin as [i Hi]. destruct (Hl _ _ _ _ Hi) as [_ Hsk].
      apply (state_keys_dom _ _ _ Hsk), Hk.
Qed.

(* ------------------------------------------------------------------ what a task sees *)

Lemma fetch_lookup parent sk k :
  fetch parent sk !! k = if decide (is_Some (sk !! k)) then parent !! k else None.
Proof.
  unfold fetch. apply option_eq. intros x. rewrite map_filter_lookup_Some. cbn [fst].
  destruct (decide (is_Some (sk !! k))) as [Hs|Hn]; [tauto|]. split; [tauto | discriminate].
Qed.

(* the view handed to a task shows, for every key, the block diff if the key was changed earlier in
   the block, else the parent's value (or absence) if the key is declared, else nothing *)
Lemma task_view_vis parent sk st k :
  vis (new_view st (ScopeKeys sk) (fetch parent sk)) k =
  match ts_changed st !! k with
  | Some ov => ov
  | None => if decide (is_Some (sk !! k)) then parent !! k else None
  end.
Proof.
  unfold vis, vis_of, new_view, under_of. cbn [pending v_ts v_base]. rewrite lookup_empty, fetch_lookup. reflexivity.
Qed.

Lemma task_view_get parent sk st k : keys_has sk k pRead = true -> ts_changed st !! k = None ->
  get (new_view st (ScopeKeys sk) (fetch parent sk)) k =
  match parent !! k with Some v => inl v | None => inr ENotFound end.
Proof.
  intros Hr Hc. unfold get, check. cbn [v_scope new_view scope_has]. rewrite Hr. cbn [negb].
  rewrite task_view_vis, Hc.
  destruct (keys_has_some _ _ _ Hr ltac:(discriminate)) as (q & Hq & _).
  destruct (decide (is_Some (sk !! k))) as [_|Hn]; [reflexivity|]. exfalso. apply Hn. eauto.
Qed.

Lemma run_txs_app r fm parent ts : forall l1 l2 st,
  run_txs r fm parent ts st (l1 ++ l2) =
  let '(st1, rs1, f1) := run_txs r fm parent ts st l1 in
  let '(st2, rs2, f2) := run_txs r fm parent ts st1 l2 in
  (st2, rs1 ++ rs2, f1 ++ f2).
Proof.
  induction l1 as [|[[t sk] u] l1 IH]; intros l2 st; cbn [app run_txs].
  - destruct (run_txs r fm parent ts st l2) as [[st2 rs2] f2]. reflexivity.
  - destruct (run_tx r fm parent ts st t sk u) as [st' [res|e]]; rewrite IH;
      destruct (run_txs r fm parent ts st' l1) as [[st1 rs1] f1];
      destruct (run_txs r fm parent ts st1 l2) as [[st2 rs2] f2]; reflexivity.
Qed.

(* tasks that may not write k leave k out of the block diff *)
Lemma run_tx_unchanged r fm parent ts st t sk u k : keys_has sk k pWrite = false ->
  ts_changed (fst (run_tx r fm parent ts st t sk u)) !! k = ts_changed st !! k.
Proof.
  intros Hw. rewrite run_tx_effect. destruct (tx_effect r fm parent ts st t sk u) as [[P n] o] eqn:E.
  cbn [fst bump ts_changed]. apply lookup_union_r.
  destruct (P !! k) as [ov|] eqn:Ek; [|reflexivity].
  rewrite (tx_effect_writes _ _ _ _ _ _ _ _ _ _ _ k E (ex_intro _ ov Ek)) in Hw. discriminate Hw.
Qed.

Lemma run_txs_unchanged r fm parent ts k : forall l st,
  (forall t sk u, (t, sk, u) ∈ l -> keys_has sk k pWrite = false) ->
  ts_changed (fst (fst (run_txs r fm parent ts st l))) !! k = ts_changed st !! k.
Proof.
  induction l as [|[[t sk] u] l IH]; intros st H; cbn [run_txs]; [reflexivity|].
  pose proof (run_tx_unchanged r fm parent ts st t sk u k (H _ _ _ ltac:(left))) as H1.
  destruct (run_tx r fm parent ts st t sk u) as [st' [res|e]]; cbn [fst] in H1;
    (specialize (IH st' ltac:(intros; eapply H; right; eassumption));
     destruct (run_txs r fm parent ts st' l) as [[st'' rs] fs]; cbn [fst] in *; congruence).
Qed.

(* C24, values: in run_txs the i-th task runs on the block diff [st_i] left by the tasks before it;
   for each of its declared keys it sees the last change made earlier in the block, else exactly the
   parent's value or absence; and a key no earlier task may write was not changed earlier *)
Lemma task_sees_parent_value r fm parent ts st0 (ptxs : list ptx) i t sk u :
  ptxs !! i = Some (t, sk, u) ->
  let st_i := fst (fst (run_txs r fm parent ts st0 (take i ptxs))) in
  (* the i-th task of run_txs is run_tx on st_i *)
  run_txs r fm parent ts st0 ptxs =
    (let '(st1, rs1, f1) := run_txs r fm parent ts st0 (take i ptxs) in
     let '(st2, rs2, f2) := run_txs r fm parent ts st1 ((t, sk, u) :: drop (S i) ptxs) in
     (st2, rs1 ++ rs2, f1 ++ f2))
  /\ forall k, is_Some (sk !! k) ->
     let s := new_view st_i (ScopeKeys sk) (fetch parent sk) in
     vis s k = match ts_changed st_i !! k with Some ov => ov | None => parent !! k end
     /\ (ts_changed st_i !! k = None -> keys_has sk k pRead = true ->
         get s k = match parent !! k with Some v => inl v | None => inr ENotFound end)
     /\ ((forall j tj skj uj, (j < i)%nat -> ptxs !! j = Some (tj, skj, uj) -> keys_has skj k pWrite = false) ->
         ts_changed st_i !! k = ts_changed st0 !! k).
Proof.
  intros Hi st_i. split.
  - transitivity (run_txs r fm parent ts st0 (take i ptxs ++ (t, sk, u) :: drop (S i) ptxs)); [|apply run_txs_app].
    f_equal. rewrite <- (take_drop i ptxs) at 1. f_equal. exact (drop_S _ _ _ Hi).
  - intros k Hk s. split; [|split].
    + unfold s. rewrite task_view_vis. destruct (decide (is_Some (sk !! k))); [reflexivity | contradiction].
    + intros Hc Hr. apply task_view_get; assumption.
    + intros Hj. apply run_txs_unchanged. intros tj skj uj Hin.
      apply elem_of_take in Hin. destruct Hin as (j & Hjl & Hlt). eapply Hj; eassumption.
Qed.

(* ------------------------------------------------------------------ undeclared parent data is irrelevant *)

Lemma fetch_ext p1 p2 sk : (forall k, is_Some (sk !! k) -> p1 !! k = p2 !! k) -> fetch p1 sk = fetch p2 sk.
Proof.
  intros H. apply map_eq. intros k. rewrite !fetch_lookup.
  destruct (decide (is_Some (sk !! k))) as [Hs|_]; [apply H, Hs | reflexivity].
Qed.

Lemma run_tx_parent_ext r fm p1 p2 ts st t sk u : fetch p1 sk = fetch p2 sk ->
  run_tx r fm p1 ts st t sk u = run_tx r fm p2 ts st t sk u.
Proof. intros H. unfold run_tx. rewrite H. reflexivity. Qed.

Lemma run_txs_parent_ext r fm p1 p2 ts : forall (l : list ptx) st,
  (forall t sk u, (t, sk, u) ∈ l -> fetch p1 sk = fetch p2 sk) ->
  run_txs r fm p1 ts st l = run_txs r fm p2 ts st l.
Proof.
  induction l as [|[[t sk] u] l IH]; intros st H; cbn [run_txs]; [reflexivity|].
  rewrite (run_tx_parent_ext r fm p1 p2 ts st t sk u (H _ _ _ ltac:(left))).
  destruct (run_tx r fm p2 ts st t sk u) as [st' [res|e]];
    rewrite (IH st' ltac:(intros; eapply H; right; eassumption)); reflexivity.
Qed.

(* two parents that agree on the metadata (height, timestamp, fee manager) and on every key declared
   by a transaction of the block *)
Definition parents_agree (b : block) (p1 p2 : parent_state) : Prop :=
  p_height p1 = p_height p2 /\ p_ts p1 = p_ts p2 /\ p_fee p1 = p_fee p2 /\
  forall k, declared_by_block b k -> p_data p1 !! k = p_data p2 !! k.

Lemma undeclared_parent_irrelevant r mk p1 p2 b : parents_agree b p1 p2 ->
  execute_block r mk p1 b = execute_block r mk p2 b /\ block_reads r mk p1 b = block_reads r mk p2 b.
Proof.
  intros (Hh & Ht & Hf & Hd). split.
  - unfold execute_block. rewrite Hh, Ht, Hf.
    destruct (b_too_late b); [reflexivity|].
    destruct (is_fail b (mk_height mk)); [reflexivity|].
    destruct (p_height p2) as [ph|]; [|reflexivity].
    destruct (negb (b_height b =? ph + 1)); [reflexivity|].
    destruct (is_fail b (mk_ts mk)); [reflexivity|].
    destruct (b_ts b <? Z.of_N (p_ts p2) + r_min_gap r)%Z; [reflexivity|].
    destruct ((match b_txs b with [] => true | _ => false end) && (b_ts b <? Z.of_N (p_ts p2) + r_min_empty_gap r)%Z); [reflexivity|].
    destruct (is_fail b (mk_fee mk)); [reflexivity|].
    destruct (b_vw_dup b); [reflexivity|].
    destruct (fail_hits b _); [reflexivity|].
    destruct (prepare r _ (b_txs b)) as [[ptxs fm']|e] eqn:Ep; [|reflexivity].
    destruct (prepare_lookup _ _ _ _ _ Ep) as [_ Hl].
    rewrite (run_txs_parent_ext r fm' (p_data p1) (p_data p2) (b_ts b) ptxs ts_new); [reflexivity|].
    intros t sk u Hin. apply fetch_ext. intros k Hk. apply Hd.
    apply elem_of_list_lookup in Hin. destruct Hin as [i Hi]. destruct (Hl _ _ _ _ Hi) as [Hti Hsk].
    exists t. split; [eapply elem_of_list_lookup_2, Hti | apply (state_keys_dom _ _ _ Hsk), Hk].
  - unfold block_reads. rewrite Hh, Ht, Hf. reflexivity.
Qed.

(* ------------------------------------------------------------------ a failing read fails the block *)

Lemma error_not_absence r mk p b f : b_fail_key b = Some f -> f ∈ fst (block_reads r mk p b) ->
  exists cls sub, execute_block r mk p b = inr (cls, sub) /\
    (cls = clsFetchHeight \/ cls = clsFetchTs \/ cls = clsFetchFee \/ cls = clsExecuteTxs \/
     (* or the block had already been rejected by a check that comes before the failing read *)
     cls = clsTooLate \/ cls = clsBadHeight \/ cls = clsTooEarly \/ cls = clsTooEarlyEmpty \/ cls = clsDuplicate).
Proof.
  intros Hf Hin. unfold execute_block. unfold block_reads in Hin.
  destruct (b_too_late b); [eexists _, _; split; [reflexivity | tauto]|].
  destruct (is_fail b (mk_height mk)) eqn:F1; [eexists _, _; split; [reflexivity | tauto]|].
  destruct (p_height p) as [ph|]; [|eexists _, _; split; [reflexivity | tauto]].
  destruct (negb (b_height b =? ph + 1)); [eexists _, _; split; [reflexivity | tauto]|].
  destruct (is_fail b (mk_ts mk)) eqn:F2; [eexists _, _; split; [reflexivity | tauto]|].
  destruct (b_ts b <? Z.of_N (p_ts p) + r_min_gap r)%Z; [eexists _, _; split; [reflexivity | tauto]|].
  destruct ((match b_txs b with [] => true | _ => false end) && (b_ts b <? Z.of_N (p_ts p) + r_min_empty_gap r)%Z);
    [eexists _, _; split; [reflexivity | tauto]|].
  destruct (is_fail b (mk_fee mk)) eqn:F3; [eexists _, _; split; [reflexivity | tauto]|].
  destruct (b_vw_dup b); [eexists _, _; split; [reflexivity | tauto]|].
  cbn [fst] in Hin.
  assert (Hhit : fail_hits b (prepared_prefix r (compute_next (p_fee p) (b_ts b) (r_target r) (r_denom r) (r_min_price r)) (b_txs b)) = true).
  { apply fail_hits_spec. exists f. split; [exact Hf|].
    apply elem_of_app in Hin. destruct Hin as [Hm|Hd]; [exfalso | exact Hd].
    assert (N1 : is_fail b (mk_height mk) <> true) by congruence.
    assert (N2 : is_fail b (mk_ts mk) <> true) by congruence.
    assert (N3 : is_fail b (mk_fee mk) <> true) by congruence.
    rewrite is_fail_spec in N1, N2, N3.
    repeat (apply elem_of_cons in Hm; destruct Hm as [->|Hm]; [congruence|]). inversion Hm. }
  rewrite Hhit. eexists _, _; split; [reflexivity | tauto].
Qed.

(* the fault is only observable through keys the block reads: a fault on any other key changes nothing *)
Definition without_fault (b : block) : block :=
  mkBlock (b_ts b) (b_height b) (b_root_ok b) (b_too_late b) (b_vw_dup b) None (b_txs b).

Lemma fault_elsewhere_harmless r mk p b f : b_fail_key b = Some f -> f ∉ fst (block_reads r mk p b) ->
  execute_block r mk p b = execute_block r mk p (without_fault b).
Proof.
  intros Hf Hnot. unfold execute_block, block_reads in *.
  assert (F0 : forall k, is_fail (without_fault b) k = false) by reflexivity.
  assert (H0 : forall l, fail_hits (without_fault b) l = false) by reflexivity.
  rewrite !F0, H0. cbn [without_fault b_too_late b_height b_ts b_txs b_vw_dup b_root_ok].
  destruct (b_too_late b); [reflexivity|].
  destruct (is_fail b (mk_height mk)) eqn:F1.
  { exfalso. apply is_fail_spec in F1. apply Hnot. cbn [fst]. rewrite F1 in Hf. inversion Hf; subst. left. }
  destruct (p_height p) as [ph|]; [|reflexivity].
  destruct (negb (b_height b =? ph + 1)); [reflexivity|].
  destruct (is_fail b (mk_ts mk)) eqn:F2.
  { exfalso. apply is_fail_spec in F2. apply Hnot. cbn [fst]. rewrite F2 in Hf. inversion Hf; subst. right; left. }
  destruct (b_ts b <? Z.of_N (p_ts p) + r_min_gap r)%Z; [reflexivity|].
  destruct ((match b_txs b with [] => true | _ => false end) && (b_ts b <? Z.of_N (p_ts p) + r_min_empty_gap r)%Z); [reflexivity|].
  destruct (is_fail b (mk_fee mk)) eqn:F3.
  { exfalso. apply is_fail_spec in F3. apply Hnot. cbn [fst]. rewrite F3 in Hf. inversion Hf; subst. right; right; left. }
  destruct (b_vw_dup b); [reflexivity|].
  destruct (fail_hits b _) eqn:Eh; [|reflexivity].
  exfalso. apply fail_hits_spec in Eh. destruct Eh as (f' & Hf' & Hin). rewrite Hf in Hf'. inversion Hf'; subst f'.
  apply Hnot. cbn [fst]. apply elem_of_app. right. exact Hin.
Qed.
