(* Transaction atomicity and fee charging (C03, C07): lemmas about Chain.execute_tx / pre_execute /
   run_tx / run_txs / execute_block, on top of the view theory (Proofs/Tstate_proofs.v), the bridge
   lemmas (Proofs/ChainBridge_proofs.v) and the fee manager theory (Proofs/Fees_proofs.v). *)
From stdpp Require Import gmap.
From Coq Require Import NArith ZArith Lia ZifyN ZifyNat ZifyBool.
From HV Require Import Lib.Bytes Lib.U64 Model.Keys Model.Tstate Model.Fees Model.TxStatic Model.Chain
                       Proofs.Tstate_proofs Proofs.Fees_proofs Proofs.ChainBridge_proofs.
Local Open Scope N_scope.

(* ------------------------------------------------------------------ 1. specification vocabulary *)

(* the fee deduction of Transaction.Execute (bh.Deduct): the first thing execute_tx does.
   None = Deduct returned an error. *)
Definition deduct (t : tx) (f : N) (s : view) : option view :=
  if t_morpheus t then
    match sub_balance s (t_sponsor_key t) f with
    | (s1, inl _) => Some s1
    | (_, inr _) => None
    end
  else
    match get s (t_sponsor_key t) with
    | inl v =>
        match parse_u64 v with
        | None => None
        | Some b =>
            if b <? f then None else
            match insert s (t_sponsor_key t) (be64 (b - f)) with
            | (s1, None) => Some s1
            | (_, Some _) => None
            end
        end
    | inr _ => None
    end.

(* all actions, one after the other, with no checkpoint and no rollback: None if one of them fails *)
Fixpoint run_all (s : view) (acts : list action) : option (view * list (list N)) :=
  match acts with
  | [] => Some (s, [])
  | a :: rest =>
      match run_ops s (a_ops a) [] with
      | (s', inl out) =>
          match run_all s' rest with
          | Some (s'', outs) => Some (s'', out :: outs)
          | None => None
          end
      | (_, inr _) => None
      end
  end.

(* the stored value of a sponsor balance after paying: the reference VM's handler deletes an
   emptied account, the prefix handler stores a zero *)
Definition paid_value (t : tx) (b f : N) : option val :=
  if t_morpheus t && (b - f =? 0) then None else Some (be64 (b - f)).

(* price x units, summed over the five dimensions (the formula evaluated by Check/C03_check.v) *)
Definition price_x_units (prices units : dims) : N :=
  fold_left N.add (map (fun k => nth k prices 0 * nth k units 0) idx5) 0.

(* ------------------------------------------------------------------ 2. execute_tx = deduct ; checkpoint ; run_actions *)

Lemma execute_tx_decomp t u f s :
  execute_tx t u f s =
    match deduct t f s with
    | Some s1 =>
        let '(s2, ok, ec, outs) := run_actions s1 (op_index s1) (t_actions t) [] in
        Some (s2, mkResult ok ec f u outs)
    | None => None
    end.
Proof. reflexivity. Qed.

Lemma parse_u64_Some v b : parse_u64 v = Some b -> length v = 8%nat /\ b = be_dec v.
Proof.
  unfold parse_u64. destruct (Nat.eqb (length v) 8) eqn:E; [|discriminate].
  intros H. inversion H. apply Nat.eqb_eq in E. auto.
Qed.

Lemma get_inl s k v : get s k = inl v -> scope_has (v_scope s) k pRead = true /\ vis s k = Some v.
Proof.
  unfold get, check. destruct (scope_has (v_scope s) k pRead); cbn [negb]; [|discriminate].
  destruct (vis s k) as [w|]; [|discriminate]. intros H. inversion H. auto.
Qed.

(* what a successful deduction did: the sponsor key held a well-formed balance >= fee, it now holds
   balance - fee (or is deleted), no other key changed, and only insert/remove steps were taken *)
Lemma deduct_spec t f s s1 : deduct t f s = Some s1 ->
  exists v, get s (t_sponsor_key t) = inl v /\ length v = 8%nat /\ f <= be_dec v
    /\ vis s1 (t_sponsor_key t) = paid_value t (be_dec v) f
    /\ (forall k, t_sponsor_key t <> k -> vis s1 k = vis s k)
    /\ reach s s1.
Proof.
  unfold deduct, paid_value. set (k := t_sponsor_key t).
  destruct (t_morpheus t); cbn [andb].
  - pose proof (reach_sub_balance s k f) as Hr. unfold sub_balance in *.
    destruct (get s k) as [v|e] eqn:G; [|discriminate].
    destruct (parse_u64 v) as [b|] eqn:P; [|discriminate].
    destruct (parse_u64_Some _ _ P) as [Hl ->].
    destruct (be_dec v <? f) eqn:L; [discriminate|].
    destruct (be_dec v - f =? 0) eqn:Z.
    + destruct (remove s k) as [s' [e|]] eqn:R; [discriminate|]. cbn [fst] in Hr.
      intros H. inversion H; subst s'. destruct (remove_vis _ _ _ R) as [V1 V2].
      exists v. rewrite ?Z. repeat split; auto; lia.
    + destruct (insert s k (be64 (be_dec v - f))) as [s' [e|]] eqn:R; [discriminate|]. cbn [fst] in Hr.
      intros H. inversion H; subst s'. destruct (insert_vis _ _ _ _ R) as [V1 V2].
      exists v. rewrite ?Z. repeat split; auto; lia.
  - destruct (get s k) as [v|e] eqn:G; [|discriminate].
    destruct (parse_u64 v) as [b|] eqn:P; [|discriminate].
    destruct (parse_u64_Some _ _ P) as [Hl ->].
    destruct (be_dec v <? f) eqn:L; [discriminate|].
    pose proof (reach_insert s k (be64 (be_dec v - f))) as Hr.
    destruct (insert s k (be64 (be_dec v - f))) as [s' [e|]] eqn:R; [discriminate|]. cbn [fst] in Hr.
    intros H. inversion H; subst s'. destruct (insert_vis _ _ _ _ R) as [V1 V2].
    exists v. repeat split; auto; lia.
Qed.

(* the balance handler reads the new balance back *)
Lemma get_balance_vis s k : scope_has (v_scope s) k pRead = true ->
  get_balance s k = match vis s k with Some v => parse_u64 v | None => Some 0 end.
Proof. intros H. unfold get_balance. rewrite (get_vis _ _ H). destruct (vis s k); reflexivity. Qed.

Lemma deduct_balance t f s s1 b : deduct t f s = Some s1 ->
  get_balance s (t_sponsor_key t) = Some b -> b <= MaxU64 ->
  f <= b /\ get_balance s1 (t_sponsor_key t) = Some (b - f).
Proof.
  intros Hd Hb Hu. destruct (deduct_spec _ _ _ _ Hd) as (v & G & Hl & Hf & V1 & _ & Hr).
  destruct (get_inl _ _ _ G) as [Hrd Hv].
  assert (Eb : b = be_dec v).
  { unfold get_balance in Hb. rewrite G in Hb. destruct (parse_u64_Some _ _ Hb) as [_ E]. exact E. }
  subst b. split; [exact Hf|].
  destruct (reach_env _ _ Hr) as (_ & _ & Hsc).
  rewrite get_balance_vis by (rewrite Hsc; exact Hrd). rewrite V1. unfold paid_value.
  destruct (t_morpheus t && (be_dec v - f =? 0)) eqn:E.
  - f_equal. lia.
  - unfold parse_u64. rewrite be64_length. cbn [Nat.eqb]. rewrite be64_roundtrip by lia. reflexivity.
Qed.

(* a sponsor that cannot pay makes Execute return an error: the transaction is not included *)
Lemma deduct_insufficient t f s b :
  get_balance s (t_sponsor_key t) = Some b -> b < f -> deduct t f s = None.
Proof.
  intros Hb Hlt. unfold deduct, sub_balance. unfold get_balance in Hb.
  destruct (get s (t_sponsor_key t)) as [v|e].
  - rewrite Hb. assert (L : b <? f = true) by lia. rewrite L. destruct (t_morpheus t); reflexivity.
  - destruct (t_morpheus t); reflexivity.
Qed.

(* ------------------------------------------------------------------ 3. the action loop *)

Lemma run_all_length acts : forall s s' outs, run_all s acts = Some (s', outs) -> length outs = length acts.
Proof.
  induction acts as [|a acts IH]; intros s s' outs H; cbn [run_all] in H.
  - inversion H. reflexivity.
  - destruct (run_ops s (a_ops a) []) as [s1 [out|e]]; [|discriminate].
    destruct (run_all s1 acts) as [[s2 o]|] eqn:E; [|discriminate].
    inversion H; subst. cbn [length]. f_equal. eapply IH; eassumption.
Qed.

Lemma run_all_reach acts : forall s s' outs, run_all s acts = Some (s', outs) -> reach s s'.
Proof.
  induction acts as [|a acts IH]; intros s s' outs H; cbn [run_all] in H.
  - inversion H. apply reach_refl.
  - pose proof (reach_run_ops (a_ops a) s []) as Hr.
    destruct (run_ops s (a_ops a) []) as [s1 [out|e]]; [|discriminate]. cbn [fst] in Hr.
    destruct (run_all s1 acts) as [[s2 o]|] eqn:E; [|discriminate].
    inversion H; subst. eapply reach_trans; [exact Hr | eapply IH; eassumption].
Qed.

Lemma run_all_app pre : forall s sp o1 post,
  run_all s pre = Some (sp, o1) ->
  run_all s (pre ++ post) = match run_all sp post with Some (s', o2) => Some (s', o1 ++ o2) | None => None end.
Proof.
  induction pre as [|a pre IH]; intros s sp o1 post H; cbn [run_all app] in *.
  - inversion H; subst. destruct (run_all sp post) as [[s' o2]|]; reflexivity.
  - destruct (run_ops s (a_ops a) []) as [s1 [out|e]]; [|discriminate].
    destruct (run_all s1 pre) as [[s2 o]|] eqn:E; [|discriminate].
    inversion H; subst. rewrite (IH _ _ _ post E).
    destruct (run_all sp post) as [[s' o2]|]; reflexivity.
Qed.

(* success: exactly the run of every action, outputs appended in order, error class 0 *)
Lemma run_actions_true acts : forall s start outs s' ec outs',
  run_actions s start acts outs = (s', true, ec, outs') ->
  exists o, run_all s acts = Some (s', o) /\ outs' = outs ++ o /\ ec = 0.
Proof.
  induction acts as [|a acts IH]; intros s start outs s' ec outs' H; cbn [run_actions run_all] in *.
  - inversion H; subst. exists []. rewrite app_nil_r. auto.
  - destruct (run_ops s (a_ops a) []) as [s1 [out|e]]; [|inversion H].
    destruct (IH _ _ _ _ _ _ H) as (o & E & -> & ->). rewrite E.
    exists (out :: o). rewrite <- app_assoc. auto.
Qed.

(* failure: a prefix of the actions ran to completion, the next one failed, the view is the
   rollback to [start] of the view the failing action left, outputs = those of the prefix *)
Lemma run_actions_false acts : forall s start outs s' ec outs',
  run_actions s start acts outs = (s', false, ec, outs') ->
  exists pre a post sp o sq e,
    acts = pre ++ a :: post /\ run_all s pre = Some (sp, o) /\ run_ops sp (a_ops a) [] = (sq, inr e)
    /\ outs' = outs ++ o /\ ec = aerr_class e /\ s' = rollback sq start /\ reach s sq.
Proof.
  induction acts as [|a acts IH]; intros s start outs s' ec outs' H; cbn [run_actions] in *.
  - inversion H.
  - pose proof (reach_run_ops (a_ops a) s []) as Hr.
    destruct (run_ops s (a_ops a) []) as [s1 [out|e]] eqn:R; cbn [fst] in Hr.
    + destruct (IH _ _ _ _ _ _ H) as (pre & a' & post & sp & o & sq & e & -> & E & R' & -> & -> & -> & Hre).
      exists (a :: pre), a', post, sp, (out :: o), sq, e. cbn [run_all app]. rewrite R, E, <- app_assoc.
      repeat split; auto. eapply reach_trans; eassumption.
    + inversion H; subst. exists [], a, acts, s, [], s1, e. rewrite app_nil_r. cbn [run_all app]. repeat split; auto.
Qed.

(* the converse directions: the loop is determined by run_all *)
Lemma run_actions_of_all acts : forall s start outs s' o,
  run_all s acts = Some (s', o) -> run_actions s start acts outs = (s', true, 0, outs ++ o).
Proof.
  induction acts as [|a acts IH]; intros s start outs s' o H; cbn [run_actions run_all] in *.
  - inversion H. rewrite app_nil_r. reflexivity.
  - destruct (run_ops s (a_ops a) []) as [s1 [out|e]]; [|discriminate].
    destruct (run_all s1 acts) as [[s2 o2]|] eqn:E; [|discriminate]. inversion H; subst.
    rewrite (IH _ start (outs ++ [out]) _ _ E), <- app_assoc. reflexivity.
Qed.

Lemma run_actions_of_fail pre : forall s start outs a post sp o sq e,
  run_all s pre = Some (sp, o) -> run_ops sp (a_ops a) [] = (sq, inr e) ->
  run_actions s start (pre ++ a :: post) outs = (rollback sq start, false, aerr_class e, outs ++ o).
Proof.
  induction pre as [|b pre IH]; intros s start outs a post sp o sq e H R; cbn [run_actions run_all app] in *.
  - inversion H; subst. rewrite R, app_nil_r. reflexivity.
  - destruct (run_ops s (a_ops b) []) as [s1 [out|e1]]; [|discriminate].
    destruct (run_all s1 pre) as [[s2 o2]|] eqn:E; [|discriminate]. inversion H; subst.
    rewrite (IH _ start (outs ++ [out]) a post _ _ _ _ E R), <- app_assoc. reflexivity.
Qed.

(* ------------------------------------------------------------------ 4. execute_tx *)

Lemma execute_tx_inv t u f s s' r : execute_tx t u f s = Some (s', r) ->
  exists s1, deduct t f s = Some s1
    /\ run_actions s1 (op_index s1) (t_actions t) [] = (s', res_success r, res_err r, res_outputs r)
    /\ res_fee r = f /\ res_units r = u.
Proof.
  rewrite execute_tx_decomp. destruct (deduct t f s) as [s1|]; [|discriminate].
  destruct (run_actions s1 (op_index s1) (t_actions t) []) as [[[s2 ok] ec] outs] eqn:R.
  intros H. inversion H; subst. exists s1. cbn [res_success res_err res_outputs res_fee res_units]. rewrite R. auto.
Qed.

Lemma execute_tx_fee_units t u f s s' r : execute_tx t u f s = Some (s', r) -> res_fee r = f /\ res_units r = u.
Proof. intros H. destruct (execute_tx_inv _ _ _ _ _ _ H) as (s1 & _ & _ & Hf & Hu). auto. Qed.

Lemma execute_tx_deduct_fails t u f s : deduct t f s = None -> execute_tx t u f s = None.
Proof. intros H. rewrite execute_tx_decomp, H. reflexivity. Qed.

Lemma execute_tx_included_iff t u f s : is_Some (execute_tx t u f s) <-> is_Some (deduct t f s).
Proof.
  rewrite execute_tx_decomp. destruct (deduct t f s) as [s1|].
  - destruct (run_actions s1 (op_index s1) (t_actions t) []) as [[[s2 ok] ec] outs]. split; eauto.
  - split; intros [x H]; discriminate H.
Qed.

(* the fee is charged first *)
Lemma execute_tx_fee_charged t u f s s' r : execute_tx t u f s = Some (s', r) ->
  exists v s1,
    get s (t_sponsor_key t) = inl v /\ length v = 8%nat /\ f <= be_dec v
    /\ deduct t f s = Some s1
    /\ vis s1 (t_sponsor_key t) = paid_value t (be_dec v) f
    /\ (forall k, t_sponsor_key t <> k -> vis s1 k = vis s k)
    /\ (be_dec v <= MaxU64 -> get_balance s1 (t_sponsor_key t) = Some (be_dec v - f))
    /\ run_actions s1 (op_index s1) (t_actions t) [] = (s', res_success r, res_err r, res_outputs r)
    /\ res_fee r = f /\ res_units r = u.
Proof.
  intros H. destruct (execute_tx_inv _ _ _ _ _ _ H) as (s1 & Hd & Hr & Hf & Hu).
  destruct (deduct_spec _ _ _ _ Hd) as (v & G & Hl & Hle & V1 & V2 & _).
  exists v, s1. repeat split; auto.
  intros Hm. refine (proj2 (deduct_balance _ _ _ _ (be_dec v) Hd _ Hm)).
  unfold get_balance. rewrite G. unfold parse_u64. rewrite Hl. reflexivity.
Qed.

Lemma execute_tx_success t u f s s' r : execute_tx t u f s = Some (s', r) -> res_success r = true ->
  exists s1, deduct t f s = Some s1
    /\ run_all s1 (t_actions t) = Some (s', res_outputs r)
    /\ length (res_outputs r) = length (t_actions t)
    /\ res_err r = 0 /\ res_fee r = f /\ res_units r = u.
Proof.
  intros H Hs. destruct (execute_tx_inv _ _ _ _ _ _ H) as (s1 & Hd & Hr & Hf & Hu). rewrite Hs in Hr.
  destruct (run_actions_true _ _ _ _ _ _ _ Hr) as (o & E & Ho & He). cbn [app] in Ho. subst o.
  exists s1. repeat split; auto. eapply run_all_length; eassumption.
Qed.

Lemma execute_tx_failure t u f s s' r : view_ok s -> execute_tx t u f s = Some (s', r) -> res_success r = false ->
  exists s1, deduct t f s = Some s1
    /\ (forall k, vis s' k = vis s1 k)
    /\ pending s' = pending s1 /\ writes s' = writes s1 /\ ops s' = ops s1 /\ op_index s' = op_index s1
    /\ res_fee r = f /\ res_units r = u
    /\ exists pre a post sp sq e,
         t_actions t = pre ++ a :: post
         /\ run_all s1 pre = Some (sp, res_outputs r)
         /\ run_ops sp (a_ops a) [] = (sq, inr e)
         /\ res_err r = aerr_class e
         /\ length (res_outputs r) = length pre
         /\ s' = rollback sq (op_index s1).
Proof.
  intros Hok H Hs. destruct (execute_tx_inv _ _ _ _ _ _ H) as (s1 & Hd & Hr & Hf & Hu). rewrite Hs in Hr.
  destruct (run_actions_false _ _ _ _ _ _ _ Hr) as (pre & a & post & sp & o & sq & e & Ha & E & R & Ho & He & Hs' & Hre).
  cbn [app] in Ho. subst o.
  destruct (deduct_spec _ _ _ _ Hd) as (_ & _ & _ & _ & _ & _ & Hr1).
  pose proof (reach_view_ok _ _ Hr1 Hok) as Hok1.
  destruct (reach_rollback _ _ Hre Hok1) as (Rp & Rw & Ro & Ri & Rv & _). rewrite <- Hs' in *.
  exists s1. repeat split; auto.
  exists pre, a, post, sp, sq, e. repeat split; auto. eapply run_all_length; eassumption.
Qed.

(* success iff every action succeeds from the post-fee view *)
Lemma execute_tx_success_iff t u f s s' r s1 : execute_tx t u f s = Some (s', r) -> deduct t f s = Some s1 ->
  (res_success r = true <-> is_Some (run_all s1 (t_actions t))).
Proof.
  intros H Hd. split.
  - intros Hs. destruct (execute_tx_success _ _ _ _ _ _ H Hs) as (s1' & Hd' & E & _).
    rewrite Hd in Hd'. inversion Hd'; subst. eauto.
  - intros [[s2 o] E]. rewrite execute_tx_decomp, Hd in H.
    rewrite (run_actions_of_all _ _ (op_index s1) [] _ _ E) in H. inversion H. reflexivity.
Qed.

(* effects of a failed transaction: nothing but the fee *)
Lemma execute_tx_failure_only_fee t u f s s' r : view_ok s -> execute_tx t u f s = Some (s', r) -> res_success r = false ->
  exists v, get s (t_sponsor_key t) = inl v /\ length v = 8%nat /\ f <= be_dec v
    /\ vis s' (t_sponsor_key t) = paid_value t (be_dec v) f
    /\ forall k, t_sponsor_key t <> k -> vis s' k = vis s k.
Proof.
  intros Hok H Hs. destruct (execute_tx_failure _ _ _ _ _ _ Hok H Hs) as (s1 & Hd & Hv & _).
  destruct (deduct_spec _ _ _ _ Hd) as (v & G & Hl & Hle & V1 & V2 & _).
  exists v. repeat split; auto.
  - rewrite Hv. exact V1.
  - intros k Hne. rewrite Hv. apply V2, Hne.
Qed.

(* keys no action may write keep the value they had after the fee deduction, success or not *)
Lemma execute_tx_confined t u f s s' r k : view_ok s -> execute_tx t u f s = Some (s', r) ->
  scope_has (v_scope s) k pWrite = false -> vis s' k = vis s k /\ pending s' !! k = None.
Proof.
  intros Hok H Hw. destruct (execute_tx_inv _ _ _ _ _ _ H) as (s1 & Hd & Hr & _).
  destruct (deduct_spec _ _ _ _ Hd) as (_ & _ & _ & _ & _ & _ & Hr1).
  pose proof (reach_view_ok _ _ Hr1 Hok) as Hok1.
  destruct (reach_env _ _ Hr1) as (_ & _ & Hsc).
  destruct (reach_confined _ _ k Hr1 Hok Hw) as [C1 C2].
  destruct (run_actions_shape _ _ _ _ _ _ _ _ Hr) as [[_ Hre] | [_ (s'' & Hre & ->)]].
  - destruct (reach_confined _ _ k (reach_trans _ _ _ Hr1 Hre) Hok Hw) as [D1 D2]. auto.
  - destruct (reach_rollback _ _ Hre Hok1) as (Rp & _ & _ & _ & Rv & _). rewrite Rv, Rp. auto.
Qed.

(* the final view is well formed and lives over the same block diff / storage / scope *)
Lemma execute_tx_view_ok t u f s s' r : view_ok s -> execute_tx t u f s = Some (s', r) ->
  view_ok s' /\ v_ts s' = v_ts s /\ v_base s' = v_base s /\ v_scope s' = v_scope s.
Proof.
  intros Hok H. destruct (execute_tx_inv _ _ _ _ _ _ H) as (s1 & Hd & Hr & _).
  destruct (deduct_spec _ _ _ _ Hd) as (_ & _ & _ & _ & _ & _ & Hr1).
  pose proof (reach_view_ok _ _ Hr1 Hok) as Hok1.
  destruct (reach_env _ _ Hr1) as (E1 & E2 & E3).
  destruct (run_actions_shape _ _ _ _ _ _ _ _ Hr) as [[_ Hre] | [_ (s'' & Hre & ->)]].
  - destruct (reach_env _ _ Hre) as (F1 & F2 & F3). split; [eapply reach_view_ok; eassumption|].
    rewrite F1, F2, F3. auto.
  - destruct (reach_env _ _ Hre) as (F1 & F2 & F3).
    destruct (rollback_spec s'' (op_index s1)) as (G1 & G2 & G3 & _).
    split; [apply rollback_view_ok; eapply reach_view_ok; eassumption|].
    rewrite G1, G2, G3, F1, F2, F3. auto.
Qed.

(* ------------------------------------------------------------------ 5. PreExecute: the gate *)

Lemma pre_execute_ok_iff r fm t u s ts f :
  pre_execute r fm t u s ts = (0, f) <->
    pre_execute_static (static_rules r) (static_tx t) ts = 0
    /\ fee fm u = Some f
    /\ exists b, get_balance s (t_sponsor_key t) = Some b /\ f <= b.
Proof.
  unfold pre_execute. set (e := pre_execute_static (static_rules r) (static_tx t) ts).
  destruct (N.eqb_spec e 0) as [E|E]; cbn [negb].
  - destruct (fee fm u) as [f'|].
    + destruct (get_balance s (t_sponsor_key t)) as [b|].
      * destruct (b <? f') eqn:L.
        -- split.
           ++ intros H. apply (f_equal fst) in H. cbn [fst] in H.
              unfold subInvalidBalance, subInsufficient in H. destruct (t_morpheus t); discriminate H.
           ++ intros (_ & Hf & b' & Hb & Hle). inversion Hf; subst. inversion Hb; subst. lia.
        -- split.
           ++ intros H. inversion H; subst. split; [exact E|]. split; [reflexivity|]. exists b. split; [reflexivity | lia].
           ++ intros (_ & Hf & _). inversion Hf; subst. reflexivity.
      * split.
        -- intros H. apply (f_equal fst) in H. discriminate H.
        -- intros (_ & _ & b' & Hb & _). discriminate Hb.
    + split.
      * intros H. apply (f_equal fst) in H. discriminate H.
      * intros (_ & Hf & _). discriminate Hf.
  - split.
    + intros H. apply (f_equal fst) in H. cbn [fst] in H. unfold sub_of_static in H. lia.
    + intros (H & _). contradiction.
Qed.

(* the verdict (and the fee handed to Execute) is a function of the rules, the fee manager, the
   transaction, its units, the timestamp and the sponsor's balance only *)
Lemma pre_execute_same_gate r fm t u s1 s2 ts :
  get_balance s1 (t_sponsor_key t) = get_balance s2 (t_sponsor_key t) ->
  pre_execute r fm t u s1 ts = pre_execute r fm t u s2 ts.
Proof. intros H. unfold pre_execute. rewrite H. reflexivity. Qed.

Lemma pre_execute_rejects_poor r fm t u s ts f b :
  fee fm u = Some f -> get_balance s (t_sponsor_key t) = Some b -> b < f ->
  fst (pre_execute r fm t u s ts) <> 0.
Proof.
  intros Hf Hb Hlt E. destruct (pre_execute r fm t u s ts) as [e f'] eqn:P. cbn [fst] in E. subst e.
  apply pre_execute_ok_iff in P. destruct P as (_ & Hf' & b' & Hb' & Hle).
  rewrite Hf in Hf'. inversion Hf'; subst. rewrite Hb in Hb'. inversion Hb'; subst. lia.
Qed.

(* ------------------------------------------------------------------ 6. fee = prices x units *)

Lemma fee_sum_price_x_units m d : fee_sum m d idx5 = price_x_units (unit_prices m) d.
Proof.
  unfold fee_sum, price_x_units, unit_prices, idx5, dget. cbn [map fold_left fold_right nth]. lia.
Qed.

Lemma fee_price_x_units m d f : fee m d = Some f <-> f = price_x_units (unit_prices m) d /\ f <= MaxU64.
Proof.
  rewrite fee_exact, fee_sum_price_x_units. split; intros [-> H]; split; auto.
Qed.

(* ------------------------------------------------------------------ 7. run_tx *)

Definition tx_view (parent : gmap key val) (st : tstate) (sk : gmap key perm) : view :=
  new_view st (ScopeKeys sk) (fetch parent sk).

Lemma run_tx_included r fm parent ts st t sk u st' res :
  run_tx r fm parent ts st t sk u = (st', inl res) ->
  exists f s', pre_execute r fm t u (tx_view parent st sk) ts = (0, f)
    /\ execute_tx t u f (tx_view parent st sk) = Some (s', res) /\ st' = commit s'.
Proof.
  unfold run_tx, tx_view. destruct (pre_execute r fm t u _ ts) as [e f] eqn:P.
  destruct e as [|p]; [|intros H; inversion H].
  destruct (execute_tx t u f _) as [[s' res']|] eqn:X; intros H; inversion H; subst.
  exists f, s'. auto.
Qed.

Lemma run_tx_rejected r fm parent ts st t sk u st' e :
  run_tx r fm parent ts st t sk u = (st', inr e) -> st' = st /\ e <> 0.
Proof.
  unfold run_tx. destruct (pre_execute r fm t u _ ts) as [e' f] eqn:P.
  destruct e' as [|p].
  - destruct (execute_tx t u f _) as [[s' res']|]; intros H; inversion H; subst.
    split; [reflexivity|]. unfold subInvalidBalance, subInsufficient. destruct (t_morpheus t); discriminate.
  - intros H; inversion H; subst. split; [reflexivity | discriminate].
Qed.

(* an included transaction is charged exactly prices x units, whatever its max_fee field says *)
Lemma run_tx_fee r fm parent ts st t sk u st' res :
  run_tx r fm parent ts st t sk u = (st', inl res) ->
  fee fm u = Some (res_fee res) /\ res_units res = u
  /\ res_fee res = price_x_units (unit_prices fm) u /\ res_fee res <= MaxU64
  /\ exists b, get_balance (tx_view parent st sk) (t_sponsor_key t) = Some b /\ res_fee res <= b.
Proof.
  intros H. destruct (run_tx_included _ _ _ _ _ _ _ _ _ _ H) as (f & s' & P & X & _).
  apply pre_execute_ok_iff in P. destruct P as (_ & Hf & Hb).
  destruct (execute_tx_fee_units _ _ _ _ _ _ X) as [-> ->].
  destruct (proj1 (fee_price_x_units _ _ _) Hf) as [E L]. auto.
Qed.

(* a transaction whose sponsor cannot pay the fee is not included and commits nothing *)
Lemma run_tx_poor r fm parent ts st t sk u f b :
  fee fm u = Some f -> get_balance (tx_view parent st sk) (t_sponsor_key t) = Some b -> b < f ->
  exists e, run_tx r fm parent ts st t sk u = (st, inr e) /\ e <> 0.
Proof.
  intros Hf Hb Hlt. destruct (run_tx r fm parent ts st t sk u) as [st' [res|e]] eqn:R.
  - exfalso. destruct (run_tx_fee _ _ _ _ _ _ _ _ _ _ R) as (Hf' & _ & _ & _ & b' & Hb' & Hle).
    rewrite Hf in Hf'. inversion Hf'; subst. unfold tx_view in *. rewrite Hb in Hb'. inversion Hb'; subst. lia.
  - destruct (run_tx_rejected _ _ _ _ _ _ _ _ _ _ R) as [-> Hne]. eauto.
Qed.

Lemma tx_view_ok parent st sk : view_ok (tx_view parent st sk).
Proof. apply view_ok_new. Qed.

(* what a later transaction sees under key k after this one committed *)
Lemma run_tx_commit_vis r fm parent ts st t sk u st' res :
  run_tx r fm parent ts st t sk u = (st', inl res) ->
  exists f s', execute_tx t u f (tx_view parent st sk) = Some (s', res)
    /\ forall k, under_of st' (fetch parent sk) k = vis s' k.
Proof.
  intros H. destruct (run_tx_included _ _ _ _ _ _ _ _ _ _ H) as (f & s' & _ & X & ->).
  exists f, s'. split; [exact X|]. intros k.
  destruct (execute_tx_view_ok _ _ _ _ _ _ (tx_view_ok _ _ _) X) as (_ & _ & Eb & _).
  rewrite <- commit_under. rewrite Eb. reflexivity.
Qed.

(* a failed transaction leaves the block diff untouched except at the sponsor's balance key *)
Lemma run_tx_failure_diff r fm parent ts st t sk u st' res :
  run_tx r fm parent ts st t sk u = (st', inl res) -> res_success res = false ->
  (forall k, t_sponsor_key t <> k -> ts_changed st' !! k = ts_changed st !! k)
  /\ exists v, under_of st (fetch parent sk) (t_sponsor_key t) = Some v /\ length v = 8%nat
       /\ res_fee res <= be_dec v
       /\ under_of st' (fetch parent sk) (t_sponsor_key t) = paid_value t (be_dec v) (res_fee res).
Proof.
  intros H Hs. destruct (run_tx_included _ _ _ _ _ _ _ _ _ _ H) as (f & s' & _ & X & ->).
  pose proof (tx_view_ok parent st sk) as Hok.
  destruct (execute_tx_view_ok _ _ _ _ _ _ Hok X) as (Hok' & Ets & Eb & _).
  destruct (execute_tx_failure_only_fee _ _ _ _ _ _ Hok X Hs) as (v & G & Hl & Hle & V1 & V2).
  destruct (execute_tx_fee_units _ _ _ _ _ _ X) as [Ef _]. rewrite Ef.
  destruct (get_inl _ _ _ G) as [_ Hv].
  split.
  - intros k Hne. rewrite (commit_minimal _ _ Hok').
    assert (E : vis s' k = under s' k).
    { rewrite (V2 k Hne). unfold under. rewrite Ets, Eb. unfold tx_view. rewrite fresh_view_vis. reflexivity. }
    destruct (decide (vis s' k = under s' k)) as [_|D]; [|contradiction]. rewrite Ets. reflexivity.
  - exists v. split; [|split; [exact Hl|split; [exact Hle|]]].
    + unfold tx_view in Hv. rewrite fresh_view_vis in Hv. exact Hv.
    + rewrite <- V1. rewrite <- commit_under. rewrite Eb. reflexivity.
Qed.

(* ------------------------------------------------------------------ 8. the block: every result's fee *)

Definition ptx := (tx * gmap key perm * dims)%type.

Lemma run_txs_fees r fm parent ts : forall (ptxs : list ptx) st st' rs fails,
  run_txs r fm parent ts st ptxs = (st', rs, fails) -> fails = [] ->
  Forall2 (fun (p : ptx) res => res_units res = snd p /\ fee fm (snd p) = Some (res_fee res)
                                /\ exists b, res_fee res <= b) ptxs rs.
Proof.
  induction ptxs as [|[[t sk] u] rest IH]; intros st st' rs fails H Hf; cbn [run_txs] in H.
  - inversion H. constructor.
  - destruct (run_tx r fm parent ts st t sk u) as [st1 [res|e]] eqn:R;
      destruct (run_txs r fm parent ts st1 rest) as [[st2 rs2] fl2] eqn:E; inversion H; subst.
    + constructor; [|eapply IH; [exact E | reflexivity]].
      destruct (run_tx_fee _ _ _ _ _ _ _ _ _ _ R) as (F & U & _ & _ & b & _ & Hb). cbn [snd]. eauto.
    + discriminate.
Qed.

Lemma prepare_spec r : forall txs fm (ptxs : list ptx) fm',
  prepare r fm txs = inl (ptxs, fm') ->
  Forall2 (fun t (p : ptx) => fst (fst p) = t /\ state_keys t = Some (snd (fst p)) /\ units r t (snd (fst p)) = Some (snd p)) txs ptxs.
Proof.
  induction txs as [|t rest IH]; intros fm ptxs fm' H; cbn [prepare] in H.
  - inversion H. constructor.
  - destruct (state_keys t) as [sk|] eqn:K; [|discriminate].
    destruct (units r t sk) as [u|] eqn:U; [|discriminate].
    destruct (consume fm u (r_max_units r)) as [[ok j] fm1]. destruct ok; [|discriminate].
    destruct (prepare r fm1 rest) as [[l fm2]|e] eqn:P; [|discriminate].
    inversion H; subst. constructor; [cbn; auto | eapply IH; exact P].
Qed.

(* inversion of an accepted block *)
Lemma execute_block_ok_inv r mk p b o : execute_block r mk p b = inl o ->
  exists fm ptxs fm' st,
    prepare r fm (b_txs b) = inl (ptxs, fm')
    /\ run_txs r fm' (p_data p) (b_ts b) ts_new ptxs = (st, o_results o, [])
    /\ o_fee o = fm' /\ o_prices o = unit_prices fm' /\ o_diff o = ts_changed st.
Proof.
  unfold execute_block.
  destruct (b_too_late b); [discriminate|].
  destruct (is_fail b (mk_height mk)); [discriminate|].
  destruct (p_height p) as [ph|]; [|discriminate].
  destruct (negb (b_height b =? ph + 1)); [discriminate|].
  destruct (is_fail b (mk_ts mk)); [discriminate|].
  destruct (b_ts b <? Z.of_N (p_ts p) + r_min_gap r)%Z; [discriminate|].
  destruct ((match b_txs b with [] => true | _ => false end) && (b_ts b <? Z.of_N (p_ts p) + r_min_empty_gap r)%Z); [discriminate|].
  destruct (is_fail b (mk_fee mk)); [discriminate|].
  set (fm := compute_next (p_fee p) (b_ts b) (r_target r) (r_denom r) (r_min_price r)).
  destruct (b_vw_dup b); [discriminate|].
  destruct (fail_hits b (prepared_prefix r fm (b_txs b))); [discriminate|].
  destruct (prepare r fm (b_txs b)) as [[ptxs fm']|e] eqn:P; [|discriminate].
  destruct (run_txs r fm' (p_data p) (b_ts b) ts_new ptxs) as [[st results] fails] eqn:R.
  destruct fails as [|e1 [|e2 fl]]; [|discriminate|discriminate].
  destruct (negb (b_root_ok b)); [discriminate|].
  destruct (negb (forallb t_auth_ok (b_txs b))); [discriminate|].
  intros H. inversion H; subst. cbn [o_results o_fee o_prices o_diff].
  exists fm, ptxs, fm', st. auto.
Qed.

(* every transaction of an accepted block has exactly one result; its units are the transaction's
   units and its fee is the block's unit prices times those units, within uint64 *)
Lemma execute_block_fees r mk p b o : execute_block r mk p b = inl o ->
  Forall2 (fun t res => exists sk, state_keys t = Some sk /\ units r t sk = Some (res_units res)
       /\ fee (o_fee o) (res_units res) = Some (res_fee res)
       /\ res_fee res = price_x_units (o_prices o) (res_units res) /\ res_fee res <= MaxU64)
    (b_txs b) (o_results o).
Proof.
  intros H. destruct (execute_block_ok_inv _ _ _ _ _ H) as (fm & ptxs & fm' & st & P & R & -> & -> & _).
  pose proof (prepare_spec _ _ _ _ _ P) as F1.
  pose proof (run_txs_fees _ _ _ _ _ _ _ _ _ R eq_refl) as F2.
  eapply Forall2_transitive; [|exact F1|exact F2].
  intros t [[t' sk] u] res (E1 & K & U) (E2 & F & _). cbn [fst snd] in *. subst.
  exists sk. destruct (proj1 (fee_price_x_units _ _ _) F) as [E L]. auto.
Qed.

(* ------------------------------------------------------------------ 9. max_fee is never read *)

Definition with_maxfee (m : N) (t : tx) : tx :=
  mkTx (t_expiry t) (t_chain_ok t) m (t_sponsor_key t) (t_auth_ok t) (t_auth_compute t)
       (t_auth_start t) (t_auth_end t) (t_size t) (t_morpheus t) (t_actions t).

(* same transaction up to the max_fee field *)
Definition same_but_maxfee (t t' : tx) : Prop := exists m, t' = with_maxfee m t.

Definition with_txs (b : block) (txs : list tx) : block :=
  mkBlock (b_ts b) (b_height b) (b_root_ok b) (b_too_late b) (b_vw_dup b) (b_fail_key b) txs.

Definition ptx_rel (p p' : ptx) : Prop :=
  same_but_maxfee (fst (fst p)) (fst (fst p')) /\ snd (fst p) = snd (fst p') /\ snd p = snd p'.

Lemma pre_execute_maxfee r fm t m u s ts : pre_execute r fm (with_maxfee m t) u s ts = pre_execute r fm t u s ts.
Proof. reflexivity. Qed.

Lemma execute_tx_maxfee t m u f s : execute_tx (with_maxfee m t) u f s = execute_tx t u f s.
Proof. reflexivity. Qed.

Lemma run_tx_maxfee r fm parent ts st t m sk u :
  run_tx r fm parent ts st (with_maxfee m t) sk u = run_tx r fm parent ts st t sk u.
Proof. reflexivity. Qed.

Lemma prepare_maxfee r : forall txs txs' fm, Forall2 same_but_maxfee txs txs' ->
  match prepare r fm txs, prepare r fm txs' with
  | inl (l, m), inl (l', m') => m = m' /\ Forall2 ptx_rel l l'
  | inr e, inr e' => e = e'
  | _, _ => False
  end.
Proof.
  intros txs txs' fm F. revert fm. induction F as [|t t' rest rest' [m ->] F IH]; intros fm; cbn [prepare].
  - split; [reflexivity | constructor].
  - change (state_keys (with_maxfee m t)) with (state_keys t).
    destruct (state_keys t) as [sk|]; [|reflexivity].
    change (units r (with_maxfee m t) sk) with (units r t sk).
    destruct (units r t sk) as [u|]; [|reflexivity].
    destruct (consume fm u (r_max_units r)) as [[ok j] fm1]. destruct ok; [|reflexivity].
    specialize (IH fm1).
    destruct (prepare r fm1 rest) as [[l m1]|e], (prepare r fm1 rest') as [[l' m1']|e']; try contradiction.
    + destruct IH as [-> IH]. split; [reflexivity|]. constructor; [|exact IH].
      split; [exists m; reflexivity | split; reflexivity].
    + exact IH.
Qed.

Lemma prepared_prefix_maxfee r : forall txs txs' fm, Forall2 same_but_maxfee txs txs' ->
  Forall2 ptx_rel (prepared_prefix r fm txs) (prepared_prefix r fm txs').
Proof.
  intros txs txs' fm F. revert fm. induction F as [|t t' rest rest' [m ->] F IH]; intros fm; cbn [prepared_prefix].
  - constructor.
  - change (state_keys (with_maxfee m t)) with (state_keys t).
    destruct (state_keys t) as [sk|]; [|constructor].
    change (units r (with_maxfee m t) sk) with (units r t sk).
    destruct (units r t sk) as [u|]; [|constructor].
    destruct (consume fm u (r_max_units r)) as [[ok j] fm1]. destruct ok; [|constructor].
    constructor; [|apply IH]. split; [exists m; reflexivity | split; reflexivity].
Qed.

Lemma fail_hits_maxfee b b' (l l' : list ptx) : b_fail_key b = b_fail_key b' -> Forall2 ptx_rel l l' ->
  fail_hits b l = fail_hits b' l'.
Proof.
  intros Hk F. unfold fail_hits. rewrite <- Hk. destruct (b_fail_key b) as [fk|]; [|reflexivity].
  induction F as [|[[t sk] u] [[t' sk'] u'] l l' (_ & Hs & _) F IH]; [reflexivity|].
  cbn [existsb fst snd] in *. subst sk'. rewrite IH. reflexivity.
Qed.

Lemma run_txs_maxfee r fm parent ts : forall (l l' : list ptx) st, Forall2 ptx_rel l l' ->
  run_txs r fm parent ts st l = run_txs r fm parent ts st l'.
Proof.
  intros l l' st F. revert st.
  induction F as [|[[t sk] u] [[t' sk'] u'] l l' ([m Ht] & Hs & Hu) F IH]; intros st; [reflexivity|].
  cbn [fst snd] in *. subst t' sk' u'. cbn [run_txs]. rewrite run_tx_maxfee.
  destruct (run_tx r fm parent ts st t sk u) as [st1 [res|e]]; rewrite IH; reflexivity.
Qed.

Lemma forallb_auth_maxfee txs txs' : Forall2 same_but_maxfee txs txs' -> forallb t_auth_ok txs = forallb t_auth_ok txs'.
Proof.
  induction 1 as [|t t' l l' [m ->] F IH]; [reflexivity|]. cbn [forallb]. rewrite IH. reflexivity.
Qed.

(* the verdict, the results, the post-state and the fee state of a block do not depend on the
   max_fee field of any of its transactions *)
Lemma execute_block_maxfee r mk p b txs' : Forall2 same_but_maxfee (b_txs b) txs' ->
  execute_block r mk p (with_txs b txs') = execute_block r mk p b.
Proof.
  intros F. unfold execute_block, is_fail. cbn [with_txs b_too_late b_fail_key b_height b_ts b_txs b_vw_dup b_root_ok].
  destruct (b_too_late b); [reflexivity|].
  destruct (match b_fail_key b with Some f => bytes_eqb f (mk_height mk) | None => false end); [reflexivity|].
  destruct (p_height p) as [ph|]; [|reflexivity].
  destruct (negb (b_height b =? ph + 1)); [reflexivity|].
  destruct (match b_fail_key b with Some f => bytes_eqb f (mk_ts mk) | None => false end); [reflexivity|].
  destruct (b_ts b <? Z.of_N (p_ts p) + r_min_gap r)%Z; [reflexivity|].
  assert (Hnil : (match txs' with [] => true | _ => false end) = (match b_txs b with [] => true | _ => false end))
    by (destruct F; reflexivity).
  rewrite Hnil.
  destruct ((match b_txs b with [] => true | _ => false end) && (b_ts b <? Z.of_N (p_ts p) + r_min_empty_gap r)%Z); [reflexivity|].
  destruct (match b_fail_key b with Some f => bytes_eqb f (mk_fee mk) | None => false end); [reflexivity|].
  set (fm := compute_next (p_fee p) (b_ts b) (r_target r) (r_denom r) (r_min_price r)).
  destruct (b_vw_dup b); [reflexivity|].
  rewrite <- (fail_hits_maxfee b (with_txs b txs') _ _ eq_refl (prepared_prefix_maxfee r _ _ fm F)).
  destruct (fail_hits b (prepared_prefix r fm (b_txs b))); [reflexivity|].
  pose proof (prepare_maxfee r _ _ fm F) as HP.
  destruct (prepare r fm (b_txs b)) as [[l m1]|e], (prepare r fm txs') as [[l' m1']|e']; try contradiction.
  - destruct HP as [<- HP]. rewrite <- (run_txs_maxfee r m1 (p_data p) (b_ts b) l l' ts_new HP).
    rewrite <- (forallb_auth_maxfee _ _ F). reflexivity.
  - subst e'. reflexivity.
Qed.

Lemma same_but_maxfee_map (g : tx -> N) l : Forall2 same_but_maxfee l (map (fun t => with_maxfee (g t) t) l).
Proof. induction l as [|t l IH]; cbn [map]; constructor; [exists (g t); reflexivity | exact IH]. Qed.

(* rewriting every max_fee (for instance to 0) changes nothing *)
Lemma execute_block_remax r mk p b (g : tx -> N) :
  execute_block r mk p (with_txs b (map (fun t => with_maxfee (g t) t) (b_txs b))) = execute_block r mk p b.
Proof. apply execute_block_maxfee, same_but_maxfee_map. Qed.

(* the charged fee of an included transaction, and the whole outcome of its task, for any max_fee *)
Lemma run_tx_fee_any_maxfee r fm parent ts st t sk u st' res :
  run_tx r fm parent ts st t sk u = (st', inl res) ->
  fee fm u = Some (res_fee res) /\ res_fee res = price_x_units (unit_prices fm) u
  /\ forall m, run_tx r fm parent ts st (with_maxfee m t) sk u = (st', inl res).
Proof.
  intros H. destruct (run_tx_fee _ _ _ _ _ _ _ _ _ _ H) as (F & _ & E & _).
  split; [exact F|]. split; [exact E|]. intros m. rewrite run_tx_maxfee. exact H.
Qed.

(* the gate: inclusion happens only through pre_execute, and Execute charges the fee it computed *)
Lemma run_tx_gate r fm parent ts st t sk u st' res :
  run_tx r fm parent ts st t sk u = (st', inl res) ->
  pre_execute r fm t u (tx_view parent st sk) ts = (0, res_fee res).
Proof.
  intros H. destruct (run_tx_included _ _ _ _ _ _ _ _ _ _ H) as (f & s' & P & X & _).
  destruct (execute_tx_fee_units _ _ _ _ _ _ X) as [-> _]. exact P.
Qed.

(* ------------------------------------------------------------------ 10. actions that do not write the sponsor key *)

(* the operation may write key k *)
Definition op_writes (k : key) (o : sop) : Prop :=
  match o with
  | OGet _ | OFail => False
  | OPut k' _ | ODel k' => k' = k
  | OTransfer from to _ _ => from = k \/ to = k
  end.

Definition no_action_writes (k : key) (acts : list action) : Prop :=
  Forall (fun a => Forall (fun o => ~ op_writes k o) (a_ops a)) acts.

Lemma insert_vis_other s k v k' : k <> k' -> vis (fst (insert s k v)) k' = vis s k'.
Proof.
  intros Hne. destruct (insert s k v) as [s' [e|]] eqn:R; cbn [fst].
  - rewrite (insert_fail _ _ _ _ _ R). reflexivity.
  - apply (proj2 (insert_vis _ _ _ _ R)), Hne.
Qed.

Lemma remove_vis_other s k k' : k <> k' -> vis (fst (remove s k)) k' = vis s k'.
Proof.
  intros Hne. destruct (remove s k) as [s' [e|]] eqn:R; cbn [fst].
  - rewrite (proj1 (remove_fail _ _ _ _ R)). reflexivity.
  - apply (proj2 (remove_vis _ _ _ R)), Hne.
Qed.

Lemma sub_balance_vis_other s k a k' : k <> k' -> vis (fst (sub_balance s k a)) k' = vis s k'.
Proof.
  intros Hne. unfold sub_balance. destruct (get s k) as [v|e]; [|reflexivity].
  destruct (parse_u64 v) as [bal|]; [|reflexivity]. destruct (bal <? a); [reflexivity|].
  destruct (bal - a =? 0).
  - pose proof (remove_vis_other s k k' Hne) as H. destruct (remove s k) as [s' [e|]]; exact H.
  - pose proof (insert_vis_other s k (be64 (bal - a)) k' Hne) as H.
    destruct (insert s k (be64 (bal - a))) as [s' [e|]]; exact H.
Qed.

Lemma add_balance_vis_other s k a k' : k <> k' -> vis (fst (add_balance s k a)) k' = vis s k'.
Proof.
  intros Hne. unfold add_balance.
  destruct (match get s k with
            | inl v => match parse_u64 v with Some b => inl b | None => inr AEOther end
            | inr ENotFound => inl 0
            | inr e => inr (aerr_of e)
            end) as [bal|e]; [|reflexivity].
  destruct (add_chk bal a) as [nbal|]; [|reflexivity].
  pose proof (insert_vis_other s k (be64 nbal) k' Hne) as H.
  destruct (insert s k (be64 nbal)) as [s' [e|]]; exact H.
Qed.

Lemma run_ops_vis_unwritten ops : forall s out k, Forall (fun o => ~ op_writes k o) ops ->
  vis (fst (run_ops s ops out)) k = vis s k.
Proof.
  induction ops as [|o ops IH]; intros s out k F; cbn [run_ops]; [reflexivity|].
  inversion F as [|? ? Ho F']; subst.
  destruct o as [k0|k0 v|k0| |from to value memo_ok]; cbn [op_writes] in Ho.
  - destruct (get s k0) as [v|[| |]]; try reflexivity; apply IH, F'.
  - pose proof (insert_vis_other s k0 v k Ho) as H. destruct (insert s k0 v) as [s' [e|]]; cbn [fst] in *.
    + exact H.
    + rewrite (IH _ _ _ F'). exact H.
  - pose proof (remove_vis_other s k0 k Ho) as H. destruct (remove s k0) as [s' [e|]]; cbn [fst] in *.
    + exact H.
    + rewrite (IH _ _ _ F'). exact H.
  - reflexivity.
  - destruct (value =? 0); [reflexivity|]. destruct (negb memo_ok); [reflexivity|].
    assert (H1 : from <> k) by tauto. assert (H2 : to <> k) by tauto.
    pose proof (sub_balance_vis_other s from value k H1) as G1.
    destruct (sub_balance s from value) as [s1 [sb|e]]; cbn [fst] in *; [|exact G1].
    pose proof (add_balance_vis_other s1 to value k H2) as G2.
    destruct (add_balance s1 to value) as [s2 [rb|e]]; cbn [fst] in *.
    + rewrite (IH _ _ _ F'), G2. exact G1.
    + rewrite G2. exact G1.
Qed.

Lemma run_all_vis_unwritten acts : forall s s' o k, no_action_writes k acts ->
  run_all s acts = Some (s', o) -> vis s' k = vis s k.
Proof.
  induction acts as [|a acts IH]; intros s s' o k F H; cbn [run_all] in H.
  - inversion H. reflexivity.
  - inversion F as [|? ? Fa F']; subst.
    pose proof (run_ops_vis_unwritten (a_ops a) s [] k Fa) as G.
    destruct (run_ops s (a_ops a) []) as [s1 [out|e]]; [|discriminate]. cbn [fst] in G.
    destruct (run_all s1 acts) as [[s2 o2]|] eqn:E; [|discriminate]. inversion H; subst.
    rewrite (IH _ _ _ _ F' E). exact G.
Qed.

(* if no action writes the sponsor's balance key, the sponsor pays exactly the fee: its visible
   balance at the end of Execute is the one before minus f, whether the actions succeeded or not *)
Lemma execute_tx_sponsor_pays_exactly t u f s s' r : view_ok s -> execute_tx t u f s = Some (s', r) ->
  no_action_writes (t_sponsor_key t) (t_actions t) ->
  exists v, get s (t_sponsor_key t) = inl v /\ length v = 8%nat /\ f <= be_dec v
    /\ vis s' (t_sponsor_key t) = paid_value t (be_dec v) f
    /\ (be_dec v <= MaxU64 -> get_balance s' (t_sponsor_key t) = Some (be_dec v - f)).
Proof.
  intros Hok H Hnw.
  destruct (execute_tx_fee_charged _ _ _ _ _ _ H) as (v & s1 & G & Hl & Hle & Hd & V1 & _ & Hb & Hr & _).
  assert (Hv : vis s' (t_sponsor_key t) = vis s1 (t_sponsor_key t)).
  { destruct (res_success r) eqn:Hs.
    - destruct (execute_tx_success _ _ _ _ _ _ H Hs) as (s1' & Hd' & E & _).
      rewrite Hd in Hd'. inversion Hd'; subst s1'. eapply run_all_vis_unwritten; eassumption.
    - destruct (execute_tx_failure _ _ _ _ _ _ Hok H Hs) as (s1' & Hd' & Hv & _).
      rewrite Hd in Hd'. inversion Hd'; subst s1'. apply Hv. }
  exists v. split; [exact G|]. split; [exact Hl|]. split; [exact Hle|]. split; [rewrite Hv; exact V1|].
  intros Hm. specialize (Hb Hm).
  destruct (get_inl _ _ _ G) as [Hrd _].
  destruct (execute_tx_view_ok _ _ _ _ _ _ Hok H) as (_ & _ & _ & Hsc).
  destruct (deduct_spec _ _ _ _ Hd) as (_ & _ & _ & _ & _ & _ & Hr1).
  destruct (reach_env _ _ Hr1) as (_ & _ & Hsc1).
  rewrite get_balance_vis in Hb by (rewrite Hsc1; exact Hrd).
  rewrite get_balance_vis by (rewrite Hsc; exact Hrd). rewrite Hv. exact Hb.
Qed.
