(* Proofs about Model/Fees.v: fee-market price rule (C13), window (C13), byte layout (C13),
   Consume atomicity and block sums (C12). *)
From Coq Require Import List NArith ZArith Bool Lia ZifyN ZifyNat ZifyBool.
Import ListNotations.
From HV Require Import Lib.U64 Model.Fees.
Local Open Scope N_scope.

(* ================================================================== mulDiv *)

Lemma W64_pos : 0 < W64. Proof. reflexivity. Qed.

Lemma mul_div_spec a b c : 0 < c -> mul_div a b c = N.min MaxU64 (a * b / c).
Proof.
  intros Hc. unfold mul_div. cbv zeta.
  set (p := a * b).
  assert (Hp : p = W64 * (p / W64) + p mod W64) by (apply N.div_mod'; discriminate).
  assert (Hm : p mod W64 < W64) by (apply N.mod_lt; discriminate).
  rewrite (N.mul_comm (p / W64) W64), <- Hp.
  destruct (N.leb_spec c (p / W64)) as [Hle|Hlt].
  - assert (Hq : W64 <= p / c).
    { apply N.div_le_lower_bound; [lia|]. nia. }
    unfold MaxU64, W64 in *. lia.
  - assert (Hq : p / c < W64).
    { apply N.div_lt_upper_bound; [lia|]. nia. }
    unfold MaxU64, W64 in *. lia.
Qed.

Lemma mul_div_zero a b : mul_div a b 0 = MaxU64.
Proof. unfold mul_div. cbv zeta. destruct (N.leb_spec 0 (a * b / W64)) as [_|H]; [reflexivity|]. exfalso. exact (N.nlt_0_r _ H). Qed.

Lemma mul_div_u64 a b c : mul_div a b c <= MaxU64.
Proof.
  destruct (N.eq_dec c 0) as [->|Hc]; [rewrite mul_div_zero; lia|].
  rewrite mul_div_spec by lia. lia.
Qed.

Lemma mul_div_mono a b1 b2 c : b1 <= b2 -> mul_div a b1 c <= mul_div a b2 c.
Proof.
  intros Hb. destruct (N.eq_dec c 0) as [->|Hc]; [rewrite !mul_div_zero; lia|].
  rewrite !mul_div_spec by lia.
  assert (H : a * b1 / c <= a * b2 / c).
  { apply N.div_le_mono; [lia|]. apply N.mul_le_mono_l. exact Hb. }
  lia.
Qed.

(* ================================================================== price rule: closed form *)

(* the per-step change: at least one unit; the proportional part is floor(prev*delta/target) (a uint64,
   saturated at 2^64-1) divided by the change denominator *)
Definition amount (prev delta target denom : N) : N := N.max 1 (mul_div prev delta target / denom).
(* when falling and more than one window elapsed, the change is applied once per elapsed window *)
Definition scaled (a since : N) : N := if WindowSize <? since then N.min MaxU64 (a * (since / WindowSize)) else a.

Definition next_price_closed (total prev target denom minp since : N) : N :=
  N.max minp
    (if target <? total then N.min MaxU64 (prev + amount prev (total - target) target denom)
     else if total <? target then prev - scaled (amount prev (target - total) target denom) since
     else prev).

Lemma if_lt1 y : (if y <? 1 then 1 else y) = N.max 1 y.
Proof. destruct (N.ltb_spec y 1); lia. Qed.

Lemma next_price_eq total prev target denom minp since :
  next_price total prev target denom minp since = next_price_closed total prev target denom minp since.
Proof.
  unfold next_price, next_price_closed, amount, scaled. cbv zeta.
  rewrite !if_lt1, !sat_add_eq, !sat_sub_eq, !sat_mul_eq.
  destruct (N.ltb_spec target total); [|destruct (N.ltb_spec total target)];
    try destruct (N.ltb_spec WindowSize since);
    match goal with |- context [N.ltb ?a minp] => destruct (N.ltb_spec a minp) end; lia.
Qed.

Lemma Ndiv_0_r a : a / 0 = 0.
Proof. destruct a; reflexivity. Qed.

Lemma amount_ge1 prev delta target denom : 1 <= amount prev delta target denom.
Proof. unfold amount. lia. Qed.

Lemma amount_mono prev d1 d2 target denom :
  d1 <= d2 -> amount prev d1 target denom <= amount prev d2 target denom.
Proof.
  intros H. unfold amount.
  assert (Hm := mul_div_mono prev d1 d2 target H).
  destruct (N.eq_dec denom 0) as [->|Hd].
  - rewrite !Ndiv_0_r. lia.
  - assert (mul_div prev d1 target / denom <= mul_div prev d2 target / denom) by (apply N.div_le_mono; lia).
    lia.
Qed.

Lemma scaled_ge1 a since : 1 <= a -> 1 <= scaled a since.
Proof.
  intros Ha. unfold scaled, WindowSize. destruct (N.ltb_spec 10 since) as [Hs|Hs]; [|exact Ha].
  assert (1 <= since / 10) by (apply N.div_le_lower_bound; lia).
  assert (1 <= a * (since / 10)) by nia.
  unfold MaxU64. lia.
Qed.

Lemma scaled_mono a1 a2 since : a1 <= a2 -> scaled a1 since <= scaled a2 since.
Proof.
  intros Ha. unfold scaled. destruct (N.ltb_spec WindowSize since); [|exact Ha].
  assert (a1 * (since / WindowSize) <= a2 * (since / WindowSize)) by (apply N.mul_le_mono_r; exact Ha).
  lia.
Qed.

(* ---- floor ---- *)
Lemma next_price_floor total prev target denom minp since :
  minp <= next_price total prev target denom minp since.
Proof. rewrite next_price_eq. unfold next_price_closed. lia. Qed.

Lemma next_price_u64 total prev target denom minp since :
  prev <= MaxU64 -> minp <= MaxU64 -> next_price total prev target denom minp since <= MaxU64.
Proof.
  intros Hp Hm. rewrite next_price_eq. unfold next_price_closed.
  destruct (N.ltb_spec target total); [lia|]. destruct (N.ltb_spec total target); lia.
Qed.

(* ---- direction ---- *)
Lemma next_price_up total prev target denom minp since :
  prev <= MaxU64 -> target < total ->
  prev <= next_price total prev target denom minp since /\
  (prev < MaxU64 -> prev < next_price total prev target denom minp since).
Proof.
  intros Hp Hup. rewrite next_price_eq. unfold next_price_closed.
  destruct (N.ltb_spec target total); [|lia].
  assert (H1 := amount_ge1 prev (total - target) target denom). lia.
Qed.

Lemma next_price_down total prev target denom minp since :
  total < target ->
  (minp < prev -> minp <= next_price total prev target denom minp since < prev) /\
  (prev <= minp -> next_price total prev target denom minp since = minp).
Proof.
  intros Hdn. rewrite next_price_eq. unfold next_price_closed.
  destruct (N.ltb_spec target total); [lia|]. destruct (N.ltb_spec total target); [|lia].
  assert (H1 := scaled_ge1 _ since (amount_ge1 prev (target - total) target denom)). lia.
Qed.

Lemma next_price_same total prev target denom minp since :
  total = target -> next_price total prev target denom minp since = N.max minp prev.
Proof.
  intros ->. rewrite next_price_eq. unfold next_price_closed.
  destruct (N.ltb_spec target target); [lia|]. reflexivity.
Qed.

(* ---- monotonicity in the window usage ---- *)
Lemma next_price_mono t1 t2 prev target denom minp since :
  prev <= MaxU64 -> t1 <= t2 ->
  next_price t1 prev target denom minp since <= next_price t2 prev target denom minp since.
Proof.
  intros Hp Ht. rewrite !next_price_eq. unfold next_price_closed.
  assert (Hup : amount prev (t1 - target) target denom <= amount prev (t2 - target) target denom)
    by (apply amount_mono; lia).
  assert (Hdn : scaled (amount prev (target - t2) target denom) since <= scaled (amount prev (target - t1) target denom) since)
    by (apply scaled_mono, amount_mono; lia).
  destruct (N.ltb_spec target t1); destruct (N.ltb_spec target t2);
    destruct (N.ltb_spec t1 target); destruct (N.ltb_spec t2 target); lia.
Qed.

(* ---- the rule in Z ---- *)
Definition MaxZ : Z := 18446744073709551615%Z.
Definition amount_Z (prev delta target denom : Z) : Z :=
  Z.max 1 (Z.min MaxZ (prev * delta / target) / denom).
Definition price_rule_Z (total prev target denom minp since : Z) : Z :=
  let raw :=
    if (total >? target)%Z then Z.min MaxZ (prev + amount_Z prev (total - target) target denom)
    else if (total <? target)%Z then
      let a := amount_Z prev (target - total) target denom in
      let a := if (since >? 10)%Z then Z.min MaxZ (a * (since / 10)) else a in
      Z.max 0 (prev - a)
    else prev in
  Z.max minp raw.

Lemma amount_to_Z prev delta target denom :
  0 < target ->
  Z.of_N (amount prev delta target denom) = amount_Z (Z.of_N prev) (Z.of_N delta) (Z.of_N target) (Z.of_N denom).
Proof.
  intros Ht. unfold amount, amount_Z. rewrite mul_div_spec by exact Ht.
  rewrite N2Z.inj_max, N2Z.inj_div, N2Z.inj_min, N2Z.inj_div, N2Z.inj_mul. reflexivity.
Qed.

Lemma next_price_exact_Z total prev target denom minp since :
  0 < target ->
  Z.of_N (next_price total prev target denom minp since) =
  price_rule_Z (Z.of_N total) (Z.of_N prev) (Z.of_N target) (Z.of_N denom) (Z.of_N minp) (Z.of_N since).
Proof.
  intros Ht. rewrite next_price_eq. unfold next_price_closed, price_rule_Z. cbv zeta.
  rewrite N2Z.inj_max. f_equal.
  destruct (N.ltb_spec target total) as [Hup|Hnup].
  - destruct (Z.gtb_spec (Z.of_N total) (Z.of_N target)) as [_|Hc]; [|lia].
    rewrite N2Z.inj_min, N2Z.inj_add, amount_to_Z by exact Ht.
    rewrite N2Z.inj_sub by lia. reflexivity.
  - destruct (Z.gtb_spec (Z.of_N total) (Z.of_N target)) as [Hc|_]; [lia|].
    destruct (N.ltb_spec total target) as [Hdn|Hndn].
    + destruct (Z.ltb_spec (Z.of_N total) (Z.of_N target)) as [_|Hc]; [|lia].
      rewrite N2Z.inj_sub_max. f_equal. f_equal.
      unfold scaled, WindowSize.
      destruct (N.ltb_spec 10 since) as [Hs|Hs].
      * destruct (Z.gtb_spec (Z.of_N since) 10) as [_|Hc]; [|lia].
        rewrite N2Z.inj_min, N2Z.inj_mul, N2Z.inj_div, amount_to_Z by exact Ht.
        rewrite N2Z.inj_sub by lia. reflexivity.
      * destruct (Z.gtb_spec (Z.of_N since) 10) as [Hc|_]; [lia|].
        rewrite amount_to_Z by exact Ht. rewrite N2Z.inj_sub by lia. reflexivity.
    + destruct (Z.ltb_spec (Z.of_N total) (Z.of_N target)) as [Hc|_]; [lia|]. reflexivity.
Qed.

(* when floor(prev*delta/target) fits in 64 bits, the change is the plain nested floor *)
Lemma amount_unsaturated prev delta target denom :
  0 < target -> prev * delta / target <= MaxU64 ->
  amount prev delta target denom = N.max 1 (prev * delta / target / denom).
Proof. intros Ht Hy. unfold amount. rewrite mul_div_spec by exact Ht. rewrite N.min_r by exact Hy. reflexivity. Qed.

(* ================================================================== window *)

Lemma wsum_from_spec l acc : acc <= MaxU64 -> wsum_from l acc = N.min MaxU64 (acc + fold_right N.add 0 l).
Proof.
  revert acc. induction l as [|x l IH]; intros acc Hacc; cbn [wsum_from fold_right].
  - lia.
  - destruct (add_chk acc x) as [s|] eqn:E.
    + apply add_chk_Some in E. destruct E as [-> Hs]. rewrite IH by exact Hs. f_equal. lia.
    + apply add_chk_None in E. lia.
Qed.

Lemma wsum_spec w : wsum w = N.min MaxU64 (fold_right N.add 0 w).
Proof. unfold wsum. rewrite wsum_from_spec by (unfold MaxU64; lia). reflexivity. Qed.

Lemma wupdate_length w s v : length (wupdate w s v) = length w.
Proof. revert s; induction w as [|x w IH]; intros [|s]; cbn [wupdate length]; auto. Qed.

Lemma wupdate_nth w s v i : (s < length w)%nat ->
  nth i (wupdate w s v) 0 = if Nat.eqb i s then sat_add (nth s w 0) v else nth i w 0.
Proof.
  revert s i; induction w as [|x w IH]; intros s i Hs; cbn [length] in Hs; [lia|].
  destruct s as [|s]; destruct i as [|i]; cbn [wupdate nth Nat.eqb]; try reflexivity.
  apply IH. lia.
Qed.

(* the window after [since] seconds, slot by slot *)
Definition window_spec (w : window) (consumed since : N) : window :=
  map (fun i : nat =>
         let j := N.of_nat i + since in
         let shifted := if j <? 10 then nth (N.to_nat j) w 0 else 0 in
         if (since <? 10) && N.eqb (N.of_nat i) (9 - since) then sat_add shifted consumed else shifted)
      (seq 0 10).
Definition roll_spec (w : window) (r : N) : window :=
  map (fun i : nat => let j := N.of_nat i + r in if j <? 10 then nth (N.to_nat j) w 0 else 0) (seq 0 10).

Ltac destruct_window w H :=
  let a0 := fresh "a" in let a1 := fresh "a" in let a2 := fresh "a" in let a3 := fresh "a" in
  let a4 := fresh "a" in let a5 := fresh "a" in let a6 := fresh "a" in let a7 := fresh "a" in
  let a8 := fresh "a" in let a9 := fresh "a" in let t := fresh "t" in
  destruct w as [|a0 [|a1 [|a2 [|a3 [|a4 [|a5 [|a6 [|a7 [|a8 [|a9 [|t ?]]]]]]]]]]]; try (cbn in H; discriminate H).

Ltac small_N since H :=
  assert (since = 0 \/ since = 1 \/ since = 2 \/ since = 3 \/ since = 4 \/ since = 5 \/ since = 6 \/
          since = 7 \/ since = 8 \/ since = 9) as H by lia;
  destruct H as [-> | [-> | [-> | [-> | [-> | [-> | [-> | [-> | [-> | ->]]]]]]]]].

Lemma roll_eq_spec w r : length w = 10%nat -> roll w r = roll_spec w r.
Proof.
  intros Hlen. destruct_window w Hlen.
  destruct (N.ltb_spec r 10) as [Hr|Hr].
  - small_N r Hc; reflexivity.
  - unfold roll, roll_spec, WindowSize. cbn [map seq].
    repeat match goal with |- context [N.ltb (N.of_nat ?i + r) 10] => destruct (N.ltb_spec (N.of_nat i + r) 10); [lia|] end.
    destruct (N.ltb_spec 10 r) as [Hgt|Hle]; [reflexivity|].
    assert (r = 10) as -> by lia. reflexivity.
Qed.

Lemma new_window_eq_spec w consumed since :
  length w = 10%nat -> new_window w consumed since = window_spec w consumed since.
Proof.
  intros Hlen. destruct_window w Hlen.
  destruct (N.ltb_spec since 10) as [Hs|Hs].
  - small_N since Hc; reflexivity.
  - unfold new_window, window_spec, WindowSize.
    destruct (N.ltb_spec since 10) as [Hlt|_]; [lia|].
    change (roll ?w since) with (roll w since). rewrite roll_eq_spec by reflexivity.
    unfold roll_spec. cbn [andb]. reflexivity.
Qed.

Lemma roll_length w r : length w = 10%nat -> length (roll w r) = 10%nat.
Proof. intros H. rewrite roll_eq_spec by exact H. reflexivity. Qed.
Lemma new_window_length w c since : length w = 10%nat -> length (new_window w c since) = 10%nat.
Proof. intros H. rewrite new_window_eq_spec by exact H. reflexivity. Qed.

Lemma window_spec_u64 w c since :
  Forall (fun v => v <= MaxU64) w -> Forall (fun v => v <= MaxU64) (window_spec w c since).
Proof.
  intros Hw. unfold window_spec. apply Forall_forall. intros x Hx. apply in_map_iff in Hx.
  destruct Hx as [i [<- _]]. cbv zeta.
  assert (Hn : forall j, nth j w 0 <= MaxU64).
  { intros j. destruct (nth_in_or_default j w 0) as [Hin| ->]; [|unfold MaxU64; lia].
    rewrite Forall_forall in Hw. apply Hw, Hin. }
  assert (Hsh : (if N.of_nat i + since <? 10 then nth (N.to_nat (N.of_nat i + since)) w 0 else 0) <= MaxU64).
  { destruct (N.of_nat i + since <? 10); [apply Hn | unfold MaxU64; lia]. }
  destruct ((since <? 10) && N.eqb (N.of_nat i) (9 - since)); [apply sat_add_u64 | exact Hsh].
Qed.

(* window usage is monotone in every slot and in the parent's consumption *)
Lemma fold_add_mono (a b : list N) :
  Forall2 N.le a b -> fold_right N.add 0 a <= fold_right N.add 0 b.
Proof. induction 1 as [|x y a b Hxy _ IH]; cbn [fold_right]; lia. Qed.

(* ================================================================== byte layout round trip *)

Lemma firstn_length_app {A} (l r : list A) : firstn (length l) (l ++ r) = l.
Proof. induction l as [|x l IH]; cbn; [reflexivity | f_equal; exact IH]. Qed.
Lemma skipn_length_app {A} (l r : list A) : skipn (length l) (l ++ r) = r.
Proof. induction l as [|x l IH]; cbn; [reflexivity | exact IH]. Qed.

Lemma dec_words_flat ws rest :
  Forall (fun v => v <= MaxU64) ws -> dec_words (length ws) (flat_map be64 ws ++ rest) = ws.
Proof.
  induction 1 as [|v ws Hv _ IH]; cbn [length dec_words flat_map]; [reflexivity|].
  rewrite <- app_assoc.
  assert (E1 : firstn 8 (be64 v ++ flat_map be64 ws ++ rest) = be64 v).
  { rewrite <- (be64_length v) at 1. apply firstn_length_app. }
  assert (E2 : skipn 8 (be64 v ++ flat_map be64 ws ++ rest) = flat_map be64 ws ++ rest).
  { rewrite <- (be64_length v) at 1. apply skipn_length_app. }
  rewrite E1, E2, be64_roundtrip by exact Hv. f_equal. exact IH.
Qed.

Lemma flat_map_be64_length ws : length (flat_map be64 ws) = (8 * length ws)%nat.
Proof. induction ws as [|v ws IH]; cbn [flat_map length]; [reflexivity|]. rewrite app_length, be64_length, IH. lia. Qed.

Definition u64 (v : N) : Prop := v <= MaxU64.
Definition wf_ds (d : dim_state) : Prop :=
  u64 (ds_price d) /\ length (ds_window d) = 10%nat /\ Forall u64 (ds_window d) /\ u64 (ds_last d).
Definition wf_mgr (m : manager) : Prop :=
  u64 (m_ts m) /\ length (m_dims m) = 5%nat /\ Forall wf_ds (m_dims m).

Lemma ds_words_u64 d : wf_ds d -> Forall u64 (ds_words d) /\ length (ds_words d) = 12%nat.
Proof.
  intros [Hp [Hl [Hw Hc]]]. unfold ds_words. split.
  - constructor; [exact Hp|]. apply Forall_app. split; [exact Hw|]. constructor; [exact Hc|constructor].
  - cbn [length]. rewrite app_length, Hl. reflexivity.
Qed.

Lemma mgr_words_u64 m : wf_mgr m -> Forall u64 (mgr_words m) /\ length (mgr_words m) = 61%nat.
Proof.
  intros [Hts [Hlen Hds]]. unfold mgr_words.
  assert (H : Forall u64 (flat_map ds_words (m_dims m)) /\
              length (flat_map ds_words (m_dims m)) = (12 * length (m_dims m))%nat).
  { clear Hlen. induction Hds as [|d ds Hd _ IH]; cbn [flat_map length]; [split; [constructor|reflexivity]|].
    destruct (ds_words_u64 d Hd) as [H1 H2]. destruct IH as [H3 H4]. split.
    - apply Forall_app. split; assumption.
    - rewrite app_length, H2, H4. lia. }
  destruct H as [H1 H2]. split; [constructor; assumption|]. cbn [length]. rewrite H2, Hlen. reflexivity.
Qed.

Lemma mgr_of_words_words m : wf_mgr m -> mgr_of_words (mgr_words m) = m.
Proof.
  intros [_ [Hlen Hds]]. destruct m as [ts ds]. cbn [m_dims] in *.
  destruct ds as [|d0 [|d1 [|d2 [|d3 [|d4 [|d5 ds]]]]]]; try discriminate Hlen.
  repeat match goal with H : Forall wf_ds (_ :: _) |- _ => inversion H; subst; clear H end.
  repeat match goal with H : wf_ds ?d |- _ =>
    let p := fresh "p" in let w := fresh "w" in let c := fresh "c" in let Hl := fresh "Hl" in
    destruct d as [p w c]; destruct H as [_ [Hl _]]; cbn [ds_window] in Hl; destruct_window w Hl end.
  reflexivity.
Qed.

Lemma encode_length m : wf_mgr m -> length (encode m) = StateLen.
Proof. intros H. unfold encode. rewrite flat_map_be64_length. destruct (mgr_words_u64 m H) as [_ ->]. reflexivity. Qed.

Lemma decode_full raw : length raw = StateLen -> decode raw = Some (mgr_of_words (dec_words 61 raw)).
Proof. intros H. unfold decode. destruct raw as [|b raw]; [discriminate H|]. rewrite H. reflexivity. Qed.

Lemma decode_encode m : wf_mgr m -> decode (encode m) = Some m.
Proof.
  intros H. rewrite decode_full by (apply encode_length, H). f_equal.
  destruct (mgr_words_u64 m H) as [Hu Hl].
  unfold encode. rewrite <- (app_nil_r (flat_map be64 (mgr_words m))).
  rewrite <- Hl. rewrite dec_words_flat by exact Hu.
  apply mgr_of_words_words, H.
Qed.

(* the states the code produces are well formed *)
Lemma wf_zero_mgr : wf_mgr zero_mgr.
Proof.
  unfold wf_mgr, zero_mgr, u64, MaxU64. cbn [m_ts m_dims repeat length]. split; [lia|]. split; [reflexivity|].
  repeat constructor; cbn; unfold u64, MaxU64; try lia; repeat constructor; lia.
Qed.

Lemma nth_wf_ds ds k : Forall wf_ds ds -> wf_ds (nth k ds zero_ds).
Proof.
  intros H. destruct (nth_in_or_default k ds zero_ds) as [Hin| ->].
  - rewrite Forall_forall in H. apply H, Hin.
  - unfold wf_ds, zero_ds, u64, MaxU64. cbn. repeat split; try lia. repeat constructor; lia.
Qed.

Lemma compute_next_wf m t targets denoms mins :
  wf_mgr m -> Forall u64 mins -> wf_mgr (compute_next m t targets denoms mins).
Proof.
  intros [Hts [Hlen Hds]] Hmins. unfold compute_next, wf_mgr. cbn [m_ts m_dims]. split; [|split].
  - unfold u64. assert (0 <= Z.quot t 1000 mod Z.of_N W64 < Z.of_N W64)%Z by (apply Z.mod_pos_bound; reflexivity).
    unfold MaxU64, W64 in *. lia.
  - reflexivity.
  - apply Forall_forall. intros d Hd. apply in_map_iff in Hd. destruct Hd as [k [<- _]].
    unfold compute_next_price_window. cbv zeta.
    assert (Hk := nth_wf_ds (m_dims m) k Hds). fold (m_dim m k) in Hk.
    destruct Hk as [Hp [Hl [Hw Hc]]].
    unfold wf_ds. cbn [ds_price ds_window ds_last]. unfold m_window, unit_price, last_consumed.
    split; [|split; [|split]].
    + apply next_price_u64; [exact Hp|]. unfold dget.
      destruct (nth_in_or_default k mins 0) as [Hin| ->]; [|unfold MaxU64; lia].
      rewrite Forall_forall in Hmins. apply Hmins, Hin.
    + apply new_window_length, Hl.
    + rewrite new_window_eq_spec by exact Hl. apply window_spec_u64, Hw.
    + unfold u64, MaxU64. lia.
Qed.

(* ================================================================== Consume / Fee (C12) *)

Lemma in_idx5 k : In k idx5 <-> (k < 5)%nat.
Proof. unfold idx5. cbn [In]. lia. Qed.

Lemma nth_list_set {A} (l : list A) k x j d :
  nth j (list_set l k x) d = if Nat.eqb j k && Nat.ltb k (length l) then x else nth j l d.
Proof.
  revert k j. induction l as [|y l IH]; intros k j.
  - cbn [list_set length]. destruct k; rewrite ?andb_false_r; reflexivity.
  - destruct k as [|k]; destruct j as [|j]; cbn [list_set nth length]; try reflexivity.
    rewrite IH. reflexivity.
Qed.
Lemma list_set_length {A} (l : list A) k x : length (list_set l k x) = length l.
Proof. revert k. induction l as [|y l IH]; intros [|k]; cbn [list_set length]; auto. Qed.

Lemma m_dim_set_last m k c j :
  m_dim (set_last_consumed m k c) j =
  if Nat.eqb j k && Nat.ltb k (length (m_dims m))
  then mkDS (ds_price (m_dim m k)) (ds_window (m_dim m k)) c else m_dim m j.
Proof. unfold m_dim, set_last_consumed. cbn [m_dims]. apply nth_list_set. Qed.

(* everything but lastConsumed *)
Definition same_market (m m' : manager) : Prop :=
  m_ts m' = m_ts m /\ length (m_dims m') = length (m_dims m) /\
  forall j, unit_price m' j = unit_price m j /\ m_window m' j = m_window m j.

Lemma same_market_refl m : same_market m m.
Proof. unfold same_market. auto. Qed.
Lemma same_market_trans a b c : same_market a b -> same_market b c -> same_market a c.
Proof.
  intros [H1 [H2 H3]] [H4 [H5 H6]]. split; [congruence|]. split; [congruence|].
  intros j. destruct (H3 j), (H6 j). split; congruence.
Qed.

Lemma set_last_same_market m k c : same_market m (set_last_consumed m k c).
Proof.
  unfold same_market. split; [reflexivity|]. split; [apply list_set_length|].
  intros j. unfold unit_price, m_window. rewrite m_dim_set_last.
  destruct (Nat.eqb_spec j k) as [->|Hne]; cbn [andb]; [|auto].
  destruct (Nat.ltb k (length (m_dims m))); cbn [ds_price ds_window]; auto.
Qed.

Lemma last_set_last m k c j : (k < length (m_dims m))%nat ->
  last_consumed (set_last_consumed m k c) j = if Nat.eqb j k then c else last_consumed m j.
Proof.
  intros Hk. unfold last_consumed. rewrite m_dim_set_last.
  destruct (Nat.ltb_spec k (length (m_dims m))); [|lia].
  rewrite andb_true_r. destruct (Nat.eqb j k); reflexivity.
Qed.

(* a dimension fits when its new total neither overflows nor exceeds the limit *)
Definition fits (m : manager) (d l : dims) (k : nat) : Prop :=
  last_consumed m k + dget d k <= MaxU64 /\ last_consumed m k + dget d k <= dget l k.

Lemma consume_check_None ks m d l :
  consume_check ks m d l = None <-> forall k, In k ks -> fits m d l k.
Proof.
  induction ks as [|k ks IH]; cbn [consume_check In].
  - split; [intros _ k []|reflexivity].
  - unfold fits in *. destruct (add_chk (last_consumed m k) (dget d k)) as [c|] eqn:E.
    + apply add_chk_Some in E. destruct E as [-> Hc].
      destruct (N.ltb_spec (dget l k) (last_consumed m k + dget d k)) as [Hlt|Hge].
      * split; [discriminate|]. intros H. specialize (H k (or_introl eq_refl)). lia.
      * rewrite IH. split.
        -- intros H j [<-|Hj]; [lia | apply H, Hj].
        -- intros H j Hj. apply H. right. exact Hj.
    + apply add_chk_None in E. split; [discriminate|]. intros H. specialize (H k (or_introl eq_refl)). lia.
Qed.

Lemma consume_check_Some ks m d l k :
  consume_check ks m d l = Some k ->
  exists pre post, ks = pre ++ k :: post /\ (forall j, In j pre -> fits m d l j) /\ ~ fits m d l k.
Proof.
  induction ks as [|k0 ks IH]; cbn [consume_check]; [discriminate|].
  unfold fits in *. destruct (add_chk (last_consumed m k0) (dget d k0)) as [c|] eqn:E.
  - apply add_chk_Some in E. destruct E as [-> Hc].
    destruct (N.ltb_spec (dget l k0) (last_consumed m k0 + dget d k0)) as [Hlt|Hge].
    + intros H. inversion H; subst. exists [], ks. split; [reflexivity|]. split; [intros j []|lia].
    + intros H. destruct (IH H) as [pre [post [-> [Hpre Hk]]]].
      exists (k0 :: pre), post. split; [reflexivity|]. split; [|exact Hk].
      intros j [<-|Hj]; [lia|apply Hpre, Hj].
  - apply add_chk_None in E. intros H. inversion H; subst. exists [], ks.
    split; [reflexivity|]. split; [intros j []|lia].
Qed.

Lemma consume_commit_ok ks m d :
  NoDup ks -> (forall k, In k ks -> (k < length (m_dims m))%nat) ->
  (forall k, In k ks -> last_consumed m k + dget d k <= MaxU64) ->
  exists m', consume_commit ks m d = (None, m') /\ same_market m m' /\
    forall j, last_consumed m' j = if existsb (Nat.eqb j) ks then last_consumed m j + dget d j else last_consumed m j.
Proof.
  revert m. induction ks as [|k ks IH]; intros m Hnd Hlen Hfit; cbn [consume_commit].
  - exists m. split; [reflexivity|]. split; [apply same_market_refl|]. intros j. reflexivity.
  - inversion Hnd as [|? ? Hnotin Hnd']; subst.
    assert (Hk : last_consumed m k + dget d k <= MaxU64) by (apply Hfit; left; reflexivity).
    assert (E : add_chk (last_consumed m k) (dget d k) = Some (last_consumed m k + dget d k))
      by (apply add_chk_Some; auto).
    rewrite E.
    assert (Hklen : (k < length (m_dims m))%nat) by (apply Hlen; left; reflexivity).
    set (m1 := set_last_consumed m k (last_consumed m k + dget d k)).
    assert (Hsm : same_market m m1) by apply set_last_same_market.
    destruct (IH m1 Hnd') as [m' [Hc [Hsm' Hlast]]].
    + intros j Hj. destruct Hsm as [_ [-> _]]. apply Hlen. right. exact Hj.
    + intros j Hj. unfold m1. rewrite last_set_last by exact Hklen.
      destruct (Nat.eqb_spec j k) as [->|Hne]; [contradiction|]. apply Hfit. right. exact Hj.
    + exists m'. split; [exact Hc|]. split; [eapply same_market_trans; eassumption|].
      intros j. rewrite Hlast. cbn [existsb]. unfold m1. rewrite last_set_last by exact Hklen.
      destruct (Nat.eqb_spec j k) as [->|Hne]; cbn [orb].
      * assert (Hex : existsb (Nat.eqb k) ks = false).
        { apply not_true_is_false. intros Hex. apply existsb_exists in Hex. destruct Hex as [x [Hx Hxk]].
          apply Nat.eqb_eq in Hxk. subst. contradiction. }
        rewrite Hex. reflexivity.
      * reflexivity.
Qed.

Lemma NoDup_idx5 : NoDup idx5.
Proof. unfold idx5. repeat constructor; cbn [In]; lia. Qed.

Lemma existsb_idx5 j : existsb (Nat.eqb j) idx5 = Nat.ltb j 5.
Proof. do 5 (destruct j as [|j]; [reflexivity|]). reflexivity. Qed.

Lemma seq_split a n pre k post :
  seq a n = pre ++ k :: post -> pre = seq a (k - a) /\ (a <= k)%nat.
Proof.
  revert a n. induction pre as [|p pre IH]; intros a n H.
  - destruct n as [|n]; cbn [seq app] in H; [discriminate H|]. injection H as Ha Hrest. subst k.
    rewrite Nat.sub_diag. split; [reflexivity|lia].
  - destruct n as [|n]; cbn [seq app] in H; [discriminate H|]. injection H as Hp Hrest. subst p.
    destruct (IH _ _ Hrest) as [Hpre Hle].
    split; [|lia]. replace (k - a)%nat with (S (k - S a)) by lia. cbn [seq]. f_equal. exact Hpre.
Qed.

Lemma idx5_split pre k post j : idx5 = pre ++ k :: post -> (j < k)%nat -> In j pre.
Proof.
  intros H Hj. change idx5 with (seq 0 5) in H. apply seq_split in H. destruct H as [-> _].
  apply in_seq. lia.
Qed.

(* Consume is all-or-nothing *)
Theorem consume_atomic m d l :
  length (m_dims m) = 5%nat ->
  (* success: every dimension fits, all five are added, nothing else changes *)
  ((forall k, (k < 5)%nat -> fits m d l k) /\
   exists m', consume m d l = (true, O, m') /\ same_market m m' /\
     forall k, last_consumed m' k = if Nat.ltb k 5 then last_consumed m k + dget d k else last_consumed m k)
  \/
  (* failure: the state is returned unchanged and the reported dimension is the first that does not fit *)
  (exists k, consume m d l = (false, k, m) /\ (k < 5)%nat /\ ~ fits m d l k /\
     forall j, (j < k)%nat -> fits m d l j).
Proof.
  intros Hlen. unfold consume.
  destruct (consume_check idx5 m d l) as [k|] eqn:Ec.
  - right. exists k. split; [reflexivity|].
    destruct (consume_check_Some _ _ _ _ _ Ec) as [pre [post [Hks [Hpre Hk]]]].
    assert (Hin : In k idx5) by (rewrite Hks; apply in_or_app; right; left; reflexivity).
    split; [apply in_idx5, Hin|]. split; [exact Hk|].
    intros j Hj. apply Hpre.
    eapply idx5_split; eassumption.
  - left. rewrite consume_check_None in Ec.
    assert (Hfit : forall k, (k < 5)%nat -> fits m d l k) by (intros k Hk; apply Ec, in_idx5, Hk).
    split; [exact Hfit|].
    destruct (consume_commit_ok idx5 m d NoDup_idx5) as [m' [Hc [Hsm Hlast]]].
    + intros k Hk. apply in_idx5 in Hk. lia.
    + intros k Hk. apply Ec, Hk.
    + exists m'. rewrite Hc. split; [reflexivity|]. split; [exact Hsm|].
      intros k. rewrite Hlast, existsb_idx5. reflexivity.
Qed.

(* ---- a block: sum of the included transactions ---- *)
Fixpoint included (us : list dims) (flags : list bool) : list dims :=
  match us, flags with
  | u :: us', true :: fl' => u :: included us' fl'
  | _ :: us', false :: fl' => included us' fl'
  | _, _ => []
  end.
Definition dsum (k : nat) (us : list dims) : N := fold_right (fun u acc => dget u k + acc) 0 us.

Theorem consume_all_sum us : forall m l m' flags,
  length (m_dims m) = 5%nat ->
  consume_all m l us = (m', flags) ->
  length flags = length us /\ same_market m m' /\
  forall k, (k < 5)%nat ->
    last_consumed m' k = last_consumed m k + dsum k (included us flags) /\
    (last_consumed m k <= N.min MaxU64 (dget l k) -> last_consumed m' k <= N.min MaxU64 (dget l k)).
Proof.
  induction us as [|u us IH]; intros m l m' flags Hlen H; cbn [consume_all] in H.
  - inversion H; subst. split; [reflexivity|]. split; [apply same_market_refl|].
    intros k Hk. cbn [included dsum fold_right]. split; lia.
  - destruct (consume m u l) as [[ok kk] m1] eqn:Ec.
    destruct (consume_all m1 l us) as [m2 fl] eqn:Ea. inversion H; subst. clear H.
    destruct (consume_atomic m u l Hlen) as [[Hfit [mx [Hcx [Hsm Hlast]]]] | [kx [Hcx _]]];
      rewrite Hcx in Ec; inversion Ec; subst.
    + assert (Hlen1 : length (m_dims m1) = 5%nat) by (destruct Hsm as [_ [-> _]]; exact Hlen).
      destruct (IH m1 l m' fl Hlen1 Ea) as [Hfl [Hsm2 Hk2]].
      split; [cbn [length]; lia|]. split; [eapply same_market_trans; eassumption|].
      intros k Hk. destruct (Hk2 k Hk) as [Hs Hb]. cbn [included dsum fold_right]. fold (dsum k (included us fl)).
      specialize (Hlast k). destruct (Nat.ltb_spec k 5) as [_|Hge] in Hlast; [|lia].
      destruct (Hfit k Hk) as [Hf1 Hf2]. split; [lia|].
      intros _. apply Hb. lia.
    + destruct (IH m1 l m' fl Hlen Ea) as [Hfl [Hsm2 Hk2]].
      split; [cbn [length]; lia|]. split; [exact Hsm2|].
      intros k Hk. destruct (Hk2 k Hk) as [Hs Hb]. cbn [included]. split; assumption.
Qed.

(* ---- Fee ---- *)
Definition fee_sum (m : manager) (d : dims) (ks : list nat) : N :=
  fold_right (fun k s => unit_price m k * dget d k + s) 0 ks.

Lemma fee_loop_spec ks m d acc r :
  acc <= MaxU64 ->
  (fee_loop ks m d acc = Some r <-> r = acc + fee_sum m d ks /\ acc + fee_sum m d ks <= MaxU64).
Proof.
  revert acc. induction ks as [|k ks IH]; intros acc Hacc; cbn [fee_loop fee_sum fold_right].
  - split; [intros H; inversion H; subst; lia | intros [-> _]; f_equal; lia].
  - fold (fee_sum m d ks).
    destruct (mul_chk (unit_price m k) (dget d k)) as [c|] eqn:Em.
    + apply mul_chk_Some in Em. destruct Em as [-> Hc].
      destruct (add_chk (unit_price m k * dget d k) acc) as [f|] eqn:Ea.
      * apply add_chk_Some in Ea. destruct Ea as [-> Hf]. rewrite IH by exact Hf. split; intros [-> H]; split; lia.
      * apply add_chk_None in Ea. split; [discriminate | intros [_ H]; lia].
    + apply mul_chk_None in Em. split; [discriminate | intros [_ H]; lia].
Qed.

Theorem fee_exact m d r :
  fee m d = Some r <-> r = fee_sum m d idx5 /\ fee_sum m d idx5 <= MaxU64.
Proof. unfold fee. rewrite fee_loop_spec by (unfold MaxU64; lia). rewrite !N.add_0_l. reflexivity. Qed.

(* ================================================================== usage is monotone in the window contents *)
Lemma Forall2_nth_le a b : Forall2 N.le a b -> forall j, nth j a 0 <= nth j b 0.
Proof.
  induction 1 as [|x y a b Hxy _ IH]; intros j.
  - destruct j; cbn [nth]; lia.
  - destruct j as [|j]; cbn [nth]; [exact Hxy | apply IH].
Qed.

Lemma Forall2_map_le {A} (f g : A -> N) l : (forall i, f i <= g i) -> Forall2 N.le (map f l) (map g l).
Proof. intros H. induction l as [|x l IH]; cbn [map]; constructor; [apply H | exact IH]. Qed.

Lemma window_total_mono w1 c1 w2 c2 since :
  length w1 = 10%nat -> length w2 = 10%nat -> Forall2 N.le w1 w2 -> c1 <= c2 ->
  wsum (new_window w1 c1 since) <= wsum (new_window w2 c2 since).
Proof.
  intros H1 H2 Hw Hc. rewrite !wsum_spec, !new_window_eq_spec by assumption.
  assert (H : fold_right N.add 0 (window_spec w1 c1 since) <= fold_right N.add 0 (window_spec w2 c2 since)).
  { apply fold_add_mono. unfold window_spec. apply Forall2_map_le. intros i. cbv zeta.
    assert (Hn := Forall2_nth_le _ _ Hw (N.to_nat (N.of_nat i + since))).
    destruct (N.of_nat i + since <? 10); destruct ((since <? 10) && N.eqb (N.of_nat i) (9 - since));
      rewrite ?sat_add_eq; lia. }
  lia.
Qed.
