(* Proofs about the array heap model (Model/Heap.v): Swap/up/down keep the multiset of entries and the
   Index = position bookkeeping, and restore the heap order; specifications of Push/Pop/Remove. *)
From Coq Require Import List NArith ZArith Bool Arith Lia Permutation.
From Coq Require Import ZifyN ZifyNat ZifyBool.
Import ListNotations.
From HV Require Import Model.Heap.

Section HeapProofs.
Variable A : Type.
Notation entry := (entry A).
Implicit Types (l : list entry) (e a b : entry) (mn : bool).

(* what an entry holds, without the position bookkeeping *)
Definition cont (e : entry) : N * A * Z := (e_id e, e_item e, e_val e).
Definition conts (l : list entry) := map cont l.

Lemma cont_set_idx (e : entry) i : cont (set_idx e i) = cont e.
Proof. reflexivity. Qed.
Lemma key_set_idx mn (e : entry) i : key mn (set_idx e i) = key mn e.
Proof. reflexivity. Qed.

(* ---------- set_nth ---------- *)
Lemma set_nth_length {X} (l : list X) i x : length (set_nth l i x) = length l.
Proof.
  revert i; induction l as [|h t IH]; intros [|i]; cbn [set_nth length]; auto.
Qed.

Lemma nth_error_set_nth_eq {X} (l : list X) i x : i < length l -> nth_error (set_nth l i x) i = Some x.
Proof.
  revert i; induction l as [|h t IH]; intros [|i] Hi; cbn [set_nth length nth_error] in *; try lia; auto.
  apply IH; lia.
Qed.

Lemma nth_error_set_nth_neq {X} (l : list X) i k x : k <> i -> nth_error (set_nth l i x) k = nth_error l k.
Proof.
  revert i k; induction l as [|h t IH]; intros [|i] [|k] Hk; cbn [set_nth nth_error]; auto; try lia.
Qed.

Lemma set_nth_perm {X Y} (f : X -> Y) (l : list X) i x y :
  nth_error l i = Some y -> Permutation (f x :: map f l) (f y :: map f (set_nth l i x)).
Proof.
  revert i; induction l as [|h t IH]; intros [|i] Hn; cbn [nth_error set_nth map] in *; try discriminate.
  - injection Hn as ->. apply perm_swap.
  - eapply perm_trans; [apply perm_swap|].
    eapply perm_trans; [apply perm_skip, IH, Hn|]. apply perm_swap.
Qed.

(* ---------- swap ---------- *)
Lemma swap_length (l : list entry) i j : length (swap l i j) = length l.
Proof.
  unfold swap. destruct (nth_error l i), (nth_error l j); auto. now rewrite !set_nth_length.
Qed.

Lemma nth_error_swap (l : list entry) i j k a b :
  nth_error l i = Some a -> nth_error l j = Some b ->
  nth_error (swap l i j) k =
    if k =? j then Some (set_idx a j) else if k =? i then Some (set_idx b i) else nth_error l k.
Proof.
  intros Ha Hb. unfold swap. rewrite Ha, Hb.
  assert (Hi : i < length l) by (apply nth_error_Some; congruence).
  assert (Hj : j < length l) by (apply nth_error_Some; congruence).
  destruct (Nat.eqb_spec k j) as [->|Hkj].
  - apply nth_error_set_nth_eq. now rewrite set_nth_length.
  - rewrite nth_error_set_nth_neq by assumption.
    destruct (Nat.eqb_spec k i) as [->|Hki].
    + now apply nth_error_set_nth_eq.
    + now apply nth_error_set_nth_neq.
Qed.

Lemma swap_perm (l : list entry) i j : Permutation (conts (swap l i j)) (conts l).
Proof.
  unfold swap. destruct (nth_error l i) as [a|] eqn:Ha; [|reflexivity].
  destruct (nth_error l j) as [b|] eqn:Hb; [|reflexivity].
  assert (Hi : i < length l) by (apply nth_error_Some; congruence).
  pose proof (set_nth_perm cont l i (set_idx b i) a Ha) as P1.
  set (l1 := set_nth l i (set_idx b i)) in *.
  destruct (Nat.eq_dec j i) as [->|Hji].
  - assert (H1 : nth_error l1 i = Some (set_idx b i)) by (now apply nth_error_set_nth_eq).
    pose proof (set_nth_perm cont l1 i (set_idx a i) _ H1) as P2.
    rewrite !cont_set_idx in *. assert (a = b) by congruence. subst b.
    apply Permutation_cons_inv in P1. apply Permutation_cons_inv in P2.
    unfold conts. symmetry. eapply perm_trans; eassumption.
  - assert (H1 : nth_error l1 j = Some b) by (unfold l1; now rewrite nth_error_set_nth_neq).
    pose proof (set_nth_perm cont l1 j (set_idx a j) _ H1) as P2.
    rewrite !cont_set_idx in *.
    unfold conts. symmetry. eapply Permutation_cons_inv with (a := cont b).
    eapply perm_trans; [exact P1|exact P2].
Qed.

(* Index = position *)
Definition idx_ok (l : list entry) : Prop := forall k e, nth_error l k = Some e -> e_idx e = k.

Lemma swap_idx_ok l i j : idx_ok l -> idx_ok (swap l i j).
Proof.
  intros H. destruct (nth_error l i) as [a|] eqn:Ha; [|unfold swap; now rewrite Ha].
  destruct (nth_error l j) as [b|] eqn:Hb; [|unfold swap; now rewrite Ha, Hb].
  intros k e. rewrite (nth_error_swap l i j k a b Ha Hb).
  destruct (k =? j) eqn:E1; [intros [= <-]; apply Nat.eqb_eq in E1; now subst|].
  destruct (k =? i) eqn:E2; [intros [= <-]; apply Nat.eqb_eq in E2; now subst|].
  apply H.
Qed.

(* ---------- keys ---------- *)
Definition getk (mn : bool) (l : list entry) (k : nat) : Z :=
  match nth_error l k with Some e => key mn e | None => 0%Z end.

Lemma getk_swap mn l i j k : i < length l -> j < length l ->
  getk mn (swap l i j) k = if k =? j then getk mn l i else if k =? i then getk mn l j else getk mn l k.
Proof.
  intros Hi Hj.
  destruct (nth_error l i) as [a|] eqn:Ha; [|apply nth_error_None in Ha; lia].
  destruct (nth_error l j) as [b|] eqn:Hb; [|apply nth_error_None in Hb; lia].
  unfold getk. rewrite (nth_error_swap l i j k a b Ha Hb), Ha, Hb.
  destruct (k =? j); [reflexivity|]. destruct (k =? i); reflexivity.
Qed.

Lemma less_getk mn l i j : i < length l -> j < length l ->
  less mn l i j = (getk mn l i <? getk mn l j)%Z.
Proof.
  intros Hi Hj. unfold less, getk.
  destruct (nth_error l i) eqn:Ha; [|apply nth_error_None in Ha; lia].
  destruct (nth_error l j) eqn:Hb; [|apply nth_error_None in Hb; lia].
  reflexivity.
Qed.

(* ---------- up / down: length, contents, Index, frame ---------- *)
Lemma up_length fuel mn l j : length (up fuel mn l j) = length l.
Proof.
  revert l j; induction fuel as [|f IH]; intros l j; cbn [up]; auto.
  destruct (_ || _); auto. now rewrite IH, swap_length.
Qed.
Lemma up_perm fuel mn l j : Permutation (conts (up fuel mn l j)) (conts l).
Proof.
  revert l j; induction fuel as [|f IH]; intros l j; cbn [up]; auto.
  destruct (_ || _); auto. eapply perm_trans; [apply IH|apply swap_perm].
Qed.
Lemma up_idx_ok fuel mn l j : idx_ok l -> idx_ok (up fuel mn l j).
Proof.
  revert l j; induction fuel as [|f IH]; intros l j H; cbn [up]; auto.
  destruct (_ || _); auto. apply IH, swap_idx_ok, H.
Qed.

Lemma parent_le j : (j - 1) / 2 <= j.
Proof. apply Nat.le_trans with (j - 1); [apply Nat.div_le_upper_bound; lia|lia]. Qed.

Lemma nth_error_swap_other (l : list entry) i j k : k <> i -> k <> j -> nth_error (swap l i j) k = nth_error l k.
Proof.
  intros Hi Hj. destruct (nth_error l i) as [a|] eqn:Ha; [|unfold swap; now rewrite Ha].
  destruct (nth_error l j) as [b|] eqn:Hb; [|unfold swap; now rewrite Ha, Hb].
  rewrite (nth_error_swap l i j k a b Ha Hb).
  destruct (Nat.eqb_spec k j); [lia|]. destruct (Nat.eqb_spec k i); [lia|]. reflexivity.
Qed.

Lemma up_frame fuel mn l j k : j < k -> nth_error (up fuel mn l j) k = nth_error l k.
Proof.
  revert l j; induction fuel as [|f IH]; intros l j Hk; cbn [up]; auto.
  destruct (_ || _); auto. pose proof (parent_le j).
  rewrite IH by lia. apply nth_error_swap_other; lia.
Qed.

Lemma down_length fuel mn l i n : length (fst (down fuel mn l i n)) = length l.
Proof.
  revert l i; induction fuel as [|f IH]; intros l i; cbn [down fst]; auto.
  destruct (n <=? _); auto. destruct (negb _); auto. now rewrite IH, swap_length.
Qed.
Lemma down_perm fuel mn l i n : Permutation (conts (fst (down fuel mn l i n))) (conts l).
Proof.
  revert l i; induction fuel as [|f IH]; intros l i; cbn [down fst]; auto.
  destruct (n <=? _); auto. destruct (negb _); auto. eapply perm_trans; [apply IH|apply swap_perm].
Qed.
Lemma down_idx_ok fuel mn l i n : idx_ok l -> idx_ok (fst (down fuel mn l i n)).
Proof.
  revert l i; induction fuel as [|f IH]; intros l i H; cbn [down fst]; auto.
  destruct (n <=? _); auto. destruct (negb _); auto. apply IH, swap_idx_ok, H.
Qed.
Lemma down_frame fuel mn l i n k : n <= k -> nth_error (fst (down fuel mn l i n)) k = nth_error l k.
Proof.
  revert l i; induction fuel as [|f IH]; intros l i Hk; cbn [down fst]; auto.
  destruct (n <=? 2 * i + 1) eqn:E; auto. apply Nat.leb_gt in E.
  match goal with |- context [negb ?c] => destruct (negb c) end; auto.
  rewrite IH by assumption.
  apply nth_error_swap_other; [lia|].
  destruct (_ && _) eqn:E2; [|lia]. apply andb_prop in E2 as [E2 _]. apply Nat.ltb_lt in E2. lia.
Qed.

(* ---------- heap order ---------- *)
Definition child (p c : nat) : Prop := c = 2 * p + 1 \/ c = 2 * p + 2.

Lemma parent_child j : 0 < j -> child ((j - 1) / 2) j.
Proof.
  intros Hj. unfold child.
  pose proof (Nat.div_mod (j - 1) 2 ltac:(lia)) as H.
  pose proof (Nat.mod_upper_bound (j - 1) 2 ltac:(lia)) as H2.
  lia.
Qed.

Lemma parent_zero : (0 - 1) / 2 = 0.
Proof. reflexivity. Qed.

Definition heap_upto mn l n := forall p c, child p c -> c < n -> (getk mn l p <= getk mn l c)%Z.
Definition inv_except mn l n i :=
  (forall p c, child p c -> c < n -> p <> i -> c <> i -> (getk mn l p <= getk mn l c)%Z) /\
  (forall g c, child g i -> child i c -> c < n -> (getk mn l g <= getk mn l c)%Z).
Definition children_ok mn l n i := forall c, child i c -> c < n -> (getk mn l i <= getk mn l c)%Z.
Definition parent_ok mn l i := forall g, child g i -> (getk mn l g <= getk mn l i)%Z.

Lemma heap_from_parts mn l n i :
  inv_except mn l n i -> children_ok mn l n i -> parent_ok mn l i -> heap_upto mn l n.
Proof.
  intros [H1 H2] Hc Hp p c Hpc Hcn.
  destruct (Nat.eq_dec p i) as [->|Hpi]; [now apply Hc|].
  destruct (Nat.eq_dec c i) as [->|Hci]; [now apply Hp|].
  now apply H1.
Qed.

Lemma heap_inv_except mn l n i : heap_upto mn l n -> inv_except mn l n i.
Proof.
  intros H. split.
  - intros p c Hpc Hcn _ _. now apply H.
  - intros g c Hgi Hic Hcn. apply Z.le_trans with (getk mn l i).
    + apply H; [assumption|]. unfold child in *; lia.
    + now apply H.
Qed.

Lemma heap_upto_weaken mn l n m : m <= n -> heap_upto mn l n -> heap_upto mn l m.
Proof. intros Hm H p c Hpc Hc. apply H; [assumption|lia]. Qed.

Ltac gsw := rewrite !getk_swap by lia;
  repeat match goal with |- context [Nat.eqb ?a ?b] => destruct (Nat.eqb_spec a b); try lia end; try lia.

Lemma down_spec mn : forall fuel l i n,
  n <= length l -> n <= i + fuel -> inv_except mn l n i ->
  (snd (down fuel mn l i n) = i /\ fst (down fuel mn l i n) = l /\ children_ok mn l n i)
  \/ (i < snd (down fuel mn l i n) /\ heap_upto mn (fst (down fuel mn l i n)) n).
Proof.
  induction fuel as [|f IH]; intros l i n Hn Hf Hinv; cbn [down].
  - left. cbn [fst snd]. repeat split. intros c Hc Hcn. unfold child in Hc; lia.
  - destruct (n <=? 2 * i + 1) eqn:E1.
    + apply Nat.leb_le in E1. left. cbn [fst snd]. repeat split. intros c Hc Hcn. unfold child in Hc; lia.
    + apply Nat.leb_gt in E1.
      set (j1 := 2 * i + 1) in *. set (j2 := j1 + 1).
      set (j := if (j2 <? n) && less mn l j2 j1 then j2 else j1).
      assert (Hj : j < n /\ (j = j1 \/ j = j2) /\
                   forall c, child i c -> c < n -> (getk mn l j <= getk mn l c)%Z).
      { unfold j. destruct (j2 <? n) eqn:E2; cbn [andb].
        - apply Nat.ltb_lt in E2. rewrite less_getk by lia.
          destruct (Z.ltb_spec (getk mn l j2) (getk mn l j1)) as [L|L].
          + split; [lia|]. split; [now right|]. intros c Hc Hcn. unfold child in Hc.
            assert (Hcc : c = j1 \/ c = j2) by (unfold j1, j2 in *; lia). destruct Hcc as [->| ->]; lia.
          + split; [lia|]. split; [now left|]. intros c Hc Hcn. unfold child in Hc.
            assert (Hcc : c = j1 \/ c = j2) by (unfold j1, j2 in *; lia). destruct Hcc as [->| ->]; lia.
        - apply Nat.ltb_ge in E2. split; [lia|]. split; [now left|]. intros c Hc Hcn. unfold child in Hc.
          assert (c = j1) by (unfold j1, j2 in *; lia). subst c. lia. }
      destruct Hj as (Hjn & Hjc & Hjmin).
      assert (Hij : child i j) by (unfold child, j1, j2 in *; lia).
      clearbody j. rewrite less_getk by (unfold j1, j2 in *; lia).
      destruct (Z.ltb_spec (getk mn l j) (getk mn l i)) as [L|L]; cbn [negb].
      * (* swap and continue from j *)
        destruct Hinv as [H1 H2].
        assert (Hinv2 : inv_except mn (swap l i j) n j).
        { split.
          - intros p c Hpc Hcn Hpj Hcj. unfold child in Hpc, Hij.
            destruct (Nat.eq_dec p i) as [->|Hpi].
            + (* c is the other child of i *)
              gsw. apply Hjmin; [unfold child; lia|lia].
            + destruct (Nat.eq_dec c i) as [->|Hci].
              * gsw. apply H2; unfold child; lia.
              * gsw. apply H1; unfold child; lia.
          - intros g c Hgj Hjc' Hcn. unfold child in Hgj, Hjc', Hij.
            assert (g = i) by lia. subst g. gsw.
            apply H1; unfold child; lia. }
        specialize (IH (swap l i j) j n ltac:(rewrite swap_length; lia) ltac:(unfold child in Hij; lia) Hinv2).
        right. destruct IH as [(Es & El & Hc)|(Hlt & Hh)].
        -- rewrite Es, El. split; [unfold child in Hij; lia|].
           apply (heap_from_parts mn _ n j Hinv2 Hc).
           intros g Hgj. unfold child in Hgj, Hij. assert (g = i) by lia. subst g. gsw.
        -- split; [unfold child in Hij; lia|exact Hh].
      * left. cbn [fst snd]. repeat split. intros c Hc Hcn. specialize (Hjmin c Hc Hcn). lia.
Qed.

Lemma up_spec mn : forall fuel l i n,
  n <= length l -> i < n -> i < fuel ->
  inv_except mn l n i -> children_ok mn l n i -> heap_upto mn (up fuel mn l i) n.
Proof.
  induction fuel as [|f IH]; intros l i n Hn Hin Hf Hinv Hc; [lia|]. cbn [up].
  destruct (Nat.eq_dec i 0) as [->|Hi0].
  - rewrite parent_zero. cbn [Nat.eqb orb].
    apply (heap_from_parts mn l n 0 Hinv Hc). intros g Hg. unfold child in Hg; lia.
  - pose proof (parent_child i ltac:(lia)) as Hpi.
    set (p := (i - 1) / 2) in *.
    assert (Hplt : p < i) by (unfold child in Hpi; lia).
    destruct (Nat.eqb_spec p i) as [E|_]; [lia|]. cbn [orb].
    rewrite less_getk by lia.
    destruct (Z.ltb_spec (getk mn l i) (getk mn l p)) as [L|L]; cbn [negb].
    + destruct Hinv as [H1 H2].
      apply IH; [rewrite swap_length; lia|lia|lia| |].
      * split.
        -- intros q c Hqc Hcn Hqp Hcp. unfold child in Hqc, Hpi.
           destruct (Nat.eq_dec c i) as [->|Hci]; [lia|].
           destruct (Nat.eq_dec q i) as [->|Hqi].
           ++ gsw. apply H2; unfold child; lia.
           ++ gsw. apply H1; unfold child; lia.
        -- intros g c Hgp Hpc Hcn. unfold child in Hgp, Hpc, Hpi.
           assert (Hgp' : (getk mn l g <= getk mn l p)%Z) by (apply H1; unfold child; lia).
           destruct (Nat.eq_dec c i) as [->|Hci].
           ++ gsw.
           ++ gsw. apply Z.le_trans with (getk mn l p); [assumption|]. apply H1; unfold child; lia.
      * intros c Hpc Hcn. unfold child in Hpc, Hpi.
        destruct (Nat.eq_dec c i) as [->|Hci].
        -- gsw.
        -- gsw. assert ((getk mn l p <= getk mn l c)%Z) by (apply H1; unfold child; lia). lia.
    + apply (heap_from_parts mn l n i (conj (proj1 Hinv) (proj2 Hinv)) Hc).
      intros g Hg. unfold child in Hg, Hpi. assert (g = p) by lia. subst g. lia.
Qed.

(* on an ordered heap, up does nothing *)
Lemma up_noop mn fuel l j : j < length l -> heap_upto mn l (length l) -> up fuel mn l j = l.
Proof.
  intros Hj H. destruct fuel as [|f]; [reflexivity|]. cbn [up].
  destruct (Nat.eq_dec j 0) as [->|Hj0]; [reflexivity|].
  pose proof (parent_child j ltac:(lia)) as Hp. set (p := (j - 1) / 2) in *.
  destruct (Nat.eqb_spec p j) as [_|_]; [reflexivity|]. cbn [orb].
  rewrite less_getk by (unfold child in Hp; lia).
  specialize (H p j Hp Hj).
  destruct (Z.ltb_spec (getk mn l j) (getk mn l p)); [lia|reflexivity].
Qed.

(* the root is a best element *)
Lemma heap_root_min mn l n : heap_upto mn l n -> forall k, k < n -> (getk mn l 0 <= getk mn l k)%Z.
Proof.
  intros H k. induction k as [k IHk] using lt_wf_ind. intros Hk.
  destruct (Nat.eq_dec k 0) as [->|Hk0]; [lia|].
  pose proof (parent_child k ltac:(lia)) as Hp. set (p := (k - 1) / 2) in *.
  assert (p < k) by (unfold child in Hp; lia).
  apply Z.le_trans with (getk mn l p); [apply IHk; lia|now apply H].
Qed.

(* ---------- well-formed heaps and the specification of Push / Pop / Remove ---------- *)
Definition ids_of (l : list entry) : list N := map e_id l.
Definition hwf mn l : Prop := idx_ok l /\ NoDup (ids_of l) /\ heap_upto mn l (length l).

Lemma ids_conts l : ids_of l = map (fun c => fst (fst c)) (conts l).
Proof. unfold ids_of, conts. rewrite map_map. reflexivity. Qed.

Lemma perm_ids l l' : Permutation (conts l) (conts l') -> Permutation (ids_of l) (ids_of l').
Proof. intros H. rewrite !ids_conts. now apply Permutation_map. Qed.

Lemma hwf_nil mn : hwf mn [].
Proof.
  repeat split.
  - intros k e H. destruct k; discriminate.
  - constructor.
  - intros p c _ H. cbn in H. lia.
Qed.

Lemma ih_get_some l id e : ih_get l id = Some e -> In e l /\ e_id e = id.
Proof. unfold ih_get. intros H. apply find_some in H as [H1 H2]. apply N.eqb_eq in H2. auto. Qed.

Lemma ih_get_none l id : ih_get l id = None -> ~ In id (ids_of l).
Proof.
  unfold ih_get, ids_of. intros H Hin. apply in_map_iff in Hin as (e & He & Hin).
  pose proof (find_none _ _ H e Hin) as Hn. cbn in Hn. apply N.eqb_neq in Hn. congruence.
Qed.

Lemma ih_has_false l id : ih_has l id = false -> ~ In id (ids_of l).
Proof. unfold ih_has. destruct (ih_get l id) eqn:E; [discriminate|]. intros _. now apply ih_get_none. Qed.

Lemma ih_has_true l id : ih_has l id = true <-> In id (ids_of l).
Proof.
  unfold ih_has. destruct (ih_get l id) eqn:E; split; intros H; try reflexivity; try discriminate.
  - apply ih_get_some in E as [E1 E2]. subst id. unfold ids_of. now apply in_map.
  - now apply ih_get_none in E.
Qed.

(* with unique ids, Get finds the entry wherever it is *)
Lemma ih_get_nth l k e : NoDup (ids_of l) -> nth_error l k = Some e -> ih_get l (e_id e) = Some e.
Proof.
  unfold ih_get, ids_of. revert k. induction l as [|h t IH]; intros k Hnd Hk; [destruct k; discriminate|].
  cbn [map] in Hnd. inversion Hnd as [|x xs Hnotin Hnd']; subst. cbn [find].
  destruct k as [|k]; cbn [nth_error] in Hk.
  - injection Hk as ->. now rewrite N.eqb_refl.
  - destruct (N.eqb_spec (e_id h) (e_id e)) as [E|E].
    + exfalso. apply Hnotin. rewrite E. apply in_map. eapply nth_error_In; eassumption.
    + eapply IH; eassumption.
Qed.

Lemma getk_app1 mn l x k : k < length l -> getk mn (l ++ x) k = getk mn l k.
Proof. intros H. unfold getk. now rewrite nth_error_app1. Qed.

Lemma split_last {X} (l : list X) n x : length l = S n -> nth_error l n = Some x -> l = removelast l ++ [x].
Proof.
  revert n; induction l as [|h t IH]; intros n Hl Hn; [discriminate|].
  destruct t as [|h2 t2].
  - cbn in Hl. assert (n = 0) by lia. subst n. cbn in Hn. injection Hn as ->. reflexivity.
  - destruct n as [|n]; [cbn in Hl; lia|]. cbn [nth_error] in Hn.
    change (removelast (h :: h2 :: t2)) with (h :: removelast (h2 :: t2)). cbn [app]. f_equal.
    apply (IH n); [cbn in *; lia|assumption].
Qed.

Lemma nodup_app_l {X} (a b : list X) : NoDup (a ++ b) -> NoDup a.
Proof.
  induction a as [|h t IH]; intros H; [constructor|]. cbn in H. inversion H as [|x xs Hn Hnd]; subst.
  constructor; [|now apply IH]. intros Hin. apply Hn. apply in_or_app. now left.
Qed.

(* dropping the last slot of an array whose first n slots are ordered *)
Lemma drop_last mn r x :
  idx_ok (r ++ [x]) -> NoDup (ids_of (r ++ [x])) -> heap_upto mn (r ++ [x]) (length r) -> hwf mn r.
Proof.
  intros Hi Hnd Hh. repeat split.
  - intros k e Hk. apply Hi. rewrite nth_error_app1; [assumption|]. apply nth_error_Some. congruence.
  - unfold ids_of in *. rewrite map_app in Hnd. now apply nodup_app_l in Hnd.
  - intros p c Hpc Hc. specialize (Hh p c Hpc Hc). unfold child in Hpc.
    rewrite !getk_app1 in Hh by lia. exact Hh.
Qed.

Lemma push_fresh mn l e :
  hwf mn l -> e_idx e = length l -> ih_has l (e_id e) = false ->
  hwf mn (heap_push mn l e) /\ Permutation (conts (heap_push mn l e)) (cont e :: conts l).
Proof.
  intros (Hi & Hnd & Hh) Hidx Hhas. unfold heap_push, ih_push. rewrite Hhas.
  set (l1 := l ++ [e]).
  assert (Hlen : length l1 = S (length l)) by (unfold l1; rewrite app_length; cbn; lia).
  rewrite Hlen. replace (S (length l) - 1) with (length l) by lia.
  assert (Hp : Permutation (conts l1) (cont e :: conts l)).
  { unfold l1, conts. rewrite map_app. cbn [map]. symmetry. apply Permutation_cons_append. }
  split; [repeat split|].
  - apply up_idx_ok. intros k x Hk. unfold l1 in Hk.
    destruct (Nat.lt_ge_cases k (length l)) as [Hlt|Hge].
    + rewrite nth_error_app1 in Hk by assumption. now apply Hi.
    + assert (Hk' : k < length l1) by (apply nth_error_Some; unfold l1; congruence).
      assert (k = length l) by lia. subst k.
      rewrite nth_error_app2, Nat.sub_diag in Hk by lia. cbn in Hk. injection Hk as <-. exact Hidx.
  - eapply Permutation_NoDup; [symmetry; apply perm_ids, up_perm|].
    eapply Permutation_NoDup; [symmetry; apply (perm_ids l1 (e :: l)), Hp|].
    change (ids_of (e :: l)) with (e_id e :: ids_of l). constructor; [now apply ih_has_false|assumption].
  - rewrite up_length, Hlen. apply up_spec; try lia.
    + split.
      * intros p c Hpc Hc Hp' Hc'. unfold child in Hpc. unfold l1. rewrite !getk_app1 by lia.
        apply Hh; [exact Hpc|lia].
      * intros g c _ Hjc Hc. unfold child in Hjc. lia.
    + intros c Hjc Hc. unfold child in Hjc. lia.
  - eapply perm_trans; [apply up_perm|exact Hp].
Qed.

Lemma push_dup mn l e : hwf mn l -> ih_has l (e_id e) = true -> heap_push mn l e = l.
Proof.
  intros (Hi & Hnd & Hh) Hhas. unfold heap_push, ih_push. rewrite Hhas.
  destruct l as [|h t]; [discriminate|]. apply up_noop; [cbn; lia|exact Hh].
Qed.

(* common tail of Pop and Remove: the array l2 (same contents as l, first n slots ordered, slot n holding
   the entry to delete) loses its last slot *)
Lemma pop_tail mn l l2 n e e' :
  hwf mn l -> length l = S n -> length l2 = S n ->
  Permutation (conts l2) (conts l) -> idx_ok l2 -> heap_upto mn l2 n ->
  nth_error l2 n = Some e' -> cont e' = cont e ->
  let r := ih_pop l2 in
  snd r = Some e' /\ hwf mn (fst r) /\ Permutation (conts l) (cont e :: conts (fst r)).
Proof.
  intros (Hi & Hnd & Hh) Hl Hl2 Hp Hi2 Hh2 Hn Hc. unfold ih_pop. cbn [fst snd].
  rewrite Hl2. replace (S n - 1) with n by lia.
  pose proof (split_last l2 n e' Hl2 Hn) as Hs.
  set (r := removelast l2) in *.
  assert (Hr : length r = n).
  { apply (f_equal (@length _)) in Hs. rewrite app_length in Hs. cbn in Hs. lia. }
  clearbody r.
  split; [exact Hn|]. split.
  - apply (drop_last mn r e').
    + now rewrite <- Hs.
    + rewrite <- Hs. eapply Permutation_NoDup; [symmetry; apply perm_ids, Hp|exact Hnd].
    + rewrite <- Hs, Hr. exact Hh2.
  - symmetry. eapply perm_trans; [|exact Hp]. rewrite Hs. unfold conts. rewrite map_app. cbn [map].
    rewrite <- Hc. apply Permutation_cons_append.
Qed.

Lemma remove_spec mn l i e :
  hwf mn l -> nth_error l i = Some e ->
  exists e', snd (heap_remove mn l i) = Some e' /\ cont e' = cont e /\
             hwf mn (fst (heap_remove mn l i)) /\
             Permutation (conts l) (cont e :: conts (fst (heap_remove mn l i))).
Proof.
  intros Hwf Hie. pose proof Hwf as (Hi & Hnd & Hh).
  assert (Hil : i < length l) by (apply nth_error_Some; congruence).
  unfold heap_remove. destruct (Nat.leb_spec (length l) i) as [Hle|_]; [lia|].
  set (n := length l - 1). assert (Hl : length l = S n) by (unfold n; lia).
  destruct (Nat.eqb_spec n i) as [E|E].
  - subst i. exists e.
    pose proof (pop_tail mn l l n e e Hwf Hl Hl (Permutation_refl _) Hi
                  (heap_upto_weaken mn l (length l) n ltac:(lia) Hh) Hie eq_refl) as (P1 & P2 & P3).
    auto.
  - assert (Hin : i < n) by lia.
    destruct (nth_error l n) as [b|] eqn:Hb; [|apply nth_error_None in Hb; lia].
    set (l1 := swap l i n).
    assert (Hl1 : length l1 = S n) by (unfold l1; rewrite swap_length; lia).
    assert (Hl1n : nth_error l1 n = Some (set_idx e n)).
    { unfold l1. rewrite (nth_error_swap l i n n e b Hie Hb). now rewrite Nat.eqb_refl. }
    assert (Hinv : inv_except mn l1 n i).
    { split.
      - intros p c Hpc Hc Hp' Hc'. unfold child in Hpc. unfold l1. gsw. apply Hh; [exact Hpc|lia].
      - intros g c Hgi Hic Hc. unfold child in Hgi, Hic. unfold l1. gsw.
        apply Z.le_trans with (getk mn l i); apply Hh; unfold child; lia. }
    pose proof (down_spec mn (length l) l1 i n ltac:(lia) ltac:(lia) Hinv) as Hd.
    pose proof (down_length (length l) mn l1 i n) as Hdl.
    pose proof (down_perm (length l) mn l1 i n) as Hdp.
    pose proof (down_idx_ok (length l) mn l1 i n (swap_idx_ok l i n Hi)) as Hdi.
    pose proof (down_frame (length l) mn l1 i n n (le_n _)) as Hdf.
    destruct (down (length l) mn l1 i n) as [ld i'] eqn:Ed. cbn [fst snd] in *.
    exists (set_idx e n).
    assert (Hfin : forall l2, length l2 = S n -> Permutation (conts l2) (conts l) -> idx_ok l2 ->
                     heap_upto mn l2 n -> nth_error l2 n = Some (set_idx e n) ->
                     snd (ih_pop l2) = Some (set_idx e n) /\ cont (set_idx e n) = cont e /\
                     hwf mn (fst (ih_pop l2)) /\ Permutation (conts l) (cont e :: conts (fst (ih_pop l2)))).
    { intros l2 H1 H2 H3 H4 H5.
      pose proof (pop_tail mn l l2 n e (set_idx e n) Hwf Hl H1 H2 H3 H4 H5 eq_refl) as (P1 & P2 & P3).
      auto. }
    destruct Hd as [(Es & El & Hc)|(Hlt & Hheap)].
    + subst i' ld. rewrite Nat.ltb_irrefl. apply Hfin.
      * now rewrite up_length.
      * eapply perm_trans; [apply up_perm|]. apply swap_perm.
      * apply up_idx_ok, swap_idx_ok, Hi.
      * apply up_spec; try lia; assumption.
      * rewrite up_frame by lia. exact Hl1n.
    + destruct (Nat.ltb_spec i i') as [_|Hge]; [|lia]. apply Hfin.
      * lia.
      * eapply perm_trans; [exact Hdp|]. apply swap_perm.
      * exact Hdi.
      * exact Hheap.
      * now rewrite Hdf.
Qed.

Lemma remove_oob mn l i : length l <= i -> heap_remove mn l i = (l, None).
Proof. intros H. unfold heap_remove. destruct (Nat.leb_spec (length l) i); [reflexivity|lia]. Qed.

Lemma pop_spec mn l e :
  hwf mn l -> heap_first l = Some e ->
  exists e', snd (heap_pop mn l) = Some e' /\ cont e' = cont e /\
             hwf mn (fst (heap_pop mn l)) /\
             Permutation (conts l) (cont e :: conts (fst (heap_pop mn l))).
Proof.
  intros Hwf He. pose proof Hwf as (Hi & Hnd & Hh). unfold heap_first in He.
  assert (Hpos : 0 < length l) by (apply nth_error_Some; congruence).
  unfold heap_pop. destruct l as [|h t] eqn:El; [cbn in Hpos; lia|]. rewrite <- El in *. clear El h t.
  set (n := length l - 1). assert (Hl : length l = S n) by (unfold n; lia).
  destruct (nth_error l n) as [b|] eqn:Hb; [|apply nth_error_None in Hb; lia].
  set (l1 := swap l 0 n).
  assert (Hl1 : length l1 = S n) by (unfold l1; rewrite swap_length; lia).
  assert (Hl1n : nth_error l1 n = Some (set_idx e n)).
  { unfold l1. rewrite (nth_error_swap l 0 n n e b He Hb). now rewrite Nat.eqb_refl. }
  assert (Hinv : inv_except mn l1 n 0).
  { split.
    - intros p c Hpc Hc Hp' Hc'. unfold child in Hpc. unfold l1. gsw. apply Hh; [exact Hpc|lia].
    - intros g c Hg0. unfold child in Hg0. lia. }
  pose proof (down_spec mn (length l) l1 0 n ltac:(lia) ltac:(lia) Hinv) as Hd.
  pose proof (down_length (length l) mn l1 0 n) as Hdl.
  pose proof (down_perm (length l) mn l1 0 n) as Hdp.
  pose proof (down_idx_ok (length l) mn l1 0 n (swap_idx_ok l 0 n Hi)) as Hdi.
  pose proof (down_frame (length l) mn l1 0 n n (le_n _)) as Hdf.
  set (l2 := fst (down (length l) mn l1 0 n)) in *.
  assert (Hheap : heap_upto mn l2 n).
  { destruct Hd as [(Es & Eq & Hc)|(_ & Hheap)]; [|exact Hheap].
    rewrite Eq. apply (heap_from_parts mn l1 n 0 Hinv Hc). intros g Hg. unfold child in Hg. lia. }
  exists (set_idx e n).
  pose proof (pop_tail mn l l2 n e (set_idx e n) Hwf Hl ltac:(lia)
               (perm_trans Hdp (swap_perm l 0 n)) Hdi Hheap ltac:(now rewrite Hdf) eq_refl) as (P1 & P2 & P3).
  auto.
Qed.

Lemma pop_empty mn : heap_pop mn (@nil entry) = ([], None).
Proof. reflexivity. Qed.

(* the root is a best entry *)
Lemma first_min mn l e x : hwf mn l -> heap_first l = Some e -> In x l -> (key mn e <= key mn x)%Z.
Proof.
  intros (_ & _ & Hh) He Hx. apply In_nth_error in Hx as (k & Hk).
  assert (Hkl : k < length l) by (apply nth_error_Some; congruence).
  pose proof (heap_root_min mn l _ Hh k Hkl) as H. unfold getk, heap_first in *. now rewrite He, Hk in H.
Qed.

(* ---------- all operation sequences on the array heap ---------- *)
Inductive hop := HPush (id : N) (x : A) (v : Z) | HPop | HRemove (i : nat).

Definition hstep mn l (o : hop) : list entry * option entry :=
  match o with
  | HPush id x v => (heap_push mn l (mkE id x v (length l)), None)
  | HPop => heap_pop mn l
  | HRemove i => heap_remove mn l i
  end.
Fixpoint hrun mn l (ops : list hop) : list entry * list (option entry) :=
  match ops with
  | [] => (l, [])
  | o :: rest => let '(l1, r) := hstep mn l o in let '(l2, rs) := hrun mn l1 rest in (l2, r :: rs)
  end.

(* what one operation does to the multiset of (ID, Item, Val) triples *)
Definition hstep_spec mn l (o : hop) (l' : list entry) (r : option entry) : Prop :=
  match o with
  | HPush id x v =>
      r = None /\ (if ih_has l id then l' = l else Permutation (conts l') ((id, x, v) :: conts l))
  | HPop =>
      match heap_first l with
      | None => r = None /\ l' = l
      | Some e => exists e', r = Some e' /\ cont e' = cont e /\ (forall x, In x l -> (key mn e <= key mn x)%Z) /\
                             Permutation (conts l) (cont e :: conts l')
      end
  | HRemove i =>
      match nth_error l i with
      | None => r = None /\ l' = l
      | Some e => exists e', r = Some e' /\ cont e' = cont e /\ Permutation (conts l) (cont e :: conts l')
      end
  end.

Lemma hstep_ok mn l o : hwf mn l ->
  hwf mn (fst (hstep mn l o)) /\ hstep_spec mn l o (fst (hstep mn l o)) (snd (hstep mn l o)).
Proof.
  intros Hw. destruct o as [id x v| |i]; cbn [hstep hstep_spec fst snd].
  - set (e := mkE id x v (length l)). destruct (ih_has l id) eqn:E.
    + rewrite (push_dup mn l e Hw E). auto.
    + destruct (push_fresh mn l e Hw eq_refl E) as [H1 H2]. auto.
  - destruct (heap_first l) as [e|] eqn:He.
    + destruct (pop_spec mn l e Hw He) as (e' & P1 & P2 & P3 & P4). split; [assumption|].
      exists e'. split; [assumption|]. split; [assumption|]. split; [|assumption].
      intros x Hx. now apply (first_min mn l e x Hw He).
    + destruct l; [|discriminate]. cbn. split; [assumption|auto].
  - destruct (nth_error l i) as [e|] eqn:He.
    + destruct (remove_spec mn l i e Hw He) as (e' & P1 & P2 & P3 & P4). split; [assumption|].
      exists e'. auto.
    + apply nth_error_None in He. rewrite (remove_oob mn l i He). cbn. auto.
Qed.

Lemma hrun_wf mn : forall ops l, hwf mn l -> hwf mn (fst (hrun mn l ops)).
Proof.
  induction ops as [|o ops IH]; intros l Hw; cbn [hrun]; [assumption|].
  destruct (hstep_ok mn l o Hw) as [Hw' _]. destruct (hstep mn l o) as [l1 r]. cbn [fst] in Hw'.
  specialize (IH l1 Hw'). now destruct (hrun mn l1 ops).
Qed.

End HeapProofs.
