(* Proofs about Model/ActionApi.v (C30). *)
From Coq Require Import List NArith Bool Lia.
Import ListNotations.
From HV Require Import Lib.Bytes Model.ActionApi.
Local Open Scope N_scope.

(* ------------------------------------------------------------------ permissions *)

Lemma has_spec p r : has p r = true <-> forall i, N.testbit r i = true -> N.testbit p i = true.
Proof.
  unfold has. rewrite N.eqb_eq. split.
  - intros H i Hr. destruct (N.testbit p i) eqn:Hp; [reflexivity|].
    assert (Hb : N.testbit (N.ldiff r p) i = true) by (rewrite N.ldiff_spec, Hr, Hp; reflexivity).
    rewrite H in Hb. rewrite N.bits_0 in Hb. discriminate Hb.
  - intros H. apply N.bits_inj. intros i. rewrite N.ldiff_spec, N.bits_0.
    destruct (N.testbit r i) eqn:Hr; [|reflexivity].
    rewrite (H i Hr). reflexivity.
Qed.

Lemma has_lor_l p q r : has p r = true -> has (N.lor p q) r = true.
Proof.
  rewrite !has_spec. intros H i Hr. rewrite N.lor_spec, (H i Hr). reflexivity.
Qed.

Lemma has_lor_r p q r : has q r = true -> has (N.lor p q) r = true.
Proof.
  rewrite !has_spec. intros H i Hr. rewrite N.lor_spec, (H i Hr). apply orb_true_r.
Qed.

Lemma perm_of_app a b k : perm_of (a ++ b) k = N.lor (perm_of a k) (perm_of b k).
Proof.
  induction a as [|[k' p] a IH]; cbn [perm_of app].
  - reflexivity.
  - destruct (bytes_eqb k' k); rewrite IH; [rewrite N.lor_assoc|]; reflexivity.
Qed.

(* scope inclusion *)
Definition scope_le (s1 s2 : key -> perm) : Prop := forall k r, has (s1 k) r = true -> has (s2 k) r = true.

Lemma scope_le_refl s : scope_le s s.
Proof. intros k r H; exact H. Qed.

Lemma scope_le_app_l a b : scope_le (perm_of a) (perm_of (a ++ b)).
Proof. intros k r H. rewrite perm_of_app. apply has_lor_l, H. Qed.

Lemma scope_le_app_r a b : scope_le (perm_of b) (perm_of (a ++ b)).
Proof. intros k r H. rewrite perm_of_app. apply has_lor_r, H. Qed.

Lemma scope_le_trans s1 s2 s3 : scope_le s1 s2 -> scope_le s2 s3 -> scope_le s1 s3.
Proof. intros H1 H2 k r H. apply H2, H1, H. Qed.

(* ------------------------------------------------------------------ monotonicity of a run in the scope *)

Lemma check_scope_rec sc rec k p rec' : check (MScope sc) rec k p = Some rec' -> rec' = rec.
Proof. cbn [check]. destruct (has (sc k) p); intros H; inversion H; reflexivity. Qed.

Lemma check_scope_mono s1 s2 rec k p rec' :
  scope_le s1 s2 -> check (MScope s1) rec k p = Some rec' -> check (MScope s2) rec k p = Some rec'.
Proof.
  intros Hle. cbn [check]. destruct (has (s1 k) p) eqn:H1; [|discriminate].
  rewrite (Hle k p H1). trivial.
Qed.

(* enlarging the scope never changes the outcome of a successful run *)
Lemma run_mono s1 s2 base p : scope_le s1 s2 ->
  forall pend rec r, run (MScope s1) base p pend rec = Some r -> run (MScope s2) base p pend rec = Some r.
Proof.
  intros Hle. induction p as [o| |k c IH|k v c IH|k c IH]; intros pend rec r; cbn [run].
  - trivial.
  - trivial.
  - destruct (check (MScope s1) rec k P_READ) as [rec1|] eqn:Hc; [|discriminate].
    rewrite (check_scope_mono _ _ _ _ _ _ Hle Hc). apply IH.
  - destruct (check (MScope s1) rec k P_WRITE) as [rec1|] eqn:Hc; [|discriminate].
    rewrite (check_scope_mono _ _ _ _ _ _ Hle Hc).
    destruct (negb (verify_value k v)); [trivial|].
    destruct (vis base pend k); [apply IH|].
    destruct (check (MScope s1) rec1 k P_ALLOCATE) as [rec2|] eqn:Hc2; [|discriminate].
    rewrite (check_scope_mono _ _ _ _ _ _ Hle Hc2). apply IH.
  - destruct (check (MScope s1) rec k P_WRITE) as [rec1|] eqn:Hc; [|discriminate].
    rewrite (check_scope_mono _ _ _ _ _ _ Hle Hc). apply IH.
Qed.

(* ------------------------------------------------------------------ a view over committed changes *)

Lemma d_get_app a b k : d_get (a ++ b) k = match d_get a k with Some r => Some r | None => d_get b k end.
Proof.
  induction a as [|[k' r] a IH]; cbn [d_get app]; [reflexivity|].
  destruct (bytes_eqb k' k); [reflexivity|exact IH].
Qed.

Lemma vis_app base d pend k : vis (vis base d) pend k = vis base (pend ++ d) k.
Proof.
  unfold vis. rewrite d_get_app. destruct (d_get pend k); reflexivity.
Qed.

Definition shift (d : diff) (r : option (bytes * diff * checks)) : option (bytes * diff * checks) :=
  match r with Some (o, pd, rc) => Some (o, pd ++ d, rc) | None => None end.

(* running on a view over the changes [d] = running with [d] below the pending changes (tstate: pending changes,
   then the changes committed to the TState, then the storage) *)
Lemma run_shift m base d p :
  forall pend rec, run m base p (pend ++ d) rec = shift d (run m (vis base d) p pend rec).
Proof.
  induction p as [o| |k c IH|k v c IH|k c IH]; intros pend rec; cbn [run shift].
  - reflexivity.
  - reflexivity.
  - destruct (check m rec k P_READ) as [rec1|]; [|reflexivity].
    rewrite vis_app. apply IH.
  - destruct (check m rec k P_WRITE) as [rec1|]; [|reflexivity].
    destruct (negb (verify_value k v)); [reflexivity|].
    rewrite vis_app. destruct (vis base (pend ++ d) k).
    + apply (IH ((k, Some v) :: pend)).
    + destruct (check m rec1 k P_ALLOCATE) as [rec2|]; [|reflexivity].
      apply (IH ((k, Some v) :: pend)).
  - destruct (check m rec k P_WRITE) as [rec1|]; [|reflexivity].
    apply (IH ((k, None) :: pend)).
Qed.

(* ------------------------------------------------------------------ (a) ExecuteActions vs (c) the transaction *)

Definition is_prefix_of {A} (a b : list A) : Prop := exists t, b = a ++ t.

Lemma exec_tx sc base :
  forall acts changed,
    (forall d p, In (d, p) acts -> scope_le (perm_of d) sc) ->
    (snd (run_exec base changed acts) = true ->
       run_tx sc base changed (map snd acts) = run_exec base changed acts)
    /\ is_prefix_of (fst (run_exec base changed acts)) (fst (run_tx sc base changed (map snd acts))).
Proof.
  induction acts as [|[d p] rest IH]; intros changed Hle; cbn [run_exec run_tx map snd].
  - split; [reflexivity|exists []; reflexivity].
  - destruct (run (MScope (perm_of d)) (vis base changed) p [] []) as [[[o pend] rec]|] eqn:Hr.
    + assert (Hd : scope_le (perm_of d) sc) by (apply (Hle d p); left; reflexivity).
      pose proof (run_mono _ _ _ _ Hd _ _ _ Hr) as Hr2.
      pose proof (run_shift (MScope sc) base changed p [] []) as Hs.
      rewrite Hr2 in Hs. cbn [shift app] in Hs. rewrite Hs.
      destruct (IH (pend ++ changed)) as [IH1 IH2].
      { intros d' p' Hin. apply (Hle d' p'). right. exact Hin. }
      destruct (run_exec base (pend ++ changed) rest) as [os ok] eqn:He.
      destruct (run_tx sc base (pend ++ changed) (map snd rest)) as [os' ok'] eqn:Ht.
      cbn [fst snd] in *. split.
      * intros Hok. specialize (IH1 Hok). injection IH1 as E1 E2. rewrite E1, E2. reflexivity.
      * destruct IH2 as [t Ht2]. exists t. rewrite Ht2. reflexivity.
    + cbn [fst snd]. split; [discriminate|]. eexists. reflexivity.
Qed.

Lemma scope_le_concat d ds : In d ds -> scope_le (perm_of d) (perm_of (concat ds)).
Proof.
  induction ds as [|d' ds IH]; intros Hin; [destruct Hin|]. cbn [concat].
  destruct Hin as [->|Hin].
  - apply scope_le_app_l.
  - eapply scope_le_trans; [apply IH, Hin|apply scope_le_app_r].
Qed.

(* ------------------------------------------------------------------ (c) the transaction vs (b) SimulateActions *)

Lemma perm_of_invalid l k : decl_valid l = true -> valid_key k = false -> perm_of l k = 0.
Proof.
  induction l as [|[k' p] l IH]; intros Hd Hk; [reflexivity|]. cbn [perm_of].
  unfold decl_valid in Hd. cbn [forallb fst] in Hd. apply andb_prop in Hd. destruct Hd as [Hk' Hd].
  destruct (bytes_eqb k' k) eqn:E.
  - apply bytes_eqb_eq in E. subst k'. rewrite Hk in Hk'. discriminate Hk'.
  - apply IH; assumption.
Qed.

(* a scope built by Keys.Add (Transaction.StateKeys) grants nothing on a key shorter than two bytes *)
Definition no_invalid (sc : key -> perm) : Prop := forall k, valid_key k = false -> sc k = 0.

Lemma check_invalid sc rec k q : no_invalid sc -> valid_key k = false -> q <> 0 -> check (MScope sc) rec k q = None.
Proof.
  intros Hn Hk Hq. cbn [check]. rewrite (Hn k Hk). unfold has. rewrite N.ldiff_0_r.
  destruct (N.eqb_spec q 0) as [E|_]; [contradiction|reflexivity].
Qed.

Lemma check_scope_valid sc rec k q rec1 :
  no_invalid sc -> q <> 0 -> check (MScope sc) rec k q = Some rec1 -> valid_key k = true.
Proof.
  intros Hn Hq Hc. destruct (valid_key k) eqn:Hk; [reflexivity|].
  rewrite (check_invalid sc rec k q Hn Hk Hq) in Hc. discriminate Hc.
Qed.

Lemma pr_nz : P_READ <> 0. Proof. discriminate. Qed.
Lemma pw_nz : P_WRITE <> 0. Proof. discriminate. Qed.
Lemma pa_nz : P_ALLOCATE <> 0. Proof. discriminate. Qed.

Lemma check_record rec k p : check MRecord rec k p = if valid_key k then Some ((k, p) :: rec) else None.
Proof. reflexivity. Qed.

(* the recording scope refuses only what every transaction scope refuses: whatever a run under a
   transaction's scope does, the recording run does *)
Lemma run_scope_record sc base p : no_invalid sc ->
  forall pend rec r0 o pend' rec', run (MScope sc) base p pend rec = Some (o, pend', rec') ->
    exists r1, run MRecord base p pend r0 = Some (o, pend', r1).
Proof.
  intros Hn.
  induction p as [o1| |k c IH|k v c IH|k c IH]; intros pend rec r0 o pend' rec'; cbn [run].
  - intros H; inversion H; subst. eexists; reflexivity.
  - discriminate.
  - destruct (check (MScope sc) rec k P_READ) as [rec1|] eqn:Hc; [|discriminate].
    rewrite check_record, (check_scope_valid sc rec k P_READ rec1 Hn pr_nz Hc). apply IH.
  - destruct (check (MScope sc) rec k P_WRITE) as [rec1|] eqn:Hc; [|discriminate].
    rewrite check_record, (check_scope_valid sc rec k P_WRITE rec1 Hn pw_nz Hc).
    destruct (negb (verify_value k v)); [discriminate|].
    destruct (vis base pend k); [apply IH|].
    destruct (check (MScope sc) rec1 k P_ALLOCATE) as [rec2|] eqn:Hc2; [|discriminate].
    rewrite check_record, (check_scope_valid sc rec1 k P_ALLOCATE rec2 Hn pa_nz Hc2). apply IH.
  - destruct (check (MScope sc) rec k P_WRITE) as [rec1|] eqn:Hc; [|discriminate].
    rewrite check_record, (check_scope_valid sc rec k P_WRITE rec1 Hn pw_nz Hc). apply IH.
Qed.

Lemma tx_sim sc base : no_invalid sc ->
  forall ps pend os, run_tx sc base pend ps = (os, true) ->
    exists rs, run_sim base pend ps = Some rs /\ map fst rs = os.
Proof.
  intros Hn.
  induction ps as [|p rest IH]; intros pend os; cbn [run_tx run_sim].
  - intros H; inversion H; subst. exists []. split; reflexivity.
  - destruct (run (MScope sc) base p pend []) as [[[o pend'] rec]|] eqn:Hr; [|discriminate].
    destruct (run_scope_record _ _ _ Hn _ _ [] _ _ _ Hr) as [r1 Hr1]. rewrite Hr1.
    destruct (run_tx sc base pend' rest) as [os' ok] eqn:Ht. intros H; inversion H; subst.
    destruct (IH _ _ Ht) as [rs [Hs Hm]]. rewrite Hs.
    exists ((o, r1) :: rs). split; [reflexivity|]. cbn [map fst]. rewrite Hm. reflexivity.
Qed.

(* ------------------------------------------------------------------ the handlers on the state a transaction's actions see *)

Lemma run_ext m b1 b2 p : (forall k, b1 k = b2 k) ->
  forall pend rec, run m b1 p pend rec = run m b2 p pend rec.
Proof.
  intros Hb. assert (Hv : forall pend k, vis b1 pend k = vis b2 pend k).
  { intros pend k. unfold vis. destruct (d_get pend k); [reflexivity|apply Hb]. }
  induction p as [o| |k c IH|k v c IH|k c IH]; intros pend rec; cbn [run].
  - reflexivity.
  - reflexivity.
  - destruct (check m rec k P_READ); [|reflexivity]. rewrite Hv. apply IH.
  - destruct (check m rec k P_WRITE) as [rec1|]; [|reflexivity].
    destruct (negb (verify_value k v)); [reflexivity|]. rewrite Hv.
    destruct (vis b2 pend k); [apply IH|].
    destruct (check m rec1 k P_ALLOCATE); [|reflexivity]. apply IH.
  - destruct (check m rec k P_WRITE); [|reflexivity]. apply IH.
Qed.

(* ExecuteActions on the state [vis base d] = the model's run_exec over base with [d] already committed *)
Lemma run_exec_vis base d :
  forall acts changed, run_exec (vis base d) changed acts = run_exec base (changed ++ d) acts.
Proof.
  induction acts as [|[dc p] rest IH]; intros changed; cbn [run_exec]; [reflexivity|].
  rewrite (run_ext _ (vis (vis base d) changed) (vis base (changed ++ d)) p (vis_app base d changed)).
  destruct (run (MScope (perm_of dc)) (vis base (changed ++ d)) p [] []) as [[[o pend] rec]|]; [|reflexivity].
  rewrite IH, app_assoc. reflexivity.
Qed.

Lemma run_sim_vis base d :
  forall ps pend, run_sim (vis base d) pend ps = run_sim base (pend ++ d) ps.
Proof.
  induction ps as [|p rest IH]; intros pend; cbn [run_sim]; [reflexivity|].
  rewrite (run_shift MRecord base d p pend []).
  destruct (run MRecord (vis base d) p pend []) as [[[o pend'] rec]|]; cbn [shift]; [|reflexivity].
  rewrite IH. reflexivity.
Qed.

(* --- C30, first sentence, ExecuteActions *)
Lemma execute_eq_tx extra base fee (acts : list (checks * prog)) :
  decl_valid (tx_scope extra (map fst acts)) = true ->
  let api := run_exec (vis base fee) [] acts in
  let tx := tx_run extra base fee acts in
  (snd api = true -> tx = api) /\ is_prefix_of (fst api) (fst tx).
Proof.
  intros Hv. cbn zeta. rewrite run_exec_vis. cbn [app]. unfold tx_run. rewrite Hv.
  apply exec_tx. intros d p Hin. unfold tx_scope.
  eapply scope_le_trans; [|apply scope_le_app_l].
  apply scope_le_concat. apply (in_map fst) in Hin. exact Hin.
Qed.

(* --- C30, first sentence, SimulateActions *)
Lemma simulate_eq_tx extra base fee (acts : list (checks * prog)) os :
  tx_run extra base fee acts = (os, true) ->
  exists rs, run_sim (vis base fee) [] (map snd acts) = Some rs /\ map fst rs = os.
Proof.
  unfold tx_run. destruct (decl_valid _) eqn:Hd; [|discriminate]. intros H.
  rewrite run_sim_vis. cbn [app]. eapply tx_sim; [|exact H].
  intros k Hk. apply perm_of_invalid; assumption.
Qed.

(* ------------------------------------------------------------------ (b) the simulated key sets are sufficient *)

Lemma bytes_eqb_refl k : bytes_eqb k k = true.
Proof. apply bytes_eqb_eq. reflexivity. Qed.

Lemma has_refl p : has p p = true.
Proof. apply has_spec. trivial. Qed.

Lemma perm_of_in l k q : In (k, q) l -> has (perm_of l k) q = true.
Proof.
  induction l as [|[k' p] l IH]; intros Hin; [destruct Hin|]. cbn [perm_of].
  destruct Hin as [E|Hin].
  - inversion E; subst. rewrite bytes_eqb_refl. apply has_lor_l, has_refl.
  - destruct (bytes_eqb k' k); [apply has_lor_r|]; apply IH, Hin.
Qed.

(* A successful recording run: the record grows by [new], every recorded key is valid, and a view whose scope
   grants every recorded check runs the action to the same result. *)
Lemma run_record_scope base p :
  forall pend rec o pend' rec',
    run MRecord base p pend rec = Some (o, pend', rec') ->
    exists new, rec' = new ++ rec
      /\ decl_valid new = true
      /\ forall sc r0, (forall k q, In (k, q) new -> has (sc k) q = true) ->
           run (MScope sc) base p pend r0 = Some (o, pend', r0).
Proof.
  induction p as [o1| |k c IH|k v c IH|k c IH]; intros pend rec o pend' rec'; cbn [run].
  - intros H. inversion H; subst. exists []. split; [reflexivity|]. split; [reflexivity|].
    intros sc r0 _. reflexivity.
  - discriminate.
  - rewrite check_record. destruct (valid_key k) eqn:Hk; [|discriminate]. intros Hr.
    destruct (IH _ _ _ _ _ _ Hr) as [new [E [Hdv Hrun]]].
    exists (new ++ [(k, P_READ)]). split; [rewrite <- app_assoc; exact E|]. split.
    { unfold decl_valid in *. rewrite forallb_app, Hdv. cbn [forallb fst]. rewrite Hk. reflexivity. }
    intros sc r0 Hsc. cbn [check].
    rewrite (Hsc k P_READ) by (apply in_or_app; right; left; reflexivity).
    apply Hrun. intros k' q Hin. apply Hsc. apply in_or_app. left. exact Hin.
  - rewrite check_record. destruct (valid_key k) eqn:Hk; [|discriminate]. intros Hr.
    destruct (verify_value k v); cbn [negb] in *; [|discriminate].
    destruct (vis base pend k) as [old|] eqn:Hvis.
    + destruct (IH _ _ _ _ _ Hr) as [new [E [Hdv Hrun]]].
      exists (new ++ [(k, P_WRITE)]). split; [rewrite <- app_assoc; exact E|]. split.
      { unfold decl_valid in *. rewrite forallb_app, Hdv. cbn [forallb fst]. rewrite Hk. reflexivity. }
      intros sc r0 Hsc. cbn [check].
      rewrite (Hsc k P_WRITE) by (apply in_or_app; right; left; reflexivity).
      apply Hrun. intros k' q Hin. apply Hsc. apply in_or_app. left. exact Hin.
    + rewrite check_record, Hk in Hr.
      destruct (IH _ _ _ _ _ Hr) as [new [E [Hdv Hrun]]].
      exists (new ++ [(k, P_ALLOCATE); (k, P_WRITE)]). split; [rewrite <- app_assoc; exact E|]. split.
      { unfold decl_valid in *. rewrite forallb_app, Hdv. cbn [forallb fst]. rewrite Hk. reflexivity. }
      intros sc r0 Hsc. cbn [check].
      rewrite (Hsc k P_WRITE) by (apply in_or_app; right; right; left; reflexivity).
      rewrite (Hsc k P_ALLOCATE) by (apply in_or_app; right; left; reflexivity).
      apply Hrun. intros k' q Hin. apply Hsc. apply in_or_app. left. exact Hin.
  - rewrite check_record. destruct (valid_key k) eqn:Hk; [|discriminate]. intros Hr.
    destruct (IH _ _ _ _ _ Hr) as [new [E [Hdv Hrun]]].
    exists (new ++ [(k, P_WRITE)]). split; [rewrite <- app_assoc; exact E|]. split.
    { unfold decl_valid in *. rewrite forallb_app, Hdv. cbn [forallb fst]. rewrite Hk. reflexivity. }
    intros sc r0 Hsc. cbn [check].
    rewrite (Hsc k P_WRITE) by (apply in_or_app; right; left; reflexivity).
    apply Hrun. intros k' q Hin. apply Hsc. apply in_or_app. left. exact Hin.
Qed.

Lemma sim_tx base :
  forall ps pend rs, run_sim base pend ps = Some rs ->
    length rs = length ps
    /\ decl_valid (concat (map snd rs)) = true
    /\ forall sc, (forall k q, In (k, q) (concat (map snd rs)) -> has (sc k) q = true) ->
         run_tx sc base pend ps = (map fst rs, true).
Proof.
  induction ps as [|p rest IH]; intros pend rs; cbn [run_sim run_tx].
  - intros H. inversion H; subst. split; [reflexivity|]. split; [reflexivity|]. intros sc _. reflexivity.
  - destruct (run MRecord base p pend []) as [[[o pend'] rec]|] eqn:Hr; [|discriminate].
    destruct (run_sim base pend' rest) as [rs'|] eqn:Hs; [|discriminate].
    intros H. inversion H; subst.
    destruct (run_record_scope _ _ _ _ _ _ _ Hr) as [new [E [Hdv Hrun]]].
    rewrite app_nil_r in E. subst rec.
    destruct (IH _ _ Hs) as [Hlen [Hdv' Htx]].
    cbn [map fst snd concat length]. split; [rewrite Hlen; reflexivity|]. split.
    { unfold decl_valid in *. rewrite forallb_app, Hdv, Hdv'. reflexivity. }
    intros sc Hsc. rewrite (Hrun sc []).
    + rewrite (Htx sc); [reflexivity|]. intros k q Hin. apply Hsc. apply in_or_app. right. exact Hin.
    + intros k q Hin. apply Hsc. apply in_or_app. left. exact Hin.
Qed.

Lemma map_fst_combine {A B} (a : list A) (b : list B) : length a = length b -> map fst (combine a b) = a.
Proof.
  revert b; induction a as [|x a IH]; intros [|y b] H; cbn [combine map fst]; try reflexivity; try discriminate H.
  cbn [length] in H. rewrite IH by (injection H as H; exact H). reflexivity.
Qed.

Lemma map_snd_combine {A B} (a : list A) (b : list B) : length a = length b -> map snd (combine a b) = b.
Proof.
  revert b; induction a as [|x a IH]; intros [|y b] H; cbn [combine map snd]; try reflexivity; try discriminate H.
  cbn [length] in H. rewrite IH by (injection H as H; exact H). reflexivity.
Qed.

(* --- C30, second sentence *)
Lemma simulate_sufficient extra base fee (ps : list prog) rs :
  run_sim (vis base fee) [] ps = Some rs ->
  decl_valid extra = true ->
  tx_run extra base fee (combine (map snd rs) ps) = (map fst rs, true).
Proof.
  rewrite run_sim_vis. cbn [app]. intros Hs Hx.
  destruct (sim_tx _ _ _ _ Hs) as [Hlen [Hdv Htx]].
  assert (Hl : length (map snd rs) = length ps) by (rewrite map_length; exact Hlen).
  unfold tx_run, tx_scope. rewrite (map_fst_combine _ _ Hl), (map_snd_combine _ _ Hl).
  unfold decl_valid in *. rewrite forallb_app, Hdv, Hx. cbn [andb].
  apply Htx. intros k q Hin. rewrite perm_of_app. apply has_lor_l, perm_of_in, Hin.
Qed.

(* ------------------------------------------------------------------ monotonicity, transaction level *)
Lemma run_tx_mono s1 s2 base : scope_le s1 s2 ->
  forall ps pend os, run_tx s1 base pend ps = (os, true) -> run_tx s2 base pend ps = (os, true).
Proof.
  intros Hle. induction ps as [|p rest IH]; intros pend os; cbn [run_tx]; [trivial|].
  destruct (run (MScope s1) base p pend []) as [[[o pend'] rec]|] eqn:Hr; [|discriminate].
  rewrite (run_mono _ _ _ _ Hle _ _ _ Hr).
  destruct (run_tx s1 base pend' rest) as [os' ok] eqn:Ht. intros H. injection H as E1 E2. subst ok.
  rewrite (IH _ _ Ht). rewrite E1. reflexivity.
Qed.

(* ------------------------------------------------------------------ the simulated key sets under ExecuteActions *)

(* each action's own simulated key set is sufficient for that action under the per-action scope of
   ExecuteActions (every check the action performed was recorded in its own set) *)
Lemma sim_exec base :
  forall ps pend rs, run_sim base pend ps = Some rs ->
    run_exec base pend (combine (map snd rs) ps) = (map fst rs, true).
Proof.
  induction ps as [|p rest IH]; intros pend rs; cbn [run_sim].
  - intros H. inversion H; subst. reflexivity.
  - destruct (run MRecord base p pend []) as [[[o pend'] rec]|] eqn:Hr; [|discriminate].
    destruct (run_sim base pend' rest) as [rs'|] eqn:Hs; [|discriminate].
    intros H. inversion H; subst.
    destruct (run_record_scope _ _ _ _ _ _ _ Hr) as [new [E [_ Hrun]]].
    rewrite app_nil_r in E. subst rec.
    cbn [map fst snd combine run_exec].
    pose proof (Hrun (perm_of new) [] (fun k q Hin => perm_of_in new k q Hin)) as Hsc.
    pose proof (run_shift (MScope (perm_of new)) base pend p [] []) as Hsh. cbn [app] in Hsh.
    rewrite Hsc in Hsh.
    destruct (run (MScope (perm_of new)) (vis base pend) p [] []) as [[[o2 pd] rc]|]; cbn [shift] in Hsh;
      [|discriminate Hsh].
    injection Hsh as E1 E2 E3. subst o2 pend'.
    rewrite (IH _ _ Hs). reflexivity.
Qed.

Lemma simulate_sufficient_execute base fee (ps : list prog) rs :
  run_sim (vis base fee) [] ps = Some rs ->
  run_exec (vis base fee) [] (combine (map snd rs) ps) = (map fst rs, true).
Proof.
  rewrite run_sim_vis, run_exec_vis. cbn [app]. apply sim_exec.
Qed.
