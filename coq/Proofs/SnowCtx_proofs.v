(* SnowCtx_proofs.v - C20 with a P-Chain block context: the context-aware system (cstep / cerun,
   Model/Snow.v, last section) is a thin layer over the context-free one (step / erun): a verify
   call whose context does not match is a stutter step, every other call is its [base] call.
   Hence every context-aware run projects to a context-free run with the same final state, the same
   engine bookkeeping and the same trace, and the C20 theorems carry over. *)
From Coq Require Import List NArith Bool Lia ZifyN ZifyNat ZifyBool.
Import ListNotations.
From HV Require Import Model.Snow Proofs.Snow_proofs.
Local Open Scope N_scope.

(* ------------------------------------------------------------------ one call *)
(* verifyWithContext either fails on the context check and touches nothing, or is Verify() *)
Lemma verify_ctx_spec c st tbl h v :
  (verify_ctx st tbl h v = (st, RErr eCtxMismatch, []) /\ s_ready st = true /\
   exists ob, nthN (s_objs st) h = Some ob /\ ctx_eqb v (lookup (o_id ob) tbl) = false)
  \/ (verify_ctx st tbl h v = step c st (OVerify h) /\
      forall e, snd (fst (step c st (OVerify h))) = RErr e -> e <> eCtxMismatch).
Proof.
  unfold verify_ctx. cbn [step].
  destruct (nthN (s_objs st) h) as [ob|] eqn:Eo.
  2:{ right. split; [reflexivity|]. cbn. intros e [= <-]. discriminate. }
  destruct (s_ready st) eqn:Er; cbn [negb].
  2:{ right. split; [reflexivity|]. cbn. intros e [=]. }
  destruct (o_verified ob) eqn:Ev.
  - destruct (ctx_eqb v (lookup (o_id ob) tbl)) eqn:Ec; cbn [negb].
    + right. split; [reflexivity|]. cbn. intros e [=].
    + left. split; [reflexivity|]. split; [reflexivity|]. exists ob. auto.
  - destruct (get_block st (parent st (o_id ob))) as [pr|] eqn:Eg.
    2:{ right. split; [reflexivity|]. cbn. intros e [= <-]. discriminate. }
    destruct (o_verified (ref_obj st pr)) eqn:Ep; cbn [negb].
    2:{ right. split; [reflexivity|]. cbn. intros e [= <-]. discriminate. }
    destruct (ctx_eqb v (lookup (o_id ob) tbl)) eqn:Ec; cbn [negb].
    + right. split; [reflexivity|]. destruct (invalid st (o_id ob)); cbn; intros e [=]. subst e. discriminate.
    + left. split; [reflexivity|]. split; [reflexivity|]. exists ob. auto.
Qed.

Lemma vcall_base co h v : vcall co = Some (h, v) -> base co = OVerify h.
Proof. destruct co as [o| | |]; cbn; try discriminate; [destruct o; cbn; try discriminate|]; intros [= <- <-]; reflexivity. Qed.

(* a call of the layered system: a stutter step reporting the mismatch, or the base call *)
Lemma cstep_spec c st tbl co cs' r evs :
  cstep c (st, tbl) co = (cs', r, evs) ->
  (is_mismatch co r = true /\ cs' = (st, tbl) /\ r = RErr eCtxMismatch /\ evs = [] /\ s_ready st = true
   /\ exists h, base co = OVerify h)
  \/ (is_mismatch co r = false /\ step c st (base co) = (fst cs', r, evs)).
Proof.
  unfold cstep. destruct (vcall co) as [[h v]|] eqn:Ec.
  - pose proof (vcall_base _ _ _ Ec) as Eb.
    destruct (verify_ctx_spec c st tbl h v) as [[E [Hr _]]|[E Hne]].
    + rewrite E. intros [= <- <- <-]. left. unfold is_mismatch. rewrite Ec. cbn.
      repeat split; try reflexivity; try exact Hr. exists h. exact Eb.
    + rewrite E, Eb. destruct (step c st (OVerify h)) as [[st' r'] evs'] eqn:Es. intros [= <- <- <-]. right.
      split; [|reflexivity]. unfold is_mismatch. rewrite Ec. destruct r'; try reflexivity.
      apply N.eqb_neq. apply Hne. reflexivity.
  - destruct (step c st (base co)) as [[st' r'] evs'] eqn:Es. intros [= <- <- <-]. right.
    split; [|reflexivity]. unfold is_mismatch. rewrite Ec. reflexivity.
Qed.

(* the engine records nothing for a failed verify *)
Lemma eupd_verify_err es h e evs : eupd es (OVerify h) (RErr e) evs = es.
Proof. reflexivity. Qed.

(* ------------------------------------------------------------------ simulation *)
Theorem cerun_project c Q : forall cops st tbl es cs' es' tr,
  cerun c Q (st, tbl) es cops = Some (cs', es', tr) ->
  erun c Q st es (project c (st, tbl) cops) = Some (fst cs', es', tr).
Proof.
  induction cops as [|co r IH]; intros st tbl es cs' es' tr HR.
  - cbn in HR. injection HR as <- <- <-. reflexivity.
  - cbn [cerun] in HR. destruct (eguard Q es (base co)) eqn:HG; [|discriminate].
    cbn [project].
    destruct (cstep c (st, tbl) co) as [[cs1 rs] evs] eqn:HS.
    destruct (cerun c Q cs1 (eupd es (base co) rs evs) r) as [[[cs2 es2] evss]|] eqn:HR2; [|discriminate].
    injection HR as <- <- <-.
    destruct (cstep_spec _ _ _ _ _ _ _ HS) as [(Hm & -> & -> & -> & _ & h & Eb)|(Hm & Es)]; rewrite Hm.
    + rewrite Eb, eupd_verify_err in HR2. cbn [app]. apply IH. exact HR2.
    + destruct cs1 as [st1 tbl1]. cbn [fst] in Es. cbn [app erun]. rewrite HG, Es.
      rewrite (IH _ _ _ _ _ _ HR2). reflexivity.
Qed.

Lemma no_sync_app a b : no_sync (a ++ b) = no_sync a && no_sync b.
Proof. unfold no_sync. apply forallb_app. Qed.

Lemma no_sync_project c : forall cops cs, no_sync (map base cops) = true -> no_sync (project c cs cops) = true.
Proof.
  induction cops as [|co r IH]; intros cs H; [reflexivity|].
  cbn [map] in H. change (base co :: map base r) with ([base co] ++ map base r) in H.
  rewrite no_sync_app in H. apply andb_true_iff in H. destruct H as [H1 H2].
  cbn [project]. destruct (cstep c cs co) as [[cs1 rs] evs]. rewrite no_sync_app, (IH _ H2), andb_true_r.
  destruct (is_mismatch co rs); [reflexivity | exact H1].
Qed.

(* the invariant of Snow_proofs holds along every context-aware run *)
Lemma inv_cerun c Q cops : 1 <= c_W c -> no_sync (map base cops) = true ->
  forall st tbl es tr cs' es' tr', Inv st es tr -> cerun c Q (st, tbl) es cops = Some (cs', es', tr') ->
  Inv (fst cs') es' (tr ++ tr').
Proof.
  intros HW Hns st tbl es tr cs' es' tr' HI HR.
  eapply inv_erun; [exact HW | apply (no_sync_project c cops (st, tbl)); exact Hns | exact HI | apply cerun_project; exact HR].
Qed.

(* ------------------------------------------------------------------ the C20 theorems for the layered system *)
Theorem lifecycle_props_ctx c Q cops cs es tr :
  c_ready c = true -> 1 <= c_W c -> no_sync (map base cops) = true ->
  cerun c Q (init_cstate c) (init_estate c) cops = Some (cs, es, tr) ->
  let T := init_events c ++ tr in
  verify_parents_ok es [0] T = true /\
  (exists pending, e_acc es = accepts T ++ pending /\ lenN pending = e_pending es) /\
  chain_from es 0 (e_acc es) = true /\ NoDup (e_acc es) /\
  (forall b, In b (e_acc es) -> ~ In b (e_rej es)) /\
  naccepted T = 0 :: accepts T /\ nrejected T = e_rej es /\ nverified T = verified_parsed es.
Proof.
  intros Hr HW Hns HR. unfold init_cstate in HR.
  eapply lifecycle_props_all_runs; [exact Hr | exact HW | apply (no_sync_project c cops (init_state c, [])); exact Hns |].
  apply cerun_project in HR. exact HR.
Qed.

Theorem lifecycle_ctx c Q cops cs es tr :
  c_ready c = true -> 1 <= c_W c -> no_sync (map base cops) = true ->
  cerun c Q (init_cstate c) (init_estate c) cops = Some (cs, es, tr) ->
  lifecycle_b (init_events c ++ tr) es = true.
Proof.
  intros Hr HW Hns HR. unfold init_cstate in HR.
  eapply lifecycle_all_runs; [exact Hr | exact HW | apply (no_sync_project c cops (init_state c, [])); exact Hns |].
  apply cerun_project in HR. exact HR.
Qed.

Theorem lookup_ctx c Q cops cs es tr co :
  c_ready c = true -> 1 <= c_W c -> no_sync (map base cops) = true ->
  cerun c Q (init_cstate c) (init_estate c) cops = Some (cs, es, tr) ->
  lookup_ok es (base co) (snd (fst (cstep c cs co))) = true.
Proof.
  intros Hr HW Hns HR. unfold init_cstate in HR. destruct cs as [st tbl].
  destruct (cstep c (st, tbl) co) as [[cs1 rs] evs] eqn:HS. cbn [fst snd].
  destruct (cstep_spec _ _ _ _ _ _ _ HS) as [(_ & _ & -> & _ & _ & h & Eb)|(_ & Es)].
  - rewrite Eb. reflexivity.
  - pose proof (lookup_all_runs c Q _ st es tr (base co) Hr HW
                  (no_sync_project c cops (init_state c, []) Hns) (cerun_project _ _ _ _ _ _ _ _ _ HR)) as H.
    rewrite Es in H. exact H.
Qed.

(* ------------------------------------------------------------------ notifications, call by call *)
Lemma notif_ok_inv c Q st es tr o st' r evs :
  1 <= c_W c -> Inv st es tr -> sync_op o = false -> eguard Q es o = true ->
  step c st o = (st', r, evs) -> notif_ok es o r evs = true.
Proof.
  intros HW HI Hs HG HS.
  pose proof (inv_step _ _ _ _ _ _ _ _ _ HW HI Hs HG HS) as HI'.
  unfold notif_ok. apply andb_true_iff. split; apply eqb_listN_eq.
  - rewrite <- (i_nver _ _ _ HI), <- (i_nver _ _ _ HI'), nverified_app. reflexivity.
  - rewrite <- (i_nrej _ _ _ HI), <- (i_nrej _ _ _ HI'), nrejected_app. reflexivity.
Qed.

Lemma notif_ok_stutter es h : notif_ok es (OVerify h) (RErr eCtxMismatch) [] = true.
Proof.
  unfold notif_ok. rewrite eupd_verify_err. cbn [nverified nrejected flat_map]. rewrite !app_nil_r, !eqb_listN_refl. reflexivity.
Qed.

Lemma notif_ok_cstep c Q st tbl es tr co cs' r evs :
  1 <= c_W c -> Inv st es tr -> sync_op (base co) = false -> eguard Q es (base co) = true ->
  cstep c (st, tbl) co = (cs', r, evs) -> notif_ok es (base co) r evs = true.
Proof.
  intros HW HI Hs HG HS.
  destruct (cstep_spec _ _ _ _ _ _ _ HS) as [(_ & _ & -> & -> & _ & h & Eb)|(_ & Es)].
  - rewrite Eb. apply notif_ok_stutter.
  - eapply notif_ok_inv; eauto.
Qed.

Lemma inv_cstep c Q st tbl es tr co cs' r evs :
  1 <= c_W c -> Inv st es tr -> sync_op (base co) = false -> eguard Q es (base co) = true ->
  cstep c (st, tbl) co = (cs', r, evs) -> Inv (fst cs') (eupd es (base co) r evs) (tr ++ evs).
Proof.
  intros HW HI Hs HG HS.
  destruct (cstep_spec _ _ _ _ _ _ _ HS) as [(_ & -> & -> & -> & _ & h & Eb)|(_ & Es)].
  - rewrite Eb, eupd_verify_err, app_nil_r. exact HI.
  - eapply inv_step; eauto.
Qed.

Lemma notifs_ok_inv c Q : 1 <= c_W c -> forall cops st tbl es tr cs' es' tr',
  no_sync (map base cops) = true -> Inv st es tr ->
  cerun c Q (st, tbl) es cops = Some (cs', es', tr') ->
  notifs_ok es (map base cops) (crun_obs c (st, tbl) cops) = true.
Proof.
  intros HW. induction cops as [|co r IH]; intros st tbl es tr cs' es' tr' Hns HI HR; [reflexivity|].
  cbn [map] in Hns. apply no_sync_cons in Hns. destruct Hns as [Hs Hns].
  cbn [cerun] in HR. destruct (eguard Q es (base co)) eqn:HG; [|discriminate].
  cbn [map crun_obs notifs_ok].
  destruct (cstep c (st, tbl) co) as [[cs1 rs] evs] eqn:HS.
  destruct (cerun c Q cs1 (eupd es (base co) rs evs) r) as [[[cs2 es2] evss]|] eqn:HR2; [|discriminate].
  cbn [notifs_ok]. apply andb_true_iff. split.
  - eapply notif_ok_cstep; eauto.
  - pose proof (inv_cstep _ _ _ _ _ _ _ _ _ _ HW HI Hs HG HS) as HI1. destruct cs1 as [st1 tbl1].
    eapply IH; [exact Hns | exact HI1 | exact HR2].
Qed.

Theorem notifs_ctx c Q cops cs es tr :
  c_ready c = true -> 1 <= c_W c -> no_sync (map base cops) = true ->
  cerun c Q (init_cstate c) (init_estate c) cops = Some (cs, es, tr) ->
  notifs_ok (init_estate c) (map base cops) (crun_obs c (init_cstate c) cops) = true.
Proof.
  intros Hr HW Hns HR. unfold init_cstate in *.
  eapply notifs_ok_inv; [exact HW | exact Hns | apply inv_init; exact Hr | exact HR].
Qed.

(* after any run, one more call: its notifications are the engine's decisions for that call *)
Theorem notif_ctx c Q cops cs es tr co :
  c_ready c = true -> 1 <= c_W c -> no_sync (map base cops) = true ->
  cerun c Q (init_cstate c) (init_estate c) cops = Some (cs, es, tr) ->
  sync_op (base co) = false -> eguard Q es (base co) = true ->
  notif_ok es (base co) (snd (fst (cstep c cs co))) (snd (cstep c cs co)) = true.
Proof.
  intros Hr HW Hns HR Hs HG. destruct cs as [st tbl].
  destruct (cstep c (st, tbl) co) as [[cs1 rs] evs] eqn:HS. cbn [fst snd].
  eapply notif_ok_cstep; [exact HW | | exact Hs | exact HG | exact HS].
  apply (inv_cerun c Q cops HW Hns (init_state c) [] (init_estate c) (init_events c) (st, tbl) es tr).
  - apply inv_init. exact Hr.
  - exact HR.
Qed.

(* ------------------------------------------------------------------ what a mismatching context does (any state) *)
(* the context check fails => no callback, no notification, nothing changed (in particular the block
   object stays unverified and is not entered into verifiedBlocks) *)
Theorem mismatch_silent c cs co cs' evs :
  cstep c cs co = (cs', RErr eCtxMismatch, evs) -> vcall co <> None -> cs' = cs /\ evs = [].
Proof.
  destruct cs as [st tbl]. intros HS Hv.
  destruct (cstep_spec _ _ _ _ _ _ _ HS) as [(_ & -> & _ & -> & _)|(Hm & _)]; [auto|].
  unfold is_mismatch in Hm. destruct (vcall co); [|congruence]. cbn in Hm. discriminate.
Qed.

(* in normal operation a verify call whose context differs from the block's inner context never
   succeeds and never reaches the chain: it returns an error, makes no callback and changes nothing *)
Theorem mismatch_rejected c st tbl co h v ob :
  vcall co = Some (h, v) -> s_ready st = true -> nthN (s_objs st) h = Some ob ->
  ctx_eqb v (lookup (o_id ob) tbl) = false ->
  exists e, cstep c (st, tbl) co = ((st, tbl), RErr e, []).
Proof.
  intros Ec Hr Eo Hc. unfold cstep. rewrite Ec. unfold verify_ctx. rewrite Eo, Hr. cbn [negb].
  destruct (o_verified ob).
  - rewrite Hc. cbn [negb]. eexists. reflexivity.
  - destruct (get_block st (parent st (o_id ob))) as [pr|]; [|eexists; reflexivity].
    destruct (o_verified (ref_obj st pr)); cbn [negb]; [|eexists; reflexivity].
    rewrite Hc. cbn [negb]. eexists. reflexivity.
Qed.

(* a matching context (and any context during dynamic state sync): exactly Verify() of the
   context-free model *)
Theorem match_is_verify c st tbl co h v :
  vcall co = Some (h, v) ->
  (s_ready st = false \/ forall ob, nthN (s_objs st) h = Some ob -> ctx_eqb v (lookup (o_id ob) tbl) = true) ->
  cstep c (st, tbl) co = (let '(st', r, evs) := step c st (OVerify h) in ((st', tbl), r, evs)).
Proof.
  intros Ec H. unfold cstep. rewrite Ec.
  destruct (verify_ctx_spec c st tbl h v) as [[_ [Hr [ob [Eo Hc]]]]|[E _]].
  - destruct H as [H|H]; [congruence|]. rewrite (H _ Eo) in Hc. discriminate.
  - rewrite E. reflexivity.
Qed.

(* retry: after a failed context check the next verify call on the same object behaves as if the
   failed one had never been made (with the right context: as a first verification) *)
Theorem retry_after_mismatch c cs co1 co2 cs1 evs1 :
  vcall co1 <> None -> cstep c cs co1 = (cs1, RErr eCtxMismatch, evs1) ->
  cstep c cs1 co2 = cstep c cs co2.
Proof.
  intros Hv HS. destruct (mismatch_silent _ _ _ _ _ HS Hv) as [-> _]. reflexivity.
Qed.

(* ------------------------------------------------------------------ the context check seen from the engine *)
Lemma cstep_tbl c st tbl co st' tbl' r evs :
  cstep c (st, tbl) co = ((st', tbl'), r, evs) ->
  tbl' = match new_ctx co with
         | Some x => if lenN (s_blocks st) <? lenN (s_blocks st') then (lenN (s_blocks st), x) :: tbl else tbl
         | None => tbl
         end.
Proof.
  unfold cstep. destruct (vcall co) as [[h v]|] eqn:Ec.
  - destruct (verify_ctx st tbl h v) as [[st1 r1] evs1]. intros [= <- <- <- <-].
    destruct co as [o| | |]; cbn in Ec |- *; try discriminate; reflexivity.
  - destruct (step c st (base co)) as [[st1 r1] evs1]. intros [= <- <- <- <-]. reflexivity.
Qed.

Lemma ctx_call_ok_inv c st tbl es tr co cs' r evs :
  Inv st es tr -> cstep c (st, tbl) co = (cs', r, evs) -> ctx_call_ok es tbl co r evs = true.
Proof.
  intros HI HS. unfold ctx_call_ok. destruct (vcall co) as [[h v]|] eqn:Ec; [|reflexivity].
  destruct (lookup h (e_hid es)) as [b|] eqn:Eh; [|reflexivity].
  destruct (i_hid _ _ _ HI _ _ Eh) as [vf Ho].
  unfold oiv in Ho. destruct (nthN (s_objs st) h) as [ob|] eqn:Eo; [|discriminate]. cbn in Ho. injection Ho as Hb _.
  rewrite (i_eready _ _ _ HI). cbn [andb].
  destruct (ctx_eqb v (lookup b tbl)) eqn:Hc; cbn [negb].
  - (* matching context: never reported as a mismatch *)
    unfold cstep in HS. rewrite Ec in HS.
    destruct (verify_ctx_spec c st tbl h v) as [[_ [_ [ob' [Eo' Hc']]]]|[E Hne]].
    + rewrite Eo in Eo'. injection Eo' as <-. rewrite Hb, Hc in Hc'. discriminate.
    + rewrite E in HS. destruct (step c st (OVerify h)) as [[st1 r1] evs1]. injection HS as _ <- _.
      destruct r1; try reflexivity. apply negb_true_iff, N.eqb_neq, Hne. reflexivity.
  - subst b. destruct (mismatch_rejected c st tbl co h v ob Ec (i_ready _ _ _ HI) Eo Hc) as [e E].
    rewrite E in HS. injection HS as _ <- <-. reflexivity.
Qed.

Lemma ctxs_ok_inv c Q : 1 <= c_W c -> forall cops st tbl es tr cs' es' tr',
  no_sync (map base cops) = true -> Inv st es tr ->
  cerun c Q (st, tbl) es cops = Some (cs', es', tr') ->
  ctxs_ok es tbl cops (crun_obs c (st, tbl) cops) = true.
Proof.
  intros HW. induction cops as [|co r IH]; intros st tbl es tr cs' es' tr' Hns HI HR; [reflexivity|].
  cbn [map] in Hns. apply no_sync_cons in Hns. destruct Hns as [Hs Hns].
  cbn [cerun] in HR. destruct (eguard Q es (base co)) eqn:HG; [|discriminate].
  cbn [crun_obs].
  destruct (cstep c (st, tbl) co) as [[cs1 rs] evs] eqn:HS.
  destruct (cerun c Q cs1 (eupd es (base co) rs evs) r) as [[[cs2 es2] evss]|] eqn:HR2; [|discriminate].
  cbn [ctxs_ok]. apply andb_true_iff. split.
  - eapply ctx_call_ok_inv; eauto.
  - pose proof (inv_cstep _ _ _ _ _ _ _ _ _ _ HW HI Hs HG HS) as HI1. destruct cs1 as [st1 tbl1]. cbn [fst] in HI1.
    rewrite (cstep_tbl _ _ _ _ _ _ _ _ HS) in HR2 |- *.
    unfold etbl_upd. rewrite <- (i_blocks _ _ _ HI), <- (i_blocks _ _ _ HI1).
    eapply IH; [exact Hns | exact HI1 | exact HR2].
Qed.

Theorem ctxs_ctx c Q cops cs es tr :
  c_ready c = true -> 1 <= c_W c -> no_sync (map base cops) = true ->
  cerun c Q (init_cstate c) (init_estate c) cops = Some (cs, es, tr) ->
  ctxs_ok (init_estate c) [] cops (crun_obs c (init_cstate c) cops) = true.
Proof.
  intros Hr HW Hns HR. unfold init_cstate in *.
  eapply ctxs_ok_inv; [exact HW | exact Hns | apply inv_init; exact Hr | exact HR].
Qed.
