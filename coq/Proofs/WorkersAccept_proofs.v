(* WorkersAccept_proofs.v — soundness of the trace-inclusion acceptor of Model/WorkersAccept.v:
   an accepted observed trace is the visible part of a run of the instrumented LTS, whose label part is a run
   ([steps]) of the LTS Model/Workers.v that the C26 theorems quantify over. *)
From Coq Require Import List NArith Bool Arith Lia.
Import ListNotations.
From HV Require Import Model.Workers Model.WorkersAccept Proofs.Workers_proofs.

Lemma ostamp_s : forall c o e o', ostamp c o e = Some o' -> o_s o' = o_s o.
Proof.
  intros c o e o' H. unfold ostamp in H.
  destruct e; cbn beta iota in H;
    repeat match type of H with
           | Some _ = Some _ => injection H as <-; reflexivity
           | None = Some _ => discriminate H
           | context [match ?x with _ => _ end] => destruct x
           end.
Qed.

Lemma after_label_s : forall o l s', o_s (after_label o l s') = s'.
Proof. intros o l s'. unfold after_label. destruct l, (o_cl o); reflexivity. Qed.

Lemma ostep_label : forall c o l o', ostep c o (IL l) = Some o' ->
  client_ok (o_s o) l = true /\ step c (o_s o) l = Some (o_s o').
Proof.
  intros c o l o' H. cbn [ostep] in H.
  destruct (guard_label o l); cbn [andb] in H; [|discriminate].
  destruct (client_ok (o_s o) l); [|discriminate].
  destruct (step c (o_s o) l) as [s'|]; [|discriminate].
  injection H as <-. now rewrite after_label_s.
Qed.

Lemma orun_steps : forall c its o o', orun c o its = Some o' -> steps c (o_s o) (labels_of its) (o_s o').
Proof.
  intros c its. induction its as [|it its IH]; intros o o' H; cbn [orun] in H.
  - injection H as <-. constructor.
  - destruct (ostep c o it) as [o1|] eqn:Hs; [|discriminate]. specialize (IH _ _ H).
    destruct it as [l|e].
    + destruct (ostep_label _ _ _ _ Hs) as [Hc Hst].
      change (labels_of (IL l :: its)) with (l :: labels_of its). eapply steps_cons; eauto.
    + cbn [ostep] in Hs. apply ostamp_s in Hs. change (labels_of (IO e :: its)) with (labels_of its).
      now rewrite <- Hs.
Qed.

Lemma oev_eqb_eq : forall a b, oev_eqb a b = true -> a = b.
Proof.
  intros a b H. destruct a, b; cbn [oev_eqb] in H; try discriminate; try reflexivity;
    repeat match type of H with
           | _ && _ = true => apply andb_prop in H; destruct H as [H ?]
           end;
    repeat match goal with
           | X : Nat.eqb _ _ = true |- _ => apply Nat.eqb_eq in X; subst
           | X : Bool.eqb _ _ = true |- _ => apply eqb_prop in X; subst
           | X : N.eqb _ _ = true |- _ => apply N.eqb_eq in X; subst
           end; reflexivity.
Qed.

Lemma oevs_eqb_eq : forall a b, oevs_eqb a b = true -> a = b.
Proof.
  induction a as [|x a IH]; intros [|y b] H; cbn [oevs_eqb] in H; try discriminate; [reflexivity|].
  apply andb_prop in H. destruct H as [H1 H2]. apply oev_eqb_eq in H1. apply IH in H2. now subst.
Qed.

(* a run of the instrumented LTS from its initial state, its visible part, and the LTS run under it *)
Definition obs_run (c : cfg) (its : list item) (o : ost) : Prop := orun c oinit its = Some o.

Lemma accepts_with_sound : forall c its evs, accepts_with c its evs = true ->
  exists o, obs_run c its o /\ obs_of its = evs /\ steps c init (labels_of its) (o_s o).
Proof.
  intros c its evs H. unfold accepts_with in H. destruct (orun c oinit its) as [o|] eqn:Hr; [|discriminate].
  exists o. split; [exact Hr|]. split; [now apply oevs_eqb_eq|]. exact (orun_steps _ _ _ _ Hr).
Qed.

Theorem accepts_sound : forall c evs, accepts c evs = true ->
  exists its o, obs_run c its o /\ obs_of its = evs /\ steps c init (labels_of its) (o_s o).
Proof.
  intros c evs H. unfold accepts in H. destruct (plan c evs) as [its|]; [|discriminate].
  exists its. now apply accepts_with_sound.
Qed.
Print Assumptions accepts_sound.

(* ---- every stamp is backed by the LTS's own event log at the moment it is taken -------------------------- *)
(* [log] is the ghost log the C26 theorems speak about; [backed c o e]: what the log of the LTS state must already
   contain when the driver stamps e *)
Definition backed (c : cfg) (o : ost) (e : oev) : Prop :=
  let l := log (o_s o) in
  match e with
  | OBeg j i => exists t, tm_find j i (o_tm o) = Some t /\ In (EvBegin t) l
  | OEnd j i ok => exists t, tm_find j i (o_tm o) = Some t /\ In (EvBegin t) l /\ ok = negb (c_fail c t)
  | OWait j r => exists a v, jm_find j (o_jm o) = Some a /\ In (EvResult a v) l /\ res_code o j v = Some r
  | OCallback j => exists a v, jm_find j (o_jm o) = Some a /\ In (EvResult a v) l /\ v <> RShutdown
  | OStopRet => In EvStopRet l
  | OSeenShut => In EvStop l
  | _ => True
  end.

Lemma ostamp_backed : forall c o e o', Inv c (o_s o) -> ostamp c o e = Some o' -> backed c o e.
Proof.
  intros c o e o' HI H. unfold ostamp in H. destruct e; cbn [backed]; try exact I.
  - (* OBeg *)
    destruct (tm_find j i (o_tm o)) as [t|]; [|discriminate]. exists t. split; [reflexivity|].
    destruct (is_trun (tph (o_s o) t)) eqn:Ht; [|discriminate].
    apply (begin_in_iff _ _ t HI). destruct (tph (o_s o) t); try discriminate. reflexivity.
  - (* OEnd *)
    destruct (tm_find j i (o_tm o)) as [t|]; [|discriminate]. exists t. split; [reflexivity|].
    destruct (is_trun (tph (o_s o) t)) eqn:Ht; [|discriminate]. cbn [andb] in H.
    destruct (mem t (o_beg o)); [|discriminate]. cbn [andb] in H.
    destruct (negb (mem t (o_end o))); [|discriminate]. cbn [andb] in H.
    destruct (Bool.eqb ok (negb (c_fail c t))) eqn:Hok; [|discriminate]. split.
    + apply (begin_in_iff _ _ t HI). destruct (tph (o_s o) t); try discriminate. reflexivity.
    + now apply eqb_prop.
  - (* OCallback *)
    destruct (jm_find j (o_jm o)) as [a|]; [|discriminate].
    destruct (jresult (jobs (o_s o) a)) as [v|] eqn:Hr; [|discriminate].
    exists a, v. split; [reflexivity|]. split; [now apply (l_res _ _ HI)|].
    destruct v; cbn in H; try discriminate; intros Hv; discriminate.
  - (* OWait *)
    destruct (jm_find j (o_jm o)) as [a|]; [|discriminate].
    destruct (jresult (jobs (o_s o) a)) as [v|] eqn:Hr; [|discriminate].
    exists a, v. split; [reflexivity|]. split; [now apply (l_res _ _ HI)|].
    destruct (is_cidle (o_cl o)); [|discriminate]. cbn [andb] in H.
    unfold opt_eqb in H. destruct (res_code o j v) as [x|]; [|discriminate].
    destruct (N.eqb x r) eqn:Hx; [|discriminate]. apply N.eqb_eq in Hx. now subst.
  - (* OStopRet *)
    destruct (is_sret (stop (o_s o))) eqn:Hs; [|discriminate]. apply (l_stopret _ _ HI).
    destruct (stop (o_s o)); try discriminate. reflexivity.
  - (* OSeenShut *)
    destruct (shutdown (o_s o)) eqn:Hs; [|discriminate]. now apply (l_stop _ _ HI).
Qed.

Lemma orun_app_inv : forall c a b o o', orun c o (a ++ b) = Some o' ->
  exists o1, orun c o a = Some o1 /\ orun c o1 b = Some o'.
Proof.
  intros c a. induction a as [|it a IH]; intros b o o' H.
  - exists o. split; [reflexivity|exact H].
  - cbn [app orun] in H |- *. destruct (ostep c o it) as [o2|]; [|discriminate]. now apply IH.
Qed.

(* In a run of the instrumented LTS every observed event is stamped in an LTS state whose log already contains
   the model events it reports: a begin/end stamp of a task follows the task's EvBegin, a Wait result (and the
   Done callback) follows the job's EvResult with that very result, Stop's return follows EvStopRet, a seen
   shutdown flag follows EvStop.  (The state at the stamp is itself reached by a run of the LTS.) *)
Theorem obs_backed : forall c its o, c_fixed c = true -> obs_run c its o ->
  forall its1 e its2, its = its1 ++ IO e :: its2 ->
  exists o1, obs_run c its1 o1 /\ steps c init (labels_of its1) (o_s o1) /\ backed c o1 e.
Proof.
  intros c its o Hf Hr its1 e its2 ->. unfold obs_run in Hr.
  destruct (orun_app_inv _ _ _ _ _ Hr) as (o1 & H1 & H2). exists o1.
  pose proof (orun_steps _ _ _ _ H1) as Hst. split; [exact H1|]. split; [exact Hst|].
  cbn [orun ostep] in H2. destruct (ostamp c o1 e) as [o2|] eqn:Hs; [|discriminate].
  eapply ostamp_backed; [|exact Hs]. apply Inv_reachable; [exact Hf|]. exists (labels_of its1). exact Hst.
Qed.
Print Assumptions obs_backed.
