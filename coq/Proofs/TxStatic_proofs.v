(* Proofs about the static pre-execution checks (C10). *)
From Coq Require Import List ZArith NArith Bool Lia ZifyN ZifyNat ZifyBool.
Import ListNotations.
From HV Require Import Lib.Bytes Model.TxStatic.
Local Open Scope Z_scope.

(* ---- the property's vocabulary ----------------------------------------------------------- *)

(* "activated at timestamp t": each bound is absent (negative sentinel, -1 in practice) or respected *)
Definition activated (t : Z) (v : vrange) : Prop :=
  (v_start v < 0 \/ v_start v <= t) /\ (v_end v < 0 \/ t <= v_end v).

Definition whole_second (e : Z) : Prop := e mod 1000 = 0.

Definition interval_ok (r : srules) (tx : stx) (t : Z) : Prop :=
  s_chain tx = r_chain r /\ whole_second (s_expiry tx) /\ t <= s_expiry tx <= t + r_window r.

Definition count_ok (r : srules) (tx : stx) : Prop :=
  (N.of_nat (length (s_actions tx)) <= r_max_actions r)%N.

Definition executable (r : srules) (tx : stx) (t : Z) : Prop :=
  whole_second (s_expiry tx) /\ t <= s_expiry tx <= t + r_window r /\ s_chain tx = r_chain r /\
  count_ok r tx /\ Forall (activated t) (s_actions tx) /\ activated t (s_auth tx).

(* ---- arithmetic -------------------------------------------------------------------------- *)

Lemma wrap64_id z : in_i64 z -> wrap64 z = z.
Proof.
  unfold in_i64, MinI64, MaxI64, wrap64. intros H.
  rewrite Z.mod_small by lia. lia.
Qed.

(* a sum of two int64 values that exceeds MaxInt64 wraps to a smaller (negative) value *)
Lemma wrap64_over z : MaxI64 < z <= 2 * MaxI64 + 1 -> wrap64 z = z - 18446744073709551616.
Proof.
  unfold MaxI64, wrap64. intros H.
  replace (z + 9223372036854775808) with ((z - 9223372036854775808) + 1 * 18446744073709551616) by lia.
  rewrite Z.mod_add by lia. rewrite Z.mod_small by lia. lia.
Qed.

Lemma wrap64_le_sum t W : in_i64 t -> in_i64 W -> 0 <= W -> wrap64 (t + W) <= t + W.
Proof.
  intros Ht HW H0. destruct (Z_le_gt_dec (t + W) MaxI64) as [Hle|Hgt].
  - rewrite wrap64_id; [lia|]. unfold in_i64, MinI64, MaxI64 in *. lia.
  - rewrite wrap64_over; [lia|]. unfold in_i64, MinI64, MaxI64 in *. lia.
Qed.

Lemma rem1000_zero_iff e : Z.rem e 1000 = 0 <-> whole_second e.
Proof.
  unfold whole_second. rewrite Z.rem_divide by lia. rewrite Z.mod_divide by lia. tauto.
Qed.

Lemma range_fails_false_iff t v : range_fails t v = false <-> activated t v.
Proof. unfold range_fails, activated. lia. Qed.

Lemma existsb_fails_false_iff t l : existsb (range_fails t) l = false <-> Forall (activated t) l.
Proof.
  induction l as [|v l IH]; cbn [existsb].
  - split; [constructor | reflexivity].
  - rewrite orb_false_iff, IH, range_fails_false_iff. split.
    + intros [H1 H2]. constructor; assumption.
    + intros H. inversion H; subst. split; assumption.
Qed.

(* closes a conjunction of goals [const = const <-> P] from the facts in the context *)
Ltac cls_fact :=
  first [ discriminate | reflexivity | assumption | tauto | lia ].
Ltac cls_iff :=
  split;
  [ first [ discriminate | intros _; repeat split; cls_fact ]
  | first [ intros _; reflexivity
          | let H := fresh "Habs" in intros H; exfalso; first [ tauto | lia ] ] ].
Ltac classify :=
  repeat match goal with |- (_ <-> _) /\ _ => split end;
  try cls_iff; try tauto.

(* ---- VerifyTimestamp --------------------------------------------------------------------- *)

Lemma verify_timestamp_class e t W :
  in_i64 (t + W) ->
  let res := verify_timestamp e t TimestampDivisor W in
  (res = E_MISALIGNED <-> ~ whole_second e) /\
  (res = E_EXPIRED <-> whole_second e /\ e < t) /\
  (res = E_FUTURE <-> whole_second e /\ t <= e /\ t + W < e) /\
  (res = E_OK <-> whole_second e /\ t <= e <= t + W) /\
  (res = E_MISALIGNED \/ res = E_EXPIRED \/ res = E_FUTURE \/ res = E_OK).
Proof.
  intros Hsum. cbn zeta. unfold verify_timestamp, TimestampDivisor.
  rewrite (wrap64_id _ Hsum).
  pose proof (rem1000_zero_iff e) as Hal.
  destruct (Z.eqb_spec (Z.rem e 1000) 0) as [Hr|Hr]; cbn [negb].
  - assert (Ha : whole_second e) by (apply Hal; exact Hr).
    destruct (Z.ltb_spec e t) as [Hlt|Hge].
    + unfold E_MISALIGNED, E_EXPIRED, E_FUTURE, E_OK.
      classify.
    + destruct (Z.gtb_spec e (t + W)) as [Hgt|Hle].
      * unfold E_MISALIGNED, E_EXPIRED, E_FUTURE, E_OK.
        classify.
      * unfold E_MISALIGNED, E_EXPIRED, E_FUTURE, E_OK.
        classify.
  - assert (Ha : ~ whole_second e) by (intros Hw; apply Hr; apply Hal; exact Hw).
    unfold E_MISALIGNED, E_EXPIRED, E_FUTURE, E_OK.
    classify.
Qed.

(* Without the no-overflow hypothesis: acceptance still implies the mathematical interval
   (for a non-negative window), i.e. int64 overflow of t + W can only reject. *)
Lemma verify_timestamp_ok_sound e t W :
  in_i64 t -> in_i64 W -> 0 <= W ->
  verify_timestamp e t TimestampDivisor W = E_OK ->
  whole_second e /\ t <= e <= t + W.
Proof.
  intros Ht HW H0. unfold verify_timestamp, TimestampDivisor.
  pose proof (rem1000_zero_iff e) as Hal.
  pose proof (wrap64_le_sum t W Ht HW H0) as Hw.
  destruct (Z.eqb_spec (Z.rem e 1000) 0) as [Hr|Hr]; cbn [negb]; [|discriminate].
  destruct (Z.ltb_spec e t) as [Hlt|Hge]; [discriminate|].
  destruct (Z.gtb_spec e (wrap64 (t + W))) as [Hgt|Hle]; [discriminate|].
  intros _. split; [apply Hal; exact Hr | lia].
Qed.

(* ---- PreExecute -------------------------------------------------------------------------- *)

Lemma pre_execute_static_class r tx t :
  in_i64 (t + r_window r) ->
  let res := pre_execute_static r tx t in
  let e := s_expiry tx in
  (res = E_CHAIN <-> s_chain tx <> r_chain r) /\
  (res = E_MISALIGNED <-> s_chain tx = r_chain r /\ ~ whole_second e) /\
  (res = E_EXPIRED <-> s_chain tx = r_chain r /\ whole_second e /\ e < t) /\
  (res = E_FUTURE <-> s_chain tx = r_chain r /\ whole_second e /\ t <= e /\ t + r_window r < e) /\
  (res = E_TOO_MANY <-> interval_ok r tx t /\ ~ count_ok r tx) /\
  (res = E_ACTION_NA <-> interval_ok r tx t /\ count_ok r tx /\ ~ Forall (activated t) (s_actions tx)) /\
  (res = E_AUTH_NA <-> interval_ok r tx t /\ count_ok r tx /\ Forall (activated t) (s_actions tx) /\
                       ~ activated t (s_auth tx)) /\
  (res = E_OK <-> executable r tx t).
Proof.
  intros Hsum. cbn zeta.
  unfold pre_execute_static, base_execute, executable, interval_ok, count_ok.
  destruct (verify_timestamp_class (s_expiry tx) t (r_window r) Hsum) as (Vm & Ve & Vf & Vo & Vall).
  pose proof (bytes_eqb_eq (s_chain tx) (r_chain r)) as Hc.
  destruct (bytes_eqb (s_chain tx) (r_chain r)) eqn:Ec; cbn [negb].
  - assert (Hch : s_chain tx = r_chain r) by (apply Hc; reflexivity). clear Hc.
    set (v := verify_timestamp (s_expiry tx) t TimestampDivisor (r_window r)) in *.
    destruct (N.eqb_spec v E_OK) as [Hv|Hv]; cbn [negb].
    + (* interval ok *)
      assert (Hint : whole_second (s_expiry tx) /\ t <= s_expiry tx <= t + r_window r) by (apply Vo; exact Hv).
      destruct (N.ltb_spec (r_max_actions r) (N.of_nat (length (s_actions tx)))) as [Hcnt|Hcnt].
      * unfold E_CHAIN, E_MISALIGNED, E_EXPIRED, E_FUTURE, E_TOO_MANY, E_ACTION_NA, E_AUTH_NA, E_OK.
        classify.
      * pose proof (existsb_fails_false_iff t (s_actions tx)) as Hex.
        destruct (existsb (range_fails t) (s_actions tx)) eqn:Eex.
        -- assert (Hna : ~ Forall (activated t) (s_actions tx)).
           { intros HF. apply Hex in HF. discriminate HF. }
           unfold E_CHAIN, E_MISALIGNED, E_EXPIRED, E_FUTURE, E_TOO_MANY, E_ACTION_NA, E_AUTH_NA, E_OK.
           classify.
        -- assert (HF : Forall (activated t) (s_actions tx)) by (apply Hex; reflexivity).
           pose proof (range_fails_false_iff t (s_auth tx)) as Hau.
           destruct (range_fails t (s_auth tx)) eqn:Eau.
           ++ assert (Hnau : ~ activated t (s_auth tx)).
              { intros HA. apply Hau in HA. discriminate HA. }
              unfold E_CHAIN, E_MISALIGNED, E_EXPIRED, E_FUTURE, E_TOO_MANY, E_ACTION_NA, E_AUTH_NA, E_OK.
              classify.
           ++ assert (HA : activated t (s_auth tx)) by (apply Hau; reflexivity).
              unfold E_CHAIN, E_MISALIGNED, E_EXPIRED, E_FUTURE, E_TOO_MANY, E_ACTION_NA, E_AUTH_NA, E_OK.
              classify.
    + (* the interval check failed: the result is v, one of the three timestamp classes *)
      assert (Hnok : ~ (whole_second (s_expiry tx) /\ t <= s_expiry tx <= t + r_window r)).
      { intros H. apply Hv. apply Vo. exact H. }
      unfold E_CHAIN, E_MISALIGNED, E_EXPIRED, E_FUTURE, E_TOO_MANY, E_ACTION_NA, E_AUTH_NA, E_OK in *.
      destruct Vall as [Hx|[Hx|[Hx|Hx]]]; [| | |contradiction].
      * pose proof (proj1 Vm Hx) as Hm. rewrite Hx.
        classify.
      * pose proof (proj1 Ve Hx) as He. rewrite Hx.
        classify.
      * pose proof (proj1 Vf Hx) as Hf. rewrite Hx.
        classify.
  - assert (Hch : s_chain tx <> r_chain r).
    { intros H. apply Hc in H. discriminate H. }
    unfold E_CHAIN, E_MISALIGNED, E_EXPIRED, E_FUTURE, E_TOO_MANY, E_ACTION_NA, E_AUTH_NA, E_OK.
    classify.
Qed.

Lemma pre_execute_static_iff r tx t :
  in_i64 (t + r_window r) ->
  pre_execute_static r tx t = E_OK <-> executable r tx t.
Proof.
  intros Hsum. pose proof (pre_execute_static_class r tx t Hsum) as H. cbn zeta in H. tauto.
Qed.

(* soundness of acceptance without the no-overflow hypothesis *)
Lemma pre_execute_static_ok_sound r tx t :
  in_i64 t -> in_i64 (r_window r) -> 0 <= r_window r ->
  pre_execute_static r tx t = E_OK -> executable r tx t.
Proof.
  intros Ht HW H0. unfold pre_execute_static, base_execute, executable, count_ok.
  pose proof (bytes_eqb_eq (s_chain tx) (r_chain r)) as Hc.
  destruct (bytes_eqb (s_chain tx) (r_chain r)) eqn:Ec; cbn [negb]; [|discriminate].
  pose proof (verify_timestamp_ok_sound (s_expiry tx) t (r_window r) Ht HW H0) as Hv.
  destruct (N.eqb_spec (verify_timestamp (s_expiry tx) t TimestampDivisor (r_window r)) E_OK) as [Ev|Ev];
    cbn [negb].
  2:{ intros H. contradiction. }
  destruct (N.ltb_spec (r_max_actions r) (N.of_nat (length (s_actions tx)))) as [Hcnt|Hcnt]; [discriminate|].
  destruct (existsb (range_fails t) (s_actions tx)) eqn:Eex; [discriminate|].
  destruct (range_fails t (s_auth tx)) eqn:Eau; [discriminate|].
  intros _. specialize (Hv Ev). destruct Hv as [Hw Hi].
  assert (Hch : s_chain tx = r_chain r) by (apply Hc; reflexivity).
  assert (HF : Forall (activated t) (s_actions tx)) by (apply existsb_fails_false_iff; exact Eex).
  assert (HA : activated t (s_auth tx)) by (apply range_fails_false_iff; exact Eau).
  tauto.
Qed.

(* overflow can only reject: if t + W does not fit int64, every expiry is refused *)
Lemma verify_timestamp_overflow_rejects e t W :
  in_i64 t -> in_i64 W -> MaxI64 < t + W ->
  verify_timestamp e t TimestampDivisor W <> E_OK.
Proof.
  intros Ht HW Hov.
  assert (Hwr : wrap64 (t + W) = t + W - 18446744073709551616).
  { apply wrap64_over. unfold in_i64, MinI64, MaxI64 in *. lia. }
  unfold verify_timestamp. rewrite Hwr.
  destruct (negb (Z.rem e TimestampDivisor =? 0)); [discriminate|].
  destruct (Z.ltb_spec e t) as [|Hge]; [discriminate|].
  destruct (Z.gtb_spec e (t + W - 18446744073709551616)) as [|Hle]; [discriminate|].
  unfold in_i64, MinI64, MaxI64 in *. lia.
Qed.

Lemma pre_execute_static_overflow_rejects r tx t :
  in_i64 t -> in_i64 (r_window r) -> MaxI64 < t + r_window r ->
  pre_execute_static r tx t <> E_OK.
Proof.
  intros Ht HW Hov.
  pose proof (verify_timestamp_overflow_rejects (s_expiry tx) t (r_window r) Ht HW Hov) as Hrej.
  unfold pre_execute_static, base_execute.
  destruct (bytes_eqb (s_chain tx) (r_chain r)); cbn [negb]; [|discriminate].
  destruct (N.eqb_spec (verify_timestamp (s_expiry tx) t TimestampDivisor (r_window r)) E_OK) as [E|E]; cbn [negb].
  - contradiction.
  - exact E.
Qed.
