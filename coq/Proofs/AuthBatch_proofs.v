(* Proofs about Model/AuthBatch.v (C16). *)
From Coq Require Import List NArith Bool Lia Permutation.
From Coq Require Import ZifyN ZifyNat ZifyBool.
Import ListNotations.
From HV Require Import Model.AuthBatch.
Local Open Scope N_scope.

Section Proofs.
Context {T : Type}.
Variable verify : T -> bool.

(* ---- small list facts ------------------------------------------------------------------------- *)

Lemma somes_app {A} (a b : list (option A)) : somes (a ++ b) = somes a ++ somes b.
Proof.
  induction a as [|[x|] a IH]; cbn [somes app]; [reflexivity | rewrite IH; reflexivity | exact IH].
Qed.

Lemma in_concat_iff {A} (ls : list (list A)) (x : A) :
  In x (concat ls) <-> exists l, In l ls /\ In x l.
Proof.
  rewrite in_concat. split; intros [l [H1 H2]]; exists l; tauto.
Qed.

Lemma app_nonnil_r {A} (a : list A) (x : A) : a ++ [x] <> [].
Proof. destruct a; discriminate. Qed.

Lemma batch_verify_nonempty (b : list T) : b <> [] -> batch_verify verify b = forallb verify b.
Proof. destruct b; [congruence | reflexivity]. Qed.

Lemma bool_eq_iff (a b : bool) : (a = true <-> b = true) -> a = b.
Proof. destruct a, b; intuition congruence. Qed.

(* ---- the ED25519Batch state machine ----------------------------------------------------------- *)

(* Invariant after the items [p] were added, [E] = batches returned by Add so far, for a verifier that
   was created with total = [total]. *)
Definition ed_inv (total : N) (p : list T) (st : ed_state) (E : list (list T)) : Prop :=
  e_total st = total /\
  e_tc st = N.of_nat (length p) /\
  (forall e, In e E -> e <> []) /\
  match e_batch st with
  | None => p = [] /\ E = [] /\ e_counter st = 0
  | Some b =>
      p <> [] /\
      ((concat E ++ b = p /\ e_counter st = N.of_nat (length b) /\ (b = [] -> e_tc st < total))
       \/ (b <> [] /\ total <= e_tc st /\ concat E = p /\ In b E /\ e_counter st = 0 /\
           exists E0, E = E0 ++ [b]))
  end.

Lemma ed_inv_init bs total : ed_inv total [] (mk_ed bs total 0 0 None) [].
Proof. unfold ed_inv; cbn. repeat split; try reflexivity. intros e [].
Qed.

Definition olist {A} (o : option A) : list A := match o with Some a => [a] | None => [] end.

Lemma ed_add_inv total p st E x :
  ed_inv total p st E ->
  N.of_nat (length p) < total ->
  ed_inv total (p ++ [x]) (fst (ed_add st x)) (E ++ olist (snd (ed_add st x))).
Proof.
  intros (Htot & Htc & Hne & Hb) Hlt.
  (* the batch before the step and what it holds *)
  assert (Hcur : exists b, (match e_batch st with None => [] | Some b => b end) = b /\
                           concat E ++ b = p /\ e_counter st = N.of_nat (length b)).
  { destruct (e_batch st) as [b|].
    - destruct Hb as (_ & [(Hc & Hcnt & _) | (_ & Hge & _)]).
      + exists b; auto.
      + lia.
    - destruct Hb as (-> & -> & Hc). exists []. cbn. auto. }
  destruct Hcur as (b & Hbeq & Hcat & Hcnt).
  unfold ed_add. rewrite Hbeq.
  assert (Hlen : N.of_nat (length (p ++ [x])) = e_tc st + 1) by (rewrite app_length; cbn; lia).
  destruct (e_counter st + 1 =? e_bs st) eqn:Hfull; cbn [fst snd olist].
  - (* the batch is full: it is emitted *)
    assert (HneE : forall e, In e (E ++ [b ++ [x]]) -> e <> []).
    { intros e He. apply in_app_or in He. destruct He as [He | [<- | []]]; [auto | apply app_nonnil_r]. }
    assert (Hcat' : concat (E ++ [b ++ [x]]) = p ++ [x]).
    { rewrite concat_app. cbn [concat]. rewrite app_nil_r, app_assoc, Hcat. reflexivity. }
    destruct (e_tc st + 1 <? e_total st) eqn:Hmore; unfold ed_inv; cbn [e_total e_tc e_batch e_counter].
    + repeat split; auto; [apply app_nonnil_r|].
      left. rewrite app_nil_r. repeat split; auto. intros _. lia.
    + repeat split; auto; [apply app_nonnil_r|].
      right. repeat split; auto; [apply app_nonnil_r | lia | apply in_or_app; right; left; reflexivity |].
      exists E. reflexivity.
  - unfold ed_inv; cbn [e_total e_tc e_batch e_counter]. rewrite app_nil_r.
    repeat split; auto; [apply app_nonnil_r|].
    left. repeat split.
    + rewrite app_assoc, Hcat. reflexivity.
    + rewrite app_length. cbn. lia.
    + intros Hnil. exfalso. exact (app_nonnil_r _ _ Hnil).
Qed.

Lemma ed_adds_inv total xs : forall p st E,
  ed_inv total p st E ->
  N.of_nat (length p + length xs) <= total ->
  ed_inv total (p ++ xs) (fst (ed_adds st xs)) (E ++ somes (snd (ed_adds st xs))).
Proof.
  induction xs as [|x xs IH]; intros p st E Hinv Hlen.
  - cbn. rewrite !app_nil_r. exact Hinv.
  - cbn [ed_adds].
    pose proof (ed_add_inv total p st E x Hinv) as Hstep.
    destruct (ed_add st x) as [st1 o] eqn:Hadd. cbn [fst snd] in Hstep.
    specialize (IH (p ++ [x]) st1 (E ++ olist o)).
    destruct (ed_adds st1 xs) as [st2 os] eqn:Hadds. cbn [fst snd] in IH |- *.
    cbn [length] in Hlen.
    assert (Hinv' : ed_inv total (p ++ [x]) st1 (E ++ olist o)) by (apply Hstep; lia).
    specialize (IH Hinv').
    rewrite <- app_assoc in IH. cbn [app] in IH.
    replace (E ++ somes (o :: os)) with ((E ++ olist o) ++ somes os).
    + apply IH. rewrite app_length. cbn [length]. lia.
    + rewrite <- app_assoc. f_equal. destruct o; reflexivity.
Qed.

(* What one ED25519Batch emits when it is created with the true number of signatures (as
   NewExecutionBlock.authCounts guarantees), for EVERY batch size (also 0) :
   - no emitted batch is empty,
   - the emitted batches, concatenated in order, are the signatures in order, except that the final batch
     may additionally be emitted a second time (by Done). *)
Lemma ed_run_shape bs (l : list T) :
  let jobs := ed_run (mk_ed bs (N.of_nat (length l)) 0 0 None) l in
  (forall j, In j jobs -> j <> []) /\
  (concat jobs = l \/
   exists E0 b, jobs = E0 ++ [b] ++ [b] /\ concat (E0 ++ [b]) = l).
Proof.
  cbn zeta. unfold ed_run.
  pose proof (ed_adds_inv (N.of_nat (length l)) l [] _ [] (ed_inv_init bs _)) as Hinv.
  cbn [app length] in Hinv. specialize (Hinv ltac:(lia)).
  destruct (ed_adds _ l) as [st os]. cbn [fst snd] in Hinv.
  destruct Hinv as (Htot & Htc & Hne & Hb). unfold ed_done.
  destruct (e_batch st) as [b|].
  - destruct Hb as (Hp & [(Hcat & Hcnt & Hnil) | (Hbne & _ & Hcat & Hin & _ & E0 & HE)]).
    + assert (b <> []) by (intros ->; specialize (Hnil eq_refl); lia).
      split.
      * intros j Hj. apply in_app_or in Hj. destruct Hj as [Hj | [<- | []]]; auto.
      * left. rewrite concat_app. cbn [concat]. rewrite app_nil_r. exact Hcat.
    + split.
      * intros j Hj. apply in_app_or in Hj. destruct Hj as [Hj | [<- | []]]; auto.
      * right. exists E0, b. rewrite HE in *. split; [rewrite <- app_assoc; reflexivity | exact Hcat].
  - destruct Hb as (-> & -> & _). cbn. split; [intros j [] | left; reflexivity].
Qed.

(* partition: every signature is in some emitted batch, every element of an emitted batch is a
   signature of the block, no batch is empty *)
Lemma ed_run_partition bs (l : list T) :
  let jobs := ed_run (mk_ed bs (N.of_nat (length l)) 0 0 None) l in
  (forall j, In j jobs -> j <> []) /\
  (forall x, In x l <-> exists j, In j jobs /\ In x j).
Proof.
  cbn zeta. destruct (ed_run_shape bs l) as (Hne & Hshape). split; [exact Hne|].
  intros x. rewrite <- in_concat_iff.
  destruct Hshape as [-> | (E0 & b & -> & Hcat)]; [tauto|].
  rewrite <- Hcat. rewrite !concat_app. cbn [concat]. rewrite !app_nil_r, !in_app_iff. tauto.
Qed.

Lemma ed_run_verify bs (l : list T) :
  forallb (batch_verify verify) (ed_run (mk_ed bs (N.of_nat (length l)) 0 0 None) l) = forallb verify l.
Proof.
  destruct (ed_run_partition bs l) as (Hne & Hin).
  apply bool_eq_iff. rewrite !forallb_forall. split.
  - intros H x Hx. apply Hin in Hx. destruct Hx as (j & Hj & Hxj).
    specialize (H j Hj). rewrite batch_verify_nonempty in H by auto.
    rewrite forallb_forall in H. auto.
  - intros H j Hj. rewrite batch_verify_nonempty by auto. apply forallb_forall.
    intros x Hx. apply H, Hin. exists j; auto.
Qed.

(* The counter is the number of items modulo the batch size as long as fewer than [total] items were
   added: the final batch is emitted twice exactly when the count is a positive multiple of the batch size. *)
Lemma ed_counter_inv (xs : list T) : forall st : ed_state,
  1 <= e_bs st -> e_counter st < e_bs st ->
  e_counter (fst (ed_adds st xs)) = (e_counter st + N.of_nat (length xs)) mod e_bs st /\
  e_bs (fst (ed_adds st xs)) = e_bs st.
Proof.
  induction xs as [|x xs IH]; intros st Hbs Hc.
  - cbn. rewrite N.add_0_r, N.mod_small by lia. auto.
  - cbn [ed_adds]. destruct (ed_add st x) as [st1 o] eqn:Hadd.
    assert (H1 : e_bs st1 = e_bs st /\
                 e_counter st1 = (if e_counter st + 1 =? e_bs st then 0 else e_counter st + 1)).
    { unfold ed_add in Hadd. destruct (e_counter st + 1 =? e_bs st); inversion Hadd; cbn; auto. }
    destruct H1 as (Hbs1 & Hc1).
    specialize (IH st1). destruct (ed_adds st1 xs) as [st2 os]. cbn [fst] in IH |- *.
    destruct IH as (IHc & IHbs); [lia | rewrite Hc1; destruct (e_counter st + 1 =? e_bs st) eqn:E; lia |].
    split; [|congruence].
    rewrite IHc, Hbs1, Hc1. cbn [length].
    destruct (e_counter st + 1 =? e_bs st) eqn:E.
    + apply N.eqb_eq in E.
      replace (e_counter st + N.of_nat (S (length xs))) with (N.of_nat (length xs) + 1 * e_bs st) by lia.
      rewrite N.mod_add by lia. rewrite N.add_0_l. reflexivity.
    + f_equal. lia.
Qed.

Lemma ed_run_duplicate_iff bs (l : list T) :
  1 <= bs -> l <> [] ->
  let jobs := ed_run (mk_ed bs (N.of_nat (length l)) 0 0 None) l in
  (N.of_nat (length l) mod bs = 0 ->
     exists E0 b, jobs = E0 ++ [b] ++ [b] /\ concat (E0 ++ [b]) = l) /\
  (N.of_nat (length l) mod bs <> 0 -> concat jobs = l).
Proof.
  intros Hbs Hl. cbn zeta. unfold ed_run.
  pose proof (ed_adds_inv (N.of_nat (length l)) l [] _ [] (ed_inv_init bs _)) as Hinv.
  cbn [app length] in Hinv. specialize (Hinv ltac:(lia)).
  pose proof (ed_counter_inv l (mk_ed bs (N.of_nat (length l)) 0 0 None)) as Hcnt.
  cbn [e_bs e_counter] in Hcnt. specialize (Hcnt Hbs ltac:(lia)). rewrite N.add_0_l in Hcnt.
  destruct (ed_adds _ l) as [st os]. cbn [fst snd] in Hinv, Hcnt.
  destruct Hcnt as (Hcnt & _).
  destruct Hinv as (Htot & Htc & Hne & Hb). unfold ed_done.
  destruct (e_batch st) as [b|].
  - destruct Hb as (Hp & [(Hcat & Hc & Hnil) | (Hbne & _ & Hcat & Hin & Hc0 & E0 & HE)]).
    + assert (Hbn : b <> []) by (intros ->; specialize (Hnil eq_refl); lia).
      assert (e_counter st <> 0) by (destruct b; [congruence | cbn in Hc; lia]).
      split; [intros Hm; congruence|].
      intros _. rewrite concat_app. cbn [concat]. rewrite app_nil_r. exact Hcat.
    + split; [|intros Hm; congruence].
      intros _. exists E0, b. rewrite HE in *. split; [rewrite <- app_assoc; reflexivity | exact Hcat].
  - destruct Hb as (-> & _). congruence.
Qed.

(* ---- the whole block --------------------------------------------------------------------------- *)

Variable batched : N -> bool.

Lemma count_type_length t (blk : list (btx (T:=T))) :
  count_type t blk = N.of_nat (length (items_of_type t blk)).
Proof. unfold count_type, items_of_type. rewrite map_length. reflexivity. Qed.

Lemma in_block_types t (blk : list (btx (T:=T))) : In t (block_types blk) <-> exists x, In (t, x) blk.
Proof.
  unfold block_types. rewrite nodup_In, in_map_iff. split.
  - intros ((t', x) & Ht & Hin). cbn in Ht. subst. eauto.
  - intros (x & Hin). exists (t, x). auto.
Qed.

Lemma in_items_of_type t x (blk : list (btx (T:=T))) : In x (items_of_type t blk) <-> In (t, x) blk.
Proof.
  unfold items_of_type. rewrite in_map_iff. split.
  - intros ((t', x') & Hs & Hin). cbn in Hs. subst. apply filter_In in Hin.
    destruct Hin as (Hin & Ht). unfold of_type in Ht. cbn in Ht. apply N.eqb_eq in Ht. subst. exact Hin.
  - intros Hin. exists (t, x). split; [reflexivity|]. apply filter_In. split; [exact Hin|].
    unfold of_type. cbn. apply N.eqb_refl.
Qed.

(* C16_partition for the block: every signature is in an emitted task, every item of a task is a signature
   of the block, and batch tasks are never empty. *)
Lemma auth_batch_jobs_partition cores (blk : list (btx (T:=T))) :
  let jobs := auth_batch_jobs batched cores blk in
  (forall x, In x (map snd blk) <-> exists j, In j jobs /\ In x (job_items j)) /\
  (forall b, In (JBatch b) jobs -> b <> []).
Proof.
  cbn zeta. unfold auth_batch_jobs, single_jobs, batch_jobs. split.
  - intros x. rewrite in_map_iff. split.
    + intros ((t, x') & Hs & Hin). cbn in Hs. subst x'.
      destruct (batched t) eqn:Hbt.
      * pose proof (ed_run_partition (ed_batch_size cores (N.of_nat (length (items_of_type t blk))))
                      (items_of_type t blk)) as (_ & Hpart).
        specialize (Hpart x). destruct Hpart as (Hpart & _).
        destruct (Hpart (proj2 (in_items_of_type t x blk) Hin)) as (j & Hj & Hxj).
        exists (JBatch j). split; [|exact Hxj].
        apply in_or_app. right. apply in_flat_map. exists t. split; [apply in_block_types; eauto|].
        unfold type_jobs. rewrite Hbt. apply in_map. unfold ed_new. rewrite count_type_length. exact Hj.
      * exists (JSingle x). split; [|left; reflexivity].
        apply in_or_app. left. apply in_map_iff. exists (t, x). split; [reflexivity|].
        apply filter_In. cbn. rewrite Hbt. auto.
    + intros (j & Hj & Hxj). apply in_app_or in Hj. destruct Hj as [Hj | Hj].
      * apply in_map_iff in Hj. destruct Hj as ((t, x') & <- & Hin). apply filter_In in Hin.
        cbn in Hxj. destruct Hxj as [<- | []]. exists (t, x'). tauto.
      * apply in_flat_map in Hj. destruct Hj as (t & Ht & Hj). unfold type_jobs in Hj.
        destruct (batched t); [|destruct Hj]. apply in_map_iff in Hj. destruct Hj as (b & <- & Hb).
        cbn in Hxj. unfold ed_new in Hb. rewrite count_type_length in Hb.
        pose proof (ed_run_partition (ed_batch_size cores (N.of_nat (length (items_of_type t blk))))
                      (items_of_type t blk)) as (_ & Hpart).
        exists (t, x). split; [reflexivity|]. apply in_items_of_type. apply Hpart. eauto.
  - intros b Hb. apply in_app_or in Hb. destruct Hb as [Hb | Hb].
    + apply in_map_iff in Hb. destruct Hb as (? & Hd & _). discriminate Hd.
    + apply in_flat_map in Hb. destruct Hb as (t & Ht & Hj). unfold type_jobs in Hj.
      destruct (batched t); [|destruct Hj]. apply in_map_iff in Hj. destruct Hj as (b' & Heq & Hb').
      inversion Heq; subst b'. unfold ed_new in Hb'. rewrite count_type_length in Hb'.
      pose proof (ed_run_partition (ed_batch_size cores (N.of_nat (length (items_of_type t blk))))
                    (items_of_type t blk)) as (Hne & _). auto.
Qed.

Lemma run_job_items (j : job) :
  (forall b, j = JBatch b -> b <> []) -> run_job verify j = forallb verify (job_items j).
Proof.
  destruct j as [x | b]; intros H; cbn.
  - rewrite andb_true_r. reflexivity.
  - apply batch_verify_nonempty. auto.
Qed.

(* C16_iff *)
Lemma auth_batch_jobs_verify cores (blk : list (btx (T:=T))) :
  forallb (run_job verify) (auth_batch_jobs batched cores blk) = forallb verify (map snd blk).
Proof.
  destruct (auth_batch_jobs_partition cores blk) as (Hpart & Hne).
  apply bool_eq_iff. rewrite !forallb_forall. split.
  - intros H x Hx. apply Hpart in Hx. destruct Hx as (j & Hj & Hxj).
    specialize (H j Hj). rewrite run_job_items in H by (intros b ->; auto).
    rewrite forallb_forall in H. auto.
  - intros H j Hj. rewrite run_job_items by (intros b ->; auto). apply forallb_forall.
    intros x Hx. apply H, Hpart. eauto.
Qed.

(* the conjunction does not depend on the order in which goroutines hand the tasks to the job *)
Lemma forallb_perm {A} (f : A -> bool) (a b : list A) : Permutation a b -> forallb f a = forallb f b.
Proof.
  intros HP. apply bool_eq_iff. rewrite !forallb_forall. split; intros H x Hx; apply H.
  - eapply Permutation_in; [symmetry|]; eauto.
  - eapply Permutation_in; eauto.
Qed.

(* SerialJob satisfies the worker contract: Wait reports an error iff some task fails *)
Lemma serial_go_true js : serial_go verify true js = true.
Proof. induction js as [|j js IH]; cbn; auto. Qed.

Lemma serial_wait_spec js : serial_wait verify js = negb (forallb (run_job verify) js).
Proof.
  unfold serial_wait. induction js as [|j js IH]; cbn [serial_go forallb]; [reflexivity|].
  destruct (run_job verify j); cbn [negb andb]; [exact IH | apply serial_go_true].
Qed.

End Proofs.
