(* Proofs about Model/AuthWire.v (C17). *)
From Coq Require Import List NArith ZArith Bool Lia.
From Coq Require Import ZifyN ZifyNat ZifyBool.
Import ListNotations.
From HV Require Import Lib.Bytes Model.AuthWire.

(* ---- list helpers ------------------------------------------------------------------------------ *)

Lemma firstn_app_exact {A} (l r : list A) : firstn (length l) (l ++ r) = l.
Proof. induction l as [|x l IH]; cbn; [destruct r; reflexivity | rewrite IH; reflexivity]. Qed.

Lemma skipn_app_exact {A} (l r : list A) : skipn (length l) (l ++ r) = r.
Proof. induction l as [|x l IH]; cbn; auto. Qed.

Lemma Forall_firstn_skipn {A} (P : A -> Prop) n (l : list A) :
  Forall P l -> Forall P (firstn n l) /\ Forall P (skipn n l).
Proof. intros H. rewrite <- (firstn_skipn n l) in H. apply Forall_app in H. exact H. Qed.

(* ---- fixed-width big-endian integers ----------------------------------------------------------- *)
Local Open Scope Z_scope.

Lemma be_decode_app b x : be_decode (b ++ [x]) = be_decode b * 256 + Z.of_N x.
Proof. unfold be_decode. rewrite fold_left_app. reflexivity. Qed.

Lemma be_injective : forall a b : bytes,
  length a = length b -> bytes_ok a -> bytes_ok b -> be_decode a = be_decode b -> a = b.
Proof.
  induction a as [|x a IH] using rev_ind; intros b Hlen Ha Hb Heq.
  - destruct b; [reflexivity | discriminate Hlen].
  - destruct b as [|y b _] using rev_ind.
    + rewrite app_length in Hlen. cbn in Hlen. lia.
    + rewrite !app_length in Hlen. cbn in Hlen.
      apply Forall_app in Ha. destruct Ha as (Ha & Hx).
      apply Forall_app in Hb. destruct Hb as (Hb & Hy).
      inversion Hx as [|? ? Hx' _]; subst. inversion Hy as [|? ? Hy' _]; subst.
      unfold byte_ok in Hx', Hy'.
      rewrite !be_decode_app in Heq.
      assert (be_decode a = be_decode b /\ x = y) as (Hd & ->) by lia.
      f_equal. apply IH; auto. lia.
Qed.

Lemma be_encode_length n : forall v, length (be_encode n v) = n.
Proof. induction n as [|n IH]; intros v; cbn; [reflexivity|]. rewrite app_length, IH. cbn. lia. Qed.

Lemma be_encode_ok n : forall v, bytes_ok (be_encode n v).
Proof.
  induction n as [|n IH]; intros v; cbn; [constructor|].
  apply Forall_app. split; [apply IH|]. constructor; [|constructor].
  unfold byte_ok. pose proof (Z.mod_pos_bound v 256 ltac:(lia)). lia.
Qed.

(* FillBytes then SetBytes *)
Lemma be_decode_encode n : forall v, 0 <= v < 256 ^ Z.of_nat n -> be_decode (be_encode n v) = v.
Proof.
  induction n as [|n IH]; intros v Hv.
  - cbn in *. lia.
  - cbn [be_encode]. rewrite be_decode_app.
    rewrite Nat2Z.inj_succ, Z.pow_succ_r in Hv by lia.
    rewrite IH.
    + pose proof (Z.mod_pos_bound v 256 ltac:(lia)). rewrite Z2N.id by lia.
      pose proof (Z.div_mod v 256 ltac:(lia)). lia.
    + split; [apply Z.div_pos; lia | apply Z.div_lt_upper_bound; lia].
Qed.

(* SetBytes then FillBytes: the 32-byte string is the only fixed-width encoding of its value *)
Lemma be_encode_decode : forall b : bytes, bytes_ok b -> be_encode (length b) (be_decode b) = b.
Proof.
  induction b as [|x b IH] using rev_ind; intros Hb; [reflexivity|].
  apply Forall_app in Hb. destruct Hb as (Hb & Hx). inversion Hx as [|? ? Hx' _]; subst.
  unfold byte_ok in Hx'.
  rewrite app_length. cbn [length]. rewrite Nat.add_1_r. cbn [be_encode].
  rewrite be_decode_app.
  replace (be_decode b * 256 + Z.of_N x) with (Z.of_N x + be_decode b * 256) by lia.
  rewrite Z.div_add, Z.mod_add by lia.
  rewrite Z.div_small, Z.mod_small by lia. cbn [Z.add]. rewrite IH by assumption.
  rewrite N2Z.id. reflexivity.
Qed.

Lemma le_injective : forall a b : bytes,
  length a = length b -> bytes_ok a -> bytes_ok b -> le_decode a = le_decode b -> a = b.
Proof.
  intros a b Hlen Ha Hb Heq. unfold le_decode in Heq.
  apply be_injective in Heq.
  - rewrite <- (rev_involutive a), <- (rev_involutive b), Heq. reflexivity.
  - rewrite !rev_length. exact Hlen.
  - apply Forall_rev. exact Ha.
  - apply Forall_rev. exact Hb.
Qed.

(* ---- low-S ------------------------------------------------------------------------------------- *)

Lemma p256_odd : p256_n = 2 * p256_half + 1.
Proof. vm_compute. reflexivity. Qed.

Lemma lowS_unique s : 0 < s < p256_n -> xorb (normalized_s s) (normalized_s (p256_n - s)) = true.
Proof.
  intros Hs. unfold normalized_s. pose proof p256_odd as Hodd.
  destruct (s <=? p256_half) eqn:E1; destruct (p256_n - s <=? p256_half) eqn:E2; cbn; try reflexivity; lia.
Qed.

Lemma lowS_mirror_distinct s : 0 < s < p256_n -> p256_n - s <> s.
Proof. intros Hs. pose proof p256_odd. lia. Qed.

(* ---- secp256r1.Verify: no second accepted 64-byte string from the (r, s) ~ (r, n - s) symmetry and
        the integer encoding ---------------------------------------------------------------------- *)
Section Secp.
Variable ecdsa : bytes -> bytes -> Z -> Z -> bool.
(* Go's ecdsa.Verify rejects s = 0 and s >= N *)
Hypothesis ecdsa_range : forall pk m r s, ecdsa pk m r s = true -> 0 < s < p256_n.

Lemma secp_verify_inv msg pk sig :
  secp_verify ecdsa msg pk sig = true ->
  normalized_s (secp_s sig) = true /\ 0 < secp_s sig < p256_n.
Proof.
  unfold secp_verify. destruct (normalized_s (secp_s sig)); [|discriminate].
  intros H. split; [reflexivity | eapply ecdsa_range; eauto].
Qed.

Lemma secp_mirror_rejected msg pk sig1 sig2 :
  secp_verify ecdsa msg pk sig1 = true ->
  secp_s sig2 = p256_n - secp_s sig1 ->
  secp_verify ecdsa msg pk sig2 = false.
Proof.
  intros H1 Hs. apply secp_verify_inv in H1. destruct H1 as (Hn & Hr).
  pose proof (lowS_unique _ Hr) as Hx. rewrite Hn in Hx.
  unfold secp_verify. rewrite Hs. destruct (normalized_s (p256_n - secp_s sig1)); [|reflexivity].
  change (false = true) in Hx. discriminate Hx.
Qed.

Lemma secp_encoding_unique msg pk sig1 sig2 :
  length sig1 = 64%nat -> length sig2 = 64%nat -> bytes_ok sig1 -> bytes_ok sig2 ->
  secp_verify ecdsa msg pk sig1 = true -> secp_verify ecdsa msg pk sig2 = true ->
  secp_r sig2 = secp_r sig1 ->
  (secp_s sig2 = secp_s sig1 \/ secp_s sig2 = p256_n - secp_s sig1) ->
  sig2 = sig1.
Proof.
  intros L1 L2 O1 O2 V1 V2 Hr Hs.
  destruct Hs as [Hs | Hs].
  - destruct (Forall_firstn_skipn _ 32 _ O1) as (F1 & S1).
    destruct (Forall_firstn_skipn _ 32 _ O2) as (F2 & S2).
    rewrite <- (firstn_skipn 32 sig1), <- (firstn_skipn 32 sig2). f_equal.
    + apply be_injective; auto. rewrite !firstn_length. lia.
    + apply be_injective; auto. rewrite !skipn_length. lia.
  - rewrite (secp_mirror_rejected _ _ _ _ V1 Hs) in V2. discriminate.
Qed.
End Secp.

(* ---- ed25519: the scalar guard ------------------------------------------------------------------ *)

Lemma ed_s_unique s1 s2 :
  0 <= s1 < ed_l -> 0 <= s2 < ed_l -> s1 mod ed_l = s2 mod ed_l -> s1 = s2.
Proof. intros H1 H2 H. rewrite !Z.mod_small in H by assumption. exact H. Qed.

Lemma ed_s_shift_rejected s k : 0 <= s -> 1 <= k -> (s + k * ed_l <? ed_l) = false.
Proof.
  intros Hs Hk. apply Z.ltb_ge. assert (0 < ed_l) by (vm_compute; reflexivity). nia.
Qed.

(* ---- wire format ------------------------------------------------------------------------------- *)
Local Open Scope N_scope.

Section Wire.
Variable bls_pk_ok bls_sig_ok : bytes -> bool.

Definition valid_id (id : N) : Prop := id = ED25519_ID \/ id = SECP256R1_ID \/ id = BLS_ID.

(* a well-formed auth object: fixed-size arrays; BLS points that the library accepts *)
Definition wf_auth (a : auth) : Prop :=
  valid_id (a_id a) /\
  length (a_pk a) = pk_len (a_id a) /\
  length (a_sig a) = sig_len (a_id a) /\
  (a_id a = BLS_ID -> bls_pk_ok (a_pk a) = true /\ bls_sig_ok (a_sig a) = true).

Lemma auth_bytes_length a :
  length (a_pk a) = pk_len (a_id a) -> length (a_sig a) = sig_len (a_id a) ->
  length (auth_bytes a) = auth_size (a_id a).
Proof. intros Hp Hs. unfold auth_bytes, auth_size. cbn [length]. rewrite app_length. lia. Qed.

Lemma unmarshal_fixed_some id b a :
  unmarshal_fixed id b = Some a ->
  auth_bytes a = b /\ a_id a = id /\ length (a_pk a) = pk_len id /\ length (a_sig a) = sig_len id.
Proof.
  unfold unmarshal_fixed. destruct (Nat.eqb (length b) (auth_size id)) eqn:El; cbn [negb]; [|discriminate].
  apply Nat.eqb_eq in El. destruct b as [|t rest]; [discriminate|].
  destruct (t =? id) eqn:Et; cbn [negb]; [|discriminate].
  apply N.eqb_eq in Et. subst t. intros Ha. inversion Ha; subst a; clear Ha. cbn [a_id a_pk a_sig auth_bytes].
  unfold auth_size in El. cbn [length] in El.
  assert (Hrest : length rest = (pk_len id + sig_len id)%nat) by lia.
  assert (Hsk : firstn (sig_len id) (skipn (pk_len id) rest) = skipn (pk_len id) rest).
  { apply firstn_all2. rewrite skipn_length. lia. }
  rewrite Hsk. unfold auth_bytes. cbn [a_id a_pk a_sig]. rewrite firstn_skipn. repeat split.
  - rewrite firstn_length. lia.
  - rewrite skipn_length. lia.
Qed.

Lemma unmarshal_fixed_bytes id pk sg :
  length pk = pk_len id -> length sg = sig_len id ->
  unmarshal_fixed id (id :: pk ++ sg) = Some (mk_auth id pk sg).
Proof.
  intros Hp Hs. unfold unmarshal_fixed.
  assert (El : Nat.eqb (length (id :: pk ++ sg)) (auth_size id) = true).
  { apply Nat.eqb_eq. unfold auth_size. cbn [length]. rewrite app_length. lia. }
  rewrite El, N.eqb_refl. cbn [negb].
  rewrite <- Hp, firstn_app_exact, skipn_app_exact.
  rewrite firstn_all2 by lia. reflexivity.
Qed.

Lemma unmarshal_scheme_some id b a :
  unmarshal_scheme bls_pk_ok bls_sig_ok id b = Some a ->
  auth_bytes a = b /\ a_id a = id /\ length (a_pk a) = pk_len id /\ length (a_sig a) = sig_len id /\
  (id = BLS_ID -> bls_pk_ok (a_pk a) = true /\ bls_sig_ok (a_sig a) = true).
Proof.
  unfold unmarshal_scheme, unmarshal_bls. destruct (id =? BLS_ID) eqn:Eb.
  - apply N.eqb_eq in Eb. subst id.
    destruct (unmarshal_fixed BLS_ID b) as [a0|] eqn:Eu; [|discriminate].
    destruct (bls_pk_ok (a_pk a0)) eqn:Ep; [|discriminate].
    destruct (bls_sig_ok (a_sig a0)) eqn:Es; [|discriminate].
    intros Ha. inversion Ha; subst a0. apply unmarshal_fixed_some in Eu. intuition.
  - intros Hu. apply unmarshal_fixed_some in Hu. apply N.eqb_neq in Eb. intuition.
Qed.

(* Unmarshal(b) = a  ==>  Bytes(a) = b : the encoding is canonical, exact length, no trailing bytes *)
Lemma parse_auth_some b a :
  parse_auth bls_pk_ok bls_sig_ok b = Some a -> auth_bytes a = b /\ wf_auth a.
Proof.
  unfold parse_auth. destruct b as [|t rest]; [discriminate|].
  destruct ((t =? ED25519_ID) || (t =? SECP256R1_ID) || (t =? BLS_ID)) eqn:Et; [|discriminate].
  intros Hu. apply unmarshal_scheme_some in Hu. destruct Hu as (Hb & Hid & Hp & Hs & Hbls).
  split; [exact Hb|]. unfold wf_auth. rewrite Hid.
  split; [unfold valid_id; rewrite !orb_true_iff, !N.eqb_eq in Et; tauto|].
  split; [exact Hp|]. split; [exact Hs | exact Hbls].
Qed.

(* Unmarshal(Bytes(a)) = a *)
Lemma parse_auth_bytes a : wf_auth a -> parse_auth bls_pk_ok bls_sig_ok (auth_bytes a) = Some a.
Proof.
  intros (Hid & Hp & Hs & Hbls). destruct a as [id pk sg]. cbn [a_id a_pk a_sig] in *.
  unfold parse_auth, auth_bytes. cbn [a_id a_pk a_sig].
  assert (Et : (id =? ED25519_ID) || (id =? SECP256R1_ID) || (id =? BLS_ID) = true).
  { rewrite !orb_true_iff, !N.eqb_eq. unfold valid_id in Hid. tauto. }
  rewrite Et. unfold unmarshal_scheme, unmarshal_bls.
  destruct (id =? BLS_ID) eqn:Eb.
  - apply N.eqb_eq in Eb. destruct (Hbls Eb) as (H1 & H2). subst id.
    rewrite (unmarshal_fixed_bytes BLS_ID pk sg Hp Hs).
    cbn [a_pk a_sig]. rewrite H1, H2. reflexivity.
  - apply (unmarshal_fixed_bytes id pk sg Hp Hs).
Qed.

Lemma parse_auth_injective b1 b2 a :
  parse_auth bls_pk_ok bls_sig_ok b1 = Some a -> parse_auth bls_pk_ok bls_sig_ok b2 = Some a -> b1 = b2.
Proof.
  intros H1 H2. apply parse_auth_some in H1, H2. destruct H1 as (<- & _), H2 as (<- & _). reflexivity.
Qed.

Lemma parse_auth_exact_length b a :
  parse_auth bls_pk_ok bls_sig_ok b = Some a -> length b = auth_size (a_id a).
Proof.
  intros H. apply parse_auth_some in H. destruct H as (<- & (_ & Hp & Hs & _)).
  apply auth_bytes_length; assumption.
Qed.

(* no proper extension and no proper prefix of a valid encoding parses *)
Lemma parse_auth_no_trailing a t :
  wf_auth a -> t <> [] -> parse_auth bls_pk_ok bls_sig_ok (auth_bytes a ++ t) = None.
Proof.
  intros (Hid & Hp & Hs & _) Ht.
  destruct (parse_auth bls_pk_ok bls_sig_ok (auth_bytes a ++ t)) as [a'|] eqn:E; [|reflexivity].
  exfalso. pose proof (parse_auth_exact_length _ _ E) as Hlen.
  apply parse_auth_some in E. destruct E as (Hb & _).
  assert (Hh : a_id a' = a_id a) by (unfold auth_bytes in Hb; cbn in Hb; inversion Hb; reflexivity).
  rewrite app_length, (auth_bytes_length a Hp Hs), Hh in Hlen.
  destruct t; [congruence | cbn in Hlen; lia].
Qed.

Lemma parse_auth_no_truncation a p t :
  wf_auth a -> auth_bytes a = p ++ t -> t <> [] -> parse_auth bls_pk_ok bls_sig_ok p = None.
Proof.
  intros (Hid & Hp & Hs & _) Hsplit Ht.
  destruct (parse_auth bls_pk_ok bls_sig_ok p) as [a'|] eqn:E; [|reflexivity].
  exfalso. pose proof (parse_auth_exact_length _ _ E) as Hlen.
  apply parse_auth_some in E. destruct E as (Hb & _).
  assert (Hh : a_id a' = a_id a).
  { rewrite <- Hb in Hsplit. unfold auth_bytes in Hsplit. cbn in Hsplit. inversion Hsplit. reflexivity. }
  pose proof (auth_bytes_length a Hp Hs) as Hl. rewrite Hsplit, app_length, Hlen, Hh in Hl.
  destruct t; [congruence | cbn in Hl; lia].
Qed.

(* ---- addresses --------------------------------------------------------------------------------- *)
Variable H : bytes -> bytes.

Lemma address_binding a :
  actor H a = a_id a :: H (a_pk a) /\ sponsor H a = actor H a.
Proof. split; reflexivity. Qed.

Lemma address_length a : length (H (a_pk a)) = 32%nat -> length (actor H a) = 33%nat.
Proof. intros Hl. unfold actor, auth_address, create_address. cbn [length]. rewrite Hl. reflexivity. Qed.

Lemma address_scheme_separation a1 a2 : a_id a1 <> a_id a2 -> actor H a1 <> actor H a2.
Proof. unfold actor, auth_address, create_address. intros Hne Heq. inversion Heq. contradiction. Qed.

Lemma address_determined a1 a2 :
  a_id a1 = a_id a2 -> a_pk a1 = a_pk a2 -> actor H a1 = actor H a2 /\ sponsor H a1 = sponsor H a2.
Proof. unfold sponsor, actor, auth_address. intros -> ->. split; reflexivity. Qed.

End Wire.
