(* Snow_proofs.v — invariants of the snow.VM model under the snowman engine contract (C20). *)
From Coq Require Import List NArith Arith Bool Lia.
From Coq Require Import ZifyN ZifyNat ZifyBool.
Import ListNotations.
From HV Require Import Model.Snow.
Local Open Scope N_scope.

(* ------------------------------------------------------------------ list maps *)
Section MapLemmas.
Context {V : Type}.
Implicit Types m : list (N * V).

Lemma lookup_remove_key k k' m :
  lookup k (remove_key k' m) = if k =? k' then None else lookup k m.
Proof.
  induction m as [|[a v] r IH]; cbn [remove_key filter lookup fst].
  - destruct (k =? k'); reflexivity.
  - fold (remove_key k' r). destruct (a =? k') eqn:Ea; cbn [negb lookup].
    + apply N.eqb_eq in Ea. subst a. rewrite IH. destruct (k =? k'); reflexivity.
    + rewrite IH. destruct (k =? a) eqn:Eka; [|reflexivity].
      apply N.eqb_eq in Eka. subst a. rewrite Ea. reflexivity.
Qed.

Lemma lookup_mput k k' (v : V) m :
  lookup k (mput k' v m) = if k =? k' then Some v else lookup k m.
Proof.
  unfold mput. cbn [lookup]. destruct (k =? k') eqn:E; [reflexivity|].
  rewrite lookup_remove_key, E. reflexivity.
Qed.

Lemma lookup_app k m1 m2 :
  lookup k (m1 ++ m2) = match lookup k m1 with Some v => Some v | None => lookup k m2 end.
Proof.
  induction m1 as [|[a v] r IH]; cbn [app lookup]; [reflexivity|].
  destruct (k =? a); [reflexivity | exact IH].
Qed.

Lemma lookup_update k k' (v : V) m :
  lookup k (update k' v m) =
  if k =? k' then match lookup k' m with Some _ => Some v | None => None end else lookup k m.
Proof.
  induction m as [|[a w] r IH]; cbn [update lookup].
  - destruct (k =? k'); reflexivity.
  - destruct (k' =? a) eqn:E1; cbn [lookup].
    + apply N.eqb_eq in E1. subst a. destruct (k =? k') eqn:E2; reflexivity.
    + destruct (k =? a) eqn:E2.
      * apply N.eqb_eq in E2. subst a. destruct (k =? k') eqn:E3; [|reflexivity].
        apply N.eqb_eq in E3. subst k'. rewrite N.eqb_refl in E1. discriminate.
      * exact IH.
Qed.

Lemma lookup_tl_some k m x : lookup k (tl m) = Some x -> exists y, lookup k m = Some y.
Proof.
  destruct m as [|[a v] r]; cbn [tl lookup]; [discriminate|].
  intros H. destruct (k =? a); eauto.
Qed.

(* entries of a FIFO after a put are the new one or old ones *)
Lemma lookup_fifo_put_eq W k (v : V) m : 1 <= W -> lookup k (fifo_put W k v m) = Some v.
Proof.
  intros HW. unfold fifo_put. destruct (lookup k m) eqn:E.
  - rewrite lookup_update, N.eqb_refl, E. reflexivity.
  - rewrite lookup_app. cbn [lookup]. rewrite N.eqb_refl.
    destruct (lookup k (if W <=? lenN m then tl m else m)) eqn:E2; [|reflexivity].
    exfalso. destruct (W <=? lenN m).
    + apply lookup_tl_some in E2. destruct E2 as [y Hy]. congruence.
    + congruence.
Qed.

End MapLemmas.

Lemma lookup_In {V} k (m : list (N * V)) v : lookup k m = Some v -> In (k, v) m.
Proof.
  induction m as [|[a w] r IH]; cbn [lookup In]; [discriminate|].
  destruct (k =? a) eqn:E.
  - apply N.eqb_eq in E. subst a. intros [= ->]. auto.
  - auto.
Qed.

Lemma In_update {V} k (v : V) m k' x :
  In (k', x) (update k v m) -> (k' = k /\ x = v) \/ In (k', x) m.
Proof.
  induction m as [|[a w] r IH]; cbn [update In]; [tauto|].
  destruct (k =? a) eqn:E; cbn [In].
  - apply N.eqb_eq in E. subst a. intros [[= <- <-]|H]; auto.
  - intros [H|H]; auto. destruct (IH H); auto.
Qed.

Lemma In_tl {A} (x : A) l : In x (tl l) -> In x l.
Proof. destruct l; cbn [tl In]; auto. Qed.

Lemma In_fifo_put {V} W k (v : V) m k' x :
  In (k', x) (fifo_put W k v m) -> (k' = k /\ x = v) \/ In (k', x) m.
Proof.
  unfold fifo_put. destruct (lookup k m).
  - apply In_update.
  - intros H. apply in_app_or in H. destruct H as [H|H].
    + right. destruct (W <=? lenN m); [apply In_tl|]; exact H.
    + cbn [In] in H. destruct H as [[= <- <-]|[]]. auto.
Qed.

(* ------------------------------------------------------------------ nthN / setN / lenN *)
Lemma lenN_app {A} (l1 l2 : list A) : lenN (l1 ++ l2) = lenN l1 + lenN l2.
Proof. unfold lenN. rewrite app_length. lia. Qed.

Lemma nthN_app_l {A} (l1 l2 : list A) n : n < lenN l1 -> nthN (l1 ++ l2) n = nthN l1 n.
Proof. unfold nthN, lenN. intros H. apply nth_error_app1. lia. Qed.

Lemma nthN_app_len {A} (l : list A) x : nthN (l ++ [x]) (lenN l) = Some x.
Proof.
  unfold nthN, lenN. rewrite Nat2N.id, nth_error_app2 by lia. rewrite Nat.sub_diag. reflexivity.
Qed.

Lemma nthN_some_lt {A} (l : list A) n x : nthN l n = Some x -> n < lenN l.
Proof.
  unfold nthN, lenN. intros H. assert (N.to_nat n < length l)%nat by (apply nth_error_Some; congruence). lia.
Qed.

Lemma nthN_lt_some {A} (l : list A) n : n < lenN l -> exists x, nthN l n = Some x.
Proof.
  unfold nthN, lenN. intros H. destruct (nth_error l (N.to_nat n)) eqn:E; eauto.
  apply nth_error_None in E. lia.
Qed.

Lemma set_nth_length {A} n (x : A) l : length (set_nth n x l) = length l.
Proof. revert n; induction l as [|y r IH]; intros [|n]; cbn [set_nth length]; auto. Qed.

Lemma nth_error_set_nth {A} n m (x : A) l :
  nth_error (set_nth n x l) m = if Nat.eqb n m then (match nth_error l m with Some _ => Some x | None => None end) else nth_error l m.
Proof.
  revert n m; induction l as [|y r IH]; intros n m.
  - cbn [set_nth]. destruct n, m; cbn; try reflexivity. all: destruct (Nat.eqb n m); reflexivity.
  - destruct n as [|n], m as [|m]; cbn [set_nth nth_error Nat.eqb]; try reflexivity.
    apply IH.
Qed.

Lemma lenN_setN {A} n (x : A) l : lenN (setN n x l) = lenN l.
Proof. unfold lenN, setN. rewrite set_nth_length. reflexivity. Qed.

Lemma nthN_setN {A} n m (x : A) l :
  nthN (setN n x l) m = if n =? m then (match nthN l m with Some _ => Some x | None => None end) else nthN l m.
Proof.
  unfold nthN, setN. rewrite nth_error_set_nth.
  destruct (n =? m) eqn:E.
  - apply N.eqb_eq in E. subst. rewrite Nat.eqb_refl. reflexivity.
  - assert (Nat.eqb (N.to_nat n) (N.to_nat m) = false) as ->; [|reflexivity].
    apply Nat.eqb_neq. apply N.eqb_neq in E. lia.
Qed.

Lemma memN_In k l : memN k l = true <-> In k l.
Proof.
  unfold memN. rewrite existsb_exists. split.
  - intros [x [Hx E]]. apply N.eqb_eq in E. subst. exact Hx.
  - intros H. exists k. split; [exact H | apply N.eqb_refl].
Qed.

Lemma memN_false k l : memN k l = false <-> ~ In k l.
Proof. rewrite <- memN_In. destruct (memN k l); split; congruence. Qed.

Lemma eqb_listN_refl l : eqb_listN l l = true.
Proof. induction l; cbn [eqb_listN]; [reflexivity|]. rewrite N.eqb_refl. exact IHl. Qed.

Lemma eqb_listN_eq a b : eqb_listN a b = true <-> a = b.
Proof.
  revert b; induction a as [|x a IH]; intros [|y b]; cbn [eqb_listN]; split; try congruence; try discriminate.
  - rewrite andb_true_iff, N.eqb_eq, IH. intros [-> ->]. reflexivity.
  - intros [= -> ->]. rewrite N.eqb_refl. apply IH. reflexivity.
Qed.

(* ------------------------------------------------------------------ trace projections *)
Lemma accepts_app a b : accepts (a ++ b) = accepts a ++ accepts b.
Proof. unfold accepts. apply flat_map_app. Qed.
Lemma naccepted_app a b : naccepted (a ++ b) = naccepted a ++ naccepted b.
Proof. unfold naccepted. apply flat_map_app. Qed.
Lemma nrejected_app a b : nrejected (a ++ b) = nrejected a ++ nrejected b.
Proof. unfold nrejected. apply flat_map_app. Qed.
Lemma nverified_app a b : nverified (a ++ b) = nverified a ++ nverified b.
Proof. unfold nverified. apply flat_map_app. Qed.
Lemma npreaccepted_app a b : npreaccepted (a ++ b) = npreaccepted a ++ npreaccepted b.
Proof. unfold npreaccepted. apply flat_map_app. Qed.
Lemma nprerejected_app a b : nprerejected (a ++ b) = nprerejected a ++ nprerejected b.
Proof. unfold nprerejected. apply flat_map_app. Qed.

(* ids whose output exists after a trace *)
Definition out_step (acc : list N) (e : event) : list N :=
  match e with
  | EVerify _ b true => b :: acc
  | EBuild _ b => b :: acc
  | _ => acc
  end.
Definition outs_after (outs : list N) (tr : list event) : list N := fold_left out_step tr outs.

Lemma outs_after_app o a b : outs_after o (a ++ b) = outs_after (outs_after o a) b.
Proof. unfold outs_after. apply fold_left_app. Qed.

Lemma outs_after_mono x tr : forall o, In x o -> In x (outs_after o tr).
Proof.
  induction tr as [|e r IH]; intros o H; cbn [outs_after fold_left]; [exact H|].
  apply IH. destruct e as [| | |p b [|]| | | | | | |]; cbn [out_step In]; auto.
Qed.

Lemma vp_app es a : forall outs b,
  verify_parents_ok es outs (a ++ b) = verify_parents_ok es outs a && verify_parents_ok es (outs_after outs a) b.
Proof.
  induction a as [|e r IH]; intros outs b; cbn [app verify_parents_ok outs_after fold_left]; [reflexivity|].
  destruct e as [| | |p x ok| | | | | | |]; cbn [out_step]; try apply IH.
  - rewrite IH. rewrite <- !andb_assoc. reflexivity.
  - reflexivity.
  - rewrite IH. destruct ok; rewrite <- !andb_assoc; reflexivity.
Qed.

Definition ev_lt (n : N) (e : event) : Prop :=
  match e with EVerify _ b _ => b < n | EBuild _ b => b < n | _ => True end.
Definition tr_lt (n : N) (tr : list event) : Prop := Forall (ev_lt n) tr.

Lemma tr_lt_mono n m tr : n <= m -> tr_lt n tr -> tr_lt m tr.
Proof.
  intros Hnm H. unfold tr_lt in *. eapply Forall_impl; [|exact H].
  intros [| | |p b ok| | | | | | |]; cbn [ev_lt]; auto; lia.
Qed.

Lemma vp_ext es es' n tr : tr_lt n tr ->
  (forall b, b < n -> e_binfo es b = e_binfo es' b) ->
  forall outs, verify_parents_ok es outs tr = verify_parents_ok es' outs tr.
Proof.
  intros Hlt Hext. induction Hlt as [|e r He Hr IH]; intros outs; cbn [verify_parents_ok]; [reflexivity|].
  destruct e as [| | |p b ok| | | | | | |]; cbn [ev_lt] in He; try apply IH; try reflexivity.
  - unfold e_parent. rewrite (Hext _ He), IH. reflexivity.
  - unfold e_parent, e_invalid. rewrite (Hext _ He), IH. reflexivity.
Qed.

Lemma chain_from_ext es es' n l : (forall b, In b l -> b < n) ->
  (forall b, b < n -> e_binfo es b = e_binfo es' b) ->
  forall p, p < n -> chain_from es p l = chain_from es' p l.
Proof.
  intros Hl Hext. induction l as [|b r IH]; intros p Hp; cbn [chain_from]; [reflexivity|].
  assert (Hb : b < n) by (apply Hl; left; reflexivity).
  unfold e_parent, e_height. rewrite (Hext _ Hb), (Hext _ Hp).
  rewrite IH; [reflexivity | intros x Hx; apply Hl; right; exact Hx | exact Hb].
Qed.

Lemma last_default {A} (l : list A) x d d' : last (x :: l) d = last (x :: l) d'.
Proof. revert x. induction l as [|y r IH]; intros x; [reflexivity|]. cbn [last] in *. apply IH. Qed.

Lemma last_cons {A} (l : list A) x d : last (x :: l) d = last l x.
Proof. destruct l as [|y r]; [reflexivity|]. cbn [last]. apply last_default. Qed.

Lemma chain_from_app es l b : forall p,
  chain_from es p (l ++ [b]) =
  chain_from es p l && ((e_parent es b =? last l p) && (e_height es b =? e_height es (last l p) + 1)).
Proof.
  induction l as [|x r IH]; intros p.
  - cbn [app chain_from last]. rewrite !andb_true_r. reflexivity.
  - rewrite last_cons. cbn [app chain_from]. rewrite IH. rewrite <- !andb_assoc. reflexivity.
Qed.

Lemma last_app_one {A} (l : list A) x d : last (l ++ [x]) d = x.
Proof. induction l as [|y r IH]; [reflexivity|]. cbn [app last]. destruct (r ++ [x]) eqn:E; [destruct r; discriminate|]. exact IH. Qed.

(* ------------------------------------------------------------------ objects *)
Definition oiv (st : state) (h : N) : option (N * bool) :=
  option_map (fun o => (o_id o, o_verified o)) (nthN (s_objs st) h).

Lemma oiv_obj_of st h b v : oiv st h = Some (b, v) -> o_id (obj_of st h) = b /\ o_verified (obj_of st h) = v.
Proof.
  unfold oiv, obj_of. destruct (nthN (s_objs st) h); cbn [option_map]; [|discriminate].
  intros [= <- <-]. auto.
Qed.

Lemma oiv_lt st h x : oiv st h = Some x -> h < lenN (s_objs st).
Proof.
  unfold oiv. destruct (nthN (s_objs st) h) eqn:E; [|discriminate]. intros _. eapply nthN_some_lt; eauto.
Qed.

Lemma oiv_nth st h o : nthN (s_objs st) h = Some o -> oiv st h = Some (o_id o, o_verified o).
Proof. unfold oiv. intros ->. reflexivity. Qed.

(* ------------------------------------------------------------------ the invariant (normal operation) *)
Record Inv (st : state) (es : estate) (tr : list event) : Prop := mkInv {
  i_ready : s_ready st = true;
  i_eready : e_ready es = true;
  i_nostart : e_started es = false;
  i_unres : s_unres st = None;
  i_blocks : s_blocks st = e_blocks es;
  i_pref : s_pref st = e_pref es;
  i_proc : s_verified st = e_proc es;
  i_tree : forall b, b < lenN (e_blocks es) -> e_parent es b <> b ->
           e_parent es b < b /\ e_height es b = e_height es (e_parent es b) + 1;
  i_hid : forall h b, lookup h (e_hid es) = Some b -> exists v, oiv st h = Some (b, v);
  i_procobj : forall b h, lookup b (e_proc es) = Some h ->
              oiv st h = Some (b, true) /\ b < lenN (e_blocks es) /\ ~ In b (e_chain es) /\ ~ In b (e_rej es);
  i_chain_rej : forall b, In b (e_chain es) -> ~ In b (e_rej es);
  i_last : oiv st (s_last st) = Some (e_last es, true) /\
           lookup (e_last es) (s_acc_id st) = Some (s_last st) /\ In (e_last es) (e_chain es);
  i_zero : In 0 (e_chain es);
  i_accid : forall b h, In (b, h) (s_acc_id st) -> (exists v, oiv st h = Some (b, v)) /\ In b (e_chain es);
  i_acch : forall k b, In (k, b) (s_acc_h st) -> In b (e_chain es) /\ e_height es b = k;
  i_parsed : forall b h, In (b, h) (s_parsed st) -> h < lenN (s_objs st);
  i_disk : forall b, In b (e_chain es) ->
           lookup b (s_dih st) = Some (e_height es b) /\ lookup (e_height es b) (s_dhi st) = Some b;
  i_hinj : forall b b', In b (e_chain es) -> In b' (e_chain es) -> e_height es b = e_height es b' -> b = b';
  i_hmax : forall b, In b (e_chain es) -> e_height es b <= e_height es (e_last es);
  i_chain_lt : forall b, In b (e_chain es) -> b < lenN (e_blocks es);
  i_chain_parent : forall b, In b (e_chain es) -> b <> 0 -> In (e_parent es b) (e_chain es);
  i_queue : e_acc es = accepts tr ++ map (fun h => o_id (obj_of st h)) (s_queue st);
  i_pending : lenN (s_queue st) = e_pending es;
  i_queue_chain : forall h, In h (s_queue st) -> In (o_id (obj_of st h)) (e_chain es) /\ o_id (obj_of st h) <> 0;
  i_acc_chain : chain_from es 0 (e_acc es) = true;
  i_acc_last : e_last es = last (e_acc es) 0;
  i_acc_in : forall b, In b (e_acc es) -> In b (e_chain es);
  i_acc_nodup : NoDup (e_acc es);
  i_nacc : naccepted tr = 0 :: accepts tr;
  i_nrej : nrejected tr = e_rej es;
  i_nver : nverified tr = verified_parsed es;
  i_npre1 : npreaccepted tr = [];
  i_npre2 : nprerejected tr = [];
  i_vp : verify_parents_ok es [0] tr = true;
  i_outs : forall h b, oiv st h = Some (b, true) -> In b (outs_after [0] tr);
  i_trlt : tr_lt (lenN (e_blocks es)) tr;
  i_unv : forall h b, oiv st h = Some (b, true) ->
          In h (e_built es) \/ hasK b (e_proc es) = true \/ In b (e_chain es) \/ In b (e_rej es);
  i_built : forall h, In h (e_built es) -> exists b, oiv st h = Some (b, true)
}.

Lemma oiv_init h x : oiv (mkS true init_blocks [mkO 0 true true] [] [(0,0)] [(0,0)] [] [(0,0)] [(0,0)] [] 0 (Some 0) 0 None) h = Some x ->
  h = 0 /\ x = (0, true).
Proof.
  unfold oiv. cbn [s_objs]. unfold nthN. destruct (N.to_nat h) as [|[|n]] eqn:E; cbn; try discriminate.
  intros [= <-]. split; [lia | reflexivity].
Qed.

Lemma inv_init c : c_ready c = true -> Inv (init_state c) (init_estate c) (init_events c).
Proof.
  intros Hr. unfold init_state, init_estate, init_events. rewrite Hr.
  constructor; cbn; try reflexivity; try tauto.
  - intros b Hb. assert (b = 0) as -> by lia. cbn. congruence.
  - intros h b. destruct (h =? 0) eqn:E; [|discriminate]. apply N.eqb_eq in E. subst.
    intros [= <-]. exists true. reflexivity.
  - intros b h [= ].
  - intros b h [[= <- <-]|[]]. split; [exists true; reflexivity | auto].
  - intros k b [[= <- <-]|[]]. split; [auto | reflexivity].
  - intros b [<-|[]]. split; reflexivity.
  - intros b b' [<-|[]] [<-|[]] _. reflexivity.
  - intros b [<-|[]]. cbn. lia.
  - intros b [<-|[]]. lia.
  - intros b [<-|[]] H. congruence.
  - constructor.
  - intros h b H. apply oiv_init in H. destruct H as [_ [= <-]]. left. reflexivity.
  - constructor; [exact I | constructor].
  - intros h b H. apply oiv_init in H. destruct H as [_ [= <-]]. right. right. left. left. reflexivity.
Qed.

(* ------------------------------------------------------------------ extensionality in the engine state *)
Lemma chain_from_blocks es es' l : e_blocks es = e_blocks es' -> forall p, chain_from es p l = chain_from es' p l.
Proof.
  intros E. induction l as [|b r IH]; intros p; cbn [chain_from]; [reflexivity|].
  unfold e_parent, e_height, e_binfo. rewrite E, IH. reflexivity.
Qed.

Lemma vp_blocks es es' tr : e_blocks es = e_blocks es' -> forall outs, verify_parents_ok es outs tr = verify_parents_ok es' outs tr.
Proof.
  intros E. induction tr as [|e r IH]; intros outs; cbn [verify_parents_ok]; [reflexivity|].
  destruct e; try apply IH; try reflexivity; unfold e_parent, e_invalid, e_binfo; rewrite E, IH; reflexivity.
Qed.

Ltac old HI :=
  first [ exact (i_ready _ _ _ HI) | exact (i_eready _ _ _ HI) | exact (i_nostart _ _ _ HI) | exact (i_unres _ _ _ HI)
        | exact (i_blocks _ _ _ HI) | exact (i_pref _ _ _ HI) | exact (i_proc _ _ _ HI) | exact (i_tree _ _ _ HI)
        | exact (i_hid _ _ _ HI) | exact (i_procobj _ _ _ HI) | exact (i_chain_rej _ _ _ HI) | exact (i_last _ _ _ HI)
        | exact (i_zero _ _ _ HI) | exact (i_accid _ _ _ HI) | exact (i_acch _ _ _ HI) | exact (i_parsed _ _ _ HI)
        | exact (i_disk _ _ _ HI) | exact (i_hinj _ _ _ HI) | exact (i_hmax _ _ _ HI) | exact (i_chain_lt _ _ _ HI)
        | exact (i_chain_parent _ _ _ HI) | exact (i_queue _ _ _ HI) | exact (i_pending _ _ _ HI)
        | exact (i_queue_chain _ _ _ HI) | exact (i_acc_last _ _ _ HI) | exact (i_acc_in _ _ _ HI)
        | exact (i_acc_nodup _ _ _ HI) | exact (i_nacc _ _ _ HI) | exact (i_nrej _ _ _ HI) | exact (i_nver _ _ _ HI)
        | exact (i_npre1 _ _ _ HI) | exact (i_npre2 _ _ _ HI) | exact (i_outs _ _ _ HI) | exact (i_trlt _ _ _ HI)
        | exact (i_unv _ _ _ HI) | exact (i_built _ _ _ HI) ].

Definition is_read (o : op) : bool :=
  match o with
  | OGetBlock _ | OGetIDAtHeight _ | OGetByHeight _ | OLastAccepted | OGetLastProcessed | OGetPreferred | OHealth => true
  | _ => false
  end.

Lemma step_read c st o : is_read o = true -> exists r, step c st o = (st, r, []).
Proof.
  destruct o; cbn [is_read]; try discriminate; intros _; cbn [step].
  - destruct (get_block st b); eauto.
  - destruct (id_at_height st k); eauto.
  - destruct (block_by_height st k); eauto.
  - eauto.
  - destruct (s_lastproc st); [destruct (o_accepted _)|]; eauto.
  - destruct (get_block st (s_pref st)); [destruct (o_verified _)|]; eauto.
  - eauto.
Qed.

Lemma eupd_read es o r evs : is_read o = true -> eupd es o r evs = es.
Proof. destruct o; cbn [is_read]; try discriminate; reflexivity. Qed.

Lemma inv_setpref st es tr b : Inv st es tr ->
  Inv (set_pref b st) (eupd es (OSetPref b) RUnit []) tr.
Proof.
  intros HI. cbn [eupd].
  constructor; try (old HI); cbn [e_pref set_pref s_pref e_acc].
  - reflexivity.
  - erewrite chain_from_blocks; [exact (i_acc_chain _ _ _ HI) | reflexivity].
  - erewrite vp_blocks; [exact (i_vp _ _ _ HI) | reflexivity].
Qed.

Lemma oiv_inv st h b v : oiv st h = Some (b, v) ->
  exists ob, nthN (s_objs st) h = Some ob /\ o_id ob = b /\ o_verified ob = v.
Proof.
  unfold oiv. destruct (nthN (s_objs st) h) as [ob|]; cbn [option_map]; [|discriminate].
  intros [= <- <-]. eauto.
Qed.

Lemma hasK_lookup {V} k (m : list (N * V)) : hasK k m = true <-> exists v, lookup k m = Some v.
Proof. unfold hasK. destruct (lookup k m); split; eauto; try discriminate. intros [v [=]]. Qed.

Lemma hasK_remove_key {V} k k' (m : list (N * V)) : hasK k (remove_key k' m) = negb (k =? k') && hasK k m.
Proof. unfold hasK. rewrite lookup_remove_key. destruct (k =? k'); reflexivity. Qed.

Lemma hasK_mput {V} k k' (v : V) m : hasK k (mput k' v m) = (k =? k') || hasK k m.
Proof. unfold hasK. rewrite lookup_mput. destruct (k =? k'); reflexivity. Qed.

Lemma inv_reject c Q st es tr h st' r evs :
  Inv st es tr -> eguard Q es (OReject h) = true -> step c st (OReject h) = (st', r, evs) ->
  Inv st' (eupd es (OReject h) r evs) (tr ++ evs).
Proof.
  intros HI HG HS. cbn [eguard] in HG.
  destruct (lookup h (e_hid es)) as [b|] eqn:Eh; [|discriminate].
  destruct (lookup b (e_proc es)) as [h'|] eqn:Ep; [|discriminate].
  apply andb_true_iff in HG. destruct HG as [HG _]. apply andb_true_iff in HG. destruct HG as [HG _].
  apply N.eqb_eq in HG. subst h'.
  destruct (i_procobj _ _ _ HI _ _ Ep) as (Ho & Hlt & Hnc & Hnr).
  destruct (oiv_inv _ _ _ _ Ho) as (ob & Hn & Hid & Hv).
  cbn [step] in HS. rewrite Hn, Hv, Hid in HS. injection HS as <- <- <-.
  cbn [eupd]. rewrite Eh.
  constructor; try (old HI); cbn [e_proc e_rej e_chain e_acc e_built set_verified s_verified s_objs e_blocks].
  - rewrite (i_proc _ _ _ HI). reflexivity.
  - intros b0 h0 H0. rewrite lookup_remove_key in H0. destruct (b0 =? b) eqn:E; [discriminate|].
    destruct (i_procobj _ _ _ HI _ _ H0) as (A & B & C & D). repeat split; auto.
    intros Hin. apply in_app_or in Hin. destruct Hin as [Hin|[<-|[]]]; [auto|]. rewrite N.eqb_refl in E. discriminate.
  - intros b0 Hc Hin. apply in_app_or in Hin. destruct Hin as [Hin|[<-|[]]].
    + exact (i_chain_rej _ _ _ HI _ Hc Hin).
    + auto.
  - rewrite accepts_app. cbn. rewrite app_nil_r. exact (i_queue _ _ _ HI).
  - erewrite chain_from_blocks; [exact (i_acc_chain _ _ _ HI) | reflexivity].
  - rewrite naccepted_app, accepts_app. cbn. rewrite !app_nil_r. exact (i_nacc _ _ _ HI).
  - rewrite nrejected_app, (i_nrej _ _ _ HI). reflexivity.
  - rewrite nverified_app. cbn. rewrite app_nil_r. exact (i_nver _ _ _ HI).
  - rewrite npreaccepted_app, (i_npre1 _ _ _ HI). reflexivity.
  - rewrite nprerejected_app, (i_npre2 _ _ _ HI). reflexivity.
  - rewrite vp_app. erewrite vp_blocks; [rewrite (i_vp _ _ _ HI)|reflexivity]. reflexivity.
  - intros h0 b0 H0. rewrite outs_after_app. apply outs_after_mono. exact (i_outs _ _ _ HI _ _ H0).
  - apply Forall_app. split; [exact (i_trlt _ _ _ HI) | repeat constructor].
  - intros h0 b0 H0. destruct (i_unv _ _ _ HI _ _ H0) as [A|[A|[A|A]]]; auto.
    + destruct (b0 =? b) eqn:E.
      * apply N.eqb_eq in E. subst. right. right. right. apply in_or_app. right. left. reflexivity.
      * right. left. rewrite hasK_remove_key, E, A. reflexivity.
    + right. right. right. apply in_or_app. auto.
Qed.

Lemma oiv_mark_accepted st h x : oiv (mark_accepted h st) x = oiv st x.
Proof.
  unfold oiv, mark_accepted, obj_of. cbn [s_objs set_objs]. rewrite nthN_setN.
  destruct (h =? x) eqn:E; [|reflexivity]. apply N.eqb_eq in E. subst x.
  destruct (nthN (s_objs st) h); reflexivity.
Qed.

Lemma oid_mark_accepted st h x : o_id (obj_of (mark_accepted h st) x) = o_id (obj_of st x).
Proof.
  unfold mark_accepted, obj_of. cbn [s_objs set_objs]. rewrite nthN_setN.
  destruct (h =? x) eqn:E; [|reflexivity]. apply N.eqb_eq in E. subst x.
  destruct (nthN (s_objs st) h); reflexivity.
Qed.

Lemma lenN_mark_accepted st h : lenN (s_objs (mark_accepted h st)) = lenN (s_objs st).
Proof. unfold mark_accepted. cbn [s_objs set_objs]. apply lenN_setN. Qed.

Lemma get_block_chain st es tr b : Inv st es tr -> In b (e_chain es) ->
  exists r, get_block st b = Some r /\ o_id (ref_obj st r) = b.
Proof.
  intros HI Hc. unfold get_block.
  destruct (lookup b (s_verified st)) as [h|] eqn:E1.
  - rewrite (i_proc _ _ _ HI) in E1. destruct (i_procobj _ _ _ HI _ _ E1) as (_ & _ & Hn & _). contradiction.
  - destruct (lookup b (s_acc_id st)) as [h|] eqn:E2.
    + exists (BH h). split; [reflexivity|]. apply lookup_In in E2.
      destruct (i_accid _ _ _ HI _ _ E2) as [[v Hv] _]. cbn [ref_obj]. apply (oiv_obj_of _ _ _ _ Hv).
    + destruct (i_disk _ _ _ HI _ Hc) as [D1 D2]. unfold disk_get. rewrite D1, D2.
      exists (BE b). split; reflexivity.
Qed.

Lemma inv_process c Q st es tr st' r evs :
  Inv st es tr -> eguard Q es OProcess = true -> step c st OProcess = (st', r, evs) ->
  Inv st' (eupd es OProcess r evs) (tr ++ evs).
Proof.
  intros HI HG HS. cbn [eguard] in HG. apply N.ltb_lt in HG.
  pose proof (i_pending _ _ _ HI) as Hp.
  cbn [step] in HS. destruct (s_queue st) as [|h q] eqn:Eq; [unfold lenN in Hp; cbn in Hp; lia|].
  assert (Hqc : In h (s_queue st)) by (rewrite Eq; left; reflexivity).
  destruct (i_queue_chain _ _ _ HI _ Hqc) as [Hc Hnz].
  set (b := o_id (obj_of st h)) in *.
  assert (Hpar : parent st b = e_parent es b).
  { unfold parent, e_parent, binfo_of, e_binfo. rewrite (i_blocks _ _ _ HI). reflexivity. }
  destruct (get_block_chain _ _ _ _ HI (i_chain_parent _ _ _ HI _ Hc Hnz)) as (pr & Hg & _).
  rewrite Hpar, Hg in HS. injection HS as <- <- <-.
  cbn [eupd].
  assert (Ho : forall x, oiv (set_lastproc (Some h) (set_queue q (mark_accepted h st))) x = oiv st x).
  { intros x. exact (oiv_mark_accepted st h x). }
  assert (Hi : forall x, o_id (obj_of (set_lastproc (Some h) (set_queue q (mark_accepted h st))) x) = o_id (obj_of st x)).
  { intros x. exact (oid_mark_accepted st h x). }
  constructor; try (old HI);
    cbn [e_proc e_rej e_chain e_acc e_built e_pending e_blocks e_hid e_last set_lastproc set_queue s_queue s_last s_acc_id s_parsed].
  - intros h0 b0 H0. rewrite Ho. exact (i_hid _ _ _ HI _ _ H0).
  - intros b0 h0 H0. rewrite Ho. exact (i_procobj _ _ _ HI _ _ H0).
  - rewrite Ho. exact (i_last _ _ _ HI).
  - intros b0 h0 H0. destruct (i_accid _ _ _ HI _ _ H0) as [[v Hv] Hin]. split; [exists v; rewrite Ho; exact Hv | exact Hin].
  - intros b0 h0 H0. change (h0 < lenN (s_objs (mark_accepted h st))). rewrite lenN_mark_accepted. exact (i_parsed _ _ _ HI _ _ H0).
  - rewrite accepts_app. cbn [accepts flat_map app]. rewrite (i_queue _ _ _ HI), Eq. cbn [map].
    rewrite <- app_assoc. cbn [app]. f_equal. f_equal. apply map_ext. intros x. symmetry. apply Hi.
  - rewrite <- Hp. unfold lenN. cbn [length]. lia.
  - intros h0 H0. rewrite Hi. apply (i_queue_chain _ _ _ HI). rewrite Eq. right. exact H0.
  - erewrite chain_from_blocks; [exact (i_acc_chain _ _ _ HI) | reflexivity].
  - rewrite naccepted_app, accepts_app. cbn [naccepted accepts flat_map app]. rewrite (i_nacc _ _ _ HI). reflexivity.
  - rewrite nrejected_app. cbn. rewrite app_nil_r. exact (i_nrej _ _ _ HI).
  - rewrite nverified_app. cbn. rewrite app_nil_r. exact (i_nver _ _ _ HI).
  - rewrite npreaccepted_app, (i_npre1 _ _ _ HI). reflexivity.
  - rewrite nprerejected_app, (i_npre2 _ _ _ HI). reflexivity.
  - rewrite vp_app. erewrite vp_blocks; [rewrite (i_vp _ _ _ HI)|reflexivity]. reflexivity.
  - intros h0 b0 H0. rewrite Ho in H0. rewrite outs_after_app. apply outs_after_mono. exact (i_outs _ _ _ HI _ _ H0).
  - apply Forall_app. split; [exact (i_trlt _ _ _ HI) | repeat constructor].
  - intros h0 b0 H0. rewrite Ho in H0. exact (i_unv _ _ _ HI _ _ H0).
  - intros h0 H0. destruct (i_built _ _ _ HI _ H0) as [b0 Hb]. exists b0. rewrite Ho. exact Hb.
Qed.

Lemma height_eq st es tr b : Inv st es tr -> height st b = e_height es b.
Proof. intros HI. unfold height, e_height, binfo_of, e_binfo. rewrite (i_blocks _ _ _ HI). reflexivity. Qed.
Lemma parent_eq st es tr b : Inv st es tr -> parent st b = e_parent es b.
Proof. intros HI. unfold parent, e_parent, binfo_of, e_binfo. rewrite (i_blocks _ _ _ HI). reflexivity. Qed.
Lemma invalid_eq st es tr b : Inv st es tr -> invalid st b = e_invalid es b.
Proof. intros HI. unfold invalid, e_invalid, binfo_of, e_binfo. rewrite (i_blocks _ _ _ HI). reflexivity. Qed.

Lemma NoDup_app_one {A} (l : list A) x : NoDup l -> ~ In x l -> NoDup (l ++ [x]).
Proof.
  intros Hn Hx. induction Hn as [|y r Hy Hr IH]; cbn [app].
  - constructor; [intros []|constructor].
  - constructor.
    + intros Hin. apply in_app_or in Hin. destruct Hin as [Hin|[<-|[]]]; [contradiction|]. apply Hx. left. reflexivity.
    + apply IH. intros Hin. apply Hx. right. exact Hin.
Qed.

Ltac fold_es es :=
  repeat match goal with
  | |- context [e_height ?E ?x] => lazymatch E with es => fail | _ => change (e_height E x) with (e_height es x) end
  | |- context [e_parent ?E ?x] => lazymatch E with es => fail | _ => change (e_parent E x) with (e_parent es x) end
  | |- context [e_invalid ?E ?x] => lazymatch E with es => fail | _ => change (e_invalid E x) with (e_invalid es x) end
  end.

Lemma inv_accept c Q st es tr h st' r evs :
  1 <= c_W c ->
  Inv st es tr -> eguard Q es (OAccept h) = true -> step c st (OAccept h) = (st', r, evs) ->
  Inv st' (eupd es (OAccept h) r evs) (tr ++ evs).
Proof.
  intros HW HI HG HS. cbn [eguard] in HG.
  destruct (lookup h (e_hid es)) as [b|] eqn:Eh; [|discriminate].
  destruct (lookup b (e_proc es)) as [h'|] eqn:Ep; [|discriminate].
  rewrite !andb_true_iff in HG. destruct HG as [[[HG1 HG2] _] _].
  apply N.eqb_eq in HG1. subst h'. apply N.eqb_eq in HG2.
  destruct (i_procobj _ _ _ HI _ _ Ep) as (Ho & Hlt & Hnc & Hnr).
  destruct (oiv_inv _ _ _ _ Ho) as (ob & Hn & Hid & Hv).
  destruct (i_last _ _ _ HI) as (Hl1 & Hl2 & Hl3).
  assert (Hne : e_parent es b <> b) by (rewrite HG2; intros E; rewrite E in Hl3; contradiction).
  destruct (i_tree _ _ _ HI _ Hlt Hne) as [_ Hh]. rewrite HG2 in Hh.
  assert (Hb0 : b <> 0) by (intros ->; apply Hnc; exact (i_zero _ _ _ HI)).
  assert (Hoid : o_id (obj_of st h) = b) by (apply (oiv_obj_of _ _ _ _ Ho)).
  cbn [step] in HS. rewrite Hn, Hv, Hid, (i_ready _ _ _ HI) in HS. cbn [andb negb] in HS.
  injection HS as <- <- <-.
  cbn [eupd]. rewrite Eh, (i_eready _ _ _ HI).
  assert (Hht : height st b = e_height es b) by (eapply height_eq; eauto).
  match goal with |- Inv (set_last_accepted _ _ ?S) _ _ => set (st3 := S) end.
  assert (E3 : o_id (obj_of st3 h) = b) by exact Hoid.
  assert (E4 : height st3 b = e_height es b) by exact Hht.
  unfold set_last_accepted. cbv zeta. rewrite E3, E4.
  subst st3. unfold index_write.
  cbn [set_verified set_queue s_ready s_blocks s_objs s_verified s_acc_id s_acc_h s_parsed s_dih s_dhi s_queue s_last s_lastproc s_pref s_unres].
  rewrite Hht.
  match goal with |- Inv ?S _ _ => set (st1 := S) end.
  assert (Hobj : forall x, obj_of st1 x = obj_of st x) by reflexivity.
  assert (Hoiv : forall x, oiv st1 x = oiv st x) by reflexivity.
  constructor; try (old HI);
    cbn [e_proc e_rej e_chain e_acc e_built e_pending e_blocks e_hid e_last e_ready e_started];
    try (subst st1; cbn [s_ready s_blocks s_objs s_verified s_acc_id s_acc_h s_parsed s_dih s_dhi s_queue s_last s_lastproc s_pref s_unres]).
  - reflexivity.
  - rewrite (i_proc _ _ _ HI). reflexivity.
  - intros b0 h0 H0. rewrite lookup_remove_key in H0. destruct (b0 =? b) eqn:E; [discriminate|].
    destruct (i_procobj _ _ _ HI _ _ H0) as (A & B & C & D). repeat split; auto.
    intros [<-|Hin]; [rewrite N.eqb_refl in E; discriminate | auto].
  - intros b0 [<-|Hin]; [exact Hnr | exact (i_chain_rej _ _ _ HI _ Hin)].
  - split; [exact Ho|]. split; [apply lookup_fifo_put_eq; exact HW | left; reflexivity].
  - right. exact (i_zero _ _ _ HI).
  - intros b0 h0 H0. apply In_fifo_put in H0. destruct H0 as [[-> ->]|H0].
    + split; [exists true; exact Ho | left; reflexivity].
    + destruct (i_accid _ _ _ HI _ _ H0) as [A B]. split; [exact A | right; exact B].
  - intros k b0 H0. fold_es es. apply In_fifo_put in H0. destruct H0 as [[-> ->]|H0].
    + split; [left; reflexivity | reflexivity].
    + destruct (i_acch _ _ _ HI _ _ H0) as [A B]. split; [right; exact A | exact B].
  - intros b0 Hin. fold_es es. rewrite !lookup_mput. destruct Hin as [<-|Hin].
    + rewrite !N.eqb_refl. split; reflexivity.
    + destruct (i_disk _ _ _ HI _ Hin) as [D1 D2].
      assert (b0 <> b) by (intros ->; contradiction).
      pose proof (i_hmax _ _ _ HI _ Hin) as Hm.
      destruct (b0 =? b) eqn:E1; [apply N.eqb_eq in E1; contradiction|].
      destruct (e_height es b0 =? e_height es b) eqn:E2; [apply N.eqb_eq in E2; lia|].
      split; assumption.
  - intros b0 b' H1 H2. fold_es es. intros Heq. destruct H1 as [<-|H1], H2 as [<-|H2]; auto.
    + pose proof (i_hmax _ _ _ HI _ H2). lia.
    + pose proof (i_hmax _ _ _ HI _ H1). lia.
    + exact (i_hinj _ _ _ HI _ _ H1 H2 Heq).
  - intros b0 Hin. fold_es es. destruct Hin as [<-|Hin]; [lia|]. pose proof (i_hmax _ _ _ HI _ Hin). lia.
  - intros b0 [<-|Hin]; [exact Hlt | exact (i_chain_lt _ _ _ HI _ Hin)].
  - intros b0 Hin Hnz. fold_es es. right. destruct Hin as [<-|Hin].
    + rewrite HG2. exact Hl3.
    + exact (i_chain_parent _ _ _ HI _ Hin Hnz).
  - rewrite accepts_app. cbn [accepts flat_map]. rewrite app_nil_r, map_app. cbn [map].
    rewrite (i_queue _ _ _ HI), <- app_assoc. f_equal.
    change (map (fun h0 : N => o_id (obj_of st h0)) (s_queue st) ++ [b] = map (fun h0 : N => o_id (obj_of st h0)) (s_queue st) ++ [o_id (obj_of st h)]).
    rewrite Hoid. reflexivity.
  - rewrite lenN_app, (i_pending _ _ _ HI). reflexivity.
  - intros h0 Hin. apply in_app_or in Hin. destruct Hin as [Hin|[<-|[]]].
    + destruct (i_queue_chain _ _ _ HI _ Hin) as [A B]. split; [right; exact A | exact B].
    + split; [left; symmetry; exact Hoid | change (o_id (obj_of st h) <> 0); rewrite Hoid; exact Hb0].
  - rewrite chain_from_app. fold_es es.
    erewrite chain_from_blocks; [rewrite (i_acc_chain _ _ _ HI)|reflexivity].
    rewrite <- (i_acc_last _ _ _ HI), HG2, Hh, !N.eqb_refl. reflexivity.
  - rewrite last_app_one. reflexivity.
  - intros b0 Hin. apply in_app_or in Hin. destruct Hin as [Hin|[<-|[]]]; [right; exact (i_acc_in _ _ _ HI _ Hin) | left; reflexivity].
  - apply NoDup_app_one; [exact (i_acc_nodup _ _ _ HI)|]. intros Hin. apply Hnc. exact (i_acc_in _ _ _ HI _ Hin).
  - rewrite naccepted_app, accepts_app. cbn. rewrite !app_nil_r. exact (i_nacc _ _ _ HI).
  - rewrite nrejected_app. cbn. rewrite app_nil_r. exact (i_nrej _ _ _ HI).
  - rewrite nverified_app. cbn. rewrite app_nil_r. exact (i_nver _ _ _ HI).
  - rewrite npreaccepted_app, (i_npre1 _ _ _ HI). reflexivity.
  - rewrite nprerejected_app, (i_npre2 _ _ _ HI). reflexivity.
  - rewrite vp_app. erewrite vp_blocks; [rewrite (i_vp _ _ _ HI)|reflexivity]. reflexivity.
  - intros h0 b0 H0. rewrite outs_after_app. apply outs_after_mono. exact (i_outs _ _ _ HI _ _ H0).
  - apply Forall_app. split; [exact (i_trlt _ _ _ HI) | repeat constructor].
  - intros h0 b0 H0. destruct (i_unv _ _ _ HI _ _ H0) as [A|[A|[A|A]]]; auto.
    + destruct (b0 =? b) eqn:E.
      * apply N.eqb_eq in E. subst. right. right. left. left. reflexivity.
      * right. left. rewrite hasK_remove_key, E, A. reflexivity.
    + right. right. left. right. exact A.
Qed.


Lemma oiv_mark_verified st h x :
  oiv (mark_verified h st) x =
  if h =? x then match oiv st x with Some (b, _) => Some (b, true) | None => None end else oiv st x.
Proof.
  unfold oiv, mark_verified, obj_of. cbn [s_objs set_objs]. rewrite nthN_setN.
  destruct (h =? x) eqn:E; [|reflexivity]. apply N.eqb_eq in E. subst x.
  destruct (nthN (s_objs st) h); reflexivity.
Qed.

Lemma oid_mark_verified st h x : o_id (obj_of (mark_verified h st) x) = o_id (obj_of st x).
Proof.
  unfold mark_verified, obj_of. cbn [s_objs set_objs]. rewrite nthN_setN.
  destruct (h =? x) eqn:E; [|reflexivity]. apply N.eqb_eq in E. subst x.
  destruct (nthN (s_objs st) h); reflexivity.
Qed.

Lemma lenN_mark_verified st h : lenN (s_objs (mark_verified h st)) = lenN (s_objs st).
Proof. unfold mark_verified. cbn [s_objs set_objs]. apply lenN_setN. Qed.

Lemma get_block_live st es tr p : Inv st es tr ->
  hasK p (e_proc es) || (p =? e_last es) = true ->
  exists hp, get_block st p = Some (BH hp) /\ oiv st hp = Some (p, true).
Proof.
  intros HI H. unfold get_block. rewrite (i_proc _ _ _ HI).
  destruct (lookup p (e_proc es)) as [hp|] eqn:E.
  - exists hp. split; [reflexivity|]. apply (i_procobj _ _ _ HI _ _ E).
  - unfold hasK in H. rewrite E in H. cbn [orb] in H. apply N.eqb_eq in H. subst p.
    destruct (i_last _ _ _ HI) as (A & B & _). rewrite B. eauto.
Qed.

Lemma verified_parsed_app es x :
  map fst (filter (fun y : N * bool => negb (snd y)) (e_ver es ++ [x])) =
  verified_parsed es ++ (if snd x then [] else [fst x]).
Proof.
  unfold verified_parsed. rewrite filter_app, map_app. cbn [filter]. destruct (snd x); reflexivity.
Qed.

Lemma inv_verify c Q st es tr h st' r evs :
  Inv st es tr -> eguard Q es (OVerify h) = true -> step c st (OVerify h) = (st', r, evs) ->
  Inv st' (eupd es (OVerify h) r evs) (tr ++ evs).
Proof.
  intros HI HG HS. cbn [eguard] in HG.
  destruct (lookup h (e_hid es)) as [b|] eqn:Eh; [|discriminate].
  rewrite !andb_true_iff in HG. destruct HG as [[[[G1 G2] G3] G4] G5].
  apply negb_true_iff in G1, G2, G3. apply N.ltb_lt in G4.
  rewrite memN_false in G2, G3.
  destruct (i_hid _ _ _ HI _ _ Eh) as [v Ho].
  destruct (oiv_inv _ _ _ _ Ho) as (ob & Hn & Hid & Hv).
  cbn [step] in HS. rewrite Hn, (i_ready _ _ _ HI), Hid, Hv in HS. cbn [negb] in HS.
  destruct v.
  - (* already verified: a built block, no callback *)
    injection HS as <- <- <-. cbn [eupd]. rewrite Eh, (i_eready _ _ _ HI).
    assert (Hb : In h (e_built es)).
    { destruct (i_unv _ _ _ HI _ _ Ho) as [A|[A|[A|A]]]; [exact A | congruence | contradiction | contradiction]. }
    apply memN_In in Hb. rewrite Hb. rewrite app_nil_r.
    constructor; try (old HI); cbn [e_proc e_rej e_chain e_acc e_built e_pending e_blocks e_hid e_last e_ready e_started e_ver set_verified s_verified].
    + reflexivity.
    + rewrite (i_proc _ _ _ HI). reflexivity.
    + intros b0 h0 H0. rewrite lookup_mput in H0. destruct (b0 =? b) eqn:E.
      * apply N.eqb_eq in E. injection H0 as <-. subst b0. repeat split; assumption.
      * exact (i_procobj _ _ _ HI _ _ H0).
    + erewrite chain_from_blocks; [exact (i_acc_chain _ _ _ HI) | reflexivity].
    + unfold verified_parsed. cbn [e_ver]. rewrite verified_parsed_app. cbn [snd]. rewrite app_nil_r. exact (i_nver _ _ _ HI).
    + erewrite vp_blocks; [exact (i_vp _ _ _ HI) | reflexivity].
    + intros h0 b0 H0. destruct (i_unv _ _ _ HI _ _ H0) as [A|[A|[A|A]]]; auto.
      right. left. rewrite hasK_mput, A. apply orb_true_r.
  - (* verification against the parent *)
    destruct (get_block_live _ _ _ (e_parent es b) HI G5) as (hp & Hg & Hop).
    rewrite (parent_eq _ _ _ b HI), Hg in HS. cbn [ref_obj] in HS.
    destruct (oiv_obj_of _ _ _ _ Hop) as [Hpid Hpv]. rewrite Hpv, Hpid in HS. cbn [negb] in HS.
    rewrite (invalid_eq _ _ _ b HI) in HS.
    assert (Hpout : memN (e_parent es b) (outs_after [0] tr) = true) by (apply memN_In; exact (i_outs _ _ _ HI _ _ Hop)).
    destruct (e_invalid es b) eqn:Einv.
    + (* the chain rejects the block *)
      injection HS as <- <- <-. cbn [eupd].
      constructor; try (old HI).
      * rewrite accepts_app. cbn. rewrite app_nil_r. exact (i_queue _ _ _ HI).
      * exact (i_acc_chain _ _ _ HI).
      * rewrite naccepted_app, accepts_app. cbn. rewrite !app_nil_r. exact (i_nacc _ _ _ HI).
      * rewrite nrejected_app. cbn. rewrite app_nil_r. exact (i_nrej _ _ _ HI).
      * rewrite nverified_app. cbn. rewrite app_nil_r. exact (i_nver _ _ _ HI).
      * rewrite npreaccepted_app, (i_npre1 _ _ _ HI). reflexivity.
      * rewrite nprerejected_app, (i_npre2 _ _ _ HI). reflexivity.
      * rewrite vp_app, (i_vp _ _ _ HI). cbn [verify_parents_ok andb]. rewrite Hpout, N.eqb_refl, Einv. reflexivity.
      * intros h0 b0 H0. rewrite outs_after_app. apply outs_after_mono. exact (i_outs _ _ _ HI _ _ H0).
      * apply Forall_app. split; [exact (i_trlt _ _ _ HI) | repeat constructor; exact G4].
    + (* verified *)
      injection HS as <- <- <-. cbn [eupd]. rewrite Eh, (i_eready _ _ _ HI).
      assert (Hnb : memN h (e_built es) = false).
      { apply memN_false. intros Hin. destruct (i_built _ _ _ HI _ Hin) as [b' Hb']. congruence. }
      rewrite Hnb.
      set (st1 := mark_verified h st).
      assert (Ho1 : forall a x, oiv (set_verified a st1) x = if h =? x then Some (b, true) else oiv st x).
      { intros a x. change (oiv st1 x = if h =? x then Some (b, true) else oiv st x).
        unfold st1. rewrite oiv_mark_verified. destruct (h =? x) eqn:E; [|reflexivity].
        apply N.eqb_eq in E. subst x. rewrite Ho. reflexivity. }
      assert (Hi1 : forall a x, o_id (obj_of (set_verified a st1) x) = o_id (obj_of st x)).
      { intros a x. exact (oid_mark_verified st h x). }
      assert (Hne : forall x y, oiv st x = Some (y, true) -> (h =? x) = false).
      { intros x y Hx. destruct (h =? x) eqn:E; [|reflexivity]. apply N.eqb_eq in E. subst x. congruence. }
      constructor; try (old HI);
        cbn [e_proc e_rej e_chain e_acc e_built e_pending e_blocks e_hid e_last e_ready e_started e_ver set_verified s_verified s_last s_acc_id s_parsed s_queue].
      * reflexivity.
      * rewrite (i_proc _ _ _ HI). reflexivity.
      * intros h0 b0 H0. rewrite Ho1. destruct (h =? h0) eqn:E.
        -- apply N.eqb_eq in E. subst h0. rewrite Eh in H0. injection H0 as <-. eauto.
        -- exact (i_hid _ _ _ HI _ _ H0).
      * intros b0 h0 H0. rewrite lookup_mput in H0. rewrite Ho1. destruct (b0 =? b) eqn:E.
        -- apply N.eqb_eq in E. injection H0 as <-. subst b0. rewrite N.eqb_refl. repeat split; assumption.
        -- destruct (i_procobj _ _ _ HI _ _ H0) as (A & B & C & D). rewrite (Hne _ _ A). repeat split; assumption.
      * destruct (i_last _ _ _ HI) as (A & B & C). change (s_last st1) with (s_last st). change (s_acc_id st1) with (s_acc_id st).
        rewrite Ho1, (Hne _ _ A). repeat split; assumption.
      * intros b0 h0 H0. destruct (i_accid _ _ _ HI _ _ H0) as [[v Hv'] B]. split; [|exact B].
        rewrite Ho1. destruct (h =? h0) eqn:E; [|eauto]. apply N.eqb_eq in E. subst h0.
        rewrite Ho in Hv'. injection Hv' as <- _. eauto.
      * intros b0 h0 H0. change (h0 < lenN (s_objs (mark_verified h st))). rewrite lenN_mark_verified. exact (i_parsed _ _ _ HI _ _ H0).
      * rewrite accepts_app. cbn [accepts flat_map app]. rewrite app_nil_r, (i_queue _ _ _ HI). f_equal.
        apply map_ext. intros x. symmetry. apply Hi1.
      * intros h0 H0. rewrite Hi1. exact (i_queue_chain _ _ _ HI _ H0).
      * erewrite chain_from_blocks; [exact (i_acc_chain _ _ _ HI) | reflexivity].
      * rewrite naccepted_app, accepts_app. cbn. rewrite !app_nil_r. exact (i_nacc _ _ _ HI).
      * rewrite nrejected_app. cbn. rewrite app_nil_r. exact (i_nrej _ _ _ HI).
      * rewrite nverified_app. cbn [nverified flat_map app]. unfold verified_parsed at 1. cbn [e_ver].
        rewrite verified_parsed_app. cbn [snd fst]. rewrite (i_nver _ _ _ HI). reflexivity.
      * rewrite npreaccepted_app, (i_npre1 _ _ _ HI). reflexivity.
      * rewrite nprerejected_app, (i_npre2 _ _ _ HI). reflexivity.
      * rewrite vp_app. erewrite vp_blocks; [rewrite (i_vp _ _ _ HI)|reflexivity].
        cbn [verify_parents_ok andb]. fold_es es. rewrite Hpout, N.eqb_refl, Einv. reflexivity.
      * intros h0 b0 H0. rewrite Ho1 in H0. rewrite outs_after_app. destruct (h =? h0) eqn:E.
        -- injection H0 as <-. cbn. left. reflexivity.
        -- apply outs_after_mono. exact (i_outs _ _ _ HI _ _ H0).
      * apply Forall_app. split; [exact (i_trlt _ _ _ HI) | repeat constructor; exact G4].
      * intros h0 b0 H0. rewrite Ho1 in H0. destruct (h =? h0) eqn:E.
        -- injection H0 as <-. right. left. rewrite hasK_mput, N.eqb_refl. reflexivity.
        -- destruct (i_unv _ _ _ HI _ _ H0) as [A|[A|[A|A]]]; auto.
           right. left. rewrite hasK_mput, A. apply orb_true_r.
      * intros h0 H0. destruct (i_built _ _ _ HI _ H0) as [b0 Hb0]. exists b0. rewrite Ho1, (Hne _ _ Hb0). exact Hb0.
Qed.


(* ------------------------------------------------------------------ small invariant-preserving moves *)
Definition es_learn (h b : N) (es : estate) : estate :=
  mkE (e_blocks es) (mput h b (e_hid es)) (e_built es) (e_proc es) (e_last es) (e_chain es) (e_acc es)
      (e_rej es) (e_ver es) (e_pending es) (e_ready es) (e_started es) (e_sync es) (e_pref es).

Lemma inv_learn st es tr h b : Inv st es tr -> (exists v, oiv st h = Some (b, v)) -> Inv st (es_learn h b es) tr.
Proof.
  intros HI Hh. unfold es_learn.
  constructor; try (old HI); cbn [e_hid e_acc].
  - intros h0 b0 H0. rewrite lookup_mput in H0. destruct (h0 =? h) eqn:E.
    + apply N.eqb_eq in E. subst h0. injection H0 as <-. exact Hh.
    + exact (i_hid _ _ _ HI _ _ H0).
  - erewrite chain_from_blocks; [exact (i_acc_chain _ _ _ HI) | reflexivity].
  - erewrite vp_blocks; [exact (i_vp _ _ _ HI) | reflexivity].
Qed.

Lemma learn_eq r es :
  learn r es = match r with RBlk (BH h) b _ _ => es_learn h b es | _ => es end.
Proof. destruct r as [| |[h|b'] b v a| |]; reflexivity. Qed.

Lemma inv_set_parsed st es tr m : Inv st es tr ->
  (forall b h, In (b, h) m -> h < lenN (s_objs st)) -> Inv (set_parsed m st) es tr.
Proof.
  intros HI Hm. constructor; try (old HI).
  - exact Hm.
  - exact (i_acc_chain _ _ _ HI).
  - exact (i_vp _ _ _ HI).
Qed.

Lemma inv_event st es tr e : Inv st es tr ->
  match e with EParse _ => True | _ => False end -> Inv st es (tr ++ [e]).
Proof.
  intros HI He. destruct e; try contradiction.
  constructor; try (old HI).
  - rewrite accepts_app. cbn. rewrite app_nil_r. exact (i_queue _ _ _ HI).
  - exact (i_acc_chain _ _ _ HI).
  - rewrite naccepted_app, accepts_app. cbn. rewrite !app_nil_r. exact (i_nacc _ _ _ HI).
  - rewrite nrejected_app. cbn. rewrite app_nil_r. exact (i_nrej _ _ _ HI).
  - rewrite nverified_app. cbn. rewrite app_nil_r. exact (i_nver _ _ _ HI).
  - rewrite npreaccepted_app, (i_npre1 _ _ _ HI). reflexivity.
  - rewrite nprerejected_app, (i_npre2 _ _ _ HI). reflexivity.
  - rewrite vp_app, (i_vp _ _ _ HI). reflexivity.
  - intros h0 b0 H0. rewrite outs_after_app. apply outs_after_mono. exact (i_outs _ _ _ HI _ _ H0).
  - apply Forall_app. split; [exact (i_trlt _ _ _ HI) | repeat constructor].
Qed.

Lemma oiv_alloc_old st o x z : oiv st x = Some z -> oiv (set_objs (s_objs st ++ [o]) st) x = Some z.
Proof.
  intros H. pose proof (oiv_lt _ _ _ H) as Hlt. unfold oiv in *. cbn [s_objs set_objs].
  rewrite nthN_app_l by exact Hlt. exact H.
Qed.

Lemma oiv_alloc_inv st o x z : oiv (set_objs (s_objs st ++ [o]) st) x = Some z ->
  oiv st x = Some z \/ (x = lenN (s_objs st) /\ z = (o_id o, o_verified o)).
Proof.
  intros H. pose proof (oiv_lt _ _ _ H) as Hlt. cbn [s_objs set_objs] in Hlt. rewrite lenN_app in Hlt.
  destruct (N.lt_ge_cases x (lenN (s_objs st))) as [Hx|Hx].
  - left. unfold oiv in *. cbn [s_objs set_objs] in H. rewrite nthN_app_l in H by exact Hx. exact H.
  - right. assert (x = lenN (s_objs st)) as -> by (unfold lenN in *; cbn [length] in *; lia).
    split; [reflexivity|]. unfold oiv in H. cbn [s_objs set_objs] in H. rewrite nthN_app_len in H.
    cbn [option_map] in H. congruence.
Qed.

Lemma obj_of_alloc_old st o x : x < lenN (s_objs st) -> obj_of (set_objs (s_objs st ++ [o]) st) x = obj_of st x.
Proof. intros H. unfold obj_of. cbn [s_objs set_objs]. rewrite nthN_app_l by exact H. reflexivity. Qed.

Lemma obj_of_nonzero_lt st x : o_id (obj_of st x) <> 0 -> x < lenN (s_objs st).
Proof.
  unfold obj_of. destruct (nthN (s_objs st) x) eqn:E.
  - intros _. eapply nthN_some_lt; eauto.
  - cbn. congruence.
Qed.

Lemma inv_alloc st es tr b : Inv st es tr -> Inv (set_objs (s_objs st ++ [mkO b false false]) st) es tr.
Proof.
  intros HI. set (o := mkO b false false).
  assert (Hq : forall x, In x (s_queue st) -> obj_of (set_objs (s_objs st ++ [o]) st) x = obj_of st x).
  { intros x Hx. apply obj_of_alloc_old. apply obj_of_nonzero_lt. apply (i_queue_chain _ _ _ HI _ Hx). }
  constructor; try (old HI); cbn [set_objs s_last s_acc_id s_parsed s_queue s_objs].
  - intros h0 b0 H0. destruct (i_hid _ _ _ HI _ _ H0) as [v Hv]. exists v. apply oiv_alloc_old. exact Hv.
  - intros b0 h0 H0. destruct (i_procobj _ _ _ HI _ _ H0) as (A & B & C & D). repeat split; auto. apply oiv_alloc_old. exact A.
  - destruct (i_last _ _ _ HI) as (A & B & C). repeat split; auto. apply (oiv_alloc_old st o _ _ A).
  - intros b0 h0 H0. destruct (i_accid _ _ _ HI _ _ H0) as [[v Hv] B]. split; [exists v; apply oiv_alloc_old; exact Hv | exact B].
  - intros b0 h0 H0. rewrite lenN_app. pose proof (i_parsed _ _ _ HI _ _ H0). lia.
  - rewrite (i_queue _ _ _ HI). f_equal. apply map_ext_in. intros x Hx. rewrite (Hq _ Hx). reflexivity.
  - intros h0 H0. rewrite (Hq _ H0). exact (i_queue_chain _ _ _ HI _ H0).
  - exact (i_acc_chain _ _ _ HI).
  - exact (i_vp _ _ _ HI).
  - intros h0 b0 H0. apply oiv_alloc_inv in H0. destruct H0 as [H0|[_ H0]]; [exact (i_outs _ _ _ HI _ _ H0) | discriminate].
  - intros h0 b0 H0. apply oiv_alloc_inv in H0. destruct H0 as [H0|[_ H0]]; [exact (i_unv _ _ _ HI _ _ H0) | discriminate].
  - intros h0 H0. destruct (i_built _ _ _ HI _ H0) as [b0 Hb0]. exists b0. apply oiv_alloc_old. exact Hb0.
Qed.

Lemma In_remove_key {V} k (m : list (N * V)) x : In x (remove_key k m) -> In x m.
Proof. unfold remove_key. intros H. apply filter_In in H. tauto. Qed.

Lemma get_block_BH st es tr b h : Inv st es tr -> get_block st b = Some (BH h) -> exists b' v, oiv st h = Some (b', v).
Proof.
  intros HI. unfold get_block. rewrite (i_proc _ _ _ HI).
  destruct (lookup b (e_proc es)) as [h1|] eqn:E1.
  - intros [= <-]. destruct (i_procobj _ _ _ HI _ _ E1) as (A & _). eauto.
  - destruct (lookup b (s_acc_id st)) as [h1|] eqn:E2.
    + intros [= <-]. apply lookup_In in E2. destruct (i_accid _ _ _ HI _ _ E2) as [[v Hv] _]. eauto.
    + destruct (disk_get st b); discriminate.
Qed.

Lemma inv_do_parse c st es tr b st' r evs :
  Inv st es tr -> do_parse c st b = (st', r, evs) -> Inv st' (learn r es) (tr ++ evs).
Proof.
  intros HI HS. unfold do_parse in HS.
  destruct (get_block st b) as [rf|] eqn:Eg.
  - injection HS as <- <- <-. rewrite app_nil_r, learn_eq. unfold res_of_ref.
    destruct rf as [h|b']; [|exact HI].
    destruct (get_block_BH _ _ _ _ _ HI Eg) as (b' & v & Hv). cbn [ref_obj].
    apply inv_learn; [exact HI|]. exists v. destruct (oiv_obj_of _ _ _ _ Hv) as [-> _]. exact Hv.
  - unfold lru_get in HS. destruct (lookup b (s_parsed st)) as [h|] eqn:El.
    + injection HS as <- <- <-. rewrite app_nil_r, learn_eq. unfold res_of_ref. cbn [ref_obj].
      pose proof (i_parsed _ _ _ HI _ _ (lookup_In _ _ _ El)) as Hlt.
      destruct (nthN_lt_some _ _ Hlt) as [o Hn].
      assert (Hv : oiv st h = Some (o_id (obj_of st h), o_verified o)).
      { unfold oiv, obj_of. rewrite Hn. reflexivity. }
      apply inv_learn.
      * apply inv_set_parsed; [exact HI|]. intros b0 h0 Hin. apply in_app_or in Hin. destruct Hin as [Hin|[[= <- <-]|[]]].
        -- apply In_remove_key in Hin. exact (i_parsed _ _ _ HI _ _ Hin).
        -- exact Hlt.
      * exists (o_verified o). exact Hv.
    + unfold alloc in HS. injection HS as <- <- <-. rewrite learn_eq.
      apply inv_learn.
      * apply inv_event; [|exact I].
        match goal with |- Inv (set_parsed ?m ?s) _ _ => apply (inv_set_parsed s es tr m) end.
        -- apply inv_alloc. exact HI.
        -- cbn [set_objs s_objs s_parsed]. intros b0 h0 Hin. rewrite lenN_app. unfold lru_put in Hin.
           apply in_app_or in Hin. destruct Hin as [Hin|[[= <- <-]|[]]].
           ++ apply In_remove_key in Hin.
              assert (In (b0, h0) (s_parsed st)) as Hin' by (destruct (lenN (s_parsed st) =? c_P c); [apply In_tl|]; exact Hin).
              pose proof (i_parsed _ _ _ HI _ _ Hin'). lia.
           ++ unfold lenN. cbn [length]. lia.
      * exists false. unfold oiv. cbn [set_parsed set_objs s_objs]. rewrite nthN_app_len. reflexivity.
Qed.

Definition es_add (x : binfo) (es : estate) : estate :=
  mkE (e_blocks es ++ [x]) (e_hid es) (e_built es) (e_proc es) (e_last es) (e_chain es) (e_acc es)
      (e_rej es) (e_ver es) (e_pending es) (e_ready es) (e_started es) (e_sync es) (e_pref es).

Lemma e_binfo_add x es b : b < lenN (e_blocks es) -> e_binfo (es_add x es) b = e_binfo es b.
Proof. intros H. unfold e_binfo, es_add. cbn [e_blocks]. rewrite nthN_app_l by exact H. reflexivity. Qed.

Lemma e_binfo_new x es : e_binfo (es_add x es) (lenN (e_blocks es)) = x.
Proof. unfold e_binfo, es_add. cbn [e_blocks]. rewrite nthN_app_len. reflexivity. Qed.

Lemma inv_add_block st es tr x :
  Inv st es tr ->
  (b_parent x <> lenN (e_blocks es) ->
   b_parent x < lenN (e_blocks es) /\ b_height x = e_height es (b_parent x) + 1) ->
  Inv (set_blocks (s_blocks st ++ [x]) st) (es_add x es) tr.
Proof.
  intros HI Hx.
  assert (Hh : forall b, b < lenN (e_blocks es) -> e_height (es_add x es) b = e_height es b).
  { intros b Hb. unfold e_height. rewrite e_binfo_add by exact Hb. reflexivity. }
  assert (Hp : forall b, b < lenN (e_blocks es) -> e_parent (es_add x es) b = e_parent es b).
  { intros b Hb. unfold e_parent. rewrite e_binfo_add by exact Hb. reflexivity. }
  assert (Hc := i_chain_lt _ _ _ HI).
  constructor; try (old HI); cbn [set_blocks s_blocks];
    try (unfold es_add at 1; cbn [e_blocks e_chain e_proc e_acc e_last e_rej e_built e_hid]).
  - rewrite (i_blocks _ _ _ HI). reflexivity.
  - intros b Hb Hne. unfold es_add in Hb. cbn [e_blocks] in Hb. rewrite lenN_app in Hb.
    destruct (N.lt_ge_cases b (lenN (e_blocks es))) as [Hlt|Hge].
    + rewrite Hp in * by exact Hlt. destruct (i_tree _ _ _ HI _ Hlt Hne) as [A B].
      split; [exact A|]. rewrite !Hh by lia. exact B.
    + assert (b = lenN (e_blocks es)) as -> by (unfold lenN in *; cbn [length] in *; lia).
      unfold e_parent, e_height in *. rewrite e_binfo_new in *. destruct (Hx Hne) as [A B].
      split; [exact A|]. rewrite e_binfo_add by exact A. exact B.
  - intros b h H0. destruct (i_procobj _ _ _ HI _ _ H0) as (A & B & C & D). repeat split; auto.
    unfold es_add. cbn [e_blocks]. rewrite lenN_app. lia.
  - intros k b H0. destruct (i_acch _ _ _ HI _ _ H0) as [A B]. split; [exact A|]. rewrite Hh by (apply Hc; exact A). exact B.
  - intros b Hin. rewrite Hh by (apply Hc; exact Hin). exact (i_disk _ _ _ HI _ Hin).
  - intros b b' H1 H2. rewrite !Hh by (apply Hc; assumption). exact (i_hinj _ _ _ HI _ _ H1 H2).
  - intros b Hin. rewrite !Hh by (apply Hc; first [exact Hin | apply (i_last _ _ _ HI)]). exact (i_hmax _ _ _ HI _ Hin).
  - intros b Hin. unfold es_add. cbn [e_blocks]. rewrite lenN_app. pose proof (Hc _ Hin). lia.
  - intros b Hin Hnz. rewrite Hp by (apply Hc; exact Hin). exact (i_chain_parent _ _ _ HI _ Hin Hnz).
  - rewrite <- (i_acc_chain _ _ _ HI). symmetry. apply (chain_from_ext es (es_add x es) (lenN (e_blocks es))).
    + intros b Hin. apply Hc. exact (i_acc_in _ _ _ HI _ Hin).
    + intros b Hb. symmetry. apply e_binfo_add. exact Hb.
    + apply Hc. exact (i_zero _ _ _ HI).
  - rewrite <- (i_vp _ _ _ HI). symmetry. apply (vp_ext es (es_add x es) (lenN (e_blocks es))).
    + exact (i_trlt _ _ _ HI).
    + intros b Hb. symmetry. apply e_binfo_add. exact Hb.
  - apply (tr_lt_mono (lenN (e_blocks es))); [|exact (i_trlt _ _ _ HI)]. unfold es_add. cbn [e_blocks]. rewrite lenN_app. lia.
Qed.

Lemma new_binfo_tree es p inv :
  b_parent (new_binfo (e_blocks es) p inv) <> lenN (e_blocks es) ->
  b_parent (new_binfo (e_blocks es) p inv) < lenN (e_blocks es) /\
  b_height (new_binfo (e_blocks es) p inv) = e_height es (b_parent (new_binfo (e_blocks es) p inv)) + 1.
Proof.
  unfold new_binfo. destruct (nthN (e_blocks es) p) as [i|] eqn:E; cbn [b_parent b_height].
  - intros _. split; [eapply nthN_some_lt; eauto|]. unfold e_height, e_binfo. rewrite E. reflexivity.
  - congruence.
Qed.

Lemma inv_parse_new c st es tr p inv st' r evs :
  Inv st es tr -> step c st (OParseNew p inv) = (st', r, evs) ->
  Inv st' (eupd es (OParseNew p inv) r evs) (tr ++ evs).
Proof.
  intros HI HS. cbn [step] in HS. cbn [eupd].
  rewrite (i_blocks _ _ _ HI) in HS.
  pose proof (inv_add_block _ _ _ (new_binfo (e_blocks es) p inv) HI (new_binfo_tree es p inv)) as HI2.
  rewrite (i_blocks _ _ _ HI) in HI2.
  exact (inv_do_parse _ _ _ _ _ _ _ _ HI2 HS).
Qed.

Lemma inv_parse c st es tr b st' r evs :
  Inv st es tr -> step c st (OParse b) = (st', r, evs) ->
  Inv st' (eupd es (OParse b) r evs) (tr ++ evs).
Proof. intros HI HS. cbn [step] in HS. cbn [eupd]. exact (inv_do_parse _ _ _ _ _ _ _ _ HI HS). Qed.

Definition es_built (h : N) (es : estate) : estate :=
  mkE (e_blocks es) (e_hid es) (h :: e_built es) (e_proc es) (e_last es) (e_chain es) (e_acc es)
      (e_rej es) (e_ver es) (e_pending es) (e_ready es) (e_started es) (e_sync es) (e_pref es).

Lemma inv_alloc_built st es tr p b :
  Inv st es tr -> b < lenN (e_blocks es) -> e_parent es b = p -> In p (outs_after [0] tr) ->
  Inv (set_objs (s_objs st ++ [mkO b true false]) st) (es_built (lenN (s_objs st)) es) (tr ++ [EBuild p b]).
Proof.
  intros HI Hb Hp Hout. set (o := mkO b true false). unfold es_built.
  assert (Hq : forall x, In x (s_queue st) -> obj_of (set_objs (s_objs st ++ [o]) st) x = obj_of st x).
  { intros x Hx. apply obj_of_alloc_old. apply obj_of_nonzero_lt. apply (i_queue_chain _ _ _ HI _ Hx). }
  constructor; try (old HI); cbn [set_objs s_last s_acc_id s_parsed s_queue s_objs e_acc e_built e_proc e_chain e_rej e_blocks].
  - intros h0 b0 H0. destruct (i_hid _ _ _ HI _ _ H0) as [v Hv]. exists v. apply oiv_alloc_old. exact Hv.
  - intros b0 h0 H0. destruct (i_procobj _ _ _ HI _ _ H0) as (A & B & C & D). repeat split; auto. apply oiv_alloc_old. exact A.
  - destruct (i_last _ _ _ HI) as (A & B & C). repeat split; auto. apply (oiv_alloc_old st o _ _ A).
  - intros b0 h0 H0. destruct (i_accid _ _ _ HI _ _ H0) as [[v Hv] B]. split; [exists v; apply oiv_alloc_old; exact Hv | exact B].
  - intros b0 h0 H0. rewrite lenN_app. pose proof (i_parsed _ _ _ HI _ _ H0). lia.
  - rewrite accepts_app. cbn [accepts flat_map]. rewrite app_nil_r, (i_queue _ _ _ HI). f_equal.
    apply map_ext_in. intros x Hx. rewrite (Hq _ Hx). reflexivity.
  - intros h0 H0. rewrite (Hq _ H0). exact (i_queue_chain _ _ _ HI _ H0).
  - erewrite chain_from_blocks; [exact (i_acc_chain _ _ _ HI) | reflexivity].
  - rewrite naccepted_app, accepts_app. cbn. rewrite !app_nil_r. exact (i_nacc _ _ _ HI).
  - rewrite nrejected_app. cbn. rewrite app_nil_r. exact (i_nrej _ _ _ HI).
  - rewrite nverified_app. cbn. rewrite app_nil_r. exact (i_nver _ _ _ HI).
  - rewrite npreaccepted_app, (i_npre1 _ _ _ HI). reflexivity.
  - rewrite nprerejected_app, (i_npre2 _ _ _ HI). reflexivity.
  - rewrite vp_app. erewrite vp_blocks; [rewrite (i_vp _ _ _ HI)|reflexivity].
    cbn [verify_parents_ok andb]. fold_es es. rewrite Hp, N.eqb_refl.
    apply memN_In in Hout. rewrite Hout. reflexivity.
  - intros h0 b0 H0. rewrite outs_after_app. apply oiv_alloc_inv in H0. destruct H0 as [H0|[_ H0]].
    + apply outs_after_mono. exact (i_outs _ _ _ HI _ _ H0).
    + cbn [o o_id o_verified] in H0. injection H0 as <-. cbn. left. reflexivity.
  - apply Forall_app. split; [exact (i_trlt _ _ _ HI) | repeat constructor; exact Hb].
  - intros h0 b0 H0. apply oiv_alloc_inv in H0. destruct H0 as [H0|[-> _]].
    + destruct (i_unv _ _ _ HI _ _ H0) as [A|A]; [left; right; exact A | right; exact A].
    + left. left. reflexivity.
  - intros h0 [<-|H0].
    + exists b. unfold oiv. cbn [s_objs set_objs]. rewrite nthN_app_len. reflexivity.
    + destruct (i_built _ _ _ HI _ H0) as [b0 Hb0]. exists b0. apply oiv_alloc_old. exact Hb0.
Qed.

Lemma inv_build c Q st es tr st' r evs :
  Inv st es tr -> eguard Q es OBuild = true -> step c st OBuild = (st', r, evs) ->
  Inv st' (eupd es OBuild r evs) (tr ++ evs).
Proof.
  intros HI HG HS. cbn [eguard] in HG. apply andb_true_iff in HG. destruct HG as [_ HG].
  destruct (get_block_live _ _ _ (e_pref es) HI HG) as (hp & Hg & Hop).
  cbn [step] in HS. rewrite (i_pref _ _ _ HI), Hg in HS. cbn [ref_obj] in HS.
  destruct (oiv_obj_of _ _ _ _ Hop) as [Hpid Hpv]. rewrite Hpv, Hpid in HS.
  set (p := e_pref es) in *.
  assert (Hplt : p < lenN (e_blocks es)).
  { apply orb_true_iff in HG. destruct HG as [HG|HG].
    - apply hasK_lookup in HG. destruct HG as [hh Hh]. apply (i_procobj _ _ _ HI _ _ Hh).
    - apply N.eqb_eq in HG. rewrite HG. apply (i_chain_lt _ _ _ HI). apply (i_last _ _ _ HI). }
  rewrite (height_eq _ _ _ p HI), (i_blocks _ _ _ HI) in HS.
  unfold alloc in HS. cbn [set_blocks s_objs s_parsed s_blocks] in HS.
  injection HS as <- <- <-. cbn [eupd].
  set (x := mkB p (e_height es p + 1) false).
  set (b := lenN (e_blocks es)).
  set (h := lenN (s_objs st)).
  assert (HI2 : Inv (set_blocks (s_blocks st ++ [x]) st) (es_add x es) tr).
  { apply inv_add_block; [exact HI|]. intros _. cbn [x b_parent b_height]. split; [exact Hplt | reflexivity]. }
  rewrite (i_blocks _ _ _ HI) in HI2.
  rewrite learn_eq.
  change (Inv (set_parsed (lru_put (c_P c) b h (s_parsed st))
                (set_objs (s_objs (set_blocks (e_blocks es ++ [x]) st) ++ [mkO b true false]) (set_blocks (e_blocks es ++ [x]) st)))
              (es_learn h b (es_built (lenN (s_objs (set_blocks (e_blocks es ++ [x]) st))) (es_add x es))) (tr ++ [EBuild p b])).
  apply inv_learn.
  - apply inv_set_parsed.
    + apply inv_alloc_built; [exact HI2 | | | ].
      * unfold es_add. cbn [e_blocks]. rewrite lenN_app. unfold b, lenN. cbn [length]. lia.
      * unfold e_parent. unfold b. rewrite e_binfo_new. reflexivity.
      * exact (i_outs _ _ _ HI _ _ Hop).
    + cbn [set_objs s_objs set_blocks]. intros b0 h0 Hin. rewrite lenN_app. unfold lru_put in Hin.
      apply in_app_or in Hin. destruct Hin as [Hin|[[= <- <-]|[]]].
      * apply In_remove_key in Hin.
        assert (In (b0, h0) (s_parsed st)) as Hin' by (destruct (lenN (s_parsed st) =? c_P c); [apply In_tl|]; exact Hin).
        pose proof (i_parsed _ _ _ HI _ _ Hin'). lia.
      * unfold h, lenN. cbn [length]. lia.
  - exists true. unfold oiv. cbn [set_parsed set_objs s_objs set_blocks]. unfold h. rewrite nthN_app_len. reflexivity.
Qed.


(* ------------------------------------------------------------------ all steps, all runs *)
Definition sync_op (o : op) : bool := match o with OStartSync _ | OFinishSync _ => true | _ => false end.

Lemma inv_step c Q st es tr o st' r evs :
  1 <= c_W c -> Inv st es tr -> sync_op o = false -> eguard Q es o = true ->
  step c st o = (st', r, evs) -> Inv st' (eupd es o r evs) (tr ++ evs).
Proof.
  intros HW HI Hs HG HS.
  destruct o; try discriminate Hs.
  - eapply inv_parse_new; eauto.
  - eapply inv_parse; eauto.
  - eapply inv_build; eauto.
  - eapply inv_verify; eauto.
  - eapply inv_accept; eauto.
  - eapply inv_reject; eauto.
  - cbn [step] in HS. injection HS as <- <- <-. rewrite app_nil_r. apply inv_setpref. exact HI.
  - eapply inv_process; eauto.
  - destruct (step_read c st (OGetBlock b) eq_refl) as [r0 E]. rewrite E in HS. injection HS as <- <- <-. rewrite app_nil_r. exact HI.
  - destruct (step_read c st (OGetIDAtHeight k) eq_refl) as [r0 E]. rewrite E in HS. injection HS as <- <- <-. rewrite app_nil_r. exact HI.
  - destruct (step_read c st (OGetByHeight k) eq_refl) as [r0 E]. rewrite E in HS. injection HS as <- <- <-. rewrite app_nil_r. exact HI.
  - destruct (step_read c st OLastAccepted eq_refl) as [r0 E]. rewrite E in HS. injection HS as <- <- <-. rewrite app_nil_r. exact HI.
  - destruct (step_read c st OGetLastProcessed eq_refl) as [r0 E]. rewrite E in HS. injection HS as <- <- <-. rewrite app_nil_r. exact HI.
  - destruct (step_read c st OGetPreferred eq_refl) as [r0 E]. rewrite E in HS. injection HS as <- <- <-. rewrite app_nil_r. exact HI.
  - destruct (step_read c st OHealth eq_refl) as [r0 E]. rewrite E in HS. injection HS as <- <- <-. rewrite app_nil_r. exact HI.
Qed.

Lemma no_sync_cons o ops : no_sync (o :: ops) = true -> sync_op o = false /\ no_sync ops = true.
Proof.
  unfold no_sync. cbn [forallb]. rewrite andb_true_iff. intros [A B]. split; [|exact B].
  destruct o; cbn [sync_op]; try reflexivity; discriminate.
Qed.

Lemma inv_erun c Q ops : 1 <= c_W c -> no_sync ops = true ->
  forall st es tr st' es' tr', Inv st es tr -> erun c Q st es ops = Some (st', es', tr') -> Inv st' es' (tr ++ tr').
Proof.
  intros HW. induction ops as [|o r IH]; intros Hns st es tr st' es' tr' HI HR.
  - cbn [erun] in HR. injection HR as <- <- <-. rewrite app_nil_r. exact HI.
  - apply no_sync_cons in Hns. destruct Hns as [Hs Hns].
    cbn [erun] in HR. destruct (eguard Q es o) eqn:HG; [|discriminate].
    destruct (step c st o) as [[st1 rs] evs] eqn:HS.
    destruct (erun c Q st1 (eupd es o rs evs) r) as [[[st2 es2] evss]|] eqn:HR2; [|discriminate].
    injection HR as <- <- <-. rewrite app_assoc.
    eapply IH; [exact Hns | | exact HR2].
    eapply inv_step; eauto.
Qed.

(* ------------------------------------------------------------------ the C20 predicates from the invariant *)
Lemma nodupb_NoDup l : NoDup l -> nodupb l = true.
Proof.
  induction 1 as [|x r Hx Hr IH]; cbn [nodupb]; [reflexivity|].
  rewrite IH, andb_true_r. apply negb_true_iff. apply memN_false. exact Hx.
Qed.

Lemma firstn_length_app {A} (a b : list A) : firstn (length a) (a ++ b) = a.
Proof. induction a as [|x a IH]; cbn [length firstn app]; [destruct b; reflexivity|]. rewrite IH. reflexivity. Qed.

Lemma inv_lifecycle st es tr : Inv st es tr -> lifecycle_b tr es = true.
Proof.
  intros HI. unfold lifecycle_b.
  rewrite (i_vp _ _ _ HI), (i_acc_chain _ _ _ HI), (nodupb_NoDup _ (i_acc_nodup _ _ _ HI)).
  rewrite (i_nacc _ _ _ HI), (i_nrej _ _ _ HI), (i_nver _ _ _ HI), (i_npre1 _ _ _ HI), (i_npre2 _ _ _ HI).
  rewrite !eqb_listN_refl.
  assert (H1 : eqb_listN (accepts tr) (firstn (length (accepts tr)) (e_acc es)) = true).
  { rewrite (i_queue _ _ _ HI). rewrite firstn_length_app. apply eqb_listN_refl. }
  assert (H2 : (N.of_nat (length (accepts tr)) + e_pending es =? N.of_nat (length (e_acc es))) = true).
  { apply N.eqb_eq. rewrite (i_queue _ _ _ HI). rewrite app_length, map_length, <- (i_pending _ _ _ HI). unfold lenN. lia. }
  assert (H3 : forallb (fun b => negb (memN b (e_rej es))) (e_acc es) = true).
  { apply forallb_forall. intros b Hb. apply negb_true_iff. apply memN_false.
    apply (i_chain_rej _ _ _ HI). exact (i_acc_in _ _ _ HI _ Hb). }
  rewrite H1, H2, H3. reflexivity.
Qed.

Lemma chain_at_height_spec es k b : chain_at_height es k = Some b -> In b (e_chain es) /\ e_height es b = k.
Proof.
  unfold chain_at_height. intros H. apply find_some in H. destruct H as [A B]. apply N.eqb_eq in B. auto.
Qed.

Lemma last_id st es tr : Inv st es tr -> o_id (obj_of st (s_last st)) = e_last es.
Proof. intros HI. destruct (i_last _ _ _ HI) as (A & _). apply (oiv_obj_of _ _ _ _ A). Qed.

Lemma idh_chain st es tr k b : Inv st es tr -> In b (e_chain es) -> e_height es b = k ->
  k <> e_height es (e_last es) ->
  match lookup k (s_acc_h st) with Some b' => Some b' | None => lookup k (s_dhi st) end = Some b.
Proof.
  intros HI Hin Hk Hne. destruct (lookup k (s_acc_h st)) as [b'|] eqn:E.
  - apply lookup_In in E. destruct (i_acch _ _ _ HI _ _ E) as [A B]. f_equal.
    apply (i_hinj _ _ _ HI); [exact A | exact Hin | congruence].
  - destruct (i_disk _ _ _ HI _ Hin) as [_ D]. rewrite Hk in D. exact D.
Qed.

Lemma inv_lookup c st es tr o : Inv st es tr -> lookup_ok es o (snd (fst (step c st o))) = true.
Proof.
  intros HI. destruct o; try reflexivity; cbn [lookup_ok step].
  - (* GetBlock *)
    destruct (memN b (e_chain es)) eqn:Ec.
    + apply memN_In in Ec. destruct (get_block_chain _ _ _ _ HI Ec) as (rf & Hg & Hid). rewrite Hg.
      cbn [fst snd]. unfold res_of_ref. rewrite Hid. apply N.eqb_refl.
    + destruct (lookup b (e_proc es)) as [h|] eqn:Ep; [|reflexivity].
      unfold get_block. rewrite (i_proc _ _ _ HI), Ep. cbn [fst snd]. unfold res_of_ref. cbn [ref_obj].
      destruct (i_procobj _ _ _ HI _ _ Ep) as (A & _). destruct (oiv_obj_of _ _ _ _ A) as [-> _].
      rewrite !N.eqb_refl. reflexivity.
  - (* GetBlockIDAtHeight *)
    destruct (chain_at_height es k) as [b|] eqn:Ec; [|reflexivity].
    apply chain_at_height_spec in Ec. destruct Ec as [Hin Hk].
    unfold id_at_height. rewrite (last_id _ _ _ HI), (height_eq _ _ _ _ HI).
    destruct (k =? e_height es (e_last es)) eqn:E.
    + apply N.eqb_eq in E. cbn [fst snd]. apply N.eqb_eq.
      apply (i_hinj _ _ _ HI); [apply (i_last _ _ _ HI) | exact Hin | congruence].
    + apply N.eqb_neq in E. pose proof (idh_chain _ _ _ _ _ HI Hin Hk E) as X.
      destruct (lookup k (s_acc_h st)) as [b'|].
      * injection X as ->. cbn [fst snd]. apply N.eqb_refl.
      * rewrite X. cbn [fst snd]. apply N.eqb_refl.
  - (* GetBlockByHeight *)
    destruct (chain_at_height es k) as [b|] eqn:Ec; [|reflexivity].
    apply chain_at_height_spec in Ec. destruct Ec as [Hin Hk].
    unfold block_by_height. rewrite (last_id _ _ _ HI), (height_eq _ _ _ _ HI).
    destruct (e_height es (e_last es) =? k) eqn:E.
    + apply N.eqb_eq in E. cbn [fst snd]. unfold res_of_ref. cbn [ref_obj]. rewrite (last_id _ _ _ HI).
      apply N.eqb_eq. apply (i_hinj _ _ _ HI); [apply (i_last _ _ _ HI) | exact Hin | congruence].
    + apply N.eqb_neq in E. assert (E' : k <> e_height es (e_last es)) by congruence.
      rewrite (idh_chain _ _ _ _ _ HI Hin Hk E').
      destruct (lookup b (s_acc_id st)) as [h|] eqn:Ea.
      * cbn [fst snd]. unfold res_of_ref. cbn [ref_obj]. apply lookup_In in Ea.
        destruct (i_accid _ _ _ HI _ _ Ea) as [[v Hv] _]. destruct (oiv_obj_of _ _ _ _ Hv) as [-> _]. apply N.eqb_refl.
      * destruct (get_block_chain _ _ _ _ HI Hin) as (rf & Hg & Hid). rewrite Hg.
        cbn [fst snd]. unfold res_of_ref. rewrite Hid. apply N.eqb_refl.
  - (* LastAccepted *)
    cbn [fst snd]. rewrite (last_id _ _ _ HI). apply N.eqb_refl.
Qed.

(* ------------------------------------------------------------------ the theorems of C20 *)
Theorem lifecycle_all_runs c Q ops st es tr :
  c_ready c = true -> 1 <= c_W c -> no_sync ops = true ->
  erun c Q (init_state c) (init_estate c) ops = Some (st, es, tr) ->
  lifecycle_b (init_events c ++ tr) es = true.
Proof.
  intros Hr HW Hns HR. apply (inv_lifecycle st).
  eapply inv_erun; [exact HW | exact Hns | apply inv_init; exact Hr | exact HR].
Qed.

Theorem lookup_all_runs c Q ops st es tr o :
  c_ready c = true -> 1 <= c_W c -> no_sync ops = true ->
  erun c Q (init_state c) (init_estate c) ops = Some (st, es, tr) ->
  lookup_ok es o (snd (fst (step c st o))) = true.
Proof.
  intros Hr HW Hns HR. apply (inv_lookup c st es (init_events c ++ tr)).
  eapply inv_erun; [exact HW | exact Hns | apply inv_init; exact Hr | exact HR].
Qed.

(* readable forms *)
Lemma vp_sound es tr : forall outs, verify_parents_ok es outs tr = true ->
  forall a p b ok rest, tr = a ++ EVerify p b ok :: rest ->
  In p (outs_after outs a) /\ e_parent es b = p /\ ok = negb (e_invalid es b).
Proof.
  induction tr as [|e r IH]; intros outs H a p b ok rest E.
  - destruct a; discriminate.
  - destruct a as [|e' a'].
    + cbn [app] in E. injection E as -> ->. cbn [verify_parents_ok] in H.
      rewrite !andb_true_iff in H. destruct H as [[[H1 H2] H3] _].
      cbn [outs_after fold_left]. apply memN_In in H1. apply N.eqb_eq in H2. apply eqb_prop in H3. auto.
    + cbn [app] in E. injection E as -> ->. cbn [outs_after fold_left].
      destruct e' as [| | |p' b' ok'| | | | | | |]; cbn [verify_parents_ok out_step] in *;
        try (eapply IH; [exact H | reflexivity]).
      * rewrite !andb_true_iff in H. destruct H as [[_ _] H]. eapply IH; [exact H | reflexivity].
      * discriminate.
      * rewrite !andb_true_iff in H. destruct H as [_ H]. destruct ok'; (eapply IH; [exact H | reflexivity]).
Qed.

Lemma lifecycle_props st es tr : Inv st es tr ->
  verify_parents_ok es [0] tr = true /\
  (exists pending, e_acc es = accepts tr ++ pending /\ lenN pending = e_pending es) /\
  chain_from es 0 (e_acc es) = true /\ NoDup (e_acc es) /\
  (forall b, In b (e_acc es) -> ~ In b (e_rej es)) /\
  naccepted tr = 0 :: accepts tr /\ nrejected tr = e_rej es /\ nverified tr = verified_parsed es.
Proof.
  intros HI. repeat split.
  - exact (i_vp _ _ _ HI).
  - exists (map (fun h => o_id (obj_of st h)) (s_queue st)). split; [exact (i_queue _ _ _ HI)|].
    rewrite <- (i_pending _ _ _ HI). unfold lenN. rewrite map_length. reflexivity.
  - exact (i_acc_chain _ _ _ HI).
  - exact (i_acc_nodup _ _ _ HI).
  - intros b Hb. apply (i_chain_rej _ _ _ HI). exact (i_acc_in _ _ _ HI _ Hb).
  - exact (i_nacc _ _ _ HI).
  - exact (i_nrej _ _ _ HI).
  - exact (i_nver _ _ _ HI).
Qed.

Theorem lifecycle_props_all_runs c Q ops st es tr :
  c_ready c = true -> 1 <= c_W c -> no_sync ops = true ->
  erun c Q (init_state c) (init_estate c) ops = Some (st, es, tr) ->
  let T := init_events c ++ tr in
  verify_parents_ok es [0] T = true /\
  (exists pending, e_acc es = accepts T ++ pending /\ lenN pending = e_pending es) /\
  chain_from es 0 (e_acc es) = true /\ NoDup (e_acc es) /\
  (forall b, In b (e_acc es) -> ~ In b (e_rej es)) /\
  naccepted T = 0 :: accepts T /\ nrejected T = e_rej es /\ nverified T = verified_parsed es.
Proof.
  intros Hr HW Hns HR. apply (lifecycle_props st).
  eapply inv_erun; [exact HW | exact Hns | apply inv_init; exact Hr | exact HR].
Qed.

(* ================================================================== C21: the hand-over step *)
From Coq Require Import Sorted Permutation.

Lemma proc_le_total st x y : proc_le st x y = false -> proc_le st y x = true.
Proof.
  unfold proc_le. intros H. apply orb_false_iff in H. destruct H as [H1 H2].
  apply N.ltb_ge in H1. apply andb_false_iff in H2.
  destruct (height st (fst y) <? height st (fst x)) eqn:E; [reflexivity|]. apply N.ltb_ge in E.
  cbn [orb]. assert (height st (fst y) = height st (fst x)) as Heq by lia.
  rewrite Heq, N.eqb_refl. cbn [andb]. destruct H2 as [H2|H2].
  - rewrite Heq, N.eqb_refl in H2. discriminate.
  - apply N.leb_le. apply N.leb_gt in H2. lia.
Qed.

Lemma proc_le_trans st x y z : proc_le st x y = true -> proc_le st y z = true -> proc_le st x z = true.
Proof.
  unfold proc_le. rewrite !orb_true_iff, !andb_true_iff, !N.ltb_lt, !N.eqb_eq, !N.leb_le.
  intros [A|[A1 A2]] [B|[B1 B2]]; [left; lia | left; lia | left; lia | right; split; lia].
Qed.

Lemma insert_sorted_In st x l y : In y (insert_sorted st x l) <-> y = x \/ In y l.
Proof.
  induction l as [|z r IH]; cbn [insert_sorted In]; [intuition congruence|].
  destruct (proc_le st x z); cbn [In]; [intuition congruence|]. rewrite IH. intuition congruence.
Qed.

Lemma sort_processing_In st l y : In y (sort_processing st l) <-> In y l.
Proof.
  unfold sort_processing. induction l as [|z r IH]; cbn [fold_right In]; [tauto|].
  rewrite insert_sorted_In, IH. intuition congruence.
Qed.

Lemma insert_sorted_sorted st x l :
  StronglySorted (fun a b => proc_le st a b = true) l ->
  StronglySorted (fun a b => proc_le st a b = true) (insert_sorted st x l).
Proof.
  induction 1 as [|z r Hr IH Hz]; cbn [insert_sorted].
  - constructor; constructor.
  - destruct (proc_le st x z) eqn:E.
    + constructor; [constructor; assumption|]. constructor; [exact E|].
      eapply Forall_impl; [|exact Hz]. intros a Ha. eapply proc_le_trans; eauto.
    + constructor; [exact IH|]. apply Forall_forall. intros a Ha. apply insert_sorted_In in Ha.
      destruct Ha as [->|Ha]; [apply proc_le_total; exact E|]. rewrite Forall_forall in Hz. auto.
Qed.

Lemma sort_processing_sorted st l : StronglySorted (fun a b => proc_le st a b = true) (sort_processing st l).
Proof.
  unfold sort_processing. induction l as [|z r IH]; cbn [fold_right]; [constructor|].
  apply insert_sorted_sorted. exact IH.
Qed.

(* in a sorted list, an element of strictly smaller height comes earlier *)
Lemma sorted_split_before st D x R y :
  StronglySorted (fun a b => proc_le st a b = true) (D ++ x :: R) ->
  In y (D ++ x :: R) -> height st (fst y) < height st (fst x) -> In y D.
Proof.
  induction D as [|d D IH]; cbn [app]; intros Hs Hin Hlt.
  - exfalso. inversion Hs as [|? ? _ Hall]; subst. destruct Hin as [<-|Hin]; [lia|].
    rewrite Forall_forall in Hall. specialize (Hall _ Hin). unfold proc_le in Hall.
    rewrite orb_true_iff, andb_true_iff, N.ltb_lt, N.eqb_eq in Hall. lia.
  - destruct Hin as [<-|Hin]; [left; reflexivity|]. right. inversion Hs; subst. apply IH; assumption.
Qed.

(* goodness of a processing block: it and all its processing ancestors, up to the last
   accepted block, are valid *)
Inductive good (es : estate) : N -> Prop :=
| good_root b : hasK b (e_proc es) = true -> e_invalid es b = false -> e_parent es b = e_last es -> good es b
| good_step b : hasK b (e_proc es) = true -> e_invalid es b = false ->
                hasK (e_parent es b) (e_proc es) = true -> good es (e_parent es b) -> good es b.

Definition frame (st0 st : state) : Prop :=
  s_blocks st = s_blocks st0 /\ s_verified st = s_verified st0 /\ s_acc_id st = s_acc_id st0 /\
  s_dih st = s_dih st0 /\ s_dhi st = s_dhi st0 /\ s_ready st = s_ready st0 /\ s_unres st = s_unres st0 /\
  s_last st = s_last st0 /\ s_lastproc st = s_lastproc st0 /\ s_queue st = s_queue st0 /\ s_acc_h st = s_acc_h st0 /\
  s_parsed st = s_parsed st0 /\ s_pref st = s_pref st0 /\
  (forall h, o_id (obj_of st h) = o_id (obj_of st0 h)) /\
  (forall h, o_accepted (obj_of st h) = o_accepted (obj_of st0 h)) /\
  lenN (s_objs st) = lenN (s_objs st0).

Lemma frame_refl st : frame st st.
Proof. unfold frame. repeat split; reflexivity. Qed.

Lemma frame_mark_verified st0 st h : frame st0 st -> frame st0 (mark_verified h st).
Proof.
  unfold frame. intros (A1 & A2 & A3 & A4 & A5 & A6 & A7 & A8 & A9 & A10 & A11 & A12 & A13 & A14 & A15 & A16).
  repeat split; try assumption.
  - intros x. rewrite oid_mark_verified. apply A14.
  - intros x. rewrite <- A15. unfold mark_verified, obj_of. cbn [s_objs set_objs]. rewrite nthN_setN.
    destruct (h =? x) eqn:E; [|reflexivity]. apply N.eqb_eq in E. subst x. destruct (nthN (s_objs st) h); reflexivity.
  - rewrite lenN_mark_verified. exact A16.
Qed.

Lemma frame_get_block st0 st b : frame st0 st -> get_block st b = get_block st0 b.
Proof.
  unfold frame. intros (A1 & A2 & A3 & A4 & A5 & _). unfold get_block, disk_get. rewrite A2, A3, A4, A5. reflexivity.
Qed.

Lemma overified_mark_verified st h x :
  o_verified (obj_of (mark_verified h st) x) = if (h =? x) && (x <? lenN (s_objs st)) then true else o_verified (obj_of st x).
Proof.
  unfold mark_verified, obj_of. cbn [s_objs set_objs]. rewrite nthN_setN.
  destruct (h =? x) eqn:E; [|reflexivity]. apply N.eqb_eq in E. subst x. cbn [andb].
  destruct (nthN (s_objs st) h) eqn:En.
  - apply nthN_some_lt in En. apply N.ltb_lt in En. rewrite En. reflexivity.
  - destruct (h <? lenN (s_objs st)) eqn:El; [|reflexivity]. apply N.ltb_lt in El.
    destruct (nthN_lt_some _ _ El) as [o Ho]. congruence.
Qed.

