(* Handover_proofs.v — C21: the hand-over from dynamic state sync to normal operation
   (FinishStateSync: reprocess target -> tip, verifyProcessingBlocks, unresolved-block health check). *)
From Coq Require Import List NArith Arith Bool Lia Sorted.
From Coq Require Import ZifyN ZifyNat ZifyBool.
Import ListNotations.
From HV Require Import Model.Snow Proofs.Snow_proofs.
Local Open Scope N_scope.

(* ------------------------------------------------------------------ maps without duplicate keys *)
Lemma lookup_none_notin {V} k (m : list (N * V)) : lookup k m = None -> ~ In k (map fst m).
Proof.
  induction m as [|[a v] r IH]; cbn [lookup map fst In]; [tauto|].
  destruct (k =? a) eqn:E; [discriminate|]. apply N.eqb_neq in E. intros H [A|A]; [congruence | exact (IH H A)].
Qed.

Lemma lookup_in_keys {V} k (m : list (N * V)) v : lookup k m = Some v -> In k (map fst m).
Proof. intros H. apply lookup_In in H. apply in_map_iff. exists (k, v). auto. Qed.

Lemma nodup_In_lookup {V} (m : list (N * V)) k v : NoDup (map fst m) -> In (k, v) m -> lookup k m = Some v.
Proof.
  induction m as [|[a w] r IH]; cbn [map fst lookup In]; [tauto|].
  intros Hnd [[= -> ->]|Hin]; [rewrite N.eqb_refl; reflexivity|].
  inversion Hnd as [|? ? Hn Hr]; subst. destruct (k =? a) eqn:E; [|apply IH; assumption].
  apply N.eqb_eq in E. subst a. exfalso. apply Hn. apply in_map_iff. exists (k, v). auto.
Qed.

Lemma keys_update {V} k (v : V) m : map fst (update k v m) = map fst m.
Proof.
  induction m as [|[a w] r IH]; cbn [update map fst]; [reflexivity|].
  destruct (k =? a); cbn [map fst]; [reflexivity | rewrite IH; reflexivity].
Qed.

Lemma nodup_tl {A} (l : list A) : NoDup l -> NoDup (tl l).
Proof. destruct l; cbn [tl]; [auto | intros H; inversion H; assumption]. Qed.

Lemma keys_fifo_nodup {V} W k (v : V) m : NoDup (map fst m) -> NoDup (map fst (fifo_put W k v m)).
Proof.
  intros Hnd. unfold fifo_put. destruct (lookup k m) eqn:E.
  - rewrite keys_update. exact Hnd.
  - rewrite map_app. cbn [map fst]. apply NoDup_app_one.
    + destruct (W <=? lenN m); [|exact Hnd]. destruct m; cbn [tl map]; [constructor | inversion Hnd; assumption].
    + intros Hin. apply (lookup_none_notin _ _ E).
      destruct (W <=? lenN m); [|exact Hin]. destruct m; cbn [tl map] in *; [destruct Hin | right; exact Hin].
Qed.

(* other keys keep their value (or are evicted) in a FIFO put *)
Lemma lookup_fifo_put_other {V} W k (v : V) m x y :
  NoDup (map fst m) -> x <> k -> lookup x (fifo_put W k v m) = Some y -> lookup x m = Some y.
Proof.
  intros Hnd Hne. unfold fifo_put. destruct (lookup k m) eqn:E.
  - rewrite lookup_update. apply N.eqb_neq in Hne. rewrite Hne. auto.
  - rewrite lookup_app. cbn [lookup]. apply N.eqb_neq in Hne. rewrite Hne.
    destruct (lookup x (if W <=? lenN m then tl m else m)) eqn:E2; [|discriminate].
    intros [= ->]. destruct (W <=? lenN m); [|exact E2].
    destruct m as [|[a w] r]; cbn [tl] in E2; [discriminate|]. cbn [lookup].
    destruct (x =? a) eqn:E3; [|exact E2]. apply N.eqb_eq in E3. subst a.
    exfalso. cbn [map fst] in Hnd. inversion Hnd as [|? ? Hn _]; subst. apply Hn. eapply lookup_in_keys; eauto.
Qed.

Lemma keys_remove_nodup {V} k (m : list (N * V)) : NoDup (map fst m) -> NoDup (map fst (remove_key k m)).
Proof.
  induction m as [|[a w] r IH]; cbn [remove_key filter map fst]; [auto|]. fold (remove_key k r).
  intros Hnd. inversion Hnd as [|? ? Hn Hr]; subst. destruct (negb (a =? k)); cbn [map fst]; [|auto].
  constructor; [|auto]. intros Hin. apply Hn. apply in_map_iff in Hin. destruct Hin as [[a' w'] [Ha Hin]].
  apply In_remove_key in Hin. apply in_map_iff. exists (a', w'). auto.
Qed.

Lemma keys_mput_nodup {V} k (v : V) m : NoDup (map fst m) -> NoDup (map fst (mput k v m)).
Proof.
  intros Hnd. unfold mput. cbn [map fst]. constructor; [|apply keys_remove_nodup; exact Hnd].
  intros Hin. apply in_map_iff in Hin. destruct Hin as [[a w] [Ha Hin]]. cbn [fst] in Ha. subst a.
  unfold remove_key in Hin. apply filter_In in Hin. cbn [fst] in Hin. rewrite N.eqb_refl in Hin. destruct Hin; discriminate.
Qed.

(* ------------------------------------------------------------------ goodness, orphans *)
(* the known finding: a processing block whose parent was rejected (the engine is in the middle of
   a transitive rejection) *)
Definition orphan_free (es : estate) : bool :=
  forallb (fun x : N * N => negb (memN (e_parent es (fst x)) (e_rej es))) (e_proc es).

Lemma good_inv es b : good es b ->
  hasK b (e_proc es) = true /\ e_invalid es b = false /\
  (e_parent es b = e_last es \/ (hasK (e_parent es b) (e_proc es) = true /\ good es (e_parent es b))).
Proof. intros H. inversion H; subst; auto. Qed.

(* ------------------------------------------------------------------ the invariant of the phase in
   which the VM is not ready (before and during dynamic state sync) *)
Record SyncPart (st : state) (es : estate) : Prop := mkSync {
  y_procpar : forall b, hasK b (e_proc es) = true ->
              hasK (e_parent es b) (e_proc es) = true \/ In (e_parent es b) (e_sync es) \/ In (e_parent es b) (e_rej es);
  y_last : oiv st (s_last st) = Some (e_last es, false) /\ lookup (e_last es) (s_acc_id st) = Some (s_last st);
  y_sync : exists t0 rest, e_sync es = t0 :: rest /\ chain_from es t0 rest = true /\ last rest t0 = e_last es /\
                           forallb (fun x => negb (e_invalid es x)) rest = true;
  y_sync_in : forall x, In x (e_sync es) ->
              In x (e_chain es) /\ x < lenN (e_blocks es) /\
              lookup x (s_dih st) = Some (e_height es x) /\ lookup (e_height es x) (s_dhi st) = Some x;
  y_accid : forall x h', In x (e_sync es) -> lookup x (s_acc_id st) = Some h' -> oiv st h' = Some (x, false)
}.

Record SInv (st : state) (es : estate) : Prop := mkSInv {
  n_ready : s_ready st = false;
  n_eready : e_ready es = false;
  n_unres : s_unres st = None;
  n_pending : e_pending es = 0;
  n_blocks : s_blocks st = e_blocks es;
  n_proc : s_verified st = e_proc es;
  n_tree : forall b, b < lenN (e_blocks es) -> e_parent es b <> b ->
           e_parent es b < b /\ e_height es b = e_height es (e_parent es b) + 1;
  n_hid : forall h b, lookup h (e_hid es) = Some b -> exists v, oiv st h = Some (b, v);
  n_ver : forall h b, oiv st h = Some (b, true) -> In b (e_chain es) \/ In b (e_rej es);
  n_procobj : forall b h, lookup b (e_proc es) = Some h ->
              oiv st h = Some (b, false) /\ b < lenN (e_blocks es) /\ ~ In b (e_chain es) /\ ~ In b (e_rej es) /\
              e_parent es b <> b;
  n_procnd : NoDup (map fst (e_proc es));
  n_accnd : NoDup (map fst (s_acc_id st));
  n_accobj : forall b h, In (b, h) (s_acc_id st) -> h < lenN (s_objs st);
  n_parsedobj : forall b h, In (b, h) (s_parsed st) -> h < lenN (s_objs st);
  n_lastchain : In (e_last es) (e_chain es);
  n_chain_rej : forall b, In b (e_chain es) -> ~ In b (e_rej es);
  n_accchain : forall b h, In (b, h) (s_acc_id st) -> In b (e_chain es);
  n_dihchain : forall b k, lookup b (s_dih st) = Some k -> In b (e_chain es);
  n_sync : e_started es = true -> SyncPart st es
}.

(* ------------------------------------------------------------------ reprocessFromOutputToInput *)
Lemma chain_from_last_height es : forall l p, chain_from es p l = true ->
  e_height es (last l p) = e_height es p + lenN l.
Proof.
  induction l as [|b r IH]; intros p H; cbn [chain_from] in H.
  - cbn. lia.
  - apply andb_true_iff in H. destruct H as [H H3]. apply andb_true_iff in H. destruct H as [H1 H2].
    rewrite last_cons, (IH _ H3). apply N.eqb_eq in H2. rewrite H2. unfold lenN. cbn [length]. lia.
Qed.

Lemma reprocess_chain st es : s_blocks st = e_blocks es ->
  forall l cur tgt, chain_from es cur l = true -> tgt = e_height es (last l cur) ->
  (forall x, In x l -> lookup (e_height es x) (s_dhi st) = Some x /\ e_invalid es x = false) ->
  reprocess (length l) st cur tgt = (inl (last l cur), exec_chain cur l).
Proof.
  intros Hb.
  assert (Hh : forall b, height st b = e_height es b) by (intros b; unfold height, e_height, binfo_of, e_binfo; rewrite Hb; reflexivity).
  assert (Hi : forall b, invalid st b = e_invalid es b) by (intros b; unfold invalid, e_invalid, binfo_of, e_binfo; rewrite Hb; reflexivity).
  induction l as [|b r IH]; intros cur tgt Hc Ht Hx; [reflexivity|].
  pose proof (chain_from_last_height es _ _ Hc) as Hlh.
  cbn [chain_from] in Hc. apply andb_true_iff in Hc. destruct Hc as [Hc H3]. apply andb_true_iff in Hc. destruct Hc as [H1 H2].
  apply N.eqb_eq in H2.
  cbn [length reprocess]. rewrite Hh.
  assert (e_height es cur <? tgt = true) as -> by (apply N.ltb_lt; rewrite Ht, Hlh; unfold lenN; cbn [length]; lia).
  destruct (Hx b (or_introl eq_refl)) as [Hd Hv]. rewrite <- H2, Hd, Hi, Hv.
  rewrite (IH b tgt H3); [rewrite last_cons; reflexivity | rewrite Ht, last_cons; reflexivity |].
  intros x Hin. apply Hx. right. exact Hin.
Qed.

Lemma after_split t : forall l, In t l -> exists pre suf, l = pre ++ t :: suf /\ after t l = suf.
Proof.
  induction l as [|x r IH]; intros Hin; [destruct Hin|]. cbn [after].
  destruct (x =? t) eqn:E.
  - apply N.eqb_eq in E. subst x. exists [], r. auto.
  - destruct Hin as [->|Hin]; [rewrite N.eqb_refl in E; discriminate|].
    destruct (IH Hin) as (pre & suf & -> & Hs). exists (x :: pre), suf. auto.
Qed.

Lemma chain_from_split es : forall pre p t suf, chain_from es p (pre ++ t :: suf) = true ->
  chain_from es t suf = true.
Proof.
  induction pre as [|x r IH]; intros p t suf H; cbn [app chain_from] in H.
  - apply andb_true_iff in H. tauto.
  - apply andb_true_iff in H. destruct H as [_ H]. eapply IH; eauto.
Qed.

Lemma forallb_app_r {A} (f : A -> bool) l1 l2 : forallb f (l1 ++ l2) = true -> forallb f l2 = true.
Proof. rewrite forallb_app, andb_true_iff. tauto. Qed.

(* ------------------------------------------------------------------ verifyProcessingBlocks *)
Section Handover.
Variables (es : estate) (st0 : state) (hL : N).
Hypothesis F1 : s_verified st0 = e_proc es.
Hypothesis F2 : forall b h, lookup b (e_proc es) = Some h ->
                o_id (obj_of st0 h) = b /\ h < lenN (s_objs st0) /\ o_verified (obj_of st0 h) = false.
Hypothesis F3 : lookup (e_last es) (s_acc_id st0) = Some hL /\ lookup (e_last es) (e_proc es) = None.
Hypothesis F5 : o_id (obj_of st0 hL) = e_last es /\ o_verified (obj_of st0 hL) = true.
Hypothesis F8 : s_blocks st0 = e_blocks es.
Hypothesis F9 : forall b, hasK b (e_proc es) = true -> e_height es b = e_height es (e_parent es b) + 1.
Hypothesis F10 : forall b, hasK b (e_proc es) = true -> hasK (e_parent es b) (e_proc es) = false ->
                 e_parent es b <> e_last es ->
                 get_block st0 (e_parent es b) = None \/
                 exists r, get_block st0 (e_parent es b) = Some r /\ o_verified (ref_obj st0 r) = false /\
                           o_id (ref_obj st0 r) = e_parent es b.
Hypothesis F13 : NoDup (map fst (e_proc es)).

Let L := sort_processing st0 (e_proc es).

Definition Vinv (cur : state) (D : list (N * N)) : Prop :=
  forall h, o_verified (obj_of cur h) = true <->
            (o_verified (obj_of st0 h) = true \/ exists b, In (b, h) D /\ good es b).

Lemma st0_height b : height st0 b = e_height es b.
Proof. unfold height, e_height, binfo_of, e_binfo. rewrite F8. reflexivity. Qed.

Lemma vp_loop : forall R D cur inv evs,
  L = D ++ R -> frame st0 cur -> Vinv cur D ->
  (forall b, In b inv <-> exists h, In (b, h) D /\ ~ good es b) ->
  exists st' inv' evs2,
    verify_processing cur R inv evs = Some (st', inv', evs ++ evs2) /\ frame st0 st' /\ Vinv st' (D ++ R) /\
    (forall b, In b inv' <-> exists h, In (b, h) (D ++ R) /\ ~ good es b) /\
    accepts evs2 = [] /\ naccepted evs2 = [].
Proof.
  induction R as [|[b h] R IH]; intros D cur inv evs HL Hf HV Hinv.
  - exists cur, inv, []. cbn [verify_processing]. rewrite !app_nil_r. split; [reflexivity|]. split; [exact Hf|]. split; [exact HV|]. split; [exact Hinv|]. split; reflexivity.
  - assert (HinL : In (b, h) L) by (rewrite HL; apply in_or_app; right; left; reflexivity).
    assert (Hlk : lookup b (e_proc es) = Some h)
      by (apply nodup_In_lookup; [exact F13 | apply (sort_processing_In st0); exact HinL]).
    assert (Hbk : hasK b (e_proc es) = true) by (apply hasK_lookup; eauto).
    destruct (F2 _ _ Hlk) as (Hidh & Hhlt & Hunv).
    assert (Hblocks : s_blocks cur = e_blocks es) by (destruct Hf as (A & _); rewrite A; exact F8).
    assert (Hpar : parent cur b = e_parent es b) by (unfold parent, e_parent, binfo_of, e_binfo; rewrite Hblocks; reflexivity).
    assert (Hinvd : invalid cur b = e_invalid es b) by (unfold invalid, e_invalid, binfo_of, e_binfo; rewrite Hblocks; reflexivity).
    assert (Hlen : lenN (s_objs cur) = lenN (s_objs st0)) by (destruct Hf as (_ & _ & _ & _ & _ & _ & _ & _ & _ & _ & _ & _ & _ & _ & _ & A); exact A).
    assert (Hids : forall x, o_id (obj_of cur x) = o_id (obj_of st0 x)) by (destruct Hf as (_ & _ & _ & _ & _ & _ & _ & _ & _ & _ & _ & _ & _ & A & _); exact A).
    set (p := e_parent es b) in *.
    (* the common continuation when b stays unverified *)
    assert (Bad : forall ev1, ~ good es b -> accepts ev1 = [] -> naccepted ev1 = [] ->
              exists st' inv' evs2, verify_processing cur R (inv ++ [b]) (evs ++ ev1) = Some (st', inv', evs ++ evs2) /\ frame st0 st' /\
                Vinv st' (D ++ (b, h) :: R) /\
                (forall b0, In b0 inv' <-> exists h0, In (b0, h0) (D ++ (b, h) :: R) /\ ~ good es b0) /\
                accepts evs2 = [] /\ naccepted evs2 = []).
    { intros ev1 Hng Ha1 Ha2.
      destruct (IH (D ++ [(b, h)]) cur (inv ++ [b]) (evs ++ ev1)) as (st' & inv' & evs2 & A & B & C & D' & E1 & E2).
      - rewrite <- app_assoc. exact HL.
      - exact Hf.
      - intros h0. rewrite (HV h0). split; intros [A|[b0 [A B]]]; auto; right.
        + exists b0. split; [apply in_or_app; left; exact A | exact B].
        + apply in_app_or in A. destruct A as [A|[[= <- <-]|[]]]; [eauto | contradiction].
      - intros b0. rewrite in_app_iff, Hinv. cbn [In]. split.
        + intros [[h0 [A B]]|[<-|[]]]; [exists h0; split; [apply in_or_app; left; exact A | exact B] | exists h; split; [apply in_or_app; right; left; reflexivity | exact Hng]].
        + intros [h0 [A B]]. apply in_app_or in A. destruct A as [A|[[= <- <-]|[]]]; [left; eauto | right; left; reflexivity].
      - exists st', inv', (ev1 ++ evs2). rewrite <- app_assoc in A, C, D'. cbn [app] in C, D'.
        split; [exact A|]. split; [exact B|]. split; [exact C|]. split; [exact D'|]. split.
        + rewrite accepts_app, Ha1, E1. reflexivity.
        + rewrite naccepted_app, Ha2, E2. reflexivity. }
    (* the continuation when b is verified *)
    assert (Good : forall po, good es b ->
              exists st' inv' evs2, verify_processing (mark_verified h cur) R inv (evs ++ [EVerify po b true; NVerified b]) = Some (st', inv', evs ++ evs2) /\ frame st0 st' /\
                Vinv st' (D ++ (b, h) :: R) /\
                (forall b0, In b0 inv' <-> exists h0, In (b0, h0) (D ++ (b, h) :: R) /\ ~ good es b0) /\
                accepts evs2 = [] /\ naccepted evs2 = []).
    { intros po Hgb.
      destruct (IH (D ++ [(b, h)]) (mark_verified h cur) inv (evs ++ [EVerify po b true; NVerified b]))
        as (st' & inv' & evs2 & A & B & C & D' & E1 & E2).
      - rewrite <- app_assoc. exact HL.
      - apply frame_mark_verified. exact Hf.
      - intros h0. rewrite overified_mark_verified.
        destruct ((h =? h0) && (h0 <? lenN (s_objs cur))) eqn:E.
        + apply andb_true_iff in E. destruct E as [E _]. apply N.eqb_eq in E. subst h0.
          split; [intros _|reflexivity]. right. exists b. split; [apply in_or_app; right; left; reflexivity | exact Hgb].
        + rewrite (HV h0). split; intros [X|[b0 [X Y]]]; auto; right.
          * exists b0. split; [apply in_or_app; left; exact X | exact Y].
          * apply in_app_or in X. destruct X as [X|[[= <- <-]|[]]]; [eauto|].
            exfalso. rewrite N.eqb_refl in E. cbn [andb] in E. apply N.ltb_ge in E. lia.
      - intros b0. rewrite Hinv. split; intros [h0 [X Y]].
        + exists h0. split; [apply in_or_app; left; exact X | exact Y].
        + apply in_app_or in X. destruct X as [X|[[= <- <-]|[]]]; [eauto | contradiction].
      - exists st', inv', ([EVerify po b true; NVerified b] ++ evs2). rewrite <- app_assoc in A, C, D'. cbn [app] in C, D'.
        split; [exact A|]. split; [exact B|]. split; [exact C|]. split; [exact D'|]. split.
        + rewrite accepts_app, E1. reflexivity.
        + rewrite naccepted_app, E2. reflexivity. }
    cbn [verify_processing]. rewrite Hpar, (frame_get_block _ _ p Hf).
    destruct (lookup p (e_proc es)) as [hp|] eqn:Ep.
    + (* the parent is processing *)
      unfold get_block. rewrite F1, Ep.
      destruct (F2 _ _ Ep) as (Hidp & Hplt & Hpunv). cbn [ref_obj].
      assert (Hpk : hasK p (e_proc es) = true) by (apply hasK_lookup; eauto).
      assert (Hvp : o_verified (obj_of cur hp) = true <-> good es p).
      { rewrite (HV hp). split.
        - intros [X|[b0 [A B]]]; [congruence|].
          assert (In (b0, hp) L) as A' by (rewrite HL; apply in_or_app; left; exact A).
          unfold L in A'. apply (proj1 (sort_processing_In st0 _ _)) in A'. apply (nodup_In_lookup _ _ _ F13) in A'. destruct (F2 _ _ A') as (Hid0 & _).
          rewrite Hidp in Hid0. subst b0. exact B.
        - intros Hg. right. exists p. split; [|exact Hg].
          apply (sorted_split_before st0 D (b, h) R (p, hp)).
          + rewrite <- HL. apply sort_processing_sorted.
          + rewrite <- HL. apply (sort_processing_In st0). apply lookup_In. exact Ep.
          + cbn [fst]. rewrite !st0_height. rewrite (F9 _ Hbk). fold p. lia. }
      destruct (o_verified (obj_of cur hp)) eqn:Ev; cbn [negb].
      * assert (Hgp : good es p) by (apply Hvp; reflexivity).
        rewrite Hinvd. destruct (e_invalid es b) eqn:Einv.
        -- apply Bad; [|reflexivity|reflexivity].
           intros Hg. apply good_inv in Hg. destruct Hg as (_ & Hv & _). congruence.
        -- apply Good. apply good_step; assumption.
      * destruct (Bad []) as (st' & inv' & evs2 & A & B); [|reflexivity|reflexivity|].
        { intros Hg. apply good_inv in Hg. destruct Hg as (_ & _ & [Hg|[_ Hg]]).
          - destruct F3 as [_ F3b]. fold p in Hg. rewrite Hg in Ep. congruence.
          - apply Hvp in Hg. congruence. }
        rewrite app_nil_r in A. exists st', inv', evs2. split; [exact A | exact B].
    + (* the parent is not processing *)
      destruct (N.eq_dec p (e_last es)) as [Hpl|Hpl].
      * unfold get_block. rewrite F1, Ep, Hpl, (proj1 F3). cbn [ref_obj].
        assert (o_verified (obj_of cur hL) = true) as -> by (apply HV; left; exact (proj2 F5)). cbn [negb].
        rewrite Hinvd. destruct (e_invalid es b) eqn:Einv.
        -- apply Bad; [|reflexivity|reflexivity].
           intros Hg. apply good_inv in Hg. destruct Hg as (_ & Hv & _). congruence.
        -- apply Good. apply good_root; assumption.
      * assert (Hngb : ~ good es b).
        { intros Hg. apply good_inv in Hg. destruct Hg as (_ & _ & [Hg|[Hg _]]); [contradiction|].
          unfold hasK in Hg. fold p in Hg. rewrite Ep in Hg. discriminate. }
        destruct (F10 b Hbk) as [Hr|(r & Hr & Hru & Hrid)]; [unfold hasK; fold p; rewrite Ep; reflexivity | exact Hpl | |].
        { fold p in Hr. rewrite Hr. destruct (Bad []) as (st' & inv' & evs2 & A & B); [exact Hngb|reflexivity|reflexivity|].
          rewrite app_nil_r in A. exists st', inv', evs2. split; [exact A | exact B]. }
        fold p in Hr, Hrid. rewrite Hr.
        assert (o_verified (ref_obj cur r) = false) as ->.
        { destruct r as [h'|b']; [|reflexivity]. cbn [ref_obj] in *.
          destruct (o_verified (obj_of cur h')) eqn:Ev; [|reflexivity]. exfalso.
          apply HV in Ev. destruct Ev as [X|[b0 [A B]]]; [congruence|].
          assert (In (b0, h') L) as A' by (rewrite HL; apply in_or_app; left; exact A).
          unfold L in A'. apply (proj1 (sort_processing_In st0 _ _)) in A'. apply (nodup_In_lookup _ _ _ F13) in A'. destruct (F2 _ _ A') as (Hid0 & _).
          rewrite Hrid in Hid0. subst b0. rewrite Ep in A'. discriminate. }
        cbn [negb]. destruct (Bad []) as (st' & inv' & evs2 & A & B); [|reflexivity|reflexivity|].
        { intros Hg. apply good_inv in Hg. destruct Hg as (_ & _ & [Hg|[Hg _]]); [contradiction|].
          unfold hasK in Hg. fold p in Hg. rewrite Ep in Hg. discriminate. }
        rewrite app_nil_r in A. exists st', inv', evs2. split; [exact A | exact B].
Qed.
End Handover.

(* ------------------------------------------------------------------ FinishStateSync *)
Lemma last_app_cons {A} (pre : list A) t suf d : last (pre ++ t :: suf) d = last suf t.
Proof.
  revert d. induction pre as [|x r IH]; intros d; cbn [app].
  - apply last_cons.
  - rewrite last_cons. apply IH.
Qed.

Lemma obj_of_setN_other st h x o : x <> h -> obj_of (set_objs (setN h o (s_objs st)) st) x = obj_of st x.
Proof.
  intros Hne. unfold obj_of. cbn [s_objs set_objs]. rewrite nthN_setN.
  destruct (h =? x) eqn:E; [apply N.eqb_eq in E; congruence | reflexivity].
Qed.

Lemma obj_of_setN_same st h o : h < lenN (s_objs st) -> obj_of (set_objs (setN h o (s_objs st)) st) h = o.
Proof.
  intros Hlt. unfold obj_of. cbn [s_objs set_objs]. rewrite nthN_setN, N.eqb_refl.
  destruct (nthN_lt_some _ _ Hlt) as [x ->]. reflexivity.
Qed.

Lemma sync_decomp es st t : SyncPart st es -> In t (e_sync es) ->
  exists suf, after t (e_sync es) = suf /\ chain_from es t suf = true /\ last suf t = e_last es /\
              (forall x, In x suf -> In x (e_sync es) /\ e_invalid es x = false).
Proof.
  intros Y Hin. destruct (y_sync _ _ Y) as (t0 & rest & Hs & Hc & Hl & Hv).
  destruct (after_split t _ Hin) as (pre & suf & Hd & Ha). exists suf. split; [exact Ha|].
  rewrite Hs in Hd. destruct pre as [|x pre]; cbn [app] in Hd.
  - injection Hd as -> ->. repeat split; auto.
    + rewrite Hs. right. assumption.
    + rewrite forallb_forall in Hv. specialize (Hv _ H). destruct (e_invalid es x); [discriminate | reflexivity].
  - injection Hd as <- ->. split; [eapply chain_from_split; eauto|]. split; [rewrite <- Hl; symmetry; apply last_app_cons|].
    intros y Hy. split.
    + rewrite Hs. right. apply in_or_app. right. right. exact Hy.
    + apply forallb_app_r in Hv. cbn [forallb] in Hv. apply andb_true_iff in Hv. destruct Hv as [_ Hv].
      rewrite forallb_forall in Hv. specialize (Hv _ Hy). destruct (e_invalid es y); [discriminate | reflexivity].
Qed.

Lemma orphan_free_spec es b : orphan_free es = true -> hasK b (e_proc es) = true -> ~ In (e_parent es b) (e_rej es).
Proof.
  unfold orphan_free. rewrite forallb_forall. intros H Hk. apply hasK_lookup in Hk. destruct Hk as [h Hh].
  specialize (H _ (lookup_In _ _ _ Hh)). cbn [fst] in H. apply negb_true_iff in H. apply memN_false in H. exact H.
Qed.

Lemma sla_last c h s : s_last (set_last_accepted c h s) = h. Proof. reflexivity. Qed.
Lemma sla_accid c h s : s_acc_id (set_last_accepted c h s) = fifo_put (c_W c) (o_id (obj_of s h)) h (s_acc_id s). Proof. reflexivity. Qed.
Lemma sla_obj c h s x : obj_of (set_last_accepted c h s) x = obj_of s x. Proof. reflexivity. Qed.
Lemma sla_objs c h s : s_objs (set_last_accepted c h s) = s_objs s. Proof. reflexivity. Qed.

(* what FinishStateSync leaves behind *)
Record Finished (es : estate) (st' : state) (u : list N) : Prop := mkFin {
  f_ready : s_ready st' = true;
  f_unres : s_unres st' = Some u;
  f_last_id : o_id (obj_of st' (s_last st')) = e_last es;
  f_last_ver : o_verified (obj_of st' (s_last st')) = true;
  f_last_acc : o_accepted (obj_of st' (s_last st')) = true;
  f_last_lt : s_last st' < lenN (s_objs st');
  f_lastproc : s_lastproc st' = Some (s_last st');
  f_proc : s_verified st' = e_proc es;
  f_procobj : forall b h, lookup b (e_proc es) = Some h ->
              o_id (obj_of st' h) = b /\ h < lenN (s_objs st') /\ (o_verified (obj_of st' h) = true <-> good es b);
  f_u : forall b, In b u <-> hasK b (e_proc es) = true /\ ~ good es b
}.

Lemma finish_step c Q st es t :
  1 <= c_W c -> SInv st es -> eguard Q es (OFinishSync t) = true ->
  exists st' u evs2,
    step c st (OFinishSync t) = (st', RUnit, exec_chain t (after t (e_sync es)) ++ evs2) /\
    accepts evs2 = [] /\ naccepted evs2 = [] /\ Finished es st' u /\
    s_blocks st' = s_blocks st /\ lenN (s_objs st) <= lenN (s_objs st') /\
    (forall h, h < lenN (s_objs st) -> o_id (obj_of st' h) = o_id (obj_of st h)).
Proof.
  intros HW HS HG. cbn [eguard] in HG.
  apply andb_true_iff in HG. destruct HG as [HG Ht]. apply andb_true_iff in HG. destruct HG as [Hst _].
  apply memN_In in Ht.
  pose proof (n_sync _ _ HS Hst) as Y.
  destruct (sync_decomp _ _ _ Y Ht) as (suf & Haft & Hch & Hlast & Hsuf).
  destruct (y_last _ _ Y) as [Hlo Hla]. destruct (oiv_obj_of _ _ _ _ Hlo) as [Hlid Hlv].
  pose proof (oiv_lt _ _ _ Hlo) as Hllt.
  assert (Hhe : forall b, height st b = e_height es b) by (intros b; unfold height, e_height, binfo_of, e_binfo; rewrite (n_blocks _ _ HS); reflexivity).
  assert (HlastIn : In (e_last es) (e_sync es)).
  { destruct (y_sync _ _ Y) as (t0 & rest & Hs & _ & Hl & _). rewrite Hs, <- Hl.
    destruct rest as [|x r]; [left; reflexivity|]. right. rewrite last_cons. clear. revert x.
    induction r as [|y r IH]; intros x; [left; reflexivity|]. rewrite last_cons. right. apply IH. }
  assert (HlastChain : In (e_last es) (e_chain es)) by (apply (y_sync_in _ _ Y _ HlastIn)).
  assert (HprocNotLast : lookup (e_last es) (e_proc es) = None).
  { destruct (lookup (e_last es) (e_proc es)) as [h|] eqn:E; [|reflexivity].
    destruct (n_procobj _ _ HS _ _ E) as (_ & _ & Hn & _). contradiction. }
  (* stage 1: the last accepted block gets its output / accepted state *)
  assert (R1 : exists st1,
    (if t =? e_last es then inl (mark_set_accepted (s_last st) st, [])
     else if e_height es (e_last es) <? e_height es t then inr (eInvalidInit, [])
     else match reprocess (N.to_nat (e_height es (e_last es) - e_height es t)) st t (e_height es (e_last es)) with
          | (inr e, evs) => inr (e, evs)
          | (inl _, evs) => let '(h, st1) := alloc (mkO (e_last es) true true) st in inl (set_last_accepted c h st1, evs)
          end) = (inl (st1, exec_chain t suf) : (state * list event) + (N * list event)) /\
    s_blocks st1 = s_blocks st /\ s_verified st1 = s_verified st /\ s_dih st1 = s_dih st /\ s_dhi st1 = s_dhi st /\
    s_unres st1 = s_unres st /\ s_last st1 < lenN (s_objs st1) /\
    obj_of st1 (s_last st1) = mkO (e_last es) true true /\
    lookup (e_last es) (s_acc_id st1) = Some (s_last st1) /\
    (forall h, h < lenN (s_objs st) -> h <> s_last st -> obj_of st1 h = obj_of st h) /\
    o_id (obj_of st1 (s_last st)) = e_last es /\
    lenN (s_objs st) <= lenN (s_objs st1) /\
    (forall x h', x <> e_last es -> lookup x (s_acc_id st1) = Some h' -> lookup x (s_acc_id st) = Some h')).
  { destruct (t =? e_last es) eqn:Et.
    - apply N.eqb_eq in Et. subst t.
      assert (suf = []) as ->.
      { pose proof (chain_from_last_height es _ _ Hch) as Hh. rewrite Hlast in Hh.
        destruct suf; [reflexivity|]. unfold lenN in Hh. cbn [length] in Hh. lia. }
      exists (mark_set_accepted (s_last st) st). unfold mark_set_accepted. cbn [exec_chain].
      split; [reflexivity|]. cbn [set_objs s_blocks s_verified s_dih s_dhi s_unres s_last s_objs s_acc_id].
      rewrite lenN_setN. repeat split; auto.
      + rewrite obj_of_setN_same by exact Hllt. rewrite Hlid. reflexivity.
      + intros h _ Hne. apply obj_of_setN_other. exact Hne.
      + rewrite obj_of_setN_same by exact Hllt. exact Hlid.
      + lia.
    - apply N.eqb_neq in Et.
      pose proof (chain_from_last_height es _ _ Hch) as Hh. rewrite Hlast in Hh.
      assert (e_height es (e_last es) <? e_height es t = false) as -> by (apply N.ltb_ge; lia).
      replace (N.to_nat (e_height es (e_last es) - e_height es t)) with (length suf) by (unfold lenN in Hh; lia).
      rewrite (reprocess_chain st es (n_blocks _ _ HS) suf t (e_height es (e_last es)) Hch).
      + unfold alloc.
        set (st0 := set_objs (s_objs st ++ [mkO (e_last es) true true]) st).
        assert (Ho : obj_of st0 (lenN (s_objs st)) = mkO (e_last es) true true)
          by (unfold obj_of, st0; cbn [s_objs set_objs]; rewrite nthN_app_len; reflexivity).
        exists (set_last_accepted c (lenN (s_objs st)) st0). split; [reflexivity|].
        assert (Hlen0 : lenN (s_objs st0) = lenN (s_objs st) + 1) by (unfold st0; cbn [set_objs s_objs]; rewrite lenN_app; reflexivity).
        split; [reflexivity|]. split; [reflexivity|]. split; [reflexivity|]. split; [reflexivity|]. split; [reflexivity|].
        rewrite !sla_last, !sla_objs, !sla_accid, Ho. cbn [o_id].
        split; [lia|]. split; [rewrite sla_obj; exact Ho|]. split; [apply lookup_fifo_put_eq; exact HW|].
        split; [intros h Hlt _; rewrite sla_obj; unfold st0; apply obj_of_alloc_old; exact Hlt|].
        split; [rewrite sla_obj; unfold st0; rewrite obj_of_alloc_old by exact Hllt; exact Hlid|].
        split; [lia|].
        intros x h' Hne. apply lookup_fifo_put_other; [exact (n_accnd _ _ HS) | exact Hne].
      + rewrite Hlast. reflexivity.
      + intros x Hx. destruct (Hsuf _ Hx) as [Hxs Hxv]. split; [apply (y_sync_in _ _ Y _ Hxs) | exact Hxv]. }
  destruct R1 as (st1 & HR1 & Hb1 & Hv1 & Hdih1 & Hdhi1 & Hu1 & Hl1lt & Hl1o & Hl1a & Hold1 & Hid1 & Hlen1 & Hacc1).
  set (st2 := set_lastproc (Some (s_last st1)) st1).
  assert (Hobj2 : forall h, obj_of st2 h = obj_of st1 h) by reflexivity.
  (* stage 2: the processing blocks *)
  assert (HprocH : forall b h, lookup b (e_proc es) = Some h -> h <> s_last st /\ h < lenN (s_objs st) /\ obj_of st1 h = obj_of st h).
  { intros b h Hb. destruct (n_procobj _ _ HS _ _ Hb) as (Ho & _ & Hnc & _).
    pose proof (oiv_lt _ _ _ Ho) as Hlt. destruct (oiv_obj_of _ _ _ _ Ho) as [Hid _].
    assert (h <> s_last st) as Hne by (intros ->; rewrite Hlid in Hid; subst b; contradiction).
    repeat split; auto. }
  destruct (vp_loop es st2 (s_last st1)) with (R := sort_processing st2 (e_proc es)) (D := @nil (N * N)) (cur := st2) (inv := @nil N) (evs := @nil event)
    as (st3 & inv' & evs2 & Hvp & Hfr & HV & Hinv & Ea & En).
  - unfold st2. cbn [set_lastproc s_verified]. rewrite Hv1. exact (n_proc _ _ HS).
  - intros b h Hb. destruct (HprocH _ _ Hb) as (Hne & Hlt & Heq). rewrite Hobj2, Heq.
    destruct (n_procobj _ _ HS _ _ Hb) as (Ho & _). destruct (oiv_obj_of _ _ _ _ Ho) as [Hid Hvf].
    split; [exact Hid|]. split; [|exact Hvf]. unfold st2. cbn [set_lastproc s_objs]. lia.
  - split; [exact Hl1a | exact HprocNotLast].
  - rewrite Hobj2, Hl1o. split; reflexivity.
  - unfold st2. cbn [set_lastproc s_blocks]. rewrite Hb1. exact (n_blocks _ _ HS).
  - intros b Hk. apply hasK_lookup in Hk. destruct Hk as [h Hb].
    destruct (n_procobj _ _ HS _ _ Hb) as (_ & Hlt & _ & _ & Hpne). apply (n_tree _ _ HS _ Hlt Hpne).
  - intros b Hk Hpk Hpl.
    destruct (y_procpar _ _ Y _ Hk) as [Hp|[Hp|Hp]]; [congruence | right | left].
    2:{ (* the parent was rejected: it is nowhere to be found *)
      set (p := e_parent es b) in *.
      unfold get_block, disk_get. unfold st2. cbn [set_lastproc s_verified s_acc_id s_dih s_dhi]. rewrite Hv1, (n_proc _ _ HS).
      unfold hasK in Hpk. destruct (lookup p (e_proc es)); [discriminate|].
      destruct (lookup p (s_acc_id st1)) as [h'|] eqn:El.
      - exfalso. apply (n_chain_rej _ _ HS p); [|exact Hp]. apply (n_accchain _ _ HS p h'). apply lookup_In. exact (Hacc1 _ _ Hpl El).
      - rewrite Hdih1. destruct (lookup p (s_dih st)) as [k|] eqn:Ed; [|reflexivity].
        exfalso. apply (n_chain_rej _ _ HS p); [|exact Hp]. exact (n_dihchain _ _ HS _ _ Ed). }
    set (p := e_parent es b) in *.
    destruct (y_sync_in _ _ Y _ Hp) as (_ & _ & Hd1 & Hd2).
    unfold get_block, disk_get. unfold st2. cbn [set_lastproc s_verified s_acc_id s_dih s_dhi]. rewrite Hv1, (n_proc _ _ HS).
    unfold hasK in Hpk. destruct (lookup p (e_proc es)); [discriminate|].
    destruct (lookup p (s_acc_id st1)) as [h'|] eqn:El.
    + exists (BH h'). split; [reflexivity|]. cbn [ref_obj].
      pose proof (y_accid _ _ Y _ _ Hp (Hacc1 _ _ Hpl El)) as Ho.
      pose proof (oiv_lt _ _ _ Ho) as Hlt. destruct (oiv_obj_of _ _ _ _ Ho) as [Hid Hvf].
      assert (h' <> s_last st) as Hne by (intros ->; rewrite Hlid in Hid; congruence).
      change (obj_of (set_lastproc (Some (s_last st1)) st1) h') with (obj_of st1 h').
      rewrite (Hold1 _ Hlt Hne). split; assumption.
    + rewrite Hdih1, Hd1, Hdhi1, Hd2. exists (BE p). split; [reflexivity|]. split; reflexivity.
  - exact (n_procnd _ _ HS).
  - reflexivity.
  - apply frame_refl.
  - intros h. split; [intros H; left; exact H | intros [H|[b [[] _]]]; exact H].
  - intros b. split; [intros [] | intros [h [[] _]]].
  - (* assemble *)
    cbn [app] in Hvp, HV, Hinv.
    assert (Hunres3 : s_unres st3 = None).
    { destruct Hfr as (_ & _ & _ & _ & _ & _ & A & _). rewrite A. unfold st2. cbn [set_lastproc s_unres]. rewrite Hu1. exact (n_unres _ _ HS). }
    set (st' := set_ready true (set_unres (Some inv') st3)).
    exists st', inv', evs2.
    split.
    { cbn [step]. rewrite (n_ready _ _ HS). rewrite Hlid. rewrite !Hhe. cbv zeta.
      rewrite HR1. fold st2.
      assert (s_verified st2 = e_proc es) as -> by (unfold st2; cbn [set_lastproc s_verified]; rewrite Hv1; exact (n_proc _ _ HS)).
      rewrite Hvp, Hunres3, Haft. reflexivity. }
    split; [exact Ea|]. split; [exact En|].
    destruct Hfr as (A1 & A2 & A3 & A4 & A5 & A6 & A7 & A8 & A9 & A10 & A11 & A12 & A13 & A14 & A15 & A16).
    assert (Hobj' : forall h, obj_of st' h = obj_of st3 h) by reflexivity.
    assert (Hlast' : s_last st' = s_last st1) by (unfold st'; cbn [set_ready set_unres s_last]; rewrite A8; reflexivity).
    assert (Hlen' : lenN (s_objs st') = lenN (s_objs st1)) by (unfold st'; cbn [set_ready set_unres s_objs]; rewrite A16; reflexivity).
    split; [|split; [|split]].
    + constructor.
      * reflexivity.
      * reflexivity.
      * rewrite Hlast', Hobj', A14, Hobj2, Hl1o. reflexivity.
      * rewrite Hlast', Hobj'. apply HV. left. rewrite Hobj2, Hl1o. reflexivity.
      * rewrite Hlast', Hobj', A15, Hobj2, Hl1o. reflexivity.
      * rewrite Hlast', Hlen'. exact Hl1lt.
      * unfold st'. cbn [set_ready set_unres s_lastproc s_last]. rewrite A9, A8. reflexivity.
      * unfold st'. cbn [set_ready set_unres s_verified]. rewrite A2. unfold st2. cbn [set_lastproc s_verified]. rewrite Hv1. exact (n_proc _ _ HS).
      * intros b h Hb. destruct (HprocH _ _ Hb) as (Hne & Hlt & Heq).
        destruct (n_procobj _ _ HS _ _ Hb) as (Ho & _). destruct (oiv_obj_of _ _ _ _ Ho) as [Hid Hvf].
        split; [rewrite Hobj', A14, Hobj2, Heq; exact Hid|]. split; [rewrite Hlen'; lia|].
        rewrite Hobj', (HV h), Hobj2, Heq, Hvf. split.
        -- intros [X|[b0 [X Y0]]]; [discriminate|].
           apply (proj1 (sort_processing_In st2 _ _)) in X. apply (nodup_In_lookup _ _ _ (n_procnd _ _ HS)) in X.
           destruct (n_procobj _ _ HS _ _ X) as (Ho0 & _). rewrite Ho in Ho0. injection Ho0 as <-. exact Y0.
        -- intros Hg. right. exists b. split; [|exact Hg]. apply (sort_processing_In st2). apply lookup_In. exact Hb.
      * intros b. rewrite Hinv. split.
        -- intros [h [X Y0]]. apply (proj1 (sort_processing_In st2 _ _)) in X. split; [|exact Y0].
           apply hasK_lookup. exists h. apply (nodup_In_lookup _ _ _ (n_procnd _ _ HS)). exact X.
        -- intros [Hk Y0]. apply hasK_lookup in Hk. destruct Hk as [h Hb]. exists h. split; [|exact Y0].
           apply (sort_processing_In st2). apply lookup_In. exact Hb.
    + unfold st'. cbn [set_ready set_unres s_blocks]. rewrite A1. unfold st2. cbn [set_lastproc s_blocks]. exact Hb1.
    + rewrite Hlen'. exact Hlen1.
    + intros h Hlt. rewrite Hobj', A14, Hobj2.
      destruct (N.eq_dec h (s_last st)) as [->|Hne]; [rewrite Hid1; symmetry; exact Hlid | rewrite (Hold1 _ Hlt Hne); reflexivity].
Qed.

(* ================================================================== preservation of SInv *)
Lemma chain_from_height_le es : forall l p x, chain_from es p l = true -> In x (p :: l) ->
  e_height es x <= e_height es (last l p).
Proof.
  induction l as [|b r IH]; intros p x Hc Hin.
  - destruct Hin as [->|[]]. cbn. lia.
  - pose proof (chain_from_last_height es _ _ Hc) as Hh. rewrite last_cons.
    cbn [chain_from] in Hc. apply andb_true_iff in Hc. destruct Hc as [Hc H3]. apply andb_true_iff in Hc. destruct Hc as [H1 H2].
    destruct Hin as [->|Hin].
    + rewrite last_cons in Hh. lia.
    + apply IH; assumption.
Qed.

Lemma last_in {A} (l : list A) d : In (last l d) (d :: l).
Proof.
  revert d. induction l as [|x r IH]; intros d; [left; reflexivity|].
  rewrite last_cons. right. apply IH.
Qed.

Lemma sync_last_in st es : SyncPart st es -> In (e_last es) (e_sync es).
Proof. intros Y. destruct (y_sync _ _ Y) as (t0 & rest & Hs & _ & Hl & _). rewrite Hs, <- Hl. apply last_in. Qed.

Lemma sync_height_le st es x : SyncPart st es -> In x (e_sync es) -> e_height es x <= e_height es (e_last es).
Proof.
  intros Y Hin. destruct (y_sync _ _ Y) as (t0 & rest & Hs & Hc & Hl & _). rewrite Hs in Hin. rewrite <- Hl.
  eapply chain_from_height_le; eauto.
Qed.

Lemma forallb_ext_in' {A} (f g : A -> bool) l : (forall x, In x l -> f x = g x) -> forallb f l = forallb g l.
Proof.
  induction l as [|a r IH]; intros H; [reflexivity|]. cbn [forallb].
  rewrite (H a (or_introl eq_refl)), IH; [reflexivity|]. intros x Hx. apply H. right. exact Hx.
Qed.

Lemma syncpart_ext st es st' es' :
  e_blocks es' = e_blocks es -> e_proc es' = e_proc es -> e_sync es' = e_sync es -> e_rej es' = e_rej es ->
  e_last es' = e_last es -> e_chain es' = e_chain es ->
  s_last st' = s_last st -> s_acc_id st' = s_acc_id st -> s_dih st' = s_dih st -> s_dhi st' = s_dhi st ->
  (forall h x, oiv st h = Some x -> oiv st' h = Some x) ->
  SyncPart st es -> SyncPart st' es'.
Proof.
  intros E1 E2 E3 E4 E5 E6 T1 T2 T3 T4 Ho Y.
  assert (Hbi : forall b, e_binfo es' b = e_binfo es b) by (intros b; unfold e_binfo; rewrite E1; reflexivity).
  assert (Hpar : forall b, e_parent es' b = e_parent es b) by (intros b; unfold e_parent; rewrite Hbi; reflexivity).
  assert (Hhei : forall b, e_height es' b = e_height es b) by (intros b; unfold e_height; rewrite Hbi; reflexivity).
  assert (Hinv : forall b, e_invalid es' b = e_invalid es b) by (intros b; unfold e_invalid; rewrite Hbi; reflexivity).
  destruct Y. constructor.
  - intros b. rewrite E2, E3, E4, Hpar. apply y_procpar0.
  - rewrite T1, T2, E5. destruct y_last0 as [A B]. split; [apply Ho; exact A | exact B].
  - destruct y_sync0 as (t0 & rest & Hs & Hc & Hl & Hv). exists t0, rest. rewrite E3, E5.
    split; [exact Hs|]. split; [rewrite <- Hc; apply chain_from_blocks; exact E1|]. split; [exact Hl|].
    rewrite <- Hv. apply forallb_ext_in'. intros x _. rewrite Hinv. reflexivity.
  - intros x. rewrite E3, E6, E1, T3, T4, Hhei. apply y_sync_in0.
  - intros x h'. rewrite E3, T2. intros Hx Hl. apply Ho. exact (y_accid0 _ _ Hx Hl).
Qed.

Ltac hyp := first [assumption | match goal with H : _ |- _ => exact H end].

(* reads and preference *)
Lemma sinv_setpref st es b : SInv st es -> SInv (set_pref b st) (eupd es (OSetPref b) RUnit []).
Proof.
  intros HS. destruct HS. cbn [eupd]. constructor; try hyp.
  cbn [e_started]. intros Hst. apply (syncpart_ext st es); try reflexivity; [|exact (n_sync0 Hst)]. auto.
Qed.

(* learning a handle *)
Lemma sinv_learn st es h b : SInv st es -> (exists v, oiv st h = Some (b, v)) -> SInv st (es_learn h b es).
Proof.
  intros HS Hh. destruct HS. unfold es_learn. constructor; try hyp.
  - cbn [e_hid]. intros h0 b0 H0. rewrite lookup_mput in H0. destruct (h0 =? h) eqn:E.
    + apply N.eqb_eq in E. subst h0. injection H0 as <-. exact Hh.
    + exact (n_hid0 _ _ H0).
  - cbn [e_started]. intros Hst. apply (syncpart_ext st es); try reflexivity; [|exact (n_sync0 Hst)]. auto.
Qed.

Lemma sinv_get_block_BH st es b h : SInv st es -> get_block st b = Some (BH h) -> exists b' v, oiv st h = Some (b', v).
Proof.
  intros HS. unfold get_block. rewrite (n_proc _ _ HS).
  destruct (lookup b (e_proc es)) as [h1|] eqn:E1.
  - intros [= <-]. destruct (n_procobj _ _ HS _ _ E1) as (A & _). eauto.
  - destruct (lookup b (s_acc_id st)) as [h1|] eqn:E2.
    + intros [= <-]. apply lookup_In in E2. pose proof (n_accobj _ _ HS _ _ E2) as Hlt.
      destruct (nthN_lt_some _ _ Hlt) as [o Ho]. exists (o_id o), (o_verified o). apply oiv_nth. exact Ho.
    + destruct (disk_get st b); discriminate.
Qed.

Lemma sinv_set_parsed st es m : SInv st es -> (forall b h, In (b, h) m -> h < lenN (s_objs st)) -> SInv (set_parsed m st) es.
Proof.
  intros HS Hm. destruct HS. constructor; try hyp.
  intros Hst. apply (syncpart_ext st es); try reflexivity; [|exact (n_sync0 Hst)]. auto.
Qed.

Lemma sinv_alloc st es b : SInv st es -> SInv (set_objs (s_objs st ++ [mkO b false false]) st) es.
Proof.
  intros HS. destruct HS. constructor; try hyp; cbn [set_objs s_objs s_acc_id s_parsed].
  - intros h0 b0 H0. destruct (n_hid0 _ _ H0) as [v Hv]. exists v. apply oiv_alloc_old. exact Hv.
  - intros h0 b0 H0. apply oiv_alloc_inv in H0. destruct H0 as [H0|[_ H0]]; [exact (n_ver0 _ _ H0) | discriminate].
  - intros b0 h0 H0. destruct (n_procobj0 _ _ H0) as (A & B). split; [apply oiv_alloc_old; exact A | exact B].
  - intros b0 h0 H0. rewrite lenN_app. pose proof (n_accobj0 _ _ H0). lia.
  - intros b0 h0 H0. rewrite lenN_app. pose proof (n_parsedobj0 _ _ H0). lia.
  - intros Hst. apply (syncpart_ext st es); try reflexivity; [|exact (n_sync0 Hst)].
    intros h x Hx. apply oiv_alloc_old. exact Hx.
Qed.

Lemma sinv_do_parse c st es b st' r evs :
  SInv st es -> do_parse c st b = (st', r, evs) -> SInv st' (learn r es).
Proof.
  intros HS HP. unfold do_parse in HP.
  destruct (get_block st b) as [rf|] eqn:Eg.
  - injection HP as <- <- <-. rewrite learn_eq. unfold res_of_ref.
    destruct rf as [h|b']; [|exact HS].
    destruct (sinv_get_block_BH _ _ _ _ HS Eg) as (b' & v & Hv). cbn [ref_obj].
    apply sinv_learn; [exact HS|]. exists v. destruct (oiv_obj_of _ _ _ _ Hv) as [-> _]. exact Hv.
  - unfold lru_get in HP. destruct (lookup b (s_parsed st)) as [h|] eqn:El.
    + injection HP as <- <- <-. rewrite learn_eq. unfold res_of_ref. cbn [ref_obj].
      pose proof (n_parsedobj _ _ HS _ _ (lookup_In _ _ _ El)) as Hlt.
      destruct (nthN_lt_some _ _ Hlt) as [o Hn].
      assert (Hv : oiv st h = Some (o_id (obj_of st h), o_verified o)).
      { unfold oiv, obj_of. rewrite Hn. reflexivity. }
      apply sinv_learn.
      * apply sinv_set_parsed; [exact HS|]. intros b0 h0 Hin. apply in_app_or in Hin. destruct Hin as [Hin|[[= <- <-]|[]]].
        -- apply In_remove_key in Hin. exact (n_parsedobj _ _ HS _ _ Hin).
        -- exact Hlt.
      * exists (o_verified o). exact Hv.
    + unfold alloc in HP. injection HP as <- <- <-. rewrite learn_eq.
      apply sinv_learn.
      * match goal with |- SInv (set_parsed ?m ?s) _ => apply (sinv_set_parsed s es m) end.
        -- apply sinv_alloc. exact HS.
        -- cbn [set_objs s_objs s_parsed]. intros b0 h0 Hin. rewrite lenN_app. unfold lru_put in Hin.
           apply in_app_or in Hin. destruct Hin as [Hin|[[= <- <-]|[]]].
           ++ apply In_remove_key in Hin.
              assert (In (b0, h0) (s_parsed st)) as Hin' by (destruct (lenN (s_parsed st) =? c_P c); [apply In_tl|]; exact Hin).
              pose proof (n_parsedobj _ _ HS _ _ Hin'). lia.
           ++ unfold lenN. cbn [length]. lia.
      * exists false. unfold oiv. cbn [set_parsed set_objs s_objs]. rewrite nthN_app_len. reflexivity.
Qed.

(* a new block *)
Lemma sinv_add_block st es x :
  SInv st es ->
  (b_parent x <> lenN (e_blocks es) ->
   b_parent x < lenN (e_blocks es) /\ b_height x = e_height es (b_parent x) + 1) ->
  SInv (set_blocks (s_blocks st ++ [x]) st) (es_add x es).
Proof.
  intros HS Hx.
  assert (Hbi : forall b, b < lenN (e_blocks es) -> e_binfo (es_add x es) b = e_binfo es b) by (intros b Hb; apply e_binfo_add; exact Hb).
  assert (Hpar : forall b, b < lenN (e_blocks es) -> e_parent (es_add x es) b = e_parent es b) by (intros b Hb; unfold e_parent; rewrite Hbi by exact Hb; reflexivity).
  assert (Hhei : forall b, b < lenN (e_blocks es) -> e_height (es_add x es) b = e_height es b) by (intros b Hb; unfold e_height; rewrite Hbi by exact Hb; reflexivity).
  assert (Hinv : forall b, b < lenN (e_blocks es) -> e_invalid (es_add x es) b = e_invalid es b) by (intros b Hb; unfold e_invalid; rewrite Hbi by exact Hb; reflexivity).
  destruct HS. constructor; try assumption; cbn [es_add e_blocks e_proc e_chain e_rej e_started e_last set_blocks s_blocks].
  - rewrite n_blocks0. reflexivity.
  - intros b Hb Hne. rewrite lenN_app in Hb. unfold lenN at 2 in Hb. cbn [length] in Hb.
    destruct (N.lt_ge_cases b (lenN (e_blocks es))) as [Hlt|Hge].
    + rewrite Hpar in * by exact Hlt. rewrite (Hhei _ Hlt). destruct (n_tree0 _ Hlt Hne) as [A B].
      rewrite Hhei by lia. auto.
    + assert (b = lenN (e_blocks es)) as -> by lia.
      assert (Hp : e_parent (es_add x es) (lenN (e_blocks es)) = b_parent x) by (unfold e_parent; rewrite e_binfo_new; reflexivity).
      assert (Hh : e_height (es_add x es) (lenN (e_blocks es)) = b_height x) by (unfold e_height; rewrite e_binfo_new; reflexivity).
      rewrite Hp in *. rewrite Hh. destruct (Hx Hne) as [A B]. split; [exact A|]. rewrite Hhei by exact A. exact B.
  - intros b h Hb. destruct (n_procobj0 _ _ Hb) as (A & B & C & D & E). rewrite lenN_app, (Hpar _ B).
    repeat split; auto. lia.
  - intros Hst. destruct (n_sync0 Hst). constructor; cbn [es_add e_blocks e_proc e_chain e_rej e_sync e_last set_blocks s_last s_acc_id s_dih s_dhi]; try assumption.
    + intros b Hk. apply hasK_lookup in Hk. destruct Hk as [h Hb]. destruct (n_procobj0 _ _ Hb) as (_ & B & _).
      rewrite (Hpar _ B). apply y_procpar0. apply hasK_lookup. eauto.
    + destruct y_sync0 as (t0 & rest & Hs & Hc & Hl & Hv). exists t0, rest. split; [exact Hs|].
      assert (Hall : forall y, In y (t0 :: rest) -> y < lenN (e_blocks es)) by (intros y Hy; rewrite <- Hs in Hy; apply (y_sync_in0 _ Hy)).
      split; [|split; [exact Hl|]].
      * rewrite <- Hc. symmetry. apply (chain_from_ext es (es_add x es) (lenN (e_blocks es))).
        -- intros y Hy. apply Hall. right. exact Hy.
        -- intros y Hy. symmetry. apply Hbi. exact Hy.
        -- apply Hall. left. reflexivity.
      * rewrite <- Hv. apply forallb_ext_in'. intros y Hy. rewrite Hinv; [reflexivity|]. apply Hall. right. exact Hy.
    + intros y Hy. destruct (y_sync_in0 _ Hy) as (A & B & C & D). rewrite lenN_app, (Hhei _ B). repeat split; auto. lia.
Qed.

Lemma hid_nth st es h b : SInv st es -> lookup h (e_hid es) = Some b ->
  exists ob, nthN (s_objs st) h = Some ob /\ o_id ob = b.
Proof.
  intros HS Hh. destruct (n_hid _ _ HS _ _ Hh) as [v Hv]. destruct (oiv_inv _ _ _ _ Hv) as (ob & A & B & _). eauto.
Qed.

(* vacuous Verify while not ready *)
Lemma sinv_verify c Q st es h st' r evs :
  SInv st es -> eguard Q es (OVerify h) = true -> step c st (OVerify h) = (st', r, evs) ->
  SInv st' (eupd es (OVerify h) r evs) /\ r = RUnit /\ evs = [].
Proof.
  intros HS HG HP. cbn [eguard] in HG. destruct (lookup h (e_hid es)) as [b|] eqn:Eh; [|discriminate].
  repeat (apply andb_true_iff in HG; destruct HG as [HG ?]).
  rename H into Hpar, H0 into Hlt, H1 into Hnrej, H2 into Hnch. rename HG into Hnproc.
  apply negb_true_iff in Hnproc, Hnch, Hnrej. apply memN_false in Hnch, Hnrej. apply N.ltb_lt in Hlt.
  destruct (hid_nth _ _ _ _ HS Eh) as (ob & Hn & Hid).
  cbn [step] in HP. rewrite Hn, (n_ready _ _ HS) in HP. cbn [negb] in HP. injection HP as <- <- <-.
  split; [|split; reflexivity]. cbn [eupd]. rewrite Eh, Hid, (n_eready _ _ HS).
  assert (Hoiv : oiv st h = Some (b, false)).
  { destruct (n_hid _ _ HS _ _ Eh) as [[|] Hv]; [|exact Hv]. exfalso. destruct (n_ver _ _ HS _ _ Hv); contradiction. }
  assert (Hpne : e_parent es b <> b).
  { apply orb_true_iff in Hpar. destruct Hpar as [Hp|Hp].
    - intros E. rewrite E in Hp. congruence.
    - apply N.eqb_eq in Hp. intros E. rewrite E in Hp. subst b. apply Hnch. exact (n_lastchain _ _ HS). }
  destruct HS. constructor; try hyp; try reflexivity; cbn [e_proc e_chain e_rej e_blocks e_started set_verified s_verified].
  - rewrite n_proc0. reflexivity.
  - intros b0 h0. fold_es es. rewrite lookup_mput. destruct (b0 =? b) eqn:E.
    + apply N.eqb_eq in E. subst b0. intros [= <-]. repeat split; auto.
    + apply n_procobj0.
  - apply keys_mput_nodup. exact n_procnd0.
  - intros Hst. pose proof (n_sync0 Hst) as Y. pose proof (sync_last_in _ _ Y) as Hli. destruct Y. constructor; try hyp.
    + cbn [e_proc e_sync e_rej]. intros b0. fold_es es. rewrite !hasK_mput. destruct (b0 =? b) eqn:E.
      * apply N.eqb_eq in E. subst b0. intros _. apply orb_true_iff in Hpar. destruct Hpar as [Hp|Hp].
        -- left. rewrite Hp. apply orb_true_r.
        -- apply N.eqb_eq in Hp. right. left. rewrite Hp. exact Hli.
      * cbn [orb]. intros Hk. destruct (y_procpar0 _ Hk) as [A|A]; [left; rewrite A; apply orb_true_r | right; exact A].
    + destruct y_sync0 as (t0 & rest & Hs & Hc & Hl & Hv). exists t0, rest. cbn [e_sync e_last].
      split; [exact Hs|]. split; [rewrite <- Hc; apply chain_from_blocks; reflexivity|]. split; [exact Hl | exact Hv].
Qed.

(* vacuous Accept while not ready *)
Lemma sinv_accept c Q st es h st' r evs :
  1 <= c_W c -> SInv st es -> eguard Q es (OAccept h) = true -> step c st (OAccept h) = (st', r, evs) ->
  SInv st' (eupd es (OAccept h) r evs) /\ r = RUnit.
Proof.
  intros HW HS HG HP. cbn [eguard] in HG. destruct (lookup h (e_hid es)) as [b|] eqn:Eh; [|discriminate].
  destruct (lookup b (e_proc es)) as [h'|] eqn:Eb; [|discriminate].
  repeat (apply andb_true_iff in HG; destruct HG as [HG ?]).
  rename H into Hval, H0 into Hpend, H1 into Hpar. apply N.eqb_eq in HG, Hpar. subst h'.
  rewrite (n_eready _ _ HS) in Hval. cbn [orb] in Hval. apply negb_true_iff in Hval.
  destruct (hid_nth _ _ _ _ HS Eh) as (ob & Hn & Hid).
  cbn [step] in HP. rewrite Hn, (n_ready _ _ HS) in HP. cbn [andb] in HP. injection HP as <- <- <-.
  split; [|reflexivity]. cbn [eupd]. rewrite Eh, Hid, (n_eready _ _ HS).
  destruct (n_procobj _ _ HS _ _ Eb) as (Hoiv & Hblt & Hnch & Hnrej & Hpne).
  destruct (n_tree _ _ HS _ Hblt Hpne) as [_ Hhb].
  assert (Hobj : o_id (obj_of st h) = b) by (unfold obj_of; rewrite Hn; exact Hid).
  assert (Hhe : forall x, height st x = e_height es x) by (intros x; unfold height, e_height, binfo_of, e_binfo; rewrite (n_blocks _ _ HS); reflexivity).
  pose proof (oiv_lt _ _ _ Hoiv) as Hhlt.
  destruct HS. constructor; try hyp; try reflexivity.
  - cbn [e_proc]. unfold set_last_accepted, index_write. cbn [s_verified set_verified]. rewrite n_proc0. reflexivity.
  - cbn [e_chain e_rej]. intros h0 b0 H0. destruct (n_ver0 _ _ H0); [left; right; assumption | right; assumption].
  - cbn [e_proc e_chain e_rej e_blocks]. intros b0 h0. fold_es es. rewrite lookup_remove_key. destruct (b0 =? b) eqn:E; [discriminate|].
    apply N.eqb_neq in E. intros H0. destruct (n_procobj0 _ _ H0) as (A & B & C & D & F). repeat split; auto.
    intros [X|X]; [congruence | contradiction].
  - cbn [e_proc]. apply keys_remove_nodup. exact n_procnd0.
  - rewrite sla_accid. apply keys_fifo_nodup. exact n_accnd0.
  - rewrite sla_accid, sla_objs. intros b0 h0 Hin. apply In_fifo_put in Hin. destruct Hin as [[_ ->]|Hin]; [exact Hhlt | exact (n_accobj0 _ _ Hin)].
  - cbn [e_last e_chain]. left. reflexivity.
  - cbn [e_chain e_rej]. intros b0 [<-|Hin]; [exact Hnrej | exact (n_chain_rej0 _ Hin)].
  - rewrite sla_accid. cbn [e_chain]. change (obj_of (set_verified _ (index_write b st)) h) with (obj_of st h). rewrite Hobj.
    intros b0 h0 Hin. apply In_fifo_put in Hin. destruct Hin as [[-> _]|Hin]; [left; reflexivity | right; exact (n_accchain0 _ _ Hin)].
  - change (s_dih (set_last_accepted c h (set_verified _ (index_write b st)))) with (mput b (height st b) (s_dih st)).
    cbn [e_chain]. intros b0 k. rewrite lookup_mput. destruct (b0 =? b) eqn:E.
    + apply N.eqb_eq in E. subst b0. intros _. left. reflexivity.
    + intros Hq. right. exact (n_dihchain0 _ _ Hq).
  - cbn [e_started]. intros Hst. pose proof (n_sync0 Hst) as Y.
    pose proof (fun x => sync_height_le _ _ x Y) as Hle. destruct Y. constructor.
    + cbn [e_proc e_sync e_rej]. intros b0. fold_es es. rewrite hasK_remove_key. intros Hk. apply andb_true_iff in Hk. destruct Hk as [Hne Hk].
      destruct (y_procpar0 _ Hk) as [A|[A|A]].
      * destruct (N.eq_dec (e_parent es b0) b) as [E|E].
        -- right. left. rewrite E. apply in_or_app. right. left. reflexivity.
        -- left. rewrite hasK_remove_key, A. apply N.eqb_neq in E. rewrite E. reflexivity.
      * right. left. apply in_or_app. left. exact A.
      * right. right. exact A.
    + rewrite sla_last, sla_accid. cbn [e_last]. split; [exact Hoiv|].
      change (obj_of (set_verified _ (index_write b st)) h) with (obj_of st h). change (s_acc_id (set_verified _ (index_write b st))) with (s_acc_id st).
      rewrite Hobj. apply lookup_fifo_put_eq. exact HW.
    + destruct y_sync0 as (t0 & rest & Hs & Hc & Hl & Hv). exists t0, (rest ++ [b]). cbn [e_sync e_last].
      split; [rewrite Hs; reflexivity|]. split; [|split].
      * rewrite (chain_from_blocks _ es) by reflexivity. rewrite chain_from_app, Hc, Hl, Hpar, N.eqb_refl, Hhb, Hpar, N.eqb_refl. reflexivity.
      * apply last_app_one.
      * rewrite forallb_app. cbn [forallb]. rewrite andb_true_r.
        replace (forallb _ rest) with true by (rewrite <- Hv; apply forallb_ext_in'; reflexivity).
        change (negb (e_invalid es b) = true). rewrite Hval. reflexivity.
    + cbn [e_sync e_chain e_blocks]. intros x Hx. apply in_app_or in Hx.
      change (s_dih (set_last_accepted c h (set_verified _ (index_write b st)))) with (mput b (height st b) (s_dih st)).
      change (s_dhi (set_last_accepted c h (set_verified _ (index_write b st)))) with (mput (height st b) b (s_dhi st)).
      rewrite Hhe. fold_es es.
      destruct Hx as [Hx|[<-|[]]].
      * destruct (y_sync_in0 _ Hx) as (A & B & C & D). specialize (Hle _ Hx).
        assert (x <> b) as Hne by (intros ->; contradiction).
        split; [right; exact A|]. split; [exact B|]. rewrite !lookup_mput.
        apply N.eqb_neq in Hne. rewrite Hne.
        assert (e_height es x =? e_height es b = false) as -> by (apply N.eqb_neq; rewrite Hpar in Hhb; lia).
        split; assumption.
      * split; [left; reflexivity|]. split; [exact Hblt|]. rewrite !lookup_mput, !N.eqb_refl. split; reflexivity.
    + cbn [e_sync]. rewrite sla_accid.
      change (obj_of (set_verified _ (index_write b st)) h) with (obj_of st h). change (s_acc_id (set_verified _ (index_write b st))) with (s_acc_id st).
      rewrite Hobj. intros x h' Hx. destruct (N.eq_dec x b) as [->|Hne].
      * rewrite lookup_fifo_put_eq by exact HW. intros [= <-]. exact Hoiv.
      * intros Hl. apply lookup_fifo_put_other in Hl; [|exact n_accnd0|exact Hne].
        apply in_app_or in Hx. destruct Hx as [Hx|[Hx|[]]]; [|congruence]. exact (y_accid0 _ _ Hx Hl).
Qed.

(* Reject while not ready *)
Lemma sinv_reject c Q st es h st' r evs :
  SInv st es -> eguard Q es (OReject h) = true -> step c st (OReject h) = (st', r, evs) ->
  SInv st' (eupd es (OReject h) r evs) /\ r = RUnit.
Proof.
  intros HS HG HP. cbn [eguard] in HG. destruct (lookup h (e_hid es)) as [b|] eqn:Eh; [|discriminate].
  destruct (lookup b (e_proc es)) as [h'|] eqn:Eb; [|discriminate].
  repeat (apply andb_true_iff in HG; destruct HG as [HG ?]).
  apply N.eqb_eq in HG. subst h'.
  destruct (hid_nth _ _ _ _ HS Eh) as (ob & Hn & Hid).
  destruct (n_procobj _ _ HS _ _ Eb) as (Hoiv & Hblt & Hnch & Hnrej & Hpne).
  assert (o_verified ob = false) as Hov.
  { destruct (oiv_inv _ _ _ _ Hoiv) as (ob' & A & _ & B). rewrite Hn in A. injection A as <-. exact B. }
  cbn [step] in HP. rewrite Hn, Hov in HP. cbn [set_verified s_unres] in HP. rewrite (n_unres _ _ HS) in HP.
  injection HP as <- <- <-. split; [|reflexivity]. cbn [eupd]. rewrite Eh, Hid.
  destruct HS. constructor; try hyp.
  - cbn [e_proc s_verified]. rewrite n_proc0. reflexivity.
  - cbn [e_chain e_rej]. intros h0 b0 Hq0. destruct (n_ver0 _ _ Hq0); [left; assumption | right; apply in_or_app; left; assumption].
  - cbn [e_proc e_chain e_rej e_blocks]. intros b0 h0. fold_es es. rewrite lookup_remove_key. destruct (b0 =? b) eqn:E; [discriminate|].
    apply N.eqb_neq in E. intros Hq0. destruct (n_procobj0 _ _ Hq0) as (A & B & C & D & F). repeat split; auto.
    intros X. apply in_app_or in X. destruct X as [X|[X|[]]]; [contradiction | congruence].
  - cbn [e_proc]. apply keys_remove_nodup. exact n_procnd0.
  - cbn [e_chain e_rej]. intros b0 Hin X. apply in_app_or in X. destruct X as [X|[X|[]]]; [exact (n_chain_rej0 _ Hin X) | subst b0; contradiction].
  - cbn [e_started]. intros Hst. pose proof (n_sync0 Hst) as Y. destruct Y. constructor; try hyp.
    + cbn [e_proc e_sync e_rej]. intros b0. fold_es es. rewrite hasK_remove_key. intros Hk. apply andb_true_iff in Hk. destruct Hk as [Hne Hk].
      destruct (y_procpar0 _ Hk) as [A|[A|A]].
      * destruct (N.eq_dec (e_parent es b0) b) as [E|E].
        -- right. right. rewrite E. apply in_or_app. right. left. reflexivity.
        -- left. rewrite hasK_remove_key, A. apply N.eqb_neq in E. rewrite E. reflexivity.
      * right. left. exact A.
      * right. right. apply in_or_app. left. exact A.
    + destruct y_sync0 as (t0 & rest & Hs & Hc & Hl & Hv). exists t0, rest. cbn [e_sync e_last].
      split; [exact Hs|]. split; [rewrite <- Hc; apply chain_from_blocks; reflexivity|]. split; [exact Hl | exact Hv].
Qed.

(* ------------------------------------------------------------------ StartStateSync *)
Record Pre (st : state) (es : estate) : Prop := mkPre {
  p_unres : s_unres st = None;
  p_blocks : s_blocks st = e_blocks es;
  p_proc : s_verified st = e_proc es;
  p_tree : forall b, b < lenN (e_blocks es) -> e_parent es b <> b ->
           e_parent es b < b /\ e_height es b = e_height es (e_parent es b) + 1;
  p_hid : forall h b, lookup h (e_hid es) = Some b -> exists v, oiv st h = Some (b, v);
  p_ver : forall h b, oiv st h = Some (b, true) -> In b (e_chain es) \/ In b (e_rej es);
  p_accnd : NoDup (map fst (s_acc_id st));
  p_accobj : forall b h, In (b, h) (s_acc_id st) -> h < lenN (s_objs st);
  p_parsedobj : forall b h, In (b, h) (s_parsed st) -> h < lenN (s_objs st);
  p_lastchain : In (e_last es) (e_chain es);
  p_chain_rej : forall b, In b (e_chain es) -> ~ In b (e_rej es);
  p_accchain : forall b h, In (b, h) (s_acc_id st) -> In b (e_chain es);
  p_dihchain : forall b k, lookup b (s_dih st) = Some k -> In b (e_chain es)
}.

Lemma sinv_pre st es : SInv st es -> Pre st es.
Proof. intros HS. destruct HS. constructor; assumption. Qed.

Definition DInv (st : state) (es : estate) : Prop :=
  forall b k, lookup b (s_dih st) = Some k -> In b (e_chain es).

Lemma inv_pre st es tr : Inv st es tr -> e_built es = [] -> e_proc es = [] -> NoDup (map fst (s_acc_id st)) ->
  DInv st es -> Pre st es.
Proof.
  intros HI Hb Hp Hnd Hd. constructor; try (old HI); try assumption.
  - intros h b Hv. destruct (i_unv _ _ _ HI _ _ Hv) as [A|[A|A]]; [rewrite Hb in A; destruct A | rewrite Hp in A; discriminate | exact A].
  - intros b h Hin. destruct (i_accid _ _ _ HI _ _ Hin) as [[v Hv] _]. eapply oiv_lt; eauto.
  - exact (proj2 (proj2 (i_last _ _ _ HI))).
  - intros b h Hin. exact (proj2 (i_accid _ _ _ HI _ _ Hin)).
Qed.

Lemma sinv_start c Q st es b st' r evs :
  1 <= c_W c -> Pre st es -> eguard Q es (OStartSync b) = true -> step c st (OStartSync b) = (st', r, evs) ->
  SInv st' (eupd es (OStartSync b) r evs) /\ r = RUnit.
Proof.
  intros HW HP HG HS. cbn [eguard] in HG.
  repeat (apply andb_true_iff in HG; destruct HG as [HG ?]).
  rename H into Htgt, H0 into Hblt, H1 into Hpend. rename H2 into Hproc. apply N.ltb_lt in Hblt. apply N.eqb_eq in Hpend.
  assert (e_proc es = []) as Hp0 by (destruct (e_proc es); [reflexivity | discriminate]).
  cbn [step] in HS. unfold alloc in HS. injection HS as <- <- <-. split; [|reflexivity]. cbn [eupd].
  set (st2 := set_ready false (index_write b st)).
  set (st3 := set_objs (s_objs st2 ++ [mkO b false false]) st2).
  assert (Hlen3 : lenN (s_objs st3) = lenN (s_objs st) + 1) by (unfold st3, st2; cbn [set_objs s_objs set_ready index_write]; rewrite lenN_app; reflexivity).
  assert (Hnew : oiv st3 (lenN (s_objs st)) = Some (b, false)).
  { unfold oiv, st3, st2. cbn [set_objs s_objs set_ready index_write]. rewrite nthN_app_len. reflexivity. }
  assert (Hold : forall h x, oiv st h = Some x -> oiv st3 h = Some x).
  { intros h x Hx. unfold st3. apply oiv_alloc_old. exact Hx. }
  assert (Hobjnew : o_id (obj_of st3 (lenN (s_objs st))) = b) by (destruct (oiv_obj_of _ _ _ _ Hnew); assumption).
  assert (Hhe : forall x, height st x = e_height es x) by (intros x; unfold height, e_height, binfo_of, e_binfo; rewrite (p_blocks _ _ HP); reflexivity).
  change (lenN (s_objs st2)) with (lenN (s_objs st)).
  destruct HP. constructor; try hyp; try reflexivity.
  all: change (set_objs (s_objs st ++ [mkO b false false]) st2) with st3.
  - intros h0 b0 Hq. destruct (p_hid0 _ _ Hq) as [v Hv]. exists v. apply Hold. exact Hv.
  - cbn [e_chain e_rej]. intros h0 b0 Hq. change (oiv (set_last_accepted c (lenN (s_objs st)) st3) h0) with (oiv st3 h0) in Hq.
    unfold st3 in Hq. apply oiv_alloc_inv in Hq. destruct Hq as [Hq|[_ Hq]]; [|discriminate].
    destruct (p_ver0 _ _ Hq); [left; right; assumption | right; assumption].
  - cbn [e_proc]. rewrite Hp0. intros b0 h0 Hq. discriminate.
  - cbn [e_proc]. rewrite Hp0. constructor.
  - rewrite sla_accid. apply keys_fifo_nodup. exact p_accnd0.
  - rewrite sla_accid, sla_objs. intros b0 h0 Hin. apply In_fifo_put in Hin. rewrite Hlen3.
    destruct Hin as [[_ ->]|Hin]; [lia | pose proof (p_accobj0 _ _ Hin); lia].
  - rewrite sla_objs, Hlen3. intros b0 h0 Hin. pose proof (p_parsedobj0 _ _ Hin). lia.
  - cbn [e_last e_chain]. left. reflexivity.
  - cbn [e_chain e_rej]. intros b0 [<-|Hin]; [|exact (p_chain_rej0 _ Hin)].
    apply orb_true_iff in Htgt. destruct Htgt as [Ht|Ht].
    + apply N.eqb_eq in Ht. subst b. exact (p_chain_rej0 _ p_lastchain0).
    + apply andb_true_iff in Ht. destruct Ht as [Ht _]. apply andb_true_iff in Ht. destruct Ht as [_ Ht].
      apply negb_true_iff in Ht. apply memN_false in Ht. exact Ht.
  - rewrite sla_accid, Hobjnew. cbn [e_chain]. intros b0 h0 Hin. apply In_fifo_put in Hin.
    destruct Hin as [[-> _]|Hin]; [left; reflexivity | right; exact (p_accchain0 _ _ Hin)].
  - change (s_dih (set_last_accepted c (lenN (s_objs st)) st3)) with (mput b (height st b) (s_dih st)).
    cbn [e_chain]. intros b0 k. rewrite lookup_mput. destruct (b0 =? b) eqn:E.
    + apply N.eqb_eq in E. subst b0. intros _. left. reflexivity.
    + intros Hq. right. exact (p_dihchain0 _ _ Hq).
  - intros _. constructor.
    + cbn [e_proc]. rewrite Hp0. intros b0 Hk. discriminate.
    + rewrite sla_last, sla_accid. cbn [e_last]. split; [exact Hnew|]. rewrite Hobjnew. apply lookup_fifo_put_eq. exact HW.
    + exists b, []. cbn [e_sync e_last]. repeat split; reflexivity.
    + cbn [e_sync e_chain e_blocks]. intros x [<-|[]]. fold_es es.
      split; [left; reflexivity|]. split; [exact Hblt|].
      change (s_dih (set_last_accepted c (lenN (s_objs st)) st3)) with (mput b (height st b) (s_dih st)).
      change (s_dhi (set_last_accepted c (lenN (s_objs st)) st3)) with (mput (height st b) b (s_dhi st)).
      rewrite Hhe, !lookup_mput, !N.eqb_refl. split; reflexivity.
    + cbn [e_sync]. rewrite sla_accid, Hobjnew. intros x h' [<-|[]]. rewrite lookup_fifo_put_eq by exact HW. intros [= <-]. exact Hnew.
Qed.

(* ------------------------------------------------------------------ every run up to FinishStateSync *)
Definition Phase (st : state) (es : estate) (tr : list event) : Prop :=
  (Inv st es tr /\ e_built es = [] /\ NoDup (map fst (s_acc_id st)) /\ DInv st es) \/ SInv st es.

Definition plain_op (o : op) : bool := match o with OFinishSync _ | OBuild => false | _ => true end.

Lemma step_accid c st o st' r evs : sync_op o = false -> step c st o = (st', r, evs) ->
  s_acc_id st' = s_acc_id st \/ exists k v, s_acc_id st' = fifo_put (c_W c) k v (s_acc_id st).
Proof.
  intros Hs HP. destruct o; try discriminate Hs; cbn [step] in HP; unfold do_parse, lru_get, alloc in HP;
    repeat match type of HP with context [match ?x with _ => _ end] => destruct x eqn:? end;
    injection HP as <- <- <-; cbn; eauto.
Qed.

Lemma eupd_built es o r evs : plain_op o = true -> e_built (eupd es o r evs) = e_built es.
Proof.
  intros Hp. destruct o; try discriminate Hp; cbn [eupd]; try reflexivity.
  - rewrite learn_eq. destruct r as [| |[h|b'] b0 v a| |]; reflexivity.
  - rewrite learn_eq. destruct r as [| |[h|b'] b0 v a| |]; reflexivity.
  - destruct r; try reflexivity. destruct (lookup h (e_hid es)); reflexivity.
  - destruct r; try reflexivity. destruct (lookup h (e_hid es)); reflexivity.
  - destruct r; try reflexivity. destruct (lookup h (e_hid es)); reflexivity.
  - destruct r; reflexivity.
  - destruct r; reflexivity.
Qed.

Lemma step_dih c st o st' r evs : sync_op o = false -> step c st o = (st', r, evs) ->
  s_dih st' = s_dih st \/
  exists h ob, o = OAccept h /\ nthN (s_objs st) h = Some ob /\ r = RUnit /\
               s_dih st' = mput (o_id ob) (height st (o_id ob)) (s_dih st).
Proof.
  intros Hs HP. destruct o; try discriminate Hs; cbn [step] in HP; unfold do_parse, lru_get, alloc in HP;
    repeat match type of HP with context [match ?x with _ => _ end] => destruct x eqn:? end;
    injection HP as <- <- <-; first [left; reflexivity | right; eauto 10].
Qed.

Lemma eupd_chain_incl es o r evs x : sync_op o = false -> In x (e_chain es) -> In x (e_chain (eupd es o r evs)).
Proof.
  intros Hs Hin. destruct o as [pp ii|pb| |vh|ah|rh|sb| |gb|gk|gk| | | | |sb|fb]; try discriminate Hs; cbn [eupd]; try exact Hin.
  - rewrite learn_eq. destruct r as [| |[h1|b1] b2 v a| |]; exact Hin.
  - rewrite learn_eq. destruct r as [| |[h1|b1] b2 v a| |]; exact Hin.
  - destruct r as [| |[h1|b1] b2 v a| |]; try exact Hin. destruct evs as [|[] [|]]; exact Hin.
  - destruct r; try exact Hin. destruct (lookup vh (e_hid es)); exact Hin.
  - destruct r; try exact Hin. destruct (lookup ah (e_hid es)); [right|]; exact Hin.
  - destruct r; try exact Hin. destruct (lookup rh (e_hid es)); exact Hin.
  - destruct r; exact Hin.
Qed.

Lemma step_dinv c Q st es tr o st' r evs :
  Inv st es tr -> sync_op o = false -> eguard Q es o = true -> step c st o = (st', r, evs) ->
  DInv st es -> DInv st' (eupd es o r evs).
Proof.
  intros HI Hs HG HP Hd b k Hl.
  destruct (step_dih _ _ _ _ _ _ Hs HP) as [E|(h & ob & -> & Hn & -> & E)].
  - rewrite E in Hl. apply eupd_chain_incl; [exact Hs | exact (Hd _ _ Hl)].
  - cbn [eguard] in HG. destruct (lookup h (e_hid es)) as [b1|] eqn:Eh; [|discriminate].
    destruct (i_hid _ _ _ HI _ _ Eh) as [v Hv]. destruct (oiv_inv _ _ _ _ Hv) as (ob' & A & B & _).
    rewrite Hn in A. injection A as <-. cbn [eupd]. rewrite Eh. cbn [e_chain].
    rewrite E, lookup_mput, B in Hl. destruct (b =? b1) eqn:Eb.
    + apply N.eqb_eq in Eb. left. symmetry. exact Eb.
    + right. exact (Hd _ _ Hl).
Qed.

Lemma phase_step c Q st es tr o st' r evs :
  1 <= c_W c -> Phase st es tr -> plain_op o = true -> eguard Q es o = true ->
  step c st o = (st', r, evs) -> Phase st' (eupd es o r evs) (tr ++ evs).
Proof.
  intros HW [(HI & Hb & Hnd & Hdi)|HS] Hpl HG HP.
  - destruct (sync_op o) eqn:Eso.
    + destruct o; try discriminate Eso; try discriminate Hpl. right.
      assert (e_proc es = []) as Hp0.
      { cbn [eguard] in HG. repeat (apply andb_true_iff in HG; destruct HG as [HG ?]). destruct (e_proc es); [reflexivity | discriminate]. }
      exact (proj1 (sinv_start _ _ _ _ _ _ _ _ HW (inv_pre _ _ _ HI Hb Hp0 Hnd Hdi) HG HP)).
    + left. split; [eapply inv_step; eauto|]. split; [rewrite eupd_built by exact Hpl; exact Hb|].
      split; [destruct (step_accid _ _ _ _ _ _ Eso HP) as [->|(k & v & ->)]; [exact Hnd | apply keys_fifo_nodup; exact Hnd]|].
      eapply step_dinv; eauto.
  - right. destruct o; try discriminate Hpl.
    + cbn [step] in HP. cbn [eupd]. rewrite (n_blocks _ _ HS) in HP.
      pose proof (sinv_add_block _ _ (new_binfo (e_blocks es) parent invalid) HS (new_binfo_tree es parent invalid)) as HS2.
      rewrite (n_blocks _ _ HS) in HS2. exact (sinv_do_parse _ _ _ _ _ _ _ HS2 HP).
    + cbn [step] in HP. cbn [eupd]. exact (sinv_do_parse _ _ _ _ _ _ _ HS HP).
    + exact (proj1 (sinv_verify _ _ _ _ _ _ _ _ HS HG HP)).
    + exact (proj1 (sinv_accept _ _ _ _ _ _ _ _ HW HS HG HP)).
    + exact (proj1 (sinv_reject _ _ _ _ _ _ _ _ HS HG HP)).
    + cbn [step] in HP. injection HP as <- <- <-. apply sinv_setpref. exact HS.
    + cbn [eguard] in HG. rewrite (n_pending _ _ HS) in HG. discriminate.
    + destruct (step_read c st (OGetBlock b) eq_refl) as [r0 E]. rewrite E in HP. injection HP as <- <- <-. exact HS.
    + destruct (step_read c st (OGetIDAtHeight k) eq_refl) as [r0 E]. rewrite E in HP. injection HP as <- <- <-. exact HS.
    + destruct (step_read c st (OGetByHeight k) eq_refl) as [r0 E]. rewrite E in HP. injection HP as <- <- <-. exact HS.
    + destruct (step_read c st OLastAccepted eq_refl) as [r0 E]. rewrite E in HP. injection HP as <- <- <-. exact HS.
    + destruct (step_read c st OGetLastProcessed eq_refl) as [r0 E]. rewrite E in HP. injection HP as <- <- <-. exact HS.
    + destruct (step_read c st OGetPreferred eq_refl) as [r0 E]. rewrite E in HP. injection HP as <- <- <-. exact HS.
    + destruct (step_read c st OHealth eq_refl) as [r0 E]. rewrite E in HP. injection HP as <- <- <-. exact HS.
    + exact (proj1 (sinv_start _ _ _ _ _ _ _ _ HW (sinv_pre _ _ HS) HG HP)).
Qed.

Definition plain_ops (ops : list op) : bool := forallb plain_op ops.

Lemma phase_erun c Q : 1 <= c_W c -> forall ops, plain_ops ops = true ->
  forall st es tr st' es' tr', Phase st es tr -> erun c Q st es ops = Some (st', es', tr') -> Phase st' es' (tr ++ tr').
Proof.
  intros HW. induction ops as [|o r IH]; intros Hpl st es tr st' es' tr' HPh HR.
  - cbn [erun] in HR. injection HR as <- <- <-. rewrite app_nil_r. exact HPh.
  - cbn [plain_ops forallb] in Hpl. apply andb_true_iff in Hpl. destruct Hpl as [Hp Hpl].
    cbn [erun] in HR. destruct (eguard Q es o) eqn:HG; [|discriminate].
    destruct (step c st o) as [[st1 rs] evs] eqn:HS.
    destruct (erun c Q st1 (eupd es o rs evs) r) as [[[st2 es2] evss]|] eqn:HR2; [|discriminate].
    injection HR as <- <- <-. rewrite app_assoc.
    eapply IH; [exact Hpl | | exact HR2].
    eapply phase_step; eauto.
Qed.

Lemma phase_init c : Phase (init_state c) (init_estate c) (init_events c).
Proof.
  destruct (c_ready c) eqn:Hr.
  - left. split; [apply inv_init; exact Hr|]. split; [reflexivity|]. split; [cbn; repeat constructor; intros []|].
    intros b k. unfold init_state. cbn [s_dih lookup init_estate e_chain]. destruct (b =? 0) eqn:E; [|discriminate].
    apply N.eqb_eq in E. intros _. left. symmetry. exact E.
  - right. unfold init_state, init_estate. rewrite Hr.
    constructor; cbn; try reflexivity; try tauto.
    + intros b Hb Hne. exfalso. apply Hne. unfold init_blocks, lenN in Hb. cbn in Hb. unfold e_parent, e_binfo, nthN. cbn.
      assert (b = 0) as -> by lia. reflexivity.
    + intros h b. destruct (h =? 0) eqn:E; [|discriminate]. apply N.eqb_eq in E. subst h. intros [= <-]. exists false. reflexivity.
    + intros h b Hv. unfold oiv, nthN in Hv. cbn in Hv. destruct (N.to_nat h) as [|[|n]]; cbn in Hv; discriminate.
    + discriminate.
    + constructor.
    + repeat constructor. intros [].
    + intros b h [[= <- <-]|[]]. unfold lenN. cbn. lia.
    + intros b h [[= <- <-]|[]]. left. reflexivity.
    + intros b k. destruct (b =? 0) eqn:E; [|discriminate]. apply N.eqb_eq in E. intros _. left. symmetry. exact E.
    + discriminate.
Qed.

(* ================================================================== the hand-over theorem *)
Theorem handover_finish c Q ops t st es tr :
  1 <= c_W c -> plain_ops ops = true ->
  erun c Q (init_state c) (init_estate c) ops = Some (st, es, tr) ->
  eguard Q es (OFinishSync t) = true ->
  exists st' u evs2,
    step c st (OFinishSync t) = (st', RUnit, exec_chain t (after t (e_sync es)) ++ evs2) /\
    accepts evs2 = [] /\ naccepted evs2 = [] /\ Finished es st' u.
Proof.
  intros HW Hpl HR HG.
  pose proof (phase_erun c Q HW ops Hpl _ _ _ _ _ _ (phase_init c) HR) as [(HI & _)|HS].
  - exfalso. cbn [eguard] in HG. rewrite (i_eready _ _ _ HI) in HG. cbn in HG. rewrite andb_false_r in HG. discriminate.
  - destruct (finish_step c Q st es t HW HS HG) as (st' & u & evs2 & A & B & C & D & _). eauto 10.
Qed.

(* the answers right after the hand-over *)
Lemma finished_reads c es st' u : Finished es st' u ->
  step c st' OGetLastProcessed = (st', RId (e_last es), []) /\
  step c st' OLastAccepted = (st', RId (e_last es), []) /\
  step c st' OHealth = (st', RHealth true (Some (lenN u)) (match u with [] => true | _ => false end), []) /\
  (forall b h, lookup b (e_proc es) = Some h ->
     exists v, step c st' (OGetBlock b) = (st', RBlk (BH h) b v false, []) \/
               step c st' (OGetBlock b) = (st', RBlk (BH h) b v true, [])) .
Proof.
  intros F. destruct F. repeat split.
  - cbn [step]. rewrite f_lastproc0, f_last_acc0, f_last_id0. reflexivity.
  - cbn [step]. rewrite f_last_id0. reflexivity.
  - cbn [step]. rewrite f_ready0, f_unres0. destruct u; reflexivity.
  - intros b h Hb. cbn [step]. unfold get_block. rewrite f_proc0, Hb. unfold res_of_ref. cbn [ref_obj].
    destruct (f_procobj0 _ _ Hb) as (-> & _). exists (o_verified (obj_of st' h)).
    destruct (o_accepted (obj_of st' h)); auto.
Qed.

(* rejecting blocks whose object is not verified (the unresolved ones) removes them from the
   health check's set; nothing else changes it *)
Lemma reject_unverified c st h ob U :
  nthN (s_objs st) h = Some ob -> o_verified ob = false -> s_unres st = Some U ->
  exists st', step c st (OReject h) = (st', RUnit, [NPreRejected (o_id ob)]) /\
    s_unres st' = Some (filter (fun x => negb (x =? o_id ob)) U) /\ s_objs st' = s_objs st /\ s_ready st' = s_ready st.
Proof.
  intros Hn Hv Hu. cbn [step]. rewrite Hn, Hv. cbn [set_verified s_unres]. rewrite Hu.
  eexists. split; [reflexivity|]. repeat split.
Qed.

Fixpoint after_rejects (c : cfg) (st : state) (hs : list N) : state :=
  match hs with [] => st | h :: r => after_rejects c (fst (fst (step c st (OReject h)))) r end.

Lemma rejects_unverified c : forall hs st U,
  (forall h, In h hs -> exists ob, nthN (s_objs st) h = Some ob /\ o_verified ob = false) ->
  s_unres st = Some U ->
  s_unres (after_rejects c st hs) =
    Some (filter (fun x => negb (memN x (map (fun h => o_id (obj_of st h)) hs))) U) /\
  s_ready (after_rejects c st hs) = s_ready st.
Proof.
  induction hs as [|h r IH]; intros st U Hall Hu; cbn [after_rejects map].
  - split; [|reflexivity]. rewrite Hu. f_equal. symmetry. clear. induction U as [|x U IH]; [reflexivity|]. cbn. rewrite IH at 1. reflexivity.
  - destruct (Hall h (or_introl eq_refl)) as (ob & Hn & Hv).
    destruct (reject_unverified c st h ob U Hn Hv Hu) as (st' & HS & Hu' & Ho & Hr). rewrite HS. cbn [fst].
    destruct (IH st' (filter (fun x => negb (x =? o_id ob)) U)) as [A B]; [|exact Hu'|].
    + intros h' Hin. rewrite Ho. apply Hall. right. exact Hin.
    + split; [|rewrite B; exact Hr]. rewrite A. f_equal.
      assert (forall x, obj_of st' x = obj_of st x) as Hobj by (intros x; unfold obj_of; rewrite Ho; reflexivity).
      assert (o_id (obj_of st h) = o_id ob) as Hid by (unfold obj_of; rewrite Hn; reflexivity).
      rewrite Hid.
      assert (Hm : map (fun h0 => o_id (obj_of st' h0)) r = map (fun h0 => o_id (obj_of st h0)) r)
        by (apply map_ext; intros a; rewrite Hobj; reflexivity).
      rewrite Hm. clear. induction U as [|x U IHU]; [reflexivity|]. cbn [filter memN existsb].
      destruct (x =? o_id ob) eqn:E; cbn [negb orb].
      * exact IHU.
      * cbn [filter]. fold (memN x (map (fun h0 => o_id (obj_of st h0)) r)).
        destruct (memN x _); cbn [negb]; rewrite IHU; reflexivity.
Qed.

(* accepting a block whose object is not verified is refused in normal operation *)
Lemma accept_unverified c st h ob :
  nthN (s_objs st) h = Some ob -> o_verified ob = false -> s_ready st = true ->
  step c st (OAccept h) = (st, RErr eParentFailed, []).
Proof. intros Hn Hv Hr. cbn [step]. rewrite Hn, Hr, Hv. reflexivity. Qed.

(* the handles of the unresolved blocks right after the hand-over *)
Lemma finished_unresolved_obj es st' u b h : Finished es st' u -> In b u -> lookup b (e_proc es) = Some h ->
  exists ob, nthN (s_objs st') h = Some ob /\ o_verified ob = false /\ o_id ob = b.
Proof.
  intros F Hin Hb. destruct (f_procobj _ _ _ F _ _ Hb) as (Hid & Hlt & Hv).
  destruct (nthN_lt_some _ _ Hlt) as [ob Hn]. exists ob. split; [exact Hn|].
  unfold obj_of in Hid, Hv. rewrite Hn in Hid, Hv. split; [|exact Hid].
  destruct (o_verified ob); [|reflexivity]. exfalso. apply (proj1 (f_u _ _ _ F b)) in Hin. destruct Hin as [_ Hng]. apply Hng. apply Hv. reflexivity.
Qed.

Lemma filter_none {A} (f : A -> bool) l : (forall x, In x l -> f x = false) -> filter f l = [].
Proof.
  induction l as [|a r IH]; intros H; [reflexivity|]. cbn [filter]. rewrite (H a (or_introl eq_refl)).
  apply IH. intros x Hx. apply H. right. exact Hx.
Qed.

(* health after the hand-over, and after rejecting unresolved blocks *)
Theorem handover_health c es st' u : Finished es st' u ->
  step c st' OHealth = (st', RHealth true (Some (lenN u)) (match u with [] => true | _ => false end), []) /\
  (forall hs, (forall h, In h hs -> exists b, In b u /\ lookup b (e_proc es) = Some h) ->
     s_unres (after_rejects c st' hs) =
       Some (filter (fun x => negb (memN x (map (fun h => o_id (obj_of st' h)) hs))) u) /\
     s_ready (after_rejects c st' hs) = true /\
     ((forall b, In b u -> exists h, In h hs /\ lookup b (e_proc es) = Some h) ->
      step c (after_rejects c st' hs) OHealth = (after_rejects c st' hs, RHealth true (Some 0) true, []))) /\
  (forall b h, In b u -> lookup b (e_proc es) = Some h -> step c st' (OAccept h) = (st', RErr eParentFailed, [])).
Proof.
  intros F. split; [exact (proj1 (proj2 (proj2 (finished_reads c es st' u F))))|]. split.
  - intros hs Hhs.
    destruct (rejects_unverified c hs st' u) as [A B].
    + intros h Hin. destruct (Hhs h Hin) as (b & Hb & Hl).
      destruct (finished_unresolved_obj _ _ _ _ _ F Hb Hl) as (ob & X & Y & _). eauto.
    + exact (f_unres _ _ _ F).
    + rewrite (f_ready _ _ _ F) in B. split; [exact A|]. split; [exact B|].
      intros Hall. cbn [step]. rewrite B, A.
      assert (filter (fun x => negb (memN x (map (fun h => o_id (obj_of st' h)) hs))) u = []) as ->; [|reflexivity].
      clear A B. assert (forall x, In x u -> memN x (map (fun h => o_id (obj_of st' h)) hs) = true) as Hm.
      { intros x Hx. destruct (Hall x Hx) as (h & Hin & Hl). apply memN_In. apply in_map_iff. exists h. split; [|exact Hin].
        exact (proj1 (f_procobj _ _ _ F _ _ Hl)). }
      apply filter_none. intros x Hx. rewrite (Hm x Hx). reflexivity.
  - intros b h Hb Hl. destruct (finished_unresolved_obj _ _ _ _ _ F Hb Hl) as (ob & X & Y & _).
    apply (accept_unverified c st' h ob X Y (f_ready _ _ _ F)).
Qed.

(* ------------------------------------------------------------------ the known finding *)
Definition kf_cfg : cfg := mkCfg 2 2 false.
Definition kf_ops : list op :=
  [OStartSync 0; OParseNew 0 false; OVerify 2; OParseNew 0 false; OVerify 3; OParseNew 2 false; OVerify 4;
   OAccept 2; OReject 3].
