(* ExecutorAccept_proofs.v — soundness of the trace-inclusion acceptor of Model/ExecutorAccept.v:
   an accepted observed trace is the visible part of a run of the instrumented LTS, whose label part is a run
   ([steps]) of the LTS Model/Executor.v that the C08 theorems quantify over. *)
From Coq Require Import List NArith ZArith Bool Arith Lia.
Import ListNotations.
From HV Require Import Model.Executor Model.ExecutorAccept Proofs.Executor_proofs.

Lemma ostamp_s : forall o e o', ostamp o e = Some o' -> o_s o' = o_s o.
Proof.
  intros o e o' H. unfold ostamp in H.
  destruct e; cbn beta iota in H;
    repeat match type of H with
           | Some _ = Some _ => injection H as <-; reflexivity
           | None = Some _ => discriminate H
           | context [match ?x with _ => _ end] => destruct x
           end.
Qed.

Lemma after_label_s : forall o l s', o_s (after_label o l s') = s'.
Proof. intros o l s'. unfold after_label. destruct l; reflexivity. Qed.

Lemma ostep_label : forall c o l o', ostep c o (IL l) = Some o' -> step c (o_s o) l = Some (o_s o').
Proof.
  intros c o l o' H. cbn [ostep] in H. destruct (guard_label o l); [|discriminate].
  destruct (step c (o_s o) l) as [s'|]; [|discriminate]. injection H as <-. now rewrite after_label_s.
Qed.

Lemma orun_steps : forall c its o o', orun c o its = Some o' -> steps c (o_s o) (labels_of its) (o_s o').
Proof.
  intros c its. induction its as [|it its IH]; intros o o' H; cbn [orun] in H.
  - injection H as <-. constructor.
  - destruct (ostep c o it) as [o1|] eqn:Hs; [|discriminate]. specialize (IH _ _ H).
    destruct it as [l|e].
    + apply ostep_label in Hs. change (labels_of (IL l :: its)) with (l :: labels_of its).
      eapply steps_cons; eauto.
    + cbn [ostep] in Hs. apply ostamp_s in Hs. change (labels_of (IO e :: its)) with (labels_of its).
      now rewrite <- Hs.
Qed.

Lemma oev_eqb_eq : forall a b, oev_eqb a b = true -> a = b.
Proof.
  intros a b H. destruct a, b; cbn [oev_eqb] in H; try discriminate; try reflexivity;
    repeat match type of H with
           | _ && _ = true => apply andb_prop in H; destruct H as [H ?]
           end;
    repeat match goal with
           | X : Nat.eqb _ _ = true |- _ => apply Nat.eqb_eq in X; subst
           | X : Bool.eqb _ _ = true |- _ => apply eqb_prop in X; subst
           | X : N.eqb _ _ = true |- _ => apply N.eqb_eq in X; subst
           end; reflexivity.
Qed.

Lemma oevs_eqb_eq : forall a b, oevs_eqb a b = true -> a = b.
Proof.
  induction a as [|x a IH]; intros [|y b] H; cbn [oevs_eqb] in H; try discriminate; [reflexivity|].
  apply andb_prop in H. destruct H as [H1 H2]. apply oev_eqb_eq in H1. apply IH in H2. now subst.
Qed.

Definition obs_run (c : cfg) (its : list item) (o : ost) : Prop := orun c oinit its = Some o.

Lemma accepts_with_sound : forall c its evs, accepts_with c its evs = true ->
  exists o, obs_run c its o /\ obs_of its = evs /\ steps c init (labels_of its) (o_s o).
Proof.
  intros c its evs H. unfold accepts_with in H. destruct (orun c oinit its) as [o|] eqn:Hr; [|discriminate].
  exists o. split; [exact Hr|]. split; [now apply oevs_eqb_eq|]. exact (orun_steps _ _ _ _ Hr).
Qed.

Theorem accepts_sound : forall c evs, accepts c evs = true ->
  exists its o, obs_run c its o /\ obs_of its = evs /\ steps c init (labels_of its) (o_s o).
Proof.
  intros c evs H. unfold accepts in H. destruct (plan c evs) as [its|]; [|discriminate].
  exists its. now apply accepts_with_sound.
Qed.
Print Assumptions accepts_sound.

(* what an accepted trace says about the LTS state it ends in: the error Wait returned is the LTS's sticky error
   and every registered task went through its deferred function *)
Lemma all_done_b_spec : forall s n, all_done_b s n = true -> forall j, j < n -> ph (tasks s j) = PDone.
Proof.
  intros s n. induction n as [|n IH]; cbn [all_done_b]; intros H j Hj; [lia|].
  apply andb_prop in H. destruct H as [H1 H2].
  destruct (Nat.eq_dec j n) as [->|Hne]; [|apply IH; [exact H2|lia]].
  destruct (ph (tasks s n)); try discriminate. reflexivity.
Qed.

(* ---- every stamp is backed by the LTS's own event log at the moment it is taken -------------------------- *)
Definition backed (o : ost) (e : oev) : Prop :=
  let s := o_s o in
  match e with
  | OBeg j => In (EvBegin j) (log s)
  | OEnd j _ => In (EvBegin j) (log s)
  | OSeen x => err_code (first_err (log s)) = x
  | OWaitRet x => err_code (first_err (log s)) = x /\ cursor s = None /\
                  forall j, j < next s -> ph (tasks s j) = PDone
  | _ => True
  end.

Lemma ostamp_backed : forall c o e o', Inv c (o_s o) -> ostamp o e = Some o' -> backed o e.
Proof.
  intros c o e o' (_ & P & _) H. unfold ostamp in H. destruct e; cbn [backed]; try exact I.
  - destruct (is_prun (ph (tasks (o_s o) j))) eqn:Hp; [|discriminate].
    apply (l_run P). destruct (ph (tasks (o_s o) j)); try discriminate. reflexivity.
  - destruct (end_find j (o_end o)); [discriminate|].
    destruct (is_prun (ph (tasks (o_s o) j))) eqn:Hp; [|discriminate].
    apply (l_run P). destruct (ph (tasks (o_s o) j)); try discriminate. reflexivity.
  - destruct (N.eqb (err_code (err (o_s o))) x) eqn:Hx; [|discriminate].
    apply N.eqb_eq in Hx. now rewrite <- (l_err1 P).
  - destruct (o_waitcall o); [|discriminate]. cbn [andb] in H.
    destruct (client_idle o) eqn:Hc; [|discriminate]. cbn [andb] in H.
    destruct (all_done_b (o_s o) (next (o_s o))) eqn:Hd; [|discriminate]. cbn [andb] in H.
    destruct (N.eqb (err_code (err (o_s o))) x) eqn:Hx; [|discriminate].
    apply N.eqb_eq in Hx. split; [now rewrite <- (l_err1 P)|]. split.
    + unfold client_idle, no_cursor in Hc. destruct (cursor (o_s o)); [discriminate|reflexivity].
    + now apply all_done_b_spec.
Qed.

Lemma orun_app_inv : forall c a b o o', orun c o (a ++ b) = Some o' ->
  exists o1, orun c o a = Some o1 /\ orun c o1 b = Some o'.
Proof.
  intros c a. induction a as [|it a IH]; intros b o o' H.
  - exists o. split; [reflexivity|exact H].
  - cbn [app orun] in H |- *. destruct (ostep c o it) as [o2|]; [|discriminate]. now apply IH.
Qed.

(* In a run of the instrumented LTS every observed event is stamped in an LTS state (itself reached by a run of
   the LTS) whose log already contains what it reports: f's begin/end stamps follow the task's EvBegin, an observed
   sticky error is the first error of the log, and when Wait returns x every registered task went through its
   deferred function and x is the first error of the log. *)
Theorem obs_backed : forall c its o, cfg_ok c -> obs_run c its o ->
  forall its1 e its2, its = its1 ++ IO e :: its2 ->
  exists o1, obs_run c its1 o1 /\ steps c init (labels_of its1) (o_s o1) /\ backed o1 e.
Proof.
  intros c its o Hc Hr its1 e its2 ->. unfold obs_run in Hr.
  destruct (orun_app_inv _ _ _ _ _ Hr) as (o1 & H1 & H2). exists o1.
  pose proof (orun_steps _ _ _ _ H1) as Hst. split; [exact H1|]. split; [exact Hst|].
  cbn [orun ostep] in H2. destruct (ostamp o1 e) as [o2|] eqn:Hs; [|discriminate].
  eapply ostamp_backed; [|exact Hs]. eapply reachable_Inv; eauto.
Qed.
Print Assumptions obs_backed.
