(* ExecutorAccept_proofs.v — soundness of the trace-inclusion acceptor of Model/ExecutorAccept.v:
   an accepted observed trace is the visible part of a run of the instrumented LTS, whose label part is a run
   ([steps]) of the LTS Model/Executor.v that the C08 theorems quantify over. *)
From Coq Require Import List NArith ZArith Bool Arith Lia.
Import ListNotations.
From HV Require Import Model.Executor Model.ExecutorAccept Proofs.Executor_proofs.

Lemma ostamp_s : forall o e o', ostamp o e = Some o' -> o_s o' = o_s o.
Proof.
  intros o e o' H. unfold ostamp in H.
  destruct e; cbn beta iota in H;
    repeat match type of H with
           | Some _ = Some _ => injection H as <-; reflexivity
           | None = Some _ => discriminate H
           | context [match ?x with _ => _ end] => destruct x
           end.
Qed.

Lemma after_label_s : forall o l s', o_s (after_label o l s') = s'.
Proof. intros o l s'. unfold after_label. destruct l; reflexivity. Qed.

Lemma ostep_label : forall c o l o', ostep c o (IL l) = Some o' -> step c (o_s o) l = Some (o_s o').
Proof.
  intros c o l o' H. cbn [ostep] in H. destruct (guard_label o l); [|discriminate].
  destruct (step c (o_s o) l) as [s'|]; [|discriminate]. injection H as <-. now rewrite after_label_s.
Qed.

Lemma orun_steps : forall c its o o', orun c o its = Some o' -> steps c (o_s o) (labels_of its) (o_s o').
Proof.
  intros c its. induction its as [|it its IH]; intros o o' H; cbn [orun] in H.
  - injection H as <-. constructor.
  - destruct (ostep c o it) as [o1|] eqn:Hs; [|discriminate]. specialize (IH _ _ H).
    destruct it as [l|e].
    + apply ostep_label in Hs. change (labels_of (IL l :: its)) with (l :: labels_of its).
      eapply steps_cons; eauto.
    + cbn [ostep] in Hs. apply ostamp_s in Hs. change (labels_of (IO e :: its)) with (labels_of its).
      now rewrite <- Hs.
Qed.

Lemma oev_eqb_eq : forall a b, oev_eqb a b = true -> a = b.
Proof.
  intros a b H. destruct a, b; cbn [oev_eqb] in H; try discriminate; try reflexivity;
    repeat match type of H with
           | _ && _ = true => apply andb_prop in H; destruct H as [H ?]
           end;
    repeat match goal with
           | X : Nat.eqb _ _ = true |- _ => apply Nat.eqb_eq in X; subst
           | X : Bool.eqb _ _ = true |- _ => apply eqb_prop in X; subst
           | X : N.eqb _ _ = true |- _ => apply N.eqb_eq in X; subst
           end; reflexivity.
Qed.

Lemma oevs_eqb_eq : forall a b, oevs_eqb a b = true -> a = b.
Proof.
  induction a as [|x a IH]; intros [|y b] H; cbn [oevs_eqb] in H; try discriminate; [reflexivity|].
  apply andb_prop in H. destruct H as [H1 H2]. apply oev_eqb_eq in H1. apply IH in H2. now subst.
Qed.

Definition obs_run (c : cfg) (its : list item) (o : ost) : Prop := orun c oinit its = Some o.

Lemma accepts_with_sound : forall c its evs, accepts_with c its evs = true ->
  exists o, obs_run c its o /\ obs_of its = evs /\ steps c init (labels_of its) (o_s o).
Proof.
  intros c its evs H. unfold accepts_with in H. destruct (orun c oinit its) as [o|] eqn:Hr; [|discriminate].
  exists o. split; [exact Hr|]. split; [now apply oevs_eqb_eq|]. exact (orun_steps _ _ _ _ Hr).
Qed.

Theorem accepts_sound : forall c evs, accepts c evs = true ->
  exists its o, obs_run c its o /\ obs_of its = evs /\ steps c init (labels_of its) (o_s o).
Proof.
  intros c evs H. unfold accepts in H. destruct (plan c evs) as [its|]; [|discriminate].
  exists its. now apply accepts_with_sound.
Qed.
Print Assumptions accepts_sound.

(* what an accepted trace says about the LTS state it ends in: the error Wait returned is the LTS's sticky error
   and every registered task went through its deferred function *)
Lemma all_done_b_spec : forall s n, all_done_b s n = true -> forall j, j < n -> ph (tasks s j) = PDone.
Proof.
  intros s n. induction n as [|n IH]; cbn [all_done_b]; intros H j Hj; [lia|].
  apply andb_prop in H. destruct H as [H1 H2].
  destruct (Nat.eq_dec j n) as [->|Hne]; [|apply IH; [exact H2|lia]].
  destruct (ph (tasks s n)); try discriminate. reflexivity.
Qed.
