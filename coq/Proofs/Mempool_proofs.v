(* Invariants of the mempool model (Model/Mempool.v) over all operation sequences. *)
From Coq Require Import List NArith ZArith Bool Arith Lia Permutation Sorted.
From Coq Require Import ZifyN ZifyNat ZifyBool.
Import ListNotations.
From HV Require Import Model.Heap Model.EHeap Model.Mempool Proofs.Heap_proofs Proofs.EHeap_proofs.

Notation ehwf := (ehwf item it_id it_exp).
Notation items := (items item).

Definition qids (q : list item) : list N := map it_id q.
Definition count_sp (q : list item) (s : N) : nat := length (filter (fun x => N.eqb (it_sp x) s) q).
Definition sum_size (q : list item) : Z := fold_right (fun x a => (it_size x + a)%Z) 0%Z q.

Lemma sum_size_cons x q : sum_size (x :: q) = (it_size x + sum_size q)%Z.
Proof. reflexivity. Qed.

Lemma count_sp_cons x q s : count_sp (x :: q) s = (if N.eqb (it_sp x) s then 1 else 0) + count_sp q s.
Proof. unfold count_sp. cbn [filter]. destruct (N.eqb (it_sp x) s); reflexivity. Qed.

Lemma count_sp_perm q q' s : Permutation q q' -> count_sp q s = count_sp q' s.
Proof.
  intros H. induction H as [|x l l' _ IH|x y l|l l' l'' _ IH1 _ IH2]; auto.
  - rewrite !count_sp_cons. lia.
  - rewrite !count_sp_cons. lia.
  - lia.
Qed.

Lemma sum_size_perm q q' : Permutation q q' -> sum_size q = sum_size q'.
Proof.
  intros H. induction H as [|x l l' _ IH|x y l|l l' l'' _ IH1 _ IH2]; auto.
  - change (sum_size (x :: l)) with (it_size x + sum_size l)%Z.
    change (sum_size (x :: l')) with (it_size x + sum_size l')%Z. lia.
  - change (sum_size (y :: x :: l)) with (it_size y + (it_size x + sum_size l))%Z.
    change (sum_size (x :: y :: l)) with (it_size x + (it_size y + sum_size l))%Z. lia.
  - lia.
Qed.



Lemma sum_size_app2 a b : sum_size (a ++ b) = (sum_size a + sum_size b)%Z.
Proof. induction a as [|v a IH]; [cbn [app]; change (sum_size []) with 0%Z; lia|]. cbn [app]. rewrite !sum_size_cons. lia. Qed.

Lemma sum_size_app q x : sum_size (q ++ [x]) = (sum_size q + it_size x)%Z.
Proof. rewrite (sum_size_perm (q ++ [x]) (x :: q)); [rewrite sum_size_cons; lia|]. symmetry. apply Permutation_cons_append. Qed.

(* ---------- owned counters ---------- *)
Lemma owned_get_del o s s' : owned_get (owned_del o s) s' = if N.eqb s' s then 0 else owned_get o s'.
Proof.
  unfold owned_get, owned_del. induction o as [|[k c] o IH]; cbn [filter find fst snd].
  - now destruct (N.eqb s' s).
  - destruct (N.eqb_spec k s) as [Hks|Hks]; cbn [negb find fst snd].
    + rewrite IH. destruct (N.eqb_spec s' s) as [Hs|Hs]; [reflexivity|].
      destruct (N.eqb_spec k s') as [Hk|Hk]; [congruence|reflexivity].
    + destruct (N.eqb_spec k s') as [Hk|Hk].
      * destruct (N.eqb_spec s' s) as [Hs|Hs]; [congruence|reflexivity].
      * exact IH.
Qed.

Lemma owned_get_set o s c s' : owned_get (owned_set o s c) s' = if N.eqb s' s then c else owned_get o s'.
Proof.
  unfold owned_set. unfold owned_get at 1. cbn [find fst snd].
  destruct (N.eqb_spec s s') as [->|Hn].
  - now rewrite N.eqb_refl.
  - fold (owned_get (owned_del o s) s'). rewrite owned_get_del.
    destruct (N.eqb_spec s' s); [congruence|reflexivity].
Qed.

Lemma owned_get_remove o s s' :
  owned_get (remove_from_owned o s) s' = if N.eqb s' s then owned_get o s - 1 else owned_get o s'.
Proof.
  unfold remove_from_owned. destruct (find (fun p => N.eqb (fst p) s) o) as [p|] eqn:E.
  - assert (Hg : owned_get o s = snd p) by (unfold owned_get; now rewrite E).
    destruct (Nat.eqb_spec (snd p) 1) as [H1|H1].
    + rewrite owned_get_del. destruct (N.eqb s' s); [lia|reflexivity].
    + rewrite owned_get_set. destruct (N.eqb s' s); [lia|reflexivity].
  - destruct (N.eqb_spec s' s) as [->|]; [|reflexivity]. unfold owned_get. rewrite E. reflexivity.
Qed.

(* ---------- queue ---------- *)
Lemma filter_all_true {X} (f : X -> bool) (l : list X) : (forall z, In z l -> f z = true) -> filter f l = l.
Proof.
  induction l as [|h t IH]; intros H; [reflexivity|]. cbn [filter]. rewrite (H h (or_introl eq_refl)).
  f_equal. apply IH. intros z Hz. apply H. now right.
Qed.

Lemma queue_remove_perm q x : In x q -> NoDup (qids q) -> Permutation q (x :: queue_remove q (it_id x)).
Proof.
  induction q as [|y q IH]; intros Hin Hnd; [contradiction|]. cbn [queue_remove].
  cbn [qids map] in Hnd. inversion Hnd as [|a b Hn Hnd']; subst.
  destruct (N.eqb_spec (it_id y) (it_id x)) as [E|E].
  - destruct Hin as [->|Hin]; [reflexivity|]. exfalso. apply Hn. rewrite E. now apply in_map.
  - destruct Hin as [->|Hin]; [congruence|]. eapply perm_trans; [apply perm_skip, IH; assumption|apply perm_swap].
Qed.

Lemma queue_remove_filter q id : NoDup (qids q) ->
  queue_remove q id = filter (fun y => negb (N.eqb (it_id y) id)) q.
Proof.
  induction q as [|y q IH]; intros Hnd; [reflexivity|]. cbn [queue_remove filter].
  cbn [qids map] in Hnd. inversion Hnd as [|a b Hn Hnd']; subst.
  destruct (N.eqb_spec (it_id y) id) as [E|E]; cbn [negb].
  - symmetry. apply filter_all_true. intros z Hz. destruct (N.eqb_spec (it_id z) id) as [E2|]; [|reflexivity].
    exfalso. apply Hn. rewrite E, <- E2. now apply in_map.
  - f_equal. now apply IH.
Qed.

Lemma nodup_same_id (l : list item) a b :
  NoDup (qids l) -> In a l -> In b l -> it_id a = it_id b -> a = b.
Proof.
  induction l as [|y l IH]; intros Hnd Ha Hb E; [contradiction|].
  cbn [qids map] in Hnd. inversion Hnd as [|u v Hn Hnd']; subst.
  destruct Ha as [->|Ha], Hb as [->|Hb]; auto.
  - exfalso. apply Hn. rewrite E. now apply in_map.
  - exfalso. apply Hn. rewrite <- E. now apply in_map.
Qed.

Section Inv.
(* an item's sponsor and size are determined by its id (ids are hashes of the whole item) *)
Variable spf : N -> N.
Variable szf : N -> Z.
Definition wf_item (x : item) : Prop := it_sp x = spf (it_id x) /\ it_size x = szf (it_id x).

Record minv (m : mp) : Prop := mkInv {
  iv_eh : ehwf (mp_eh m);
  iv_perm : Permutation (items (mp_eh m)) (mp_queue m);
  iv_wf : Forall wf_item (mp_queue m);
  iv_max : length (mp_queue m) <= mp_max m;
  iv_owned : forall s, owned_get (mp_owned m) s = count_sp (mp_queue m) s;
  iv_sp : forall s, count_sp (mp_queue m) s <= mp_maxsp m;
  iv_size : mp_pending m = sum_size (mp_queue m);
  iv_str : forall s id, mp_streamed m = Some s -> In id s -> ~ In id (qids (mp_queue m))
}.

Lemma minv_nodup m : minv m -> NoDup (qids (mp_queue m)).
Proof.
  intros H. eapply Permutation_NoDup; [apply Permutation_map, (iv_perm m H)|].
  apply (ehwf_nodup item it_id it_exp), (iv_eh m H).
Qed.

Lemma minv_has m id : minv m -> (eh_has (mp_eh m) id = true <-> In id (qids (mp_queue m))).
Proof.
  intros H. rewrite (has_spec item it_id it_exp _ id (iv_eh m H)). unfold qids. rewrite in_map_iff.
  split; intros (x & H1 & H2).
  - exists x. split; [assumption|]. eapply Permutation_in; [apply (iv_perm m H)|assumption].
  - exists x. split; [|assumption]. eapply Permutation_in; [symmetry; apply (iv_perm m H)|assumption].
Qed.

Lemma minv_len m : minv m -> eh_len (mp_eh m) = length (mp_queue m).
Proof.
  intros H. unfold eh_len. rewrite <- (Permutation_length (iv_perm m H)). unfold EHeap_proofs.items.
  now rewrite map_length.
Qed.

Lemma minv_new maxsz maxsp : minv (mp_new maxsz maxsp).
Proof.
  constructor; cbn; try (intros; lia); auto; try discriminate; try apply ehwf_nil.
Qed.

(* changing only the stream bookkeeping *)
Lemma minv_set_stream m s nx f : minv m ->
  (forall l id, s = Some l -> In id l -> ~ In id (qids (mp_queue m))) -> minv (set_stream m s nx f).
Proof. intros H Hs. destruct H. constructor; cbn; auto. Qed.

(* ---------- insertion ---------- *)
Definition insert (front : bool) (q : list item) (x : item) := if front then x :: q else q ++ [x].

Lemma insert_perm front q x : Permutation (insert front q x) (x :: q).
Proof. destruct front; cbn; [reflexivity|]. symmetry. apply Permutation_cons_append. Qed.

Lemma add1_cases front m x :
  (add1 front m x = m /\
   ((exists s, mp_streamed m = Some s /\ In (it_id x) s) \/ eh_has (mp_eh m) (it_id x) = true \/
    owned_get (mp_owned m) (it_sp x) = mp_maxsp m \/ length (mp_queue m) = mp_max m)) \/
  (add1 front m x =
     set_queue_etc m (mp_pending m + it_size x)%Z (insert front (mp_queue m) x)
       (eh_add it_id it_exp (mp_eh m) x)
       (owned_set (mp_owned m) (it_sp x) (S (owned_get (mp_owned m) (it_sp x)))) /\
   (forall s, mp_streamed m = Some s -> ~ In (it_id x) s) /\ eh_has (mp_eh m) (it_id x) = false /\
   owned_get (mp_owned m) (it_sp x) <> mp_maxsp m /\ length (mp_queue m) <> mp_max m).
Proof.
  unfold add1.
  destruct (match mp_streamed m with Some s => mem_id (it_id x) s | None => false end) eqn:E1.
  { left. split; [reflexivity|]. left. destruct (mp_streamed m) as [s|]; [|discriminate]. exists s.
    split; [reflexivity|]. unfold mem_id in E1. apply existsb_exists in E1 as (y & Hy & Ey).
    apply N.eqb_eq in Ey. now subst y. }
  destruct (eh_has (mp_eh m) (it_id x)) eqn:E2; [left; auto|].
  destruct (Nat.eqb_spec (owned_get (mp_owned m) (it_sp x)) (mp_maxsp m)) as [E3|E3]; [left; auto|].
  destruct (Nat.eqb_spec (length (mp_queue m)) (mp_max m)) as [E4|E4]; [left; auto 6|].
  right. split; [reflexivity|]. repeat split; auto.
  intros s Hs Hin. rewrite Hs in E1. unfold mem_id in E1.
  assert (existsb (N.eqb (it_id x)) s = true); [|congruence].
  apply existsb_exists. exists (it_id x). split; [assumption|apply N.eqb_refl].
Qed.

Lemma add1_inv front m x : minv m -> wf_item x -> minv (add1 front m x).
Proof.
  intros H Hx. destruct (add1_cases front m x) as [[-> _]|(-> & Hs & Hhas & Ho & Hl)]; [assumption|].
  pose proof (minv_nodup m H) as Hnd.
  assert (Hnotin : ~ In (it_id x) (qids (mp_queue m))).
  { intros Hin. apply (minv_has m _ H) in Hin. congruence. }
  destruct (add_spec item it_id it_exp (mp_eh m) x (iv_eh m H)) as [Hw' [[Hc _]|[_ Hp]]]; [congruence|].
  pose proof (insert_perm front (mp_queue m) x) as Hip.
  destruct H as [I1 I2 I3 I4 I5 I6 I7 I8].
  constructor; cbn [set_queue_etc mp_eh mp_queue mp_max mp_maxsp mp_owned mp_pending mp_streamed].
  - exact Hw'.
  - eapply perm_trans; [exact Hp|]. symmetry. eapply perm_trans; [exact Hip|]. now apply perm_skip.
  - eapply Permutation_Forall; [symmetry; exact Hip|]. now constructor.
  - rewrite (Permutation_length Hip). cbn [length]. lia.
  - intros s. rewrite owned_get_set, (count_sp_perm _ _ s Hip), count_sp_cons, !I5.
    destruct (N.eqb_spec s (it_sp x)) as [->|Hn].
    + rewrite N.eqb_refl. lia.
    + destruct (N.eqb_spec (it_sp x) s); [congruence|]. lia.
  - intros s. rewrite (count_sp_perm _ _ s Hip), count_sp_cons.
    destruct (N.eqb_spec (it_sp x) s) as [<-|Hn]; [|apply I6].
    specialize (I6 (it_sp x)). rewrite <- I5 in *. lia.
  - rewrite (sum_size_perm _ _ Hip), sum_size_cons. lia.
  - intros s id Hstr Hin Hq. apply (Permutation_in _ (Permutation_map it_id Hip)) in Hq. cbn [map] in Hq.
    destruct Hq as [<-|Hq]; [now apply (Hs s)|]. now apply (I8 s id).
Qed.

Lemma add_inv front xs : forall m, minv m -> Forall wf_item xs -> minv (add front m xs).
Proof.
  unfold add. induction xs as [|x xs IH]; intros m H Hxs; cbn [fold_left]; [assumption|].
  inversion Hxs; subst. apply IH; [now apply add1_inv|assumption].
Qed.

(* ---------- deletion ---------- *)
Lemma delete_inv m e sp sz : minv m -> ih_get (mp_eh m) (it_id (e_item e)) = Some e ->
  sp = it_sp (e_item e) -> sz = it_size (e_item e) ->
  In (e_item e) (mp_queue m) /\
  minv (set_queue_etc m (mp_pending m - sz)%Z (queue_remove (mp_queue m) (it_id (e_item e)))
          (fst (eh_remove (mp_eh m) (it_id (e_item e)))) (remove_from_owned (mp_owned m) sp)).
Proof.
  intros H Hg -> ->. set (x := e_item e) in *.
  destruct (remove_present item it_id it_exp (mp_eh m) _ e (iv_eh m H) Hg) as (_ & Hw' & Hp). fold x in Hp.
  pose proof (minv_nodup m H) as Hnd.
  assert (Hin : In x (mp_queue m)).
  { eapply Permutation_in; [apply (iv_perm m H)|]. eapply Permutation_in; [symmetry; exact Hp|]. now left. }
  split; [exact Hin|].
  pose proof (queue_remove_perm (mp_queue m) x Hin Hnd) as Hq.
  destruct H as [I1 I2 I3 I4 I5 I6 I7 I8].
  constructor; cbn [set_queue_etc mp_eh mp_queue mp_max mp_maxsp mp_owned mp_pending mp_streamed].
  - exact Hw'.
  - apply Permutation_cons_inv with (a := x). eapply perm_trans; [symmetry; exact Hp|].
    eapply perm_trans; [exact I2|exact Hq].
  - eapply Permutation_Forall in I3; [|exact Hq]. now inversion I3.
  - rewrite (Permutation_length Hq) in I4. cbn [length] in I4. lia.
  - intros s. rewrite owned_get_remove, !I5, (count_sp_perm _ _ s Hq), (count_sp_perm _ _ (it_sp x) Hq), !count_sp_cons.
    rewrite N.eqb_refl. destruct (N.eqb_spec s (it_sp x)) as [->|Hn].
    + lia.
    + destruct (N.eqb_spec (it_sp x) s); [congruence|]. lia.
  - intros s. specialize (I6 s). rewrite (count_sp_perm _ _ s Hq), count_sp_cons in I6. lia.
  - rewrite I7, (sum_size_perm _ _ Hq), sum_size_cons. lia.
  - intros s id Hstr Hi Hq'. apply (I8 s id Hstr Hi).
    eapply Permutation_in; [symmetry; apply (Permutation_map it_id Hq)|]. now right.
Qed.

Lemma get_head m v q' : minv m -> mp_queue m = v :: q' ->
  exists e, ih_get (mp_eh m) (it_id v) = Some e /\ e_item e = v.
Proof.
  intros H Hq. apply (get_of_item item it_id it_exp _ v (iv_eh m H)).
  eapply Permutation_in; [symmetry; apply (iv_perm m H)|]. rewrite Hq. now left.
Qed.

Lemma queue_remove_head v q : queue_remove (v :: q) (it_id v) = q.
Proof. cbn. now rewrite N.eqb_refl. Qed.

Lemma pop_next_inv m : minv m ->
  minv (fst (pop_next m)) /\ snd (pop_next m) = hd_error (mp_queue m) /\
  mp_queue (fst (pop_next m)) = tl (mp_queue m) /\ mp_streamed (fst (pop_next m)) = mp_streamed m /\
  mp_next (fst (pop_next m)) = mp_next m /\ mp_fetched (fst (pop_next m)) = mp_fetched m.
Proof.
  intros H. unfold pop_next. destruct (mp_queue m) as [|v q'] eqn:Hq; cbn [fst snd hd_error tl]; [auto 6|].
  destruct (get_head m v q' H Hq) as (e & Hg & He). subst v.
  destruct (delete_inv m e _ _ H Hg eq_refl eq_refl) as [_ Hi].
  rewrite Hq, queue_remove_head in Hi. cbn. auto 6.
Qed.

Lemma remove1_inv m x : minv m -> wf_item x ->
  minv (remove1 m x) /\
  mp_queue (remove1 m x) = filter (fun y => negb (N.eqb (it_id y) (it_id x))) (mp_queue m) /\
  mp_streamed (remove1 m x) = mp_streamed m /\ mp_next (remove1 m x) = mp_next m /\
  mp_fetched (remove1 m x) = mp_fetched m.
Proof.
  intros H Hx. unfold remove1. pose proof (minv_nodup m H) as Hnd.
  destruct (eh_has (mp_eh m) (it_id x)) eqn:Eh.
  - pose proof Eh as Eh'. unfold eh_has, ih_has in Eh'.
    destruct (ih_get (mp_eh m) (it_id x)) as [e|] eqn:Hg; [|discriminate].
    destruct (remove_present item it_id it_exp (mp_eh m) _ e (iv_eh m H) Hg) as (R1 & _ & _).
    destruct (eh_remove (mp_eh m) (it_id x)) as [eh' r] eqn:Er. cbn [fst snd] in *. subst r.
    assert (Hid : it_id (e_item e) = it_id x).
    { apply ih_get_some in Hg as [Hin Hid]. destruct (entry_ok item it_id it_exp _ e (iv_eh m H) Hin) as [E _]. congruence. }
    assert (Hin' : In (e_item e) (mp_queue m)).
    { eapply Permutation_in; [apply (iv_perm m H)|]. unfold EHeap_proofs.items. apply in_map.
      now apply ih_get_some in Hg. }
    pose proof (iv_wf m H) as Hwf. rewrite Forall_forall in Hwf. destruct (Hwf _ Hin') as [He1 He2].
    destruct Hx as [Hx1 Hx2].
    rewrite <- Hid in Hg.
    destruct (delete_inv m e (it_sp x) (it_size x) H Hg) as [Hin Hi].
    + now rewrite Hx1, He1, Hid.
    + now rewrite Hx2, He2, Hid.
    + rewrite Hid, Er in Hi. cbn [fst] in Hi. rewrite Hid. split; [exact Hi|].
      cbn. split; [now apply queue_remove_filter|auto].
  - rewrite (remove_absent item _ _ Eh). split; [assumption|]. split; [|auto].
    symmetry. apply filter_all_true. intros y Hy. destruct (N.eqb_spec (it_id y) (it_id x)) as [E|]; [|reflexivity].
    exfalso. assert (Hin : In (it_id x) (qids (mp_queue m))) by (rewrite <- E; now apply in_map).
    apply (minv_has m _ H) in Hin. congruence.
Qed.

(* ---------- SetMinTimestamp ---------- *)
Lemma filter_perm {X} (f : X -> bool) (l l' : list X) : Permutation l l' -> Permutation (filter f l) (filter f l').
Proof.
  intros H. induction H as [|x l l' _ IH|x y l|l l' l'' _ IH1 _ IH2]; cbn [filter]; auto.
  - destruct (f x); auto.
  - destruct (f x), (f y); auto. apply perm_swap.
  - eapply perm_trans; eassumption.
Qed.

Lemma filter2 {X} (f g : X -> bool) (l : list X) : filter f (filter g l) = filter (fun x => g x && f x) l.
Proof.
  induction l as [|h t IH]; [reflexivity|]. cbn [filter]. destruct (g h); cbn [andb filter]; [|exact IH].
  destruct (f h); now rewrite IH.
Qed.
Lemma nodup_map_filter {X Y} (f : X -> Y) (p : X -> bool) (l : list X) : NoDup (map f l) -> NoDup (map f (filter p l)).
Proof.
  induction l as [|h t IH]; intros H; [constructor|]. cbn [map filter] in *. inversion H as [|a b Hn Hnd]; subst.
  destruct (p h); [|now apply IH]. cbn [map]. constructor; [|now apply IH].
  intros Hin. apply Hn. apply in_map_iff in Hin as (z & Ez & Hz). apply filter_In in Hz as [Hz _].
  rewrite <- Ez. now apply in_map.
Qed.
Lemma filter_none {X} (f : X -> bool) (l : list X) : (forall z, In z l -> f z = false) -> filter f l = [].
Proof.
  induction l as [|h t IH]; intros H; [reflexivity|]. cbn [filter]. rewrite (H h (or_introl eq_refl)).
  apply IH. intros z Hz. apply H. now right.
Qed.
Lemma filter_len {X} (f : X -> bool) (l : list X) : length (filter f l) <= length l.
Proof. induction l as [|h t IH]; [cbn; lia|]. cbn [filter]. destruct (f h); cbn [length]; lia. Qed.

Definition drop_ids (q : list item) (r : list item) : list item :=
  filter (fun y => negb (mem_id (it_id y) (qids r))) q.

Lemma mem_id_in id l : mem_id id l = true <-> In id l.
Proof.
  unfold mem_id. rewrite existsb_exists. split.
  - intros (y & Hy & E). apply N.eqb_eq in E. now subst.
  - intros H. exists id. split; [assumption|apply N.eqb_refl].
Qed.

Lemma fold_queue_remove r : forall q, NoDup (qids q) ->
  fold_left (fun q v => queue_remove q (it_id v)) r q = drop_ids q r.
Proof.
  induction r as [|v r IH]; intros q Hnd; cbn [fold_left].
  - unfold drop_ids. symmetry. now apply filter_all_true.
  - rewrite IH.
    + rewrite (queue_remove_filter q _ Hnd). unfold drop_ids. rewrite filter2.
      apply filter_ext. intros y. unfold mem_id. cbn [qids map existsb]. now rewrite negb_orb.
    + rewrite (queue_remove_filter q _ Hnd). unfold qids. apply nodup_map_filter. exact Hnd.
Qed.

Definition smfold (m : mp) (v : item) : mp :=
  set_queue_etc m (mp_pending m - it_size v)%Z (queue_remove (mp_queue m) (it_id v)) (mp_eh m)
    (remove_from_owned (mp_owned m) (it_sp v)).

Lemma smfold_fields r : forall m,
  let m' := fold_left smfold r m in
  mp_pending m' = (mp_pending m - sum_size r)%Z /\
  (forall s, owned_get (mp_owned m') s = owned_get (mp_owned m) s - count_sp r s) /\
  mp_queue m' = fold_left (fun q v => queue_remove q (it_id v)) r (mp_queue m) /\
  mp_eh m' = mp_eh m /\ mp_max m' = mp_max m /\ mp_maxsp m' = mp_maxsp m /\
  mp_streamed m' = mp_streamed m /\ mp_next m' = mp_next m /\ mp_fetched m' = mp_fetched m.
Proof.
  induction r as [|v r IH]; intros m; cbn [fold_left].
  - cbn. repeat split; auto; try lia.
  - specialize (IH (smfold m v)). cbn zeta in *. destruct IH as (I1 & I2 & I3 & I4 & I5 & I6 & I7 & I8 & I9).
    rewrite I1, I3, I4, I5, I6, I7, I8, I9. cbn [smfold set_queue_etc mp_pending mp_queue mp_eh mp_max mp_maxsp mp_streamed mp_next mp_fetched mp_owned].
    repeat split; auto.
    + rewrite sum_size_cons. lia.
    + intros s. rewrite I2. cbn [smfold set_queue_etc mp_owned]. rewrite owned_get_remove, count_sp_cons.
      destruct (N.eqb_spec s (it_sp v)) as [->|Hn].
      * rewrite N.eqb_refl. lia.
      * destruct (N.eqb_spec (it_sp v) s); [congruence|]. lia.
Qed.

Lemma set_min_ts_inv m t : minv m ->
  let r := set_min_ts m t in
  minv (fst r) /\
  mp_queue (fst r) = filter (fun y => (t <=? it_exp y)%Z) (mp_queue m) /\
  Permutation (snd r) (filter (fun y => (it_exp y <? t)%Z) (mp_queue m)) /\
  StronglySorted (le_exp item it_exp) (snd r) /\
  mp_streamed (fst r) = mp_streamed m /\ mp_next (fst r) = mp_next m /\ mp_fetched (fst r) = mp_fetched m.
Proof.
  intros H. unfold set_min_ts.
  destruct (set_min_spec item it_id it_exp (mp_eh m) t (iv_eh m H)) as (S1 & S2 & S3 & S4 & S5).
  destruct (eh_set_min it_id it_exp (mp_eh m) t) as [eh' r] eqn:Er. cbn [fst snd] in *.
  set (m0 := set_queue_etc m (mp_pending m) (mp_queue m) eh' (mp_owned m)).
  change (fold_left _ r m0) with (fold_left smfold r m0).
  destruct (smfold_fields r m0) as (F1 & F2 & F3 & F4 & F5 & F6 & F7 & F8 & F9).
  cbn [m0 set_queue_etc mp_pending mp_queue mp_eh mp_max mp_maxsp mp_streamed mp_next mp_fetched mp_owned] in *.
  set (m' := fold_left smfold r m0) in *.
  pose proof (minv_nodup m H) as Hnd.
  rewrite (fold_queue_remove r _ Hnd) in F3.
  set (q := mp_queue m) in *.
  assert (Hq : Permutation q (r ++ items eh')).
  { eapply perm_trans; [symmetry; apply (iv_perm m H)|exact S2]. }
  assert (Hnd2 : NoDup (qids (r ++ items eh'))).
  { eapply Permutation_NoDup; [apply (Permutation_map it_id Hq)|exact Hnd]. }
  assert (Hclass : forall y, In y q -> (In y r /\ (it_exp y < t)%Z /\ mem_id (it_id y) (qids r) = true) \/
                                      (In y (items eh') /\ (t <= it_exp y)%Z /\ mem_id (it_id y) (qids r) = false)).
  { intros y Hy. pose proof (Permutation_in _ Hq Hy) as Hy2. apply in_app_or in Hy2 as [Hr|Hk].
    - left. rewrite Forall_forall in S3. split; [assumption|]. split; [now apply S3|].
      apply mem_id_in. now apply in_map.
    - right. rewrite Forall_forall in S4. split; [assumption|]. split; [now apply S4|].
      destruct (mem_id (it_id y) (qids r)) eqn:E; [|reflexivity]. exfalso.
      apply mem_id_in in E. unfold qids in E. apply in_map_iff in E as (z & Ez & Hz).
      assert (z = y).
      { apply (nodup_same_id (r ++ items eh')); auto; apply in_or_app; auto. }
      subst z. rewrite Forall_forall in S3. specialize (S3 y Hz). specialize (S4 y Hk). lia. }
  assert (Hdrop : drop_ids q r = filter (fun y => (t <=? it_exp y)%Z) q).
  { unfold drop_ids. apply filter_ext_in. intros y Hy.
    destruct (Hclass y Hy) as [(_ & L & ->)|(_ & L & ->)]; cbn [negb]; symmetry;
      [apply Z.leb_gt|apply Z.leb_le]; lia. }
  assert (Hrest : Permutation (drop_ids q r) (items eh')).
  { unfold drop_ids. eapply perm_trans; [apply filter_perm, Hq|]. rewrite filter_app.
    rewrite (filter_none _ r), (filter_all_true _ (items eh')); [reflexivity| |].
    - intros z Hz. destruct (Hclass z) as [(_ & L & _)|(_ & _ & ->)]; [| |reflexivity].
      + eapply Permutation_in; [symmetry; exact Hq|]. apply in_or_app. now right.
      + exfalso. rewrite Forall_forall in S4. specialize (S4 z Hz). lia.
    - intros z Hz. apply negb_false_iff, mem_id_in. now apply in_map. }
  assert (Hparts : Permutation q (r ++ drop_ids q r)).
  { eapply perm_trans; [exact Hq|]. apply Permutation_app_head. now symmetry. }
  assert (Hcnt : forall s, count_sp q s = count_sp r s + count_sp (drop_ids q r) s).
  { intros s. rewrite (count_sp_perm _ _ s Hparts). unfold count_sp. now rewrite filter_app, app_length. }
  split; [|split; [|split; [|split; [exact S5|auto]]]].
  - destruct H as [I1 I2 I3 I4 I5 I6 I7 I8]. fold q in I2, I3, I4, I5, I6, I7, I8.
    constructor; rewrite ?F3, ?F4, ?F5, ?F6, ?F7.
    + exact S1.
    + now symmetry.
    + unfold drop_ids. rewrite Forall_forall in *. intros y Hy. apply filter_In in Hy as [Hy _]. now apply I3.
    + unfold drop_ids. pose proof (filter_len (fun y => negb (mem_id (it_id y) (qids r))) q). lia.
    + intros s. rewrite F2, I5, Hcnt. lia.
    + intros s. specialize (I6 s). rewrite Hcnt in I6. lia.
    + rewrite F1, I7, (sum_size_perm _ _ Hparts), sum_size_app2. lia.
    + intros s id Hs Hi Hin. apply (I8 s id Hs Hi). unfold qids, drop_ids in *.
      apply in_map_iff in Hin as (y & <- & Hy). apply filter_In in Hy as [Hy _]. now apply in_map.
  - now rewrite F3.
  - (* the returned items are exactly the held items with expiry < t *)
    apply Permutation_app_inv_r with (l := drop_ids q r). eapply perm_trans; [symmetry; exact Hparts|].
    rewrite Hdrop. clear. induction q as [|y q IH]; [reflexivity|]. cbn [filter].
    destruct (Z.ltb_spec (it_exp y) t), (Z.leb_spec t (it_exp y)); try lia.
    + cbn [app]. now apply perm_skip.
    + eapply perm_trans; [apply perm_skip, IH|]. apply Permutation_middle.
Qed.

Ltac splits := repeat match goal with |- _ /\ _ => split end.

(* ---------- arrival order ---------- *)
Inductive sub : list item -> list item -> Prop :=
| sub_nil : sub [] []
| sub_skip x a b : sub a b -> sub a (x :: b)
| sub_take x a b : sub a b -> sub (x :: a) (x :: b).

Lemma add1_queue front m x :
  (mp_queue (add1 front m x) = mp_queue m \/ mp_queue (add1 front m x) = insert front (mp_queue m) x) /\
  mp_streamed (add1 front m x) = mp_streamed m /\ mp_next (add1 front m x) = mp_next m /\
  mp_fetched (add1 front m x) = mp_fetched m /\ mp_max (add1 front m x) = mp_max m /\
  mp_maxsp (add1 front m x) = mp_maxsp m.
Proof.
  destruct (add1_cases front m x) as [[-> _]|(-> & _)]; cbn; auto 7.
Qed.

(* Add appends the accepted items in argument order; a restore (front) puts them before everything else *)
Lemma add_order front xs : forall m,
  exists acc, sub acc xs /\
    mp_queue (add front m xs) = (if front then rev acc ++ mp_queue m else mp_queue m ++ acc) /\
    mp_streamed (add front m xs) = mp_streamed m /\ mp_next (add front m xs) = mp_next m /\
    mp_fetched (add front m xs) = mp_fetched m.
Proof.
  unfold add. induction xs as [|x xs IH]; intros m; cbn [fold_left].
  - exists []. split; [constructor|]. destruct front; cbn; rewrite ?app_nil_r; auto.
  - destruct (IH (add1 front m x)) as (acc & Hs & Hq & H1 & H2 & H3).
    destruct (add1_queue front m x) as ([E|E] & E1 & E2 & E3 & _).
    + exists acc. rewrite Hq, H1, H2, H3, E, E1, E2, E3. split; [now constructor|auto].
    + exists (x :: acc). rewrite Hq, H1, H2, H3, E, E1, E2, E3. split; [now constructor|].
      split; [|auto]. destruct front; cbn [insert rev]; now rewrite <- app_assoc.
Qed.

Lemma remove_inv xs : forall m, minv m -> Forall wf_item xs ->
  minv (remove m xs) /\ mp_streamed (remove m xs) = mp_streamed m /\ mp_next (remove m xs) = mp_next m /\
  mp_fetched (remove m xs) = mp_fetched m /\
  mp_queue (remove m xs) = filter (fun y => negb (mem_id (it_id y) (qids xs))) (mp_queue m).
Proof.
  unfold remove. induction xs as [|x xs IH]; intros m H Hxs; cbn [fold_left].
  - splits; auto. symmetry. now apply filter_all_true.
  - inversion Hxs as [|a b Hx Hxs']; subst.
    destruct (remove1_inv m x H Hx) as (R1 & R2 & R3 & R4 & R5).
    destruct (IH _ R1 Hxs') as (J1 & J2 & J3 & J4 & J5).
    rewrite J2, J3, J4, J5, R2, R3, R4, R5. splits; auto.
    rewrite filter2. apply filter_ext. intros y. unfold mem_id. cbn [qids map existsb]. now rewrite negb_orb.
Qed.

(* ---------- streaming ---------- *)
Definition streamed_list (m : mp) : list N := match mp_streamed m with Some s => s | None => [] end.

Lemma stream_items_inv c : forall m, minv m ->
  let r := stream_items c m in
  minv (fst r) /\ mp_queue m = snd r ++ mp_queue (fst r) /\ length (snd r) <= c /\
  (length (snd r) = c \/ mp_queue (fst r) = []) /\
  mp_next (fst r) = mp_next m /\ mp_fetched (fst r) = mp_fetched m /\
  ((snd r = [] /\ mp_streamed (fst r) = mp_streamed m) \/
   (exists s', mp_streamed (fst r) = Some s' /\ incl (qids (snd r)) s' /\ incl (streamed_list m) s')).
Proof.
  induction c as [|c IH]; intros m H; cbn [stream_items].
  - cbn. splits; auto.
  - destruct (pop_next_inv m H) as (P1 & P2 & P3 & P4 & P5 & P6).
    destruct (pop_next m) as [m1 [v|]] eqn:Ep; cbn [fst snd] in *.
    + destruct (mp_queue m) as [|v' q'] eqn:Hq; [discriminate|]. cbn [hd_error tl] in *. injection P2 as <-.
      set (s := match mp_streamed m1 with Some s => s | None => [] end).
      set (m2 := set_stream m1 (Some (it_id v :: s)) (mp_next m1) (mp_fetched m1)).
      pose proof (minv_nodup m H) as Hnd. rewrite Hq in Hnd. cbn [qids map] in Hnd. apply NoDup_cons_iff in Hnd as [Hn Hnd'].
      assert (H2 : minv m2).
      { apply minv_set_stream; [assumption|]. intros l id [= <-] [<-|Hin]; rewrite P3; [assumption|].
        unfold s in Hin. destruct (mp_streamed m1) as [s1|] eqn:Es; [|contradiction].
        intros Hq'. apply (iv_str m H s1 id (eq_sym P4) Hin). rewrite Hq. now right. }
      specialize (IH m2 H2). cbn zeta in IH.
      destruct (stream_items c m2) as [m3 r] eqn:Es. cbn [fst snd] in *.
      destruct IH as (I1 & I2 & I3 & I4 & I5 & I6 & I7).
      cbn [m2 set_stream mp_queue mp_next mp_fetched] in I2, I5, I6. rewrite P3 in I2.
      split; [exact I1|]. split; [cbn [app]; now rewrite I2|]. split; [cbn [length]; lia|].
      split; [cbn [length]; destruct I4; [left; lia|now right]|].
      split; [congruence|]. split; [congruence|]. right.
      assert (Hsl : streamed_list m = s) by (unfold streamed_list, s; now rewrite P4).
      destruct I7 as [[Er Hst]|(s' & Hst & Hi1 & Hi2)].
      * exists (it_id v :: s). rewrite Hst. cbn [m2 set_stream mp_streamed]. split; [reflexivity|].
        rewrite Er, Hsl. split; [intros z [<-|[]]; now left|apply incl_tl, incl_refl].
      * exists s'. split; [assumption|]. unfold streamed_list in Hi2. cbn [m2 set_stream mp_streamed] in Hi2.
        split.
        -- intros z [<-|Hz]; [apply Hi2; now left|now apply Hi1].
        -- rewrite Hsl. intros z Hz. apply Hi2. now right.
    + destruct (mp_queue m) as [|v' q'] eqn:Hq; [|discriminate]. cbn. splits; auto. lia.
Qed.

(* ---------- Top ---------- *)
Lemma sub_trans : forall b c, sub b c -> forall a, sub a b -> sub a c.
Proof.
  induction 1 as [|x b c Hbc IH|x b c Hbc IH]; intros a' Ha.
  - inversion Ha; constructor.
  - apply sub_skip. now apply IH.
  - inversion Ha; subst; [apply sub_skip|apply sub_take]; now apply IH.
Qed.
Lemma sub_app_take a b v : sub a b -> sub (a ++ [v]) (b ++ [v]).
Proof.
  induction 1 as [|x a b _ IH|x a b _ IH]; cbn [app].
  - apply sub_take, sub_nil.
  - now apply sub_skip.
  - now apply sub_take.
Qed.
Lemma sub_app_skip a b v : sub a b -> sub a (b ++ [v]).
Proof.
  induction 1 as [|x a b _ IH|x a b _ IH]; cbn [app].
  - apply sub_skip, sub_nil.
  - now apply sub_skip.
  - now apply sub_take.
Qed.

Lemma top_loop_inv script : forall m restorable visited, minv m -> Forall wf_item restorable ->
  sub restorable visited ->
  let r := top_loop script m restorable visited in
  minv (fst (fst r)) /\ Forall wf_item (snd (fst r)) /\ sub (snd (fst r)) (snd r) /\
  mp_streamed (fst (fst r)) = mp_streamed m /\ mp_next (fst (fst r)) = mp_next m /\
  mp_fetched (fst (fst r)) = mp_fetched m /\
  (exists k, snd r = visited ++ firstn k (mp_queue m) /\ mp_queue (fst (fst r)) = skipn k (mp_queue m)).
Proof.
  induction script as [|[cont restore] rest IH]; intros m restorable visited H Hr Hs; cbn [top_loop].
  - cbn. splits; auto. exists 0. cbn. now rewrite app_nil_r.
  - destruct (Nat.eqb (eh_len (mp_eh m)) 0).
    { cbn. splits; auto. exists 0. cbn. now rewrite app_nil_r. }
    destruct (pop_next_inv m H) as (P1 & P2 & P3 & P4 & P5 & P6).
    destruct (pop_next m) as [m1 [v|]] eqn:Ep; cbn [fst snd] in *.
    + destruct (mp_queue m) as [|v' q'] eqn:Hq; [discriminate|]. cbn [hd_error tl] in *. injection P2 as <-.
      assert (Hv : wf_item v).
      { pose proof (iv_wf m H) as Hw. rewrite Hq in Hw. now inversion Hw. }
      assert (Hr' : Forall wf_item (if restore then restorable ++ [v] else restorable)).
      { destruct restore; [|assumption]. apply Forall_app. split; [assumption|now constructor]. }
      assert (Hs' : sub (if restore then restorable ++ [v] else restorable) (visited ++ [v])).
      { destruct restore; [now apply sub_app_take|now apply sub_app_skip]. }
      destruct cont.
      * specialize (IH m1 _ (visited ++ [v]) P1 Hr' Hs'). cbn zeta in IH.
        destruct IH as (I1 & I2 & I2' & I3 & I4 & I5 & (k & I6 & I7)).
        split; [exact I1|]. split; [exact I2|]. split; [exact I2'|].
        split; [congruence|]. split; [congruence|]. split; [congruence|].
        exists (S k). rewrite I6, I7, P3. cbn [firstn skipn]. now rewrite <- app_assoc.
      * cbn [fst snd]. split; [exact P1|]. split; [exact Hr'|]. split; [exact Hs'|].
        split; [auto|]. split; [auto|]. split; [auto|].
        exists 1. cbn [firstn skipn]. now rewrite P3.
    + cbn [fst snd]. splits; auto. exists 0. cbn [firstn skipn]. rewrite app_nil_r.
      destruct (mp_queue m); [auto|discriminate].
Qed.

(* Top visits a prefix of the queue (arrival order) and puts the restored ones, a subsequence of the
   visited ones, back in front of the rest *)
Lemma top_inv m script : minv m ->
  minv (fst (top m script)) /\ mp_streamed (fst (top m script)) = mp_streamed m /\
  mp_next (fst (top m script)) = mp_next m /\ mp_fetched (fst (top m script)) = mp_fetched m /\
  (exists k acc, snd (top m script) = firstn k (mp_queue m) /\ sub acc (snd (top m script)) /\
     mp_queue (fst (top m script)) = rev acc ++ skipn k (mp_queue m)).
Proof.
  intros H. unfold top.
  destruct (top_loop_inv script m [] [] H (Forall_nil _) sub_nil) as (T1 & T2 & T2' & T3 & T4 & T5 & (k & T6 & T7)).
  destruct (top_loop script m [] []) as [[m1 restorable] visited] eqn:Et. cbn [fst snd app] in *.
  destruct (add_order true restorable m1) as (acc & A1 & A2 & A3 & A4 & A5).
  split; [now apply add_inv|]. split; [congruence|]. split; [congruence|]. split; [congruence|].
  exists k, acc. split; [exact T6|]. split; [exact (sub_trans _ _ T2' _ A1)|]. now rewrite A2, T7.
Qed.

(* ---------- every operation keeps the invariant ---------- *)
Definition op_items (o : op) : list item :=
  match o with OAdd xs | ORemove xs | OFinish xs => xs | _ => [] end.
Definition wf_op (o : op) : Prop := Forall wf_item (op_items o).

Lemma prepare_inv m c : minv m -> minv (prepare_stream m c).
Proof.
  intros H. unfold prepare_stream. destruct (stream_items_inv c m H) as (S1 & _).
  destruct (stream_items c m) as [m1 txs]. cbn [fst] in S1.
  apply minv_set_stream; [assumption|]. intros l id E. now apply (iv_str m1 S1).
Qed.

Lemma stream_inv m c : minv m -> minv (fst (stream m c)).
Proof.
  intros H. unfold stream. destruct (mp_fetched m).
  - cbn [fst]. apply minv_set_stream; [assumption|]. intros l id E. now apply (iv_str m H).
  - apply (stream_items_inv c m H).
Qed.

(* what has been handed out but not restored yet: those items must satisfy the id -> (sponsor, size) rule *)
Lemma finish_inv m xs : minv m -> Forall wf_item xs -> Forall wf_item (mp_next m) ->
  minv (fst (finish_streaming m xs)) /\ mp_streamed (fst (finish_streaming m xs)) = None /\
  mp_fetched (fst (finish_streaming m xs)) = false /\
  (mp_fetched m = true -> mp_next (fst (finish_streaming m xs)) = []) /\
  (mp_fetched m = false -> mp_next (fst (finish_streaming m xs)) = mp_next m).
Proof.
  intros H Hxs Hnx. unfold finish_streaming.
  set (m1 := set_stream m None (mp_next m) (mp_fetched m)).
  assert (H1 : minv m1) by (apply minv_set_stream; [assumption|discriminate]).
  destruct (add_order true xs m1) as (acc & _ & _ & A3 & A4 & A5).
  pose proof (add_inv true xs m1 H1 Hxs) as H2. set (m2 := add true m1 xs) in *.
  cbn [m1 set_stream mp_streamed mp_next mp_fetched] in A3, A4, A5.
  destruct (mp_fetched m2) eqn:Ef; cbn [fst].
  - destruct (add_order true (mp_next m2) m2) as (acc2 & _ & _ & B3 & B4 & B5).
    assert (H3 : minv (add true m2 (mp_next m2))) by (apply add_inv; [assumption|now rewrite A4]).
    split; [|cbn; rewrite B3, A3; splits; auto; intros E; rewrite A5 in Ef; congruence].
    apply minv_set_stream; [assumption|]. intros l id E. rewrite B3, A3 in E. discriminate.
  - split; [assumption|]. rewrite A3, A4. splits; auto. intros E. rewrite A5 in Ef. congruence.
Qed.

(* ---------- all operation sequences ---------- *)
Definition rinv (m : mp) : Prop := minv m /\ Forall wf_item (mp_next m).

Lemma step_inv m o : rinv m -> wf_op o -> rinv (fst (step m o)).
Proof.
  intros [H Hn] Ho. destruct o as [xs|xs| |t|script| |c|c|xs]; unfold wf_op in Ho; cbn [op_items step] in *.
  - cbn [fst]. split; [now apply add_inv|].
    destruct (add_order false xs m) as (acc & _ & _ & _ & A4 & _). now rewrite A4.
  - cbn [fst]. destruct (remove_inv xs m H Ho) as (R1 & _ & R3 & _). split; [assumption|now rewrite R3].
  - destruct (pop_next_inv m H) as (P1 & _ & _ & _ & P5 & _). destruct (pop_next m) as [m' r]. cbn [fst] in *.
    split; [assumption|now rewrite P5].
  - destruct (set_min_ts_inv m t H) as (S1 & _ & _ & _ & _ & S6 & _). destruct (set_min_ts m t) as [m' r]. cbn [fst] in *.
    split; [assumption|now rewrite S6].
  - destruct (top_inv m script H) as (T1 & _ & T3 & _). destruct (top m script) as [m' r]. cbn [fst] in *.
    split; [assumption|now rewrite T3].
  - cbn [fst]. split; [|exact Hn]. apply minv_set_stream; [assumption|]. intros l id [= <-] [].
  - cbn [fst]. split; [now apply prepare_inv|]. unfold prepare_stream.
    destruct (stream_items_inv c m H) as (_ & S2 & _). destruct (stream_items c m) as [m1 txs]. cbn [fst snd] in *.
    cbn [set_stream mp_next]. pose proof (iv_wf m H) as Hw. rewrite S2 in Hw. now apply Forall_app in Hw.
  - pose proof (stream_inv m c H) as S1. unfold stream in *. destruct (mp_fetched m).
    + cbn [fst] in *. split; [assumption|constructor].
    + destruct (stream_items_inv c m H) as (_ & _ & _ & _ & S5 & _). destruct (stream_items c m) as [m1 txs].
      cbn [fst] in *. split; [assumption|now rewrite S5].
  - destruct (finish_inv m xs H Ho Hn) as (F1 & _ & _ & F4 & F5).
    destruct (finish_streaming m xs) as [m' r]. cbn [fst] in *. split; [assumption|].
    destruct (mp_fetched m); [rewrite F4 by reflexivity; constructor|now rewrite F5].
Qed.

Lemma run_inv : forall ops m, rinv m -> Forall wf_op ops -> rinv (fst (run m ops)).
Proof.
  induction ops as [|o ops IH]; intros m H Ho; cbn [run]; [assumption|].
  inversion Ho as [|a b Ho1 Ho2]; subst. pose proof (step_inv m o H Ho1) as H1.
  destruct (step m o) as [m1 r]. cbn [fst] in H1. specialize (IH m1 H1 Ho2).
  destruct (run m1 ops) as [m2 rs]. exact IH.
Qed.

Definition reachable (maxsz maxsp : nat) (m : mp) : Prop :=
  exists ops, Forall wf_op ops /\ m = fst (run (mp_new maxsz maxsp) ops).

Lemma rinv_new maxsz maxsp : rinv (mp_new maxsz maxsp).
Proof. split; [apply minv_new|constructor]. Qed.

Lemma reachable_inv maxsz maxsp m : reachable maxsz maxsp m -> rinv m.
Proof. intros (ops & Ho & ->). apply run_inv; [apply rinv_new|assumption]. Qed.

(* the limits never change *)
Definition same_limits (m m' : mp) : Prop := mp_max m' = mp_max m /\ mp_maxsp m' = mp_maxsp m.
Lemma sl_refl m : same_limits m m. Proof. split; reflexivity. Qed.
Lemma sl_trans a b c : same_limits a b -> same_limits b c -> same_limits a c.
Proof. intros [? ?] [? ?]. split; congruence. Qed.

Lemma add_limits front xs : forall m, same_limits m (add front m xs).
Proof.
  unfold add. induction xs as [|x xs IH]; intros m; cbn [fold_left]; [apply sl_refl|].
  eapply sl_trans; [|apply IH]. destruct (add1_queue front m x) as (_ & _ & _ & _ & E1 & E2). now split.
Qed.
Lemma pop_limits m : same_limits m (fst (pop_next m)).
Proof. unfold pop_next. destruct (mp_queue m); cbn [fst]; split; reflexivity. Qed.
Lemma remove_limits xs : forall m, same_limits m (remove m xs).
Proof.
  unfold remove. induction xs as [|x xs IH]; intros m; cbn [fold_left]; [apply sl_refl|].
  eapply sl_trans; [|apply IH]. unfold remove1. destruct (eh_remove (mp_eh m) (it_id x)) as [eh' [el|]]; split; reflexivity.
Qed.
Lemma set_min_limits m t : same_limits m (fst (set_min_ts m t)).
Proof.
  unfold set_min_ts. destruct (eh_set_min it_id it_exp (mp_eh m) t) as [eh' r]. cbn [fst].
  change (fold_left _ r ?m0) with (fold_left smfold r m0).
  destruct (smfold_fields r (set_queue_etc m (mp_pending m) (mp_queue m) eh' (mp_owned m))) as (_ & _ & _ & _ & F5 & F6 & _).
  split; [rewrite F5|rewrite F6]; reflexivity.
Qed.
Lemma top_loop_limits script : forall m res vis, same_limits m (fst (fst (top_loop script m res vis))).
Proof.
  induction script as [|[cont restore] rest IH]; intros m res vis; cbn [top_loop]; [apply sl_refl|].
  destruct (Nat.eqb _ 0); [apply sl_refl|]. pose proof (pop_limits m) as Hp.
  destruct (pop_next m) as [m1 [v|]]; cbn [fst] in *; [|exact Hp].
  destruct cont; [eapply sl_trans; [exact Hp|apply IH]|exact Hp].
Qed.
Lemma stream_items_limits c : forall m, same_limits m (fst (stream_items c m)).
Proof.
  induction c as [|c IH]; intros m; cbn [stream_items]; [apply sl_refl|].
  pose proof (pop_limits m) as Hp. destruct (pop_next m) as [m1 [v|]]; cbn [fst] in *; [|apply sl_refl].
  match goal with |- context [stream_items c ?m2] => pose proof (IH m2) as H2; destruct (stream_items c m2) as [m3 r] end.
  cbn [fst] in *. eapply sl_trans; [exact Hp|]. exact H2.
Qed.
Lemma step_limits m o : same_limits m (fst (step m o)).
Proof.
  destruct o as [xs|xs| |t|script| |c|c|xs]; cbn [step].
  - apply add_limits.
  - apply remove_limits.
  - pose proof (pop_limits m). now destruct (pop_next m).
  - pose proof (set_min_limits m t). now destruct (set_min_ts m t).
  - unfold top. pose proof (top_loop_limits script m [] []) as Ht.
    destruct (top_loop script m [] []) as [[m1 res] vis]. cbn [fst] in *.
    eapply sl_trans; [exact Ht|apply add_limits].
  - split; reflexivity.
  - unfold prepare_stream. pose proof (stream_items_limits c m) as Hs. destruct (stream_items c m). exact Hs.
  - unfold stream. destruct (mp_fetched m); [split; reflexivity|].
    pose proof (stream_items_limits c m) as Hs. now destruct (stream_items c m).
  - unfold finish_streaming.
    set (m1 := set_stream m None (mp_next m) (mp_fetched m)).
    pose proof (add_limits true xs m1) as H1. set (m2 := add true m1 xs) in *.
    destruct (mp_fetched m2); cbn [fst]; [|exact H1].
    pose proof (add_limits true (mp_next m2) m2) as H2. eapply sl_trans; [exact H1|exact H2].
Qed.
Lemma run_limits : forall ops m, same_limits m (fst (run m ops)).
Proof.
  induction ops as [|o ops IH]; intros m; cbn [run]; [apply sl_refl|].
  pose proof (step_limits m o) as H1. destruct (step m o) as [m1 r]. cbn [fst] in H1.
  specialize (IH m1). destruct (run m1 ops) as [m2 rs]. cbn [fst] in *. eapply sl_trans; eassumption.
Qed.

(* ---------- no id is handed out twice within one stream ---------- *)
(* ghost: ids taken out of the pool by Stream/PrepareStream since the last StartStreaming/FinishStreaming *)
Definition taken (m : mp) (o : op) : list N :=
  match o with
  | OPrepare c => qids (snd (stream_items c m))
  | OStream c => if mp_fetched m then [] else qids (snd (stream_items c m))
  | _ => []
  end.
Definition ghost_step (g : list N) (m : mp) (o : op) : list N :=
  match o with OStart | OFinish _ => [] | _ => g ++ taken m o end.
Fixpoint ghost_run (g : list N) (m : mp) (ops : list op) : list N :=
  match ops with
  | [] => g
  | o :: rest => ghost_run (ghost_step g m o) (fst (step m o)) rest
  end.
Definition ginv (g : list N) (m : mp) : Prop :=
  NoDup g /\ match mp_streamed m with Some s => incl g s | None => g = [] end.

Lemma nodup_app {X} (a b : list X) : NoDup a -> NoDup b -> (forall x, In x a -> ~ In x b) -> NoDup (a ++ b).
Proof.
  induction a as [|h t IH]; intros Ha Hb Hd; [assumption|]. cbn [app]. apply NoDup_cons_iff in Ha as [Hn Ha].
  constructor.
  - intros Hin. apply in_app_or in Hin as [Hin|Hin]; [contradiction|]. apply (Hd h); [now left|assumption].
  - apply IH; auto. intros x Hx. apply Hd. now right.
Qed.

Lemma ginv_stream_items g m c : minv m -> ginv g m ->
  ginv (g ++ qids (snd (stream_items c m))) (fst (stream_items c m)).
Proof.
  intros H [G1 G2]. destruct (stream_items_inv c m H) as (_ & S2 & _ & _ & _ & _ & S7).
  destruct (stream_items c m) as [m1 r]. cbn [fst snd] in *.
  pose proof (minv_nodup m H) as Hnd. rewrite S2 in Hnd. unfold qids in Hnd. rewrite map_app in Hnd.
  destruct S7 as [[-> Hst]|(s' & Hst & Hi1 & Hi2)].
  - cbn [qids map]. rewrite app_nil_r. unfold ginv. rewrite Hst. now split.
  - unfold ginv. rewrite Hst. split.
    + apply nodup_app; [assumption|now apply nodup_app_l in Hnd|].
      intros x Hx Hr. destruct (mp_streamed m) as [s|] eqn:Es; [|subst g; contradiction].
      apply (iv_str m H s x Es (G2 x Hx)). rewrite S2. unfold qids. rewrite map_app. apply in_or_app. now left.
    + apply incl_app; [|assumption]. unfold streamed_list in Hi2.
      destruct (mp_streamed m) as [s|]; [|subst g; apply incl_nil_l]. eapply incl_tran; eassumption.
Qed.

Lemma ghost_step_inv g m o : rinv m -> wf_op o -> ginv g m -> ginv (ghost_step g m o) (fst (step m o)).
Proof.
  intros [H Hn] Ho G.
  assert (Hsame : forall m', mp_streamed m' = mp_streamed m -> ginv (g ++ []) m').
  { intros m' E. rewrite app_nil_r. destruct G as [G1 G2]. split; [assumption|now rewrite E]. }
  destruct o as [xs|xs| |t|script| |c|c|xs]; unfold wf_op in Ho; cbn [op_items step ghost_step taken] in *.
  - cbn [fst]. apply Hsame. destruct (add_order false xs m) as (acc & _ & _ & A3 & _). exact A3.
  - cbn [fst]. apply Hsame. apply (remove_inv xs m H Ho).
  - destruct (pop_next_inv m H) as (_ & _ & _ & P4 & _). destruct (pop_next m). cbn [fst] in *. now apply Hsame.
  - destruct (set_min_ts_inv m t H) as (_ & _ & _ & _ & S5 & _). destruct (set_min_ts m t). cbn [fst] in *. now apply Hsame.
  - destruct (top_inv m script H) as (_ & T2 & _). destruct (top m script). cbn [fst] in *. now apply Hsame.
  - cbn [fst set_stream]. split; [constructor|]. cbn. apply incl_nil_l.
  - cbn [fst]. unfold prepare_stream. pose proof (ginv_stream_items g m c H G) as G'.
    destruct (stream_items c m) as [m1 txs]. cbn [fst snd] in *. destruct G' as [G1 G2]. split; [assumption|]. exact G2.
  - unfold stream. destruct (mp_fetched m).
    + cbn [fst]. apply Hsame. reflexivity.
    + pose proof (ginv_stream_items g m c H G) as G'. destruct (stream_items c m) as [m1 txs]. exact G'.
  - destruct (finish_inv m xs H Ho Hn) as (_ & F2 & _). destruct (finish_streaming m xs) as [m' r]. cbn [fst] in *.
    split; [constructor|]. now rewrite F2.
Qed.

Lemma ghost_run_inv : forall ops g m, rinv m -> Forall wf_op ops -> ginv g m ->
  ginv (ghost_run g m ops) (fst (run m ops)).
Proof.
  induction ops as [|o ops IH]; intros g m H Ho G; cbn [ghost_run run]; [assumption|].
  inversion Ho as [|a b Ho1 Ho2]; subst.
  pose proof (step_inv m o H Ho1) as H1. pose proof (ghost_step_inv g m o H Ho1 G) as G1.
  destruct (step m o) as [m1 r]. cbn [fst] in *. specialize (IH _ m1 H1 Ho2 G1).
  destruct (run m1 ops) as [m2 rs]. exact IH.
Qed.

(* a streamed id is refused by add (back or front) *)
Lemma add1_refuses_streamed front m x s : mp_streamed m = Some s -> In (it_id x) s -> add1 front m x = m.
Proof.
  intros Hs Hin. unfold add1. rewrite Hs. now rewrite (proj2 (mem_id_in (it_id x) s) Hin).
Qed.

(* ---------- the statements used by Props/C23.v ---------- *)
Lemma c23_invariant maxsz maxsp ops :
  Forall wf_op ops ->
  let m := fst (run (mp_new maxsz maxsp) ops) in
  NoDup (qids (mp_queue m)) /\
  length (mp_queue m) <= maxsz /\
  (forall s, count_sp (mp_queue m) s <= maxsp) /\
  mp_pending m = sum_size (mp_queue m) /\
  eh_len (mp_eh m) = length (mp_queue m) /\
  (forall id, eh_has (mp_eh m) id = true <-> In id (qids (mp_queue m))).
Proof.
  intros Ho m. destruct (run_inv ops _ (rinv_new maxsz maxsp) Ho) as [H _]. fold m in H.
  destruct (run_limits ops (mp_new maxsz maxsp)) as [L1 L2]. fold m in L1, L2. cbn in L1, L2.
  split; [now apply minv_nodup|]. split; [rewrite <- L1; apply (iv_max m H)|].
  split; [intros s; rewrite <- L2; apply (iv_sp m H)|]. split; [apply (iv_size m H)|].
  split; [now apply minv_len|]. intros id. now apply minv_has.
Qed.

Lemma c23_set_min maxsz maxsp m t : reachable maxsz maxsp m ->
  mp_queue (fst (set_min_ts m t)) = filter (fun y => (t <=? it_exp y)%Z) (mp_queue m) /\
  Permutation (snd (set_min_ts m t)) (filter (fun y => (it_exp y <? t)%Z) (mp_queue m)).
Proof.
  intros Hr. destruct (reachable_inv _ _ m Hr) as [H _].
  destruct (set_min_ts_inv m t H) as (_ & S2 & S3 & _). auto.
Qed.

Lemma c23_order maxsz maxsp m : reachable maxsz maxsp m ->
  (* PopNext / PeekNext: the front of the queue *)
  (snd (pop_next m) = hd_error (mp_queue m) /\ mp_queue (fst (pop_next m)) = tl (mp_queue m) /\
   peek_next m = hd_error (mp_queue m)) /\
  (* Add: accepted items go to the back in argument order *)
  (forall xs, exists acc, sub acc xs /\ mp_queue (add false m xs) = mp_queue m ++ acc) /\
  (* FinishStreaming / Top restore: accepted items go to the front *)
  (forall xs, exists acc, sub acc xs /\ mp_queue (add true m xs) = rev acc ++ mp_queue m) /\
  (* Stream / PrepareStream hand out a prefix of the queue *)
  (forall c, mp_queue m = snd (stream_items c m) ++ mp_queue (fst (stream_items c m)) /\
             length (snd (stream_items c m)) <= c /\
             (length (snd (stream_items c m)) = c \/ mp_queue (fst (stream_items c m)) = [])) /\
  (* Top visits a prefix and restores a subsequence of it in front of the rest *)
  (forall script, exists k acc, snd (top m script) = firstn k (mp_queue m) /\ sub acc (snd (top m script)) /\
             mp_queue (fst (top m script)) = rev acc ++ skipn k (mp_queue m)).
Proof.
  intros Hr. destruct (reachable_inv _ _ m Hr) as [H _].
  split; [|split; [|split; [|split]]].
  - destruct (pop_next_inv m H) as (_ & P2 & P3 & _). auto.
  - intros xs. destruct (add_order false xs m) as (acc & A1 & A2 & _). exists acc. auto.
  - intros xs. destruct (add_order true xs m) as (acc & A1 & A2 & _). exists acc. auto.
  - intros c. destruct (stream_items_inv c m H) as (_ & S2 & S3 & S4 & _). auto.
  - intros script. destruct (top_inv m script H) as (_ & _ & _ & _ & T). exact T.
Qed.

Lemma c23_remove maxsz maxsp m xs : reachable maxsz maxsp m -> Forall wf_item xs ->
  mp_queue (remove m xs) = filter (fun y => negb (mem_id (it_id y) (qids xs))) (mp_queue m).
Proof. intros Hr Hx. destruct (reachable_inv _ _ m Hr) as [H _]. apply (remove_inv xs m H Hx). Qed.

Lemma c23_stream maxsz maxsp ops : Forall wf_op ops ->
  let m := fst (run (mp_new maxsz maxsp) ops) in
  let g := ghost_run [] (mp_new maxsz maxsp) ops in
  NoDup g /\
  (forall id, In id g -> ~ In id (qids (mp_queue m))) /\
  (forall front x, In (it_id x) g -> add1 front m x = m).
Proof.
  intros Ho m g.
  assert (G0 : ginv [] (mp_new maxsz maxsp)) by (split; [constructor|reflexivity]).
  destruct (ghost_run_inv ops [] _ (rinv_new maxsz maxsp) Ho G0) as [G1 G2]. fold m g in G1, G2.
  destruct (run_inv ops _ (rinv_new maxsz maxsp) Ho) as [H _]. fold m in H.
  split; [exact G1|]. destruct (mp_streamed m) as [s|] eqn:Es.
  - split.
    + intros id Hid. apply (iv_str m H s id Es). now apply G2.
    + intros front x Hx. apply (add1_refuses_streamed front m x s Es). now apply G2.
  - rewrite G2. split; intros; contradiction.
Qed.

End Inv.
