(* Proofs about Model/Bond.v: the bonder invariant (pending = sum of recorded fees), the bound by the
   maximum balance, idempotence, release-exactly-once, and settlement through the fdsmr node. *)
From Coq Require Import List NArith ZArith Bool Lia ZifyN ZifyNat ZifyBool.
Import ListNotations.
From HV Require Import Model.Bond.
Local Open Scope N_scope.

Definition keys (l : list (N * N)) : list N := map fst l.

Lemma U64_pos : 0 < U64.
Proof. unfold U64. lia. Qed.

(* ---- association list facts ------------------------------------------------------------- *)

Lemma lookup_none_notin t l : lookup t l = None <-> ~ In t (keys l).
Proof.
  induction l as [|[k v] l IH]; cbn [lookup keys map fst In].
  - tauto.
  - destruct (N.eqb_spec k t) as [E|E].
    + split; [discriminate | intros H; exfalso; apply H; left; exact E].
    + fold (keys l). rewrite IH. tauto.
Qed.

Lemma lookup_some_in t l f : lookup t l = Some f -> In t (keys l).
Proof.
  intros H. destruct (in_dec N.eq_dec t (keys l)) as [I|I]; [exact I|].
  apply lookup_none_notin in I. congruence.
Qed.

Lemma in_lookup_some t l : In t (keys l) -> exists f, lookup t l = Some f.
Proof.
  intros H. destruct (lookup t l) as [f|] eqn:E; [eauto|].
  apply lookup_none_notin in E. contradiction.
Qed.

Lemma keys_remove_sub k t l : In k (keys (remove_key t l)) -> In k (keys l).
Proof.
  induction l as [|[k' v] l IH]; cbn [remove_key keys map fst In]; [tauto|].
  destruct (k' =? t); cbn [keys map fst In]; fold (keys l); fold (keys (remove_key t l)); tauto.
Qed.

Lemma NoDup_remove t l : NoDup (keys l) -> NoDup (keys (remove_key t l)).
Proof.
  induction l as [|[k v] l IH]; cbn [remove_key keys map fst]; intros H; [constructor|].
  fold (keys l) in H. inversion H as [|x xs Hnin Hnd]; subst.
  destruct (k =? t); [exact Hnd|].
  cbn [keys map fst]. fold (keys (remove_key t l)). constructor.
  - intros Hin. apply Hnin. eapply keys_remove_sub; exact Hin.
  - apply IH; exact Hnd.
Qed.

Lemma lookup_remove_same t l : NoDup (keys l) -> lookup t (remove_key t l) = None.
Proof.
  induction l as [|[k v] l IH]; cbn [remove_key keys map fst lookup]; intros H; [reflexivity|].
  fold (keys l) in H. inversion H as [|x xs Hnin Hnd]; subst.
  destruct (N.eqb_spec k t) as [E|E].
  - subst k. apply lookup_none_notin; exact Hnin.
  - cbn [lookup]. destruct (N.eqb_spec k t) as [E'|_]; [contradiction|]. apply IH; exact Hnd.
Qed.

Lemma lookup_remove_other k t l : k <> t -> lookup k (remove_key t l) = lookup k l.
Proof.
  intros Hne. induction l as [|[k' v] l IH]; cbn [remove_key lookup]; [reflexivity|].
  destruct (N.eqb_spec k' t) as [E|E].
  - subst k'. destruct (N.eqb_spec t k) as [E'|_]; [congruence|reflexivity].
  - cbn [lookup]. rewrite IH. reflexivity.
Qed.

Lemma sum_for_remove info a t f l :
  lookup t l = Some f ->
  sum_for info a l = (if tx_sponsor (info t) =? a then f else 0) + sum_for info a (remove_key t l).
Proof.
  induction l as [|[k v] l IH]; cbn [lookup remove_key sum_for]; [discriminate|].
  destruct (N.eqb_spec k t) as [E|E]; intros H.
  - subst k. injection H as ->. reflexivity.
  - cbn [sum_for]. rewrite (IH H). lia.
Qed.

Lemma sub_wrap p fee : fee <= p -> p < U64 -> (p + U64 - fee) mod U64 = p - fee.
Proof.
  intros H1 H2. replace (p + U64 - fee) with ((p - fee) + 1 * U64) by lia.
  rewrite N.mod_add by (pose proof U64_pos; lia). apply N.mod_small. lia.
Qed.

(* ---- the bonder invariant --------------------------------------------------------------- *)

Definition binv (info : table) (s : bst) : Prop :=
  NoDup (keys (b_recs s)) /\
  forall a, b_pend s a = sum_for info a (b_recs s) /\ b_pend s a < U64.

Lemma binv_init info : binv info b_init.
Proof. split; [constructor|]. intros a. cbn. pose proof U64_pos. lia. Qed.

Lemma binv_set_max info s a m : binv info s -> binv info (set_max s a m).
Proof. intros H. exact H. Qed.

(* every outcome of Bond *)
Lemma bond_cases info s t rate ge b' r :
  bond info s t rate ge = (b', r) ->
  (b' = s /\ (r = BOk -> exists f, lookup t (b_recs s) = Some f)) \/
  (r = BOk /\ lookup t (b_recs s) = None /\ ge = false /\
   let a := tx_sponsor (info t) in
   let fee := tx_size (info t) * rate in
   b' = mkB (upd (b_pend s) a (b_pend s a + fee)) ((t, fee) :: b_recs s) (b_max s) /\
   b_pend s a + fee < U64 /\ b_pend s a + fee <= b_max s a).
Proof.
  unfold bond. destruct (lookup t (b_recs s)) as [f|] eqn:EL.
  - intros H; injection H as <- <-. left. split; [reflexivity|]. intros _. eauto.
  - destruct ge.
    + intros H; injection H as <- <-. left. split; [reflexivity | discriminate].
    + destruct (U64 <=? tx_size (info t) * rate) eqn:E1.
      { intros H; injection H as <- <-. left. split; [reflexivity | discriminate]. }
      destruct (U64 <=? b_pend s (tx_sponsor (info t)) + tx_size (info t) * rate) eqn:E2.
      { intros H; injection H as <- <-. left. split; [reflexivity | discriminate]. }
      destruct (b_max s (tx_sponsor (info t)) <? b_pend s (tx_sponsor (info t)) + tx_size (info t) * rate) eqn:E3.
      { intros H; injection H as <- <-. left. split; [reflexivity | discriminate]. }
      intros H; injection H as <- <-. right.
      repeat split; try reflexivity; lia.
Qed.

Lemma binv_bond info s t rate ge : binv info s -> binv info (fst (bond info s t rate ge)).
Proof.
  intros [Hnd Hs]. destruct (bond info s t rate ge) as [b' r] eqn:E. cbn [fst].
  apply bond_cases in E. destruct E as [[-> _]|(_ & Hnone & _ & Hb & Hlt & _)]; [split; assumption|].
  cbv zeta in Hb, Hlt. subst b'. split; cbn [b_recs b_pend keys map fst].
  - fold (keys (b_recs s)). constructor; [apply lookup_none_notin; exact Hnone | exact Hnd].
  - intros a. cbn [sum_for]. unfold upd. destruct (Hs a) as [Hsum Hb]. destruct (Hs (tx_sponsor (info t))) as [Hsum' _].
    destruct (N.eqb_spec a (tx_sponsor (info t))) as [Ea|Ea].
    + subst a. rewrite N.eqb_refl. lia.
    + destruct (N.eqb_spec (tx_sponsor (info t)) a) as [Ea'|_]; [congruence|]. lia.
Qed.

Lemma unbond_recorded info s t fee :
  binv info s -> lookup t (b_recs s) = Some fee ->
  fee <= b_pend s (tx_sponsor (info t)) /\
  unbond info s t = mkB (upd (b_pend s) (tx_sponsor (info t)) (b_pend s (tx_sponsor (info t)) - fee))
                        (remove_key t (b_recs s)) (b_max s).
Proof.
  intros [Hnd Hs] HL. destruct (Hs (tx_sponsor (info t))) as [Hsum Hlt].
  pose proof (sum_for_remove info (tx_sponsor (info t)) t fee _ HL) as HR. rewrite N.eqb_refl in HR.
  assert (Hle : fee <= b_pend s (tx_sponsor (info t))) by lia. split; [exact Hle|].
  unfold unbond. rewrite HL. rewrite sub_wrap by assumption. reflexivity.
Qed.

Lemma unbond_unrecorded info s t : lookup t (b_recs s) = None -> unbond info s t = s.
Proof. intros H. unfold unbond. rewrite H. reflexivity. Qed.

Lemma binv_unbond info s t : binv info s -> binv info (unbond info s t).
Proof.
  intros Hinv. destruct (lookup t (b_recs s)) as [fee|] eqn:HL.
  - destruct (unbond_recorded info s t fee Hinv HL) as [Hle ->]. destruct Hinv as [Hnd Hs].
    split; cbn [b_recs b_pend].
    + apply NoDup_remove; exact Hnd.
    + intros a. destruct (Hs a) as [Hsum Hlt]. pose proof (sum_for_remove info a t fee _ HL) as HR.
      unfold upd. destruct (N.eqb_spec a (tx_sponsor (info t))) as [Ea|Ea].
      * subst a. rewrite N.eqb_refl in HR. lia.
      * destruct (N.eqb_spec (tx_sponsor (info t)) a) as [Ea'|_]; [congruence|]. lia.
  - rewrite unbond_unrecorded by exact HL. exact Hinv.
Qed.

Lemma unbond_keys_sub info s t k : In k (keys (b_recs (unbond info s t))) -> In k (keys (b_recs s)).
Proof.
  unfold unbond. destruct (lookup t (b_recs s)); cbn [b_recs]; [apply keys_remove_sub | tauto].
Qed.

Lemma unbond_removes info s t : binv info s -> ~ In t (keys (b_recs (unbond info s t))).
Proof.
  intros [Hnd _]. apply lookup_none_notin. unfold unbond.
  destruct (lookup t (b_recs s)) eqn:HL; cbn [b_recs]; [apply lookup_remove_same; exact Hnd | exact HL].
Qed.

Lemma unbond_max info s t : b_max (unbond info s t) = b_max s.
Proof. unfold unbond. destruct (lookup t (b_recs s)); reflexivity. Qed.

Lemma unbond_pend_le info s t a : binv info s -> b_pend (unbond info s t) a <= b_pend s a.
Proof.
  intros Hinv. destruct (lookup t (b_recs s)) as [fee|] eqn:HL.
  - destruct (unbond_recorded info s t fee Hinv HL) as [Hle ->]. cbn [b_pend]. unfold upd.
    destruct (N.eqb_spec a (tx_sponsor (info t))) as [->|_]; lia.
  - rewrite unbond_unrecorded by exact HL. lia.
Qed.

(* conditional unbond as used by the accepted-chunks loop; [h = None]: unconditional *)
Definition cunbond (info : table) (h : option (list N)) (b : bst) (t : N) : bst :=
  match h with
  | None => unbond info b t
  | Some heap => if memN t heap then unbond info b t else b
  end.

Definition wants (h : option (list N)) (t : N) : bool :=
  match h with None => true | Some heap => memN t heap end.

Lemma cunbond_binv info h b t : binv info b -> binv info (cunbond info h b t).
Proof. intros H. unfold cunbond. destruct h as [heap|]; [destruct (memN t heap)|]; try apply binv_unbond; exact H. Qed.

Lemma cunbond_keys_sub info h b t k : In k (keys (b_recs (cunbond info h b t))) -> In k (keys (b_recs b)).
Proof. unfold cunbond. destruct h as [heap|]; [destruct (memN t heap)|]; try apply unbond_keys_sub; tauto. Qed.

Lemma cunbond_max info h b t : b_max (cunbond info h b t) = b_max b.
Proof. unfold cunbond. destruct h as [heap|]; [destruct (memN t heap)|]; try apply unbond_max; reflexivity. Qed.

Lemma cunbond_pend_le info h b t a : binv info b -> b_pend (cunbond info h b t) a <= b_pend b a.
Proof. intros H. unfold cunbond. destruct h as [heap|]; [destruct (memN t heap)|]; try (apply unbond_pend_le; exact H); lia. Qed.

Lemma fold_cunbond info h l : forall b, binv info b ->
  let b' := fold_left (cunbond info h) l b in
  binv info b' /\ b_max b' = b_max b /\
  (forall k, In k (keys (b_recs b')) -> In k (keys (b_recs b))) /\
  (forall a, b_pend b' a <= b_pend b a) /\
  (forall t, In t l -> wants h t = true -> ~ In t (keys (b_recs b'))).
Proof.
  induction l as [|x l IH]; intros b Hb; cbn [fold_left].
  - cbv zeta. split; [exact Hb|]. split; [reflexivity|]. split; [tauto|]. split; [intros a; lia|]. intros t [].
  - pose proof (cunbond_binv info h b x Hb) as Hb1.
    destruct (IH _ Hb1) as (I1 & I2 & I3 & I4 & I5). cbv zeta.
    split; [exact I1|]. split; [rewrite I2; apply cunbond_max|].
    split; [intros k Hk; eapply cunbond_keys_sub; apply I3; exact Hk|].
    split; [intros a; specialize (I4 a); pose proof (cunbond_pend_le info h b x a Hb); lia|].
    intros t [->|Hin] Hw.
    + intros Hk. apply I3 in Hk. revert Hk. unfold cunbond, wants in *.
      destruct h as [heap|]; [rewrite Hw|]; apply unbond_removes; exact Hb.
    + apply I5; assumption.
Qed.

(* ---- the node --------------------------------------------------------------------------- *)

Lemma memN_In t l : memN t l = true <-> In t l.
Proof.
  unfold memN. rewrite existsb_exists. split.
  - intros (x & Hx & E). apply N.eqb_eq in E. subst; exact Hx.
  - intros H. exists t. split; [exact H | apply N.eqb_refl].
Qed.

Lemma heap_add_in t h : In t (heap_add t h).
Proof. unfold heap_add. destruct (memN t h) eqn:E; [apply memN_In; exact E | left; reflexivity]. Qed.

Lemma heap_add_keep t h x : In x h -> In x (heap_add t h).
Proof. unfold heap_add. destruct (memN t h); [tauto | right; assumption]. Qed.

(* all three invariants of a node state:
   bonder invariant, every recorded tx is in the expiry heap, pending <= max *)
Definition hinv (s : nst) : Prop := forall t, In t (keys (b_recs (n_b s))) -> In t (n_heap s).
Definition minv (s : nst) : Prop := forall a, b_pend (n_b s) a <= b_max (n_b s) a.

Lemma bond_minv info b t rate ge :
  (forall a, b_pend b a <= b_max b a) ->
  forall a, b_pend (fst (bond info b t rate ge)) a <= b_max (fst (bond info b t rate ge)) a.
Proof.
  intros H a. destruct (bond info b t rate ge) as [b' r] eqn:E. cbn [fst].
  apply bond_cases in E. destruct E as [[-> _]|(_ & _ & _ & Hb & _ & Hle)]; [apply H|].
  cbv zeta in Hb, Hle. subst b'. cbn [b_pend b_max]. unfold upd.
  destruct (N.eqb_spec a (tx_sponsor (info t))) as [->|_]; [exact Hle | apply H].
Qed.

Lemma bond_ok_recorded info b t rate ge :
  snd (bond info b t rate ge) = BOk -> In t (keys (b_recs (fst (bond info b t rate ge)))).
Proof.
  destruct (bond info b t rate ge) as [b' r] eqn:E. cbn [fst snd]. intros ->.
  apply bond_cases in E. destruct E as [[-> Hf]|(_ & _ & _ & Hb & _)].
  - destruct (Hf eq_refl) as [f Hf']. eapply lookup_some_in; exact Hf'.
  - cbv zeta in Hb. subst b'. cbn [b_recs keys map fst]. left; reflexivity.
Qed.

Lemma bond_keys info b t rate ge k :
  In k (keys (b_recs (fst (bond info b t rate ge)))) -> k = t \/ In k (keys (b_recs b)).
Proof.
  destruct (bond info b t rate ge) as [b' r] eqn:E. cbn [fst].
  apply bond_cases in E. destruct E as [[-> _]|(_ & _ & _ & Hb & _)]; [tauto|].
  cbv zeta in Hb. subst b'. cbn [b_recs keys map fst In]. intros [H|H]; [left; congruence | right; exact H].
Qed.

Lemma bond_failed_same info s t rate ge :
  snd (bond info s t rate ge) <> BOk -> fst (bond info s t rate ge) = s.
Proof.
  destruct (bond info s t rate ge) as [b' r] eqn:E. cbn [fst snd]. intros Hr.
  apply bond_cases in E. destruct E as [[-> _]|(-> & _)]; [reflexivity | congruence].
Qed.

Lemma build_loop_inv info txs rate ge : forall s bonded,
  binv info (n_b s) ->
  let s' := fst (fst (build_loop info s txs rate ge bonded)) in
  binv info (n_b s') /\ (hinv s -> hinv s') /\ (minv s -> minv s').
Proof.
  induction txs as [|t r IH]; intros s bonded Hb; cbn [build_loop].
  - cbn [fst]. tauto.
  - pose proof (binv_bond info (n_b s) t rate ge Hb) as Hb1.
    pose proof (bond_minv info (n_b s) t rate ge) as Hm1.
    pose proof (bond_keys info (n_b s) t rate ge) as Hkeys.
    pose proof (bond_failed_same info (n_b s) t rate ge) as Hsame.
    destruct (bond info (n_b s) t rate ge) as [b' res]. cbn [fst snd] in *.
    destruct res.
    + specialize (IH (mkN b' (heap_add t (n_heap s))) (bonded ++ [t]) Hb1). cbv zeta in IH.
      destruct IH as (I1 & I2 & I3). cbv zeta. split; [exact I1 | split].
      * intros Hh. apply I2. intros k Hk. cbn [n_b n_heap] in *. destruct (Hkeys k Hk) as [->|Hk'].
        -- apply heap_add_in.
        -- apply heap_add_keep. apply Hh. exact Hk'.
      * intros Hm. apply I3. intros a. cbn [n_b]. apply Hm1. exact Hm.
    + assert (Hs : b' = n_b s) by (apply Hsame; discriminate). subst b'.
      specialize (IH (mkN (n_b s) (n_heap s)) bonded Hb1). cbv zeta in IH.
      destruct IH as (I1 & I2 & I3). cbv zeta. split; [exact I1 | split].
      * intros Hh. apply I2. exact Hh.
      * intros Hm. apply I3. exact Hm.
    + assert (Hs : b' = n_b s) by (apply Hsame; discriminate). subst b'.
      cbn [fst n_b n_heap]. split; [exact Hb1 | split]; intros H; exact H.
Qed.

Lemma accept_inv info s ts chunks de :
  binv info (n_b s) ->
  let s' := fst (accept info s ts chunks de) in
  binv info (n_b s') /\ (minv s -> minv s') /\
  (hinv s -> hinv s' /\
     (de = false -> forall t, In t (keys (b_recs (n_b s'))) ->
        expired info ts t = false /\ ~ In t (concat chunks))).
Proof.
  intros Hb. unfold accept. destruct de; cbn [fst].
  { split; [exact Hb|]. split; [tauto|]. intros Hh. split; [exact Hh | discriminate]. }
  set (exp := filter (expired info ts) (n_heap s)).
  set (heap' := filter (fun t => negb (expired info ts t)) (n_heap s)).
  change (fold_left (unbond info) exp (n_b s)) with (fold_left (cunbond info None) exp (n_b s)).
  set (b1 := fold_left (cunbond info None) exp (n_b s)).
  change (fold_left (fun b t => if memN t heap' then unbond info b t else b) (concat chunks) b1)
    with (fold_left (cunbond info (Some heap')) (concat chunks) b1).
  set (b2 := fold_left (cunbond info (Some heap')) (concat chunks) b1).
  destruct (fold_cunbond info None exp (n_b s) Hb) as (A1 & A2 & A3 & A4 & A5). fold b1 in A1, A2, A3, A4, A5.
  destruct (fold_cunbond info (Some heap') (concat chunks) b1 A1) as (B1 & B2 & B3 & B4 & B5).
  fold b2 in B1, B2, B3, B4, B5. cbn [n_b n_heap].
  split; [exact B1|]. split.
  - intros Hm a. cbn [n_b]. specialize (Hm a). specialize (A4 a). specialize (B4 a). rewrite B2, A2. lia.
  - intros Hh.
    assert (Hkey : forall t, In t (keys (b_recs b2)) ->
              In t heap' /\ expired info ts t = false /\ ~ In t (concat chunks)).
    { intros t Ht. pose proof (B3 t Ht) as Ht1. pose proof (A3 t Ht1) as Ht0. pose proof (Hh t Ht0) as Hheap.
      destruct (expired info ts t) eqn:Ex.
      - exfalso. apply (A5 t); [apply filter_In; split; assumption | reflexivity | exact Ht1].
      - assert (Hin' : In t heap') by (apply filter_In; split; [exact Hheap | rewrite Ex; reflexivity]).
        split; [exact Hin'|]. split; [reflexivity|]. intros Hc.
        apply (B5 t Hc); [cbn [wants]; apply memN_In; exact Hin' | exact Ht]. }
    split.
    + intros t Ht. cbn [n_b n_heap] in *. apply Hkey; exact Ht.
    + intros _ t Ht. apply Hkey; exact Ht.
Qed.

(* ---- steps and histories ---------------------------------------------------------------- *)

Definition no_direct_bond (o : op) : Prop := match o with OBond _ _ _ => False | _ => True end.

(* a SetMaxBalance that does not lower the maximum under the current pending balance *)
Definition op_ok (s : nst) (o : op) : Prop :=
  match o with OSetMax a m => b_pend (n_b s) a <= m | _ => True end.

Fixpoint hist_ok (info : table) (s : nst) (ops : list op) : Prop :=
  match ops with
  | [] => True
  | o :: r => op_ok s o /\ hist_ok info (fst (step info s o)) r
  end.

Lemma step_build_fst info s txs rate ge de :
  fst (step info s (OBuild txs rate ge de)) = fst (fst (build_loop info s txs rate ge [])).
Proof.
  cbn [step]. unfold build_chunk. destruct (build_loop info s txs rate ge []) as [[s1 bd] err].
  destruct err; reflexivity.
Qed.

Lemma step_accept_fst info s ts chunks de :
  fst (step info s (OAccept ts chunks de)) = fst (accept info s ts chunks de).
Proof. cbn [step]. destruct (accept info s ts chunks de) as [s1 rc]. reflexivity. Qed.

Lemma step_bond_fst info s t rate ge :
  fst (step info s (OBond t rate ge)) = mkN (fst (bond info (n_b s) t rate ge)) (n_heap s).
Proof. cbn [step]. destruct (bond info (n_b s) t rate ge) as [b' r]. reflexivity. Qed.

Lemma step_inv info s o :
  binv info (n_b s) ->
  let s' := fst (step info s o) in
  binv info (n_b s') /\ (no_direct_bond o -> hinv s -> hinv s') /\ (op_ok s o -> minv s -> minv s').
Proof.
  intros Hb. destruct o as [a m|t rate ge|t|txs rate ge de|ts chunks de]; cbv zeta.
  - cbn [step fst n_b n_heap]. split; [exact Hb|]. split; [intros _ Hh; exact Hh|].
    intros Hok Hm x. cbn [n_b set_max b_pend b_max]. unfold upd. cbn [op_ok] in Hok.
    destruct (N.eqb_spec x a) as [->|_]; [exact Hok | apply Hm].
  - rewrite step_bond_fst. cbn [n_b n_heap]. split; [apply binv_bond; exact Hb|].
    split; [intros []|]. intros _ Hm. intros a. cbn [n_b]. apply bond_minv. exact Hm.
  - cbn [step fst n_b n_heap]. split; [apply binv_unbond; exact Hb|]. split.
    + intros _ Hh k Hk. cbn [n_b n_heap] in *. apply Hh. eapply unbond_keys_sub; exact Hk.
    + intros _ Hm a. cbn [n_b]. rewrite unbond_max. pose proof (unbond_pend_le info (n_b s) t a Hb).
      specialize (Hm a). lia.
  - rewrite step_build_fst. destruct (build_loop_inv info txs rate ge s [] Hb) as (I1 & I2 & I3).
    split; [exact I1|]. split; [intros _; exact I2 | intros _; exact I3].
  - rewrite step_accept_fst. destruct (accept_inv info s ts chunks de Hb) as (I1 & I2 & I3).
    split; [exact I1|]. split; [intros _ Hh; apply I3; exact Hh | intros _; exact I2].
Qed.

Lemma run_cons info s o r : run info s (o :: r) = run info (fst (step info s o)) r.
Proof. reflexivity. Qed.

Lemma run_inv info ops : forall s,
  binv info (n_b s) ->
  binv info (n_b (run info s ops)) /\
  (Forall no_direct_bond ops -> hinv s -> hinv (run info s ops)) /\
  (hist_ok info s ops -> minv s -> minv (run info s ops)).
Proof.
  induction ops as [|o r IH]; intros s Hb.
  - cbn. tauto.
  - rewrite run_cons. destruct (step_inv info s o Hb) as (S1 & S2 & S3).
    destruct (IH _ S1) as (I1 & I2 & I3). split; [exact I1|]. split.
    + intros HF Hh. inversion HF as [|x xs Hx Hxs]; subst. apply I2; [exact Hxs | apply S2; assumption].
    + intros [Hok Hrest] Hm. apply I3; [exact Hrest | apply S3; assumption].
Qed.

Lemma n_init_inv info : binv info (n_b n_init) /\ hinv n_init /\ minv n_init.
Proof.
  split; [apply binv_init|]. split.
  - intros t [].
  - intros a. cbn. lia.
Qed.

(* ---- statements used by Props/C38.v ----------------------------------------------------- *)

Lemma pending_is_sum info ops a :
  let b := n_b (run info n_init ops) in
  b_pend b a = sum_for info a (b_recs b) /\ NoDup (keys (b_recs b)) /\ b_pend b a < U64.
Proof.
  destruct (run_inv info ops n_init (binv_init info)) as ([Hnd Hs] & _). cbv zeta.
  destruct (Hs a) as [H1 H2]. tauto.
Qed.

Lemma pending_le_max info ops a :
  hist_ok info n_init ops ->
  let b := n_b (run info n_init ops) in b_pend b a <= b_max b a.
Proof.
  intros H. destruct (run_inv info ops n_init (binv_init info)) as (_ & _ & Hm).
  cbv zeta. exact (Hm H (proj2 (proj2 (n_init_inv info))) a).
Qed.

Lemma bond_admits_within_max info s t rate ge :
  lookup t (b_recs s) = None -> snd (bond info s t rate ge) = BOk ->
  let s' := fst (bond info s t rate ge) in
  let a := tx_sponsor (info t) in
  lookup t (b_recs s') = Some (tx_size (info t) * rate) /\
  b_pend s' a = b_pend s a + tx_size (info t) * rate /\
  b_pend s' a <= b_max s' a.
Proof.
  intros Hnone. destruct (bond info s t rate ge) as [b' r] eqn:E. cbn [fst snd]. intros ->.
  apply bond_cases in E. destruct E as [[_ Hf]|(_ & _ & _ & Hb & _ & Hle)].
  - destruct (Hf eq_refl) as [f Hf']. congruence.
  - cbv zeta in *. subst b'. cbn [b_recs b_pend b_max lookup]. rewrite N.eqb_refl. unfold upd. rewrite N.eqb_refl.
    split; [reflexivity|]. split; [reflexivity | exact Hle].
Qed.

Lemma bond_idempotent info s t rate ge f :
  lookup t (b_recs s) = Some f -> bond info s t rate ge = (s, BOk).
Proof. intros H. unfold bond. rewrite H. reflexivity. Qed.

Lemma bond_twice info s t rate ge rate' ge' :
  snd (bond info s t rate ge) = BOk ->
  bond info (fst (bond info s t rate ge)) t rate' ge' = (fst (bond info s t rate ge), BOk).
Proof.
  intros H. pose proof (bond_ok_recorded info s t rate ge H) as Hin.
  apply in_lookup_some in Hin. destruct Hin as [f Hf]. eapply bond_idempotent; exact Hf.
Qed.

Lemma unbond_exactly_once info ops t fee :
  let b := n_b (run info n_init ops) in
  lookup t (b_recs b) = Some fee ->
  let a := tx_sponsor (info t) in
  let b' := unbond info b t in
  fee <= b_pend b a /\
  b_pend b' a = b_pend b a - fee /\
  (forall a', a' <> a -> b_pend b' a' = b_pend b a') /\
  lookup t (b_recs b') = None /\
  (forall k, k <> t -> lookup k (b_recs b') = lookup k (b_recs b)) /\
  unbond info b' t = b'.
Proof.
  cbv zeta. intros HL.
  destruct (run_inv info ops n_init (binv_init info)) as (Hb & _).
  destruct (unbond_recorded info _ t fee Hb HL) as [Hle Heq]. rewrite Heq. cbn [b_pend b_recs].
  assert (Hnone : lookup t (remove_key t (b_recs (n_b (run info n_init ops)))) = None)
    by (apply lookup_remove_same; apply Hb).
  split; [exact Hle|]. split; [unfold upd; rewrite N.eqb_refl; reflexivity|].
  split; [intros a' Ha; unfold upd; destruct (N.eqb_spec a' (tx_sponsor (info t))); [contradiction|reflexivity]|].
  split; [exact Hnone|]. split; [intros k Hk; apply lookup_remove_other; exact Hk|].
  apply unbond_unrecorded. exact Hnone.
Qed.

Lemma unbond_unbonded_noop info s t : lookup t (b_recs s) = None -> unbond info s t = s.
Proof. apply unbond_unrecorded. Qed.

(* node level: after a successful Accept no recorded tx is expired or accepted *)
Lemma accept_settles info ops ts chunks :
  Forall no_direct_bond ops ->
  let s := run info n_init ops in
  let s' := fst (accept info s ts chunks false) in
  (forall t, In t (keys (b_recs (n_b s'))) ->
     In t (n_heap s) /\ (tx_expiry (info t) >= ts)%Z /\ ~ In t (concat chunks)) /\
  ((forall t, In t (n_heap s) -> (tx_expiry (info t) < ts)%Z \/ In t (concat chunks)) ->
   b_recs (n_b s') = [] /\ forall a, b_pend (n_b s') a = 0).
Proof.
  intros HF. cbv zeta.
  destruct (run_inv info ops n_init (binv_init info)) as (Hb & Hh & _).
  specialize (Hh HF (proj1 (proj2 (n_init_inv info)))).
  destruct (accept_inv info _ ts chunks false Hb) as (B1 & _ & B3).
  destruct (B3 Hh) as [Hh' Hset]. specialize (Hset eq_refl).
  assert (Hsub : forall t, In t (keys (b_recs (n_b (fst (accept info (run info n_init ops) ts chunks false))))) ->
                 In t (n_heap (run info n_init ops))).
  { intros t Ht. apply Hh' in Ht. unfold accept in Ht. cbn [fst n_heap] in Ht. apply filter_In in Ht. tauto. }
  split.
  - intros t Ht. destruct (Hset t Ht) as [Hex Hnc]. split; [apply Hsub; exact Ht|].
    split; [unfold expired in Hex; lia | exact Hnc].
  - intros Hall.
    assert (Hnil : b_recs (n_b (fst (accept info (run info n_init ops) ts chunks false))) = []).
    { destruct (b_recs (n_b (fst (accept info (run info n_init ops) ts chunks false)))) as [|[t f] l] eqn:E; [reflexivity|].
      exfalso. assert (Ht : In t (keys ((t, f) :: l))) by (left; reflexivity).
      destruct (Hset t Ht) as [Hex Hnc]. destruct (Hall t (Hsub t Ht)) as [H|H]; [unfold expired in Hex; lia | contradiction]. }
    split; [exact Hnil|]. intros a. destruct B1 as [_ Hs]. destruct (Hs a) as [Hsum _]. rewrite Hsum, Hnil. reflexivity.
Qed.
