(* Proofs about Model/Genesis.v (chain/genesis.go:NewGenesisCommit + genesis/genesis.go:InitializeState).

   Main result: [genesis_state_char], a COMPLETE characterisation of the model of NewGenesisCommit:

     genesis_state mk min_price allocs =
       if genesis_ok mk min_price allocs then Some (genesis_map mk min_price allocs) else None

   where [genesis_ok] says: the total of all allocations fits in a uint64 and every key written can hold
   its value (keys.VerifyValue), and [genesis_map] is the explicitly constructed map
     { balance key k of a listed address |-> be64 (sum of the allocations of k) }
     overridden by { height |-> be64 0, timestamp |-> be64 0, fee |-> encode (genesis_manager min_price) }.
   Everything in Props/C27.v is a corollary. *)
From stdpp Require Import gmap.
From Coq Require Import NArith ZArith Lia ZifyN ZifyNat ZifyBool.
From HV Require Import Lib.Bytes Lib.U64 Model.Keys Model.Tstate Model.Fees Model.Chain Model.Genesis
                       Proofs.Tstate_proofs Proofs.Fees_proofs.
Local Open Scope N_scope.

(* ------------------------------------------------------------------ the specification side *)

(* per-address sum, as in Check/C27_check.v *)
Fixpoint sum_for (k : key) (allocs : list (key * N)) : N :=
  match allocs with
  | [] => 0
  | (k', b) :: rest => (if bytes_eqb k k' then b else 0) + sum_for k rest
  end.

Definition total (allocs : list (key * N)) : N := fold_right N.add 0 (map snd allocs).

Definition mentioned (k : key) (allocs : list (key * N)) : bool :=
  existsb (fun a => bytes_eqb k (fst a)) allocs.

(* keys.VerifyValue for an 8-byte value *)
Definition key_ok (k : key) : bool := verify_value_len k 8.

Definition genesis_ok (mk : meta_keys) (min_price : dims) (allocs : list (key * N)) : bool :=
  (total allocs <=? MaxU64)
  && forallb (fun a => key_ok (fst a)) allocs
  && key_ok (mk_height mk) && key_ok (mk_ts mk)
  && verify_value (mk_fee mk) (encode (genesis_manager min_price)).

(* value of key k in the genesis state: the metadata keys are written last *)
Definition genesis_spec (mk : meta_keys) (min_price : dims) (allocs : list (key * N)) (k : key) : option val :=
  if bytes_eqb k (mk_fee mk) then Some (encode (genesis_manager min_price))
  else if bytes_eqb k (mk_ts mk) then Some (be64 0)
  else if bytes_eqb k (mk_height mk) then Some (be64 0)
  else if mentioned k allocs then Some (be64 (sum_for k allocs))
  else None.

(* the same as an explicit finite map (the committed diff: Some v = "k holds v") *)
Definition alloc_map (allocs : list (key * N)) : gmap key (option val) :=
  list_to_map (map (fun a => (fst a, Some (be64 (sum_for (fst a) allocs)))) allocs).

Definition genesis_map (mk : meta_keys) (min_price : dims) (allocs : list (key * N)) : gmap key (option val) :=
  <[mk_fee mk := Some (encode (genesis_manager min_price))]>
    (<[mk_ts mk := Some (be64 0)]>
      (<[mk_height mk := Some (be64 0)]> (alloc_map allocs))).

(* ------------------------------------------------------------------ list facts *)

Lemma total_app a b : total (a ++ b) = total a + total b.
Proof. unfold total. induction a as [|[k x] a IH]; cbn [app map fold_right]; [reflexivity|]. rewrite IH. lia. Qed.

Lemma total_fold_left allocs : fold_left N.add (map snd allocs) 0 = total allocs.
Proof.
  unfold total. generalize (map snd allocs). intros l.
  assert (H : forall acc, fold_left N.add l acc = acc + fold_right N.add 0 l).
  { induction l as [|x l IH]; intros acc; cbn [fold_left fold_right]; [lia|]. rewrite IH. lia. }
  rewrite H. lia.
Qed.

Lemma sum_for_app k a b : sum_for k (a ++ b) = sum_for k a + sum_for k b.
Proof. induction a as [|[k' x] a IH]; cbn [app sum_for]; [reflexivity|]. rewrite IH. lia. Qed.

Lemma mentioned_app k a b : mentioned k (a ++ b) = mentioned k a || mentioned k b.
Proof. unfold mentioned. apply existsb_app. Qed.

Lemma sum_for_le_total k allocs : sum_for k allocs <= total allocs.
Proof.
  unfold total. induction allocs as [|[k' x] a IH]; cbn [sum_for map fold_right snd]; [lia|].
  destruct (bytes_eqb k k'); lia.
Qed.

Lemma sum_for_not_mentioned k allocs : mentioned k allocs = false -> sum_for k allocs = 0.
Proof.
  unfold mentioned. induction allocs as [|[k' x] a IH]; cbn [sum_for existsb fst]; [reflexivity|].
  intros H. apply orb_false_iff in H. destruct H as [H1 H2]. rewrite H1, (IH H2). reflexivity.
Qed.

Lemma mentioned_In k allocs : mentioned k allocs = true <-> In k (map fst allocs).
Proof.
  unfold mentioned. rewrite existsb_exists. split.
  - intros [a [Ha He]]. apply bytes_eqb_eq in He. subst k. apply in_map, Ha.
  - intros H. apply in_map_iff in H. destruct H as [a [<- Ha]]. exists a. split; [exact Ha | apply bytes_eqb_refl].
Qed.

(* ------------------------------------------------------------------ the view during genesis *)

Definition ginv (s : view) : Prop :=
  view_ok s /\ v_ts s = ts_new /\ v_base s = ∅ /\ v_scope s = ScopeAll.

Definition vis_spec (s : view) (done : list (key * N)) : Prop :=
  forall k, vis s k = if mentioned k done then Some (be64 (sum_for k done)) else None.

Lemma ginv_new : ginv (new_view ts_new ScopeAll ∅).
Proof. split; [apply view_ok_new | auto]. Qed.

Lemma check_all s k p : v_scope s = ScopeAll -> check s k p = true.
Proof. intros H. unfold check. rewrite H. reflexivity. Qed.

Lemma get_all s k : v_scope s = ScopeAll ->
  get s k = match vis s k with Some v => inl v | None => inr ENotFound end.
Proof. intros H. unfold get. rewrite (check_all s k pRead H). reflexivity. Qed.

Lemma ginv_under s k : ginv s -> under s k = None.
Proof.
  intros (_ & Hts & Hb & _). unfold under, under_of. rewrite Hts, Hb. cbn [ts_changed ts_new].
  rewrite lookup_empty. apply lookup_empty.
Qed.

Lemma verify_be64 k n : verify_value k (be64 n) = key_ok k.
Proof. unfold verify_value, key_ok, blenZ. rewrite be64_length. reflexivity. Qed.

(* Insert through a complete-permissions view: fails exactly on the key/value size rule *)
Lemma insert_all s k v : ginv s ->
  if verify_value k v
  then exists s', insert s k v = (s', None) /\ ginv s' /\ vis s' k = Some v
                  /\ (forall k', k <> k' -> vis s' k' = vis s k')
  else insert s k v = (s, Some EValue).
Proof.
  intros (Hok & Hts & Hb & Hsc). destruct (verify_value k v) eqn:Hv.
  - pose proof (insert_succeeds s k v (check_all s k pWrite Hsc) Hv (fun _ => check_all s k pAllocate Hsc)) as Hs.
    pose proof (insert_view_ok s k v Hok) as Hok'. pose proof (insert_env s k v) as Henv. cbn zeta in Henv.
    destruct (insert s k v) as [s' e] eqn:E. cbn [fst snd] in *. subst e. exists s'.
    destruct Henv as (E1 & E2 & E3). destruct (insert_vis _ _ _ _ E) as [V1 V2].
    split; [reflexivity|]. split; [|split; assumption].
    split; [exact Hok'|]. rewrite E1, E2, E3. auto.
  - unfold insert. rewrite (check_all s k pWrite Hsc), Hv. reflexivity.
Qed.

(* one allocation *)
Lemma genesis_add_char s done k b : ginv s -> vis_spec s done -> total done + b <= MaxU64 ->
  if key_ok k
  then exists s', genesis_add s k b = Some s' /\ ginv s' /\ vis_spec s' (done ++ [(k, b)])
  else genesis_add s k b = None.
Proof.
  intros Hg Hvis Hle. pose proof Hg as (Hok & Hts & Hb & Hsc).
  pose proof (sum_for_le_total k done) as Hsum.
  (* the balance read by AddBalance *)
  assert (Hcur : exists bal,
            (match get s k with
             | inl v => match parse_u64 v with Some b => inl b | None => inr AEOther end
             | inr ENotFound => inl 0
             | inr e => inr (aerr_of e)
             end) = inl bal /\ bal = sum_for k done).
  { rewrite (get_all s k Hsc), (Hvis k). destruct (mentioned k done) eqn:Hm.
    - unfold parse_u64. rewrite be64_length. cbn [Nat.eqb]. rewrite be64_roundtrip by lia. eauto.
    - rewrite (sum_for_not_mentioned k done Hm). eauto. }
  destruct Hcur as (bal & Hcur & Hbal).
  unfold genesis_add, add_balance. rewrite Hcur.
  destruct (add_chk bal b) as [nbal|] eqn:Ea; [|apply add_chk_None in Ea; lia].
  apply add_chk_Some in Ea. destruct Ea as [-> _].
  pose proof (insert_all s k (be64 (bal + b)) Hg) as Hi. rewrite verify_be64 in Hi.
  destruct (key_ok k).
  - destruct Hi as (s' & -> & Hg' & V1 & V2). exists s'. split; [reflexivity|]. split; [exact Hg'|].
    intros k'. rewrite mentioned_app, sum_for_app. cbn [mentioned existsb sum_for fst].
    destruct (bytes_eqb k' k) eqn:Ek.
    + apply bytes_eqb_eq in Ek. subst k'. rewrite orb_true_r, V1, Hbal. do 2 f_equal. lia.
    + apply bytes_eqb_neq in Ek. rewrite V2 by congruence. rewrite (Hvis k'), orb_false_r.
      destruct (mentioned k' done); [|reflexivity]. do 2 f_equal. lia.
  - rewrite Hi. reflexivity.
Qed.

(* the loop of InitializeState *)
Lemma init_state_char rest : forall s done,
  ginv s -> vis_spec s done -> total done <= MaxU64 ->
  match init_state s (total done) rest with
  | Some s' => ginv s' /\ vis_spec s' (done ++ rest) /\ total (done ++ rest) <= MaxU64
               /\ forallb (fun a => key_ok (fst a)) rest = true
  | None => MaxU64 < total (done ++ rest) \/ forallb (fun a => key_ok (fst a)) rest = false
  end.
Proof.
  induction rest as [|[k b] rest IH]; intros s done Hg Hvis Hle.
  - cbn [init_state forallb]. rewrite app_nil_r. auto.
  - cbn [init_state forallb fst]. destruct (add_chk (total done) b) as [supply'|] eqn:Ea.
    + apply add_chk_Some in Ea. destruct Ea as [-> Hle'].
      pose proof (genesis_add_char s done k b Hg Hvis Hle') as Ha.
      destruct (key_ok k).
      * destruct Ha as (s' & -> & Hg' & Hvis'). cbn [andb].
        assert (Ht : total (done ++ [(k, b)]) = total done + b) by (rewrite total_app; cbn; lia).
        specialize (IH s' (done ++ [(k, b)]) Hg' Hvis'). rewrite Ht in IH. specialize (IH Hle').
        rewrite <- app_assoc in IH. cbn [app] in IH. exact IH.
      * rewrite Ha. right. reflexivity.
    + apply add_chk_None in Ea. left. rewrite total_app. cbn [total map fold_right snd]. unfold total in *. lia.
Qed.

(* InitializeState rejects any list whose running supply overflows, whatever the view (no invariant
   needed) and whatever the position of the overflowing allocation *)
Lemma init_state_overflow allocs : forall s supply, supply <= MaxU64 ->
  MaxU64 < supply + total allocs -> init_state s supply allocs = None.
Proof.
  induction allocs as [|[k b] rest IH]; intros s supply Hs H.
  - cbn in H. lia.
  - cbn [init_state]. destruct (add_chk supply b) as [supply'|] eqn:Ea; [|reflexivity].
    apply add_chk_Some in Ea. destruct Ea as [-> Hle].
    destruct (genesis_add s k b) as [s'|]; [|reflexivity].
    apply IH; [exact Hle|]. cbn [total map fold_right snd] in H. unfold total. lia.
Qed.

(* ------------------------------------------------------------------ the three metadata keys + commit *)

Lemma commit_genesis s k : ginv s ->
  ts_changed (commit s) !! k = match vis s k with Some v => Some (Some v) | None => None end.
Proof.
  intros Hg. pose proof Hg as (Hok & Hts & _). rewrite (commit_minimal s k Hok), (ginv_under s k Hg), Hts.
  cbn [ts_changed ts_new]. destruct (vis s k) as [v|]; [|destruct (decide (None = None)); [apply lookup_empty | congruence]].
  destruct (decide (Some v = None)); [discriminate | reflexivity].
Qed.

Lemma list_to_map_keyed {V} (f : key -> V) (l : list (key * N)) k :
  (list_to_map (map (fun a => (fst a, f (fst a))) l) : gmap key V) !! k = if mentioned k l then Some (f k) else None.
Proof.
  induction l as [|[k' b] rest IH]; [apply lookup_empty|].
  cbn [map fst]. rewrite list_to_map_cons. cbn [mentioned existsb fst].
  destruct (bytes_eqb k k') eqn:Ek.
  - apply bytes_eqb_eq in Ek. subst k'. rewrite lookup_insert. reflexivity.
  - apply bytes_eqb_neq in Ek. rewrite lookup_insert_ne by congruence. exact IH.
Qed.

Lemma alloc_map_lookup allocs k :
  alloc_map allocs !! k = if mentioned k allocs then Some (Some (be64 (sum_for k allocs))) else None.
Proof. unfold alloc_map. apply (list_to_map_keyed (fun k => Some (be64 (sum_for k allocs)))). Qed.

Lemma genesis_map_lookup mk mp allocs k :
  genesis_map mk mp allocs !! k = match genesis_spec mk mp allocs k with Some v => Some (Some v) | None => None end.
Proof.
  unfold genesis_map, genesis_spec.
  destruct (bytes_eqb k (mk_fee mk)) eqn:E1.
  { apply bytes_eqb_eq in E1. subst k. rewrite lookup_insert. reflexivity. }
  apply bytes_eqb_neq in E1. rewrite lookup_insert_ne by congruence.
  destruct (bytes_eqb k (mk_ts mk)) eqn:E2.
  { apply bytes_eqb_eq in E2. subst k. rewrite lookup_insert. reflexivity. }
  apply bytes_eqb_neq in E2. rewrite lookup_insert_ne by congruence.
  destruct (bytes_eqb k (mk_height mk)) eqn:E3.
  { apply bytes_eqb_eq in E3. subst k. rewrite lookup_insert. reflexivity. }
  apply bytes_eqb_neq in E3. rewrite lookup_insert_ne by congruence.
  rewrite alloc_map_lookup. destruct (mentioned k allocs); reflexivity.
Qed.

(* COMPLETE characterisation of NewGenesisCommit's state *)
Theorem genesis_state_char mk mp allocs :
  genesis_state mk mp allocs = if genesis_ok mk mp allocs then Some (genesis_map mk mp allocs) else None.
Proof.
  unfold genesis_state, genesis_ok.
  assert (Hv0 : vis_spec (new_view ts_new ScopeAll ∅) []).
  { intros k. cbn [mentioned existsb]. unfold vis, vis_of, under_of, new_view. cbn. rewrite !lookup_empty. reflexivity. }
  pose proof (init_state_char allocs _ [] ginv_new Hv0) as H. cbn [total map fold_right app] in H.
  specialize (H ltac:(lia)).
  destruct (init_state (new_view ts_new ScopeAll ∅) 0 allocs) as [s1|].
  2:{ destruct H as [H|H].
      - destruct (N.leb_spec (total allocs) MaxU64) as [L|L]; [unfold total in L; lia | reflexivity].
      - rewrite H, andb_false_r. reflexivity. }
  destruct H as (Hg1 & Hvis1 & Htot & Hkeys).
  destruct (N.leb_spec (total allocs) MaxU64) as [_|L]; [|unfold total in L; lia].
  rewrite Hkeys. cbn [andb].
  pose proof (insert_all s1 (mk_height mk) (be64 0) Hg1) as I1. rewrite verify_be64 in I1.
  destruct (key_ok (mk_height mk)); [|rewrite I1; reflexivity].
  destruct I1 as (s2 & -> & Hg2 & V2a & V2b). cbn [andb].
  pose proof (insert_all s2 (mk_ts mk) (be64 0) Hg2) as I2. rewrite verify_be64 in I2.
  destruct (key_ok (mk_ts mk)); [|rewrite I2; reflexivity].
  destruct I2 as (s3 & -> & Hg3 & V3a & V3b). cbn [andb].
  pose proof (insert_all s3 (mk_fee mk) (encode (genesis_manager mp)) Hg3) as I3.
  destruct (verify_value (mk_fee mk) (encode (genesis_manager mp))); [|rewrite I3; reflexivity].
  destruct I3 as (s4 & -> & Hg4 & V4a & V4b).
  f_equal. apply map_eq. intros k. rewrite (commit_genesis s4 k Hg4), genesis_map_lookup. unfold genesis_spec.
  destruct (bytes_eqb k (mk_fee mk)) eqn:E1.
  { apply bytes_eqb_eq in E1. subst k. rewrite V4a. reflexivity. }
  apply bytes_eqb_neq in E1. rewrite V4b by congruence.
  destruct (bytes_eqb k (mk_ts mk)) eqn:E2.
  { apply bytes_eqb_eq in E2. subst k. rewrite V3a. reflexivity. }
  apply bytes_eqb_neq in E2. rewrite V3b by congruence.
  destruct (bytes_eqb k (mk_height mk)) eqn:E3.
  { apply bytes_eqb_eq in E3. subst k. rewrite V2a. reflexivity. }
  apply bytes_eqb_neq in E3. rewrite V2b by congruence.
  rewrite (Hvis1 k). destruct (mentioned k allocs); reflexivity.
Qed.

(* ------------------------------------------------------------------ the fee manager written at genesis *)

Lemma genesis_manager_eq mp :
  genesis_manager mp = mkMgr 0 (map (fun k => mkDS (dget mp k) zero_window 0) idx5).
Proof. reflexivity. Qed.

Lemma genesis_manager_prices mp : unit_prices (genesis_manager mp) = map (dget mp) idx5.
Proof. reflexivity. Qed.
Lemma genesis_manager_consumed mp : units_consumed (genesis_manager mp) = dzero.
Proof. reflexivity. Qed.
Lemma genesis_manager_windows mp k : m_window (genesis_manager mp) k = zero_window.
Proof. do 5 (destruct k as [|k]; [reflexivity|]). destruct k; reflexivity. Qed.
Lemma genesis_manager_ts mp : m_ts (genesis_manager mp) = 0.
Proof. reflexivity. Qed.

(* byte layout, as Check/C27_check.v's expected_fee_bytes *)
Lemma ds_bytes_genesis p : flat_map be64 (ds_words (mkDS p zero_window 0)) = be64 p ++ repeat 0 88%nat.
Proof. unfold ds_words. cbn [ds_price ds_window ds_last flat_map]. f_equal. Qed.

Lemma genesis_manager_bytes mp :
  encode (genesis_manager mp) = be64 0 ++ flat_map (fun k => be64 (dget mp k) ++ repeat 0 88%nat) idx5.
Proof.
  rewrite genesis_manager_eq. unfold encode, mgr_words. cbn [m_ts m_dims flat_map map idx5].
  rewrite !flat_map_app, !ds_bytes_genesis. reflexivity.
Qed.

Lemma encode_length_genesis mp : length (encode (genesis_manager mp)) = 488%nat.
Proof. unfold encode. rewrite flat_map_be64_length. reflexivity. Qed.

Lemma verify_fee_key mk mp : verify_value (mk_fee mk) (encode (genesis_manager mp)) = verify_value_len (mk_fee mk) 488.
Proof. unfold verify_value, blenZ. rewrite encode_length_genesis. reflexivity. Qed.

(* ------------------------------------------------------------------ corollaries *)

Lemma genesis_state_exact mk mp allocs m : genesis_state mk mp allocs = Some m ->
  forall k, m !! k = match genesis_spec mk mp allocs k with Some v => Some (Some v) | None => None end.
Proof.
  rewrite genesis_state_char. destruct (genesis_ok mk mp allocs); [|discriminate].
  intros H k. inversion H; subst m. apply genesis_map_lookup.
Qed.

Lemma genesis_total_overflow mk mp allocs : MaxU64 < total allocs -> genesis_state mk mp allocs = None.
Proof.
  intros H. rewrite genesis_state_char. unfold genesis_ok.
  destruct (N.leb_spec (total allocs) MaxU64); [lia | reflexivity].
Qed.

Lemma genesis_address_overflow mk mp allocs k : MaxU64 < sum_for k allocs -> genesis_state mk mp allocs = None.
Proof. intros H. apply genesis_total_overflow. pose proof (sum_for_le_total k allocs). lia. Qed.

Lemma genesis_success_iff mk mp allocs :
  (exists m, genesis_state mk mp allocs = Some m) <-> genesis_ok mk mp allocs = true.
Proof.
  rewrite genesis_state_char. destruct (genesis_ok mk mp allocs); split; eauto; try discriminate.
  intros [m H]. discriminate H.
Qed.

(* order independence (hence the root does not depend on the order of the configuration) *)
Lemma total_perm a b : Permutation a b -> total a = total b.
Proof.
  unfold total. induction 1 as [|x a b _ IH|x y a|a b c _ IH1 _ IH2]; cbn [map fold_right]; try lia.
Qed.
Lemma sum_for_perm k a b : Permutation a b -> sum_for k a = sum_for k b.
Proof.
  induction 1 as [|[k1 x] a b _ IH|[k1 x] [k2 y] a|a b c _ IH1 _ IH2]; cbn [sum_for]; try lia.
Qed.
Lemma mentioned_perm k a b : Permutation a b -> mentioned k a = mentioned k b.
Proof.
  intros H. apply eq_true_iff_eq. rewrite !mentioned_In. split; intros Hin.
  - eapply Permutation_in; [|exact Hin]. apply Permutation_map, H.
  - eapply Permutation_in; [|exact Hin]. apply Permutation_map, Permutation_sym, H.
Qed.
Lemma forallb_perm {A} (f : A -> bool) a b : Permutation a b -> forallb f a = forallb f b.
Proof.
  induction 1 as [|x a b _ IH|x y a|a b c _ IH1 _ IH2]; cbn [forallb]; try congruence.
  destruct (f x), (f y); reflexivity.
Qed.

Lemma genesis_state_perm mk mp a b : Permutation a b -> genesis_state mk mp a = genesis_state mk mp b.
Proof.
  intros H. rewrite !genesis_state_char. unfold genesis_ok.
  rewrite (total_perm a b H), (forallb_perm _ a b H).
  destruct (_ && _ && _ && _ && _); [|reflexivity]. f_equal. apply map_eq. intros k.
  rewrite !genesis_map_lookup. unfold genesis_spec. rewrite (mentioned_perm k a b H), (sum_for_perm k a b H). reflexivity.
Qed.
