(* Proofs for C14: the estimate dominates the units of the signed transaction. *)
From Coq Require Import List ZArith NArith Bool Lia ZifyN ZifyNat ZifyBool Permutation.
Import ListNotations.
From HV Require Import Lib.Bytes Lib.U64 Lib.Varint Model.TxStatic Model.Estimate.
Local Open Scope N_scope.

(* ---- varint sizes ------------------------------------------------------------------------ *)

Lemma uvarint_len_mono a b : a <= b -> uvarint_len a <= uvarint_len b.
Proof.
  intros Hab. unfold uvarint_len.
  destruct (N.eqb_spec a 0) as [Ha|Ha].
  - destruct (N.eqb_spec b 0) as [Hb|Hb]; [lia|].
    assert (H7 : 7 / 7 <= (N.log2 b + 1 + 6) / 7) by (apply N.div_le_mono; lia).
    change (7 / 7) with 1 in H7. exact H7.
  - destruct (N.eqb_spec b 0) as [Hb|Hb]; [lia|].
    apply N.div_le_mono; [lia|]. pose proof (N.log2_le_mono a b Hab). lia.
Qed.

Lemma uvarint_len_u64 n : n < 2 ^ 64 -> uvarint_len n <= 10.
Proof.
  intros Hn. unfold uvarint_len. destruct (N.eqb_spec n 0) as [|Hz]; [lia|].
  assert (Hl : N.log2 n < 64) by (apply N.log2_lt_pow2; lia).
  assert (H : (N.log2 n + 1 + 6) / 7 <= 70 / 7) by (apply N.div_le_mono; lia).
  change (70 / 7) with 10 in H. exact H.
Qed.

Lemma zigzag_u64 z : in_i64 z -> zigzag z < 2 ^ 64.
Proof.
  unfold in_i64, MinI64, MaxI64, zigzag. intros H.
  change (2 ^ 64) with 18446744073709551616.
  destruct (Z.leb_spec 0 z); lia.
Qed.

Lemma size_int_le z : in_i64 z -> size_int z <= 10.
Proof. intros H. apply uvarint_len_u64, zigzag_u64, H. Qed.

Lemma size_bytes_mono a b : a <= b -> size_bytes a <= size_bytes b.
Proof. intros H. unfold size_bytes. pose proof (uvarint_len_mono a b H). lia. Qed.

Lemma base_size_le ts cnz fee : in_i64 ts -> base_size ts cnz fee <= 54.
Proof.
  intros H. unfold base_size, size_bytes. pose proof (size_int_le ts H) as Hs.
  assert (H32 : uvarint_len 32 = 1) by reflexivity. rewrite H32.
  destruct (ts =? 0)%Z; destruct cnz; destruct (fee =? 0); lia.
Qed.

Lemma base_field_le bsize : bsize <= 54 -> (if bsize =? 0 then 0 else 1 + uvarint_len bsize + bsize) <= 56.
Proof.
  intros H. destruct (N.eqb_spec bsize 0) as [|Hz]; [lia|].
  rewrite uvarint_len_small by lia. lia.
Qed.

Lemma auth_field_le auth_len auth_bw :
  auth_len <= auth_bw ->
  (if auth_len =? 0 then 0 else 1 + size_bytes auth_len) <= 1 + uvarint_len auth_bw + auth_bw.
Proof.
  intros H. pose proof (size_bytes_mono _ _ H) as Hm. unfold size_bytes in *.
  destruct (auth_len =? 0); lia.
Qed.

(* ---- checked sums = mathematical sums ---------------------------------------------------- *)

Definition cost (kc vc c : N) : N := kc + c * vc.
Fixpoint sumcost (kc vc : N) (l : list N) : N :=
  match l with [] => 0 | c :: l' => cost kc vc c + sumcost kc vc l' end.
Fixpoint sumN (l : list N) : N := match l with [] => 0 | c :: l' => c + sumN l' end.

Lemma sumcost_app kc vc a b : sumcost kc vc (a ++ b) = sumcost kc vc a + sumcost kc vc b.
Proof. induction a as [|x a IH]; cbn [app sumcost]; [reflexivity|]. rewrite IH. lia. Qed.

Lemma sumcost_perm kc vc a b : Permutation a b -> sumcost kc vc a = sumcost kc vc b.
Proof.
  induction 1 as [|x a b _ IH|x y a|a b c _ IH1 _ IH2]; cbn [sumcost]; lia.
Qed.

Lemma sumN_app a b : sumN (a ++ b) = sumN a + sumN b.
Proof. induction a as [|x a IH]; cbn [app sumN]; [reflexivity|]. rewrite IH. lia. Qed.

(* the operator, once errored, stays errored *)
Lemma fold_dim_step_err kc vc l o : op_err o = true -> op_value (fold_left (dim_step kc vc) l o) = None.
Proof.
  revert o; induction l as [|c l IH]; intros o He; cbn [fold_left].
  - unfold op_value. rewrite He. reflexivity.
  - apply IH. unfold dim_step, op_muladd, op_add. rewrite He. cbn. rewrite He. exact He.
Qed.

Lemma fold_dim_step_spec kc vc l : forall v, v <= MaxU64 ->
  op_value (fold_left (dim_step kc vc) l (mkOp v false)) =
  if v + sumcost kc vc l <=? MaxU64 then Some (v + sumcost kc vc l) else None.
Proof.
  induction l as [|c l IH]; intros v Hv; cbn [fold_left sumcost].
  - rewrite N.add_0_r. unfold op_value. cbn [op_err op_v].
    destruct (N.leb_spec v MaxU64); [reflexivity|lia].
  - unfold dim_step at 2. unfold op_add. cbn [op_err op_v]. unfold add_chk.
    destruct (N.leb_spec (v + kc) MaxU64) as [H1|H1].
    + unfold op_muladd. cbn [op_err op_v]. unfold mul_chk.
      destruct (N.leb_spec (c * vc) MaxU64) as [H2|H2].
      * unfold add_chk. destruct (N.leb_spec (v + kc + c * vc) MaxU64) as [H3|H3].
        -- rewrite IH by exact H3. unfold cost.
           replace (v + kc + c * vc + sumcost kc vc l) with (v + (kc + c * vc + sumcost kc vc l)) by lia.
           reflexivity.
        -- rewrite fold_dim_step_err by reflexivity. unfold cost.
           destruct (N.leb_spec (v + (kc + c * vc + sumcost kc vc l)) MaxU64); [lia|reflexivity].
      * rewrite fold_dim_step_err by reflexivity. unfold cost.
        destruct (N.leb_spec (v + (kc + c * vc + sumcost kc vc l)) MaxU64); [lia|reflexivity].
    + rewrite fold_dim_step_err by reflexivity. unfold cost.
      destruct (N.leb_spec (v + (kc + c * vc + sumcost kc vc l)) MaxU64); [lia|reflexivity].
Qed.

Lemma storage_dim_spec kc vc l :
  storage_dim kc vc l = if sumcost kc vc l <=? MaxU64 then Some (sumcost kc vc l) else None.
Proof. unfold storage_dim, op_new. rewrite fold_dim_step_spec by (unfold MaxU64; lia). rewrite N.add_0_l. reflexivity. Qed.

Lemma fold_op_add_err l o : op_err o = true -> op_value (fold_left op_add l o) = None.
Proof.
  revert o; induction l as [|c l IH]; intros o He; cbn [fold_left].
  - unfold op_value. rewrite He. reflexivity.
  - apply IH. unfold op_add. rewrite He. exact He.
Qed.

Lemma fold_op_add_spec l : forall v, v <= MaxU64 ->
  op_value (fold_left op_add l (mkOp v false)) = if v + sumN l <=? MaxU64 then Some (v + sumN l) else None.
Proof.
  induction l as [|c l IH]; intros v Hv; cbn [fold_left sumN].
  - rewrite N.add_0_r. unfold op_value. cbn [op_err op_v]. destruct (N.leb_spec v MaxU64); [reflexivity|lia].
  - unfold op_add at 2. cbn [op_err op_v]. unfold add_chk.
    destruct (N.leb_spec (v + c) MaxU64) as [H1|H1].
    + rewrite IH by exact H1. replace (v + c + sumN l) with (v + (c + sumN l)) by lia. reflexivity.
    + rewrite fold_op_add_err by reflexivity.
      destruct (N.leb_spec (v + (c + sumN l)) MaxU64); [lia|reflexivity].
Qed.

Lemma compute_dim_spec base l : base <= MaxU64 ->
  compute_dim base l = if base + sumN l <=? MaxU64 then Some (base + sumN l) else None.
Proof. intros Hb. unfold compute_dim, op_new. apply fold_op_add_spec. exact Hb. Qed.

(* ---- key lists --------------------------------------------------------------------------- *)

Lemma all_chunks_app a b :
  all_chunks (a ++ b) =
  match all_chunks a, all_chunks b with Some x, Some y => Some (x ++ y) | _, _ => None end.
Proof.
  induction a as [|k a IH]; cbn [app all_chunks].
  - destruct (all_chunks b); reflexivity.
  - rewrite IH. destruct (key_chunks k); [|reflexivity].
    destruct (all_chunks a); [|reflexivity]. destruct (all_chunks b); reflexivity.
Qed.

Lemma all_chunks_in l cs k : all_chunks l = Some cs -> In k l -> exists c, key_chunks k = Some c /\ In c cs.
Proof.
  revert cs; induction l as [|x l IH]; intros cs H Hin; [destruct Hin|].
  cbn [all_chunks] in H. destruct (key_chunks x) as [c|] eqn:Ex; [|discriminate].
  destruct (all_chunks l) as [cs'|] eqn:El; [|discriminate]. inversion H; subst cs.
  destruct Hin as [->|Hin].
  - exists c. split; [exact Ex | left; reflexivity].
  - destruct (IH cs' eq_refl Hin) as (c' & Hc & Hi). exists c'. split; [exact Hc | right; exact Hi].
Qed.

(* removing duplicate keys never increases the cost *)
Lemma all_chunks_nodup l : forall cs,
  all_chunks l = Some cs ->
  exists cs', all_chunks (nodup bytes_eq_dec l) = Some cs' /\
              forall kc vc, sumcost kc vc cs' <= sumcost kc vc cs.
Proof.
  induction l as [|k l IH]; intros cs H.
  - cbn in H. inversion H; subst. exists []. split; [reflexivity | intros; cbn; lia].
  - cbn [all_chunks] in H. destruct (key_chunks k) as [c|] eqn:Ek; [|discriminate].
    destruct (all_chunks l) as [cl|] eqn:El; [|discriminate]. inversion H; subst cs.
    destruct (IH cl eq_refl) as (cs' & Hn & Hle).
    cbn [nodup]. destruct (in_dec bytes_eq_dec k l) as [Hin|Hnin].
    + exists cs'. split; [exact Hn|]. intros kc vc. cbn [sumcost]. specialize (Hle kc vc). lia.
    + exists (c :: cs'). split.
      * cbn [all_chunks]. rewrite Ek, Hn. reflexivity.
      * intros kc vc. cbn [sumcost]. specialize (Hle kc vc). lia.
Qed.

(* ---- the hypotheses of the theorem ------------------------------------------------------- *)

(* EstimateUnits and Units look at the same action (same bytes, same compute units); H1: the multiset of
   chunk sizes of the keys it declares does not depend on the action id / actor passed to StateKeys *)
Definition same_action (e : est_action) (t : tx_action) : Prop :=
  ea_len e = ta_len t /\ ea_cu e = ta_cu t /\
  forall ce, all_chunks (ea_keys e) = Some ce ->
             exists ct, all_chunks (ta_keys t) = Some ct /\ Permutation ce ct.

(* H2: the rule's sponsor chunk list covers the balance handler's sponsor keys *)
Definition sponsor_covered (r : erules) (sponsor_keys : list bytes) : Prop :=
  exists cs rest, all_chunks sponsor_keys = Some cs /\ Permutation (er_sponsor_chunks r) (cs ++ rest).

Lemma estimate_chunks_spec ea : forall ta sp chunks,
  Forall2 same_action ea ta ->
  estimate_chunks ea sp = Some chunks ->
  exists ct, all_chunks (flat_map ta_keys ta) = Some ct /\
             forall kc vc, sumcost kc vc chunks = sumcost kc vc ct + sumcost kc vc sp.
Proof.
  induction ea as [|e ea IH]; intros ta sp chunks HF H.
  - inversion HF; subst. cbn in H. inversion H; subst. exists []. split; [reflexivity|]. intros; cbn; lia.
  - inversion HF as [|e' t ea' ta' Hsame HF']; subst.
    cbn [estimate_chunks] in H.
    destruct (all_chunks (ea_keys e)) as [ce|] eqn:Ee; [|discriminate].
    destruct (estimate_chunks ea sp) as [more|] eqn:Em; [|discriminate].
    inversion H; subst chunks.
    destruct Hsame as (_ & _ & Hk). destruct (Hk ce Ee) as (ct & Hct & Hperm).
    destruct (IH ta' sp more HF' Em) as (ct' & Hct' & Hsum).
    exists (ct ++ ct'). split.
    + cbn [flat_map]. rewrite all_chunks_app, Hct, Hct'. reflexivity.
    + intros kc vc. rewrite !sumcost_app, Hsum, (sumcost_perm kc vc _ _ Hperm). lia.
Qed.

Lemma same_action_lens ea ta : Forall2 same_action ea ta ->
  fold_right (fun a acc => 1 + size_bytes (ea_len a) + acc) 0 ea =
  fold_right (fun l acc => 1 + size_bytes l + acc) 0 (map ta_len ta).
Proof.
  induction 1 as [|e t ea ta Hs _ IH]; cbn [fold_right map]; [reflexivity|].
  destruct Hs as (Hl & _). rewrite Hl, IH. reflexivity.
Qed.

Lemma same_action_cus ea ta : Forall2 same_action ea ta -> map ea_cu ea = map ta_cu ta.
Proof.
  induction 1 as [|e t ea ta Hs _ IH]; cbn [map]; [reflexivity|].
  destruct Hs as (_ & Hc & _). rewrite Hc, IH. reflexivity.
Qed.

Lemma dims5_Some b c r a w l : dims5 b c r a w = Some l ->
  exists c' r' a' w', c = Some c' /\ r = Some r' /\ a = Some a' /\ w = Some w' /\ l = [b; c'; r'; a'; w'].
Proof.
  unfold dims5. destruct c as [c'|]; [|discriminate]. destruct r as [r'|]; [|discriminate].
  destruct a as [a'|]; [|discriminate]. destruct w as [w'|]; [|discriminate].
  intros H; inversion H; subst. exists c', r', a', w'. repeat split; reflexivity.
Qed.

Lemma storage_dim_le kc vc cu ce e :
  sumcost kc vc cu <= sumcost kc vc ce ->
  storage_dim kc vc ce = Some e ->
  exists u, storage_dim kc vc cu = Some u /\ u <= e.
Proof.
  intros Hle. rewrite !storage_dim_spec.
  destruct (N.leb_spec (sumcost kc vc ce) MaxU64) as [He|He]; [|discriminate].
  intros H; inversion H; subst e.
  destruct (N.leb_spec (sumcost kc vc cu) MaxU64) as [Hu|Hu]; [|lia].
  eexists. split; [reflexivity | exact Hle].
Qed.

(* ---- main theorem ------------------------------------------------------------------------ *)

Theorem estimate_ge_units :
  forall (r : erules) (ea : list est_action) (ta : list tx_action)
         (auth_bw auth_cu_max auth_len auth_cu : N) (ts : Z) (chain_nz : bool) (max_fee : N)
         (sponsor_keys : list bytes) (est : list N),
  er_base_cu r <= MaxU64 ->
  Forall2 same_action ea ta ->
  sponsor_covered r sponsor_keys ->
  auth_len <= auth_bw -> auth_cu <= auth_cu_max -> in_i64 ts ->
  estimate_units r ea auth_bw auth_cu_max = Some est ->
  exists u,
    tx_units r (signed_tx_size ts chain_nz max_fee ta auth_len) ta auth_cu sponsor_keys = Some u /\
    Forall2 N.le u est.
Proof.
  intros r ea ta auth_bw auth_cu_max auth_len auth_cu ts chain_nz max_fee sponsor_keys est
         Hbase HF Hsp Hbw Hcu Hts Hest.
  unfold estimate_units in Hest.
  destruct (estimate_chunks ea (er_sponsor_chunks r)) as [chunks|] eqn:Echunks; [|discriminate].
  apply dims5_Some in Hest. destruct Hest as (ec & er & eal & ew & Hc & Hr & Ha & Hw & ->).
  destruct (estimate_chunks_spec ea ta _ chunks HF Echunks) as (ct & Hct & Hsum).
  destruct Hsp as (cs & rest & Hcs & Hperm).
  (* the union of the declared keys *)
  assert (Hall : all_chunks (flat_map ta_keys ta ++ sponsor_keys) = Some (ct ++ cs)).
  { rewrite all_chunks_app, Hct, Hcs. reflexivity. }
  destruct (all_chunks_nodup _ _ Hall) as (cu & Hcu_eq & Hcu_le).
  assert (Hcost : forall kc vc, sumcost kc vc cu <= sumcost kc vc chunks).
  { intros kc vc. specialize (Hcu_le kc vc). rewrite sumcost_app in Hcu_le.
    rewrite Hsum, (sumcost_perm kc vc _ _ Hperm), sumcost_app. lia. }
  (* compute *)
  rewrite compute_dim_spec in Hc by exact Hbase.
  destruct (N.leb_spec (er_base_cu r + sumN (map ea_cu ea ++ [auth_cu_max])) MaxU64) as [Hfit|Hfit]; [|discriminate].
  inversion Hc; subst ec. clear Hc.
  rewrite sumN_app in Hfit. cbn [sumN] in Hfit.
  unfold tx_units.
  rewrite compute_dim_spec by exact Hbase.
  rewrite <- (same_action_cus ea ta HF), sumN_app. cbn [sumN].
  destruct (N.leb_spec (er_base_cu r + (sumN (map ea_cu ea) + (auth_cu + 0))) MaxU64) as [Hfit'|Hfit']; [|lia].
  unfold tx_state_keys. rewrite Hall, Hcu_eq.
  destruct (storage_dim_le _ _ cu chunks er (Hcost _ _) Hr) as (ur & Hur & Hler).
  destruct (storage_dim_le _ _ cu chunks eal (Hcost _ _) Ha) as (ua & Hua & Hlea).
  destruct (storage_dim_le _ _ cu chunks ew (Hcost _ _) Hw) as (uw & Huw & Hlew).
  rewrite Hur, Hua, Huw. cbn [dims5].
  eexists. split; [reflexivity|].
  (* bandwidth *)
  assert (Hband : signed_tx_size ts chain_nz max_fee ta auth_len <= estimate_bandwidth ea auth_bw).
  { unfold signed_tx_size, tx_size, estimate_bandwidth, MaxBaseSize.
    rewrite (same_action_lens ea ta HF).
    pose proof (base_field_le _ (base_size_le ts chain_nz max_fee Hts)) as Hb.
    pose proof (auth_field_le auth_len auth_bw Hbw) as Hau. lia. }
  rewrite sumN_app. cbn [sumN].
  repeat constructor; try assumption; lia.
Qed.

(* ---- fee --------------------------------------------------------------------------------- *)

Lemma mul_sum_from_mono p : forall u e acc acc' F,
  Forall2 N.le u e -> acc' <= acc ->
  mul_sum_from acc p e = Some F ->
  exists f, mul_sum_from acc' p u = Some f /\ f <= F.
Proof.
  induction p as [|x p IH]; intros u e acc acc' F HF Hacc H.
  - cbn in *. inversion H; subst. exists acc'. split; [reflexivity | exact Hacc].
  - destruct HF as [|a b u e Hab HF].
    + cbn in *. inversion H; subst. exists acc'. split; [reflexivity | exact Hacc].
    + cbn [mul_sum_from] in *. unfold mul_chk, add_chk in *.
      destruct (N.leb_spec (x * b) MaxU64) as [H1|H1]; [|discriminate].
      destruct (N.leb_spec (acc + x * b) MaxU64) as [H2|H2]; [|discriminate].
      assert (Hm : x * a <= x * b) by (apply N.mul_le_mono_l; exact Hab).
      destruct (N.leb_spec (x * a) MaxU64) as [H3|H3]; [|lia].
      destruct (N.leb_spec (acc' + x * a) MaxU64) as [H4|H4]; [|lia].
      apply (IH u e (acc + x * b) (acc' + x * a) F HF); [lia | exact H].
Qed.

Lemma mul_sum_mono p u e F :
  Forall2 N.le u e -> mul_sum p e = Some F -> exists f, mul_sum p u = Some f /\ f <= F.
Proof. intros HF H. apply (mul_sum_from_mono p u e 0 0 F HF); [lia | exact H]. Qed.
