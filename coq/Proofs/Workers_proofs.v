(* Workers_proofs.v — invariants of the worker-pool transition system (Model/Workers.v) over all traces,
   and the functional facts about the serial pool.  Used by Props/C26.v. *)
From Coq Require Import List NArith Bool Arith Lia.
Import ListNotations.
From HV Require Import Model.Workers.


(* ------------------------------------------------------------------------------------------------ *)
(* 0. small libraries                                                                                *)
(* ------------------------------------------------------------------------------------------------ *)

Lemma upd_eq : forall A (f : nat -> A) x v, upd f x v x = v.
Proof. intros; unfold upd; now rewrite Nat.eqb_refl. Qed.

Lemma upd_neq : forall A (f : nat -> A) x y v, x <> y -> upd f x v y = f y.
Proof. intros A f x y v H; unfold upd; destruct (Nat.eqb_spec x y); [contradiction|reflexivity]. Qed.

Ltac upd_case x y :=
  let Heq := fresh "Heq" in let Hne := fresh "Hne" in
  destruct (Nat.eq_dec x y) as [Heq|Hne];
  [ first [ is_var y; destruct Heq
          | is_var x; symmetry in Heq; destruct Heq
          | rewrite Heq in * ]; rewrite ?upd_eq in *
  | rewrite ?(@upd_neq _ _ x y) in * by assumption ].

(* number of i < n with f i = true *)
Fixpoint cnt (f : nat -> bool) (n : nat) : nat :=
  match n with 0 => 0 | S m => cnt f m + (if f m then 1 else 0) end.

Lemma cnt_ext : forall f g n, (forall i, i < n -> f i = g i) -> cnt f n = cnt g n.
Proof.
  induction n as [|n IH]; intros H; cbn [cnt]; [reflexivity|].
  rewrite IH by (intros; apply H; lia). rewrite (H n) by lia. reflexivity.
Qed.

Lemma cnt_inc : forall f g n t, t < n -> f t = false -> g t = true ->
  (forall i, i <> t -> g i = f i) -> cnt g n = S (cnt f n).
Proof.
  induction n as [|n IH]; intros t Ht Hf Hg Ho; [lia|].
  cbn [cnt]. destruct (Nat.eq_dec t n) as [->|Hne].
  - rewrite Hf, Hg. rewrite (@cnt_ext g f n) by (intros; apply Ho; lia). lia.
  - rewrite (IH t) by (auto; lia). rewrite (Ho n) by auto. lia.
Qed.

Lemma cnt_dec : forall f g n t, t < n -> f t = true -> g t = false ->
  (forall i, i <> t -> g i = f i) -> cnt f n = S (cnt g n).
Proof. intros f g n t Ht Hf Hg Ho. apply (@cnt_inc g f n t); auto. intros; symmetry; auto. Qed.

Lemma cnt_zero : forall f n, cnt f n = 0 -> forall i, i < n -> f i = false.
Proof.
  induction n as [|n IH]; intros H i Hi; [lia|]. cbn [cnt] in H.
  destruct (Nat.eq_dec i n) as [->|Hne].
  - destruct (f n); [lia|reflexivity].
  - apply IH; lia.
Qed.

Lemma cnt_pos : forall f n, cnt f n > 0 -> exists i, i < n /\ f i = true.
Proof.
  induction n as [|n IH]; cbn [cnt]; intros H; [lia|].
  destruct (f n) eqn:E; [exists n; auto|].
  destruct IH as (i & Hi & Hf); [lia|]. exists i; auto.
Qed.

Lemma cnt_le : forall f n, cnt f n <= n.
Proof. induction n as [|n IH]; cbn [cnt]; [lia|]. destruct (f n); lia. Qed.

Lemma cnt_full : forall f n, cnt f n = n -> forall i, i < n -> f i = true.
Proof.
  induction n as [|n IH]; intros H i Hi; [lia|]. cbn [cnt] in H.
  pose proof (cnt_le f n) as Hle.
  destruct (f n) eqn:E; [|lia].
  destruct (Nat.eq_dec i n) as [->|Hne]; [assumption|]. apply IH; lia.
Qed.

Lemma cnt_notfull : forall f n, cnt f n < n -> exists i, i < n /\ f i = false.
Proof.
  induction n as [|n IH]; cbn [cnt]; intros H; [lia|].
  destruct (f n) eqn:E; [|exists n; auto].
  destruct IH as (i & Hi & Hf); [lia|]. exists i; auto.
Qed.

Lemma cnt_all_false : forall f n, (forall i, i < n -> f i = false) -> cnt f n = 0.
Proof.
  induction n as [|n IH]; intros H; cbn [cnt]; [reflexivity|].
  rewrite IH by (intros; apply H; lia). rewrite H by lia. reflexivity.
Qed.

Lemma NoDup_snoc : forall A (l : list A) x, NoDup l -> ~ In x l -> NoDup (l ++ [x]).
Proof.
  induction l as [|a l IH]; intros x Hn Hx; cbn.
  - constructor; [intros []|constructor].
  - inversion Hn as [|a' l' Ha Hl]; subst. constructor.
    + rewrite in_app_iff. intros [H|[H|[]]]; [contradiction|]. subst. apply Hx. now left.
    + apply IH; auto. intros H; apply Hx; now right.
Qed.

(* ------------------------------------------------------------------------------------------------ *)
(* 1. step inversion                                                                                 *)
(* ------------------------------------------------------------------------------------------------ *)

Ltac unfold_sets := unfold set_jobs, set_disp, set_worker, set_stop in *.

Ltac proj_simpl :=
  cbn [jobs njobs queue qclosed owner tph ntasks disp wst sg err shutdown triggered stopclosed stop log
       jtasks jclosed jresult] in *.

(* [step_inv H]: H : step c s l = Some s' with l a constructor application; splits into the enabled
   branches, leaving s' replaced by the explicit successor state *)
Ltac step_inv H :=
  cbn [step] in H;
  repeat match type of H with
  | None = Some _ => discriminate H
  | Some _ = Some _ => injection H as H
  | (if ?b then _ else _) = Some _ => let E := fresh "E" in destruct b eqn:E
  | match ?x with _ => _ end = Some _ => let E := fresh "E" in destruct x eqn:E
  end.

Definition dact (d : dstate) : option jid :=
  match d with DLoop j | DSend j _ | DWait j => Some j | _ => None end.
Definition dcur (d : dstate) : option jid :=
  match d with DGot j | DLoop j | DSend j _ | DWait j => Some j | _ => None end.
Definition active (p : tphase) : bool :=
  match p with THeld | TGot | TRun | TRan _ => true | _ => false end.
Definition begun (p : tphase) : bool :=
  match p with TRun | TRan _ | TDone => true | _ => false end.
Definition wtask (w : wstate) : option tkid :=
  match w with WGot t | WRun t | WRan t _ => Some t | _ => None end.
Definition wph (w : wstate) : tphase :=
  match w with WGot _ => TGot | WRun _ => TRun | WRan _ ok => TRan ok | _ => TNew end.
Definition wexited (w : wstate) : bool := match w with WExited => true | _ => false end.


Definition is_begin (t : tkid) (e : event) : bool :=
  match e with EvBegin t' => Nat.eqb t t' | _ => false end.
Definition nbegin (t : tkid) (l : list event) : nat := length (filter (is_begin t) l).

Definition is_snone (p : spc) : bool := match p with SNone => true | _ => false end.
Definition after_close (p : spc) : bool := match p with SClosed | SRecv _ | SRet => true | _ => false end.
Definition after_ack (p : spc) : bool := match p with SRecv _ | SRet => true | _ => false end.

(* ------------------------------------------------------------------------------------------------ *)
(* 2. the invariant                                                                                  *)
(* ------------------------------------------------------------------------------------------------ *)

Record Inv (c : cfg) (s : state) : Prop := mkInv {
  (* tasks: where each task is *)
  i_new : forall t, ntasks s <= t -> tph s t = TNew;
  i_notnew : forall t, t < ntasks s -> tph s t <> TNew;
  i_owner : forall t, t < ntasks s -> owner s t < njobs s;
  i_queued : forall t, t < ntasks s -> tph s t = TQueued -> In t (jtasks (jobs s (owner s t)));
  i_jtasks : forall j t, In t (jtasks (jobs s j)) -> t < ntasks s /\ owner s t = j /\ tph s t = TQueued;
  i_nodup : forall j, NoDup (jtasks (jobs s j));
  i_held : forall t, t < ntasks s -> tph s t = THeld -> disp s = DSend (owner s t) t;
  i_send : forall j t, disp s = DSend j t -> t < ntasks s /\ owner s t = j /\ tph s t = THeld;
  i_wtask : forall w t, wtask (wst s w) = Some t -> w < c_nw c /\ t < ntasks s /\ tph s t = wph (wst s w);
  i_winj : forall w w' t, wtask (wst s w) = Some t -> wtask (wst s w') = Some t -> w = w';
  i_tw : forall t, t < ntasks s ->
         (tph s t = TGot \/ tph s t = TRun \/ exists ok, tph s t = TRan ok) ->
         exists w, wtask (wst s w) = Some t;
  i_ran : forall t ok, tph s t = TRan ok -> ok = negb (c_fail c t);
  i_taken : forall t, t < ntasks s -> tph s t <> TQueued ->
            dact (disp s) = Some (owner s t) \/
            exists r, jresult (jobs s (owner s t)) = Some r /\ r <> RShutdown;
  i_active : forall t, t < ntasks s -> active (tph s t) = true -> dact (disp s) = Some (owner s t);
  i_sg : sg s = cnt (fun t => active (tph s t)) (ntasks s);
  (* dispatcher and queue: jobs are processed in id order, one at a time *)
  i_queue : exists k, k <= njobs s /\ queue s = seq k (njobs s - k) /\
            (forall j, j < k -> dcur (disp s) = Some j \/ jresult (jobs s j) <> None) /\
            (forall j, k <= j -> jresult (jobs s j) = None) /\
            (forall j, dcur (disp s) = Some j -> S j = k /\ jresult (jobs s j) = None);
  i_wait : forall j, disp s = DWait j -> jclosed (jobs s j) = true /\ jtasks (jobs s j) = [];
  i_resclosed : forall j r, jresult (jobs s j) = Some r -> r <> RShutdown ->
                jclosed (jobs s j) = true /\ jtasks (jobs s j) = [];
  (* the shared error and the reported results *)
  i_err : forall t0, err s = Some t0 ->
          t0 < ntasks s /\ dact (disp s) = Some (owner s t0) /\ tph s t0 = TDone /\ c_fail c t0 = true;
  i_noerr : err s = None -> forall t, t < ntasks s -> dact (disp s) = Some (owner s t) ->
            (tph s t = TDone -> c_fail c t = false) /\ tph s t <> TSkipped;
  i_rnil : forall j, jresult (jobs s j) = Some RNil ->
           forall t, t < ntasks s -> owner s t = j -> tph s t = TDone /\ c_fail c t = false;
  i_rerr : forall j t0, jresult (jobs s j) = Some (RErr t0) ->
           (t0 < ntasks s /\ owner s t0 = j /\ tph s t0 = TDone /\ c_fail c t0 = true) /\
           forall t, t < ntasks s -> owner s t = j -> tph s t = TDone \/ tph s t = TSkipped;
  i_rshut : forall j, jresult (jobs s j) = Some RShutdown ->
            shutdown s = true /\ forall t, t < ntasks s -> owner s t = j -> tph s t = TQueued;
  (* the event log *)
  l_begin : forall t, nbegin t (log s) = if begun (tph s t) then 1 else 0;
  l_end : forall t ok, In (EvEnd t ok) (log s) <->
          (ok = negb (c_fail c t) /\ (tph s t = TRan ok \/ tph s t = TDone));
  l_res : forall j r, In (EvResult j r) (log s) <-> jresult (jobs s j) = Some r;
  l_go : forall j t, In (EvGo j t) (log s) <-> (t < ntasks s /\ owner s t = j);
  l_stop : In EvStop (log s) <-> shutdown s = true;
  l_stopret : In EvStopRet (log s) <-> stop s = SRet;
  l_newjob : forall j, In (EvNewJob j) (log s) <-> j < njobs s;
  (* shutdown *)
  s_shutdown : shutdown s = negb (is_snone (stop s));
  s_qclosed : qclosed s = after_close (stop s);
  s_final : disp s = DFinal \/ disp s = DDone -> qclosed s = true /\ queue s = [];
  s_trig : triggered s = true <-> disp s = DDone;
  s_stopclosed : stopclosed s = after_ack (stop s);
  s_stoptrig : stopclosed s = true -> triggered s = true;
  s_exited : forall w, wst s w = WExited -> stopclosed s = true /\ w < c_nw c;
  s_recv : forall k, stop s = SRecv k -> k = cnt (fun w => wexited (wst s w)) (c_nw c);
  s_ret : stop s = SRet -> cnt (fun w => wexited (wst s w)) (c_nw c) = c_nw c
}.

Ltac prep :=
  let c := fresh "c" in let s := fresh "s" in let l := fresh "l" in let s' := fresh "s'" in
  intros c s l s' Hfix HI H; destruct l; step_inv H; subst s'; unfold_sets; proj_simpl.


(* facts the invariant gives about the objects a label touches *)
Ltac facts HI :=
  try match goal with
  | E : disp ?s = DSend ?j ?t |- _ =>
      let F1 := fresh "Fs_lt" in let F2 := fresh "Fs_own" in let F3 := fresh "Fs_ph" in
      destruct (i_send _ _ HI _ _ E) as (F1 & F2 & F3)
  end;
  try match goal with
  | E : disp ?s = DWait ?j |- _ =>
      let F1 := fresh "Fw_cl" in let F2 := fresh "Fw_nil" in
      destruct (i_wait _ _ HI _ E) as (F1 & F2)
  end;
  try match goal with
  | E : wst ?s ?w = ?X |- _ =>
      match X with
      | WGot ?t => idtac | WRun ?t => idtac | WRan ?t _ => idtac
      end;
      let Hw := fresh "Fw_task" in
      let F1 := fresh "Fw_lt" in let F2 := fresh "Ft_lt" in let F3 := fresh "Ft_ph" in
      assert (Hw : wtask (wst s w) = Some (match X with WGot t | WRun t | WRan t _ => t | _ => 0 end))
        by (rewrite E; reflexivity);
      cbn beta iota in Hw;
      destruct (i_wtask _ _ HI _ _ Hw) as (F1 & F2 & F3); rewrite E in F3; cbn [wph] in F3
  end;
  try match goal with
  | E : jtasks (jobs ?s ?j) = ?t :: ?rest |- _ =>
      let Hin := fresh "Fq_in" in
      let F1 := fresh "Fq_lt" in let F2 := fresh "Fq_own" in let F3 := fresh "Fq_ph" in
      assert (Hin : In t (jtasks (jobs s j))) by (rewrite E; left; reflexivity);
      destruct (i_jtasks _ _ HI _ _ Hin) as (F1 & F2 & F3)
  end;
  try match goal with
  | E : (?j <? njobs ?s) && negb (jclosed (jobs ?s ?j)) = true |- _ =>
      let F1 := fresh "Fj_lt" in let F2 := fresh "Fj_open" in
      apply andb_true_iff in E; destruct E as (F1 & F2);
      apply Nat.ltb_lt in F1; apply negb_true_iff in F2
  end.

Ltac prepf := prep;
  match goal with Hf : c_fixed _ = true |- _ => rewrite ?Hf in * end;
  match goal with HI : Inv _ _ |- _ => facts HI end.
Ltac tphcase :=
  match goal with
  | Hq : context [upd (tph _) ?a _ ?b] |- _ => upd_case a b
  | |- context [upd (tph _) ?a _ ?b] => upd_case a b
  end.
Ltac jobcase :=
  match goal with
  | Hq : context [upd (jobs _) ?a _ ?b] |- _ => upd_case a b
  | |- context [upd (jobs _) ?a _ ?b] => upd_case a b
  end; cbn [jtasks jclosed jresult] in *.
Ltac wcase :=
  match goal with
  | Hq : context [upd (wst _) ?a _ ?b] |- _ => upd_case a b
  | |- context [upd (wst _) ?a _ ?b] => upd_case a b
  end; cbn [wtask wph wexited] in *.

Lemma cnt_upd_same : forall A (p : A -> bool) (f : nat -> A) t v n,
  p v = p (f t) -> cnt (fun x => p (upd f t v x)) n = cnt (fun x => p (f x)) n.
Proof.
  intros A p f t v n H. apply cnt_ext. intros i _. unfold upd.
  destruct (Nat.eqb_spec t i); [subst; auto|reflexivity].
Qed.
Lemma cnt_upd_inc : forall A (p : A -> bool) (f : nat -> A) t v n,
  t < n -> p (f t) = false -> p v = true ->
  cnt (fun x => p (upd f t v x)) n = S (cnt (fun x => p (f x)) n).
Proof.
  intros A p f t v n Ht Hf Hv. apply (cnt_inc _ _ n t); auto.
  - now rewrite upd_eq.
  - intros i Hi. rewrite upd_neq; auto.
Qed.
Lemma cnt_upd_dec : forall A (p : A -> bool) (f : nat -> A) t v n,
  t < n -> p (f t) = true -> p v = false ->
  cnt (fun x => p (f x)) n = S (cnt (fun x => p (upd f t v x)) n).
Proof.
  intros A p f t v n Ht Hf Hv. apply (cnt_dec _ _ n t); auto.
  - now rewrite upd_eq.
  - intros i Hi. rewrite upd_neq; auto.
Qed.

Lemma jres_upd_same : forall (J : jid -> jrec) j a b j0,
  jresult (upd J j (mkJ a b (jresult (J j))) j0) = jresult (J j0).
Proof. intros. unfold upd. destruct (Nat.eqb_spec j j0); [subst|]; reflexivity. Qed.
Ltac qsplit := split; [|split; [|split; [|split]]].

Lemma cur_nores : forall c s j, Inv c s -> dcur (disp s) = Some j ->
  j < njobs s /\ jresult (jobs s j) = None.
Proof.
  intros c s j HI H. destruct (i_queue _ _ HI) as (k & Hk & _ & _ & _ & Hcur).
  destruct (Hcur j H) as (A & B). split; [lia|assumption].
Qed.
Lemma res_lt : forall c s j r, Inv c s -> jresult (jobs s j) = Some r -> j < njobs s.
Proof.
  intros c s j r HI H. destruct (i_queue _ _ HI) as (k & Hk & _ & _ & Hge & _).
  destruct (Nat.lt_ge_cases j k) as [Hl|Hg]; [lia|]. rewrite (Hge j Hg) in H. discriminate.
Qed.
(* facts about the dispatcher's current job *)
Ltac dfacts HI :=
  try match goal with
  | E : disp ?s = ?X |- _ =>
      match X with DGot ?j => idtac | DLoop ?j => idtac | DSend ?j _ => idtac | DWait ?j => idtac end;
      let Hc := fresh "Fd_cur" in let F1 := fresh "Fd_lt" in let F2 := fresh "Fd_nores" in
      assert (Hc : dcur (disp s) = Some (match X with DGot j | DLoop j | DSend j _ | DWait j => j | _ => 0 end))
        by (rewrite E; reflexivity);
      cbn beta iota in Hc;
      destruct (cur_nores _ _ _ HI Hc) as (F1 & F2)
  end.
Ltac prepd := prepf; match goal with HI : Inv _ _ |- _ => dfacts HI end.

Lemma tphase_eq_dec : forall a b : tphase, {a = b} + {a <> b}.
Proof. decide equality. apply bool_dec. Qed.

Lemma pending_queued : forall c s j t, Inv c s -> dact (disp s) <> Some j -> jresult (jobs s j) = None ->
  t < ntasks s -> owner s t = j -> tph s t = TQueued.
Proof.
  intros c s j t HI Hd Hr Ht Ho.
  destruct (tphase_eq_dec (tph s t) TQueued) as [|Hne]; [assumption|].
  destruct (i_taken _ _ HI t Ht Hne) as [Hl|(r & Hr' & _)]; congruence.
Qed.

Lemma complete_done : forall c s j t, Inv c s -> disp s = DWait j -> sg s = 0 ->
  t < ntasks s -> owner s t = j -> tph s t = TDone \/ tph s t = TSkipped.
Proof.
  intros c s j t HI Hd Hsg Ht Ho.
  destruct (i_wait _ _ HI _ Hd) as (_ & Hnil).
  rewrite (i_sg _ _ HI) in Hsg. pose proof (cnt_zero _ _ Hsg t Ht) as Hz. cbn beta in Hz.
  pose proof (i_notnew _ _ HI t Ht) as Hnn.
  pose proof (i_queued _ _ HI t Ht) as Hq. rewrite Ho, Hnil in Hq.
  destruct (tph s t); cbn in Hz; try discriminate; auto; try congruence.
  destruct (Hq eq_refl).
Qed.

(* ------------------------------------------------------------------------------------------------ *)
(* 3. preservation: one lemma per clause of the invariant ([prepf]/[prepd] split a step into its    *)
(*    enabled branches and add the facts the invariant gives about the objects the label touches)    *)
(* ------------------------------------------------------------------------------------------------ *)
Lemma p_new : forall c s l s', c_fixed c = true -> Inv c s -> step c s l = Some s' -> forall t, ntasks s' <= t -> tph s' t = TNew.
Proof.
  prepf. all: intros x Hx. all: try (eapply i_new; eauto; fail).
  all: rewrite upd_neq by lia; eapply i_new; eauto; lia.
Qed.
Lemma p_notnew : forall c s l s', c_fixed c = true -> Inv c s -> step c s l = Some s' -> forall t, t < ntasks s' -> tph s' t <> TNew.
Proof.
  prepf. all: intros x Hx. all: try (eapply i_notnew; eauto; fail).
  all: match goal with |- upd _ ?a _ ?b <> _ => upd_case a b end; try discriminate; eapply i_notnew; eauto; lia.
Qed.
Lemma p_owner : forall c s l s', c_fixed c = true -> Inv c s -> step c s l = Some s' -> forall t, t < ntasks s' -> owner s' t < njobs s'.
Proof.
  prepf. all: intros x Hx. all: try (eapply i_owner; eauto; fail).
  - apply Nat.lt_lt_succ_r. eapply i_owner; eauto.
  - upd_case (ntasks s) x; auto. eapply i_owner; eauto; lia.
Qed.
Lemma p_queued : forall c s l s', c_fixed c = true -> Inv c s -> step c s l = Some s' ->
  forall t, t < ntasks s' -> tph s' t = TQueued -> In t (jtasks (jobs s' (owner s' t))).
Proof.
  prepf. all: intros x Hx Hq. all: try (eapply i_queued; eauto; fail).
  all: try (tphcase; try discriminate; try (eapply i_queued; eauto; fail)).
  - rewrite upd_neq; [eapply i_queued; eauto|]. pose proof (i_owner _ _ HI x Hx). lia.
  - cbn [jtasks]. apply in_or_app; right; now left.
  - jobcase; [apply in_or_app; left|]; eapply i_queued; eauto; lia.
  - jobcase; eapply i_queued; eauto.
  - jobcase; eapply i_queued; eauto.
  - pose proof (i_queued _ _ HI x Hx Hq) as Hin. jobcase; auto.
    rewrite E0 in Hin. destruct Hin; [congruence|auto].
  - jobcase; eapply i_queued; eauto.
Qed.
Lemma p_jtasks : forall c s l s', c_fixed c = true -> Inv c s -> step c s l = Some s' ->
  forall j t, In t (jtasks (jobs s' j)) -> t < ntasks s' /\ owner s' t = j /\ tph s' t = TQueued.
Proof.
  prepf. all: intros j' x Hin. all: try (eapply i_jtasks; eauto; fail).
  all: try (destruct (i_jtasks _ _ HI _ _ Hin) as (A & B & C); repeat split; auto; rewrite upd_neq; auto; congruence).
  - jobcase; [destruct Hin|eapply i_jtasks; eauto].
  - jobcase.
    + apply in_app_or in Hin. destruct Hin as [Hin|[<-|[]]].
      * destruct (i_jtasks _ _ HI _ _ Hin) as (A & B & C).
        rewrite !upd_neq by lia. auto.
      * rewrite !upd_eq. auto.
    + destruct (i_jtasks _ _ HI _ _ Hin) as (A & B & C).
      rewrite !upd_neq by lia. auto.
  - jobcase; eapply i_jtasks; eauto.
  - jobcase; eapply i_jtasks; eauto.
  - pose proof (i_nodup _ _ HI j) as Hnd. rewrite E0 in Hnd. apply NoDup_cons_iff in Hnd. destruct Hnd as [Hni Hnd'].
    jobcase.
    + assert (Hin' : In x (jtasks (jobs s j))) by (rewrite E0; now right).
      destruct (i_jtasks _ _ HI _ _ Hin') as (A & B & C). repeat split; auto.
      rewrite upd_neq; auto. intros ->; contradiction.
    + destruct (i_jtasks _ _ HI _ _ Hin) as (A & B & C). repeat split; auto.
      rewrite upd_neq; auto. congruence.
  - jobcase; eapply i_jtasks; eauto.
Qed.
Lemma p_nodup : forall c s l s', c_fixed c = true -> Inv c s -> step c s l = Some s' ->
  forall j, NoDup (jtasks (jobs s' j)).
Proof.
  prepf. all: intros j'. all: try (eapply i_nodup; eauto; fail).
  all: jobcase; try (eapply i_nodup; eauto; fail).
  - constructor.
  - apply NoDup_snoc; [eapply i_nodup; eauto|]. intros Hin.
    destruct (i_jtasks _ _ HI _ _ Hin) as (A & B & C). lia.
  - pose proof (i_nodup _ _ HI j) as Hnd. rewrite E0 in Hnd. apply NoDup_cons_iff in Hnd. tauto.
Qed.
Lemma p_held : forall c s l s', c_fixed c = true -> Inv c s -> step c s l = Some s' ->
  forall t, t < ntasks s' -> tph s' t = THeld -> disp s' = DSend (owner s' t) t.
Proof.
  prepf. all: intros x Hx Hq. all: try (eapply i_held; eauto; fail).
  all: try (pose proof (i_held _ _ HI x Hx Hq); congruence).
  all: try (tphcase; try discriminate; try (pose proof (i_held _ _ HI x Hx Hq); congruence)).
  - eapply i_held; eauto; lia.
  - congruence.
Qed.
Lemma p_send : forall c s l s', c_fixed c = true -> Inv c s -> step c s l = Some s' ->
  forall j t, disp s' = DSend j t -> t < ntasks s' /\ owner s' t = j /\ tph s' t = THeld.
Proof.
  prepf. all: intros j' x Hd. all: try (eapply i_send; eauto; fail). all: try discriminate.
  all: try (destruct (i_send _ _ HI _ _ Hd) as (A & B & C); repeat split; auto; rewrite upd_neq; auto; congruence).
  - destruct (i_send _ _ HI _ _ Hd) as (A & B & C). rewrite !upd_neq by lia. auto.
  - injection Hd as <- <-. rewrite upd_eq. auto.
Qed.
Lemma p_wtask : forall c s l s', c_fixed c = true -> Inv c s -> step c s l = Some s' ->
  forall w t, wtask (wst s' w) = Some t -> w < c_nw c /\ t < ntasks s' /\ tph s' t = wph (wst s' w).
Proof.
  prepf. all: intros w' x Hw. all: try (eapply i_wtask; eauto; fail).
  - destruct (i_wtask _ _ HI _ _ Hw) as (A & B & C). rewrite upd_neq by lia. auto.
  - destruct (i_wtask _ _ HI _ _ Hw) as (A & B & C). rewrite upd_neq; auto.
    intros ->. rewrite Fq_ph in C. destruct (wst s w'); discriminate.
  - wcase.
    + cbn in Hw. injection Hw as <-. rewrite upd_eq. apply Nat.ltb_lt in E1. auto.
    + destruct (i_wtask _ _ HI _ _ Hw) as (A & B & C). rewrite upd_neq; auto.
      intros ->. rewrite Fs_ph in C. destruct (wst s w'); discriminate.
  - wcase; [discriminate|].
    destruct (i_wtask _ _ HI _ _ Hw) as (A & B & C). rewrite upd_neq; auto.
    intros ->. apply Hne. eapply i_winj; eauto.
  - wcase.
    + cbn in Hw. injection Hw as <-. rewrite upd_eq. auto.
    + destruct (i_wtask _ _ HI _ _ Hw) as (A & B & C). rewrite upd_neq; auto.
      intros ->. apply Hne. eapply i_winj; eauto.
  - wcase.
    + cbn in Hw. injection Hw as <-. rewrite upd_eq. auto.
    + destruct (i_wtask _ _ HI _ _ Hw) as (A & B & C). rewrite upd_neq; auto.
      intros ->. apply Hne. eapply i_winj; eauto.
  - wcase; [discriminate|].
    destruct (i_wtask _ _ HI _ _ Hw) as (A & B & C). rewrite upd_neq; auto.
    intros ->. apply Hne. eapply i_winj; eauto.
  - wcase; [discriminate|]. eapply i_wtask; eauto.
Qed.
Lemma p_winj : forall c s l s', c_fixed c = true -> Inv c s -> step c s l = Some s' ->
  forall w w' t, wtask (wst s' w) = Some t -> wtask (wst s' w') = Some t -> w = w'.
Proof.
  prepf. all: intros w1 w2 x Hw1 Hw2. all: try (eapply i_winj; eauto; fail).
  all: upd_case w w1; upd_case w w2; cbn [wtask] in *; auto; try discriminate; try (eapply i_winj; eauto; fail).
  all: try (injection Hw1 as <-); try (injection Hw2 as <-).
  all: try (exfalso; apply Hne; eapply i_winj; eauto; fail).
  all: try (exfalso; apply Hne0; eapply i_winj; eauto; fail).
  - exfalso. destruct (i_wtask _ _ HI _ _ Hw2) as (A & B & C). rewrite Fs_ph in C.
    destruct (wst s w2); discriminate.
  - exfalso. destruct (i_wtask _ _ HI _ _ Hw1) as (A & B & C). rewrite Fs_ph in C.
    destruct (wst s w1); discriminate.
Qed.
Lemma p_tw : forall c s l s', c_fixed c = true -> Inv c s -> step c s l = Some s' ->
  forall t, t < ntasks s' ->
         (tph s' t = TGot \/ tph s' t = TRun \/ exists ok, tph s' t = TRan ok) ->
         exists w, wtask (wst s' w) = Some t.
Proof.
  prepf. all: intros x Hx Hp. all: try (eapply i_tw; eauto; fail).
  all: try tphcase.
  all: try (exfalso; destruct Hp as [Hp|[Hp|[? Hp]]]; discriminate).
  all: try (exists w; rewrite upd_eq; reflexivity).
  all: try (eapply i_tw; eauto; lia).
  all: destruct (i_tw _ _ HI x ltac:(lia) Hp) as (w0 & Hw0); exists w0; rewrite upd_neq; auto;
       intros ->; match goal with E : wst _ w0 = _ |- _ => rewrite E in Hw0 end; cbn in Hw0; congruence.
Qed.
Lemma p_ran : forall c s l s', c_fixed c = true -> Inv c s -> step c s l = Some s' ->
  forall t ok, tph s' t = TRan ok -> ok = negb (c_fail c t).
Proof.
  prepf. all: intros x ok' Hp. all: try (eapply i_ran; eauto; fail).
  all: tphcase; try discriminate; try (eapply i_ran; eauto; fail).
  injection Hp as <-. now apply eqb_prop.
Qed.
Lemma p_active : forall c s l s', c_fixed c = true -> Inv c s -> step c s l = Some s' ->
  forall t, t < ntasks s' -> active (tph s' t) = true -> dact (disp s') = Some (owner s' t).
Proof.
  prepf. all: intros x Hx Hp. all: try (eapply i_active; eauto; fail).
  all: try (pose proof (i_active _ _ HI x Hx Hp) as Ha; rewrite ?E in Ha; cbn [dact] in *; congruence).
  all: try tphcase; try discriminate.
  all: try (pose proof (i_active _ _ HI x ltac:(lia) Hp) as Ha; rewrite ?E in Ha; cbn [dact] in *; congruence).
  all: try (cbn [dact]; congruence).
  all: try (eapply i_active; eauto; match goal with H : tph _ _ = _ |- _ => rewrite H; reflexivity end).
  exfalso. apply Nat.eqb_eq in E0. rewrite (i_sg _ _ HI) in E0.
  pose proof (cnt_zero _ _ E0 x Hx) as Hz. cbn beta in Hz. congruence.
Qed.
Lemma p_sg : forall c s l s', c_fixed c = true -> Inv c s -> step c s l = Some s' ->
  sg s' = cnt (fun t => active (tph s' t)) (ntasks s').
Proof.
  prepf. all: try (eapply i_sg; eauto; fail).
  - cbn [cnt]. rewrite upd_eq. cbn [active]. rewrite Nat.add_0_r.
    rewrite (i_sg _ _ HI). apply cnt_ext. intros i Hi. rewrite upd_neq by lia. reflexivity.
  - rewrite (cnt_upd_inc _ active); auto; [|now rewrite Fq_ph]. now rewrite (i_sg _ _ HI).
  - rewrite (cnt_upd_same _ active); [apply (i_sg _ _ HI)|now rewrite Fs_ph].
  - rewrite (i_sg _ _ HI). rewrite (cnt_upd_dec _ active (tph s) t TSkipped); auto. now rewrite Ft_ph.
  - rewrite (cnt_upd_same _ active); [apply (i_sg _ _ HI)|now rewrite Ft_ph].
  - rewrite (cnt_upd_same _ active); [apply (i_sg _ _ HI)|now rewrite Ft_ph].
  - rewrite (i_sg _ _ HI). rewrite (cnt_upd_dec _ active (tph s) t TDone); auto. now rewrite Ft_ph.
Qed.

Lemma p_queue : forall c s l s', c_fixed c = true -> Inv c s -> step c s l = Some s' ->
  exists k, k <= njobs s' /\ queue s' = seq k (njobs s' - k) /\
            (forall j, j < k -> dcur (disp s') = Some j \/ jresult (jobs s' j) <> None) /\
            (forall j, k <= j -> jresult (jobs s' j) = None) /\
            (forall j, dcur (disp s') = Some j -> S j = k /\ jresult (jobs s' j) = None).
Proof.
  prepf. all: destruct (i_queue _ _ HI) as (q0 & Hk & Hq & Hlt & Hge & Hcur).
  all: try (exists q0; repeat split; auto; fail).
  all: try (rewrite E in *; cbn [dcur] in *; exists q0; repeat split; auto; fail).
  all: try (exists q0; split; [|split; [|split; [|split]]]; auto; fail).
  all: try (rewrite E in *; cbn [dcur] in *; exists q0; split; [|split; [|split; [|split]]]; auto; fail).
  all: try (exists q0; qsplit; auto; fail).
  all: try (rewrite E in *; cbn [dcur] in *; exists q0; qsplit; auto; fail).
  - (* NewJob *) exists q0. qsplit.
    + lia.
    + rewrite Hq. replace (S (njobs s) - q0) with (S (njobs s - q0)) by lia.
      rewrite seq_S. do 2 f_equal. lia.
    + intros j Hj. rewrite upd_neq by lia. auto.
    + intros j Hj. upd_case (njobs s) j; [reflexivity|]. apply Hge; lia.
    + intros j Hj. destruct (Hcur j Hj) as (A & B). rewrite upd_neq by lia. auto.
  - exists q0; qsplit; auto; intros j0 Hj0; rewrite jres_upd_same; auto.
  - exists q0; qsplit; auto; intros j0 Hj0; rewrite jres_upd_same; auto.
  - (* DRecv: queue closed and empty *) rewrite E in *; cbn [dcur] in *. exists q0; qsplit; auto. congruence.
  - (* DRecv: next job *) rewrite E in *; cbn [dcur] in *. rewrite E0 in Hq.
    destruct (njobs s - q0) as [|m] eqn:Em; [discriminate|]. cbn [seq] in Hq. injection Hq as -> ->.
    exists (S q0). qsplit.
    + lia.
    + f_equal. lia.
    + intros j0 Hj0. destruct (Nat.eq_dec j0 q0) as [->|Hne]; [now left|].
      destruct (Hlt j0 ltac:(lia)) as [Hd|Hr]; [discriminate|now right].
    + intros j0 Hj0. apply Hge. lia.
    + intros j0 Hj0. injection Hj0 as <-. split; [reflexivity|]. apply Hge; lia.
  - (* DCheck: shutdown result *) rewrite E in *; cbn [dcur] in *.
    destruct (Hcur j eq_refl) as (A & B). exists q0. qsplit; auto.
    + intros j0 Hj0. right. jobcase; [discriminate|].
      destruct (Hlt j0 Hj0) as [Hd|Hr]; [congruence|auto].
    + intros j0 Hj0. rewrite upd_neq by lia. auto.
    + discriminate.
  - (* DTake *) rewrite E in *; cbn [dcur] in *.
    exists q0; qsplit; auto; intros j0 Hj0; rewrite jres_upd_same; auto.
  - (* DComplete *) rewrite E in *; cbn [dcur] in *.
    destruct (Hcur j eq_refl) as (A & B). exists q0. qsplit; auto.
    + intros j0 Hj0. right. jobcase; [discriminate|].
      destruct (Hlt j0 Hj0) as [Hd|Hr]; [congruence|auto].
    + intros j0 Hj0. rewrite upd_neq by lia. auto.
    + discriminate.
Qed.
Lemma p_wait : forall c s l s', c_fixed c = true -> Inv c s -> step c s l = Some s' ->
  forall j, disp s' = DWait j -> jclosed (jobs s' j) = true /\ jtasks (jobs s' j) = [].
Proof.
  prepd. all: intros j' Hd. all: try (eapply i_wait; eauto; fail). all: try discriminate.
  - dfacts HI. rewrite upd_neq by lia. eapply i_wait; eauto.
  - destruct (i_wait _ _ HI _ Hd) as (A & B). jobcase; [congruence|auto].
  - destruct (i_wait _ _ HI _ Hd) as (A & B). jobcase; auto.
  - injection Hd as <-. auto.
Qed.
Lemma p_resclosed : forall c s l s', c_fixed c = true -> Inv c s -> step c s l = Some s' ->
  forall j r, jresult (jobs s' j) = Some r -> r <> RShutdown ->
                jclosed (jobs s' j) = true /\ jtasks (jobs s' j) = [].
Proof.
  prepd. all: intros j' r Hr Hns. all: try (eapply i_resclosed; eauto; fail).
  all: jobcase; try (eapply i_resclosed; eauto; fail); try congruence.
  - discriminate.
  - destruct (i_resclosed _ _ HI _ _ Hr Hns). congruence.
  - destruct (i_resclosed _ _ HI _ _ Hr Hns). auto.
  - auto.
Qed.
Lemma p_taken : forall c s l s', c_fixed c = true -> Inv c s -> step c s l = Some s' ->
  forall t, t < ntasks s' -> tph s' t <> TQueued ->
            dact (disp s') = Some (owner s' t) \/
            exists r, jresult (jobs s' (owner s' t)) = Some r /\ r <> RShutdown.
Proof.
  prepd. all: intros x Hx Hp. all: try (eapply i_taken; eauto; fail).
  all: try tphcase.
  all: try (exfalso; apply Hp; reflexivity).
  (* the task that moved *)
  all: try (left; cbn [dact]; congruence).
  all: try (left; eapply i_active; eauto; match goal with H : tph _ _ = _ |- _ => rewrite H; reflexivity end).
  (* other tasks *)
  all: destruct (i_taken _ _ HI x ltac:(first [assumption|lia]) ltac:(assumption)) as [Hl|(r & Hr & Hn)].
  all: try (left; assumption).
  all: try (left; rewrite ?E in Hl; cbn [dact] in *; congruence).
  all: try (rewrite ?E in Hl; cbn [dact] in *; discriminate).
  all: try (right; exists r; split; auto; rewrite ?jres_upd_same; auto; fail).
  - right. exists r. split; auto. rewrite upd_neq; auto. pose proof (i_owner _ _ HI x Hx). lia.
  - right. exists r. split; auto. rewrite upd_neq; auto. congruence.
  - right. rewrite E in Hl. cbn [dact] in Hl. injection Hl as Hl. rewrite <- Hl, upd_eq. cbn [jresult].
    eexists; split; [reflexivity|]. destruct (err s); discriminate.
  - right. exists r. split; auto. rewrite upd_neq; auto. congruence.
Qed.

Lemma p_err : forall c s l s', c_fixed c = true -> Inv c s -> step c s l = Some s' ->
  forall t0, err s' = Some t0 ->
          t0 < ntasks s' /\ dact (disp s') = Some (owner s' t0) /\ tph s' t0 = TDone /\ c_fail c t0 = true.
Proof.
  prepd. all: intros x He. all: try (eapply i_err; eauto; fail). all: try discriminate.
  all: try (destruct (i_err _ _ HI _ He) as (A & B & C & D); rewrite ?E in B; cbn [dact] in *; try discriminate;
            repeat split; auto; try lia; rewrite ?upd_neq; auto; congruence).
  - destruct (i_err _ _ HI _ He) as (A & B & C & D). rewrite !upd_neq by lia. repeat split; auto.
  - injection He as <-. destruct (i_err _ _ HI _ E0) as (A & B & C & D).
    repeat split; auto. rewrite upd_neq; auto. congruence.
  - assert (Hold : forall y, err s = Some y -> y < ntasks s /\ dact (disp s) = Some (owner s y) /\
                 upd (tph s) t TDone y = TDone /\ c_fail c y = true).
    { intros y Hy. destruct (i_err _ _ HI _ Hy) as (A & B & C & D). repeat split; auto.
      rewrite upd_neq; auto. congruence. }
    destruct ok; [auto|]. destruct (err s) as [y|] eqn:Ee; [auto|].
    injection He as <-. rewrite upd_eq. repeat split; auto.
    + eapply i_active; eauto. now rewrite Ft_ph.
    + pose proof (i_ran _ _ HI _ _ Ft_ph) as Hr. destruct (c_fail c t); [reflexivity|discriminate].
Qed.
Lemma p_noerr : forall c s l s', c_fixed c = true -> Inv c s -> step c s l = Some s' ->
  err s' = None -> forall t, t < ntasks s' -> dact (disp s') = Some (owner s' t) ->
            (tph s' t = TDone -> c_fail c t = false) /\ tph s' t <> TSkipped.
Proof.
  prepd. all: intros He x Hx Hd. all: try (eapply i_noerr; eauto; fail). all: try discriminate.
  all: try (rewrite ?E in *; cbn [dact] in *; eapply i_noerr; eauto; rewrite ?E; cbn [dact]; auto; fail).
  - tphcase; [split; [discriminate|discriminate]|]. eapply i_noerr; eauto. lia.
  - cbn [dact] in Hd. injection Hd as Hd.
    rewrite (pending_queued c s j x); auto; [split; discriminate|]. rewrite E. discriminate.
  - tphcase; [split; discriminate|]. eapply i_noerr; eauto. rewrite E. exact Hd.
  - tphcase; [split; discriminate|]. eapply i_noerr; eauto. rewrite E. exact Hd.
  - tphcase; [split; discriminate|]. eapply i_noerr; eauto.
  - tphcase; [split; discriminate|]. eapply i_noerr; eauto.
  - destruct ok.
    + tphcase; [|eapply i_noerr; eauto]. split; [intros _|discriminate].
      pose proof (i_ran _ _ HI _ _ Ft_ph) as Hr. destruct (c_fail c t); [discriminate|reflexivity].
    + destruct (err s); discriminate.
Qed.
Lemma p_rnil : forall c s l s', c_fixed c = true -> Inv c s -> step c s l = Some s' ->
  forall j, jresult (jobs s' j) = Some RNil ->
           forall t, t < ntasks s' -> owner s' t = j -> tph s' t = TDone /\ c_fail c t = false.
Proof.
  prepd. all: intros j' Hr x Hx Ho. all: try (eapply i_rnil; eauto; fail).
  all: try (destruct (i_rnil _ _ HI _ Hr x Hx Ho) as (A & B); split; auto; rewrite upd_neq; auto; congruence).
  - jobcase; [cbn in Hr; discriminate|]. eapply i_rnil; eauto.
  - jobcase.
    + destruct (i_resclosed _ _ HI _ _ Hr ltac:(discriminate)). congruence.
    + upd_case (ntasks s) x; [congruence|]. eapply i_rnil; eauto. lia.
  - jobcase; eapply i_rnil; eauto.
  - jobcase; [discriminate|]. eapply i_rnil; eauto.
  - jobcase; [congruence|].
    destruct (i_rnil _ _ HI _ Hr x Hx Ho) as (A & B). split; auto. rewrite upd_neq; auto. congruence.
  - jobcase; [|eapply i_rnil; eauto].
    apply Nat.eqb_eq in E0. destruct (err s) eqn:Ee; [discriminate|].
    destruct (i_noerr _ _ HI Ee x Hx) as (A & B); [rewrite E; cbn; congruence|].
    destruct (complete_done c s _ x HI E E0 Hx Ho) as [Hd|Hd]; [auto|contradiction].
Qed.
Lemma p_rerr : forall c s l s', c_fixed c = true -> Inv c s -> step c s l = Some s' ->
  forall j t0, jresult (jobs s' j) = Some (RErr t0) ->
           (t0 < ntasks s' /\ owner s' t0 = j /\ tph s' t0 = TDone /\ c_fail c t0 = true) /\
           forall t, t < ntasks s' -> owner s' t = j -> tph s' t = TDone \/ tph s' t = TSkipped.
Proof.
  prepd. all: intros j' x0 Hr. all: try (eapply i_rerr; eauto; fail).
  all: try (destruct (i_rerr _ _ HI _ _ Hr) as ((A & B & C & D) & G); split; [repeat split; auto|intros x Hx Ho; specialize (G x Hx Ho)];
            rewrite upd_neq; auto; intros ->; destruct G; congruence).
  all: try (destruct (i_rerr _ _ HI _ _ Hr) as ((A & B & C & D) & G);
     assert (Hney : forall y, y < ntasks s -> owner s y = j' -> t <> y)
       by (intros y Hy Hoy ->; destruct (G _ Hy Hoy); congruence);
     split; [repeat split; auto; rewrite upd_neq; auto | intros y Hy Hoy; rewrite upd_neq; auto]; fail).
  - jobcase; [cbn in Hr; discriminate|]. eapply i_rerr; eauto.
  - jobcase.
    + destruct (i_resclosed _ _ HI _ _ Hr ltac:(discriminate)). congruence.
    + destruct (i_rerr _ _ HI _ _ Hr) as ((A & B & C & D) & G).
      split; [rewrite !upd_neq by lia; repeat split; auto|].
      intros y Hy Hoy. upd_case (ntasks s) y; [congruence|]. apply G; auto. lia.
  - jobcase; eapply i_rerr; eauto.
  - jobcase; [discriminate|]. eapply i_rerr; eauto.
  - jobcase; [congruence|].
    destruct (i_rerr _ _ HI _ _ Hr) as ((A & B & C & D) & G).
    assert (Hney : forall y, y < ntasks s -> owner s y = j' -> t <> y)
       by (intros y Hy Hoy ->; destruct (G _ Hy Hoy); congruence).
    split; [repeat split; auto; rewrite upd_neq; auto | intros y Hy Hoy; rewrite upd_neq; auto].
  - jobcase; [|eapply i_rerr; eauto].
    apply Nat.eqb_eq in E0. destruct (err s) as [e|] eqn:Ee; [|discriminate].
    injection Hr as <-. destruct (i_err _ _ HI _ Ee) as (A & B & C & D).
    rewrite E in B. cbn [dact] in B. injection B as B.
    split; [auto|]. intros y Hy Hoy. eapply complete_done; eauto.
Qed.
Lemma p_rshut : forall c s l s', c_fixed c = true -> Inv c s -> step c s l = Some s' ->
  forall j, jresult (jobs s' j) = Some RShutdown ->
            shutdown s' = true /\ forall t, t < ntasks s' -> owner s' t = j -> tph s' t = TQueued.
Proof.
  prepd. all: intros j' Hr. all: try (eapply i_rshut; eauto; fail).
  all: try (destruct (i_rshut _ _ HI _ Hr) as (A & G); split; auto; fail).
  all: try (destruct (i_rshut _ _ HI _ Hr) as (A & G); split; auto; intros y Hy Hoy; rewrite upd_neq; auto;
            intros ->; specialize (G _ Hy Hoy); congruence).
  - jobcase; [cbn in Hr; discriminate|]. destruct (i_rshut _ _ HI _ Hr) as (A & G). congruence.
  - destruct (i_rshut _ _ HI j') as (A & G); [jobcase; auto|]. split; auto.
    intros y Hy Hoy. upd_case (ntasks s) y; [reflexivity|].
    apply G; [lia|auto].
  - jobcase; eapply i_rshut; eauto.
  - jobcase; [|eapply i_rshut; eauto]. split; auto.
    intros y Hy Hoy. eapply pending_queued; eauto. rewrite E; discriminate.
  - jobcase; [congruence|]. destruct (i_rshut _ _ HI _ Hr) as (A & G). split; auto.
    intros y Hy Hoy. rewrite upd_neq; auto. congruence.
  - jobcase; [destruct (err s); discriminate|]. eapply i_rshut; eauto.
Qed.

Lemma p_lbegin : forall c s l s', c_fixed c = true -> Inv c s -> step c s l = Some s' ->
  forall t, nbegin t (log s') = if begun (tph s' t) then 1 else 0.
Proof.
  prepf. all: intros x. all: try (eapply l_begin; eauto; fail).
  all: unfold nbegin; cbn [filter is_begin]; fold (nbegin x (log s)); rewrite ?(l_begin _ _ HI x); try reflexivity.
  all: try (tphcase; [|reflexivity]).
  all: try (match goal with H : tph _ _ = _ |- _ => rewrite H; reflexivity end).
  - rewrite (i_new _ _ HI (ntasks s)) by lia. reflexivity.
  - upd_case t x.
    + rewrite Nat.eqb_refl. cbn [length begun]. fold (nbegin t (log s)).
      rewrite (l_begin _ _ HI t), Ft_ph. reflexivity.
    + destruct (Nat.eqb_spec x t) as [->|_]; [contradiction|]. apply (l_begin _ _ HI x).
Qed.
Lemma p_lend : forall c s l s', c_fixed c = true -> Inv c s -> step c s l = Some s' ->
  forall t ok, In (EvEnd t ok) (log s') <->
          (ok = negb (c_fail c t) /\ (tph s' t = TRan ok \/ tph s' t = TDone)).
Proof.
  prepf. all: intros x ok'. all: try (eapply l_end; eauto; fail).
  all: cbn [In]; rewrite ?(l_end _ _ HI x ok').
  all: try (split; [intros [Hd|Hd]; [discriminate|exact Hd]|intros Hd; right; exact Hd]).
  - upd_case (ntasks s) x.
    + pose proof (i_new _ _ HI (ntasks s) ltac:(lia)) as Hn. rewrite Hn.
      intuition (try discriminate).
    + intuition (try discriminate).
  - tphcase; rewrite ?Fq_ph; intuition (try discriminate).
  - tphcase; rewrite ?Fs_ph; intuition (try discriminate).
  - tphcase; rewrite ?Ft_ph; intuition (try discriminate).
  - tphcase; rewrite ?Ft_ph; intuition (try discriminate).
  - apply eqb_prop in E0. tphcase; rewrite ?Ft_ph.
    + split.
      * intros [Hd|(Hd & [Hd'|Hd'])]; try discriminate. injection Hd as <-. split; auto.
      * intros (Hd & [Hd'|Hd']); try discriminate. left. congruence.
    + split; [intros [Hd|Hd]; [congruence|exact Hd]|intros Hd; right; exact Hd].
  - pose proof (i_ran _ _ HI _ _ Ft_ph) as Hr. tphcase; rewrite ?Ft_ph; [|tauto].
    split.
    + intros (Hd & _). split; auto.
    + intros (Hd & _). split; auto. left. congruence.
Qed.
Lemma p_lres : forall c s l s', c_fixed c = true -> Inv c s -> step c s l = Some s' ->
  forall j r, In (EvResult j r) (log s') <-> jresult (jobs s' j) = Some r.
Proof.
  prepd. all: intros j' r. all: try (eapply l_res; eauto; fail).
  all: cbn [In]; rewrite ?(l_res _ _ HI j' r).
  all: try (split; [intros [Hd|Hd]; [discriminate|exact Hd]|intros Hd; right; exact Hd]).
  all: try (rewrite jres_upd_same; try tauto; split; [intros [Hd|Hd]; [discriminate|exact Hd]|intros Hd; right; exact Hd]).
  all: try (rewrite jres_upd_same; tauto).
  - jobcase.
    + pose proof (cur_nores c s) as _. destruct (i_queue _ _ HI) as (k & Hk & _ & _ & Hge & _).
      rewrite (Hge (njobs s) Hk). cbn. intuition discriminate.
    + intuition discriminate.
  - jobcase.
    + rewrite Fd_nores. split; [intros [Hd|Hd]; congruence|intros Hd; left; congruence].
    + split; [intros [Hd|Hd]; [congruence|exact Hd]|intros Hd; right; exact Hd].
  - jobcase.
    + rewrite Fd_nores. split; [intros [Hd|Hd]; congruence|intros Hd; left; congruence].
    + split; [intros [Hd|Hd]; [congruence|exact Hd]|intros Hd; right; exact Hd].
Qed.
Lemma p_lgo : forall c s l s', c_fixed c = true -> Inv c s -> step c s l = Some s' ->
  forall j t, In (EvGo j t) (log s') <-> (t < ntasks s' /\ owner s' t = j).
Proof.
  prepf. all: intros j' x. all: try (eapply l_go; eauto; fail).
  all: cbn [In]; rewrite ?(l_go _ _ HI j' x).
  all: try (split; [intros [Hd|Hd]; [discriminate|exact Hd]|intros Hd; right; exact Hd]).
  upd_case (ntasks s) x.
  - split; [|intros (_ & <-); now left].
    intros [Hd|(Hd & _)]; [injection Hd as <-; split; [lia|reflexivity]|lia].
  - split.
    + intros [Hd|Hd]; [congruence|]. split; [lia|tauto].
    + intros (A & B). right. split; [lia|auto].
Qed.
Lemma p_lstop : forall c s l s', c_fixed c = true -> Inv c s -> step c s l = Some s' ->
  In EvStop (log s') <-> shutdown s' = true.
Proof.
  prepf. all: try (eapply l_stop; eauto; fail).
  all: cbn [In]; rewrite ?(l_stop _ _ HI).
  all: try (split; [intros [Hd|Hd]; [discriminate|exact Hd]|intros Hd; right; exact Hd]).
  all: try (rewrite <- ?E; split; [intros [Hd|Hd]; [discriminate|exact Hd]|intros Hd; right; exact Hd]).
  all: try tauto.
Qed.
Lemma p_lstopret : forall c s l s', c_fixed c = true -> Inv c s -> step c s l = Some s' ->
  In EvStopRet (log s') <-> stop s' = SRet.
Proof.
  prepf. all: try (eapply l_stopret; eauto; fail).
  all: cbn [In]; rewrite ?(l_stopret _ _ HI).
  all: try (split; [intros [Hd|Hd]; [discriminate|exact Hd]|intros Hd; right; exact Hd]).
  all: try (rewrite E; intuition discriminate).
  all: try tauto.
Qed.
Lemma p_lnewjob : forall c s l s', c_fixed c = true -> Inv c s -> step c s l = Some s' ->
  forall j, In (EvNewJob j) (log s') <-> j < njobs s'.
Proof.
  prepf. all: intros j'. all: try (eapply l_newjob; eauto; fail).
  all: cbn [In]; rewrite ?(l_newjob _ _ HI j').
  all: try (split; [intros [Hd|Hd]; [discriminate|exact Hd]|intros Hd; right; exact Hd]).
  split.
  - intros [Hd|Hd]; [injection Hd as <-|]; lia.
  - intros Hd. destruct (Nat.eq_dec j' (njobs s)) as [->|Hne]; [now left|right; lia].
Qed.

Lemma p_sshutdown : forall c s l s', c_fixed c = true -> Inv c s -> step c s l = Some s' ->
  shutdown s' = negb (is_snone (stop s')).
Proof.
  prepf. all: try (eapply s_shutdown; eauto; fail).
  all: pose proof (s_shutdown _ _ HI) as Hs; rewrite ?E in *; cbn in *; congruence.
Qed.
Lemma p_sqclosed : forall c s l s', c_fixed c = true -> Inv c s -> step c s l = Some s' ->
  qclosed s' = after_close (stop s').
Proof.
  prepf. all: try (eapply s_qclosed; eauto; fail).
  all: pose proof (s_qclosed _ _ HI) as Hs; rewrite ?E in *; cbn in *; congruence.
Qed.
Lemma p_sstopclosed : forall c s l s', c_fixed c = true -> Inv c s -> step c s l = Some s' ->
  stopclosed s' = after_ack (stop s').
Proof.
  prepf. all: try (eapply s_stopclosed; eauto; fail).
  all: pose proof (s_stopclosed _ _ HI) as Hs; rewrite ?E in *; cbn in *; congruence.
Qed.
Lemma p_sfinal : forall c s l s', c_fixed c = true -> Inv c s -> step c s l = Some s' ->
  disp s' = DFinal \/ disp s' = DDone -> qclosed s' = true /\ queue s' = [].
Proof.
  prepf. all: intros Hd. all: try (eapply s_final; eauto; fail).
  all: try (destruct Hd; discriminate).
  all: try (eapply s_final; eauto; rewrite E; auto; fail).
  - destruct (s_final _ _ HI Hd). congruence.
  - auto.
  - destruct (s_final _ _ HI Hd). auto.
Qed.
Lemma p_strig : forall c s l s', c_fixed c = true -> Inv c s -> step c s l = Some s' ->
  triggered s' = true <-> disp s' = DDone.
Proof.
  prepf. all: try (eapply s_trig; eauto; fail).
  all: pose proof (s_trig _ _ HI) as Ht; rewrite ?E in Ht.
  all: try (split; [intros Hd; apply Ht in Hd; discriminate|discriminate]).
  - split; auto. intros _.
    destruct (s_final _ _ HI) as (A & B); [rewrite E; auto|].
    pose proof (s_qclosed _ _ HI) as Hq. pose proof (s_shutdown _ _ HI) as Hs.
    rewrite Hs. destruct (stop s); cbn in *; try congruence; apply orb_true_r.
  - rewrite E0 in Ht. exact Ht.
Qed.
Lemma p_sstoptrig : forall c s l s', c_fixed c = true -> Inv c s -> step c s l = Some s' ->
  stopclosed s' = true -> triggered s' = true.
Proof.
  prepf. all: intros Hd. all: try (eapply s_stoptrig; eauto; fail).
  all: try (rewrite (s_stoptrig _ _ HI Hd); reflexivity).
  assumption.
Qed.
Lemma p_sexited : forall c s l s', c_fixed c = true -> Inv c s -> step c s l = Some s' ->
  forall w, wst s' w = WExited -> stopclosed s' = true /\ w < c_nw c.
Proof.
  prepf. all: intros w' Hw. all: try (eapply s_exited; eauto; fail).
  all: try (wcase; [discriminate|eapply s_exited; eauto]).
  - split; auto. eapply s_exited; eauto.
  - wcase.
    + apply andb_true_iff in E1. destruct E1 as (E1 & _). apply andb_true_iff in E1. destruct E1 as (E1 & E2).
      apply Nat.ltb_lt in E1. auto.
    + eapply s_exited; eauto.
Qed.
Lemma p_srecv : forall c s l s', c_fixed c = true -> Inv c s -> step c s l = Some s' ->
  forall k, stop s' = SRecv k -> k = cnt (fun w => wexited (wst s' w)) (c_nw c).
Proof.
  prepf. all: intros k' Hk. all: try (eapply s_recv; eauto; fail). all: try discriminate.
  all: try (rewrite (cnt_upd_same _ wexited);
            [eapply s_recv; eauto | match goal with H : wst _ _ = _ |- _ => rewrite H; reflexivity end]).
  - injection Hk as <-. symmetry. apply cnt_all_false. intros i Hi.
    destruct (wst s i) eqn:Ew; try reflexivity.
    destruct (s_exited _ _ HI _ Ew) as (A & _). rewrite (s_stopclosed _ _ HI), E in A. discriminate.
  - injection Hk as <-. apply andb_true_iff in E1. destruct E1 as (E1 & _). apply andb_true_iff in E1.
    destruct E1 as (E1 & E2). apply Nat.ltb_lt in E1.
    rewrite (cnt_upd_inc _ wexited); auto; [|now rewrite E0]. f_equal. eapply s_recv; eauto.
Qed.
Lemma p_sret : forall c s l s', c_fixed c = true -> Inv c s -> step c s l = Some s' ->
  stop s' = SRet -> cnt (fun w => wexited (wst s' w)) (c_nw c) = c_nw c.
Proof.
  prepf. all: intros Hk. all: try (eapply s_ret; eauto; fail). all: try discriminate.
  all: try (rewrite (cnt_upd_same _ wexited);
            [eapply s_ret; eauto | match goal with H : wst _ _ = _ |- _ => rewrite H; reflexivity end]).
  apply Nat.eqb_eq in E0. subst k. symmetry. eapply s_recv; eauto.
Qed.


(* the invariant holds in every reachable state of the current code *)
Lemma Inv_step : forall c s l s', c_fixed c = true -> Inv c s -> step c s l = Some s' -> Inv c s'.
Proof.
  intros c s l s' Hf HI H. constructor.
  - eapply p_new; eauto.
  - eapply p_notnew; eauto.
  - eapply p_owner; eauto.
  - eapply p_queued; eauto.
  - eapply p_jtasks; eauto.
  - eapply p_nodup; eauto.
  - eapply p_held; eauto.
  - eapply p_send; eauto.
  - eapply p_wtask; eauto.
  - eapply p_winj; eauto.
  - eapply p_tw; eauto.
  - eapply p_ran; eauto.
  - eapply p_taken; eauto.
  - eapply p_active; eauto.
  - eapply p_sg; eauto.
  - eapply p_queue; eauto.
  - eapply p_wait; eauto.
  - eapply p_resclosed; eauto.
  - eapply p_err; eauto.
  - eapply p_noerr; eauto.
  - eapply p_rnil; eauto.
  - eapply p_rerr; eauto.
  - eapply p_rshut; eauto.
  - eapply p_lbegin; eauto.
  - eapply p_lend; eauto.
  - eapply p_lres; eauto.
  - eapply p_lgo; eauto.
  - eapply p_lstop; eauto.
  - eapply p_lstopret; eauto.
  - eapply p_lnewjob; eauto.
  - eapply p_sshutdown; eauto.
  - eapply p_sqclosed; eauto.
  - eapply p_sfinal; eauto.
  - eapply p_strig; eauto.
  - eapply p_sstopclosed; eauto.
  - eapply p_sstoptrig; eauto.
  - eapply p_sexited; eauto.
  - eapply p_srecv; eauto.
  - eapply p_sret; eauto.
Qed.

Lemma Inv_init : forall c, Inv c init.
Proof.
  intros c. constructor; unfold init; proj_simpl; cbn [jtasks jclosed jresult nojob].
  all: try (intros; lia).
  all: try (intros; discriminate).
  all: try (intros; reflexivity).
  all: try (intros; contradiction).
  - intros; constructor.
  - exists 0. qsplit; auto; intros; try lia; discriminate.
  - intros; cbn; intuition discriminate.
  - intros; cbn; intuition discriminate.
  - intros; cbn; intuition lia.
  - cbn; intuition discriminate.
  - cbn; intuition discriminate.
  - intros; cbn; intuition lia.
  - intros [|]; discriminate.
  - intuition discriminate.
Qed.

Lemma Inv_steps : forall c s tr s', c_fixed c = true -> Inv c s -> steps c s tr s' -> Inv c s'.
Proof.
  intros c s tr s' Hf HI H. revert HI. induction H as [|s tr s1 l s2 H IH Hc Hs]; intros HI; auto.
  apply (Inv_step c s1 l s2); auto.
Qed.

Lemma Inv_reachable : forall c s, c_fixed c = true -> reachable c s -> Inv c s.
Proof. intros c s Hf (tr & H). eapply Inv_steps; eauto. apply Inv_init. Qed.


(* ------------------------------------------------------------------------------------------------ *)
(* 4. consequences of the invariant: properties of the event log                                     *)
(* ------------------------------------------------------------------------------------------------ *)

Lemma nbegin_app : forall t l1 l2, nbegin t (l1 ++ l2) = nbegin t l1 + nbegin t l2.
Proof. intros. unfold nbegin. rewrite filter_app, app_length. reflexivity. Qed.

Lemma nbegin_in : forall t l, In (EvBegin t) l <-> nbegin t l >= 1.
Proof.
  intros t l. unfold nbegin. induction l as [|e l IH]; cbn [filter In length].
  - split; [intros []|lia].
  - destruct (is_begin t e) eqn:Eb.
    + cbn [length]. split; [lia|]. intros _. left. destruct e; try discriminate.
      cbn in Eb. apply Nat.eqb_eq in Eb. now subst.
    + rewrite <- IH. split; [intros [->|H]; [|exact H]|now right].
      cbn in Eb. rewrite Nat.eqb_refl in Eb. discriminate.
Qed.

Lemma begin_in_iff : forall c s t, Inv c s -> In (EvBegin t) (log s) <-> begun (tph s t) = true.
Proof.
  intros c s t HI. rewrite nbegin_in, (l_begin _ _ HI t). destruct (begun (tph s t)); split; auto; lia.
Qed.

(* each task begins at most once *)
Lemma at_most_once : forall c tr s t, c_fixed c = true -> steps c init tr s -> nbegin t (log s) <= 1.
Proof.
  intros c tr s t Hf H. assert (HI : Inv c s) by (eapply Inv_steps; eauto; apply Inv_init).
  rewrite (l_begin _ _ HI t). destruct (begun (tph s t)); lia.
Qed.

Lemma at_most_once_split : forall c tr s t l1 l2, c_fixed c = true -> steps c init tr s ->
  log s = l1 ++ EvBegin t :: l2 -> ~ In (EvBegin t) l1 /\ ~ In (EvBegin t) l2.
Proof.
  intros c tr s t l1 l2 Hf H Hl. pose proof (at_most_once c tr s t Hf H) as Hle.
  rewrite Hl, nbegin_app in Hle. change (EvBegin t :: l2) with ([EvBegin t] ++ l2) in Hle.
  rewrite nbegin_app in Hle. unfold nbegin at 2 in Hle. cbn in Hle. rewrite Nat.eqb_refl in Hle. cbn in Hle.
  rewrite !nbegin_in. lia.
Qed.

(* a task that begins was submitted (Go) before, and ends only after it began *)
Lemma begin_after_go : forall c tr s t, c_fixed c = true -> steps c init tr s ->
  In (EvBegin t) (log s) -> exists j, In (EvGo j t) (log s).
Proof.
  intros c tr s t Hf H Hb. assert (HI : Inv c s) by (eapply Inv_steps; eauto; apply Inv_init).
  exists (owner s t). apply (l_go _ _ HI). split; auto.
  apply (begin_in_iff _ _ _ HI) in Hb. destruct (Nat.lt_ge_cases t (ntasks s)) as [|Hge]; auto.
  rewrite (i_new _ _ HI t Hge) in Hb. discriminate.
Qed.

(* RNil: every task of the job ran and ended without error *)
Lemma all_run_if_nil : forall c tr s j, c_fixed c = true -> steps c init tr s ->
  In (EvResult j RNil) (log s) ->
  forall t, In (EvGo j t) (log s) -> In (EvBegin t) (log s) /\ In (EvEnd t true) (log s) /\ c_fail c t = false.
Proof.
  intros c tr s j Hf H Hr t Hg. assert (HI : Inv c s) by (eapply Inv_steps; eauto; apply Inv_init).
  apply (l_res _ _ HI) in Hr. apply (l_go _ _ HI) in Hg. destruct Hg as (Ht & Ho).
  destruct (i_rnil _ _ HI _ Hr t Ht Ho) as (A & B). repeat split; auto.
  - apply (begin_in_iff _ _ _ HI). now rewrite A.
  - apply (l_end _ _ HI). rewrite B. auto.
Qed.

(* a completed (non-shutdown) job none of whose tasks fails: result nil, all tasks ran *)
Lemma all_run_if_none_fails : forall c tr s j r, c_fixed c = true -> steps c init tr s ->
  In (EvResult j r) (log s) -> r <> RShutdown ->
  (forall t, In (EvGo j t) (log s) -> c_fail c t = false) ->
  r = RNil /\ forall t, In (EvGo j t) (log s) -> In (EvBegin t) (log s) /\ In (EvEnd t true) (log s).
Proof.
  intros c tr s j r Hf H Hr Hns Hnf. assert (HI : Inv c s) by (eapply Inv_steps; eauto; apply Inv_init).
  assert (r = RNil) as ->.
  { destruct r as [|t0|]; [reflexivity| |contradiction]. exfalso.
    apply (l_res _ _ HI) in Hr. destruct (i_rerr _ _ HI _ _ Hr) as ((A & B & C & D) & _).
    rewrite (Hnf t0) in D; [discriminate|]. apply (l_go _ _ HI). auto. }
  split; auto. intros t Hg. destruct (all_run_if_nil c tr s j Hf H Hr t Hg) as (A & B & _). auto.
Qed.

(* the result is an error iff an executed task of the job failed; the reported task is such a task *)
Lemma error_iff : forall c tr s j r, c_fixed c = true -> steps c init tr s ->
  In (EvResult j r) (log s) -> r <> RShutdown ->
  ((exists t0, r = RErr t0) <->
   (exists t, In (EvGo j t) (log s) /\ In (EvBegin t) (log s) /\ In (EvEnd t false) (log s))) /\
  (forall t0, r = RErr t0 ->
     In (EvGo j t0) (log s) /\ In (EvBegin t0) (log s) /\ In (EvEnd t0 false) (log s) /\ c_fail c t0 = true).
Proof.
  intros c tr s j r Hf H Hr Hns. assert (HI : Inv c s) by (eapply Inv_steps; eauto; apply Inv_init).
  apply (l_res _ _ HI) in Hr.
  assert (Herr : forall t0, r = RErr t0 ->
     In (EvGo j t0) (log s) /\ In (EvBegin t0) (log s) /\ In (EvEnd t0 false) (log s) /\ c_fail c t0 = true).
  { intros t0 ->. destruct (i_rerr _ _ HI _ _ Hr) as ((A & B & C & D) & _). repeat split; auto.
    - apply (l_go _ _ HI). auto.
    - apply (begin_in_iff _ _ _ HI). now rewrite C.
    - apply (l_end _ _ HI). rewrite D. auto. }
  split; auto. split.
  - intros (t0 & Ht0). exists t0. destruct (Herr t0 Ht0) as (A & B & C & D). auto.
  - intros (t & Hg & Hb & He). destruct r as [|t0|]; [|eauto|contradiction]. exfalso.
    apply (l_go _ _ HI) in Hg. destruct Hg as (Ht & Ho).
    destruct (i_rnil _ _ HI _ Hr t Ht Ho) as (A & B).
    apply (l_end _ _ HI) in He. rewrite B in He. destruct He; discriminate.
Qed.

(* executable traces are traces *)
Lemma steps_cons : forall c s l s1 tr s2, client_ok s l = true -> step c s l = Some s1 ->
  steps c s1 tr s2 -> steps c s (l :: tr) s2.
Proof.
  intros c s l s1 tr s2 Hc Hs H. induction H as [s1|s1 tr s2 l' s3 H IH Hc' Hs'].
  - apply (steps_snoc c s [] s l s1); auto. constructor.
  - change (l :: tr ++ [l']) with ((l :: tr) ++ [l']). eapply steps_snoc; eauto.
Qed.

Lemma run_labels_steps : forall c ls s s', run_labels c s ls = Some s' -> steps c s ls s'.
Proof.
  intros c ls. induction ls as [|l ls IH]; intros s s' H; cbn [run_labels] in H.
  - injection H as <-. constructor.
  - destruct (client_ok s l) eqn:Hc; [|discriminate]. destruct (step c s l) as [s1|] eqn:Hs; [|discriminate].
    eapply steps_cons; eauto.
Qed.

Lemma steps_app : forall c s tr1 s1 tr2 s2, steps c s tr1 s1 -> steps c s1 tr2 s2 -> steps c s (tr1 ++ tr2) s2.
Proof.
  intros c s tr1 s1 tr2 s2 H1 H2. induction H2 as [s1|s1 tr2 s2 l s3 H2 IH Hc Hs].
  - now rewrite app_nil_r.
  - rewrite app_assoc. eapply steps_snoc; eauto.
Qed.


(* ------------------------------------------------------------------------------------------------ *)
(* 5. where an event of the log came from                                                            *)
(* ------------------------------------------------------------------------------------------------ *)

Lemma cons_neq : forall A (e : A) l, l <> e :: l.
Proof. intros A e l H. apply (f_equal (@length A)) in H. cbn in H. lia. Qed.

Lemma step_log : forall c s l s', step c s l = Some s' -> log s' = log s \/ exists e, log s' = e :: log s.
Proof.
  intros c s l s' H. destruct l; step_inv H; subst s'; unfold_sets; proj_simpl; eauto.
Qed.

Lemma log_origin_gen : forall c s0 tr s, steps c s0 tr s -> log s0 = [] ->
  forall l1 e l2, log s = l1 ++ e :: l2 ->
  exists tr1 s1 lab s2 tr2,
    steps c s0 tr1 s1 /\ client_ok s1 lab = true /\ step c s1 lab = Some s2 /\
    log s1 = l2 /\ log s2 = e :: l2 /\ steps c s2 tr2 s /\ tr = tr1 ++ lab :: tr2.
Proof.
  intros c s0 tr s H. induction H as [s0|s0 tr s1 l s2 H IH Hc Hs]; intros H0 l1 e l2 Hl.
  - rewrite H0 in Hl. destruct l1; discriminate.
  - destruct (step_log _ _ _ _ Hs) as [Hlog|(e' & Hlog)].
    + rewrite Hlog in Hl. destruct (IH H0 _ _ _ Hl) as (tr1 & x1 & lab & x2 & tr2 & A & B & C & D & E & F & G).
      exists tr1, x1, lab, x2, (tr2 ++ [l]). repeat split; auto.
      * eapply steps_snoc; eauto.
      * rewrite G, <- app_assoc. reflexivity.
    + rewrite Hlog in Hl. destruct l1 as [|e1 l1]; cbn [app] in Hl.
      * injection Hl as -> <-. exists tr, s1, l, s2, []. repeat split; auto. constructor.
      * injection Hl as -> Hl.
        destruct (IH H0 _ _ _ Hl) as (tr1 & x1 & lab & x2 & tr2 & A & B & C & D & E & F & G).
        exists tr1, x1, lab, x2, (tr2 ++ [l]). repeat split; auto.
        -- eapply steps_snoc; eauto.
        -- rewrite G, <- app_assoc. reflexivity.
Qed.

Lemma log_origin : forall c tr s, steps c init tr s -> forall l1 e l2, log s = l1 ++ e :: l2 ->
  exists tr1 s1 lab s2 tr2,
    steps c init tr1 s1 /\ client_ok s1 lab = true /\ step c s1 lab = Some s2 /\
    log s1 = l2 /\ log s2 = e :: l2 /\ steps c s2 tr2 s /\ tr = tr1 ++ lab :: tr2.
Proof. intros c tr s H. apply (log_origin_gen c init tr s H). reflexivity. Qed.

Ltac log_inv Hl :=
  first [ exfalso; exact (cons_neq _ _ _ Hl)
        | discriminate Hl
        | injection Hl; clear Hl; intros; subst ].

Lemma origin_begin : forall c s1 lab s2 t, step c s1 lab = Some s2 -> log s2 = EvBegin t :: log s1 ->
  exists w, lab = LWCheck w /\ wst s1 w = WGot t /\ err s1 = None.
Proof.
  intros c s1 lab s2 t H Hl. destruct lab; step_inv H; subst s2; unfold_sets; proj_simpl; log_inv Hl.
  eauto.
Qed.

Lemma origin_end : forall c s1 lab s2 t ok, step c s1 lab = Some s2 -> log s2 = EvEnd t ok :: log s1 ->
  exists w, lab = LWEnd w ok /\ wst s1 w = WRun t.
Proof.
  intros c s1 lab s2 t ok' H Hl. destruct lab; step_inv H; subst s2; unfold_sets; proj_simpl; log_inv Hl.
  eauto.
Qed.

Lemma origin_result : forall c s1 lab s2 j r, step c s1 lab = Some s2 -> log s2 = EvResult j r :: log s1 ->
  (lab = LDCheck /\ disp s1 = DGot j /\ shutdown s1 = true /\ r = RShutdown) \/
  (lab = LDComplete /\ disp s1 = DWait j /\ sg s1 = 0 /\ r = match err s1 with None => RNil | Some t => RErr t end).
Proof.
  intros c s1 lab s2 j r H Hl. destruct lab; step_inv H; subst s2; unfold_sets; proj_simpl; log_inv Hl.
  - left. auto.
  - right. apply Nat.eqb_eq in E0. auto.
Qed.

Lemma origin_newjob : forall c s1 lab s2 j, step c s1 lab = Some s2 -> log s2 = EvNewJob j :: log s1 ->
  lab = LNewJob /\ shutdown s1 = false /\ j = njobs s1.
Proof.
  intros c s1 lab s2 j H Hl. destruct lab; step_inv H; subst s2; unfold_sets; proj_simpl; log_inv Hl.
  auto.
Qed.

(* ------------------------------------------------------------------------------------------------ *)
(* 6. jobs are processed one at a time, in submission order                                          *)
(* ------------------------------------------------------------------------------------------------ *)

Lemma owner_later : forall c s1 s l t, Inv c s1 -> Inv c s -> log s = l ++ log s1 -> t < ntasks s1 ->
  owner s t = owner s1 t.
Proof.
  intros c s1 s l t HI1 HI Hl Ht.
  assert (Hin : In (EvGo (owner s1 t) t) (log s1)) by (apply (l_go _ _ HI1); auto).
  assert (Hin' : In (EvGo (owner s1 t) t) (log s)) by (rewrite Hl; apply in_or_app; now right).
  apply (l_go _ _ HI) in Hin'. tauto.
Qed.

Lemma earlier_jobs_done : forall c s j, Inv c s -> dcur (disp s) = Some j ->
  forall j', j' < j -> exists r', In (EvResult j' r') (log s).
Proof.
  intros c s j HI Hd j' Hlt. destruct (i_queue _ _ HI) as (k & Hk & _ & Hlt' & _ & Hcur).
  destruct (Hcur j Hd) as (A & _). destruct (Hlt' j' ltac:(lia)) as [Hd'|Hr]; [rewrite Hd in Hd'; injection Hd' as ->; lia|].
  destruct (jresult (jobs s j')) as [r'|] eqn:Er; [|contradiction]. exists r'. apply (l_res _ _ HI). exact Er.
Qed.

(* results are reported in submission (= job id) order *)
Lemma results_in_order : forall c tr s l1 j r l2, c_fixed c = true -> steps c init tr s ->
  log s = l1 ++ EvResult j r :: l2 -> forall j', j' < j -> exists r', In (EvResult j' r') l2.
Proof.
  intros c tr s l1 j r l2 Hf H Hl j' Hlt.
  destruct (log_origin _ _ _ H _ _ _ Hl) as (tr1 & s1 & lab & s2 & tr2 & A & B & C & D & E & F & G).
  assert (HI1 : Inv c s1) by (apply (Inv_steps c init _ s1 Hf (Inv_init c) A)).
  rewrite <- D in E. rewrite <- D.
  apply (earlier_jobs_done c s1 j HI1); auto.
  destruct (origin_result _ _ _ _ _ _ C E) as [(_ & Hd & _)|(_ & Hd & _)]; rewrite Hd; reflexivity.
Qed.

(* a task of job j begins only after the results of all earlier jobs were reported (and after its Go) *)
Lemma begin_after_earlier_results : forall c tr s l1 t l2 j, c_fixed c = true -> steps c init tr s ->
  log s = l1 ++ EvBegin t :: l2 -> In (EvGo j t) (log s) ->
  In (EvGo j t) l2 /\ forall j', j' < j -> exists r', In (EvResult j' r') l2.
Proof.
  intros c tr s l1 t l2 j Hf H Hl Hg.
  destruct (log_origin _ _ _ H _ _ _ Hl) as (tr1 & s1 & lab & s2 & tr2 & A & B & C & D & E & F & G).
  assert (HI1 : Inv c s1) by (apply (Inv_steps c init _ s1 Hf (Inv_init c) A)).
  assert (HI : Inv c s) by (apply (Inv_steps c init _ s Hf (Inv_init c) H)).
  rewrite <- D in E. destruct (origin_begin _ _ _ _ _ C E) as (w & -> & Hw & He).
  assert (Hwt : wtask (wst s1 w) = Some t) by (rewrite Hw; reflexivity).
  destruct (i_wtask _ _ HI1 _ _ Hwt) as (Hwlt & Ht & Hph). rewrite Hw in Hph. cbn [wph] in Hph.
  assert (Hown : owner s t = owner s1 t).
  { apply (owner_later c s1 s (l1 ++ [EvBegin t])); auto. rewrite Hl, D, <- app_assoc. reflexivity. }
  apply (l_go _ _ HI) in Hg. destruct Hg as (_ & Hj). rewrite Hown in Hj. subst j.
  rewrite <- D. split; [apply (l_go _ _ HI1); auto|].
  apply (earlier_jobs_done c s1 (owner s1 t) HI1).
  pose proof (i_active _ _ HI1 t Ht) as Ha. rewrite Hph in Ha. specialize (Ha eq_refl).
  destruct (disp s1); try discriminate; exact Ha.
Qed.

(* once the result of a job is reported none of its tasks begins or ends *)
Lemma no_activity_after_result : forall c tr s l1 j r l2 t, c_fixed c = true -> steps c init tr s ->
  log s = l1 ++ EvResult j r :: l2 -> In (EvGo j t) (log s) ->
  ~ In (EvBegin t) l1 /\ forall ok, ~ In (EvEnd t ok) l1.
Proof.
  intros c tr s l1 j r l2 t Hf H Hl Hg.
  assert (HI : Inv c s) by (apply (Inv_steps c init _ s Hf (Inv_init c) H)).
  apply (l_go _ _ HI) in Hg. destruct Hg as (_ & Hj).
  assert (Hkey : forall e a b w, l1 = a ++ e :: b ->
            forall s1, Inv c s1 -> log s1 = b ++ EvResult j r :: l2 ->
            wtask (wst s1 w) = Some t -> active (wph (wst s1 w)) = true -> False).
  { intros e a b w Hab s1 HI1 Hlog Hwt Hact.
    destruct (i_wtask _ _ HI1 _ _ Hwt) as (_ & Ht & Hph).
    pose proof (i_active _ _ HI1 t Ht) as Ha. rewrite Hph in Ha. specialize (Ha Hact).
    assert (Hown : owner s t = owner s1 t).
    { apply (owner_later c s1 s (a ++ [e])); auto. rewrite Hl, Hab, Hlog, <- !app_assoc. reflexivity. }
    assert (Hres : jresult (jobs s1 j) = Some r).
    { apply (l_res _ _ HI1). rewrite Hlog. apply in_or_app. right. now left. }
    destruct (cur_nores c s1 (owner s1 t) HI1) as (_ & Hn).
    { destruct (disp s1); try discriminate; exact Ha. }
    congruence. }
  split.
  - intros Hin. apply in_split in Hin. destruct Hin as (a & b & Hab).
    assert (Hl' : log s = a ++ EvBegin t :: (b ++ EvResult j r :: l2)).
    { rewrite Hl, Hab, <- app_assoc. reflexivity. }
    destruct (log_origin _ _ _ H _ _ _ Hl') as (tr1 & s1 & lab & s2 & tr2 & A & B & C & D & E & F & G).
    assert (HI1 : Inv c s1) by (apply (Inv_steps c init _ s1 Hf (Inv_init c) A)).
    rewrite <- D in E. destruct (origin_begin _ _ _ _ _ C E) as (w & -> & Hw & He).
    apply (Hkey (EvBegin t) a b w Hab s1 HI1 D); rewrite Hw; reflexivity.
  - intros ok Hin. apply in_split in Hin. destruct Hin as (a & b & Hab).
    assert (Hl' : log s = a ++ EvEnd t ok :: (b ++ EvResult j r :: l2)).
    { rewrite Hl, Hab, <- app_assoc. reflexivity. }
    destruct (log_origin _ _ _ H _ _ _ Hl') as (tr1 & s1 & lab & s2 & tr2 & A & B & C & D & E & F & G).
    assert (HI1 : Inv c s1) by (apply (Inv_steps c init _ s1 Hf (Inv_init c) A)).
    rewrite <- D in E. destruct (origin_end _ _ _ _ _ _ C E) as (w & -> & Hw).
    apply (Hkey (EvEnd t ok) a b w Hab s1 HI1 D); rewrite Hw; reflexivity.
Qed.


(* ------------------------------------------------------------------------------------------------ *)
(* 7. stability facts and two-point theorems (first recorded error, skipping, pending jobs at Stop)   *)
(* ------------------------------------------------------------------------------------------------ *)

Lemma res_stable : forall c s l s' j r, c_fixed c = true -> Inv c s -> step c s l = Some s' ->
  jresult (jobs s j) = Some r -> jresult (jobs s' j) = Some r.
Proof.
  intros c s l s' j' r. revert c s l s'. prepd. all: intros Hr; try assumption.
  all: try (rewrite jres_upd_same; assumption).
  - rewrite upd_neq; auto. pose proof (res_lt _ _ _ _ HI Hr). lia.
  - rewrite upd_neq; auto. congruence.
  - rewrite upd_neq; auto. congruence.
Qed.

Lemma skipped_stable : forall c s l s' t, c_fixed c = true -> Inv c s -> step c s l = Some s' ->
  tph s t = TSkipped -> tph s' t = TSkipped.
Proof.
  intros c s l s' x. revert c s l s'. prepf. all: intros Hp; try assumption.
  all: rewrite upd_neq; auto; try congruence.
  intros Hn. rewrite <- Hn, (i_new _ _ HI (ntasks s)) in Hp by lia. discriminate.
Qed.

Lemma shutdown_stable : forall c s l s', step c s l = Some s' -> shutdown s = true -> shutdown s' = true.
Proof.
  intros c s l s' H. destruct l; step_inv H; subst s'; unfold_sets; proj_simpl; auto; intros; discriminate.
Qed.

Lemma owner_stable : forall c s l s' t, step c s l = Some s' -> t < ntasks s ->
  owner s' t = owner s t /\ t < ntasks s'.
Proof.
  intros c s l s' x H. destruct l; step_inv H; subst s'; unfold_sets; proj_simpl; auto.
  intros Hx. rewrite upd_neq by lia. auto.
Qed.

(* the state of the first recorded error of the active job *)
Definition err_pending (s : state) (j : jid) (t : tkid) : Prop :=
  (err s = Some t /\ dact (disp s) = Some j /\ jresult (jobs s j) = None) \/
  jresult (jobs s j) = Some (RErr t).

Lemma err_pending_step : forall c s l s' j t, c_fixed c = true -> Inv c s -> step c s l = Some s' ->
  err_pending s j t -> err_pending s' j t.
Proof.
  intros c s l s' j' x Hf HI H [(He & Hd & Hr)|Hr]; [|right; eapply res_stable; eauto].
  revert c s l s' Hf HI H He Hd Hr. unfold err_pending. prepd. all: intros He Hd Hr.
  all: try (left; repeat split; auto; fail).
  all: try (rewrite ?E in Hd; cbn [dact] in Hd; discriminate).
  all: try (left; repeat split; auto; rewrite ?jres_upd_same; auto; fail).
  - left. repeat split; auto. jobcase; auto.
  - left. repeat split; auto. rewrite He. destruct ok; reflexivity.
  - right. cbn [dact] in Hd. injection Hd as <-. rewrite upd_eq. cbn [jresult].
    rewrite He. reflexivity.
Qed.

Lemma err_pending_steps : forall c s tr s' j t, c_fixed c = true -> Inv c s -> steps c s tr s' ->
  err_pending s j t -> err_pending s' j t.
Proof.
  intros c s tr s' j t Hf HI H. revert HI. induction H as [s|s tr s1 l s2 H IH Hc Hs]; intros HI Hp; auto.
  apply (err_pending_step c s1 l s2 j t Hf); auto. eapply Inv_steps; eauto.
Qed.

(* The first failing task whose LWFinish finds w.err = nil determines the job's result: from then on the
   only result the job can report is the error of that task. *)
Lemma first_error_reported : forall c tr1 s1 w t s1' tr2 s2, c_fixed c = true ->
  steps c init tr1 s1 -> wst s1 w = WRan t false -> err s1 = None ->
  step c s1 (LWFinish w) = Some s1' -> steps c s1' tr2 s2 ->
  (forall r, In (EvResult (owner s1 t) r) (log s2) -> r = RErr t) /\
  (err s2 = Some t \/ In (EvResult (owner s1 t) (RErr t)) (log s2)).
Proof.
  intros c tr1 s1 w t s1' tr2 s2 Hf H1 Hw He Hs H2.
  assert (HI1 : Inv c s1) by (apply (Inv_steps c init _ s1 Hf (Inv_init c) H1)).
  assert (HI1' : Inv c s1') by (eapply Inv_step; eauto).
  assert (HI2 : Inv c s2) by (eapply Inv_steps; eauto).
  assert (Hwt : wtask (wst s1 w) = Some t) by (rewrite Hw; reflexivity).
  destruct (i_wtask _ _ HI1 _ _ Hwt) as (_ & Ht & Hph). rewrite Hw in Hph. cbn [wph] in Hph.
  pose proof (i_active _ _ HI1 t Ht) as Ha. rewrite Hph in Ha. specialize (Ha eq_refl).
  assert (Hp : err_pending s1' (owner s1 t) t).
  { left. cbn [step] in Hs. rewrite Hw in Hs. injection Hs as <-. unfold_sets; proj_simpl.
    rewrite He. repeat split; auto.
    destruct (cur_nores c s1 (owner s1 t) HI1) as (_ & Hn); auto.
    destruct (disp s1); try discriminate; exact Ha. }
  pose proof (err_pending_steps c s1' tr2 s2 _ _ Hf HI1' H2 Hp) as [(A & B & C)|A].
  - split; [|now left]. intros r Hr. apply (l_res _ _ HI2) in Hr. congruence.
  - split; [|right; apply (l_res _ _ HI2); exact A]. intros r Hr. apply (l_res _ _ HI2) in Hr. congruence.
Qed.

Lemma skipped_steps : forall c s tr s' t, c_fixed c = true -> Inv c s -> steps c s tr s' ->
  tph s t = TSkipped -> Inv c s' /\ tph s' t = TSkipped.
Proof.
  intros c s tr s' t Hf HI H. revert HI. induction H as [s|s tr s3 l s4 H IH Hc Hs']; intros HI Hsk; auto.
  destruct (IH HI Hsk) as (HI3 & Hsk3). split; [eapply Inv_step; eauto|eapply skipped_stable; eauto].
Qed.

(* a task whose LWCheck finds the error set is skipped: it never begins *)
Lemma skipped_never_begins : forall c tr1 s1 w t t0 s1' tr2 s2, c_fixed c = true ->
  steps c init tr1 s1 -> wst s1 w = WGot t -> err s1 = Some t0 ->
  step c s1 (LWCheck w) = Some s1' -> steps c s1' tr2 s2 ->
  ~ In (EvBegin t) (log s2) /\ wst s1' w = WIdle.
Proof.
  intros c tr1 s1 w t t0 s1' tr2 s2 Hf H1 Hw He Hs H2.
  assert (HI1 : Inv c s1) by (apply (Inv_steps c init _ s1 Hf (Inv_init c) H1)).
  assert (HI1' : Inv c s1') by (eapply Inv_step; eauto).
  assert (Hsk : tph s1' t = TSkipped /\ wst s1' w = WIdle).
  { cbn [step] in Hs. rewrite Hw, He, Hf in Hs. injection Hs as <-. unfold_sets; proj_simpl.
    rewrite !upd_eq. auto. }
  destruct Hsk as (Hsk & Hidle). split; auto.
  assert (Hsk2 : Inv c s2 /\ tph s2 t = TSkipped).
  { eapply skipped_steps; eauto. }
  destruct Hsk2 as (HI2 & Hsk2). rewrite (begin_in_iff _ _ _ HI2), Hsk2. discriminate.
Qed.

(* ---- Stop ---------------------------------------------------------------------------------------- *)

Definition shut_pending (s : state) (j : jid) : Prop :=
  shutdown s = true /\ (In j (queue s) \/ disp s = DGot j \/ jresult (jobs s j) = Some RShutdown).

Lemma shut_pending_step : forall c s l s' j, c_fixed c = true -> Inv c s -> step c s l = Some s' ->
  shut_pending s j -> shut_pending s' j.
Proof.
  intros c s l s' j' Hf HI H (Hsh & Hp). split; [eapply shutdown_stable; eauto|].
  destruct Hp as [Hp|[Hp|Hp]]; [| |right; right; eapply res_stable; eauto].
  - revert c s l s' Hf HI H Hsh Hp. prepd. all: intros Hsh Hp. all: try (left; assumption).
    all: try discriminate.
    all: try (destruct Hp as [Hp|Hp]; [right; left; congruence|left; assumption]).
    all: try (destruct Hp; fail).
  - revert c s l s' Hf HI H Hsh Hp. prepd. all: intros Hsh Hp. all: try (right; left; assumption).
    all: try congruence.
    right. right. injection Hp as <-. rewrite upd_eq. reflexivity.
Qed.

Lemma shut_pending_steps : forall c s tr s' j, c_fixed c = true -> Inv c s -> steps c s tr s' ->
  shut_pending s j -> shut_pending s' j.
Proof.
  intros c s tr s' j Hf HI H. revert HI. induction H as [s|s tr s1 l s2 H IH Hc Hs]; intros HI Hp; auto.
  apply (shut_pending_step c s1 l s2 j Hf); auto. eapply Inv_steps; eauto.
Qed.

(* a job that the dispatcher had not started when shouldShutdown was set reports shutdown, and none of
   its tasks ever begins *)
Lemma stop_pending_jobs : forall c tr1 s1 j tr2 s2, c_fixed c = true ->
  steps c init tr1 s1 -> In EvStop (log s1) -> (In j (queue s1) \/ disp s1 = DGot j) ->
  steps c s1 tr2 s2 ->
  (forall r, In (EvResult j r) (log s2) -> r = RShutdown) /\
  (forall t, In (EvGo j t) (log s2) -> ~ In (EvBegin t) (log s2)).
Proof.
  intros c tr1 s1 j tr2 s2 Hf H1 Hst Hq H2.
  assert (HI1 : Inv c s1) by (apply (Inv_steps c init _ s1 Hf (Inv_init c) H1)).
  assert (HI2 : Inv c s2) by (eapply Inv_steps; eauto).
  assert (Hp : shut_pending s1 j).
  { split; [apply (l_stop _ _ HI1); auto|]. tauto. }
  pose proof (shut_pending_steps c s1 tr2 s2 j Hf HI1 H2 Hp) as (Hsh & Hp2).
  assert (Hres : jresult (jobs s2 j) = None \/ jresult (jobs s2 j) = Some RShutdown).
  { destruct Hp2 as [Hin|[Hd|Hr]]; auto; left.
    - destruct (i_queue _ _ HI2) as (k & Hk & Hqs & _ & Hge & _). apply Hge.
      rewrite Hqs in Hin. apply in_seq in Hin. lia.
    - apply (cur_nores c s2 j HI2). rewrite Hd. reflexivity. }
  split.
  - intros r Hr. apply (l_res _ _ HI2) in Hr. destruct Hres; congruence.
  - intros t Hg. apply (l_go _ _ HI2) in Hg. destruct Hg as (Ht & Ho).
    rewrite (begin_in_iff _ _ _ HI2).
    assert (Hqd : tph s2 t = TQueued).
    { destruct Hres as [Hn|Hr]; [|apply (i_rshut _ _ HI2 _ Hr); auto].
      apply (pending_queued c s2 j t HI2); auto.
      intros Hd. destruct (cur_nores c s2 j HI2) as (_ & Hn'); [destruct (disp s2); try discriminate; exact Hd|].
      destruct Hp2 as [Hin|[Hd'|Hr]]; try congruence.
      - destruct (i_queue _ _ HI2) as (k & Hk & Hqs & _ & _ & Hcur).
        rewrite Hqs in Hin. apply in_seq in Hin.
        destruct (Hcur j) as (A & _); [destruct (disp s2); try discriminate; exact Hd|]. lia.
      - rewrite Hd' in Hd. discriminate. }
    rewrite Hqd. discriminate.
Qed.

(* after Stop began NewJob is refused; equivalently no job is accepted after the EvStop event *)
Lemma newjob_refused_after_stop : forall c tr s s', c_fixed c = true -> steps c init tr s ->
  In EvStop (log s) -> step c s LNewJob = Some s' ->
  log s' = EvRefused :: log s /\ njobs s' = njobs s /\ queue s' = queue s.
Proof.
  intros c tr s s' Hf H Hst Hs.
  assert (HI : Inv c s) by (apply (Inv_steps c init _ s Hf (Inv_init c) H)).
  apply (l_stop _ _ HI) in Hst. cbn [step] in Hs. rewrite Hst in Hs. injection Hs as <-.
  unfold_sets; proj_simpl. auto.
Qed.

Lemma no_accept_after_stop : forall c tr s l1 j l2, c_fixed c = true -> steps c init tr s ->
  log s = l1 ++ EvNewJob j :: l2 -> ~ In EvStop l2.
Proof.
  intros c tr s l1 j l2 Hf H Hl.
  destruct (log_origin _ _ _ H _ _ _ Hl) as (tr1 & s1 & lab & s2 & tr2 & A & B & C & D & E & F & G).
  assert (HI1 : Inv c s1) by (apply (Inv_steps c init _ s1 Hf (Inv_init c) A)).
  rewrite <- D in E. destruct (origin_newjob _ _ _ _ _ C E) as (_ & Hsh & _).
  rewrite <- D, (l_stop _ _ HI1), Hsh. discriminate.
Qed.

Lemma all_exited_of_cnt : forall c s, Inv c s -> cnt (fun w => wexited (wst s w)) (c_nw c) = c_nw c ->
  forall w, w < c_nw c -> wst s w = WExited.
Proof.
  intros c s HI Hc w Hw. pose proof (cnt_full _ _ Hc w Hw) as He. cbn beta in He.
  destruct (wst s w); try discriminate; reflexivity.
Qed.

Lemma all_results_when_drained : forall c s, Inv c s -> queue s = [] -> dcur (disp s) = None ->
  forall j, j < njobs s -> exists r, In (EvResult j r) (log s).
Proof.
  intros c s HI Hq Hd j Hj. destruct (i_queue _ _ HI) as (k & Hk & Hqs & Hlt & _ & _).
  rewrite Hq in Hqs. assert (k = njobs s).
  { destruct (njobs s - k) eqn:En; [lia|discriminate]. }
  subst k. destruct (Hlt j Hj) as [Hc|Hr]; [congruence|].
  destruct (jresult (jobs s j)) as [r|] eqn:Er; [|contradiction]. exists r. apply (l_res _ _ HI). exact Er.
Qed.

(* Stop returns only after every worker exited (and every accepted job has reported a result) *)
Lemma stop_returns_after_workers_exit : forall c tr s, c_fixed c = true -> steps c init tr s ->
  (In EvStopRet (log s) ->
     (forall w, w < c_nw c -> wst s w = WExited) /\ disp s = DDone /\
     (forall j, j < njobs s -> exists r, In (EvResult j r) (log s))) /\
  (forall s', step c s LStopRet = Some s' -> forall w, w < c_nw c -> wst s w = WExited).
Proof.
  intros c tr s Hf H. assert (HI : Inv c s) by (apply (Inv_steps c init _ s Hf (Inv_init c) H)).
  split.
  - intros Hr. apply (l_stopret _ _ HI) in Hr.
    assert (Hd : disp s = DDone).
    { apply (s_trig _ _ HI). apply (s_stoptrig _ _ HI). rewrite (s_stopclosed _ _ HI), Hr. reflexivity. }
    split; [apply all_exited_of_cnt; auto; apply (s_ret _ _ HI Hr)|]. split; auto.
    destruct (s_final _ _ HI (or_intror Hd)) as (_ & Hq).
    apply (all_results_when_drained c s HI Hq). rewrite Hd. reflexivity.
  - intros s' Hs. cbn [step] in Hs. destruct (stop s) eqn:Es; try discriminate.
    destruct (Nat.eqb_spec k (c_nw c)) as [->|]; [|discriminate].
    apply all_exited_of_cnt; auto. symmetry. apply (s_recv _ _ HI _ Es).
Qed.


(* ------------------------------------------------------------------------------------------------ *)
(* 8. progress                                                                                       *)
(* ------------------------------------------------------------------------------------------------ *)

Definition can_move (c : cfg) (s : state) : Prop :=
  exists l s', internal l = true /\ step c s l = Some s'.

Lemma busy_worker_moves : forall c s w t, wtask (wst s w) = Some t -> can_move c s.
Proof.
  intros c s w t Hw. destruct (wst s w) as [|t'|t'|t' ok|] eqn:Ew; try discriminate.
  - exists (LWCheck w). cbn [step]. rewrite Ew. destruct (err s); eexists; split; reflexivity.
  - exists (LWEnd w (negb (c_fail c t'))). cbn [step]. rewrite Ew, eqb_reflx. eexists; split; reflexivity.
  - exists (LWFinish w). cbn [step]. rewrite Ew. eexists; split; reflexivity.
Qed.

Lemma no_deadlock_inv : forall c s, c_fixed c = true -> c_nw c >= 1 -> Inv c s ->
  can_move c s \/
  (exists j, disp s = DLoop j /\ j < njobs s /\ jclosed (jobs s j) = false /\ jtasks (jobs s j) = []) \/
  ((forall j, j < njobs s -> exists r, In (EvResult j r) (log s)) /\ (stop s = SNone \/ stop s = SRet)).
Proof.
  intros c s Hf Hnw HI. destruct (disp s) as [|j|j|j t|j| |] eqn:Ed.
  - (* DIdle *)
    destruct (queue s) as [|j q] eqn:Eq.
    + destruct (qclosed s) eqn:Ec.
      * left. exists LDRecv. cbn [step]. rewrite Ed, Eq, Ec. eexists; split; reflexivity.
      * pose proof (s_qclosed _ _ HI) as Hq. rewrite Ec in Hq.
        destruct (stop s) eqn:Es; try discriminate.
        -- right. right. split; auto. apply (all_results_when_drained c s HI Eq). rewrite Ed. reflexivity.
        -- left. exists LStopClose. cbn [step]. rewrite Es. eexists; split; reflexivity.
    + left. exists LDRecv. cbn [step]. rewrite Ed, Eq. eexists; split; reflexivity.
  - (* DGot *) left. exists LDCheck. cbn [step]. rewrite Ed. destruct (shutdown s); eexists; split; reflexivity.
  - (* DLoop *)
    destruct (jtasks (jobs s j)) as [|t rest] eqn:Et.
    + destruct (jclosed (jobs s j)) eqn:Ec.
      * left. exists LDTake. cbn [step]. rewrite Ed, Et, Ec. eexists; split; reflexivity.
      * right. left. exists j. repeat split; auto. apply (cur_nores c s j HI). rewrite Ed. reflexivity.
    + left. exists LDTake. cbn [step]. rewrite Ed, Et. eexists; split; reflexivity.
  - (* DSend: worker 0 is idle (handoff) or busy (its own next label) *)
    left. destruct (wst s 0) as [|t'|t'|t' ok|] eqn:Ew.
    + exists (LHandoff 0). cbn [step]. rewrite Ed, Ew.
      assert (Hlt : (0 <? c_nw c) = true) by (apply Nat.ltb_lt; lia). rewrite Hlt.
      eexists; split; reflexivity.
    + apply (busy_worker_moves c s 0 t'). rewrite Ew. reflexivity.
    + apply (busy_worker_moves c s 0 t'). rewrite Ew. reflexivity.
    + apply (busy_worker_moves c s 0 t'). rewrite Ew. reflexivity.
    + exfalso. destruct (s_exited _ _ HI _ Ew) as (Hsc & _).
      apply (s_stoptrig _ _ HI) in Hsc. apply (s_trig _ _ HI) in Hsc. congruence.
  - (* DWait *)
    left. destruct (Nat.eqb (sg s) 0) eqn:Eg.
    + exists LDComplete. cbn [step]. rewrite Ed, Eg. eexists; split; reflexivity.
    + apply Nat.eqb_neq in Eg. rewrite (i_sg _ _ HI) in Eg.
      destruct (cnt_pos (fun t => active (tph s t)) (ntasks s)) as (t & Ht & Ha); [lia|].
      cbn beta in Ha.
      assert (Hw : exists w, wtask (wst s w) = Some t).
      { apply (i_tw _ _ HI t Ht). destruct (tph s t) eqn:Ep; try discriminate; eauto.
        pose proof (i_held _ _ HI t Ht Ep). congruence. }
      destruct Hw as (w & Hw). apply (busy_worker_moves c s w t Hw).
  - (* DFinal *) left. exists LDFin. cbn [step]. rewrite Ed. eexists; split; reflexivity.
  - (* DDone *)
    destruct (s_final _ _ HI (or_intror Ed)) as (Hqc & Hq).
    assert (Hres : forall j, j < njobs s -> exists r, In (EvResult j r) (log s)).
    { apply (all_results_when_drained c s HI Hq). rewrite Ed. reflexivity. }
    pose proof (s_qclosed _ _ HI) as Hac. rewrite Hqc in Hac.
    destruct (stop s) as [| | |k|] eqn:Es; try discriminate.
    + left. exists LStopAck. cbn [step]. rewrite Es.
      assert (Ht : triggered s = true) by (apply (s_trig _ _ HI); exact Ed). rewrite Ht.
      eexists; split; reflexivity.
    + destruct (Nat.eqb k (c_nw c)) eqn:Ek.
      * left. exists LStopRet. cbn [step]. rewrite Es, Ek. eexists; split; reflexivity.
      * left. apply Nat.eqb_neq in Ek. pose proof (s_recv _ _ HI _ Es) as Hk.
        pose proof (cnt_le (fun w => wexited (wst s w)) (c_nw c)) as Hle.
        destruct (cnt_notfull (fun w => wexited (wst s w)) (c_nw c)) as (w & Hw & Hne); [lia|].
        cbn beta in Hne. destruct (wst s w) as [|t'|t'|t' ok|] eqn:Ew; try discriminate.
        -- exists (LWStop w). cbn [step]. rewrite Es, Ew.
           assert (H1 : (w <? c_nw c) = true) by (apply Nat.ltb_lt; lia).
           assert (H2 : stopclosed s = true) by (rewrite (s_stopclosed _ _ HI), Es; reflexivity).
           assert (H3 : (k <? c_nw c) = true) by (apply Nat.ltb_lt; lia).
           rewrite H1, H2, H3. eexists; split; reflexivity.
        -- apply (busy_worker_moves c s w t'). rewrite Ew. reflexivity.
        -- apply (busy_worker_moves c s w t'). rewrite Ew. reflexivity.
        -- apply (busy_worker_moves c s w t'). rewrite Ew. reflexivity.
    + right. right. auto.
Qed.

Lemma no_deadlock : forall c tr s, c_fixed c = true -> c_nw c >= 1 -> steps c init tr s ->
  can_move c s \/
  (exists j, disp s = DLoop j /\ j < njobs s /\ jclosed (jobs s j) = false /\ jtasks (jobs s j) = []) \/
  ((forall j, j < njobs s -> exists r, In (EvResult j r) (log s)) /\ (stop s = SNone \/ stop s = SRet)).
Proof.
  intros c tr s Hf Hnw H. apply no_deadlock_inv; auto.
  apply (Inv_steps c init _ s Hf (Inv_init c) H).
Qed.

(* in a state where the pool cannot move, every job all of whose predecessors (and itself) were closed by
   the client has its result; if moreover all jobs are closed and Stop was called, Stop has returned *)
Lemma quiescent_complete : forall c tr s, c_fixed c = true -> c_nw c >= 1 -> steps c init tr s ->
  ~ can_move c s ->
  (forall j, j < njobs s -> (forall j', j' <= j -> jclosed (jobs s j') = true) ->
             exists r, In (EvResult j r) (log s)) /\
  ((forall j, j < njobs s -> jclosed (jobs s j) = true) -> In EvStop (log s) -> In EvStopRet (log s)).
Proof.
  intros c tr s Hf Hnw H Hq.
  assert (HI : Inv c s) by (apply (Inv_steps c init _ s Hf (Inv_init c) H)).
  destruct (no_deadlock c tr s Hf Hnw H) as [Hm|[(j0 & Hd & Hj0 & Hop & _)|(Hres & Hst)]]; [contradiction| |].
  - split.
    + intros j Hj Hcl. destruct (Nat.lt_ge_cases j j0) as [Hlt|Hge].
      * apply (earlier_jobs_done c s j0 HI); auto. rewrite Hd. reflexivity.
      * rewrite (Hcl j0 Hge) in Hop. discriminate.
    + intros Hcl. rewrite (Hcl j0 Hj0) in Hop. discriminate.
  - split; [auto|]. intros _ Hs. apply (l_stopret _ _ HI). destruct Hst as [Hst|Hst]; auto.
    apply (l_stop _ _ HI) in Hs. rewrite (s_shutdown _ _ HI), Hst in Hs. discriminate.
Qed.

(* ---- the code before fix commit 0eb992d ([c_fixed = false]): a worker that sees the job error exits;
   with one worker the next job is stuck for ever ---- *)
Definition pin_c : cfg := mkC 1 4 (fun t => Nat.eqb t 0) false.
Definition pin_tr : list label :=
  [LNewJob; LGo 0; LGo 0; LDone 0; LNewJob; LGo 1; LDone 1;
   LDRecv; LDCheck; LDTake; LHandoff 0; LWCheck 0; LWEnd 0 false; LWFinish 0;
   LDTake; LHandoff 0; LWCheck 0; LDTake; LDComplete;
   LDRecv; LDCheck; LDTake].
Definition pin_s : state := match run_labels pin_c init pin_tr with Some s => s | None => init end.

Lemma pin_steps : steps pin_c init pin_tr pin_s.
Proof.
  apply run_labels_steps. unfold pin_s.
  destruct (run_labels pin_c init pin_tr) eqn:E; [reflexivity|]. vm_compute in E. discriminate.
Qed.

Lemma pin_stuck : forall l, internal l = true -> step pin_c pin_s l = None.
Proof.
  intros l Hi. destruct l; try discriminate Hi; try (vm_compute; reflexivity).
  all: destruct w as [|w]; vm_compute; reflexivity.
Qed.

Lemma pinned_deadlock : exists c tr s j,
  c_fixed c = false /\ c_nw c >= 1 /\ steps c init tr s /\
  (forall j', j' < njobs s -> jclosed (jobs s j') = true) /\
  j < njobs s /\ jresult (jobs s j) = None /\ (forall r, ~ In (EvResult j r) (log s)) /\
  forall l, internal l = true -> step c s l = None.
Proof.
  exists pin_c, pin_tr, pin_s, 1. split; [reflexivity|]. split; [cbn; lia|]. split; [exact pin_steps|].
  split; [|split; [vm_compute; lia|split; [vm_compute; reflexivity|split; [|exact pin_stuck]]]].
  - intros j' Hj'. assert (Hn : njobs pin_s = 2) by (vm_compute; reflexivity). rewrite Hn in Hj'.
    destruct j' as [|[|j']]; [vm_compute; reflexivity|vm_compute; reflexivity|lia].
  - intros r. vm_compute. intuition discriminate.
Qed.

(* ------------------------------------------------------------------------------------------------ *)
(* 9. the serial pool                                                                                *)
(* ------------------------------------------------------------------------------------------------ *)

(* index of the first failing task *)
Fixpoint first_fail (fails : list bool) : option nat :=
  match fails with
  | [] => None
  | f :: rest => if f then Some 0 else option_map S (first_fail rest)
  end.

Lemma serial_job_failed : forall fails x i, serial_job fails (Some x) i = ([], Some x).
Proof. induction fails as [|f rest IH]; intros x i; cbn [serial_job]; auto. Qed.

Lemma serial_job_spec : forall fails i,
  serial_job fails None i =
  match first_fail fails with
  | None => (seq i (length fails), None)
  | Some k => (seq i (S k), Some (i + k))
  end.
Proof.
  induction fails as [|f rest IH]; intros i; cbn [serial_job first_fail length seq]; auto.
  destruct f.
  - rewrite serial_job_failed. cbn [seq]. rewrite Nat.add_0_r. reflexivity.
  - rewrite IH. destruct (first_fail rest) as [k|]; cbn [option_map seq]; [|reflexivity].
    rewrite Nat.add_succ_comm. reflexivity.
Qed.

Lemma first_fail_some : forall fails k, first_fail fails = Some k ->
  k < length fails /\ nth k fails false = true /\ forall i, i < k -> nth i fails false = false.
Proof.
  induction fails as [|f rest IH]; intros k H; cbn [first_fail] in H; [discriminate|].
  destruct f.
  - injection H as <-. cbn. repeat split; auto; [lia|]. intros i Hi; lia.
  - destruct (first_fail rest) as [k'|] eqn:E; [|discriminate]. injection H as <-.
    destruct (IH k' eq_refl) as (A & B & C). cbn [length nth]. repeat split; auto; [lia|].
    intros [|i] Hi; [reflexivity|]. apply C. lia.
Qed.

Lemma first_fail_none : forall fails, first_fail fails = None -> forall i, nth i fails false = false.
Proof.
  induction fails as [|f rest IH]; intros H i; [destruct i; reflexivity|]. cbn [first_fail] in H.
  destruct f; [discriminate|]. destruct (first_fail rest) eqn:E; [discriminate|].
  destruct i; [reflexivity|]. cbn [nth]. apply IH. reflexivity.
Qed.

(* the serial job runs its tasks in order, stops at the first failure and reports it *)
Lemma serial_spec : forall fails ran r, serial_job fails None 0 = (ran, r) ->
  (forall k, r = Some k ->
     ran = seq 0 (S k) /\ k < length fails /\ nth k fails false = true /\
     forall i, i < k -> nth i fails false = false) /\
  (r = None -> ran = seq 0 (length fails) /\ forall i, nth i fails false = false) /\
  (r <> None <-> exists i, In i ran /\ nth i fails false = true).
Proof.
  intros fails ran r H. rewrite serial_job_spec in H.
  destruct (first_fail fails) as [k|] eqn:E; injection H as <- <-.
  - destruct (first_fail_some _ _ E) as (A & B & C). split; [|split].
    + intros k' Hk. injection Hk as <-. cbn [Nat.add]. auto.
    + discriminate.
    + split; [|discriminate]. intros _. exists k. split; auto. apply (proj2 (in_seq (S k) 0 k)). lia.
  - pose proof (first_fail_none _ E) as Hn. split; [|split].
    + discriminate.
    + auto.
    + split; [congruence|]. intros (i & _ & Hi). rewrite Hn in Hi. discriminate.
Qed.


(* ------------------------------------------------------------------------------------------------ *)
(* 10. at most [c_nw] tasks are open (begun and not ended) at any time                               *)
(* ------------------------------------------------------------------------------------------------ *)

Definition isrun (p : tphase) : bool := match p with TRun => true | _ => false end.
Definition wrun (w : wstate) : bool := match w with WRun _ => true | _ => false end.
Definition is_beg_ev (e : event) : bool := match e with EvBegin _ => true | _ => false end.
Definition is_end_ev (e : event) : bool := match e with EvEnd _ _ => true | _ => false end.
Definition nopen_ok (c : cfg) (s : state) : Prop :=
  cnt (fun t => isrun (tph s t)) (ntasks s) = cnt (fun w => wrun (wst s w)) (c_nw c) /\
  length (filter is_beg_ev (log s)) = length (filter is_end_ev (log s)) + cnt (fun t => isrun (tph s t)) (ntasks s).

Lemma nopen_step : forall c s l s', c_fixed c = true -> Inv c s -> step c s l = Some s' ->
  nopen_ok c s -> nopen_ok c s'.
Proof.
  unfold nopen_ok. prepf. all: intros (J1 & J2). all: try (split; assumption).
  all: cbn [filter is_beg_ev is_end_ev length].
  all: try (split; assumption).
  all: try (rewrite !(cnt_upd_same _ isrun) by (rewrite ?Fq_ph, ?Fs_ph, ?Ft_ph; reflexivity);
            rewrite ?(cnt_upd_same _ wrun) by (rewrite ?E, ?E0; reflexivity); split; assumption).
  - assert (Hc : cnt (fun t => isrun (upd (tph s) (ntasks s) TQueued t)) (S (ntasks s)) =
                 cnt (fun t => isrun (tph s t)) (ntasks s)).
    { cbn [cnt]. rewrite upd_eq. cbn [isrun]. rewrite Nat.add_0_r. apply cnt_ext.
      intros i Hi. rewrite upd_neq by lia. reflexivity. }
    rewrite Hc. split; assumption.
  - rewrite (cnt_upd_inc _ isrun (tph s) t TRun) by (auto; rewrite Ft_ph; reflexivity).
    rewrite (cnt_upd_inc _ wrun (wst s) w (WRun t)) by (auto; rewrite E; reflexivity).
    split; lia.
  - pose proof (cnt_upd_dec _ isrun (tph s) t (TRan ok) (ntasks s) Ft_lt) as H1.
    rewrite Ft_ph in H1. specialize (H1 eq_refl eq_refl).
    pose proof (cnt_upd_dec _ wrun (wst s) w (WRan t ok) (c_nw c) Fw_lt) as H2.
    rewrite E in H2. specialize (H2 eq_refl eq_refl).
    split; lia.
  - rewrite (cnt_upd_same _ wrun) by (rewrite E0; reflexivity). split; assumption.
Qed.

Lemma nopen_reachable : forall c tr s, c_fixed c = true -> steps c init tr s -> nopen_ok c s.
Proof.
  intros c tr s Hf H.
  assert (Hgen : forall s0, Inv c s0 -> nopen_ok c s0 -> forall tr s, steps c s0 tr s -> nopen_ok c s).
  { intros s0 HI0 H0 tr' s' H'. induction H' as [s0|s0 tr' s1 l s2 H' IH Hc Hs]; auto.
    apply (nopen_step c s1 l s2 Hf); auto. eapply Inv_steps; eauto. }
  apply (Hgen init (Inv_init c)) with (tr := tr); auto.
  unfold nopen_ok, init; proj_simpl. cbn [cnt filter length]. split; [|reflexivity].
  symmetry. apply cnt_all_false. reflexivity.
Qed.

(* at every moment of every trace (every suffix of the log) the number of tasks that have begun and not
   ended is at most the number of workers *)
Lemma open_tasks_bounded : forall c tr s l1 l2, c_fixed c = true -> steps c init tr s ->
  log s = l1 ++ l2 ->
  length (filter is_end_ev l2) <= length (filter is_beg_ev l2) <= length (filter is_end_ev l2) + c_nw c.
Proof.
  intros c tr s l1 l2 Hf H Hl.
  assert (Hs : exists tr1 s1, steps c init tr1 s1 /\ log s1 = l2).
  { destruct l2 as [|e l2]; [exists [], init; split; [constructor|reflexivity]|].
    destruct (log_origin _ _ _ H _ _ _ Hl) as (tr1 & s1 & lab & s2 & tr2 & A & B & C & D & E & F & G).
    exists (tr1 ++ [lab]), s2. split; auto. eapply steps_snoc; eauto. }
  destruct Hs as (tr1 & s1 & H1 & <-).
  destruct (nopen_reachable c tr1 s1 Hf H1) as (J1 & J2).
  pose proof (cnt_le (fun w => wrun (wst s1 w)) (c_nw c)). lia.
Qed.
