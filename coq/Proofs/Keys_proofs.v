(* Lemmas about Model/Keys.v: chunk arithmetic of size-suffixed keys and the permission lattice. *)
From stdpp Require Import gmap.
From Coq Require Import NArith ZArith Lia ZifyN ZifyNat ZifyBool.
From HV Require Import Lib.Bytes Model.Keys.
Local Open Scope N_scope.

(* ---------------------------------------------------------------- permissions *)

Lemma perm_has_spec (p req : perm) :
  perm_has p req = true <-> forall i, N.testbit req i = true -> N.testbit p i = true.
Proof.
  unfold perm_has. rewrite N.eqb_eq. split.
  - intros H i Hi.
    assert (Hb : N.testbit (N.ldiff req p) i = false) by (rewrite H; apply N.bits_0).
    rewrite N.ldiff_spec, Hi in Hb. cbn [andb] in Hb.
    destruct (N.testbit p i); [reflexivity | discriminate Hb].
  - intros H. apply N.bits_inj_0. intros i. rewrite N.ldiff_spec.
    destruct (N.testbit req i) eqn:Hi; [| reflexivity].
    rewrite (H i Hi). reflexivity.
Qed.

Lemma perm_has_refl p : perm_has p p = true.
Proof. apply perm_has_spec. auto. Qed.

Lemma perm_has_trans p q r : perm_has p q = true -> perm_has q r = true -> perm_has p r = true.
Proof. rewrite !perm_has_spec. auto. Qed.

Lemma perm_has_none p : perm_has p pNone = true.
Proof. apply perm_has_spec. intros i. rewrite N.bits_0. discriminate. Qed.

Lemma perm_has_antisym p q : perm_has p q = true -> perm_has q p = true -> p = q.
Proof.
  rewrite !perm_has_spec. intros H1 H2. apply N.bits_inj. intros i.
  destruct (N.testbit p i) eqn:Hp, (N.testbit q i) eqn:Hq; auto.
  - apply H2 in Hp. congruence.
  - apply H1 in Hq. congruence.
Qed.

(* union is the least upper bound *)
Lemma perm_has_union_lub s p q :
  perm_has s (perm_union p q) = perm_has s p && perm_has s q.
Proof.
  apply eq_true_iff_eq. rewrite andb_true_iff, !perm_has_spec. unfold perm_union. split.
  - intros H. split; intros i Hi; apply H; rewrite N.lor_spec, Hi; auto using orb_true_r.
  - intros [H1 H2] i. rewrite N.lor_spec, orb_true_iff. intros [Hi|Hi]; auto.
Qed.

Lemma perm_has_union_l p q r : perm_has p r = true -> perm_has (perm_union p q) r = true.
Proof.
  rewrite !perm_has_spec. unfold perm_union. intros H i Hi. rewrite N.lor_spec, (H i Hi). reflexivity.
Qed.

Lemma perm_has_union_r p q r : perm_has q r = true -> perm_has (perm_union p q) r = true.
Proof.
  rewrite !perm_has_spec. unfold perm_union. intros H i Hi. rewrite N.lor_spec, (H i Hi). apply orb_true_r.
Qed.

Lemma allocate_has_read p : perm_has p pAllocate = true -> perm_has p pRead = true.
Proof. intros H. apply (perm_has_trans _ _ _ H). reflexivity. Qed.

Lemma write_has_read p : perm_has p pWrite = true -> perm_has p pRead = true.
Proof. intros H. apply (perm_has_trans _ _ _ H). reflexivity. Qed.

Lemma perm_has_zero req : perm_has 0 req = true -> req = 0.
Proof. unfold perm_has. rewrite N.eqb_eq, N.ldiff_0_r. auto. Qed.

(* the finite table: all 256 x 256 (permission, requirement) bytes *)
Definition bytes256 : list N := map N.of_nat (seq 0 256).
Definition subset_bits (p req : N) : bool :=
  forallb (fun i => implb (N.testbit req i) (N.testbit p i)) [0; 1; 2; 3; 4; 5; 6; 7].

Definition lattice_table : bool :=
  forallb (fun p => forallb (fun r =>
    Bool.eqb (perm_has p r) (subset_bits p r)
    && implb (perm_has p pAllocate) (perm_has p pRead)
    && implb (perm_has p pWrite) (perm_has p pRead)
    && Bool.eqb (perm_has r (N.lor p r)) (perm_has r p)) bytes256) bytes256.

Lemma lattice_table_true : lattice_table = true.
Proof. vm_compute. reflexivity. Qed.

Lemma in_bytes256 p : p < 256 -> In p bytes256.
Proof.
  intros H. unfold bytes256. apply in_map_iff. exists (N.to_nat p). split; [lia|].
  apply in_seq. lia.
Qed.

Lemma lattice_bytes p r : p < 256 -> r < 256 ->
  perm_has p r = subset_bits p r.
Proof.
  intros Hp Hr. pose proof lattice_table_true as H. unfold lattice_table in H.
  rewrite forallb_forall in H. specialize (H p (in_bytes256 p Hp)).
  rewrite forallb_forall in H. specialize (H r (in_bytes256 r Hr)).
  rewrite !andb_true_iff in H. destruct H as [[[H _] _] _].
  apply eqb_prop in H. exact H.
Qed.

(* ---------------------------------------------------------------- Keys.Add / Keys.Has *)

Lemma keys_add_short m k p : (length k < 2)%nat -> keys_add m k p = None.
Proof.
  intros H. unfold keys_add, valid. destruct (Nat.leb 2 (length k)) eqn:E; [|reflexivity].
  apply Nat.leb_le in E. lia.
Qed.

Lemma keys_add_some m k p m' : keys_add m k p = Some m' ->
  valid k = true /\ m' = <[k := perm_union (default 0 (m !! k)) p]> m.
Proof. unfold keys_add. destruct (valid k); intros H; inversion H; auto. Qed.

Lemma keys_add_ok m k p : valid k = true -> keys_add m k p = Some (<[k := perm_union (default 0 (m !! k)) p]> m).
Proof. unfold keys_add. intros ->. reflexivity. Qed.

(* the permission a declaration list gives to a key: bitwise or of all its declarations *)
Fixpoint declared_perm (acc : perm) (decls : list (key * perm)) (k : key) : perm :=
  match decls with
  | [] => acc
  | (k', p) :: rest => declared_perm (if decide (k' = k) then perm_union acc p else acc) rest k
  end.

Lemma keys_add_all_spec decls : forall m m', keys_add_all m decls = Some m' ->
  (forall k, default 0 (m' !! k) = declared_perm (default 0 (m !! k)) decls k)
  /\ (forall k, is_Some (m' !! k) -> is_Some (m !! k) \/ valid k = true)
  /\ Forall (fun kp => valid (fst kp) = true) decls.
Proof.
  induction decls as [|[k0 p0] rest IH]; intros m m' H; cbn [keys_add_all declared_perm] in *.
  - inversion H; subst. split; [auto|]. split; [auto | constructor].
  - destruct (keys_add m k0 p0) as [m1|] eqn:E; [|discriminate H].
    apply keys_add_some in E. destruct E as [Hv ->].
    destruct (IH _ _ H) as (IH1 & IH2 & IH3). split; [|split].
    + intros k. rewrite IH1. destruct (decide (k0 = k)) as [->|Hne].
      * rewrite lookup_insert. reflexivity.
      * rewrite lookup_insert_ne by exact Hne. reflexivity.
    + intros k Hk. apply IH2 in Hk. destruct Hk as [Hk|Hk]; [|auto].
      destruct (decide (k0 = k)) as [->|Hne]; [auto|].
      rewrite lookup_insert_ne in Hk by exact Hne. auto.
    + constructor; [exact Hv | exact IH3].
Qed.

Lemma keys_add_all_fail decls : forall m, keys_add_all m decls = None <->
  Exists (fun kp => valid (fst kp) = false) decls.
Proof.
  induction decls as [|[k0 p0] rest IH]; intros m; cbn [keys_add_all].
  - split; [discriminate | intros H; inversion H].
  - unfold keys_add. destruct (valid k0) eqn:Hv.
    + rewrite IH. split; [intros H; right; exact H|].
      intros H. inversion H as [? ? Hh|? ? Ht]; subst; [cbn [fst] in Hh; congruence | exact Ht].
    + split; [intros _; left; exact Hv | reflexivity].
Qed.

(* a key shorter than two bytes is never in a scope built by Add, so no permission is granted *)
Lemma keys_add_all_short decls m (k : key) (p : perm) :
  keys_add_all ∅ decls = Some m -> (length k < 2)%nat -> p <> 0 -> keys_has m k p = false.
Proof.
  intros H Hk Hp. destruct (keys_add_all_spec _ _ _ H) as (_ & H2 & _).
  unfold keys_has. destruct (m !! k) as [q|] eqn:E.
  - assert (Hsome : is_Some (m !! k)) by (exists q; exact E).
    destruct (H2 k Hsome) as [Hs|Hv].
    + rewrite lookup_empty in Hs. destruct Hs as [? Hs]. discriminate Hs.
    + unfold valid in Hv. apply Nat.leb_le in Hv. lia.
  - cbn [default]. destruct (perm_has 0 p) eqn:E2; [|reflexivity].
    apply perm_has_zero in E2. congruence.
Qed.

(* ---------------------------------------------------------------- chunk arithmetic *)

Lemma max_chunks_short k : (length k < 2)%nat <-> max_chunks k = None.
Proof.
  unfold max_chunks. rewrite <- (rev_length k). destruct (rev k) as [|a [|b l]]; cbn [length]; split; intros H;
    try reflexivity; try lia; discriminate H.
Qed.

Lemma valid_spec k : valid k = true <-> (2 <= length k)%nat.
Proof. unfold valid. apply Nat.leb_le. Qed.

Lemma valid_max_chunks k : valid k = true <-> is_Some (max_chunks k).
Proof.
  rewrite valid_spec. destruct (max_chunks k) eqn:E.
  - split; [eauto|]. intros _. destruct (Nat.lt_ge_cases (length k) 2) as [H|H]; [|exact H].
    apply max_chunks_short in H. congruence.
  - apply max_chunks_short in E. split; [lia|]. intros [? H]. discriminate H.
Qed.

Lemma max_chunks_app k hi lo : max_chunks (k ++ [hi; lo]) = Some (hi * 256 + lo).
Proof. unfold max_chunks. rewrite rev_app_distr. reflexivity. Qed.

Lemma max_chunks_encode_chunks k c : max_chunks (encode_chunks k c) = Some c.
Proof.
  unfold encode_chunks, be16. rewrite max_chunks_app. f_equal.
  pose proof (N.div_mod' c 256). lia.
Qed.

(* the declared chunk count is the big-endian number in the last two bytes *)
Lemma max_chunks_spec k c : max_chunks k = Some c <->
  exists pre hi lo, k = pre ++ [hi; lo] /\ c = hi * 256 + lo.
Proof.
  split.
  - unfold max_chunks. destruct (rev k) as [|lo [|hi l]] eqn:E; try discriminate.
    intros H. inversion H; subst. exists (rev l), hi, lo. split; [|reflexivity].
    rewrite <- (rev_involutive k), E. cbn [rev]. rewrite <- app_assoc. reflexivity.
  - intros (pre & hi & lo & -> & ->). apply max_chunks_app.
Qed.

Definition chunks_nonneg (l : Z) : Z := if (l =? 0)%Z then 0%Z else (l / 64 + 1)%Z.

Lemma num_chunks_z_nonneg l : (0 <= l)%Z ->
  num_chunks_z l = if (chunks_nonneg l <=? 65535)%Z then Some (Z.to_N (chunks_nonneg l)) else None.
Proof.
  intros Hl. unfold num_chunks_z, chunks_nonneg. destruct (l =? 0)%Z eqn:E0.
  - reflexivity.
  - rewrite Z.quot_div_nonneg by lia.
    assert (0 <= l / 64)%Z by (apply Z.div_pos; lia).
    destruct (l / 64 + 1 >? 65535)%Z eqn:E1, (l / 64 + 1 <=? 65535)%Z eqn:E2; try lia; try reflexivity.
    rewrite Z.mod_small by lia. reflexivity.
Qed.

Lemma chunks_nonneg_mono a b : (0 <= a <= b)%Z -> (chunks_nonneg a <= chunks_nonneg b)%Z.
Proof.
  intros H. unfold chunks_nonneg.
  assert (0 <= b / 64)%Z by (apply Z.div_pos; lia).
  assert (a / 64 <= b / 64)%Z by (apply Z.div_le_mono; lia).
  destruct (a =? 0)%Z eqn:Ea, (b =? 0)%Z eqn:Eb; lia.
Qed.

Lemma chunks_nonneg_bounds l : (0 <= l)%Z ->
  (0 <= chunks_nonneg l)%Z /\ (l < 64 * chunks_nonneg l \/ l = 0)%Z.
Proof.
  intros H. unfold chunks_nonneg. destruct (l =? 0)%Z eqn:E; [lia|].
  pose proof (Z.div_mod l 64). pose proof (Z.mod_pos_bound l 64). lia.
Qed.

Lemma blenZ_nonneg v : (0 <= blenZ v)%Z.
Proof. unfold blenZ. lia. Qed.

Lemma num_chunks_spec v n : num_chunks v = Some n <->
  (chunks_nonneg (blenZ v) <= 65535)%Z /\ n = Z.to_N (chunks_nonneg (blenZ v)).
Proof.
  unfold num_chunks. rewrite num_chunks_z_nonneg by apply blenZ_nonneg.
  destruct (chunks_nonneg (blenZ v) <=? 65535)%Z eqn:E; split.
  - intros H. inversion H. split; [lia | reflexivity].
  - intros [_ ->]. reflexivity.
  - discriminate.
  - intros [H _]. lia.
Qed.

(* a value can be written to a key only if its chunk count does not exceed the key's number *)
Lemma verify_value_len_iff k l : verify_value_len k l = true <->
  exists n c, num_chunks_z l = Some n /\ max_chunks k = Some c /\ n <= c.
Proof.
  unfold verify_value_len. destruct (num_chunks_z l) as [n|]; [destruct (max_chunks k) as [c|]|].
  - rewrite N.leb_le. split; [intros H; exists n, c; auto | intros (n' & c' & Hn & Hc & Hle); congruence].
  - split; [discriminate | intros (n' & c' & _ & Hc & _); discriminate Hc].
  - split; [discriminate | intros (n' & c' & Hn & _); discriminate Hn].
Qed.

Lemma verify_value_iff k v : verify_value k v = true <->
  exists n c, num_chunks v = Some n /\ max_chunks k = Some c /\ n <= c.
Proof. apply verify_value_len_iff. Qed.

Lemma verify_value_short k v : (length k < 2)%nat -> verify_value k v = false.
Proof.
  intros H. apply max_chunks_short in H. unfold verify_value, verify_value_len.
  rewrite H. destruct (num_chunks_z (blenZ v)); reflexivity.
Qed.

Lemma verify_short ms mc k : (length k < 2)%nat -> verify ms mc k = false.
Proof.
  intros H. apply max_chunks_short in H. unfold verify. rewrite H.
  destruct (N.ltb ms (N.of_nat (length k))); reflexivity.
Qed.

(* a key encoded for a maximum size admits every value up to that size *)
Lemma encode_admits k n k' : encode k n = Some k' -> (0 <= n)%Z ->
  forall v, (blenZ v <= n)%Z -> verify_value k' v = true.
Proof.
  unfold encode. intros H Hn v Hv.
  rewrite num_chunks_z_nonneg in H by exact Hn.
  destruct (chunks_nonneg n <=? 65535)%Z eqn:E; [|discriminate H].
  inversion H; subst k'; clear H.
  apply verify_value_iff.
  pose proof (blenZ_nonneg v) as Hv0.
  pose proof (chunks_nonneg_mono (blenZ v) n ltac:(lia)) as Hm.
  pose proof (chunks_nonneg_bounds (blenZ v) Hv0) as [Hb _].
  exists (Z.to_N (chunks_nonneg (blenZ v))), (Z.to_N (chunks_nonneg n)).
  split; [|split].
  - apply num_chunks_spec. split; [lia | reflexivity].
  - apply max_chunks_encode_chunks.
  - lia.
Qed.

Lemma encode_some k n : (0 <= n)%Z -> (chunks_nonneg n <= 65535)%Z ->
  encode k n = Some (encode_chunks k (Z.to_N (chunks_nonneg n))).
Proof.
  intros Hn Hc. unfold encode. rewrite num_chunks_z_nonneg by exact Hn.
  destruct (chunks_nonneg n <=? 65535)%Z eqn:E; [reflexivity | lia].
Qed.
