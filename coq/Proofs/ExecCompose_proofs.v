(* ExecCompose_proofs.v — bridge between the executor's labelled transition system (property C08:
   Model/Executor.v, Proofs/Executor_proofs.v, Props/C08.v) and the schedule-indexed model of the
   task loop of Processor.Execute (property C01: Model/ParExec.v, Proofs/ParExec_proofs.v).

   C01's schedule theorems assume "sigma keeps the executor's conflicting pairs in block order";
   C08 proves, for every trace of the executor LTS, that a task begins only after every earlier
   conflicting task ended.  Here the two are composed:

     task_of / tasks_of / block_tasks   a block's declared key maps as an executor configuration
                                        (keys numbered by an arbitrary injection [enc : key -> N]);
     conflict_enc                       Executor.conflict on the encoded tasks = ParExec.exec_conflict;
     begin_order                        the task ids of a log in the order of their EvBegin events;
     trace_respects / trace_respects_block
                                        for EVERY reachable executor state, begin_order (log s)
                                        respects the executor conflicts of the block (from
                                        C08_order_code and C08_once);
     begin_order_perm                   when every task has begun, begin_order (log s) is a permutation
                                        of the block positions (C08_once, C08_all_run);
     composed_*                         execute_block_sched / par_block under begin_order (log s)
                                        equals sequential execution. *)
From stdpp Require Import gmap.
From Coq Require Import NArith ZArith Lia.
From HV Require Import Lib.Bytes Lib.U64 Model.Keys Model.Tstate Model.Fees Model.TxStatic Model.Chain
                       Model.ParExec Proofs.ParExec_proofs.
From HV Require Model.Executor Proofs.Executor_proofs Props.C08.

Module E := HV.Model.Executor.
Module EP := HV.Proofs.Executor_proofs.
Module C08 := HV.Props.C08.

(* ------------------------------------------------------------------ 0. list plumbing (Coq lists / stdpp) *)

Lemma nth_error_lookup {A} (l : list A) : forall i, nth_error l i = l !! i.
Proof. induction l as [|x l IH]; intros [|i]; cbn; auto. Qed.

Lemma map_fmap {A B} (f : A -> B) (l : list A) : List.map f l = f <$> l.
Proof. induction l as [|x l IH]; cbn; [reflexivity | rewrite IH; reflexivity]. Qed.

(* ------------------------------------------------------------------ 1. a block as an executor configuration *)

Section Enc.
Context (enc : key -> N) `{Henc : !Inj (=) (=) enc}.

(* state.Keys (a Go map key -> Permissions) as the executor model's task: its (key, permission)
   pairs, keys numbered by [enc].  The order of the pairs is immaterial for the executor model
   (Run's `for k, v := range keys` is modelled by the label LRunKey k, any order). *)
Definition task_of (sk : gmap key perm) : E.task :=
  List.map (fun kp : key * perm => (enc (fst kp), snd kp)) (map_to_list sk).

(* one Run per prepared transaction, in block order, with the transaction's state keys *)
Definition tasks_of (ptxs : list ptx) : list E.task := List.map (fun p => task_of (ptx_keys p)) ptxs.

(* the same from the block's transactions (what [prepare] computes: [state_keys t]); a transaction
   whose StateKeys fails never reaches the executor (prepare fails there); it is given the empty
   task, which conflicts with nothing *)
Definition block_tasks (txs : list tx) : list E.task :=
  List.map (fun t => match state_keys t with Some sk => task_of sk | None => [] end) txs.

Lemma task_of_nodup sk : NoDup (List.map fst (task_of sk)).
Proof.
  unfold task_of. rewrite List.map_map. cbn [fst].
  replace (List.map (fun x : key * perm => enc (fst x)) (map_to_list sk))
    with (enc <$> (map_to_list sk).*1).
  - apply (NoDup_fmap_2 enc). apply NoDup_fst_map_to_list.
  - induction (map_to_list sk) as [|x l IH]; cbn; [reflexivity | rewrite IH; reflexivity].
Qed.

Lemma task_of_in sk k p : In (k, p) (task_of sk) <-> exists k0, k = enc k0 /\ sk !! k0 = Some p.
Proof.
  unfold task_of. rewrite in_map_iff. split.
  - intros [[k0 p0] [Heq Hin]]. cbn [fst snd] in Heq. inversion Heq; subst.
    exists k0. split; [reflexivity|]. apply elem_of_map_to_list, elem_of_list_In, Hin.
  - intros (k0 & -> & Hl). exists (k0, p). split; [reflexivity|].
    apply elem_of_list_In, elem_of_map_to_list, Hl.
Qed.

Lemma tasks_of_length ptxs : length (tasks_of ptxs) = length ptxs.
Proof. apply map_length. Qed.
Lemma block_tasks_length txs : length (block_tasks txs) = length txs.
Proof. apply map_length. Qed.

Lemma tasks_of_nth ptxs i p : ptxs !! i = Some p -> nth_error (tasks_of ptxs) i = Some (task_of (ptx_keys p)).
Proof. intros H. unfold tasks_of. rewrite nth_error_map, nth_error_lookup, H. reflexivity. Qed.

Lemma block_tasks_nth txs i sk : tx_keys_at txs i = Some sk -> nth_error (block_tasks txs) i = Some (task_of sk).
Proof.
  unfold tx_keys_at. intros H. unfold block_tasks. rewrite nth_error_map, nth_error_lookup.
  destruct (txs !! i) as [t|]; [|discriminate H]. cbn. rewrite H. reflexivity.
Qed.

(* the keys of every task are pairwise distinct: the second half of the executor contract [cfg_ok] *)
Lemma tasks_of_keys_nodup ptxs t : In t (tasks_of ptxs) -> NoDup (List.map fst t).
Proof. unfold tasks_of. rewrite in_map_iff. intros (p & <- & _). apply task_of_nodup. Qed.

Lemma block_tasks_keys_nodup txs t : In t (block_tasks txs) -> NoDup (List.map fst t).
Proof.
  unfold block_tasks. rewrite in_map_iff. intros (x & <- & _).
  destruct (state_keys x); [apply task_of_nodup | constructor].
Qed.

Lemma tasks_of_cfg_ok ptxs maxd nw : (Z.of_nat (length ptxs) <= maxd)%Z -> EP.cfg_ok (E.mkC (tasks_of ptxs) maxd nw).
Proof.
  intros H. split; cbn [E.c_ts E.c_maxd].
  - rewrite tasks_of_length. exact H.
  - intros t Ht. apply NoDup_ListNoDup. eapply tasks_of_keys_nodup, Ht.
Qed.

Lemma block_tasks_cfg_ok txs maxd nw : (Z.of_nat (length txs) <= maxd)%Z -> EP.cfg_ok (E.mkC (block_tasks txs) maxd nw).
Proof.
  intros H. split; cbn [E.c_ts E.c_maxd].
  - rewrite block_tasks_length. exact H.
  - intros t Ht. apply NoDup_ListNoDup. eapply block_tasks_keys_nodup, Ht.
Qed.

(* [prepare] hands exactly the state keys of the block's transactions to the executor *)
Lemma tasks_of_prepared r fm txs ptxs fm' :
  prepare r fm txs = inl (ptxs, fm') -> tasks_of ptxs = block_tasks txs.
Proof.
  intros Hp. destruct (prepare_lookup _ _ _ _ _ Hp) as [Hlen Hl].
  apply list_eq. intros i. rewrite <- !nth_error_lookup. unfold tasks_of, block_tasks.
  rewrite !nth_error_map, !nth_error_lookup. unfold ptx in *.
  destruct (ptxs !! i) as [[[t sk] u]|] eqn:Ei.
  - destruct (Hl _ _ _ _ Ei) as [-> Hsk]. cbn. rewrite Hsk. reflexivity.
  - apply lookup_ge_None in Ei. rewrite Hlen in Ei. apply lookup_ge_None in Ei. rewrite Ei. reflexivity.
Qed.

(* ------------------------------------------------------------------ 2. the two conflict relations coincide *)

Lemma conflict_enc a b : E.conflict (task_of a) (task_of b) = exec_conflict a b.
Proof.
  apply Bool.eq_iff_eq_true. rewrite exec_conflict_spec.
  unfold E.conflict, E.conflict_with. rewrite existsb_exists. split.
  - intros ([k p] & Hin & H). apply existsb_exists in H. destruct H as ([k' q] & Hin' & H).
    cbn [fst snd] in H. apply andb_prop in H. destruct H as [Hk H]. apply N.eqb_eq in Hk. subst k'.
    apply task_of_in in Hin. destruct Hin as (k0 & -> & Ha).
    apply task_of_in in Hin'. destruct Hin' as (k1 & Hk & Hb). apply Henc in Hk. subst k1.
    exists k0, p, q. split; [exact Ha|]. split; [exact Hb|]. apply orb_prop in H. exact H.
  - intros (k & p & q & Ha & Hb & H). exists (enc k, p). split.
    + apply task_of_in. exists k. auto.
    + apply existsb_exists. exists (enc k, q). split; [apply task_of_in; exists k; auto|].
      cbn [fst snd]. rewrite N.eqb_refl. cbn [andb]. apply orb_true_iff. exact H.
Qed.

End Enc.

Lemma exec_conflict_sym a b : exec_conflict a b = exec_conflict b a.
Proof.
  apply Bool.eq_iff_eq_true. rewrite !exec_conflict_spec.
  split; intros (k & p & q & Ha & Hb & H); exists k, q, p; tauto.
Qed.

(* ------------------------------------------------------------------ 3. the order in which tasks began *)

(* [Executor.log] is newest-first; [begins] keeps the ids of the EvBegin events (still newest first) *)
Fixpoint begins (l : list E.event) : list nat :=
  match l with
  | [] => []
  | E.EvBegin t :: l' => t :: begins l'
  | _ :: l' => begins l'
  end.

(* oldest first: the order in which the task bodies were started *)
Definition begin_order (l : list E.event) : list nat := reverse (begins l).

Lemma begins_app l1 l2 : begins (l1 ++ l2) = begins l1 ++ begins l2.
Proof. induction l1 as [|[t|t ok|e] l1 IH]; cbn; [reflexivity | rewrite IH; reflexivity | exact IH | exact IH]. Qed.

Lemma begins_in l t : t ∈ begins l <-> In (E.EvBegin t) l.
Proof.
  induction l as [|[t'|t' ok|e] l IH]; cbn.
  - rewrite elem_of_nil. tauto.
  - rewrite elem_of_cons, IH. split; (intros [H|H]; [left; congruence | right; exact H]).
  - rewrite IH. split; [tauto | intros [H|H]; [discriminate H | exact H]].
  - rewrite IH. split; [tauto | intros [H|H]; [discriminate H | exact H]].
Qed.

Lemma begin_order_in l t : t ∈ begin_order l <-> In (E.EvBegin t) l.
Proof. unfold begin_order. rewrite elem_of_reverse. apply begins_in. Qed.

(* C08_once as a list property *)
Definition once (l : list E.event) : Prop :=
  forall t l1 l2, l = l1 ++ E.EvBegin t :: l2 -> ~ In (E.EvBegin t) l1 /\ ~ In (E.EvBegin t) l2.

Lemma once_tail e l : once (e :: l) -> once l.
Proof.
  intros H t l1 l2 Heq. destruct (H t (e :: l1) l2) as [H1 H2]; [rewrite Heq; reflexivity|].
  split; [|exact H2]. intros Hin. apply H1. right. exact Hin.
Qed.

Lemma once_begins_nodup l : once l -> NoDup (begins l).
Proof.
  induction l as [|e l IH]; intros H; [constructor|].
  pose proof (IH (once_tail _ _ H)) as Hnd. destruct e as [t|t ok|x]; cbn; try exact Hnd.
  constructor; [|exact Hnd]. rewrite begins_in. exact (proj2 (H t [] l eq_refl)).
Qed.

(* if EvBegin j is older than EvBegin i in the log, j comes before i in begin_order *)
Lemma begin_order_split l1 i l2 j :
  In (E.EvBegin j) l2 ->
  exists b' a', (b' < a')%nat /\ begin_order (l1 ++ E.EvBegin i :: l2) !! b' = Some j /\
                begin_order (l1 ++ E.EvBegin i :: l2) !! a' = Some i.
Proof.
  intros Hin. unfold begin_order. rewrite begins_app. cbn [begins].
  rewrite reverse_app, reverse_cons, <- app_assoc.
  apply begins_in, elem_of_reverse, elem_of_list_lookup in Hin. destruct Hin as [b' Hb'].
  exists b', (length (reverse (begins l2))). split; [eapply lookup_lt_Some, Hb'|]. split.
  - rewrite lookup_app_l by (eapply lookup_lt_Some, Hb'). exact Hb'.
  - cbn [app]. apply list_lookup_middle. reflexivity.
Qed.

(* ------------------------------------------------------------------ 4. every executor trace yields a conflict-respecting order *)

Section Trace.
Variables (c : E.cfg) (tr : list E.label) (s : E.state).
Hypothesis Hc : EP.cfg_ok c.
Hypothesis Hst : E.steps c E.init tr s.

Lemma trace_begins_nodup : NoDup (begin_order (E.log s)).
Proof.
  unfold begin_order. rewrite reverse_Permutation. apply once_begins_nodup.
  intros t l1 l2 Heq. exact (C08.C08_once c tr s Hc Hst t l1 l2 Heq).
Qed.

(* only registered tasks ever begin *)
Lemma trace_begun_lt t : In (E.EvBegin t) (E.log s) -> (t < length (E.c_ts c))%nat.
Proof.
  intros Hin. destruct (EP.reachable_Inv Hc Hst) as (I & P & _).
  destruct (Nat.lt_ge_cases t (length (E.c_ts c))) as [Hlt|Hge]; [exact Hlt|exfalso].
  pose proof (EP.b_next I) as Hnx.
  assert (Hbl : E.tasks s t = E.blank) by (apply (EP.b_blank I); lia).
  apply (EP.l_pre P t); [rewrite Hbl; reflexivity | exact Hin].
Qed.

(* Generic form.  [cfp i j]: positions i and j of the block conflict; all that is needed is that it is
   symmetric and implies the executor's conflict on the registered tasks. *)
Lemma trace_respects_gen (cfp : nat -> nat -> Prop) :
  (forall i j, cfp i j -> cfp j i) ->
  (forall i j, cfp i j -> exists ti tj, nth_error (E.c_ts c) i = Some ti /\ nth_error (E.c_ts c) j = Some tj /\
                                         E.conflict ti tj = true) ->
  forall a b i j, (a < b)%nat -> begin_order (E.log s) !! a = Some i -> begin_order (E.log s) !! b = Some j ->
                  cfp i j -> (i < j)%nat.
Proof.
  intros Hsym Hcf a b i j Hab Ha Hb Hij.
  pose proof trace_begins_nodup as Hnd.
  destruct (lt_eq_lt_dec i j) as [[Hlt|Heq]|Hgt]; [exact Hlt | exfalso | exfalso].
  - subst j. pose proof (NoDup_lookup _ _ _ _ Hnd Ha Hb). lia.
  - (* j < i, j conflicts with i, and i began: by C08_order_code j ended, hence began, before that *)
    destruct (Hcf j i (Hsym _ _ Hij)) as (tj & ti & Hnj & Hni & Hconf).
    assert (Hin : In (E.EvBegin i) (E.log s)) by (apply begin_order_in; eapply elem_of_list_lookup_2, Ha).
    apply in_split in Hin. destruct Hin as (l1 & l2 & Hlog).
    destruct (C08.C08_order_code c tr s Hc Hst j i tj ti Hgt Hnj Hni Hconf l1 l2 Hlog) as (_ & l3 & l4 & Hl2 & Hbj).
    assert (Hj2 : In (E.EvBegin j) l2) by (rewrite Hl2; apply in_or_app; right; right; exact Hbj).
    destruct (begin_order_split l1 i l2 j Hj2) as (b' & a' & Hlt' & Hb' & Ha'). rewrite <- Hlog in Hb', Ha'.
    pose proof (NoDup_lookup _ _ _ _ Hnd Ha Ha'). pose proof (NoDup_lookup _ _ _ _ Hnd Hb Hb'). lia.
Qed.

(* when every registered task has begun, begin_order is a permutation of the positions *)
Lemma trace_begin_order_perm :
  (forall j, (j < length (E.c_ts c))%nat -> In (E.EvBegin j) (E.log s)) ->
  begin_order (E.log s) ≡ₚ seq 0 (length (E.c_ts c)).
Proof.
  intros Hall. apply NoDup_Permutation; [exact trace_begins_nodup | apply NoDup_seq|].
  intros x. rewrite begin_order_in, elem_of_seq. split.
  - intros H. apply trace_begun_lt in H. lia.
  - intros H. apply Hall. lia.
Qed.

(* a complete run that recorded no error: what `e.Wait()` returning nil means *)
Lemma wait_nil_all_begun : E.all_done c s -> E.err s = None ->
  forall j, (j < length (E.c_ts c))%nat -> In (E.EvBegin j) (E.log s).
Proof.
  intros (_ & _ & Hd) He j Hj. destruct (EP.reachable_Inv Hc Hst) as (_ & P & _).
  assert (Hend : In (E.EvEnd j true) (E.log s)).
  { destruct (EP.l_fin P j) as [H1|H1]; [rewrite (Hd j Hj); reflexivity | congruence | exact H1]. }
  apply in_split in Hend. destruct Hend as (l1 & l2 & Heq).
  rewrite Heq. apply in_or_app. right. right. exact (EP.l_endbeg P l1 j true l2 Heq).
Qed.

(* the same from the trace: no Stop, no failing task body (C08_done_stuck + C08_all_run) *)
Lemma clean_trace_all_begun : (1 <= E.c_nw c)%nat -> E.all_done c s ->
  ~ In E.LStop tr -> (forall t, ~ In (E.LFEnd t false) tr) ->
  E.err s = None /\ forall j, (j < length (E.c_ts c))%nat -> In (E.EvBegin j) (E.log s).
Proof.
  intros Hnw Hd Hstop Hfail.
  destruct (C08.C08_all_run c tr s Hc Hnw Hst (C08.C08_done_stuck c tr s Hc Hst Hd)) as [_ H].
  destruct (H Hstop Hfail) as [He Hall]. split; [exact He|]. intros j Hj. exact (proj1 (Hall j Hj)).
Qed.

End Trace.

(* ------------------------------------------------------------------ 5. instantiation: prepared transactions and blocks *)

Section Compose.
Context (enc : key -> N) `{Henc : !Inj (=) (=) enc}.

(* every reachable state of the executor over the block's tasks: the order in which the task bodies
   began respects the executor conflicts of the prepared transactions *)
Lemma trace_respects (ptxs : list ptx) c tr s :
  E.c_ts c = tasks_of enc ptxs -> EP.cfg_ok c -> E.steps c E.init tr s ->
  respects_with exec_conflict ptxs (begin_order (E.log s)).
Proof.
  intros Hts Hc Hst a b i j Hab Ha Hb Hcf.
  apply (trace_respects_gen c tr s Hc Hst (fun i j => conflict_at exec_conflict ptxs i j = true)) with (a := a) (b := b);
    try assumption.
  - intros x y. unfold conflict_at. destruct (ptxs !! x), (ptxs !! y); try discriminate.
    rewrite exec_conflict_sym. auto.
  - intros x y. unfold conflict_at. destruct (ptxs !! x) as [px|] eqn:Ex; [|discriminate].
    destruct (ptxs !! y) as [py|] eqn:Ey; [|discriminate]. intros H.
    exists (task_of enc (ptx_keys px)), (task_of enc (ptx_keys py)). rewrite Hts.
    split; [apply tasks_of_nth, Ex|]. split; [apply tasks_of_nth, Ey|].
    rewrite (conflict_enc enc). exact H.
Qed.

Lemma trace_respects_block (txs : list tx) c tr s :
  E.c_ts c = block_tasks enc txs -> EP.cfg_ok c -> E.steps c E.init tr s ->
  respects_block_with exec_conflict txs (begin_order (E.log s)).
Proof.
  intros Hts Hc Hst a b i j Hab Ha Hb Hcf.
  apply (trace_respects_gen c tr s Hc Hst (fun i j => tx_conflict_at exec_conflict txs i j = true)) with (a := a) (b := b);
    try assumption.
  - intros x y. unfold tx_conflict_at. destruct (tx_keys_at txs x), (tx_keys_at txs y); try discriminate.
    rewrite exec_conflict_sym. auto.
  - intros x y. unfold tx_conflict_at. destruct (tx_keys_at txs x) as [kx|] eqn:Ex; [|discriminate].
    destruct (tx_keys_at txs y) as [ky|] eqn:Ey; [|discriminate]. intros H.
    exists (task_of enc kx), (task_of enc ky). rewrite Hts.
    split; [apply block_tasks_nth, Ex|]. split; [apply block_tasks_nth, Ey|].
    rewrite (conflict_enc enc). exact H.
Qed.

(* complete runs: begin_order is a permutation of the block positions *)
Lemma trace_perm (ptxs : list ptx) c tr s :
  E.c_ts c = tasks_of enc ptxs -> EP.cfg_ok c -> E.steps c E.init tr s ->
  E.all_done c s -> E.err s = None ->
  begin_order (E.log s) ≡ₚ seq 0 (length ptxs).
Proof.
  intros Hts Hc Hst Hd He. rewrite <- (tasks_of_length enc ptxs), <- Hts.
  apply (trace_begin_order_perm c tr s Hc Hst). apply (wait_nil_all_begun c tr s Hc Hst Hd He).
Qed.

Lemma trace_perm_block (txs : list tx) c tr s :
  E.c_ts c = block_tasks enc txs -> EP.cfg_ok c -> E.steps c E.init tr s ->
  E.all_done c s -> E.err s = None ->
  begin_order (E.log s) ≡ₚ seq 0 (length txs).
Proof.
  intros Hts Hc Hst Hd He. rewrite <- (block_tasks_length enc txs), <- Hts.
  apply (trace_begin_order_perm c tr s Hc Hst). apply (wait_nil_all_begun c tr s Hc Hst Hd He).
Qed.

(* the task loop: whatever interleaving the executor produced, running the prepared transactions in
   the order in which the executor started them gives the result of the sequential loop *)
Lemma composed_task_loop r fm parent ts st (ptxs : list ptx) c tr s :
  E.c_ts c = tasks_of enc ptxs -> EP.cfg_ok c -> E.steps c E.init tr s ->
  E.all_done c s -> E.err s = None ->
  par_block r fm parent ts st ptxs (begin_order (E.log s)) = run_txs r fm parent ts st ptxs.
Proof.
  intros Hts Hc Hst Hd He. apply par_block_respects.
  - eapply trace_perm; eassumption.
  - apply respects_exec. eapply trace_respects; eassumption.
Qed.

(* Processor.Execute *)
Lemma composed_block r mk p b c tr s :
  E.c_ts c = block_tasks enc (b_txs b) -> EP.cfg_ok c -> E.steps c E.init tr s ->
  E.all_done c s -> E.err s = None ->
  execute_block_sched r mk p b (begin_order (E.log s)) = execute_block r mk p b.
Proof.
  intros Hts Hc Hst Hd He. apply execute_block_sched_eq.
  - eapply trace_perm_block; eassumption.
  - apply respects_block_exec. eapply trace_respects_block; eassumption.
Qed.

End Compose.

(* ------------------------------------------------------------------ 6. incomplete and failing runs
   In ANY reachable executor state (prefix of a run, failing bodies, Stop) the set of started tasks is
   closed under "earlier conflicting task", so the begin order extends — by the not yet started
   positions in block order — to a conflict-respecting permutation; hence every started task has
   exactly the outcome it has in sequential execution. *)

Section Closed.
Variables (c : E.cfg) (tr : list E.label) (s : E.state).
Hypothesis Hc : EP.cfg_ok c.
Hypothesis Hst : E.steps c E.init tr s.

(* C08_order_code: a started task's earlier conflicting tasks have all started (and ended) *)
Lemma trace_down_closed i j ti tj : (i < j)%nat ->
  nth_error (E.c_ts c) i = Some ti -> nth_error (E.c_ts c) j = Some tj -> E.conflict ti tj = true ->
  j ∈ begin_order (E.log s) -> i ∈ begin_order (E.log s).
Proof.
  intros Hij Hi Hj Hcf Hin. apply begin_order_in in Hin. apply begin_order_in.
  apply in_split in Hin. destruct Hin as (l1 & l2 & Hlog).
  destruct (C08.C08_order_code c tr s Hc Hst i j ti tj Hij Hi Hj Hcf l1 l2 Hlog) as (_ & l3 & l4 & Hl2 & Hbi).
  rewrite Hlog, Hl2. apply in_or_app. right. right. apply in_or_app. right. right. exact Hbi.
Qed.
End Closed.

Lemma par_exec_app r fm parent ts ptxs : forall l1 l2 st,
  snd (par_exec r fm parent ts st ptxs (l1 ++ l2)) =
  snd (par_exec r fm parent ts st ptxs l1) ++
  snd (par_exec r fm parent ts (fst (par_exec r fm parent ts st ptxs l1)) ptxs l2).
Proof.
  induction l1 as [|i l1 IH]; intros l2 st; [reflexivity|]. cbn [app par_exec].
  destruct (ptxs !! i) as [[[t sk] u]|]; [|apply IH].
  destruct (run_tx r fm parent ts st t sk u) as [st' o]. specialize (IH l2 st').
  destruct (par_exec r fm parent ts st' ptxs (l1 ++ l2)) as [sa osa].
  destruct (par_exec r fm parent ts st' ptxs l1) as [sb osb]. cbn [fst snd] in *. rewrite IH. reflexivity.
Qed.

Lemma ni_respects_app ptxs : forall l1 l2,
  ni_respects ptxs l1 -> ni_respects ptxs l2 ->
  (forall i j, i ∈ l1 -> j ∈ l2 -> (j < i)%nat -> nonint_at ptxs i j) ->
  ni_respects ptxs (l1 ++ l2).
Proof.
  induction l1 as [|x l1 IH]; intros l2 H1 H2 Hx; [exact H2|]. cbn [app ni_respects] in *.
  destruct H1 as [Ha Hb]. split.
  - intros j Hj Hlt. apply elem_of_app in Hj. destruct Hj as [Hj|Hj]; [apply Ha; assumption|].
    apply Hx; [left | exact Hj | exact Hlt].
  - apply IH; [exact Hb | exact H2|]. intros i j Hi Hj. apply Hx; [right; exact Hi | exact Hj].
Qed.

Lemma ni_respects_filter_seq ptxs (P : nat -> Prop) `{forall x, Decision (P x)} : forall m k,
  ni_respects ptxs (filter P (seq k m)).
Proof.
  induction m as [|m IH]; intros k; [exact I|]. cbn [seq]. rewrite filter_cons.
  destruct (decide (P k)); [|apply IH]. cbn [ni_respects]. split; [|apply IH].
  intros j Hj Hlt. apply elem_of_list_filter in Hj. destruct Hj as [_ Hj]. apply elem_of_seq in Hj. lia.
Qed.

Section Partial.
Context (enc : key -> N) `{Henc : !Inj (=) (=) enc}.

Lemma trace_started_sequential r fm parent ts st (ptxs : list ptx) c tr s :
  E.c_ts c = tasks_of enc ptxs -> EP.cfg_ok c -> E.steps c E.init tr s ->
  forall i o, (i, o) ∈ snd (par_exec r fm parent ts st ptxs (begin_order (E.log s))) ->
              (i, o) ∈ snd (par_exec r fm parent ts st ptxs (seq 0 (length ptxs))).
Proof.
  intros Hts Hc Hst i o Hin.
  set (sigma := begin_order (E.log s)) in *.
  set (rest := filter (fun x => x ∉ sigma) (seq 0 (length ptxs))).
  assert (Hnd : NoDup sigma) by exact (trace_begins_nodup c tr s Hc Hst).
  assert (Hlt : forall x, x ∈ sigma -> (x < length ptxs)%nat).
  { intros x Hx. rewrite <- (tasks_of_length enc ptxs), <- Hts.
    apply (trace_begun_lt c tr s Hc Hst), begin_order_in, Hx. }
  assert (Hperm : sigma ++ rest ≡ₚ seq 0 (length ptxs)).
  { apply NoDup_Permutation; [|apply NoDup_seq|].
    - apply NoDup_app. split; [exact Hnd|]. split; [|apply NoDup_filter, NoDup_seq].
      intros x Hx Hr. apply elem_of_list_filter in Hr. tauto.
    - intros x. rewrite elem_of_app. unfold rest. rewrite elem_of_list_filter, elem_of_seq. split.
      + intros [Hx|[_ Hx]]; [apply Hlt in Hx; lia | exact Hx].
      + intros Hx. destruct (decide (x ∈ sigma)); [left; assumption | right; split; assumption]. }
  assert (Hni : ni_respects ptxs (sigma ++ rest)).
  { apply ni_respects_app.
    - apply respects_ni, respects_exec. exact (trace_respects enc ptxs c tr s Hts Hc Hst).
    - apply ni_respects_filter_seq; apply _.
    - intros x y Hx Hy Hyx. apply conflict_at_nonint.
      destruct (conflict_at conflict ptxs x y) eqn:Ecf; [exfalso|reflexivity].
      apply elem_of_list_filter in Hy. destruct Hy as [Hy _]. apply Hy.
      rewrite conflict_at_sym in Ecf. unfold conflict_at in Ecf.
      destruct (ptxs !! y) as [py|] eqn:Ey; [|discriminate Ecf].
      destruct (ptxs !! x) as [px|] eqn:Ex; [|discriminate Ecf].
      apply conflict_exec_conflict in Ecf. rewrite <- (conflict_enc enc) in Ecf.
      apply (trace_down_closed c tr s Hc Hst y x (task_of enc (ptx_keys py)) (task_of enc (ptx_keys px)) Hyx); [rewrite Hts; apply tasks_of_nth, Ey
        | rewrite Hts; apply tasks_of_nth, Ex | exact Ecf | exact Hx]. }
  pose proof (sched_eq_isort r fm parent ts ptxs _ Hni st) as [_ Hos].
  rewrite (isort_seq _ _ Hperm) in Hos. rewrite <- Hos, par_exec_app.
  apply elem_of_app. left. exact Hin.
Qed.

End Partial.
