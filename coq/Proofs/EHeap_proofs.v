(* Refinement of the ExpiryHeap model (Model/EHeap.v) to a finite set of items with unique ids. *)
From Coq Require Import List NArith ZArith Bool Arith Lia Permutation Sorted.
From Coq Require Import ZifyN ZifyNat ZifyBool.
Import ListNotations.
From HV Require Import Model.Heap Model.EHeap Proofs.Heap_proofs.

Section EHeapProofs.
Variable A : Type.
Variable gid : A -> N.
Variable gexp : A -> Z.
Notation entry := (entry A).
Implicit Types (h : list entry) (e : entry) (x y : A).

Definition items h : list A := map e_item h.

(* every entry was built by Add: ID = item id, Val = item expiry *)
Definition cont_ok (c : N * A * Z) : Prop := fst (fst c) = gid (snd (fst c)) /\ snd c = gexp (snd (fst c)).
Definition ehwf h : Prop := hwf A true h /\ Forall cont_ok (conts A h).

Lemma items_conts h : items h = map (fun c => snd (fst c)) (conts A h).
Proof. unfold items, conts. rewrite map_map. reflexivity. Qed.

Lemma perm_items h h' : Permutation (conts A h) (conts A h') -> Permutation (items h) (items h').
Proof. intros H. rewrite !items_conts. now apply Permutation_map. Qed.

Lemma ehwf_nil : ehwf [].
Proof. split; [apply hwf_nil|constructor]. Qed.

Lemma entry_ok h e : ehwf h -> In e h -> e_id e = gid (e_item e) /\ e_val e = gexp (e_item e).
Proof.
  intros [_ H] Hin. rewrite Forall_forall in H. apply (H (cont A e)). unfold conts. now apply in_map.
Qed.

Lemma ids_items h : ehwf h -> ids_of A h = map gid (items h).
Proof.
  intros Hw. unfold ids_of, items. rewrite map_map. apply map_ext_in. intros e He.
  now apply (entry_ok h e Hw).
Qed.

Lemma ehwf_nodup h : ehwf h -> NoDup (map gid (items h)).
Proof. intros Hw. rewrite <- ids_items by assumption. apply Hw. Qed.

Lemma has_spec h id : ehwf h -> (eh_has h id = true <-> exists x, In x (items h) /\ gid x = id).
Proof.
  intros Hw. unfold eh_has. rewrite ih_has_true, ids_items by assumption. rewrite in_map_iff.
  split; intros (x & H1 & H2); exists x; auto.
Qed.

(* ---------- Add ---------- *)
Lemma add_spec h x : ehwf h ->
  ehwf (eh_add gid gexp h x) /\
  ((eh_has h (gid x) = true /\ eh_add gid gexp h x = h) \/
   (eh_has h (gid x) = false /\ Permutation (items (eh_add gid gexp h x)) (x :: items h))).
Proof.
  intros Hw. pose proof Hw as [Hh Hc]. unfold eh_add, eh_has.
  set (e := mkE (gid x) x (gexp x) (length h)).
  destruct (ih_has h (gid x)) eqn:E.
  - rewrite (push_dup A true h e Hh E). split; [assumption|]. now left.
  - destruct (push_fresh A true h e Hh eq_refl E) as [Hh' Hp]. split.
    + split; [assumption|]. eapply Permutation_Forall; [symmetry; exact Hp|].
      constructor; [split; reflexivity|assumption].
    + right. split; [reflexivity|]. apply (perm_items _ (e :: h)), Hp.
Qed.

(* ---------- Remove ---------- *)
Lemma get_nth h id e : ehwf h -> ih_get h id = Some e -> nth_error h (e_idx e) = Some e.
Proof.
  intros [(Hi & _) _] Hg. apply ih_get_some in Hg as [Hin _].
  apply In_nth_error in Hin as (k & Hk). now rewrite (Hi k e Hk).
Qed.

Lemma remove_absent h id : eh_has h id = false -> eh_remove h id = (h, None).
Proof. unfold eh_has, ih_has, eh_remove. destruct (ih_get h id); [discriminate|reflexivity]. Qed.

Lemma remove_present h id e : ehwf h -> ih_get h id = Some e ->
  snd (eh_remove h id) = Some (e_item e) /\ ehwf (fst (eh_remove h id)) /\
  Permutation (items h) (e_item e :: items (fst (eh_remove h id))).
Proof.
  intros Hw Hg. pose proof Hw as [Hh Hc]. unfold eh_remove. rewrite Hg. cbn [fst snd].
  destruct (remove_spec A true h (e_idx e) e Hh (get_nth h id e Hw Hg)) as (e' & _ & _ & Hh' & Hp).
  split; [reflexivity|]. split.
  - split; [assumption|]. eapply Permutation_Forall in Hc; [|exact Hp]. now inversion Hc.
  - apply (perm_items h (e :: _)), Hp.
Qed.

(* the id of a held item finds its entry *)
Lemma get_of_entry h e : ehwf h -> In e h -> ih_get h (gid (e_item e)) = Some e.
Proof.
  intros Hw Hin. destruct (entry_ok h e Hw Hin) as [<- _].
  apply In_nth_error in Hin as (k & Hk). eapply ih_get_nth; [apply Hw|exact Hk].
Qed.

Lemma get_of_item h x : ehwf h -> In x (items h) -> exists e, ih_get h (gid x) = Some e /\ e_item e = x.
Proof.
  intros Hw Hin. unfold items in Hin. apply in_map_iff in Hin as (e & <- & Hin).
  exists e. split; [now apply get_of_entry|reflexivity].
Qed.

(* ---------- PeekMin / PopMin ---------- *)
Definition is_min x (r : list A) : Prop := forall y, In y r -> (gexp x <= gexp y)%Z.

Lemma peek_none h : eh_peek h = None <-> h = [].
Proof. unfold eh_peek, heap_first. destruct h; cbn; split; intros; congruence. Qed.

Lemma peek_some h x : ehwf h -> eh_peek h = Some x -> In x (items h) /\ is_min x (items h).
Proof.
  intros Hw Hp. unfold eh_peek in Hp. destruct (heap_first h) as [e|] eqn:He; [|discriminate].
  injection Hp as <-. assert (Hin : In e h) by (eapply nth_error_In; exact He). split.
  - unfold items. now apply in_map.
  - intros y Hy. unfold items in Hy. apply in_map_iff in Hy as (e2 & <- & Hin2).
    pose proof (first_min A true h e e2 (proj1 Hw) He Hin2) as Hk. cbn [key] in Hk.
    destruct (entry_ok h e Hw Hin) as [_ <-]. destruct (entry_ok h e2 Hw Hin2) as [_ <-]. exact Hk.
Qed.

Lemma pop_spec_eh h : ehwf h ->
  match eh_peek h with
  | None => eh_pop gid h = (h, None)
  | Some x => snd (eh_pop gid h) = Some x /\ ehwf (fst (eh_pop gid h)) /\
              Permutation (items h) (x :: items (fst (eh_pop gid h)))
  end.
Proof.
  intros Hw. unfold eh_peek, eh_pop. destruct (heap_first h) as [e|] eqn:He; cbn [option_map]; [|reflexivity].
  assert (Hin : In e h) by (eapply nth_error_In; exact He).
  pose proof (get_of_entry h e Hw Hin) as Hg.
  destruct (remove_present h _ e Hw Hg) as (_ & H2 & H3). cbn [fst snd]. auto.
Qed.

(* ---------- SetMin ---------- *)
Definition le_exp x y : Prop := (gexp x <= gexp y)%Z.

Lemma set_min_loop_spec t : forall fuel h, ehwf h -> length h < fuel ->
  let r := eh_set_min_loop gid gexp fuel h t in
  ehwf (fst r) /\ Permutation (items h) (snd r ++ items (fst r)) /\
  Forall (fun x => (gexp x < t)%Z) (snd r) /\ Forall (fun x => (t <= gexp x)%Z) (items (fst r)) /\
  StronglySorted le_exp (snd r).
Proof.
  induction fuel as [|f IH]; intros h Hw Hf; [lia|]. cbn [eh_set_min_loop].
  destruct (eh_peek h) as [x|] eqn:Hp.
  - destruct (peek_some h x Hw Hp) as [Hin Hmin].
    pose proof (pop_spec_eh h Hw) as Hpop. rewrite Hp in Hpop. destruct Hpop as (_ & Hw1 & Hperm1).
    destruct (Z.ltb_spec (gexp x) t) as [L|L].
    + set (h1 := fst (eh_pop gid h)) in *.
      assert (Hlen : length h1 < f).
      { apply Permutation_length in Hperm1. unfold items in Hperm1. cbn in Hperm1. rewrite !map_length in Hperm1. lia. }
      specialize (IH h1 Hw1 Hlen). cbn zeta in IH.
      destruct (eh_set_min_loop gid gexp f h1 t) as [h2 r] eqn:E. cbn [fst snd] in *.
      destruct IH as (I1 & I2 & I3 & I4 & I5).
      split; [exact I1|]. split; [|split; [|split; [exact I4|]]].
      * eapply perm_trans; [exact Hperm1|]. cbn [app]. now apply perm_skip.
      * constructor; [exact L|exact I3].
      * constructor; [exact I5|]. apply Forall_forall. intros y Hy. apply Hmin.
        eapply Permutation_in; [symmetry; exact Hperm1|]. right.
        eapply Permutation_in; [symmetry; exact I2|]. apply in_or_app. now left.
    + cbn [fst snd]. split; [exact Hw|]. split; [reflexivity|]. split; [constructor|]. split; [|constructor].
      apply Forall_forall. intros y Hy. specialize (Hmin y Hy). lia.
  - cbn [fst snd]. apply peek_none in Hp. subst h.
    split; [exact Hw|]. split; [reflexivity|]. split; [constructor|]. split; constructor.
Qed.

Lemma set_min_spec h t : ehwf h ->
  let r := eh_set_min gid gexp h t in
  ehwf (fst r) /\ Permutation (items h) (snd r ++ items (fst r)) /\
  Forall (fun x => (gexp x < t)%Z) (snd r) /\ Forall (fun x => (t <= gexp x)%Z) (items (fst r)) /\
  StronglySorted le_exp (snd r).
Proof. intros Hw. apply set_min_loop_spec; [assumption|lia]. Qed.

(* ---------- all operation sequences ---------- *)
Inductive eop := EAdd (x : A) | ERemove (id : N) | EHas (id : N) | EPeek | EPop | ESetMin (t : Z) | ELen.
Inductive eout := OUnit | OOpt (o : option A) | OBool (b : bool) | OList (l : list A) | ONat (n : nat).

Definition eh_step h (o : eop) : list entry * eout :=
  match o with
  | EAdd x => (eh_add gid gexp h x, OUnit)
  | ERemove id => let r := eh_remove h id in (fst r, OOpt (snd r))
  | EHas id => (h, OBool (eh_has h id))
  | EPeek => (h, OOpt (eh_peek h))
  | EPop => let r := eh_pop gid h in (fst r, OOpt (snd r))
  | ESetMin t => let r := eh_set_min gid gexp h t in (fst r, OList (snd r))
  | ELen => (h, ONat (eh_len h))
  end.
Fixpoint eh_run h (ops : list eop) : list entry * list eout :=
  match ops with
  | [] => (h, [])
  | o :: rest => let '(h1, r) := eh_step h o in let '(h2, rs) := eh_run h1 rest in (h2, r :: rs)
  end.

(* the ordered-set specification: the state is a finite set of items with unique ids (a list up to
   permutation); each clause says what the operation may return and what the next set is *)
Definition holds (r : list A) (id : N) : Prop := exists x, In x r /\ gid x = id.
Definition spec_step (r : list A) (o : eop) (out : eout) (r' : list A) : Prop :=
  match o with
  | EAdd x => out = OUnit /\ ((holds r (gid x) /\ Permutation r' r) \/ (~ holds r (gid x) /\ Permutation r' (x :: r)))
  | ERemove id =>
      (~ holds r id /\ out = OOpt None /\ Permutation r' r) \/
      (exists x, In x r /\ gid x = id /\ out = OOpt (Some x) /\ Permutation r (x :: r'))
  | EHas id => (exists b, out = OBool b /\ (b = true <-> holds r id)) /\ Permutation r' r
  | EPeek => ((r = [] /\ out = OOpt None) \/ (exists x, In x r /\ is_min x r /\ out = OOpt (Some x))) /\ Permutation r' r
  | EPop => (r = [] /\ out = OOpt None /\ r' = []) \/
            (exists x, In x r /\ is_min x r /\ out = OOpt (Some x) /\ Permutation r (x :: r'))
  | ESetMin t => exists l, out = OList l /\ Permutation r (l ++ r') /\
                   Forall (fun x => (gexp x < t)%Z) l /\ Forall (fun x => (t <= gexp x)%Z) r' /\
                   StronglySorted le_exp l
  | ELen => out = ONat (length r) /\ Permutation r' r
  end.
Fixpoint spec_trace (r : list A) (ops : list eop) (outs : list eout) : Prop :=
  match ops, outs with
  | [], [] => NoDup (map gid r)
  | o :: ops', out :: outs' => NoDup (map gid r) /\ exists r', spec_step r o out r' /\ spec_trace r' ops' outs'
  | _, _ => False
  end.

Lemma eh_step_refines h o : ehwf h ->
  ehwf (fst (eh_step h o)) /\ spec_step (items h) o (snd (eh_step h o)) (items (fst (eh_step h o))).
Proof.
  intros Hw. destruct o as [x|id|id| | |t|]; cbn [eh_step fst snd spec_step].
  - destruct (add_spec h x Hw) as [Hw' [[H1 H2]|[H1 H2]]]; split; auto; split; auto.
    + left. split; [now apply has_spec|]. now rewrite H2.
    + right. split; [|assumption]. intros Hh. apply has_spec in Hh; [congruence|assumption].
  - destruct (eh_has h id) eqn:E.
    + pose proof E as E'. apply has_spec in E' as (x & Hx & Hid); [|assumption].
      destruct (get_of_item h x Hw Hx) as (e & Hg & He). rewrite Hid in Hg.
      destruct (remove_present h id e Hw Hg) as (R1 & R2 & R3). split; [assumption|].
      right. exists x. rewrite R1, He. rewrite He in R3. auto.
    + rewrite (remove_absent h id E). cbn [fst snd]. split; [assumption|]. left.
      split; [|auto]. intros Hh. apply has_spec in Hh; [congruence|assumption].
  - split; [assumption|]. split; [|reflexivity]. exists (eh_has h id). split; [reflexivity|now apply has_spec].
  - split; [assumption|]. split; [|reflexivity]. destruct (eh_peek h) as [x|] eqn:Hp.
    + right. exists x. destruct (peek_some h x Hw Hp). auto.
    + left. apply peek_none in Hp. subst h. auto.
  - pose proof (pop_spec_eh h Hw) as Hpop. destruct (eh_peek h) as [x|] eqn:Hp.
    + destruct Hpop as (P1 & P2 & P3). split; [assumption|]. right. exists x.
      destruct (peek_some h x Hw Hp). rewrite P1. auto.
    + rewrite Hpop. cbn [fst snd]. split; [assumption|]. left. apply peek_none in Hp. subst h. auto.
  - destruct (set_min_spec h t Hw) as (S1 & S2 & S3 & S4 & S5). split; [assumption|].
    exists (snd (eh_set_min gid gexp h t)). auto.
  - split; [assumption|]. split; [|reflexivity]. unfold eh_len, items. now rewrite map_length.
Qed.

Theorem eheap_refines : forall ops h, ehwf h -> spec_trace (items h) ops (snd (eh_run h ops)).
Proof.
  induction ops as [|o ops IH]; intros h Hw; cbn [eh_run].
  - cbn. now apply ehwf_nodup.
  - destruct (eh_step_refines h o Hw) as [Hw' Hs].
    destruct (eh_step h o) as [h1 r] eqn:E. cbn [fst snd] in *.
    specialize (IH h1 Hw'). destruct (eh_run h1 ops) as [h2 rs]. cbn [snd] in *.
    split; [now apply ehwf_nodup|]. exists (items h1). auto.
Qed.

Theorem eheap_wf_all : forall ops h, ehwf h -> ehwf (fst (eh_run h ops)).
Proof.
  induction ops as [|o ops IH]; intros h Hw; cbn [eh_run]; [assumption|].
  destruct (eh_step_refines h o Hw) as [Hw' _]. destruct (eh_step h o) as [h1 r]. cbn [fst] in *.
  specialize (IH h1 Hw'). destruct (eh_run h1 ops). exact IH.
Qed.

End EHeapProofs.
