(* Proofs about Model/ChunkStorage.v: the coherence invariant between memory and database, preserved by
   every operation except a failing SetMin, established by every reopen; observations survive reopen. *)
From Coq Require Import List NArith ZArith Bool Lia ZifyN ZifyNat ZifyBool Permutation.
Import ListNotations.
From HV Require Import Model.ChunkStorage.
Local Open Scope N_scope.

(* ---- sets as lists ---------------------------------------------------------------------- *)

Lemma memN_In x l : memN x l = true <-> In x l.
Proof.
  unfold memN. rewrite existsb_exists. split.
  - intros (y & Hy & E). apply N.eqb_eq in E. subst; exact Hy.
  - intros H. exists x. split; [exact H | apply N.eqb_refl].
Qed.

Lemma memN_cons x c l : memN x (c :: l) = (x =? c) || memN x l.
Proof. reflexivity. Qed.

Lemma memN_app x a b : memN x (a ++ b) = memN x a || memN x b.
Proof. unfold memN. apply existsb_app. Qed.

Lemma memN_addN x c l : memN x (addN c l) = (x =? c) || memN x l.
Proof.
  unfold addN. destruct (memN c l) eqn:E; [|reflexivity].
  destruct (N.eqb_spec x c) as [->|_]; [rewrite E; reflexivity | reflexivity].
Qed.

Lemma NoDup_addN c l : NoDup l -> NoDup (addN c l).
Proof.
  intros H. unfold addN. destruct (memN c l) eqn:E; [exact H|].
  constructor; [|exact H]. intros Hin. apply memN_In in Hin. congruence.
Qed.

Lemma memN_delN x c l : memN x (delN c l) = memN x l && negb (x =? c).
Proof.
  unfold delN. induction l as [|y l IH]; [reflexivity|].
  cbn [filter]. destruct (N.eqb_spec y c) as [->|Hy]; cbn [negb].
  - rewrite IH, memN_cons. destruct (N.eqb_spec x c); cbn; [rewrite andb_false_r; reflexivity | reflexivity].
  - rewrite !memN_cons, IH. destruct (N.eqb_spec x y) as [->|_]; cbn [orb]; [|reflexivity].
    destruct (N.eqb_spec y c); [contradiction | reflexivity].
Qed.

Lemma NoDup_delN c l : NoDup l -> NoDup (delN c l).
Proof. apply NoDup_filter. Qed.

Lemma fold_delN D : forall l,
  (NoDup l -> NoDup (fold_left (fun l c => delN c l) D l)) /\
  (forall x, memN x (fold_left (fun l c => delN c l) D l) = memN x l && negb (memN x D)).
Proof.
  induction D as [|c D IH]; intros l; cbn [fold_left].
  - split; [tauto|]. intros x. cbn. rewrite andb_true_r. reflexivity.
  - destruct (IH (delN c l)) as [I1 I2]. split.
    + intros H. apply I1. apply NoDup_delN. exact H.
    + intros x. rewrite I2, memN_delN, memN_cons. rewrite negb_orb, andb_assoc. reflexivity.
Qed.

(* ---- pendingChunkMap as an association list ------------------------------------------------ *)

Definition K (s : st) : list N := map fst (m_pend s).

Lemma pmem_keys x l : pmem x l = memN x (map fst l).
Proof.
  unfold pmem. induction l as [|[k v] l IH]; [reflexivity|].
  cbn [plookup map fst]. rewrite memN_cons. rewrite (N.eqb_sym x k).
  destruct (k =? x); [reflexivity | exact IH].
Qed.

Lemma keys_pset c v l : map fst (pset c v l) = map fst l.
Proof.
  induction l as [|[k w] l IH]; [reflexivity|]. cbn [pset].
  destruct (k =? c); cbn [map fst]; [reflexivity | rewrite IH; reflexivity].
Qed.

Lemma keys_pdel c l : map fst (pdel c l) = delN c (map fst l).
Proof.
  unfold pdel, delN. induction l as [|[k w] l IH]; [reflexivity|].
  cbn [filter map fst]. destruct (k =? c); cbn [negb map fst]; rewrite IH; reflexivity.
Qed.

(* ---- producer weights ---------------------------------------------------------------------- *)

Definition wterm (ci : ctable) (p c : N) : N := if c_prod (ci c) =? p then c_len (ci c) else 0.

Fixpoint wsum (ci : ctable) (p : N) (l : list N) : N :=
  match l with [] => 0 | c :: r => wterm ci p c + wsum ci p r end.

Lemma wsum_perm ci p l l' : Permutation l l' -> wsum ci p l = wsum ci p l'.
Proof. intros H. induction H; cbn [wsum]; lia. Qed.

Lemma wsum_delN ci p c l :
  NoDup l -> memN c l = true -> wsum ci p (delN c l) + wterm ci p c = wsum ci p l.
Proof.
  unfold delN. induction l as [|y l IH]; intros Hnd Hm; [discriminate|].
  inversion Hnd as [|y' l' Hnin Hnd']; subst. cbn [filter].
  destruct (N.eqb_spec y c) as [->|Hy]; cbn [negb wsum].
  - assert (Hf : filter (fun y => negb (y =? c)) l = l).
    { clear IH Hnd Hm Hnd'. induction l as [|z l IHl]; [reflexivity|]. cbn [filter].
      destruct (N.eqb_spec z c) as [->|_]; [exfalso; apply Hnin; left; reflexivity|].
      cbn [negb]. rewrite IHl; [reflexivity|]. intros H; apply Hnin; right; exact H. }
    rewrite Hf. lia.
  - rewrite memN_cons in Hm. destruct (N.eqb_spec c y) as [->|_]; [contradiction|]. cbn [orb] in Hm.
    specialize (IH Hnd' Hm). lia.
Qed.

(* ---- invariants ---------------------------------------------------------------------------- *)

Definition dflt (m : option Z) : Z := match m with Some t => t | None => 0%Z end.

Definition wf (s : st) : Prop := NoDup (d_pend s).

(* intermediate invariant while a batch with pending-key deletions D is being collected *)
Definition J (ci : ctable) (s : st) (D : list N) : Prop :=
  NoDup (d_pend s) /\ NoDup (K s) /\
  (forall x, memN x (K s) = memN x (d_pend s) && negb (memN x D)) /\
  (forall p, m_size s p = wsum ci p (K s)).

(* memory agrees with the database *)
Definition coh (ci : ctable) (s : st) : Prop := J ci s [] /\ m_min s = dflt (d_min s).

Lemma coh_wf ci s : coh ci s -> wf s.
Proof. intros [[H _] _]. exact H. Qed.

Lemma J_put ci s c cert : J ci s [] -> J ci (put_verified ci s c cert) [].
Proof.
  intros (H1 & H2 & H3 & H4). unfold put_verified.
  assert (Hm : pmem c (m_pend s) = memN c (d_pend s)).
  { rewrite pmem_keys. fold (K s). rewrite H3. cbn. rewrite andb_true_r. reflexivity. }
  destruct (plookup c (m_pend s)) as [v|] eqn:EL.
  - assert (Hp : pmem c (m_pend s) = true) by (unfold pmem; rewrite EL; reflexivity).
    assert (HK : map fst (match cert with Some _ => pset c cert (m_pend s) | None => m_pend s end) = K s).
    { destruct cert; [apply keys_pset | reflexivity]. }
    unfold J, K. cbn [d_pend m_pend m_size]. rewrite HK.
    split; [apply NoDup_addN; exact H1|]. split; [exact H2|]. split; [|exact H4].
    intros x. rewrite memN_addN, H3. cbn. rewrite !andb_true_r.
    destruct (N.eqb_spec x c) as [->|_]; [rewrite <- Hm, Hp; reflexivity | reflexivity].
  - assert (Hp : pmem c (m_pend s) = false) by (unfold pmem; rewrite EL; reflexivity).
    unfold J, K. cbn [d_pend m_pend m_size map fst]. fold (K s).
    split; [apply NoDup_addN; exact H1|]. split.
    { constructor; [|exact H2]. intros Hin. apply memN_In in Hin. rewrite pmem_keys in Hp. fold (K s) in Hp. congruence. }
    split.
    + intros x. rewrite memN_cons, memN_addN, H3. cbn. rewrite !andb_true_r. reflexivity.
    + intros p. cbn [wsum]. unfold updN, wterm.
      destruct (N.eqb_spec p (c_prod (ci c))) as [->|Hne].
      * rewrite N.eqb_refl. repeat rewrite H4. lia.
      * destruct (N.eqb_spec (c_prod (ci c)) p); [congruence | repeat rewrite H4; lia].
Qed.

Lemma J_discard ci s c D :
  J ci s D -> pmem c (m_pend s) = true -> J ci (discard ci s c) (D ++ [c]).
Proof.
  intros (H1 & H2 & H3 & H4) Hp. unfold discard. rewrite Hp.
  unfold J, K. cbn [d_pend m_pend m_size]. rewrite keys_pdel. fold (K s).
  split; [exact H1|]. split; [apply NoDup_delN; exact H2|]. split.
  - intros x. rewrite memN_delN, H3, memN_app. cbn [memN existsb]. rewrite orb_false_r, negb_orb, andb_assoc. reflexivity.
  - intros p. rewrite pmem_keys in Hp. fold (K s) in Hp.
    pose proof (wsum_delN ci p c (K s) H2 Hp) as Hw. unfold updN.
    destruct (N.eqb_spec p (c_prod (ci c))) as [->|Hne].
    + repeat rewrite H4. unfold wterm in Hw. rewrite N.eqb_refl in Hw. lia.
    + repeat rewrite H4. unfold wterm in Hw. destruct (N.eqb_spec (c_prod (ci c)) p); [congruence | lia].
Qed.

Definition same_db (s s' : st) : Prop :=
  d_pend s' = d_pend s /\ d_acc s' = d_acc s /\ d_min s' = d_min s /\ m_min s' = m_min s.

Lemma discard_same_db ci s c : same_db s (discard ci s c).
Proof. unfold discard. destruct (pmem c (m_pend s)); repeat split. Qed.

Lemma same_db_trans a b c : same_db a b -> same_db b c -> same_db a c.
Proof. unfold same_db. intros (A1 & A2 & A3 & A4) (B1 & B2 & B3 & B4). repeat split; congruence. Qed.

Lemma save_loop_J ci saves : forall s acc del,
  J ci s del ->
  let r := save_loop ci s saves acc del in
  same_db s (fst (fst (fst r))) /\
  (snd r = false -> J ci (fst (fst (fst r))) (snd (fst r))).
Proof.
  induction saves as [|c r IH]; intros s acc del HJ; cbn [save_loop].
  - cbn [fst snd]. split; [repeat split | intros _; exact HJ].
  - destruct (pmem c (m_pend s)) eqn:Hp.
    + specialize (IH (discard ci s c) (acc ++ [c]) (del ++ [c]) (J_discard ci s c del HJ Hp)).
      cbv zeta in IH. destruct IH as [I1 I2]. cbv zeta. split; [|exact I2].
      eapply same_db_trans; [apply discard_same_db | exact I1].
    + cbn [fst snd]. split; [repeat split | discriminate].
Qed.

Lemma expire_loop_J ci ev : forall s del,
  J ci s del ->
  let r := expire_loop ci s ev del in
  same_db s (fst r) /\ J ci (fst r) (snd r).
Proof.
  induction ev as [|c r IH]; intros s del HJ; cbn [expire_loop].
  - cbn [fst snd]. split; [repeat split | exact HJ].
  - destruct (pmem c (m_pend s)) eqn:Hp.
    + specialize (IH (discard ci s c) (del ++ [c]) (J_discard ci s c del HJ Hp)).
      cbv zeta in IH. destruct IH as [I1 I2]. cbv zeta. split; [|exact I2].
      eapply same_db_trans; [apply discard_same_db | exact I1].
    + apply IH. exact HJ.
Qed.

Lemma save_loop_dpend ci saves : forall s0 a d s1 acc del err,
  save_loop ci s0 saves a d = (s1, acc, del, err) -> d_pend s1 = d_pend s0.
Proof.
  induction saves as [|c r IH]; intros s0 a d s1 acc del err; cbn [save_loop].
  - intros H; injection H as <- _ _ _. reflexivity.
  - destruct (pmem c (m_pend s0)) eqn:Hp.
    + intros H. apply IH in H. rewrite H. unfold discard. rewrite Hp. reflexivity.
    + intros H; injection H as <- _ _ _. reflexivity.
Qed.

Lemma expire_loop_dpend ci ev : forall s2 d s3 d',
  expire_loop ci s2 ev d = (s3, d') -> d_pend s3 = d_pend s2.
Proof.
  induction ev as [|c r IH]; intros s2 d s3 d'; cbn [expire_loop].
  - intros H; injection H as <- _. reflexivity.
  - destruct (pmem c (m_pend s2)) eqn:Hp.
    + intros H. apply IH in H. rewrite H. unfold discard. rewrite Hp. reflexivity.
    + apply IH.
Qed.

Lemma set_min_inv ci s t saves :
  wf s ->
  wf (fst (set_min ci s t saves)) /\
  (coh ci s -> snd (set_min ci s t saves) = 0 -> coh ci (fst (set_min ci s t saves))).
Proof.
  intros Hwf. unfold set_min.
  set (s0 := mkS (d_pend s) (d_acc s) (d_min s) t (m_pend s) (m_size s) (m_emap s)).
  pose proof (save_loop_J ci saves s0 [] []) as HS.
  destruct (save_loop ci s0 saves [] []) as [[[s1 acc] del] err] eqn:ES. cbn [fst snd] in HS.
  pose proof (save_loop_dpend ci saves _ _ _ _ _ _ _ ES) as Hd1. cbn [s0 d_pend] in Hd1.
  destruct err.
  - cbn [fst snd]. split; [|discriminate]. unfold wf. rewrite Hd1. exact Hwf.
  - set (ev := filter (is_expired ci t) (m_emap s1)).
    set (em := filter (fun c => negb (is_expired ci t c)) (m_emap s1)).
    set (s2 := mkS (d_pend s1) (d_acc s1) (d_min s1) (m_min s1) (m_pend s1) (m_size s1) em).
    pose proof (expire_loop_J ci ev s2 del) as HE.
    destruct (expire_loop ci s2 ev del) as [s3 del'] eqn:EE. cbn [fst snd] in HE.
    pose proof (expire_loop_dpend ci ev _ _ _ _ EE) as Hd3. cbn [s2 d_pend] in Hd3.
    cbn [fst snd].
    destruct (fold_delN del' (d_pend s3)) as [F1 F2].
    split.
    + unfold wf. cbn [d_pend]. apply F1. rewrite Hd3, Hd1. exact Hwf.
    + intros [HJ Hmin] _.
      assert (HJ0 : J ci s0 []) by exact HJ.
      destruct (HS HJ0) as [(A1 & A2 & A3 & A4) HJ1]. specialize (HJ1 eq_refl).
      assert (HJ2 : J ci s2 del) by exact HJ1.
      destruct (HE HJ2) as [(B1 & B2 & B3 & B4) (C1 & C2 & C3 & C4)].
      unfold coh. split.
      * unfold J, K. cbn [d_pend m_pend m_size].
        split; [apply F1; exact C1|]. split; [exact C2|]. split; [|exact C4].
        intros x. rewrite F2. cbn. rewrite andb_true_r. apply C3.
      * cbn [m_min d_min dflt]. rewrite B4. cbn [s2 m_min]. rewrite A4. reflexivity.
Qed.

(* reopen: memory rebuilt from the pending keys *)
Lemma reopen_fold ci l : forall s0,
  let r := fold_left
    (fun s' c => mkS (d_pend s') (d_acc s') (d_min s') (m_min s') ((c, None) :: m_pend s')
                     (updN (m_size s') (c_prod (ci c)) (m_size s' (c_prod (ci c)) + c_len (ci c)))
                     (emap_add ci c (m_emap s'))) l s0 in
  d_pend r = d_pend s0 /\ d_acc r = d_acc s0 /\ d_min r = d_min s0 /\ m_min r = m_min s0 /\
  K r = rev l ++ K s0 /\
  (forall p, m_size r p = wsum ci p l + m_size s0 p) /\
  (forall c, plookup c (m_pend s0) = None \/ plookup c (m_pend s0) = Some None ->
             plookup c (m_pend r) = None \/ plookup c (m_pend r) = Some None).
Proof.
  induction l as [|c l IH]; intros s0; cbn [fold_left].
  - cbv zeta. repeat split; try reflexivity. intros c H; exact H.
  - cbv zeta. match goal with |- context [fold_left ?f l ?s1] => specialize (IH s1) end.
    cbv zeta in IH. destruct IH as (I1 & I2 & I3 & I4 & I5 & I6 & I7).
    cbn [d_pend d_acc d_min m_min m_size] in *.
    split; [exact I1|]. split; [exact I2|]. split; [exact I3|]. split; [exact I4|]. split.
    + rewrite I5. unfold K. cbn [m_pend map fst rev]. rewrite <- app_assoc. reflexivity.
    + split.
      * intros p. rewrite I6. cbn [wsum]. unfold updN, wterm.
        destruct (N.eqb_spec p (c_prod (ci c))) as [->|Hne].
        -- rewrite N.eqb_refl. lia.
        -- destruct (N.eqb_spec (c_prod (ci c)) p); [congruence | lia].
      * intros x Hx. apply I7. cbn [m_pend plookup]. destruct (c =? x); [right; reflexivity | exact Hx].
Qed.

Lemma reopen_facts ci s :
  wf s ->
  coh ci (reopen ci s) /\
  d_pend (reopen ci s) = d_pend s /\ d_acc (reopen ci s) = d_acc s /\ d_min (reopen ci s) = d_min s /\
  (forall c, obs_cert (reopen ci s) c = None) /\
  (forall c, obs_pending (reopen ci s) c = memN c (d_pend s)) /\
  (forall p, obs_weight (reopen ci s) p = wsum ci p (d_pend s)).
Proof.
  intros Hwf. unfold reopen.
  match goal with |- context [fold_left ?f (d_pend s) ?s0] => pose proof (reopen_fold ci (d_pend s) s0) as H end.
  cbv zeta in H. destruct H as (I1 & I2 & I3 & I4 & I5 & I6 & I7).
  cbn [d_pend d_acc d_min m_min m_size m_pend] in *. unfold K in I5. cbn [m_pend map] in I5. rewrite app_nil_r in I5.
  assert (Hmem : forall x, memN x (rev (d_pend s)) = memN x (d_pend s)).
  { intros x. destruct (memN x (d_pend s)) eqn:E.
    - apply memN_In. apply -> in_rev. apply memN_In. exact E.
    - destruct (memN x (rev (d_pend s))) eqn:E'; [|reflexivity].
      apply memN_In in E'. apply in_rev in E'. apply memN_In in E'. congruence. }
  assert (Hw : forall p, wsum ci p (rev (d_pend s)) = wsum ci p (d_pend s)).
  { intros p. apply wsum_perm. apply Permutation_sym. apply Permutation_rev. }
  split; [|split; [exact I1 | split; [exact I2 | split; [exact I3 | split; [|split]]]]].
  - split; [|rewrite I4, I3; reflexivity].
    unfold J, K. rewrite I5, I1. split; [exact Hwf|]. split; [apply NoDup_rev; exact Hwf|]. split.
    + intros x. rewrite Hmem. cbn. rewrite andb_true_r. reflexivity.
    + intros p. rewrite I6, Hw. lia.
  - intros c. unfold obs_cert. destruct (I7 c (or_introl eq_refl)) as [E|E]; rewrite E; reflexivity.
  - intros c. unfold obs_pending. rewrite pmem_keys, I5. apply Hmem.
  - intros p. unfold obs_weight. rewrite I6. lia.
Qed.

(* ---- steps and histories ---------------------------------------------------------------- *)

Lemma put_wf ci s c cert : wf s -> wf (put_verified ci s c cert).
Proof.
  unfold wf, put_verified. intros H. destruct (plookup c (m_pend s)); cbn [d_pend]; apply NoDup_addN; exact H.
Qed.

Lemma put_min ci s c cert : m_min (put_verified ci s c cert) = m_min s /\ d_min (put_verified ci s c cert) = d_min s.
Proof. unfold put_verified. destruct (plookup c (m_pend s)); split; reflexivity. Qed.

Lemma step_inv ci s o :
  wf s ->
  wf (fst (step ci s o)) /\
  (coh ci s -> (match o with OSetMin _ _ => snd (step ci s o) = 0 | _ => True end) -> coh ci (fst (step ci s o))) /\
  (o = OReopen -> coh ci (fst (step ci s o))).
Proof.
  intros Hwf. destruct o as [c cert|c vok|c cert vok|t saves|]; cbn [step fst snd].
  - split; [apply put_wf; exact Hwf|]. split; [|discriminate]. intros [HJ Hm] _.
    split; [apply J_put; exact HJ|]. destruct (put_min ci s c cert) as [-> ->]. exact Hm.
  - unfold verify_remote. destruct (pmem c (m_pend s)); [|destruct vok]; cbn [fst];
      (split; [try exact Hwf; apply put_wf; exact Hwf|]); (split; [|discriminate]); intros [HJ Hm] _; try (split; assumption).
    split; [apply J_put; exact HJ|]. destruct (put_min ci s c None) as [-> ->]. exact Hm.
  - unfold set_cert. destruct (pmem c (m_pend s)); [destruct vok|]; cbn [fst];
      (split; [exact Hwf|]); (split; [|discriminate]); intros [HJ Hm] _; try (split; assumption).
    split; [|exact Hm]. destruct HJ as (H1 & H2 & H3 & H4). unfold J, K in *. cbn [d_pend m_pend m_size].
    rewrite keys_pset. repeat split; assumption.
  - destruct (set_min_inv ci s t saves Hwf) as [W C]. split; [exact W|]. split; [exact C | discriminate].
  - destruct (reopen_facts ci s Hwf) as (C & D & _). split; [unfold wf; rewrite D; exact Hwf|].
    split; intros; exact C.
Qed.

(* dirty = a SetMin failed since the last reopen *)
Definition dirty_after (o : op) (rc : N) (d : bool) : bool :=
  match o with
  | OReopen => false
  | OSetMin _ _ => d || (rc =? 1)
  | _ => d
  end.

Fixpoint run_dirty (ci : ctable) (s : st) (d : bool) (ops : list op) : bool :=
  match ops with
  | [] => d
  | o :: r => run_dirty ci (fst (step ci s o)) (dirty_after o (snd (step ci s o)) d) r
  end.

Lemma set_min_rc ci s t saves : snd (set_min ci s t saves) = 0 \/ snd (set_min ci s t saves) = 1.
Proof.
  unfold set_min. destruct (save_loop ci _ saves [] []) as [[[s1 acc] del] err]. destruct err; cbn [snd]; [right; reflexivity|].
  destruct (expire_loop ci _ _ del) as [s3 del']. left; reflexivity.
Qed.

Lemma run_inv ci ops : forall s d,
  wf s -> (d = false -> coh ci s) ->
  wf (run ci s ops) /\ (run_dirty ci s d ops = false -> coh ci (run ci s ops)).
Proof.
  induction ops as [|o r IH]; intros s d Hwf Hc.
  - cbn. split; [exact Hwf | exact Hc].
  - change (run ci s (o :: r)) with (run ci (fst (step ci s o)) r). cbn [run_dirty].
    destruct (step_inv ci s o Hwf) as (S1 & S2 & S3).
    apply IH; [exact S1|]. intros Hd.
    destruct o as [c cert|c vok|c cert vok|t saves|]; cbn [dirty_after] in Hd;
      try (apply S2; [apply Hc; exact Hd | exact I]).
    + apply orb_false_iff in Hd. destruct Hd as [Hd Hrc]. apply S2; [apply Hc; exact Hd|].
      destruct (set_min_rc ci s t saves) as [E|E]; [exact E|]. cbn [step] in Hrc. rewrite E in Hrc. discriminate.
    + apply S3. reflexivity.
Qed.

Lemma s_init_coh ci : coh ci s_init.
Proof.
  split; [|reflexivity]. unfold J, K. cbn. repeat split; try constructor.
Qed.

(* ---- statements used by Props/C36.v ----------------------------------------------------- *)

Lemma coh_reopen_obs ci s : coh ci s ->
  (forall c, obs_pending (reopen ci s) c = obs_pending s c) /\
  (forall c, obs_get (reopen ci s) c = obs_get s c) /\
  (forall p, obs_weight (reopen ci s) p = obs_weight s p) /\
  m_min (reopen ci s) = m_min s /\ d_min (reopen ci s) = d_min s /\
  (forall c k, obs_cert s c = Some k -> obs_pending (reopen ci s) c = true).
Proof.
  intros Hc. pose proof (coh_wf ci s Hc) as Hwf.
  destruct (reopen_facts ci s Hwf) as ([_ Hmin'] & D1 & D2 & D3 & _ & P & W).
  destruct Hc as [(H1 & H2 & H3 & H4) Hmin].
  assert (HP : forall c, obs_pending (reopen ci s) c = obs_pending s c).
  { intros c. rewrite P. unfold obs_pending. rewrite pmem_keys. fold (K s). rewrite H3. cbn. rewrite andb_true_r. reflexivity. }
  split; [exact HP|]. split.
  { intros c. unfold obs_get. fold (obs_pending (reopen ci s) c). fold (obs_pending s c). rewrite HP, D2. reflexivity. }
  split.
  { intros p. rewrite W. unfold obs_weight. rewrite H4. apply wsum_perm.
    apply NoDup_Permutation; [exact H1 | exact H2|]. intros x. rewrite <- !memN_In, H3. cbn. rewrite andb_true_r. tauto. }
  split; [rewrite Hmin', D3, Hmin; reflexivity|]. split; [exact D3|].
  intros c k Hk. rewrite HP. unfold obs_cert in Hk. unfold obs_pending, pmem.
  destruct (plookup c (m_pend s)); [reflexivity | discriminate].
Qed.

Lemma reopen_preserves_observations ci ops :
  run_dirty ci s_init false ops = false ->
  let s := run ci s_init ops in
  (forall c, obs_pending (reopen ci s) c = obs_pending s c) /\
  (forall c, obs_get (reopen ci s) c = obs_get s c) /\
  (forall p, obs_weight (reopen ci s) p = obs_weight s p) /\
  m_min (reopen ci s) = m_min s /\ d_min (reopen ci s) = d_min s /\
  (forall c k, obs_cert s c = Some k -> obs_pending (reopen ci s) c = true).
Proof.
  intros Hd. cbv zeta. apply coh_reopen_obs.
  destruct (run_inv ci ops s_init false) as [_ H]; [constructor | intros _; apply s_init_coh|]. apply H. exact Hd.
Qed.

Lemma reopen_always_rebuilds ci ops :
  let s := run ci s_init ops in
  let s' := reopen ci s in
  d_pend s' = d_pend s /\ d_acc s' = d_acc s /\ d_min s' = d_min s /\
  m_min s' = dflt (d_min s) /\
  (forall c, obs_pending s' c = memN c (d_pend s)) /\
  (forall c, obs_get s' c = memN c (d_pend s) || memN c (d_acc s)) /\
  (forall p, obs_weight s' p = wsum ci p (d_pend s)) /\
  (forall c, obs_cert s' c = None).
Proof.
  cbv zeta. destruct (run_inv ci ops s_init false) as [Hwf _]; [constructor | intros _; apply s_init_coh|].
  destruct (reopen_facts ci _ Hwf) as ([_ Hmin] & D1 & D2 & D3 & Cn & P & W).
  split; [exact D1|]. split; [exact D2|]. split; [exact D3|]. split; [rewrite Hmin, D3; reflexivity|].
  split; [exact P|]. split; [|split; [exact W | exact Cn]].
  intros c. unfold obs_get. fold (obs_pending (reopen ci (run ci s_init ops)) c). rewrite P, D2. reflexivity.
Qed.

(* every reachable state that is not "dirty" has memory = database, also without a reopen *)
Lemma clean_state_coherent ci ops :
  run_dirty ci s_init false ops = false ->
  let s := run ci s_init ops in
  (forall c, obs_pending s c = memN c (d_pend s)) /\
  (forall p, obs_weight s p = wsum ci p (d_pend s)) /\
  m_min s = dflt (d_min s).
Proof.
  intros Hd. cbv zeta.
  destruct (run_inv ci ops s_init false) as [_ H]; [constructor | intros _; apply s_init_coh|].
  destruct (H Hd) as [(H1 & H2 & H3 & H4) Hmin].
  split; [|split; [|exact Hmin]].
  - intros c. unfold obs_pending. rewrite pmem_keys. fold (K (run ci s_init ops)). rewrite H3. cbn. rewrite andb_true_r. reflexivity.
  - intros p. unfold obs_weight. rewrite H4. apply wsum_perm.
    apply NoDup_Permutation; [exact H2 | exact H1|]. intros x. rewrite <- !memN_In, H3. cbn. rewrite andb_true_r. tauto.
Qed.
