From Coq Require Import List NArith Bool Lia.
Import ListNotations.
From HV Require Import Lib.Bytes Model.Prefixes.

(* The specification: two distinct positions whose entries are in the prefix relation. *)
Definition prefix_pair (ps : list bytes) : Prop :=
  exists i j p q, i <> j /\ nth_error ps i = Some p /\ nth_error ps j = Some q /\ is_prefix p q.

Lemma conflicts_spec p q : conflicts p q = true <-> is_prefix q p \/ is_prefix p q.
Proof. unfold conflicts. rewrite orb_true_iff, !has_prefix_spec. tauto. Qed.

Lemma conflicts_any_spec p vs :
  conflicts_any p vs = true <-> exists i v, nth_error vs i = Some v /\ (is_prefix v p \/ is_prefix p v).
Proof.
  unfold conflicts_any. rewrite existsb_exists. split.
  - intros [v [Hin Hc]]. apply In_nth_error in Hin. destruct Hin as [i Hi].
    exists i, v. split; [exact Hi | apply conflicts_spec, Hc].
  - intros [i [v [Hi Hc]]]. exists v. split; [eapply nth_error_In, Hi | apply conflicts_spec, Hc].
Qed.

(* Invariant-carrying statement: [vs] is the conflict-free part already scanned. *)
Definition no_pair (vs : list bytes) : Prop := ~ prefix_pair vs.

Lemma nth_error_snoc_last {A} (l : list A) x : nth_error (l ++ [x]) (length l) = Some x.
Proof. rewrite nth_error_app2 by lia. rewrite PeanoNat.Nat.sub_diag. reflexivity. Qed.

Lemma prefix_pair_snoc vs p :
  prefix_pair (vs ++ [p]) <->
  prefix_pair vs \/ exists i v, nth_error vs i = Some v /\ (is_prefix v p \/ is_prefix p v).
Proof.
  split.
  - intros [i [j [a [b [Hij [Hi [Hj Hp]]]]]]].
    assert (Hli : i < length (vs ++ [p])) by (apply nth_error_Some; congruence).
    assert (Hlj : j < length (vs ++ [p])) by (apply nth_error_Some; congruence).
    rewrite app_length in Hli, Hlj. cbn in Hli, Hlj.
    destruct (PeanoNat.Nat.eq_dec i (length vs)) as [Ei|Ni];
    destruct (PeanoNat.Nat.eq_dec j (length vs)) as [Ej|Nj].
    + lia.
    + right. subst i. rewrite nth_error_snoc_last in Hi. inversion Hi; subst a.
      rewrite nth_error_app1 in Hj by lia. exists j, b. split; [exact Hj | right; exact Hp].
    + right. subst j. rewrite nth_error_snoc_last in Hj. inversion Hj; subst b.
      rewrite nth_error_app1 in Hi by lia. exists i, a. split; [exact Hi | left; exact Hp].
    + left. rewrite nth_error_app1 in Hi by lia. rewrite nth_error_app1 in Hj by lia.
      exists i, j, a, b. auto.
  - intros [[i [j [a [b [Hij [Hi [Hj Hp]]]]]]] | [i [v [Hi Hp]]]].
    + assert (i < length vs) by (apply nth_error_Some; congruence).
      assert (j < length vs) by (apply nth_error_Some; congruence).
      exists i, j, a, b. rewrite !nth_error_app1 by lia. auto.
    + assert (Hl : i < length vs) by (apply nth_error_Some; congruence).
      destruct Hp as [Hp|Hp].
      * exists i, (length vs), v, p. rewrite nth_error_app1 by lia. rewrite nth_error_snoc_last.
        repeat split; auto; lia.
      * exists (length vs), i, p, v. rewrite nth_error_snoc_last. rewrite nth_error_app1 by lia.
        repeat split; auto; lia.
Qed.

Lemma has_conflict_from_spec ps : forall vs,
  no_pair vs -> (has_conflict_from vs ps = true <-> prefix_pair (vs ++ ps)).
Proof.
  induction ps as [|p ps IH]; intros vs Hvs; cbn [has_conflict_from].
  - rewrite app_nil_r. split; [discriminate | intros H; destruct (Hvs H)].
  - destruct (conflicts_any p vs) eqn:Hc.
    + split; [intros _ | reflexivity].
      apply conflicts_any_spec in Hc.
      assert (Hs : prefix_pair (vs ++ [p])) by (apply prefix_pair_snoc; right; exact Hc).
      destruct Hs as [i [j [a [b [Hij [Hi [Hj Hp]]]]]]].
      assert (Hli : i < length (vs ++ [p])) by (apply nth_error_Some; congruence).
      assert (Hlj : j < length (vs ++ [p])) by (apply nth_error_Some; congruence).
      exists i, j, a, b. replace (vs ++ p :: ps) with ((vs ++ [p]) ++ ps) by (rewrite <- app_assoc; reflexivity).
      rewrite (nth_error_app1 _ ps Hli), (nth_error_app1 _ ps Hlj). repeat split; assumption.
    + replace (vs ++ p :: ps) with ((vs ++ [p]) ++ ps) by (rewrite <- app_assoc; reflexivity).
      apply IH. intros Hs. apply prefix_pair_snoc in Hs. destruct Hs as [Hs|Hs]; [exact (Hvs Hs)|].
      apply conflicts_any_spec in Hs. congruence.
Qed.

Lemma no_pair_nil : no_pair [].
Proof. intros [i [j [a [b [_ [Hi _]]]]]]. destruct i; discriminate Hi. Qed.

Lemma has_conflicting_prefixes_exact h f t vm :
  has_conflicting_prefixes h f t vm = true <-> prefix_pair ([h; f; t] ++ vm).
Proof. unfold has_conflicting_prefixes. apply (has_conflict_from_spec _ [] no_pair_nil). Qed.
