(* Proofs about Model/DsmrAccept.v. *)
From Coq Require Import List NArith Bool Lia.
Import ListNotations.
From HV Require Import Model.DsmrAccept.
Local Open Scope N_scope.

Lemma memN_In x l : memN x l = true <-> In x l.
Proof.
  unfold memN. rewrite existsb_exists. split.
  - intros (y & Hy & E). apply N.eqb_eq in E. subst; exact Hy.
  - intros H. exists x. split; [exact H | apply N.eqb_refl].
Qed.

Lemma memN_false_notin x l : memN x l = false <-> ~ In x l.
Proof. rewrite <- memN_In. destruct (memN x l); split; congruence. Qed.

Lemma in_addN x c l : In x (addN c l) <-> x = c \/ In x l.
Proof.
  unfold addN. destruct (memN c l) eqn:E.
  - apply memN_In in E. split; [tauto|]. intros [->|H]; assumption.
  - cbn [In]. split; intros [H|H]; auto.
Qed.

Lemma in_delN x c l : In x (delN c l) <-> In x l /\ x <> c.
Proof.
  unfold delN. rewrite filter_In. rewrite negb_true_iff, N.eqb_neq. tauto.
Qed.

Definition no_wrong (script : list resp) : Prop := forall w, ~ In (RWrong w) script.

(* what one fetch does *)
Lemma fetch_spec c script : forall pend n script' pend' got n',
  fetch c script pend n = (script', pend', got, n') ->
  (got = c \/ In (RWrong got) script) /\ pend' = addN got pend /\ (forall r, In r script' -> In r script).
Proof.
  induction script as [|r script IH]; intros pend n script' pend' got n'; cbn [fetch].
  - intros H; injection H as <- <- <- _. split; [left; reflexivity|]. split; [reflexivity | tauto].
  - destruct r as [k| |w].
    + intros H. destruct (IH _ _ _ _ _ _ H) as (A & B & C). split; [|split; [exact B|]].
      * destruct A as [A|A]; [left; exact A | right; right; exact A].
      * intros r Hr. right. apply C. exact Hr.
    + intros H; injection H as <- <- <- _. split; [left; reflexivity|]. split; [reflexivity|]. intros r Hr; right; exact Hr.
    + intros H; injection H as <- <- <- _. split; [right; left; reflexivity|]. split; [reflexivity|]. intros r Hr; right; exact Hr.
Qed.

(* ---- success implies exactly the referenced chunks ------------------------------------------ *)

Lemma save_all_true ids : forall pend,
  save_all ids pend = true -> NoDup ids /\ forall c, In c ids -> In c pend.
Proof.
  induction ids as [|c r IH]; intros pend; cbn [save_all].
  - intros _. split; [constructor | intros c []].
  - destruct (memN c pend) eqn:E; [|discriminate]. intros H. destruct (IH _ H) as [Hnd Hall].
    apply memN_In in E. split.
    + constructor; [|exact Hnd]. intros Hin. apply Hall in Hin. apply in_delN in Hin. destruct Hin as [_ Hne]. congruence.
    + intros x [<-|Hx]; [exact E|]. apply Hall in Hx. apply in_delN in Hx. tauto.
Qed.

Lemma save_all_complete ids : forall pend,
  NoDup ids -> (forall c, In c ids -> In c pend) -> save_all ids pend = true.
Proof.
  induction ids as [|c r IH]; intros pend Hnd Hall; cbn [save_all]; [reflexivity|].
  inversion Hnd as [|c' r' Hnin Hnd']; subst.
  assert (E : memN c pend = true) by (apply memN_In; apply Hall; left; reflexivity). rewrite E.
  apply IH; [exact Hnd'|]. intros x Hx. apply in_delN. split; [apply Hall; right; exact Hx|].
  intros ->. contradiction.
Qed.

Lemma loop_exact stat valerr certs : forall pend chunks reqs script,
  let r := accept_loop stat valerr certs pend chunks reqs script in
  l_err r = false -> NoDup certs -> (forall c, In c certs -> In c (l_pend r)) ->
  l_chunks r = chunks ++ certs /\ (forall x, In x (l_pend r) -> In x pend \/ In x certs).
Proof.
  induction certs as [|c rest IH]; intros pend chunks reqs script; cbn [accept_loop].
  - cbv zeta. cbn [l_err l_pend l_chunks]. intros _ _ _. rewrite app_nil_r. split; [reflexivity | tauto].
  - cbv zeta. intros Herr Hnd Hall. inversion Hnd as [|c' r' Hnin Hnd']; subst.
    destruct (memN c pend || match stat c with LAccepted => true | _ => false end) eqn:Eloc.
    + specialize (IH pend (chunks ++ [c]) reqs script). cbv zeta in IH.
      destruct (IH Herr Hnd' (fun x Hx => Hall x (or_intror Hx))) as [I1 I2].
      split; [rewrite I1, <- app_assoc; reflexivity|]. intros x Hx. destruct (I2 x Hx); [left | right; right]; assumption.
    + apply orb_false_iff in Eloc. destruct Eloc as [Emem Eacc].
      assert (Hc : ~ In c pend) by (apply memN_false_notin; exact Emem).
      assert (Hfetch : forall (Herr' : l_err (if valerr then mkL true pend chunks reqs script else
                 let '(script', pend', got, n) := fetch c script pend 0 in
                 accept_loop stat valerr rest pend' (chunks ++ [got]) (reqs ++ repeat c (N.to_nat n)) script') = false)
                 (Hall' : forall x, In x (c :: rest) -> In x (l_pend (if valerr then mkL true pend chunks reqs script else
                 let '(script', pend', got, n) := fetch c script pend 0 in
                 accept_loop stat valerr rest pend' (chunks ++ [got]) (reqs ++ repeat c (N.to_nat n)) script'))),
                 l_chunks (if valerr then mkL true pend chunks reqs script else
                 let '(script', pend', got, n) := fetch c script pend 0 in
                 accept_loop stat valerr rest pend' (chunks ++ [got]) (reqs ++ repeat c (N.to_nat n)) script') = chunks ++ c :: rest /\
                 (forall x, In x (l_pend (if valerr then mkL true pend chunks reqs script else
                 let '(script', pend', got, n) := fetch c script pend 0 in
                 accept_loop stat valerr rest pend' (chunks ++ [got]) (reqs ++ repeat c (N.to_nat n)) script')) -> In x pend \/ In x (c :: rest))).
      { destruct valerr; [cbn [l_err]; discriminate|].
        destruct (fetch c script pend 0) as [[[script' pend'] got] n] eqn:EF.
        destruct (fetch_spec c script pend 0 _ _ _ _ EF) as (Hgot & Hpend & _). subst pend'.
        intros Herr' Hall'.
        specialize (IH (addN got pend) (chunks ++ [got]) (reqs ++ repeat c (N.to_nat n)) script'). cbv zeta in IH.
        destruct (IH Herr' Hnd' (fun x Hx => Hall' x (or_intror Hx))) as [I1 I2].
        assert (Hgc : got = c).
        { destruct (N.eq_dec got c) as [E|E]; [exact E|]. exfalso.
          destruct (I2 c (Hall' c (or_introl eq_refl))) as [H|H]; [|contradiction].
          apply in_addN in H. destruct H as [H|H]; [congruence | contradiction]. }
        subst got. split; [rewrite I1, <- app_assoc; reflexivity|].
        intros x Hx. destruct (I2 x Hx) as [H|H]; [|right; right; exact H].
        apply in_addN in H. destruct H as [->|H]; [right; left; reflexivity | left; exact H]. }
      destruct (stat c); try (apply Hfetch; assumption); try discriminate.
Qed.

Lemma accept_success_exact stat universe valerr certs script chunks reqs :
  accept stat universe valerr certs script = (Some chunks, reqs) -> chunks = certs /\ NoDup certs.
Proof.
  unfold accept. set (r := accept_loop stat valerr certs (init_pend stat universe) [] [] script).
  destruct (l_err r) eqn:Eerr; [discriminate|].
  destruct (save_all certs (l_pend r)) eqn:Esave; [|discriminate].
  intros H; injection H as <- _. destruct (save_all_true _ _ Esave) as [Hnd Hall].
  pose proof (loop_exact stat valerr certs (init_pend stat universe) [] [] script) as L. cbv zeta in L. fold r in L.
  destruct (L Eerr Hnd Hall) as [L1 _]. split; [exact L1 | exact Hnd].
Qed.

(* ---- Accept succeeds once every missing chunk is served validly ----------------------------- *)

Definition fetchable (s : lstat) : Prop := s = LPendCert \/ s = LPendNoCert \/ s = LMissing.

Lemma fetch_no_wrong c script pend n script' pend' got n' :
  no_wrong script -> fetch c script pend n = (script', pend', got, n') ->
  got = c /\ pend' = addN c pend /\ no_wrong script'.
Proof.
  intros Hnw EF. destruct (fetch_spec c script pend n _ _ _ _ EF) as ([A|A] & B & C).
  - subst got. split; [reflexivity|]. split; [exact B|]. intros w Hw. apply (Hnw w). apply C. exact Hw.
  - exfalso. apply (Hnw got). exact A.
Qed.

Lemma loop_succeeds stat certs : forall pend chunks reqs script,
  no_wrong script -> (forall c, In c certs -> fetchable (stat c)) ->
  let r := accept_loop stat false certs pend chunks reqs script in
  l_err r = false /\ l_chunks r = chunks ++ certs /\
  (forall x, In x pend -> In x (l_pend r)) /\ (forall c, In c certs -> In c (l_pend r)).
Proof.
  induction certs as [|c rest IH]; intros pend chunks reqs script Hnw Hf; cbn [accept_loop]; cbv zeta.
  - cbn [l_err l_pend l_chunks]. rewrite app_nil_r. split; [reflexivity|]. split; [reflexivity|]. split; [tauto | intros c []].
  - assert (Hfc : fetchable (stat c)) by (apply Hf; left; reflexivity).
    assert (Hfr : forall x, In x rest -> fetchable (stat x)) by (intros x Hx; apply Hf; right; exact Hx).
    destruct (memN c pend || match stat c with LAccepted => true | _ => false end) eqn:Eloc.
    + assert (Hc : In c pend).
      { apply orb_true_iff in Eloc. destruct Eloc as [E|E]; [apply memN_In; exact E|].
        destruct Hfc as [H|[H|H]]; rewrite H in E; discriminate. }
      specialize (IH pend (chunks ++ [c]) reqs script Hnw Hfr). cbv zeta in IH. destruct IH as (I1 & I2 & I3 & I4).
      split; [exact I1|]. split; [rewrite I2, <- app_assoc; reflexivity|]. split; [exact I3|].
      intros x [<-|Hx]; [apply I3; exact Hc | apply I4; exact Hx].
    + assert (Hgoal : let r := (let '(script', pend', got, n) := fetch c script pend 0 in
                 accept_loop stat false rest pend' (chunks ++ [got]) (reqs ++ repeat c (N.to_nat n)) script') in
               l_err r = false /\ l_chunks r = chunks ++ c :: rest /\
               (forall x, In x pend -> In x (l_pend r)) /\ (forall x, In x (c :: rest) -> In x (l_pend r))).
      { destruct (fetch c script pend 0) as [[[script' pend'] got] n] eqn:EF.
        destruct (fetch_no_wrong _ _ _ _ _ _ _ _ Hnw EF) as (-> & -> & Hnw').
        specialize (IH (addN c pend) (chunks ++ [c]) (reqs ++ repeat c (N.to_nat n)) script' Hnw' Hfr).
        cbv zeta in IH. destruct IH as (I1 & I2 & I3 & I4). cbv zeta.
        split; [exact I1|]. split; [rewrite I2, <- app_assoc; reflexivity|]. split.
        - intros x Hx. apply I3. apply in_addN. right; exact Hx.
        - intros x [<-|Hx]; [apply I3; apply in_addN; left; reflexivity | apply I4; exact Hx]. }
      destruct Hfc as [H|[H|H]]; rewrite H; exact Hgoal.
Qed.

Lemma accept_succeeds stat universe certs script :
  NoDup certs -> (forall c, In c certs -> fetchable (stat c)) -> no_wrong script ->
  exists reqs, accept stat universe false certs script = (Some certs, reqs).
Proof.
  intros Hnd Hf Hnw. unfold accept.
  pose proof (loop_succeeds stat certs (init_pend stat universe) [] [] script Hnw Hf) as L. cbv zeta in L.
  destruct L as (L1 & L2 & _ & L4). rewrite L1. rewrite (save_all_complete certs _ Hnd L4). rewrite L2.
  eexists. reflexivity.
Qed.

(* ---- a storage error other than not-found fails Accept ---------------------------------------- *)

Lemma loop_store_err stat valerr c certs : forall pend chunks reqs script,
  In c certs -> stat c = LStoreErr -> ~ In c pend -> (~ In (RWrong c) script) ->
  l_err (accept_loop stat valerr certs pend chunks reqs script) = true.
Proof.
  induction certs as [|d rest IH]; intros pend chunks reqs script Hin Hst Hnp Hnw; [destruct Hin|].
  cbn [accept_loop].
  destruct (N.eq_dec d c) as [->|Hne].
  - assert (E : memN c pend = false) by (apply memN_false_notin; exact Hnp). rewrite E, Hst. reflexivity.
  - destruct Hin as [Hin|Hin]; [contradiction|].
    destruct (memN d pend || match stat d with LAccepted => true | _ => false end).
    + apply IH; assumption.
    + assert (Hgoal : l_err (if valerr then mkL true pend chunks reqs script else
                 let '(script', pend', got, n) := fetch d script pend 0 in
                 accept_loop stat valerr rest pend' (chunks ++ [got]) (reqs ++ repeat d (N.to_nat n)) script') = true).
      { destruct valerr; [reflexivity|].
        destruct (fetch d script pend 0) as [[[script' pend'] got] n] eqn:EF.
        destruct (fetch_spec d script pend 0 _ _ _ _ EF) as (Hgot & -> & Hsub).
        apply IH; [exact Hin | exact Hst | | intros H; apply Hnw; apply Hsub; exact H].
        intros H. apply in_addN in H. destruct H as [H|H]; [|contradiction].
        subst got. destruct Hgot as [Hg|Hg]; [congruence | contradiction]. }
      destruct (stat d); try exact Hgoal. reflexivity.
Qed.

Lemma accept_store_err stat universe valerr certs script c :
  In c certs -> stat c = LStoreErr -> ~ In (RWrong c) script ->
  fst (accept stat universe valerr certs script) = None.
Proof.
  intros Hin Hst Hnw. unfold accept.
  rewrite (loop_store_err stat valerr c certs _ [] [] script Hin Hst); [reflexivity | | exact Hnw].
  unfold init_pend. rewrite filter_In. rewrite Hst. cbn. intros [_ H]; discriminate.
Qed.
