(* Proofs about Model/DsmrVerify.v: Node.Verify implies the replay check and the validity interval
   of every certificate; BuildBlock's output passes Verify. *)
From Coq Require Import List NArith ZArith Bool Lia ZifyN ZifyNat ZifyBool.
Import ListNotations.
From HV Require Import Model.ValidityWindow Model.DsmrVerify Proofs.ValidityWindow_proofs.
Local Open Scope Z_scope.

Lemma verify_timestamp_div1 ct et W :
  verify_timestamp ct et dsmr_divisor W = 0%N <-> et <= ct <= et + W.
Proof.
  unfold verify_timestamp, dsmr_divisor. rewrite Z.rem_1_r. cbn [Z.eqb negb].
  destruct (Z.ltb_spec ct et); [split; [discriminate | lia]|].
  destruct (Z.gtb_spec ct (et + W)); [split; [discriminate | lia]|].
  split; [lia | reflexivity].
Qed.

Lemma certs_in_interval_spec W b : certs_in_interval W b = true <-> interval_ok W b.
Proof.
  unfold certs_in_interval, interval_ok. rewrite forallb_forall. split.
  - intros H x e Hin. specialize (H (x, e) Hin). cbn [snd] in H.
    apply N.eqb_eq in H. apply verify_timestamp_div1 in H. exact H.
  - intros H [x e] Hin. cbn [snd]. apply N.eqb_eq. apply verify_timestamp_div1. exact (H x e Hin).
Qed.

(* what a nil result of Node.Verify entails *)
Lemma dsmr_verify_ok idx w W parent b :
  dsmr_verify idx w W parent b = 0%N ->
  b_parent b = b_id parent /\ b_height b = N.succ (b_height parent) /\
  b_ts parent < b_ts b <= b_ts parent + max_time_skew /\ b_items b <> [] /\
  verify_replay idx w W b = 0%N /\ interval_ok W b.
Proof.
  unfold dsmr_verify. intros H.
  destruct (N.eqb_spec (b_parent b) (b_id parent)); cbn [negb] in H; [|discriminate].
  destruct (N.eqb_spec (b_height b) (N.succ (b_height parent))); cbn [negb] in H; [|discriminate].
  destruct (Z.leb_spec (b_ts b) (b_ts parent)); cbn [orb] in H; [discriminate|].
  destruct (Z.gtb_spec (b_ts b) (b_ts parent + max_time_skew)); [discriminate|].
  destruct (b_items b) as [|it its] eqn:Hits; cbn [is_nil] in H; [discriminate|].
  destruct (verify_replay idx w W b) eqn:Hv; [|discriminate].
  destruct (certs_in_interval W b) eqn:Hc; [|discriminate].
  split; [assumption|]. split; [assumption|]. split; [lia|]. split; [discriminate|].
  split; [reflexivity | apply certs_in_interval_spec; exact Hc].
Qed.

Lemma dsmr_vf_sound tree W idx w b :
  dsmr_vf tree idx w W b = 0%N -> verify_replay idx w W b = 0%N /\ interval_ok W b.
Proof.
  unfold dsmr_vf. destruct (tree (b_parent b)) as [p|]; [|discriminate].
  intros H. apply dsmr_verify_ok in H. tauto.
Qed.

(* ------------------------------------------------------------------ builder *)
Lemma dsmr_keep_spec W ts : forall certs m it, In it (dsmr_keep W ts certs m) ->
  (exists i, nth_error certs i = Some it /\ nth i m true = false) /\ ts <= snd it <= ts + W.
Proof.
  unfold dsmr_keep. induction certs as [|c certs IH]; intros [|mi m] it Hin;
    cbn [combine filter map] in Hin; try contradiction.
  cbn [fst snd] in Hin.
  destruct ((snd c <? ts) || (snd c >? ts + W) || mi) eqn:Hc; cbn [negb] in Hin.
  - destruct (IH m it Hin) as [[i [H1 H2]] H3]. split; [exists (S i); split; assumption | exact H3].
  - apply orb_false_iff in Hc. destruct Hc as [Hc Hmi]. apply orb_false_iff in Hc. destruct Hc as [Hlo Hhi].
    destruct Hin as [Heq|Hin].
    + cbn [fst] in Heq. subst it. split; [exists O; split; [reflexivity | exact Hmi] | lia].
    + destruct (IH m it Hin) as [[i [H1 H2]] H3]. split; [exists (S i); split; assumption | exact H3].
Qed.

Lemma dsmr_keep_sub W ts : forall certs m x, In x (ids (dsmr_keep W ts certs m)) -> In x (ids certs).
Proof.
  unfold dsmr_keep. induction certs as [|c certs IH]; intros [|mi m] x Hin; cbn [combine filter map ids] in *;
    try contradiction.
  cbn [fst snd] in Hin.
  destruct (negb ((snd c <? ts) || (snd c >? ts + W) || mi)); cbn [map] in Hin.
  - destruct Hin as [Heq|Hin]; [left; exact Heq | right; exact (IH m x Hin)].
  - right. exact (IH m x Hin).
Qed.

Lemma dsmr_keep_nodup W ts : forall certs m, NoDup (ids certs) -> NoDup (ids (dsmr_keep W ts certs m)).
Proof.
  induction certs as [|c certs IH]; intros [|mi m] Hnd; try (cbn; constructor).
  cbn [ids map] in Hnd. inversion Hnd as [|? ? Hnin Hnd']; subst.
  unfold dsmr_keep. cbn [combine filter fst snd].
  destruct (negb ((snd c <? ts) || (snd c >? ts + W) || mi)); cbn [map].
  - constructor; [|exact (IH m Hnd')]. intros Hin. apply Hnin. exact (dsmr_keep_sub W ts certs m _ Hin).
  - exact (IH m Hnd').
Qed.

Lemma builder_passes_verify idx w W parent ts certs avail newid :
  idx (b_id parent) = Some parent ->
  NoDup (ids certs) ->
  ts <= b_ts parent + max_time_skew ->
  dsmr_build idx w W parent ts certs = (0%N, avail) ->
  dsmr_verify idx w W parent (mkB newid (b_id parent) (N.succ (b_height parent)) ts avail) = 0%N /\
  (forall x e, In (x, e) avail -> ts <= e <= ts + W) /\ avail <> [].
Proof.
  intros Hp Hnd Hskew Hb. unfold dsmr_build in Hb.
  destruct (Z.leb_spec ts (b_ts parent)) as [|Hts]; [discriminate|].
  destruct (is_repeat idx w W parent ts certs) as [m err] eqn:Hr. cbn [fst snd] in Hb.
  destruct err; [discriminate|].
  destruct (dsmr_keep W ts certs m) as [|a0 av] eqn:Hk; cbn [is_nil] in Hb; [discriminate|].
  inversion Hb; subst avail. clear Hb. rewrite <- Hk.
  assert (forall x e, In (x, e) (dsmr_keep W ts certs m) -> ts <= e <= ts + W) as Hint
    by (intros x e Hin; exact (proj2 (dsmr_keep_spec W ts certs m (x, e) Hin))).
  split; [|split; [exact Hint | rewrite Hk; discriminate]].
  unfold dsmr_verify. cbn [b_parent b_height b_ts b_items].
  rewrite !N.eqb_refl. cbn [negb].
  destruct (Z.leb_spec ts (b_ts parent)); [lia|]. cbn [orb].
  destruct (Z.gtb_spec ts (b_ts parent + max_time_skew)); [lia|].
  rewrite Hk at 1. cbn [is_nil].
  rewrite (builder_agrees_gen W idx w parent ts certs m newid (dsmr_keep W ts certs m) Hp Hr).
  - assert (certs_in_interval W (mkB newid (b_id parent) (N.succ (b_height parent)) ts (dsmr_keep W ts certs m)) = true) as ->
      by (apply certs_in_interval_spec; intros x e Hin; cbn [b_items b_ts] in *; exact (Hint x e Hin)).
    reflexivity.
  - intros it Hin. exact (proj1 (dsmr_keep_spec W ts certs m it Hin)).
  - apply dsmr_keep_nodup. exact Hnd.
Qed.
