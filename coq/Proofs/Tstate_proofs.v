(* Proofs about Model/Tstate.v.

   Reachability invariant: [view_ok s].  It holds for [new_view] (view_ok_new) and is preserved by
   insert / remove / rollback / step / run.  It says that the current (pending, writes) maps and
   every pair of maps obtained by undoing a suffix of the log satisfy [inv_pw]:
     I1  dom pending = dom writes          (the code tests pastWrites != nil for "had an entry")
     I2  a pending entry differs from the value below the view   (commit minimality)
     I3  a pending entry is write-declared                       (confinement)
     I4  a pending value satisfies the chunk bound of its key    (C40)
   [allocs] is deliberately not constrained (it can drift after a rollback; no visible value
   depends on it). *)
From stdpp Require Import gmap.
From Coq Require Import NArith ZArith Lia ZifyN ZifyNat ZifyBool.
From HV Require Import Lib.Bytes Model.Keys Model.Tstate Proofs.Keys_proofs.
Local Open Scope N_scope.

(* ---------------------------------------------------------------- small facts *)

Lemma oval_eqb_eq (a b : option val) : oval_eqb a b = true <-> a = b.
Proof.
  destruct a as [x|], b as [y|]; cbn [oval_eqb]; try (split; congruence).
  rewrite bytes_eqb_eq. split; congruence.
Qed.

Lemma oval_eqb_neq (a b : option val) : oval_eqb a b = false <-> a <> b.
Proof.
  rewrite <- oval_eqb_eq. destruct (oval_eqb a b); split; congruence.
Qed.

Lemma bytes_eqb_refl (a : list N) : bytes_eqb a a = true.
Proof. apply bytes_eqb_eq. reflexivity. Qed.

Lemma bytes_eqb_neq (a b : list N) : bytes_eqb a b = false <-> a <> b.
Proof. rewrite <- bytes_eqb_eq. destruct (bytes_eqb a b); split; congruence. Qed.

Lemma key_eqb_eq (a b : key) : key_eqb a b = true <-> a = b.
Proof. apply bytes_eqb_eq. Qed.

Lemma scope_has_write_read sc k : scope_has sc k pWrite = true -> scope_has sc k pRead = true.
Proof. destruct sc; [auto|]. apply write_has_read. Qed.

Lemma scope_has_allocate_read sc k : scope_has sc k pAllocate = true -> scope_has sc k pRead = true.
Proof. destruct sc; [auto|]. apply allocate_has_read. Qed.

(* ---------------------------------------------------------------- the undo step on (pending, writes) *)

Definition pwmaps : Type := gmap key (option val) * gmap key N.

Definition undo_pw (o : oprec) (pw : pwmaps) : pwmaps :=
  let k := o_k o in
  match o_pastW o with
  | None => (delete k (fst pw), delete k (snd pw))
  | Some x => (<[k := match o_t o with CreateOp => None | _ => Some (o_pastV o) end]> (fst pw),
               <[k := x]> (snd pw))
  end.

Definition proj_pw (paw : gmap key (option val) * gmap key N * gmap key N) : pwmaps :=
  (fst (fst paw), snd paw).

Lemma undo_maps_pw o paw : proj_pw (undo_maps o paw) = undo_pw o (proj_pw paw).
Proof.
  destruct paw as [[p a] w]. unfold undo_maps, undo_pw, proj_pw. cbn [fst snd].
  destruct (o_t o), (o_pastW o); reflexivity.
Qed.

Definition undo_all (l : list oprec) (pw : pwmaps) : pwmaps := fold_left (fun x o => undo_pw o x) l pw.
Definition undo_all_maps (l : list oprec) paw := fold_left (fun x o => undo_maps o x) l paw.

Lemma undo_all_maps_pw l : forall paw, proj_pw (undo_all_maps l paw) = undo_all l (proj_pw paw).
Proof.
  induction l as [|o l IH]; intros paw; cbn [undo_all_maps undo_all fold_left]; [reflexivity|].
  fold (undo_all_maps l (undo_maps o paw)). rewrite IH, undo_maps_pw. reflexivity.
Qed.

Lemma unwind_spec n : forall l paw, unwind n l paw = (drop n l, undo_all_maps (take n l) paw).
Proof.
  induction n as [|n IH]; intros l paw.
  - destruct l; reflexivity.
  - destruct l as [|o l]; [reflexivity|]. cbn [unwind drop take undo_all_maps fold_left]. apply IH.
Qed.

(* ---------------------------------------------------------------- invariant *)

Section Inv.
  Variables (ts : tstate) (base : gmap key val) (sc : scope).

  Definition inv_pw (pw : pwmaps) : Prop :=
    (forall k, is_Some (fst pw !! k) <-> is_Some (snd pw !! k))
    /\ (forall k ov, fst pw !! k = Some ov -> ov <> under_of ts base k)
    /\ (forall k ov, fst pw !! k = Some ov -> scope_has sc k pWrite = true)
    /\ (forall k v, fst pw !! k = Some (Some v) -> verify_value k v = true).

  Fixpoint log_ok (pw : pwmaps) (l : list oprec) : Prop :=
    inv_pw pw /\ match l with
                 | [] => True
                 | o :: l' => log_ok (undo_pw o pw) l'
                 end.

  Lemma log_ok_inv pw l : log_ok pw l -> inv_pw pw.
  Proof. destruct l; cbn [log_ok]; tauto. Qed.

  Lemma log_ok_undo_all l1 : forall pw l2, log_ok pw (l1 ++ l2) -> log_ok (undo_all l1 pw) l2.
  Proof.
    induction l1 as [|o l1 IH]; intros pw l2 H; [exact H|].
    cbn [app log_ok] in H. destruct H as [_ H]. apply (IH _ _ H).
  Qed.

  Lemma inv_pw_empty : inv_pw (∅, ∅).
  Proof.
    unfold inv_pw. cbn [fst snd]. repeat split.
    - rewrite !lookup_empty. intros [? H]; discriminate H.
    - rewrite !lookup_empty. intros [? H]; discriminate H.
    - intros k ov. rewrite lookup_empty. discriminate.
    - intros k ov. rewrite lookup_empty. discriminate.
    - intros k v. rewrite lookup_empty. discriminate.
  Qed.
End Inv.

Definition pw_of (s : view) : pwmaps := (pending s, writes s).

Definition view_ok (s : view) : Prop := log_ok (v_ts s) (v_base s) (v_scope s) (pw_of s) (ops s).

Lemma view_ok_new ts sc base : view_ok (new_view ts sc base).
Proof. unfold view_ok, new_view, pw_of. cbn. split; [apply inv_pw_empty | exact I]. Qed.

Lemma view_ok_inv s : view_ok s -> inv_pw (v_ts s) (v_base s) (v_scope s) (pw_of s).
Proof. apply log_ok_inv. Qed.

(* ---------------------------------------------------------------- effective steps *)

(* [eff s k nv s'] : s' is s after an operation that sets the visible value of k to nv (<> the
   current one), exactly as Insert / Remove do it. *)
Record eff (s : view) (k : key) (nv : option val) (s' : view) : Prop := mkEff {
  eff_ts : v_ts s' = v_ts s;
  eff_base : v_base s' = v_base s;
  eff_scope : v_scope s' = v_scope s;
  eff_write : check s k pWrite = true;
  eff_changed : vis s k <> nv;
  eff_p : pending s' = if oval_eqb (under s k) nv then delete k (<[k := nv]> (pending s))
                       else <[k := nv]> (pending s);
  eff_w : exists c, writes s' = if oval_eqb (under s k) nv then delete k (<[k := c]> (writes s))
                                else <[k := c]> (writes s);
  eff_ops : exists o, ops s' = o :: ops s /\ o_k o = k /\ o_pastW o = writes s !! k /\
            match vis s k with
            | None => o_t o = CreateOp
            | Some past => o_t o <> CreateOp /\ o_pastV o = past
            end;
  eff_val : match nv with Some v => verify_value k v = true | None => True end }.

Lemma eff_pending_k s k nv s' : eff s k nv s' ->
  pending s' !! k = if oval_eqb (under s k) nv then None else Some nv.
Proof.
  intros H. rewrite (eff_p _ _ _ _ H). destruct (oval_eqb (under s k) nv).
  - apply lookup_delete.
  - apply lookup_insert.
Qed.

Lemma eff_pending_ne s k nv s' k' : eff s k nv s' -> k <> k' -> pending s' !! k' = pending s !! k'.
Proof.
  intros H Hne. rewrite (eff_p _ _ _ _ H). destruct (oval_eqb (under s k) nv).
  - rewrite lookup_delete_ne, lookup_insert_ne by exact Hne. reflexivity.
  - rewrite lookup_insert_ne by exact Hne. reflexivity.
Qed.

Lemma eff_writes_k s k nv s' : eff s k nv s' ->
  is_Some (writes s' !! k) <-> oval_eqb (under s k) nv = false.
Proof.
  intros H. destruct (eff_w _ _ _ _ H) as [c ->]. destruct (oval_eqb (under s k) nv).
  - rewrite lookup_delete. split; [intros [? E]; discriminate E | discriminate].
  - rewrite lookup_insert. split; [reflexivity | eauto].
Qed.

Lemma eff_writes_ne s k nv s' k' : eff s k nv s' -> k <> k' -> writes s' !! k' = writes s !! k'.
Proof.
  intros H Hne. destruct (eff_w _ _ _ _ H) as [c ->]. destruct (oval_eqb (under s k) nv).
  - rewrite lookup_delete_ne, lookup_insert_ne by exact Hne. reflexivity.
  - rewrite lookup_insert_ne by exact Hne. reflexivity.
Qed.

Lemma eff_under s k nv s' k' : eff s k nv s' -> under s' k' = under s k'.
Proof. intros H. unfold under. rewrite (eff_ts _ _ _ _ H), (eff_base _ _ _ _ H). reflexivity. Qed.

(* the operation sets the visible value at k and nowhere else *)
Lemma eff_vis_k s k nv s' : eff s k nv s' -> vis s' k = nv.
Proof.
  intros H. unfold vis, vis_of. rewrite (eff_pending_k _ _ _ _ H).
  destruct (oval_eqb (under s k) nv) eqn:E; [|reflexivity].
  apply oval_eqb_eq in E. rewrite <- E. unfold under.
  rewrite (eff_ts _ _ _ _ H), (eff_base _ _ _ _ H). reflexivity.
Qed.

Lemma eff_vis_ne s k nv s' k' : eff s k nv s' -> k <> k' -> vis s' k' = vis s k'.
Proof.
  intros H Hne. unfold vis, vis_of. rewrite (eff_pending_ne _ _ _ _ _ H Hne).
  rewrite (eff_ts _ _ _ _ H), (eff_base _ _ _ _ H). reflexivity.
Qed.

Lemma eff_op_index s k nv s' : eff s k nv s' -> op_index s' = op_index s + 1.
Proof.
  intros H. destruct (eff_ops _ _ _ _ H) as (o & Ho & _). unfold op_index. rewrite Ho. cbn [length]. lia.
Qed.

(* the invariant on the maps is preserved *)
Lemma eff_inv s k nv s' : eff s k nv s' ->
  inv_pw (v_ts s) (v_base s) (v_scope s) (pw_of s) ->
  inv_pw (v_ts s') (v_base s') (v_scope s') (pw_of s').
Proof.
  intros H (I1 & I2 & I3 & I4).
  rewrite (eff_ts _ _ _ _ H), (eff_base _ _ _ _ H), (eff_scope _ _ _ _ H).
  unfold inv_pw, pw_of in *. cbn [fst snd] in *.
  split; [|split; [|split]].
  - intros k0. destruct (decide (k = k0)) as [Heq|Hne].
    + subst k0. rewrite (eff_pending_k _ _ _ _ H). rewrite (eff_writes_k _ _ _ _ H).
      destruct (oval_eqb (under s k) nv).
      * split; [intros [x E]; discriminate E | intros E; discriminate E].
      * split; [reflexivity | eauto].
    + rewrite (eff_pending_ne _ _ _ _ _ H Hne), (eff_writes_ne _ _ _ _ _ H Hne). apply I1.
  - intros k0 ov. destruct (decide (k = k0)) as [Heq|Hne].
    + subst k0. rewrite (eff_pending_k _ _ _ _ H).
      destruct (oval_eqb (under s k) nv) eqn:E; [intros Hov; discriminate Hov|].
      intros Hov. inversion Hov; subst ov. apply oval_eqb_neq in E. unfold under in E. congruence.
    + rewrite (eff_pending_ne _ _ _ _ _ H Hne). apply I2.
  - intros k0 ov. destruct (decide (k = k0)) as [Heq|Hne].
    + subst k0. intros _. exact (eff_write _ _ _ _ H).
    + rewrite (eff_pending_ne _ _ _ _ _ H Hne). apply I3.
  - intros k0 v. destruct (decide (k = k0)) as [Heq|Hne].
    + subst k0. rewrite (eff_pending_k _ _ _ _ H).
      destruct (oval_eqb (under s k) nv); [intros Hov; discriminate Hov|].
      intros Hov. inversion Hov; subst nv. exact (eff_val _ _ _ _ H).
    + rewrite (eff_pending_ne _ _ _ _ _ H Hne). apply I4.
Qed.

(* undoing the recorded op gives back exactly the earlier (pending, writes) *)
Lemma eff_undo s k nv s' o : eff s k nv s' -> ops s' = o :: ops s ->
  (forall k, is_Some (pending s !! k) <-> is_Some (writes s !! k)) ->
  undo_pw o (pw_of s') = pw_of s.
Proof.
  intros H Ho I1. destruct (eff_ops _ _ _ _ H) as (o' & Ho' & Hk & HpW & Ht).
  assert (o' = o) by congruence. subst o'. clear Ho'.
  unfold undo_pw, pw_of. cbn [fst snd]. rewrite Hk, HpW.
  destruct (eff_w _ _ _ _ H) as [c Hw]. rewrite Hw, (eff_p _ _ _ _ H).
  specialize (I1 k).
  destruct (writes s !! k) as [pw|] eqn:EW.
  - (* the view already held an entry for k *)
    destruct (pending s !! k) as [ov|] eqn:EP; [|destruct (proj2 I1 ltac:(eauto)) as [? E]; discriminate E].
    assert (Hvis : vis s k = ov) by (unfold vis, vis_of; rewrite EP; reflexivity).
    assert (Hov : match o_t o with CreateOp => None | _ => Some (o_pastV o) end = ov).
    { rewrite Hvis in Ht. destruct ov as [past|].
      - destruct Ht as [Hne ->]. destruct (o_t o); congruence.
      - rewrite Ht. reflexivity. }
    rewrite Hov. f_equal.
    + destruct (oval_eqb (under s k) nv).
      * rewrite insert_delete_insert, insert_insert. apply insert_id. exact EP.
      * rewrite insert_insert. apply insert_id. exact EP.
    + destruct (oval_eqb (under s k) nv).
      * rewrite insert_delete_insert, insert_insert. apply insert_id. exact EW.
      * rewrite insert_insert. apply insert_id. exact EW.
  - (* first entry for k in this view *)
    assert (EP : pending s !! k = None).
    { destruct (pending s !! k) eqn:E; [|reflexivity]. destruct (proj1 I1 ltac:(eauto)) as [? E']. discriminate E'. }
    f_equal.
    + destruct (oval_eqb (under s k) nv).
      * rewrite delete_idemp, delete_insert_delete. apply delete_notin. exact EP.
      * rewrite delete_insert_delete. apply delete_notin. exact EP.
    + destruct (oval_eqb (under s k) nv).
      * rewrite delete_idemp, delete_insert_delete. apply delete_notin. exact EW.
      * rewrite delete_insert_delete. apply delete_notin. exact EW.
Qed.

Lemma eff_view_ok s k nv s' : eff s k nv s' -> view_ok s -> view_ok s'.
Proof.
  intros H Hok. destruct (eff_ops _ _ _ _ H) as (o & Ho & _).
  unfold view_ok. rewrite Ho. cbn [log_ok]. split.
  - apply (eff_inv _ _ _ _ H). apply view_ok_inv. exact Hok.
  - rewrite (eff_undo _ _ _ _ _ H Ho).
    + rewrite (eff_ts _ _ _ _ H), (eff_base _ _ _ _ H), (eff_scope _ _ _ _ H). exact Hok.
    + apply (view_ok_inv _ Hok).
Qed.

(* ---------------------------------------------------------------- Insert *)

Lemma insert_fail s k v s' e : insert s k v = (s', Some e) -> s' = s.
Proof.
  unfold insert.
  destruct (check s k pWrite); cbn [negb]; [|intros H; inversion H; reflexivity].
  destruct (verify_value k v); cbn [negb]; [|intros H; inversion H; reflexivity].
  destruct (vis s k) as [past|].
  - destruct (bytes_eqb past v); [intros H; inversion H|].
    destruct (is_unchanged s k (Some v)); intros H; inversion H.
  - destruct (check s k pAllocate); cbn [negb]; [|intros H; inversion H; reflexivity].
    destruct (is_unchanged s k (Some v)); intros H; inversion H.
Qed.

Lemma insert_err_conds s k v s' e : insert s k v = (s', Some e) ->
  (e = EPerm /\ (check s k pWrite = false \/ (vis s k = None /\ check s k pAllocate = false)))
  \/ (e = EValue /\ check s k pWrite = true /\ verify_value k v = false).
Proof.
  unfold insert.
  destruct (check s k pWrite); cbn [negb]; [|intros H; inversion H; auto].
  destruct (verify_value k v); cbn [negb]; [|intros H; inversion H; auto].
  destruct (vis s k) as [past|].
  - destruct (bytes_eqb past v); [intros H; inversion H|].
    destruct (is_unchanged s k (Some v)); intros H; inversion H.
  - destruct (check s k pAllocate); cbn [negb]; [|intros H; inversion H; auto].
    destruct (is_unchanged s k (Some v)); intros H; inversion H.
Qed.

Lemma insert_ok_conds s k v s' : insert s k v = (s', None) ->
  check s k pWrite = true /\ verify_value k v = true /\ (vis s k = None -> check s k pAllocate = true).
Proof.
  unfold insert.
  destruct (check s k pWrite); cbn [negb]; [|intros H; inversion H].
  destruct (verify_value k v); cbn [negb]; [|intros H; inversion H].
  destruct (vis s k) as [past|].
  - intros _. repeat split; auto. discriminate.
  - destruct (check s k pAllocate); cbn [negb]; [|intros H; inversion H]. auto.
Qed.

Lemma insert_succeeds s k v :
  check s k pWrite = true -> verify_value k v = true -> (vis s k = None -> check s k pAllocate = true) ->
  snd (insert s k v) = None.
Proof.
  intros Hw Hv Ha. unfold insert. rewrite Hw, Hv. cbn [negb].
  destruct (vis s k) as [past|].
  - destruct (bytes_eqb past v); [reflexivity|]. destruct (is_unchanged s k (Some v)); reflexivity.
  - rewrite (Ha eq_refl). cbn [negb]. destruct (is_unchanged s k (Some v)); reflexivity.
Qed.

Lemma insert_noop s k v s' : insert s k v = (s', None) -> vis s k = Some v -> s' = s.
Proof.
  unfold insert.
  destruct (check s k pWrite); cbn [negb]; [|intros H; inversion H].
  destruct (verify_value k v); cbn [negb]; [|intros H; inversion H].
  intros H Hv. rewrite Hv, bytes_eqb_refl in H. inversion H. reflexivity.
Qed.

Lemma insert_effective s k v s' : insert s k v = (s', None) -> vis s k <> Some v ->
  eff s k (Some v) s'.
Proof.
  unfold insert.
  destruct (check s k pWrite) eqn:Hw; cbn [negb]; [|intros H; inversion H].
  destruct (verify_value k v) eqn:Hv; cbn [negb]; [|intros H; inversion H].
  destruct (vis s k) as [past|] eqn:Hvis.
  - destruct (bytes_eqb past v) eqn:Hb.
    { apply bytes_eqb_eq in Hb. subst past. intros _ Hne. congruence. }
    unfold is_unchanged.
    destruct (oval_eqb (under s k) (Some v)) eqn:HU; intros H Hne; inversion H; subst s'; clear H;
      (split; cbn [v_ts v_base v_scope pending writes ops set_p];
       [reflexivity | reflexivity | reflexivity | exact Hw | rewrite Hvis; exact Hne | rewrite HU; reflexivity
       | eexists; rewrite HU; reflexivity
       | eexists; split; [reflexivity|]; cbn [o_k o_pastW o_t o_pastV]; rewrite Hvis;
         repeat split; congruence
       | exact Hv]).
  - destruct (check s k pAllocate) eqn:Ha; cbn [negb]; [|intros H; inversion H].
    unfold is_unchanged.
    destruct (oval_eqb (under s k) (Some v)) eqn:HU; intros H Hne; inversion H; subst s'; clear H;
      (split; cbn [v_ts v_base v_scope pending writes ops set_p];
       [reflexivity | reflexivity | reflexivity | exact Hw | rewrite Hvis; exact Hne | rewrite HU; reflexivity
       | eexists; rewrite HU; reflexivity
       | eexists; split; [reflexivity|]; cbn [o_k o_pastW o_t o_pastV]; rewrite Hvis;
         repeat split; congruence
       | exact Hv]).
Qed.

(* ---------------------------------------------------------------- Remove *)

Lemma remove_fail s k s' e : remove s k = (s', Some e) -> s' = s /\ e = EPerm /\ check s k pWrite = false.
Proof.
  unfold remove.
  destruct (check s k pWrite); cbn [negb]; [|intros H; inversion H; auto].
  destruct (vis s k) as [past|]; [|intros H; inversion H].
  destruct (is_unchanged s k None); intros H; inversion H.
Qed.

Lemma remove_ok_conds s k s' : remove s k = (s', None) -> check s k pWrite = true.
Proof.
  unfold remove. destruct (check s k pWrite); cbn [negb]; [auto | intros H; inversion H].
Qed.

Lemma remove_succeeds s k : check s k pWrite = true -> snd (remove s k) = None.
Proof.
  intros Hw. unfold remove. rewrite Hw. cbn [negb].
  destruct (vis s k); [|reflexivity]. destruct (is_unchanged s k None); reflexivity.
Qed.

Lemma remove_noop s k s' : remove s k = (s', None) -> vis s k = None -> s' = s.
Proof.
  unfold remove. destruct (check s k pWrite); cbn [negb]; [|intros H; inversion H].
  intros H Hv. rewrite Hv in H. inversion H. reflexivity.
Qed.

Lemma remove_effective s k s' : remove s k = (s', None) -> vis s k <> None -> eff s k None s'.
Proof.
  unfold remove.
  destruct (check s k pWrite) eqn:Hw; cbn [negb]; [|intros H; inversion H].
  destruct (vis s k) as [past|] eqn:Hvis; [|intros _ Hne; congruence].
  unfold is_unchanged.
  destruct (oval_eqb (under s k) None) eqn:HU; intros H Hne; inversion H; subst s'; clear H;
    (split; cbn [v_ts v_base v_scope pending writes ops set_p];
     [reflexivity | reflexivity | reflexivity | exact Hw | rewrite Hvis; exact Hne | rewrite HU; reflexivity
     | eexists; rewrite HU; reflexivity
     | eexists; split; [reflexivity|]; cbn [o_k o_pastW o_t o_pastV]; rewrite Hvis;
       repeat split; congruence
     | exact I]).
Qed.

(* ---------------------------------------------------------------- summary lemmas for Insert / Remove *)

Lemma insert_vis s k v s' : insert s k v = (s', None) ->
  vis s' k = Some v /\ (forall k', k <> k' -> vis s' k' = vis s k').
Proof.
  intros H. destruct (decide (vis s k = Some v)) as [E|E].
  - rewrite (insert_noop _ _ _ _ H E). auto.
  - pose proof (insert_effective _ _ _ _ H E) as He. split.
    + apply (eff_vis_k _ _ _ _ He).
    + intros k' Hne. apply (eff_vis_ne _ _ _ _ _ He Hne).
Qed.

Lemma remove_vis s k s' : remove s k = (s', None) ->
  vis s' k = None /\ (forall k', k <> k' -> vis s' k' = vis s k').
Proof.
  intros H. destruct (decide (vis s k = None)) as [E|E].
  - rewrite (remove_noop _ _ _ H E). auto.
  - pose proof (remove_effective _ _ _ H E) as He. split.
    + apply (eff_vis_k _ _ _ _ He).
    + intros k' Hne. apply (eff_vis_ne _ _ _ _ _ He Hne).
Qed.

Lemma insert_op_index s k v s' : insert s k v = (s', None) ->
  op_index s' = if decide (vis s k = Some v) then op_index s else op_index s + 1.
Proof.
  intros H. destruct (decide (vis s k = Some v)) as [E|E].
  - rewrite (insert_noop _ _ _ _ H E). reflexivity.
  - apply (eff_op_index _ _ _ _ (insert_effective _ _ _ _ H E)).
Qed.

Lemma remove_op_index s k s' : remove s k = (s', None) ->
  op_index s' = if decide (vis s k = None) then op_index s else op_index s + 1.
Proof.
  intros H. destruct (decide (vis s k = None)) as [E|E].
  - rewrite (remove_noop _ _ _ H E). reflexivity.
  - apply (eff_op_index _ _ _ _ (remove_effective _ _ _ H E)).
Qed.

Lemma insert_view_ok s k v : view_ok s -> view_ok (fst (insert s k v)).
Proof.
  intros Hok. destruct (insert s k v) as [s' [e|]] eqn:H; cbn [fst].
  - rewrite (insert_fail _ _ _ _ _ H). exact Hok.
  - destruct (decide (vis s k = Some v)) as [E|E].
    + rewrite (insert_noop _ _ _ _ H E). exact Hok.
    + apply (eff_view_ok _ _ _ _ (insert_effective _ _ _ _ H E) Hok).
Qed.

Lemma remove_view_ok s k : view_ok s -> view_ok (fst (remove s k)).
Proof.
  intros Hok. destruct (remove s k) as [s' [e|]] eqn:H; cbn [fst].
  - destruct (remove_fail _ _ _ _ H) as [-> _]. exact Hok.
  - destruct (decide (vis s k = None)) as [E|E].
    + rewrite (remove_noop _ _ _ H E). exact Hok.
    + apply (eff_view_ok _ _ _ _ (remove_effective _ _ _ H E) Hok).
Qed.

Lemma insert_env s k v : let s' := fst (insert s k v) in
  v_ts s' = v_ts s /\ v_base s' = v_base s /\ v_scope s' = v_scope s.
Proof.
  cbn zeta. destruct (insert s k v) as [s' [e|]] eqn:H; cbn [fst].
  - rewrite (insert_fail _ _ _ _ _ H). auto.
  - destruct (decide (vis s k = Some v)) as [E|E].
    + rewrite (insert_noop _ _ _ _ H E). auto.
    + pose proof (insert_effective _ _ _ _ H E) as He.
      rewrite (eff_ts _ _ _ _ He), (eff_base _ _ _ _ He), (eff_scope _ _ _ _ He). auto.
Qed.

Lemma remove_env s k : let s' := fst (remove s k) in
  v_ts s' = v_ts s /\ v_base s' = v_base s /\ v_scope s' = v_scope s.
Proof.
  cbn zeta. destruct (remove s k) as [s' [e|]] eqn:H; cbn [fst].
  - destruct (remove_fail _ _ _ _ H) as [-> _]. auto.
  - destruct (decide (vis s k = None)) as [E|E].
    + rewrite (remove_noop _ _ _ H E). auto.
    + pose proof (remove_effective _ _ _ H E) as He.
      rewrite (eff_ts _ _ _ _ He), (eff_base _ _ _ _ He), (eff_scope _ _ _ _ He). auto.
Qed.

(* ---------------------------------------------------------------- Rollback *)

Definition pops (s : view) (n : N) : nat := (length (ops s) - N.to_nat n)%nat.

Lemma rollback_spec s n :
  v_ts (rollback s n) = v_ts s /\ v_base (rollback s n) = v_base s /\ v_scope (rollback s n) = v_scope s
  /\ ops (rollback s n) = drop (pops s n) (ops s)
  /\ pw_of (rollback s n) = undo_all (take (pops s n) (ops s)) (pw_of s).
Proof.
  unfold rollback, pops. rewrite unwind_spec.
  destruct (undo_all_maps (take (length (ops s) - N.to_nat n) (ops s)) (pending s, allocs s, writes s))
    as [[p a] w] eqn:E.
  cbn [set_p v_ts v_base v_scope ops]. repeat split.
  pose proof (undo_all_maps_pw (take (length (ops s) - N.to_nat n) (ops s)) (pending s, allocs s, writes s)) as H.
  rewrite E in H. unfold proj_pw in H. cbn [fst snd] in H. unfold pw_of. cbn [pending writes set_p]. exact H.
Qed.

Lemma rollback_view_ok s n : view_ok s -> view_ok (rollback s n).
Proof.
  intros Hok. destruct (rollback_spec s n) as (Hts & Hb & Hsc & Hops & Hpw).
  unfold view_ok. rewrite Hts, Hb, Hsc, Hops, Hpw.
  apply log_ok_undo_all. rewrite take_drop. exact Hok.
Qed.

Lemma rollback_op_index s n : op_index (rollback s n) = N.min n (op_index s).
Proof.
  destruct (rollback_spec s n) as (_ & _ & _ & Hops & _). unfold op_index, pops in *.
  rewrite Hops, drop_length. lia.
Qed.

Lemma rollback_noop s n : op_index s <= n -> rollback s n = s.
Proof.
  intros H. unfold rollback. unfold op_index in H.
  replace (length (ops s) - N.to_nat n)%nat with 0%nat by lia.
  cbn [unwind]. destruct s; reflexivity.
Qed.

(* ---------------------------------------------------------------- step / run *)

Lemma step_view_ok s h : view_ok s -> view_ok (fst (step s h)).
Proof.
  intros Hok. destruct h as [k|k v|k|n]; cbn [step].
  - exact Hok.
  - pose proof (insert_view_ok s k v Hok) as H. destruct (insert s k v). exact H.
  - pose proof (remove_view_ok s k Hok) as H. destruct (remove s k). exact H.
  - apply rollback_view_ok. exact Hok.
Qed.

Lemma step_env s h : let s' := fst (step s h) in
  v_ts s' = v_ts s /\ v_base s' = v_base s /\ v_scope s' = v_scope s.
Proof.
  cbn zeta. destruct h as [k|k v|k|n]; cbn [step].
  - auto.
  - pose proof (insert_env s k v) as H. destruct (insert s k v). exact H.
  - pose proof (remove_env s k) as H. destruct (remove s k). exact H.
  - destruct (rollback_spec s n) as (H1 & H2 & H3 & _). auto.
Qed.

Lemma run_cons s x h : run s (x :: h) =
  (fst (run (fst (step s x)) h), snd (step s x) :: snd (run (fst (step s x)) h)).
Proof.
  cbn [run]. destruct (step s x) as [s1 r]. cbn [fst snd]. destruct (run s1 h). reflexivity.
Qed.

Lemma run_view_ok h : forall s, view_ok s -> view_ok (fst (run s h)).
Proof.
  induction h as [|x h IH]; intros s Hok; [exact Hok|].
  rewrite run_cons. cbn [fst]. apply IH. apply step_view_ok. exact Hok.
Qed.

Lemma run_env h : forall s, let s' := fst (run s h) in
  v_ts s' = v_ts s /\ v_base s' = v_base s /\ v_scope s' = v_scope s.
Proof.
  induction h as [|x h IH]; intros s; cbn zeta; [auto|].
  rewrite run_cons. cbn [fst]. destruct (IH (fst (step s x))) as (H1 & H2 & H3).
  destruct (step_env s x) as (G1 & G2 & G3). rewrite H1, H2, H3. auto.
Qed.

Lemma run_app h1 : forall s h2, fst (run s (h1 ++ h2)) = fst (run (fst (run s h1)) h2).
Proof.
  induction h1 as [|x h1 IH]; intros s h2; [reflexivity|].
  cbn [app]. rewrite !run_cons. cbn [fst]. apply IH.
Qed.

(* ---------------------------------------------------------------- C04: rollback restores a checkpoint *)

(* restore points used after the checkpoint stay at or above it (checkpoints are nested) *)
Definition above (n : N) (h : hop) : Prop := match h with HRb i => n <= i | _ => True end.

(* [ext s s'] : s' extends s: same environment, the log of s' ends with the log of s and undoing
   the extra entries gives back the maps of s *)
Definition ext (s s' : view) : Prop :=
  v_ts s' = v_ts s /\ v_base s' = v_base s /\ v_scope s' = v_scope s /\
  exists l, ops s' = l ++ ops s /\ undo_all l (pw_of s') = pw_of s.

Lemma ext_refl s : ext s s.
Proof. unfold ext. repeat split. exists []. auto. Qed.

Lemma ext_eff s s1 k nv s2 : ext s s1 -> view_ok s1 -> eff s1 k nv s2 -> ext s s2.
Proof.
  intros (H1 & H2 & H3 & l & Hl & Hu) Hok He.
  destruct (eff_ops _ _ _ _ He) as (o & Ho & _).
  unfold ext. rewrite (eff_ts _ _ _ _ He), (eff_base _ _ _ _ He), (eff_scope _ _ _ _ He).
  repeat split; auto. exists (o :: l). split.
  - rewrite Ho, Hl. reflexivity.
  - cbn [undo_all fold_left]. fold (undo_all l (undo_pw o (pw_of s2))).
    rewrite (eff_undo _ _ _ _ _ He Ho); [exact Hu|].
    apply (view_ok_inv _ Hok).
Qed.

Lemma ext_rollback s s1 n : ext s s1 -> op_index s <= n -> ext s (rollback s1 n).
Proof.
  intros (H1 & H2 & H3 & l & Hl & Hu) Hn.
  destruct (rollback_spec s1 n) as (G1 & G2 & G3 & Gops & Gpw).
  unfold ext. rewrite G1, G2, G3. repeat split; auto.
  assert (Hm : (pops s1 n <= length l)%nat).
  { unfold pops, op_index in *. rewrite Hl, app_length. lia. }
  exists (drop (pops s1 n) l). split.
  - rewrite Gops, Hl. apply drop_app_le. exact Hm.
  - rewrite Gpw, Hl, take_app_le by exact Hm.
    unfold undo_all in *. rewrite <- fold_left_app, take_drop. exact Hu.
Qed.

Lemma ext_step s s1 h : ext s s1 -> view_ok s1 -> above (op_index s) h -> ext s (fst (step s1 h)).
Proof.
  intros He Hok Hab. destruct h as [k|k v|k|n]; cbn [step].
  - exact He.
  - destruct (insert s1 k v) as [s2 [e|]] eqn:H; cbn [fst].
    + rewrite (insert_fail _ _ _ _ _ H). exact He.
    + destruct (decide (vis s1 k = Some v)) as [E|E].
      * rewrite (insert_noop _ _ _ _ H E). exact He.
      * apply (ext_eff _ _ _ _ _ He Hok (insert_effective _ _ _ _ H E)).
  - destruct (remove s1 k) as [s2 [e|]] eqn:H; cbn [fst].
    + destruct (remove_fail _ _ _ _ H) as [-> _]. exact He.
    + destruct (decide (vis s1 k = None)) as [E|E].
      * rewrite (remove_noop _ _ _ H E). exact He.
      * apply (ext_eff _ _ _ _ _ He Hok (remove_effective _ _ _ H E)).
  - apply ext_rollback; [exact He | exact Hab].
Qed.

Lemma ext_run h : forall s s1, ext s s1 -> view_ok s1 -> Forall (above (op_index s)) h ->
  ext s (fst (run s1 h)).
Proof.
  induction h as [|x h IH]; intros s s1 He Hok Hab; [exact He|].
  inversion Hab as [|? ? Hx Hh]; subst. rewrite run_cons. cbn [fst].
  apply IH; [apply ext_step; assumption | apply step_view_ok; exact Hok | exact Hh].
Qed.

Lemma ext_rollback_exact s s1 : ext s s1 ->
  ops (rollback s1 (op_index s)) = ops s /\ pw_of (rollback s1 (op_index s)) = pw_of s.
Proof.
  intros (H1 & H2 & H3 & l & Hl & Hu).
  destruct (rollback_spec s1 (op_index s)) as (_ & _ & _ & Gops & Gpw).
  assert (Hm : pops s1 (op_index s) = length l).
  { unfold pops, op_index. rewrite Hl, app_length. lia. }
  rewrite Gops, Gpw, Hm, Hl. split.
  - apply drop_app.
  - rewrite take_app. exact Hu.
Qed.

Lemma vis_of_pw s : forall k, vis s k = vis_of (v_ts s) (v_base s) (fst (pw_of s)) k.
Proof. reflexivity. Qed.

Theorem rollback_restores s h2 : view_ok s -> Forall (above (op_index s)) h2 ->
  let s' := rollback (fst (run s h2)) (op_index s) in
  pending s' = pending s /\ writes s' = writes s /\ ops s' = ops s /\ op_index s' = op_index s
  /\ (forall k, vis s' k = vis s k) /\ view_ok s'.
Proof.
  intros Hok Hab. cbn zeta.
  pose proof (ext_run h2 s s (ext_refl s) Hok Hab) as He.
  destruct (ext_rollback_exact _ _ He) as [Hops Hpw].
  assert (Hp : pending (rollback (fst (run s h2)) (op_index s)) = pending s)
    by (apply (f_equal fst) in Hpw; exact Hpw).
  assert (Hw : writes (rollback (fst (run s h2)) (op_index s)) = writes s)
    by (apply (f_equal snd) in Hpw; exact Hpw).
  destruct (rollback_spec (fst (run s h2)) (op_index s)) as (G1 & G2 & _).
  destruct (run_env h2 s) as (R1 & R2 & _).
  repeat split; auto.
  - unfold op_index at 1. rewrite Hops. reflexivity.
  - intros k. unfold vis. rewrite Hp, G1, G2, R1, R2. reflexivity.
  - apply rollback_view_ok. apply run_view_ok. exact Hok.
Qed.

(* ---------------------------------------------------------------- C04: commit *)

Lemma pending_iff_changed s k : view_ok s ->
  (is_Some (pending s !! k) <-> vis s k <> under s k).
Proof.
  intros Hok. destruct (view_ok_inv _ Hok) as (_ & I2 & _). unfold pw_of in I2. cbn [fst] in I2.
  unfold vis, vis_of. destruct (pending s !! k) as [ov|] eqn:E.
  - split; [intros _; apply (I2 _ _ E) | eauto].
  - split; [intros [? H]; discriminate H | intros H; exfalso; apply H; reflexivity].
Qed.

Lemma commit_lookup s k :
  ts_changed (commit s) !! k = match pending s !! k with
                               | Some ov => Some ov
                               | None => ts_changed (v_ts s) !! k
                               end.
Proof.
  unfold commit. cbn [ts_changed]. destruct (pending s !! k) as [ov|] eqn:E.
  - apply lookup_union_Some_l. exact E.
  - apply lookup_union_r. exact E.
Qed.

(* publishes exactly the keys whose visible value differs from the underlying state *)
Lemma commit_minimal s k : view_ok s ->
  ts_changed (commit s) !! k =
    if decide (vis s k = under s k) then ts_changed (v_ts s) !! k else Some (vis s k).
Proof.
  intros Hok. rewrite commit_lookup. pose proof (pending_iff_changed s k Hok) as H.
  unfold vis, vis_of in *. destruct (pending s !! k) as [ov|] eqn:E.
  - destruct (decide (ov = under s k)) as [D|D]; [|reflexivity].
    exfalso. apply (proj1 H); eauto.
  - destruct (decide (under_of (v_ts s) (v_base s) k = under s k)) as [D|D]; [reflexivity|].
    exfalso. apply D. reflexivity.
Qed.

(* the committed TState shows the view's visible map to every later view over the same storage *)
Lemma commit_under s k : under_of (commit s) (v_base s) k = vis s k.
Proof.
  unfold under_of at 1. rewrite commit_lookup. unfold vis, vis_of.
  destruct (pending s !! k); reflexivity.
Qed.

Lemma commit_new_view_vis s sc k : vis (new_view (commit s) sc (v_base s)) k = vis s k.
Proof.
  unfold vis at 1, vis_of, new_view. cbn [pending v_ts v_base]. rewrite lookup_empty. apply commit_under.
Qed.

Lemma commit_ops s : ts_ops (commit s) = ts_ops (v_ts s) + op_index s.
Proof. reflexivity. Qed.

(* ---------------------------------------------------------------- C04: refinement to a map with snapshots *)

Section Refine.
  Variables (ts : tstate) (base : gmap key val).

  Fixpoint stack_rel (pw : pwmaps) (l : list oprec) (st : list amap) : Prop :=
    match l, st with
    | [], [] => True
    | o :: l', m :: st' =>
        (forall k, m k = vis_of ts base (fst (undo_pw o pw)) k) /\ stack_rel (undo_pw o pw) l' st'
    | _, _ => False
    end.

  Lemma stack_rel_length l : forall pw st, stack_rel pw l st -> length st = length l.
  Proof.
    induction l as [|o l IH]; intros pw [|m st] H; cbn [stack_rel] in H; try contradiction; [reflexivity|].
    cbn [length]. f_equal. apply (IH _ _ (proj2 H)).
  Qed.

  Lemma a_pop_rel n : forall pw l st cur,
    stack_rel pw l st -> (forall k, cur k = vis_of ts base (fst pw) k) ->
    let '(c', st') := a_pop n cur st in
    stack_rel (undo_all (take n l) pw) (drop n l) st' /\
    (forall k, c' k = vis_of ts base (fst (undo_all (take n l) pw)) k).
  Proof.
    induction n as [|n IH]; intros pw l st cur Hst Hcur.
    - cbn [a_pop]. destruct st; rewrite take_0, drop_0; cbn [undo_all fold_left]; auto.
    - destruct l as [|o l], st as [|m st]; cbn [stack_rel] in Hst; try contradiction.
      + cbn [a_pop take drop undo_all fold_left stack_rel]. auto.
      + destruct Hst as [Hm Hst]. cbn [a_pop take drop undo_all fold_left].
        apply (IH _ _ _ _ Hst Hm).
  Qed.
End Refine.

(* the refinement relation between a view and the abstract map-with-snapshots *)
Definition refines (s : view) (a : astate) : Prop :=
  view_ok s /\ a_scope a = v_scope s /\ (forall k, a_cur a k = vis s k)
  /\ stack_rel (v_ts s) (v_base s) (pw_of s) (ops s) (a_stack a).

Definition a_init (ts : tstate) (sc : scope) (base : gmap key val) : astate :=
  mkA (under_of ts base) [] sc.

Lemma refines_init ts sc base : refines (new_view ts sc base) (a_init ts sc base).
Proof.
  unfold refines, a_init, new_view. cbn [a_scope a_cur a_stack v_scope ops v_ts v_base].
  split; [apply (view_ok_new ts sc base)|]. split; [reflexivity|]. split; [|exact I].
  intros k. unfold vis, vis_of. cbn [pending v_ts v_base]. rewrite lookup_empty. reflexivity.
Qed.

Lemma aupd_eq (m : amap) k ov : aupd m k ov k = ov.
Proof. unfold aupd. rewrite (proj2 (key_eqb_eq k k) eq_refl). reflexivity. Qed.

Lemma aupd_ne (m : amap) k ov k' : k <> k' -> aupd m k ov k' = m k'.
Proof.
  intros Hne. unfold aupd. destruct (key_eqb k k') eqn:E; [|reflexivity].
  apply key_eqb_eq in E. contradiction.
Qed.

Lemma refines_eff s a k nv s' : refines s a -> eff s k nv s' ->
  refines s' (mkA (aupd (a_cur a) k nv) (a_cur a :: a_stack a) (a_scope a)).
Proof.
  intros (Hok & Hsc & Hcur & Hst) He.
  destruct (eff_ops _ _ _ _ He) as (o & Ho & _).
  assert (Hundo : undo_pw o (pw_of s') = pw_of s).
  { apply (eff_undo _ _ _ _ _ He Ho). apply (view_ok_inv _ Hok). }
  unfold refines. cbn [a_scope a_cur a_stack].
  split; [apply (eff_view_ok _ _ _ _ He Hok)|].
  split; [rewrite (eff_scope _ _ _ _ He); exact Hsc|]. split.
  - intros k'. destruct (decide (k = k')) as [<-|Hne].
    + rewrite aupd_eq. symmetry. apply (eff_vis_k _ _ _ _ He).
    + rewrite (aupd_ne _ _ _ _ Hne), (eff_vis_ne _ _ _ _ _ He Hne). apply Hcur.
  - rewrite Ho, (eff_ts _ _ _ _ He), (eff_base _ _ _ _ He). cbn [stack_rel]. rewrite Hundo. split.
    + intros k'. rewrite Hcur. reflexivity.
    + exact Hst.
Qed.

Lemma refines_step s a h : refines s a ->
  snd (step s h) = snd (a_step a h) /\ refines (fst (step s h)) (fst (a_step a h)).
Proof.
  intros HR. pose proof HR as (Hok & Hsc & Hcur & Hst).
  destruct h as [k|k v|k|n]; cbn [step a_step].
  - (* get *)
    cbn [fst snd]. split; [|exact HR]. unfold get, a_get, check. rewrite Hsc, Hcur. reflexivity.
  - (* insert *)
    destruct (insert s k v) as [s' e] eqn:Hi. cbn [fst snd].
    unfold a_insert. rewrite Hsc, Hcur. fold (check s k pWrite). fold (check s k pAllocate).
    destruct e as [e|].
    + (* failing: same error, nothing changes *)
      pose proof (insert_fail _ _ _ _ _ Hi) as ->.
      destruct (insert_err_conds _ _ _ _ _ Hi) as [[-> [Hw|[Hv Ha]]]|[-> [Hw Hv]]].
      * rewrite Hw. cbn [negb fst snd]. auto.
      * assert (Hi' := Hi). unfold insert in Hi'.
        destruct (check s k pWrite); cbn [negb] in *; [|cbn [fst snd]; auto].
        destruct (verify_value k v); cbn [negb] in *; [|inversion Hi'].
        rewrite Hv, Ha. cbn [negb fst snd]. auto.
      * rewrite Hw, Hv. cbn [negb fst snd]. auto.
    + destruct (insert_ok_conds _ _ _ _ Hi) as (Hw & Hv & Ha). rewrite Hw, Hv. cbn [negb].
      destruct (decide (vis s k = Some v)) as [E|E].
      * pose proof (insert_noop _ _ _ _ Hi E) as ->. rewrite E, bytes_eqb_refl. cbn [fst snd]. auto.
      * pose proof (insert_effective _ _ _ _ Hi E) as He.
        destruct (vis s k) as [past|] eqn:Hvis.
        -- assert (Hb : bytes_eqb past v = false) by (apply bytes_eqb_neq; congruence).
           rewrite Hb. cbn [fst snd]. split; [reflexivity|]. rewrite <- Hsc. apply (refines_eff _ _ _ _ _ HR He).
        -- rewrite (Ha eq_refl). cbn [negb fst snd]. split; [reflexivity|].
           rewrite <- Hsc. apply (refines_eff _ _ _ _ _ HR He).
  - (* remove *)
    destruct (remove s k) as [s' e] eqn:Hr. cbn [fst snd].
    unfold a_remove. rewrite Hsc, Hcur. fold (check s k pWrite).
    destruct e as [e|].
    + destruct (remove_fail _ _ _ _ Hr) as (-> & -> & Hw). rewrite Hw. cbn [negb fst snd]. auto.
    + rewrite (remove_ok_conds _ _ _ Hr). cbn [negb].
      destruct (decide (vis s k = None)) as [E|E].
      * pose proof (remove_noop _ _ _ Hr E) as ->. rewrite E. cbn [fst snd]. auto.
      * pose proof (remove_effective _ _ _ Hr E) as He.
        destruct (vis s k) as [past|] eqn:Hvis; [|congruence].
        cbn [fst snd]. split; [reflexivity|]. rewrite <- Hsc. apply (refines_eff _ _ _ _ _ HR He).
  - (* rollback *)
    cbn [fst snd]. split; [reflexivity|].
    destruct (rollback_spec s n) as (G1 & G2 & G3 & Gops & Gpw).
    unfold a_rollback. rewrite (stack_rel_length _ _ _ _ _ Hst). fold (pops s n).
    pose proof (a_pop_rel (v_ts s) (v_base s) (pops s n) (pw_of s) (ops s) (a_stack a) (a_cur a) Hst Hcur) as HP.
    destruct (a_pop (pops s n) (a_cur a) (a_stack a)) as [c' st'].
    destruct HP as [HP1 HP2].
    unfold refines. cbn [a_scope a_cur a_stack].
    split; [apply rollback_view_ok; exact Hok|]. split; [rewrite G3; exact Hsc|]. split.
    + intros k. rewrite HP2. unfold vis. rewrite G1, G2.
      change (pending (rollback s n)) with (fst (pw_of (rollback s n))). rewrite Gpw. reflexivity.
    + rewrite G1, G2, Gops, Gpw. exact HP1.
Qed.

Lemma a_run_cons a x h : a_run a (x :: h) =
  (fst (a_run (fst (a_step a x)) h), snd (a_step a x) :: snd (a_run (fst (a_step a x)) h)).
Proof.
  cbn [a_run]. destruct (a_step a x) as [a1 r]. cbn [fst snd]. destruct (a_run a1 h). reflexivity.
Qed.

Theorem refines_run h : forall s a, refines s a ->
  snd (run s h) = snd (a_run a h) /\ refines (fst (run s h)) (fst (a_run a h)).
Proof.
  induction h as [|x h IH]; intros s a HR; [cbn; auto|].
  rewrite run_cons, a_run_cons. cbn [fst snd].
  destruct (refines_step s a x HR) as [Hr HR1].
  destruct (IH _ _ HR1) as [Hrs HR2]. rewrite Hr, Hrs. auto.
Qed.

(* ---------------------------------------------------------------- C05: confinement *)

Lemma not_write_not_pending s k : view_ok s -> scope_has (v_scope s) k pWrite = false ->
  pending s !! k = None.
Proof.
  intros Hok Hw. destruct (view_ok_inv _ Hok) as (_ & _ & I3 & _). unfold pw_of in I3. cbn [fst] in I3.
  destruct (pending s !! k) as [ov|] eqn:E; [|reflexivity].
  rewrite (I3 _ _ E) in Hw. discriminate Hw.
Qed.

Lemma not_write_vis_under s k : view_ok s -> scope_has (v_scope s) k pWrite = false ->
  vis s k = under s k.
Proof.
  intros Hok Hw. unfold vis, vis_of. rewrite (not_write_not_pending _ _ Hok Hw). reflexivity.
Qed.

(* no sequence of operations changes the visible value of a key that is not write-declared *)
Theorem write_confinement s h k : view_ok s -> scope_has (v_scope s) k pWrite = false ->
  vis (fst (run s h)) k = vis s k /\ pending (fst (run s h)) !! k = None.
Proof.
  intros Hok Hw. pose proof (run_view_ok h s Hok) as Hok'.
  destruct (run_env h s) as (E1 & E2 & E3).
  assert (Hw' : scope_has (v_scope (fst (run s h))) k pWrite = false) by (rewrite E3; exact Hw).
  split.
  - rewrite (not_write_vis_under _ _ Hok' Hw'), (not_write_vis_under _ _ Hok Hw).
    unfold under. rewrite E1, E2. reflexivity.
  - apply (not_write_not_pending _ _ Hok' Hw').
Qed.

(* two views that differ only below keys that are not read-declared *)
Definition agree (s1 s2 : view) : Prop :=
  v_scope s1 = v_scope s2 /\ pending s1 = pending s2 /\ ops s1 = ops s2 /\
  allocs s1 = allocs s2 /\ writes s1 = writes s2 /\
  (forall k, scope_has (v_scope s1) k pRead = true -> under s1 k = under s2 k).

Lemma agree_vis s1 s2 k : agree s1 s2 -> scope_has (v_scope s1) k pRead = true -> vis s1 k = vis s2 k.
Proof.
  intros (_ & Hp & _ & _ & _ & Hu) Hr. unfold vis, vis_of. rewrite Hp.
  destruct (pending s2 !! k); [reflexivity|]. apply (Hu _ Hr).
Qed.

Lemma agree_set_p s1 s2 p o a w : agree s1 s2 -> agree (set_p s1 p o a w) (set_p s2 p o a w).
Proof.
  intros (Hsc & _ & _ & _ & _ & Hu). unfold agree, set_p, under in *.
  cbn [v_scope pending ops allocs writes v_ts v_base]. repeat split; auto.
Qed.

Lemma agree_insert s1 s2 k v : agree s1 s2 ->
  snd (insert s1 k v) = snd (insert s2 k v) /\ agree (fst (insert s1 k v)) (fst (insert s2 k v)).
Proof.
  intros Hag. pose proof Hag as (Hsc & Hp & Ho & Ha & Hw & Hu).
  unfold insert, check. rewrite <- Hsc.
  destruct (scope_has (v_scope s1) k pWrite) eqn:HW; cbn [negb]; [|cbn [fst snd]; auto].
  pose proof (scope_has_write_read _ _ HW) as HR.
  destruct (verify_value k v); cbn [negb]; [|cbn [fst snd]; auto].
  unfold is_unchanged. rewrite <- (agree_vis _ _ _ Hag HR), <- (Hu _ HR), <- Ho, <- Ha, <- Hw, <- Hp.
  destruct (vis s1 k) as [past|].
  - destruct (bytes_eqb past v); [cbn [fst snd]; auto|].
    destruct (oval_eqb (under s1 k) (Some v)); cbn [fst snd]; (split; [reflexivity | apply agree_set_p; exact Hag]).
  - destruct (scope_has (v_scope s1) k pAllocate); cbn [negb]; [|cbn [fst snd]; auto].
    destruct (oval_eqb (under s1 k) (Some v)); cbn [fst snd]; (split; [reflexivity | apply agree_set_p; exact Hag]).
Qed.

Lemma agree_remove s1 s2 k : agree s1 s2 ->
  snd (remove s1 k) = snd (remove s2 k) /\ agree (fst (remove s1 k)) (fst (remove s2 k)).
Proof.
  intros Hag. pose proof Hag as (Hsc & Hp & Ho & Ha & Hw & Hu).
  unfold remove, check. rewrite <- Hsc.
  destruct (scope_has (v_scope s1) k pWrite) eqn:HW; cbn [negb]; [|cbn [fst snd]; auto].
  pose proof (scope_has_write_read _ _ HW) as HR.
  unfold is_unchanged. rewrite <- (agree_vis _ _ _ Hag HR), <- (Hu _ HR), <- Ho, <- Ha, <- Hw, <- Hp.
  destruct (vis s1 k) as [past|]; [|cbn [fst snd]; auto].
  destruct (oval_eqb (under s1 k) None); cbn [fst snd]; (split; [reflexivity | apply agree_set_p; exact Hag]).
Qed.

Lemma agree_get s1 s2 k : agree s1 s2 -> get s1 k = get s2 k.
Proof.
  intros Hag. pose proof Hag as (Hsc & _). unfold get, check. rewrite <- Hsc.
  destruct (scope_has (v_scope s1) k pRead) eqn:HR; cbn [negb]; [|reflexivity].
  rewrite (agree_vis _ _ _ Hag HR). reflexivity.
Qed.

Lemma agree_rollback s1 s2 n : agree s1 s2 -> agree (rollback s1 n) (rollback s2 n).
Proof.
  intros Hag. pose proof Hag as (Hsc & Hp & Ho & Ha & Hw & Hu).
  unfold rollback. rewrite <- Ho, <- Hp, <- Ha, <- Hw.
  destruct (unwind (length (ops s1) - N.to_nat n) (ops s1) (pending s1, allocs s1, writes s1)) as [l [[p a] w]].
  apply agree_set_p. exact Hag.
Qed.

(* one operation: same observable result, and the two views still agree *)
Lemma agree_step s1 s2 h : agree s1 s2 ->
  snd (step s1 h) = snd (step s2 h) /\ agree (fst (step s1 h)) (fst (step s2 h)).
Proof.
  intros Hag. destruct h as [k|k v|k|n]; cbn [step].
  - cbn [fst snd]. rewrite (agree_get _ _ _ Hag). auto.
  - destruct (agree_insert s1 s2 k v Hag) as [H1 H2].
    destruct (insert s1 k v), (insert s2 k v). cbn [fst snd] in *. rewrite H1. auto.
  - destruct (agree_remove s1 s2 k Hag) as [H1 H2].
    destruct (remove s1 k), (remove s2 k). cbn [fst snd] in *. rewrite H1. auto.
  - cbn [fst snd]. split; [reflexivity | apply agree_rollback; exact Hag].
Qed.

Theorem agree_run h : forall s1 s2, agree s1 s2 ->
  snd (run s1 h) = snd (run s2 h) /\ agree (fst (run s1 h)) (fst (run s2 h)).
Proof.
  induction h as [|x h IH]; intros s1 s2 Hag; [cbn; auto|].
  rewrite !run_cons. cbn [fst snd].
  destruct (agree_step s1 s2 x Hag) as [Hr Hag1].
  destruct (IH _ _ Hag1) as [Hrs Hag2]. rewrite Hr, Hrs. auto.
Qed.

Lemma agree_new ts1 ts2 sc base1 base2 :
  (forall k, scope_has sc k pRead = true -> under_of ts1 base1 k = under_of ts2 base2 k) ->
  agree (new_view ts1 sc base1) (new_view ts2 sc base2).
Proof. intros H. unfold agree, new_view, under. cbn. repeat split; auto. Qed.

(* ---------------------------------------------------------------- C40: values in the view respect the chunk bound *)

Lemma pending_values_bounded s k v : view_ok s -> pending s !! k = Some (Some v) -> verify_value k v = true.
Proof.
  intros Hok. destruct (view_ok_inv _ Hok) as (_ & _ & _ & I4). apply I4.
Qed.

Lemma short_key_never_written s k v : view_ok s -> (length k < 2)%nat -> pending s !! k <> Some (Some v).
Proof.
  intros Hok Hk E. pose proof (pending_values_bounded _ _ _ Hok E) as H.
  rewrite (verify_value_short _ _ Hk) in H. discriminate H.
Qed.

(* ---------------------------------------------------------------- statements re-exported by Props/C04.v, C05.v, C40.v *)

Definition reachable (s : view) : Prop :=
  exists ts sc base h, s = fst (run (new_view ts sc base) h).

Lemma reachable_ok s : reachable s -> view_ok s.
Proof. intros (ts & sc & base & h & ->). apply run_view_ok. apply view_ok_new. Qed.

Lemma get_vis s k : scope_has (v_scope s) k pRead = true ->
  get s k = match vis s k with Some v => inl v | None => inr ENotFound end.
Proof. intros H. unfold get, check. rewrite H. reflexivity. Qed.

Lemma get_denied s k : scope_has (v_scope s) k pRead = false -> get s k = inr EPerm.
Proof. intros H. unfold get, check. rewrite H. reflexivity. Qed.

Lemma get_needs_read s k : get s k <> inr EPerm -> scope_has (v_scope s) k pRead = true.
Proof.
  intros H. destruct (scope_has (v_scope s) k pRead) eqn:E; [reflexivity|].
  exfalso. apply H. apply get_denied. exact E.
Qed.

Lemma insert_denied s k v : scope_has (v_scope s) k pWrite = false -> insert s k v = (s, Some EPerm).
Proof. intros H. unfold insert, check. rewrite H. reflexivity. Qed.

Lemma remove_denied s k : scope_has (v_scope s) k pWrite = false -> remove s k = (s, Some EPerm).
Proof. intros H. unfold remove, check. rewrite H. reflexivity. Qed.

Lemma create_denied s k v : scope_has (v_scope s) k pAllocate = false -> vis s k = None ->
  exists e, insert s k v = (s, Some e).
Proof.
  intros Ha Hv. unfold insert, check. rewrite Hv, Ha.
  destruct (scope_has (v_scope s) k pWrite); cbn [negb]; [|eauto].
  destruct (verify_value k v); cbn [negb]; eauto.
Qed.

Lemma fresh_view_vis ts sc base k :
  vis (new_view ts sc base) k = match ts_changed ts !! k with Some ov => ov | None => base !! k end.
Proof. unfold vis, vis_of, new_view. cbn [pending v_ts v_base]. rewrite lookup_empty. reflexivity. Qed.

Lemma refines_index s a : refines s a -> op_index s = a_index a.
Proof.
  intros (_ & _ & _ & Hst). unfold op_index, a_index. rewrite (stack_rel_length _ _ _ _ _ Hst). reflexivity.
Qed.

Lemma refines_new_run ts sc base h :
  let s := fst (run (new_view ts sc base) h) in
  let a := fst (a_run (a_init ts sc base) h) in
  snd (run (new_view ts sc base) h) = snd (a_run (a_init ts sc base) h)
  /\ (forall k, vis s k = a_cur a k) /\ op_index s = a_index a.
Proof.
  cbn zeta. destruct (refines_run h _ _ (refines_init ts sc base)) as [Hr HR].
  split; [exact Hr|]. split.
  - intros k. destruct HR as (_ & _ & Hc & _). symmetry. apply Hc.
  - apply refines_index. exact HR.
Qed.

Lemma insert_chunk_bound s k v s' : insert s k v = (s', None) ->
  exists n c, num_chunks v = Some n /\ max_chunks k = Some c /\ n <= c.
Proof.
  intros H. destruct (insert_ok_conds _ _ _ _ H) as (_ & Hv & _). apply verify_value_iff. exact Hv.
Qed.

Lemma insert_short_key s k v : (length k < 2)%nat -> snd (insert s k v) <> None.
Proof.
  intros Hk E. destruct (insert s k v) as [s' e] eqn:H. cbn [snd] in E. subst e.
  destruct (insert_ok_conds _ _ _ _ H) as (_ & Hv & _).
  rewrite (verify_value_short _ _ Hk) in Hv. discriminate Hv.
Qed.

(* in a scope built by Keys.Add every operation on a malformed key is denied *)
Lemma short_key_denied decls m s k : keys_add_all ∅ decls = Some m -> v_scope s = ScopeKeys m ->
  (length k < 2)%nat ->
  get s k = inr EPerm /\ (forall v, insert s k v = (s, Some EPerm)) /\ remove s k = (s, Some EPerm).
Proof.
  intros Hm Hsc Hk.
  assert (Hr : scope_has (v_scope s) k pRead = false).
  { rewrite Hsc. cbn [scope_has]. apply (keys_add_all_short _ _ _ _ Hm Hk). discriminate. }
  assert (Hw : scope_has (v_scope s) k pWrite = false).
  { rewrite Hsc. cbn [scope_has]. apply (keys_add_all_short _ _ _ _ Hm Hk). discriminate. }
  split; [apply get_denied; exact Hr|]. split; [intros v; apply insert_denied; exact Hw|].
  apply remove_denied; exact Hw.
Qed.
