(* Proofs about Model/Units.v (C12): the units are the exact sums or an error, never a wrapped value. *)
From Coq Require Import List NArith ZArith Bool Lia ZifyN ZifyNat ZifyBool Permutation.
Import ListNotations.
From HV Require Import Lib.Bytes Lib.U64 Model.Fees Model.Units.
Local Open Scope N_scope.

Definition sumN (l : list N) : N := fold_right N.add 0 l.

(* ------------------------------------------------------------------ accumulators *)
Lemma fold_oadd_None l : fold_left oadd l None = None.
Proof. induction l as [|x l IH]; cbn [fold_left oadd]; [reflexivity | exact IH]. Qed.

Lemma fold_oadd_Some l b v :
  fold_left oadd l (Some b) = Some v <-> v = b + sumN l /\ (l = [] \/ v <= MaxU64).
Proof.
  revert b. induction l as [|x l IH]; intros b; cbn [fold_left sumN fold_right].
  - split; [intros H; inversion H; subst; split; [lia | left; reflexivity] | intros [-> _]; f_equal; lia].
  - cbn [oadd]. destruct (add_chk b x) as [s|] eqn:E.
    + apply add_chk_Some in E. destruct E as [-> Hs]. rewrite IH. fold (sumN l). split.
      * intros [-> [-> | Hv]]; split; try lia; right; cbn [sumN fold_right]; lia.
      * intros [-> [Hd | Hv]]; [discriminate Hd|]. split; [lia|]. right. lia.
    + apply add_chk_None in E. rewrite fold_oadd_None. fold (sumN l). split; [discriminate|].
      intros [-> [Hd | Hv]]; [discriminate Hd | lia].
Qed.

Lemma op_value_fold_add l o : op_value (fold_left op_add l o) = fold_left oadd l (op_value o).
Proof.
  revert o. induction l as [|x l IH]; intros o; cbn [fold_left]; [reflexivity|].
  rewrite IH, op_value_add. reflexivity.
Qed.

(* compute units: base + sum of the action units + auth units, or overflow *)
Lemma compute_units_spec base acu auth v :
  op_value (op_add (fold_left op_add acu (op_new base)) auth) = Some v <->
  v = base + sumN acu + auth /\ v <= MaxU64.
Proof.
  rewrite op_value_add, op_value_fold_add, op_value_new.
  destruct (fold_left oadd acu (Some base)) as [s|] eqn:E; cbn [oadd].
  - apply fold_oadd_Some in E. destruct E as [-> _]. rewrite add_chk_Some. split; intros [-> H]; split; lia.
  - split; [discriminate|]. intros [-> Hv].
    assert (Hn : forall s, fold_left oadd acu (Some base) <> Some s) by (intros s Hs; rewrite Hs in E; discriminate E).
    exfalso. apply (Hn (base + sumN acu)). apply fold_oadd_Some. split; [reflexivity|]. right. lia.
Qed.

(* ------------------------------------------------------------------ the storage loop *)
Definition chunks (k : bytes) : N := match max_chunks k with Some c => c | None => 0 end.
Definition key_cost (kc vc : N) (k : skey) : N := kc + chunks (fst k) * vc.
Definition keys_valid (keys : list skey) : Prop := forall k, In k keys -> key_valid (fst k) = true.

Lemma max_chunks_valid k : key_valid k = true -> max_chunks k = Some (chunks k).
Proof.
  unfold key_valid, chunks, max_chunks. intros H. apply Nat.leb_le in H.
  destruct (Nat.ltb_spec (length k) 2); [lia|]. reflexivity.
Qed.

(* one accumulator, as an option: Some v = exact value so far *)
Definition ostep (kc vc : N) (o : option N) (k : skey) : option N := omuladd (oadd o kc) (chunks (fst k)) vc.

Lemma fold_ostep_None kc vc keys : fold_left (ostep kc vc) keys None = None.
Proof. induction keys as [|k keys IH]; cbn [fold_left ostep oadd omuladd]; [reflexivity | exact IH]. Qed.

Lemma fold_ostep_Some kc vc keys a v :
  a <= MaxU64 ->
  (fold_left (ostep kc vc) keys (Some a) = Some v <->
   v = a + sumN (map (key_cost kc vc) keys) /\ v <= MaxU64).
Proof.
  revert a. induction keys as [|k keys IH]; intros a Ha; cbn [fold_left map sumN fold_right].
  - split; [intros H; inversion H; subst; split; lia | intros [-> _]; f_equal; lia].
  - fold (sumN (map (key_cost kc vc) keys)). unfold ostep at 2. cbn [oadd].
    destruct (add_chk a kc) as [s|] eqn:E1.
    + apply add_chk_Some in E1. destruct E1 as [-> Hs]. cbn [omuladd].
      destruct (mul_chk (chunks (fst k)) vc) as [p|] eqn:E2.
      * apply mul_chk_Some in E2. destruct E2 as [-> Hp].
        destruct (add_chk (a + kc) (chunks (fst k) * vc)) as [t|] eqn:E3.
        -- apply add_chk_Some in E3. destruct E3 as [-> Ht]. rewrite IH by exact Ht. unfold key_cost.
           split; intros [-> H]; split; lia.
        -- apply add_chk_None in E3. rewrite fold_ostep_None. unfold key_cost. split; [discriminate|]. intros [-> H]. lia.
      * apply mul_chk_None in E2. rewrite fold_ostep_None. unfold key_cost. split; [discriminate|]. intros [-> H]. lia.
    + apply add_chk_None in E1. cbn [omuladd]. rewrite fold_ostep_None. unfold key_cost. split; [discriminate|]. intros [-> H]. lia.
Qed.

Lemma storage_loop_spec r keys ro ao wo :
  keys_valid keys ->
  exists ro' ao' wo', storage_loop r keys ro ao wo = Some (ro', ao', wo') /\
    op_value ro' = fold_left (ostep (ur_key_read r) (ur_val_read r)) keys (op_value ro) /\
    op_value ao' = fold_left (ostep (ur_key_alloc r) (ur_val_alloc r)) keys (op_value ao) /\
    op_value wo' = fold_left (ostep (ur_key_write r) (ur_val_write r)) keys (op_value wo).
Proof.
  revert ro ao wo. induction keys as [|[k p] keys IH]; intros ro ao wo Hv; cbn [storage_loop fold_left].
  - exists ro, ao, wo. repeat split; reflexivity.
  - assert (Hk : key_valid k = true) by (apply (Hv (k, p)); left; reflexivity).
    rewrite (max_chunks_valid k Hk).
    destruct (IH (op_muladd (op_add ro (ur_key_read r)) (chunks k) (ur_val_read r))
                 (op_muladd (op_add ao (ur_key_alloc r)) (chunks k) (ur_val_alloc r))
                 (op_muladd (op_add wo (ur_key_write r)) (chunks k) (ur_val_write r)))
      as [ro' [ao' [wo' [Hs [H1 [H2 H3]]]]]].
    + intros x Hx. apply Hv. right. exact Hx.
    + exists ro', ao', wo'. split; [exact Hs|].
      rewrite H1, H2, H3, !op_value_muladd, !op_value_add. unfold ostep. cbn [fst]. repeat split; reflexivity.
Qed.

(* ------------------------------------------------------------------ merging the declared keys *)
Lemma keys_or_valid m k p : keys_valid m -> key_valid k = true -> keys_valid (keys_or m k p).
Proof.
  intros Hm Hk. induction m as [|[k' p'] m IH]; cbn [keys_or].
  - intros x [<-|[]]. exact Hk.
  - destruct (bytes_eqb k' k) eqn:E.
    + intros x [<-|Hx]; [cbn [fst]; apply (Hm (k', p')); left; reflexivity | apply Hm; right; exact Hx].
    + intros x [<-|Hx]; [apply (Hm (k', p')); left; reflexivity|].
      apply IH; [|exact Hx]. intros y Hy. apply Hm. right. exact Hy.
Qed.

Lemma keys_add_all_valid l m m' : keys_valid m -> keys_add_all m l = Some m' -> keys_valid m'.
Proof.
  revert m. induction l as [|[k p] l IH]; intros m Hm H; cbn [keys_add_all] in H.
  - inversion H; subst. exact Hm.
  - unfold keys_add in H. cbn [fst snd] in H. destruct (key_valid k) eqn:Ek; [|discriminate H].
    eapply IH; [|exact H]. apply keys_or_valid; assumption.
Qed.

Lemma state_keys_from_valid actions sponsor m m' :
  keys_valid m -> state_keys_from m actions sponsor = Some m' -> keys_valid m'.
Proof.
  revert m. induction actions as [|a rest IH]; intros m Hm H; cbn [state_keys_from] in H.
  - eapply keys_add_all_valid; eassumption.
  - destruct (keys_add_all m a) as [m1|] eqn:E; [|discriminate H].
    eapply IH; [|exact H]. eapply keys_add_all_valid; eassumption.
Qed.

Lemma state_keys_valid actions sponsor keys : state_keys actions sponsor = Some keys -> keys_valid keys.
Proof. apply state_keys_from_valid. intros k []. Qed.

(* the merged map has each key once *)
Definition key_names (m : list skey) : list bytes := map fst m.

Lemma keys_or_names m k p :
  NoDup (key_names m) ->
  NoDup (key_names (keys_or m k p)) /\
  (forall x, In x (key_names (keys_or m k p)) <-> x = k \/ In x (key_names m)).
Proof.
  induction m as [|[k' p'] m IH]; intros Hnd; cbn [keys_or key_names map].
  - split; [repeat constructor; intros [] | intros x; cbn [In]; split; [intros [<-|[]]; auto | intros [->|[]]; auto]].
  - cbn [key_names map fst] in Hnd. inversion Hnd as [|? ? Hn Hnd']; subst.
    destruct (bytes_eqb k' k) eqn:E.
    + apply bytes_eqb_eq in E. subst k'. cbn [key_names map fst]. split; [constructor; assumption|].
      intros x. cbn [In]. split; [intros [->|H]; auto | intros [->|[->|H]]; auto].
    + destruct (IH Hnd') as [H1 H2]. cbn [key_names map fst]. split.
      * constructor; [|exact H1]. intros Hin. apply H2 in Hin. destruct Hin as [->|Hin]; [|contradiction].
        assert (bytes_eqb k k = true) by (apply bytes_eqb_eq; reflexivity). congruence.
      * intros x. cbn [In]. rewrite H2. tauto.
Qed.

(* ------------------------------------------------------------------ the theorem *)
Definition exact_units (size : N) (r : unit_rules) (acu : list N) (auth : N) (keys : list skey) : dims :=
  [ size;
    ur_base r + sumN acu + auth;
    sumN (map (key_cost (ur_key_read r) (ur_val_read r)) keys);
    sumN (map (key_cost (ur_key_alloc r) (ur_val_alloc r)) keys);
    sumN (map (key_cost (ur_key_write r) (ur_val_write r)) keys) ].

Definition all_u64 (d : dims) : Prop := forall k, (1 <= k < 5)%nat -> dget d k <= MaxU64.

Theorem tx_units_exact size r acu auth akeys skeys :
  match state_keys akeys skeys with
  | Some keys =>
      let u := exact_units size r acu auth keys in
      (all_u64 u -> tx_units size r acu auth akeys skeys = (ERR_NONE, u)) /\
      (~ all_u64 u -> tx_units size r acu auth akeys skeys = (ERR_OVERFLOW, dzero))
  | None =>
      (ur_base r + sumN acu + auth <= MaxU64 -> tx_units size r acu auth akeys skeys = (ERR_INVALID_KEY, dzero)) /\
      (MaxU64 < ur_base r + sumN acu + auth -> tx_units size r acu auth akeys skeys = (ERR_OVERFLOW, dzero))
  end.
Proof.
  unfold tx_units.
  set (cu := op_value (op_add (fold_left op_add acu (op_new (ur_base r))) auth)).
  assert (Hcu : forall v, cu = Some v <-> v = ur_base r + sumN acu + auth /\ v <= MaxU64)
    by (intros v; apply compute_units_spec).
  destruct (state_keys akeys skeys) as [keys|] eqn:Ek.
  - assert (Hvalid := state_keys_valid _ _ _ Ek).
    destruct (storage_loop_spec r keys (op_new 0) (op_new 0) (op_new 0) Hvalid) as [ro [ao [wo [Hs [H1 [H2 H3]]]]]].
    rewrite Hs, H1, H2, H3, !op_value_new.
    assert (H0 : 0 <= MaxU64) by (unfold MaxU64; lia).
    pose proof (fun v => fold_ostep_Some (ur_key_read r) (ur_val_read r) keys 0 v H0) as Hr.
    pose proof (fun v => fold_ostep_Some (ur_key_alloc r) (ur_val_alloc r) keys 0 v H0) as Ha.
    pose proof (fun v => fold_ostep_Some (ur_key_write r) (ur_val_write r) keys 0 v H0) as Hw.
    cbv zeta. unfold all_u64, exact_units.
    set (CU := ur_base r + sumN acu + auth) in *.
    set (RD := sumN (map (key_cost (ur_key_read r) (ur_val_read r)) keys)) in *.
    set (AL := sumN (map (key_cost (ur_key_alloc r) (ur_val_alloc r)) keys)) in *.
    set (WR := sumN (map (key_cost (ur_key_write r) (ur_val_write r)) keys)) in *.
    assert (Hall : (forall k, (1 <= k < 5)%nat -> dget [size; CU; RD; AL; WR] k <= MaxU64) <->
                   CU <= MaxU64 /\ RD <= MaxU64 /\ AL <= MaxU64 /\ WR <= MaxU64).
    { split.
      - intros H. pose proof (H 1%nat) as A1. pose proof (H 2%nat) as A2. pose proof (H 3%nat) as A3. pose proof (H 4%nat) as A4.
        cbn in A1, A2, A3, A4. repeat split; [apply A1|apply A2|apply A3|apply A4]; lia.
      - intros [B1 [B2 [B3 B4]]] k Hk. unfold dget.
        destruct k as [|[|[|[|[|k]]]]]; cbn [nth]; try lia; assumption. }
    rewrite Hall. clear Hall.
    destruct cu as [c|] eqn:Ec.
    + destruct (proj1 (Hcu c) eq_refl) as [-> Hc].
      destruct (fold_left (ostep (ur_key_read r) (ur_val_read r)) keys (Some 0)) as [rd|] eqn:Er.
      * destruct (proj1 (Hr rd) eq_refl) as [Erd Hrd]. rewrite N.add_0_l in Erd. subst rd.
        destruct (fold_left (ostep (ur_key_alloc r) (ur_val_alloc r)) keys (Some 0)) as [al|] eqn:Eal.
        -- destruct (proj1 (Ha al) eq_refl) as [Eal' Hal]. rewrite N.add_0_l in Eal'. subst al.
           destruct (fold_left (ostep (ur_key_write r) (ur_val_write r)) keys (Some 0)) as [wr|] eqn:Ewr.
           ++ destruct (proj1 (Hw wr) eq_refl) as [Ewr' Hwr]. rewrite N.add_0_l in Ewr'. subst wr.
              split; [reflexivity|]. intros Hn. exfalso. apply Hn. auto.
           ++ split; [|reflexivity]. intros [_ [_ [_ B4]]]. exfalso.
              assert (@None N = Some WR) as Hbad; [|discriminate Hbad]. apply Hw. split; [lia | exact B4].
        -- split; [|reflexivity]. intros [_ [_ [B3 _]]]. exfalso.
           assert (@None N = Some AL) as Hbad; [|discriminate Hbad]. apply Ha. split; [lia | exact B3].
      * split; [|reflexivity]. intros [_ [B2 _]]. exfalso.
        assert (@None N = Some RD) as Hbad; [|discriminate Hbad]. apply Hr. split; [lia | exact B2].
    + split; [|reflexivity]. intros [B1 _]. exfalso.
      assert (@None N = Some CU) as Hbad; [|discriminate Hbad]. apply Hcu. split; [reflexivity | exact B1].
  - destruct cu as [c|] eqn:Ec.
    + destruct (proj1 (Hcu c) eq_refl) as [-> Hc]. split; [reflexivity|]. intros H. lia.
    + split; [|reflexivity]. intros H. exfalso.
      assert (@None N = Some (ur_base r + sumN acu + auth)) as Hbad; [|discriminate Hbad]. apply Hcu. split; [reflexivity | exact H].
Qed.

(* state_keys fails exactly when some declared key is malformed *)
Lemma keys_add_all_None l m : keys_add_all m l = None <-> exists kp, In kp l /\ key_valid (fst kp) = false.
Proof.
  revert m. induction l as [|kp l IH]; intros m; cbn [keys_add_all].
  - split; [discriminate | intros [x [[] _]]].
  - unfold keys_add. destruct (key_valid (fst kp)) eqn:E.
    + rewrite IH. split; intros [x [Hx Hv]]; exists x; [split; [right; exact Hx | exact Hv]|].
      destruct Hx as [<-|Hx]; [congruence | split; assumption].
    + split; [intros _; exists kp; split; [left; reflexivity | exact E] | reflexivity].
Qed.

Lemma state_keys_from_None actions sponsor m :
  state_keys_from m actions sponsor = None <->
  exists kp, In kp (concat actions ++ sponsor) /\ key_valid (fst kp) = false.
Proof.
  revert m. induction actions as [|a rest IH]; intros m; cbn [state_keys_from concat app].
  - apply keys_add_all_None.
  - destruct (keys_add_all m a) as [m1|] eqn:E.
    + rewrite IH. split; intros [x [Hx Hv]]; exists x; (split; [|exact Hv]).
      * rewrite <- app_assoc. apply in_or_app. right. exact Hx.
      * rewrite <- app_assoc in Hx. apply in_app_or in Hx. destruct Hx as [Hx|Hx]; [|exact Hx].
        exfalso. assert (Hn : keys_add_all m a = None) by (apply keys_add_all_None; exists x; auto). congruence.
    + split; [|reflexivity]. intros _. apply keys_add_all_None in E. destruct E as [x [Hx Hv]].
      exists x. split; [|exact Hv]. rewrite <- app_assoc. apply in_or_app. left. exact Hx.
Qed.

(* each declared key appears exactly once in the merged map *)
Lemma keys_add_all_names l m m' :
  NoDup (key_names m) -> keys_add_all m l = Some m' ->
  NoDup (key_names m') /\ (forall x, In x (key_names m') <-> In x (key_names m) \/ In x (map fst l)).
Proof.
  revert m. induction l as [|[k p] l IH]; intros m Hnd H; cbn [keys_add_all] in H.
  - inversion H; subst. split; [exact Hnd|]. intros x. cbn [map In]. tauto.
  - unfold keys_add in H. cbn [fst snd] in H. destruct (key_valid k); [|discriminate H].
    destruct (keys_or_names m k p Hnd) as [H1 H2].
    destruct (IH _ H1 H) as [H3 H4]. split; [exact H3|]. intros x. rewrite H4, H2. cbn [map In fst]. split.
    + intros [[->|Hx]|Hx]; auto.
    + intros [Hx|[<-|Hx]]; auto.
Qed.

Lemma state_keys_from_names actions sponsor m m' :
  NoDup (key_names m) -> state_keys_from m actions sponsor = Some m' ->
  NoDup (key_names m') /\
  (forall x, In x (key_names m') <-> In x (key_names m) \/ In x (map fst (concat actions ++ sponsor))).
Proof.
  revert m. induction actions as [|a rest IH]; intros m Hnd H; cbn [state_keys_from concat app] in *.
  - apply keys_add_all_names; assumption.
  - destruct (keys_add_all m a) as [m1|] eqn:E; [|discriminate H].
    destruct (keys_add_all_names _ _ _ Hnd E) as [H1 H2].
    destruct (IH _ H1 H) as [H3 H4]. split; [exact H3|]. intros x. rewrite H4, H2.
    rewrite <- app_assoc, !map_app, !in_app_iff. tauto.
Qed.

(* the result does not depend on the iteration order over the merged keys (Go iterates over a map) *)
Lemma sumN_perm a b : Permutation a b -> sumN a = sumN b.
Proof. unfold sumN. induction 1; cbn [fold_right] in *; lia. Qed.

Lemma exact_units_perm size r acu auth keys keys' :
  Permutation keys keys' -> exact_units size r acu auth keys = exact_units size r acu auth keys'.
Proof.
  intros H. unfold exact_units.
  rewrite (sumN_perm _ _ (Permutation_map (key_cost (ur_key_read r) (ur_val_read r)) H)).
  rewrite (sumN_perm _ _ (Permutation_map (key_cost (ur_key_alloc r) (ur_val_alloc r)) H)).
  rewrite (sumN_perm _ _ (Permutation_map (key_cost (ur_key_write r) (ur_val_write r)) H)).
  reflexivity.
Qed.
