(* Gen_equiv.v — the GENERATED definitions of Gen/Leaf.v (regenerated from the Go sources by
   harness/go2coq) are equal, for ALL inputs in the range of their Go types, to the hand-written
   model functions that the property theorems are stated about.

   A semantic change of one of the translated Go functions changes the corresponding definition
   of Gen/Leaf.v and makes the lemma below fail to compile, whether or not a differential test
   happens to hit a distinguishing input.

   Representation: generated code works over [Z] and [list Z]; the models over [N] and [list N].
   [zs] converts byte strings / arrays.  Go results (v, ok) correspond to [option] via [ok_pair];
   results (v, err) via [err_pair].  A generated function that can panic returns [option]; the
   lemmas show [Some] (no panic) under the stated hypotheses.

   Hypotheses are only what the Go types guarantee: integers within the range of their type,
   len(x) < 2^63, arrays of their declared length. *)
From Coq Require Import List NArith ZArith Bool Lia ZifyN ZifyNat ZifyBool.
Import ListNotations.
From HV Require Import Lib.Bytes Lib.U64 Model.Fees Model.Prefixes Model.ValidityWindow Model.TxStatic Model.Estimate Model.Units Model.Keys.
From HV Require Import Gen.Prelude Gen.Leaf.
Local Open Scope Z_scope.

(* ------------------------------------------------------------------ conversions *)
Definition zs (l : list N) : list Z := map Z.of_N l.

Definition ok_pair (o : option N) : Z * bool :=
  match o with Some c => (Z.of_N c, true) | None => (0, false) end.

Definition in_i64 (x : Z) : Prop := - 2 ^ 63 <= x < 2 ^ 63.
Definition in_u (n : Z) (x : Z) : Prop := 0 <= x < 2 ^ n.
Definition len_ok {A : Type} (l : list A) : Prop := Z.of_nat (length l) < 2 ^ 63.

(* ------------------------------------------------------------------ prelude facts *)
Lemma wrap_i64_small x : in_i64 x -> wrap_i64 x = x.
Proof.
  unfold in_i64, wrap_i64, wrap_i. intros H.
  change (2 ^ (64 - 1)) with 9223372036854775808 in *. change (2 ^ 63) with 9223372036854775808 in *.
  change (2 ^ 64) with 18446744073709551616.
  rewrite Z.mod_small by lia. lia.
Qed.

Lemma wrap_u_small n x : 0 <= n -> in_u n x -> wrap_u n x = x.
Proof. unfold in_u, wrap_u. intros Hn H. apply Z.mod_small. lia. Qed.

Lemma wrap_u64_small x : 0 <= x < 2 ^ 64 -> wrap_u64 x = x.
Proof. intros H. apply Z.mod_small. exact H. Qed.

Lemma go_len_zs l : go_len (zs l) = Z.of_nat (length l).
Proof. unfold go_len, zs. rewrite map_length. reflexivity. Qed.

Lemma go_len_nonneg {A} (l : list A) : 0 <= go_len l.
Proof. unfold go_len. lia. Qed.

Lemma zs_app a b : zs (a ++ b) = zs a ++ zs b.
Proof. apply map_app. Qed.

Lemma skipn_app_exact {A} (a b : list A) n : n = length a -> skipn n (a ++ b) = b.
Proof.
  intros ->. rewrite skipn_app, skipn_all, Nat.sub_diag. reflexivity.
Qed.

Lemma go_slice_suffix {A} (a b : list A) :
  go_slice (a ++ b) (Z.of_nat (length a)) (Z.of_nat (length (a ++ b))) = b.
Proof.
  unfold go_slice. rewrite Nat2Z.id, (skipn_app_exact a b) by reflexivity.
  rewrite app_length.
  replace (Z.to_nat (Z.of_nat (length a + length b) - Z.of_nat (length a))) with (length b) by lia.
  apply firstn_all.
Qed.

(* a key of length >= 2 ends in two bytes *)
Lemma split_last2 {A} (k : list A) : (2 <= length k)%nat ->
  exists pre hi lo, k = pre ++ [hi; lo].
Proof.
  intros H. destruct (rev k) as [|lo [|hi r]] eqn:E.
  - apply (f_equal (@length A)) in E. rewrite rev_length in E. cbn in E. lia.
  - apply (f_equal (@length A)) in E. rewrite rev_length in E. cbn in E. lia.
  - exists (rev r), hi, lo. rewrite <- (rev_involutive k), E. cbn [rev]. rewrite <- app_assoc. reflexivity.
Qed.

(* ------------------------------------------------------------------ keys/keys.go *)

Lemma keys_Valid_equiv (k : key) : keys_Valid (zs k) = valid k.
Proof.
  unfold keys_Valid, valid. rewrite go_len_zs.
  destruct (Nat.leb_spec 2 (length k)); lia.
Qed.

Lemma max_chunks_app2 pre hi lo : max_chunks (pre ++ [hi; lo]) = Some (hi * 256 + lo)%N.
Proof. unfold max_chunks. rewrite rev_app_distr. reflexivity. Qed.

Lemma max_chunks_short' k : (length k < 2)%nat -> max_chunks k = None.
Proof.
  intros H. unfold max_chunks. destruct (rev k) as [|lo [|hi r]] eqn:E; try reflexivity.
  apply (f_equal (@length N)) in E. rewrite rev_length in E. cbn in E. lia.
Qed.

Lemma go_slice_suffix' {A} (a b : list A) lo hi :
  lo = Z.of_nat (length a) -> hi = Z.of_nat (length a + length b) -> go_slice (a ++ b) lo hi = b.
Proof. intros -> ->. rewrite <- app_length. apply go_slice_suffix. Qed.

Ltac cond_true :=
  match goal with
  | |- (if ?c then _ else _) = _ => replace c with true; [|symmetry]
  end.

Lemma keys_MaxChunks_app2 (pre : list Z) hi lo : Z.of_nat (length pre) + 2 < 2 ^ 63 ->
  keys_MaxChunks (pre ++ [hi; lo]) = Some (hi * 256 + lo, true).
Proof.
  intros H. unfold keys_MaxChunks.
  assert (HL : go_len (pre ++ [hi; lo]) = Z.of_nat (length pre) + 2)
    by (unfold go_len; rewrite app_length; cbn [length]; lia).
  rewrite HL.
  destruct (Z.ltb_spec (Z.of_nat (length pre) + 2) 2) as [Hs|Hs]; [lia|].
  rewrite wrap_i64_small by (unfold in_i64; lia).
  rewrite (go_slice_suffix' pre [hi; lo]) by (cbn [length]; lia).
  cond_true; [reflexivity|].
  unfold go_slice_ok, go_len. cbn [length]. lia.
Qed.

Lemma keys_MaxChunks_equiv (k : key) : len_ok k ->
  keys_MaxChunks (zs k) = Some (ok_pair (max_chunks k)).
Proof.
  unfold len_ok. intros Hl.
  destruct (Nat.lt_ge_cases (length k) 2) as [Hs|Hs].
  - rewrite max_chunks_short' by exact Hs. unfold keys_MaxChunks. rewrite go_len_zs.
    destruct (Z.ltb_spec (Z.of_nat (length k)) 2); [reflexivity|lia].
  - destruct (split_last2 k Hs) as [pre [hi [lo ->]]].
    rewrite max_chunks_app2, zs_app. change (zs [hi; lo]) with [Z.of_N hi; Z.of_N lo].
    rewrite app_length in Hl. cbn [length] in Hl.
    rewrite keys_MaxChunks_app2 by (unfold zs; rewrite map_length; lia).
    cbn [ok_pair]. f_equal. f_equal. lia.
Qed.

Lemma keys_DecodeChunks_equiv (k : key) : len_ok k ->
  keys_DecodeChunks (zs k) = Some (ok_pair (decode_chunks k)).
Proof.
  intros Hl. unfold decode_chunks. rewrite <- (keys_MaxChunks_equiv k Hl). reflexivity.
Qed.

Lemma keys_numChunks_equiv (l : Z) : in_i64 l ->
  keys_numChunks l = ok_pair (num_chunks_z l).
Proof.
  unfold in_i64. intros Hl. unfold keys_numChunks, num_chunks_z.
  destruct (Z.eqb_spec l 0) as [->|Hz]; [reflexivity|].
  assert (Hq : - 2 ^ 63 <= Z.quot l 64 < 2 ^ 63 - 1).
  { change (2 ^ 63) with 9223372036854775808 in *. Z.to_euclidean_division_equations. lia. }
  rewrite (wrap_i64_small (Z.quot l 64)) by (unfold in_i64; lia).
  rewrite wrap_i64_small by (unfold in_i64; lia).
  rewrite Z.gtb_ltb.
  destruct (Z.ltb_spec 65535 (Z.quot l 64 + 1)) as [Hb|Hb]; [reflexivity|].
  cbn [ok_pair]. unfold wrap_u16, wrap_u. change (2 ^ 16) with 65536.
  rewrite Z2N.id by (apply Z.mod_pos_bound; lia). reflexivity.
Qed.

Lemma keys_NumChunks_equiv (v : val) : len_ok v ->
  keys_NumChunks (zs v) = ok_pair (num_chunks v).
Proof.
  unfold len_ok. intros Hl. unfold keys_NumChunks, num_chunks, blenZ. rewrite go_len_zs.
  apply keys_numChunks_equiv. unfold in_i64. lia.
Qed.

Lemma keys_VerifyValue_equiv (k : key) (v : val) : len_ok k -> len_ok v ->
  keys_VerifyValue (zs k) (zs v) = Some (verify_value k v).
Proof.
  intros Hk Hv. unfold keys_VerifyValue, verify_value, verify_value_len.
  rewrite keys_NumChunks_equiv by exact Hv. unfold num_chunks.
  destruct (num_chunks_z (blenZ v)) as [vc|]; cbn [ok_pair negb]; [|reflexivity].
  rewrite keys_MaxChunks_equiv by exact Hk.
  destruct (max_chunks k) as [kc|]; cbn [ok_pair negb]; [|reflexivity].
  f_equal. destruct (N.leb_spec vc kc); lia.
Qed.

Lemma keys_Verify_equiv (ms mc : N) (k : key) : len_ok k -> in_u 32 (Z.of_N ms) ->
  (Z.of_nat (length k) < 2 ^ 32) ->
  keys_Verify (Z.of_N ms) (Z.of_N mc) (zs k) = Some (verify ms mc k).
Proof.
  intros Hk Hms Hlen. unfold keys_Verify, verify. rewrite go_len_zs.
  rewrite (wrap_u_small 32) by (unfold in_u; lia).
  rewrite Z.gtb_ltb.
  destruct (Z.ltb_spec (Z.of_N ms) (Z.of_nat (length k))) as [H1|H1];
    destruct (N.ltb_spec ms (N.of_nat (length k))) as [H2|H2]; try lia; [reflexivity|].
  rewrite keys_MaxChunks_equiv by exact Hk.
  destruct (max_chunks k) as [kc|]; cbn [ok_pair negb]; [|reflexivity].
  f_equal. destruct (N.leb_spec kc mc); lia.
Qed.

Definition ok_bytes (o : option key) : list Z * bool :=
  match o with Some k => (zs k, true) | None => ([], false) end.

Lemma be_append_be16 (k : key) (c : N) : (c < 65536)%N ->
  be_append_uint16 (zs k) (Z.of_N c) = zs (encode_chunks k c).
Proof.
  intros Hc. unfold be_append_uint16, encode_chunks, be16. rewrite zs_app. f_equal.
  unfold zs. cbn [map]. rewrite Z.shiftr_div_pow2 by lia.
  unfold wrap_u8, wrap_u. change (2 ^ 8) with 256.
  rewrite N2Z.inj_div, N2Z.inj_mod. change (Z.of_N 256) with 256.
  rewrite (Z.mod_small (Z.of_N c / 256) 256); [reflexivity|].
  split; [apply Z.div_pos; lia | apply Z.div_lt_upper_bound; lia].
Qed.

Lemma num_chunks_z_u16 l c : num_chunks_z l = Some c -> (c < 65536)%N.
Proof.
  unfold num_chunks_z. destruct (l =? 0); [intros H; inversion H; lia|].
  destruct (Z.quot l 64 + 1 >? 65535); [discriminate|]. intros H. inversion H; subst.
  pose proof (Z.mod_pos_bound (Z.quot l 64 + 1) 65536). lia.
Qed.

Lemma keys_Encode_equiv (k : key) (n : Z) : in_i64 n ->
  keys_Encode (zs k) n = ok_bytes (encode k n).
Proof.
  intros Hn. unfold keys_Encode, encode. rewrite keys_numChunks_equiv by exact Hn.
  destruct (num_chunks_z n) as [c|] eqn:E; cbn [ok_pair negb ok_bytes]; [|reflexivity].
  rewrite be_append_be16 by (eapply num_chunks_z_u16; exact E). reflexivity.
Qed.

Lemma keys_EncodeChunks_equiv (k : key) (c : N) : (c < 65536)%N ->
  keys_EncodeChunks (zs k) (Z.of_N c) = zs (encode_chunks k c).
Proof. apply be_append_be16. Qed.

(* ------------------------------------------------------------------ state/keys.go *)
Lemma Z_ldiff_of_N a b : Z.ldiff (Z.of_N a) (Z.of_N b) = Z.of_N (N.ldiff a b).
Proof. destruct a, b; reflexivity. Qed.

Lemma state_Permissions_Has_equiv (p req : perm) :
  state_Permissions_Has (Z.of_N p) (Z.of_N req) = perm_has p req.
Proof.
  unfold state_Permissions_Has, perm_has. rewrite Z_ldiff_of_N.
  destruct (N.eqb_spec (N.ldiff req p) 0); lia.
Qed.

(* ------------------------------------------------------------------ internal/validitywindow *)
Definition ts_code (e : option go_error) : N :=
  match e with
  | None => 0
  | Some E_validitywindow_ErrMisalignedTime => 1
  | Some E_validitywindow_ErrTimestampExpired => 2
  | Some E_validitywindow_ErrFutureTimestamp => 3
  | Some _ => 99
  end%N.

(* Model/ValidityWindow.v computes executionTimestamp + validityWindow without int64 wrap-around:
   the two agree whenever that sum is representable *)
Lemma validitywindow_VerifyTimestamp_equiv (ct et d W : Z) :
  d <> 0 -> in_i64 (et + W) ->
  exists e, validitywindow_VerifyTimestamp ct et d W = Some e
            /\ ts_code e = ValidityWindow.verify_timestamp ct et d W.
Proof.
  intros Hd Hs. unfold validitywindow_VerifyTimestamp, ValidityWindow.verify_timestamp.
  destruct (Z.eqb_spec d 0) as [|_]; [contradiction|]. cbn [negb].
  rewrite wrap_i64_small by exact Hs.
  destruct (Z.rem ct d =? 0); cbn [negb]; [|eexists; split; reflexivity].
  destruct (ct <? et); [eexists; split; reflexivity|].
  destruct (ct >? et + W); eexists; split; reflexivity.
Qed.

(* Model/TxStatic.v models the wrap-around: no hypothesis on the sum *)
Definition ts_code_static (e : option go_error) : N :=
  match e with
  | None => TxStatic.E_OK
  | Some E_validitywindow_ErrMisalignedTime => TxStatic.E_MISALIGNED
  | Some E_validitywindow_ErrTimestampExpired => TxStatic.E_EXPIRED
  | Some E_validitywindow_ErrFutureTimestamp => TxStatic.E_FUTURE
  | Some _ => 99%N
  end.

Lemma validitywindow_VerifyTimestamp_equiv_static (ct et d W : Z) :
  d <> 0 ->
  exists e, validitywindow_VerifyTimestamp ct et d W = Some e
            /\ ts_code_static e = TxStatic.verify_timestamp ct et d W.
Proof.
  intros Hd. unfold validitywindow_VerifyTimestamp, TxStatic.verify_timestamp.
  destruct (Z.eqb_spec d 0) as [|_]; [contradiction|]. cbn [negb].
  change (wrap_i64 (et + W)) with (TxStatic.wrap64 (et + W)).
  destruct (Z.rem ct d =? 0); cbn [negb]; [|eexists; split; reflexivity].
  destruct (ct <? et); [eexists; split; reflexivity|].
  destruct (ct >? TxStatic.wrap64 (et + W)); eexists; split; reflexivity.
Qed.

(* division by zero panics in Go; the models return a value there (never exercised: the divisor is a
   non-zero constant at every call site) *)
Lemma validitywindow_VerifyTimestamp_div0 (ct et W : Z) :
  validitywindow_VerifyTimestamp ct et 0 W = None.
Proof. reflexivity. Qed.

(* ------------------------------------------------------------------ fees/dimension.go *)
Definition u64_list (l : list N) : Prop := Forall (fun x => (x <= MaxU64)%N) l.

Lemma safemath_add_chk (e : go_error) a b : (a <= MaxU64)%N -> (b <= MaxU64)%N ->
  safemath_add e 64 (Z.of_N a) (Z.of_N b) =
  match add_chk a b with Some v => (Z.of_N v, None) | None => (0, Some e) end.
Proof.
  unfold safemath_add, add_chk, wrap_u, MaxU64. intros Ha Hb.
  change (2 ^ 64) with 18446744073709551616.
  rewrite (Z.mod_small (18446744073709551616 - 1 - Z.of_N b)) by lia.
  rewrite Z.gtb_ltb.
  destruct (Z.ltb_spec (18446744073709551616 - 1 - Z.of_N b) (Z.of_N a));
    destruct (N.leb_spec (a + b) 18446744073709551615); try lia; [reflexivity|].
  rewrite Z.mod_small by lia. f_equal. lia.
Qed.

Lemma safemath_mul_chk (e : go_error) a b : (a <= MaxU64)%N -> (b <= MaxU64)%N ->
  safemath_mul e 64 (Z.of_N a) (Z.of_N b) =
  match mul_chk a b with Some v => (Z.of_N v, None) | None => (0, Some e) end.
Proof.
  unfold safemath_mul, mul_chk, wrap_u, MaxU64. intros Ha Hb.
  change (2 ^ 64) with 18446744073709551616.
  destruct (Z.eqb_spec (Z.of_N b) 0) as [Hz|Hz]; cbn [negb andb].
  - assert (b = 0%N) by lia. subst b. rewrite N.mul_0_r, Z.mul_0_r. reflexivity.
  - rewrite Z.gtb_ltb.
    assert (Hq : Z.of_N a * Z.of_N b <= 18446744073709551615 <-> Z.of_N a <= Z.quot (18446744073709551616 - 1) (Z.of_N b)).
    { Z.to_euclidean_division_equations. nia. }
    destruct (Z.ltb_spec (Z.quot (18446744073709551616 - 1) (Z.of_N b)) (Z.of_N a));
      destruct (N.leb_spec (a * b) 18446744073709551615); try lia; [reflexivity|].
    rewrite Z.mod_small by lia. f_equal. lia.
Qed.

Ltac simp_idx :=
  repeat match goal with
  | |- context [go_in_range ?l ?i] =>
      let v := eval vm_compute in (go_in_range l i) in change (go_in_range l i) with v
  | |- context [go_index 0 ?l ?i] =>
      let v := eval cbv [go_index nth Z.to_nat Pos.to_nat Pos.iter_op Nat.add] in (go_index 0 l i) in progress change (go_index 0 l i) with v
  end; cbn [andb].

Definition err_dims (o : option dims) : list Z * option go_error :=
  match o with Some d => (zs d, None) | None => (go_zeros 5, Some E_safemath_ErrOverflow) end.

Lemma fees_Add_equiv (a b : dims) : length a = 5%nat -> length b = 5%nat -> u64_list a -> u64_list b ->
  fees_Add (zs a) (zs b) = Some (err_dims (dims_add a b)).
Proof.
  intros La Lb Ua Ub.
  destruct a as [|a0 [|a1 [|a2 [|a3 [|a4 [|]]]]]]; try discriminate La.
  destruct b as [|b0 [|b1 [|b2 [|b3 [|b4 [|]]]]]]; try discriminate Lb.
  unfold fees_Add, dims_add. change (go_range 0 5) with [0; 1; 2; 3; 4].
  cbn [go_for zs map opt_traverse idx5 dget nth].
  inversion_clear Ua as [|? ? Ha0 Ua1]. inversion_clear Ua1 as [|? ? Ha1 Ua2]. inversion_clear Ua2 as [|? ? Ha2 Ua3].
  inversion_clear Ua3 as [|? ? Ha3 Ua4]. inversion_clear Ua4 as [|? ? Ha4 _].
  inversion_clear Ub as [|? ? Hb0 Ub1]. inversion_clear Ub1 as [|? ? Hb1 Ub2]. inversion_clear Ub2 as [|? ? Hb2 Ub3].
  inversion_clear Ub3 as [|? ? Hb3 Ub4]. inversion_clear Ub4 as [|? ? Hb4 _].
  do 5 (simp_idx; rewrite safemath_add_chk by assumption;
        match goal with |- context [add_chk ?x ?y] => destruct (add_chk x y) end;
        cbn [is_nil negb err_dims]; [|reflexivity]).
  reflexivity.
Qed.

Definition err_u64 (o : option N) : Z * option go_error :=
  match o with Some v => (Z.of_N v, None) | None => (0, Some E_safemath_ErrOverflow) end.

Lemma add_chk_u64 a b v : add_chk a b = Some v -> (v <= MaxU64)%N.
Proof. intros H. apply add_chk_Some in H. lia. Qed.

Lemma mul_chk_u64 a b v : mul_chk a b = Some v -> (v <= MaxU64)%N.
Proof. intros H. apply mul_chk_Some in H. lia. Qed.

Ltac u64_solve :=
  first [ assumption | eapply add_chk_u64; eassumption | eapply mul_chk_u64; eassumption
        | unfold MaxU64; lia ].

Lemma fees_MulSum_equiv (a b : dims) : length a = 5%nat -> length b = 5%nat -> u64_list a -> u64_list b ->
  fees_MulSum (zs a) (zs b) = Some (err_u64 (mul_sum a b)).
Proof.
  intros La Lb Ua Ub.
  destruct a as [|a0 [|a1 [|a2 [|a3 [|a4 [|]]]]]]; try discriminate La.
  destruct b as [|b0 [|b1 [|b2 [|b3 [|b4 [|]]]]]]; try discriminate Lb.
  unfold fees_MulSum, mul_sum. change (go_range 0 5) with [0; 1; 2; 3; 4].
  cbn [go_for zs map mul_sum_from].
  inversion_clear Ua as [|? ? Ha0 Ua1]. inversion_clear Ua1 as [|? ? Ha1 Ua2]. inversion_clear Ua2 as [|? ? Ha2 Ua3].
  inversion_clear Ua3 as [|? ? Ha3 Ua4]. inversion_clear Ua4 as [|? ? Ha4 _].
  inversion_clear Ub as [|? ? Hb0 Ub1]. inversion_clear Ub1 as [|? ? Hb1 Ub2]. inversion_clear Ub2 as [|? ? Hb2 Ub3].
  inversion_clear Ub3 as [|? ? Hb3 Ub4]. inversion_clear Ub4 as [|? ? Hb4 _].
  do 5 (simp_idx; rewrite safemath_mul_chk by u64_solve;
        match goal with |- context [mul_chk ?x ?y] => destruct (mul_chk x y) eqn:? end;
        cbn [is_nil negb err_u64]; [|reflexivity];
        try match goal with |- context [safemath_add ?e 64 0 (Z.of_N ?v)] =>
              change (safemath_add e 64 0 (Z.of_N v)) with (safemath_add e 64 (Z.of_N 0) (Z.of_N v)) end;
        rewrite safemath_add_chk by u64_solve;
        match goal with |- context [add_chk ?x ?y] => destruct (add_chk x y) eqn:? end;
        cbn [is_nil negb err_u64]; [|reflexivity]).
  reflexivity.
Qed.

Ltac inv5 U H0 H1 H2 H3 H4 :=
  let U1 := fresh in let U2 := fresh in let U3 := fresh in let U4 := fresh in
  inversion_clear U as [|? ? H0 U1]; inversion_clear U1 as [|? ? H1 U2]; inversion_clear U2 as [|? ? H2 U3];
  inversion_clear U3 as [|? ? H3 U4]; inversion_clear U4 as [|? ? H4 _].

Lemma fees_Dimensions_CanAdd_equiv (d a l : dims) :
  length d = 5%nat -> length a = 5%nat -> length l = 5%nat -> u64_list d -> u64_list a ->
  fees_Dimensions_CanAdd (zs d) (zs a) (zs l) = Some (can_add d a l).
Proof.
  intros Ld La Ll Ud Ua.
  destruct d as [|d0 [|d1 [|d2 [|d3 [|d4 [|]]]]]]; try discriminate Ld.
  destruct a as [|a0 [|a1 [|a2 [|a3 [|a4 [|]]]]]]; try discriminate La.
  destruct l as [|l0 [|l1 [|l2 [|l3 [|l4 [|]]]]]]; try discriminate Ll.
  unfold fees_Dimensions_CanAdd, can_add. change (go_range 0 5) with [0; 1; 2; 3; 4].
  cbn [go_for zs map forallb idx5 dget nth].
  inv5 Ud Hd0 Hd1 Hd2 Hd3 Hd4. inv5 Ua Ha0 Ha1 Ha2 Ha3 Ha4.
  do 5 (simp_idx; rewrite safemath_add_chk by u64_solve;
        match goal with |- context [add_chk ?x ?y] => destruct (add_chk x y) eqn:? end;
        cbn [is_nil negb andb]; [|reflexivity];
        simp_idx; rewrite Z.gtb_ltb;
        match goal with |- context [Z.of_N ?x <? Z.of_N ?y] =>
          destruct (Z.ltb_spec (Z.of_N x) (Z.of_N y)); destruct (N.ltb_spec x y); try lia end;
        cbn [negb andb]; [reflexivity|]).
  reflexivity.
Qed.

(* fees.Dimensions.Greater has no counterpart in the hand-written models (it guards a fatal error
   path); its specification is stated here: every component of d is >= the one of o *)
Definition dims_greater (d o : dims) : bool := forallb (fun k => negb (dget d k <? dget o k)%N) idx5.

Lemma fees_Dimensions_Greater_equiv (d o : dims) : length d = 5%nat -> length o = 5%nat ->
  fees_Dimensions_Greater (zs d) (zs o) = Some (dims_greater d o).
Proof.
  intros Ld Lo.
  destruct d as [|d0 [|d1 [|d2 [|d3 [|d4 [|]]]]]]; try discriminate Ld.
  destruct o as [|o0 [|o1 [|o2 [|o3 [|o4 [|]]]]]]; try discriminate Lo.
  unfold fees_Dimensions_Greater, dims_greater. change (go_range 0 5) with [0; 1; 2; 3; 4].
  cbn [go_for zs map forallb idx5 dget nth].
  do 5 (simp_idx;
        match goal with |- context [Z.of_N ?x <? Z.of_N ?y] =>
          destruct (Z.ltb_spec (Z.of_N x) (Z.of_N y)); destruct (N.ltb_spec x y); try lia end;
        cbn [negb andb]; [reflexivity|]).
  reflexivity.
Qed.

(* ------------------------------------------------------------------ state/metadata *)
Lemma bytes_has_prefix_zs (s p : bytes) : bytes_has_prefix (zs s) (zs p) = has_prefix s p.
Proof.
  revert s. induction p as [|y p IH]; intros s; [reflexivity|].
  destruct s as [|x s]; [reflexivity|]. cbn [zs map bytes_has_prefix has_prefix].
  fold (zs s). fold (zs p). rewrite IH. f_equal.
  destruct (Z.eqb_spec (Z.of_N x) (Z.of_N y)); destruct (N.eqb_spec x y); lia.
Qed.

Definition zss (l : list bytes) : list (list Z) := map zs l.

Lemma inner_loop_eq (p : bytes) (verified : list bytes) :
  go_for (zss verified)
    (fun (vp : list Z) (_ : unit) =>
       if bytes_has_prefix (zs p) vp || bytes_has_prefix vp (zs p) then @Return unit bool true else Next tt) tt
  = if conflicts_any p verified then Return true else Next tt.
Proof.
  induction verified as [|q vs IH]; [reflexivity|].
  cbn [zss map go_for conflicts_any existsb]. unfold conflicts at 1.
  rewrite !bytes_has_prefix_zs.
  destruct (has_prefix p q || has_prefix q p); [reflexivity|]. exact IH.
Qed.

Lemma outer_loop_eq (ps verified : list bytes) :
  go_for (zss ps)
    (fun (p : list Z) (verifiedPrefixes : list (list Z)) =>
       match go_for verifiedPrefixes
               (fun (vp : list Z) (_ : unit) =>
                  if bytes_has_prefix p vp || bytes_has_prefix vp p then @Return unit bool true else Next tt) tt with
       | Next _ => Next (verifiedPrefixes ++ [p])
       | Return r' => Return r'
       end) (zss verified)
  = if has_conflict_from verified ps then Return true else Next (zss (verified ++ ps)).
Proof.
  revert verified. induction ps as [|p ps IH]; intros verified.
  - cbn [zss map go_for has_conflict_from]. rewrite app_nil_r. reflexivity.
  - cbn [zss map go_for has_conflict_from]. fold (zss ps). fold (zss verified).
    rewrite inner_loop_eq. destruct (conflicts_any p verified); [reflexivity|].
    replace (zss verified ++ [zs p]) with (zss (verified ++ [p])) by (unfold zss; rewrite map_app; reflexivity).
    rewrite IH. rewrite <- app_assoc. reflexivity.
Qed.

(* parameter order of the generated function: the niladic methods of chain.MetadataManager in
   declaration order (HeightPrefix, TimestampPrefix, FeePrefix) *)
Lemma metadata_HasConflictingPrefixes_equiv (height fee timestamp : bytes) (vm : list bytes) :
  metadata_HasConflictingPrefixes (zs height) (zs timestamp) (zs fee) (zss vm)
  = has_conflicting_prefixes height fee timestamp vm.
Proof.
  unfold metadata_HasConflictingPrefixes, has_conflicting_prefixes. cbv zeta.
  change ([zs height; zs fee; zs timestamp] ++ zss vm) with (zss ([height; fee; timestamp] ++ vm)).
  pose proof (outer_loop_eq ([height; fee; timestamp] ++ vm) []) as H.
  change (zss []) with (@nil (list Z)) in H. rewrite H.
  destruct (has_conflict_from [] ([height; fee; timestamp] ++ vm)); reflexivity.
Qed.

(* ------------------------------------------------------------------ internal/fees/manager.go *)
(* mulDiv never panics: bits.Div64 is reached only with hi < c *)
Lemma ifees_mulDiv_equiv (a b c : N) : (a <= MaxU64)%N -> (b <= MaxU64)%N -> (c <= MaxU64)%N ->
  ifees_mulDiv (Z.of_N a) (Z.of_N b) (Z.of_N c) = Some (Z.of_N (mul_div a b c)).
Proof.
  unfold MaxU64. intros Ha Hb Hc. unfold ifees_mulDiv, bits_mul64, mul_div, W64, MaxU64.
  change (2 ^ 64) with 18446744073709551616.
  set (p := (a * b)%N).
  replace (Z.of_N a * Z.of_N b) with (Z.of_N p) by (unfold p; lia).
  rewrite Z.quot_div_nonneg, Z.rem_mod_nonneg by lia.
  change 18446744073709551616 with (Z.of_N 18446744073709551616).
  rewrite <- N2Z.inj_div, <- N2Z.inj_mod.
  set (hi := (p / 18446744073709551616)%N). set (lo := (p mod 18446744073709551616)%N).
  rewrite Z.geb_leb.
  destruct (Z.leb_spec (Z.of_N c) (Z.of_N hi)); destruct (N.leb_spec c hi); try lia; [reflexivity|].
  unfold bits_div64_ok, bits_div64.
  destruct (Z.eqb_spec (Z.of_N c) 0); [lia|].
  destruct (Z.ltb_spec (Z.of_N hi) (Z.of_N c)); [|lia]. cbn [negb andb].
  f_equal. rewrite Z.quot_div_nonneg by lia.
  rewrite N2Z.inj_div, N2Z.inj_add, N2Z.inj_mul. reflexivity.
Qed.

(* ------------------------------------------------------------------ Model/Units.v (C12)
   carries its own copies of keys.Valid and keys.MaxChunks; they are the same functions *)
Lemma units_max_chunks_eq (k : bytes) : Units.max_chunks k = Keys.max_chunks k.
Proof.
  unfold Units.max_chunks. destruct (Nat.ltb_spec (length k) 2) as [Hs|Hs].
  - symmetry. apply max_chunks_short'. exact Hs.
  - destruct (split_last2 k Hs) as [pre [hi [lo ->]]]. rewrite max_chunks_app2.
    rewrite app_length. cbn [length].
    rewrite (skipn_app_exact pre [hi; lo]) by lia.
    unfold be_dec. cbn [fold_left]. f_equal; lia.
Qed.

Lemma keys_MaxChunks_equiv_units (k : bytes) : len_ok k ->
  keys_MaxChunks (zs k) = Some (ok_pair (Units.max_chunks k)).
Proof. intros H. rewrite units_max_chunks_eq. apply keys_MaxChunks_equiv. exact H. Qed.

Lemma keys_Valid_equiv_units (k : bytes) : keys_Valid (zs k) = Units.key_valid k.
Proof. apply keys_Valid_equiv. Qed.

(* ------------------------------------------------------------------ summary *)
Definition gen_tie_all :=
  (keys_Valid_equiv, keys_MaxChunks_equiv, keys_DecodeChunks_equiv, keys_numChunks_equiv, keys_NumChunks_equiv,
   keys_VerifyValue_equiv, keys_Verify_equiv, keys_Encode_equiv, keys_EncodeChunks_equiv,
   state_Permissions_Has_equiv, validitywindow_VerifyTimestamp_equiv, validitywindow_VerifyTimestamp_equiv_static,
   fees_Add_equiv, fees_MulSum_equiv, fees_Dimensions_CanAdd_equiv, fees_Dimensions_Greater_equiv,
   metadata_HasConflictingPrefixes_equiv, ifees_mulDiv_equiv, keys_MaxChunks_equiv_units, keys_Valid_equiv_units).
Print Assumptions gen_tie_all.
