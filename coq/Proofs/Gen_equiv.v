(* Gen_equiv.v — the GENERATED definitions of Gen/Leaf.v (regenerated from the Go sources by
   harness/go2coq) are equal, for ALL inputs in the range of their Go types, to the hand-written
   model functions that the property theorems are stated about.

   A semantic change of one of the translated Go functions changes the corresponding definition
   of Gen/Leaf.v and makes the lemma below fail to compile, whether or not a differential test
   happens to hit a distinguishing input.

   Representation: generated code works over [Z] and [list Z]; the models over [N] and [list N].
   [zs] converts byte strings / arrays.  Go results (v, ok) correspond to [option] via [ok_pair];
   results (v, err) via [err_pair].  A generated function that can panic returns [option]; the
   lemmas show [Some] (no panic) under the stated hypotheses.

   Hypotheses are only what the Go types guarantee: integers within the range of their type,
   len(x) < 2^63, arrays of their declared length. *)
From Coq Require Import List NArith ZArith Bool Lia ZifyN ZifyNat ZifyBool.
Import ListNotations.
From HV Require Import Lib.Bytes Lib.U64 Model.Fees Proofs.Fees_proofs Model.Prefixes Model.ValidityWindow Model.TxStatic Model.Estimate Model.Units Model.Keys.
From HV Require Import Gen.Prelude Gen.Leaf.
Local Open Scope Z_scope.

(* ------------------------------------------------------------------ conversions *)
Definition zs (l : list N) : list Z := map Z.of_N l.

Definition ok_pair (o : option N) : Z * bool :=
  match o with Some c => (Z.of_N c, true) | None => (0, false) end.

Definition in_i64 (x : Z) : Prop := - 2 ^ 63 <= x < 2 ^ 63.
Definition in_u (n : Z) (x : Z) : Prop := 0 <= x < 2 ^ n.
Definition len_ok {A : Type} (l : list A) : Prop := Z.of_nat (length l) < 2 ^ 63.

(* ------------------------------------------------------------------ prelude facts *)
Lemma wrap_i64_small x : in_i64 x -> wrap_i64 x = x.
Proof.
  unfold in_i64, wrap_i64, wrap_i. intros H.
  change (2 ^ (64 - 1)) with 9223372036854775808 in *. change (2 ^ 63) with 9223372036854775808 in *.
  change (2 ^ 64) with 18446744073709551616.
  rewrite Z.mod_small by lia. lia.
Qed.

Lemma wrap_u_small n x : 0 <= n -> in_u n x -> wrap_u n x = x.
Proof. unfold in_u, wrap_u. intros Hn H. apply Z.mod_small. lia. Qed.

Lemma wrap_u64_small x : 0 <= x < 2 ^ 64 -> wrap_u64 x = x.
Proof. intros H. apply Z.mod_small. exact H. Qed.

Lemma go_len_zs l : go_len (zs l) = Z.of_nat (length l).
Proof. unfold go_len, zs. rewrite map_length. reflexivity. Qed.

Lemma go_len_nonneg {A} (l : list A) : 0 <= go_len l.
Proof. unfold go_len. lia. Qed.

Lemma zs_app a b : zs (a ++ b) = zs a ++ zs b.
Proof. apply map_app. Qed.

Lemma skipn_app_exact {A} (a b : list A) n : n = length a -> skipn n (a ++ b) = b.
Proof.
  intros ->. rewrite skipn_app, skipn_all, Nat.sub_diag. reflexivity.
Qed.

Lemma go_slice_suffix {A} (a b : list A) :
  go_slice (a ++ b) (Z.of_nat (length a)) (Z.of_nat (length (a ++ b))) = b.
Proof.
  unfold go_slice. rewrite Nat2Z.id, (skipn_app_exact a b) by reflexivity.
  rewrite app_length.
  replace (Z.to_nat (Z.of_nat (length a + length b) - Z.of_nat (length a))) with (length b) by lia.
  apply firstn_all.
Qed.

(* a key of length >= 2 ends in two bytes *)
Lemma split_last2 {A} (k : list A) : (2 <= length k)%nat ->
  exists pre hi lo, k = pre ++ [hi; lo].
Proof.
  intros H. destruct (rev k) as [|lo [|hi r]] eqn:E.
  - apply (f_equal (@length A)) in E. rewrite rev_length in E. cbn in E. lia.
  - apply (f_equal (@length A)) in E. rewrite rev_length in E. cbn in E. lia.
  - exists (rev r), hi, lo. rewrite <- (rev_involutive k), E. cbn [rev]. rewrite <- app_assoc. reflexivity.
Qed.

(* ------------------------------------------------------------------ keys/keys.go *)

Lemma keys_Valid_equiv (k : key) : keys_Valid (zs k) = valid k.
Proof.
  unfold keys_Valid, valid. rewrite go_len_zs.
  destruct (Nat.leb_spec 2 (length k)); lia.
Qed.

Lemma max_chunks_app2 pre hi lo : max_chunks (pre ++ [hi; lo]) = Some (hi * 256 + lo)%N.
Proof. unfold max_chunks. rewrite rev_app_distr. reflexivity. Qed.

Lemma max_chunks_short' k : (length k < 2)%nat -> max_chunks k = None.
Proof.
  intros H. unfold max_chunks. destruct (rev k) as [|lo [|hi r]] eqn:E; try reflexivity.
  apply (f_equal (@length N)) in E. rewrite rev_length in E. cbn in E. lia.
Qed.

Lemma go_slice_suffix' {A} (a b : list A) lo hi :
  lo = Z.of_nat (length a) -> hi = Z.of_nat (length a + length b) -> go_slice (a ++ b) lo hi = b.
Proof. intros -> ->. rewrite <- app_length. apply go_slice_suffix. Qed.

Ltac cond_true :=
  match goal with
  | |- (if ?c then _ else _) = _ => replace c with true; [|symmetry]
  end.

Lemma keys_MaxChunks_app2 (pre : list Z) hi lo : Z.of_nat (length pre) + 2 < 2 ^ 63 ->
  keys_MaxChunks (pre ++ [hi; lo]) = Some (hi * 256 + lo, true).
Proof.
  intros H. unfold keys_MaxChunks.
  assert (HL : go_len (pre ++ [hi; lo]) = Z.of_nat (length pre) + 2)
    by (unfold go_len; rewrite app_length; cbn [length]; lia).
  rewrite HL.
  destruct (Z.ltb_spec (Z.of_nat (length pre) + 2) 2) as [Hs|Hs]; [lia|].
  rewrite wrap_i64_small by (unfold in_i64; lia).
  rewrite (go_slice_suffix' pre [hi; lo]) by (cbn [length]; lia).
  cond_true; [reflexivity|].
  unfold go_slice_ok, go_len. cbn [length]. lia.
Qed.

Lemma keys_MaxChunks_equiv (k : key) : len_ok k ->
  keys_MaxChunks (zs k) = Some (ok_pair (max_chunks k)).
Proof.
  unfold len_ok. intros Hl.
  destruct (Nat.lt_ge_cases (length k) 2) as [Hs|Hs].
  - rewrite max_chunks_short' by exact Hs. unfold keys_MaxChunks. rewrite go_len_zs.
    destruct (Z.ltb_spec (Z.of_nat (length k)) 2); [reflexivity|lia].
  - destruct (split_last2 k Hs) as [pre [hi [lo ->]]].
    rewrite max_chunks_app2, zs_app. change (zs [hi; lo]) with [Z.of_N hi; Z.of_N lo].
    rewrite app_length in Hl. cbn [length] in Hl.
    rewrite keys_MaxChunks_app2 by (unfold zs; rewrite map_length; lia).
    cbn [ok_pair]. f_equal. f_equal. lia.
Qed.

Lemma keys_DecodeChunks_equiv (k : key) : len_ok k ->
  keys_DecodeChunks (zs k) = Some (ok_pair (decode_chunks k)).
Proof.
  intros Hl. unfold decode_chunks. rewrite <- (keys_MaxChunks_equiv k Hl). reflexivity.
Qed.

Lemma keys_numChunks_equiv (l : Z) : in_i64 l ->
  keys_numChunks l = ok_pair (num_chunks_z l).
Proof.
  unfold in_i64. intros Hl. unfold keys_numChunks, num_chunks_z.
  destruct (Z.eqb_spec l 0) as [->|Hz]; [reflexivity|].
  assert (Hq : - 2 ^ 63 <= Z.quot l 64 < 2 ^ 63 - 1).
  { change (2 ^ 63) with 9223372036854775808 in *. Z.to_euclidean_division_equations. lia. }
  rewrite (wrap_i64_small (Z.quot l 64)) by (unfold in_i64; lia).
  rewrite wrap_i64_small by (unfold in_i64; lia).
  rewrite Z.gtb_ltb.
  destruct (Z.ltb_spec 65535 (Z.quot l 64 + 1)) as [Hb|Hb]; [reflexivity|].
  cbn [ok_pair]. unfold wrap_u16, wrap_u. change (2 ^ 16) with 65536.
  rewrite Z2N.id by (apply Z.mod_pos_bound; lia). reflexivity.
Qed.

Lemma keys_NumChunks_equiv (v : val) : len_ok v ->
  keys_NumChunks (zs v) = ok_pair (num_chunks v).
Proof.
  unfold len_ok. intros Hl. unfold keys_NumChunks, num_chunks, blenZ. rewrite go_len_zs.
  apply keys_numChunks_equiv. unfold in_i64. lia.
Qed.

Lemma keys_VerifyValue_equiv (k : key) (v : val) : len_ok k -> len_ok v ->
  keys_VerifyValue (zs k) (zs v) = Some (verify_value k v).
Proof.
  intros Hk Hv. unfold keys_VerifyValue, verify_value, verify_value_len.
  rewrite keys_NumChunks_equiv by exact Hv. unfold num_chunks.
  destruct (num_chunks_z (blenZ v)) as [vc|]; cbn [ok_pair negb]; [|reflexivity].
  rewrite keys_MaxChunks_equiv by exact Hk.
  destruct (max_chunks k) as [kc|]; cbn [ok_pair negb]; [|reflexivity].
  f_equal. destruct (N.leb_spec vc kc); lia.
Qed.

Lemma keys_Verify_equiv (ms mc : N) (k : key) : len_ok k -> in_u 32 (Z.of_N ms) ->
  (Z.of_nat (length k) < 2 ^ 32) ->
  keys_Verify (Z.of_N ms) (Z.of_N mc) (zs k) = Some (verify ms mc k).
Proof.
  intros Hk Hms Hlen. unfold keys_Verify, verify. rewrite go_len_zs.
  rewrite (wrap_u_small 32) by (unfold in_u; lia).
  rewrite Z.gtb_ltb.
  destruct (Z.ltb_spec (Z.of_N ms) (Z.of_nat (length k))) as [H1|H1];
    destruct (N.ltb_spec ms (N.of_nat (length k))) as [H2|H2]; try lia; [reflexivity|].
  rewrite keys_MaxChunks_equiv by exact Hk.
  destruct (max_chunks k) as [kc|]; cbn [ok_pair negb]; [|reflexivity].
  f_equal. destruct (N.leb_spec kc mc); lia.
Qed.

Definition ok_bytes (o : option key) : list Z * bool :=
  match o with Some k => (zs k, true) | None => ([], false) end.

Lemma be_append_be16 (k : key) (c : N) : (c < 65536)%N ->
  be_append_uint16 (zs k) (Z.of_N c) = zs (encode_chunks k c).
Proof.
  intros Hc. unfold be_append_uint16, encode_chunks, be16. rewrite zs_app. f_equal.
  unfold zs. cbn [map]. rewrite Z.shiftr_div_pow2 by lia.
  unfold wrap_u8, wrap_u. change (2 ^ 8) with 256.
  rewrite N2Z.inj_div, N2Z.inj_mod. change (Z.of_N 256) with 256.
  rewrite (Z.mod_small (Z.of_N c / 256) 256); [reflexivity|].
  split; [apply Z.div_pos; lia | apply Z.div_lt_upper_bound; lia].
Qed.

Lemma num_chunks_z_u16 l c : num_chunks_z l = Some c -> (c < 65536)%N.
Proof.
  unfold num_chunks_z. destruct (l =? 0); [intros H; inversion H; lia|].
  destruct (Z.quot l 64 + 1 >? 65535); [discriminate|]. intros H. inversion H; subst.
  pose proof (Z.mod_pos_bound (Z.quot l 64 + 1) 65536). lia.
Qed.

Lemma keys_Encode_equiv (k : key) (n : Z) : in_i64 n ->
  keys_Encode (zs k) n = ok_bytes (encode k n).
Proof.
  intros Hn. unfold keys_Encode, encode. rewrite keys_numChunks_equiv by exact Hn.
  destruct (num_chunks_z n) as [c|] eqn:E; cbn [ok_pair negb ok_bytes]; [|reflexivity].
  rewrite be_append_be16 by (eapply num_chunks_z_u16; exact E). reflexivity.
Qed.

Lemma keys_EncodeChunks_equiv (k : key) (c : N) : (c < 65536)%N ->
  keys_EncodeChunks (zs k) (Z.of_N c) = zs (encode_chunks k c).
Proof. apply be_append_be16. Qed.

(* ------------------------------------------------------------------ state/keys.go *)
Lemma Z_ldiff_of_N a b : Z.ldiff (Z.of_N a) (Z.of_N b) = Z.of_N (N.ldiff a b).
Proof. destruct a, b; reflexivity. Qed.

Lemma state_Permissions_Has_equiv (p req : perm) :
  state_Permissions_Has (Z.of_N p) (Z.of_N req) = perm_has p req.
Proof.
  unfold state_Permissions_Has, perm_has. rewrite Z_ldiff_of_N.
  destruct (N.eqb_spec (N.ldiff req p) 0); lia.
Qed.

(* ------------------------------------------------------------------ internal/validitywindow *)
Definition ts_code (e : option go_error) : N :=
  match e with
  | None => 0
  | Some E_validitywindow_ErrMisalignedTime => 1
  | Some E_validitywindow_ErrTimestampExpired => 2
  | Some E_validitywindow_ErrFutureTimestamp => 3
  | Some _ => 99
  end%N.

(* Model/ValidityWindow.v computes executionTimestamp + validityWindow without int64 wrap-around:
   the two agree whenever that sum is representable *)
Lemma validitywindow_VerifyTimestamp_equiv (ct et d W : Z) :
  d <> 0 -> in_i64 (et + W) ->
  exists e, validitywindow_VerifyTimestamp ct et d W = Some e
            /\ ts_code e = ValidityWindow.verify_timestamp ct et d W.
Proof.
  intros Hd Hs. unfold validitywindow_VerifyTimestamp, ValidityWindow.verify_timestamp.
  destruct (Z.eqb_spec d 0) as [|_]; [contradiction|]. cbn [negb].
  rewrite wrap_i64_small by exact Hs.
  destruct (Z.rem ct d =? 0); cbn [negb]; [|eexists; split; reflexivity].
  destruct (ct <? et); [eexists; split; reflexivity|].
  destruct (ct >? et + W); eexists; split; reflexivity.
Qed.

(* Model/TxStatic.v models the wrap-around: no hypothesis on the sum *)
Definition ts_code_static (e : option go_error) : N :=
  match e with
  | None => TxStatic.E_OK
  | Some E_validitywindow_ErrMisalignedTime => TxStatic.E_MISALIGNED
  | Some E_validitywindow_ErrTimestampExpired => TxStatic.E_EXPIRED
  | Some E_validitywindow_ErrFutureTimestamp => TxStatic.E_FUTURE
  | Some _ => 99%N
  end.

Lemma validitywindow_VerifyTimestamp_equiv_static (ct et d W : Z) :
  d <> 0 ->
  exists e, validitywindow_VerifyTimestamp ct et d W = Some e
            /\ ts_code_static e = TxStatic.verify_timestamp ct et d W.
Proof.
  intros Hd. unfold validitywindow_VerifyTimestamp, TxStatic.verify_timestamp.
  destruct (Z.eqb_spec d 0) as [|_]; [contradiction|]. cbn [negb].
  change (wrap_i64 (et + W)) with (TxStatic.wrap64 (et + W)).
  destruct (Z.rem ct d =? 0); cbn [negb]; [|eexists; split; reflexivity].
  destruct (ct <? et); [eexists; split; reflexivity|].
  destruct (ct >? TxStatic.wrap64 (et + W)); eexists; split; reflexivity.
Qed.

(* division by zero panics in Go; the models return a value there (never exercised: the divisor is a
   non-zero constant at every call site) *)
Lemma validitywindow_VerifyTimestamp_div0 (ct et W : Z) :
  validitywindow_VerifyTimestamp ct et 0 W = None.
Proof. reflexivity. Qed.

(* ------------------------------------------------------------------ fees/dimension.go *)
Definition u64_list (l : list N) : Prop := Forall (fun x => (x <= MaxU64)%N) l.

Lemma safemath_add_chk (e : go_error) a b : (a <= MaxU64)%N -> (b <= MaxU64)%N ->
  safemath_add e 64 (Z.of_N a) (Z.of_N b) =
  match add_chk a b with Some v => (Z.of_N v, None) | None => (0, Some e) end.
Proof.
  unfold safemath_add, add_chk, wrap_u, MaxU64. intros Ha Hb.
  change (2 ^ 64) with 18446744073709551616.
  rewrite (Z.mod_small (18446744073709551616 - 1 - Z.of_N b)) by lia.
  rewrite Z.gtb_ltb.
  destruct (Z.ltb_spec (18446744073709551616 - 1 - Z.of_N b) (Z.of_N a));
    destruct (N.leb_spec (a + b) 18446744073709551615); try lia; [reflexivity|].
  rewrite Z.mod_small by lia. f_equal. lia.
Qed.

Lemma safemath_mul_chk (e : go_error) a b : (a <= MaxU64)%N -> (b <= MaxU64)%N ->
  safemath_mul e 64 (Z.of_N a) (Z.of_N b) =
  match mul_chk a b with Some v => (Z.of_N v, None) | None => (0, Some e) end.
Proof.
  unfold safemath_mul, mul_chk, wrap_u, MaxU64. intros Ha Hb.
  change (2 ^ 64) with 18446744073709551616.
  destruct (Z.eqb_spec (Z.of_N b) 0) as [Hz|Hz]; cbn [negb andb].
  - assert (b = 0%N) by lia. subst b. rewrite N.mul_0_r, Z.mul_0_r. reflexivity.
  - rewrite Z.gtb_ltb.
    assert (Hq : Z.of_N a * Z.of_N b <= 18446744073709551615 <-> Z.of_N a <= Z.quot (18446744073709551616 - 1) (Z.of_N b)).
    { Z.to_euclidean_division_equations. nia. }
    destruct (Z.ltb_spec (Z.quot (18446744073709551616 - 1) (Z.of_N b)) (Z.of_N a));
      destruct (N.leb_spec (a * b) 18446744073709551615); try lia; [reflexivity|].
    rewrite Z.mod_small by lia. f_equal. lia.
Qed.

Ltac simp_idx :=
  repeat match goal with
  | |- context [go_in_range ?l ?i] =>
      let v := eval vm_compute in (go_in_range l i) in change (go_in_range l i) with v
  | |- context [go_index 0 ?l ?i] =>
      let v := eval cbv [go_index nth Z.to_nat Pos.to_nat Pos.iter_op Nat.add] in (go_index 0 l i) in progress change (go_index 0 l i) with v
  end; cbn [andb].

Definition err_dims (o : option dims) : list Z * option go_error :=
  match o with Some d => (zs d, None) | None => (go_zeros 5, Some E_safemath_ErrOverflow) end.

Lemma fees_Add_equiv (a b : dims) : length a = 5%nat -> length b = 5%nat -> u64_list a -> u64_list b ->
  fees_Add (zs a) (zs b) = Some (err_dims (dims_add a b)).
Proof.
  intros La Lb Ua Ub.
  destruct a as [|a0 [|a1 [|a2 [|a3 [|a4 [|]]]]]]; try discriminate La.
  destruct b as [|b0 [|b1 [|b2 [|b3 [|b4 [|]]]]]]; try discriminate Lb.
  unfold fees_Add, dims_add. change (go_range 0 5) with [0; 1; 2; 3; 4].
  cbn [go_for zs map opt_traverse idx5 dget nth].
  inversion_clear Ua as [|? ? Ha0 Ua1]. inversion_clear Ua1 as [|? ? Ha1 Ua2]. inversion_clear Ua2 as [|? ? Ha2 Ua3].
  inversion_clear Ua3 as [|? ? Ha3 Ua4]. inversion_clear Ua4 as [|? ? Ha4 _].
  inversion_clear Ub as [|? ? Hb0 Ub1]. inversion_clear Ub1 as [|? ? Hb1 Ub2]. inversion_clear Ub2 as [|? ? Hb2 Ub3].
  inversion_clear Ub3 as [|? ? Hb3 Ub4]. inversion_clear Ub4 as [|? ? Hb4 _].
  do 5 (simp_idx; rewrite safemath_add_chk by assumption;
        match goal with |- context [add_chk ?x ?y] => destruct (add_chk x y) end;
        cbn [is_nil negb err_dims]; [|reflexivity]).
  reflexivity.
Qed.

Definition err_u64 (o : option N) : Z * option go_error :=
  match o with Some v => (Z.of_N v, None) | None => (0, Some E_safemath_ErrOverflow) end.

Lemma add_chk_u64 a b v : add_chk a b = Some v -> (v <= MaxU64)%N.
Proof. intros H. apply add_chk_Some in H. lia. Qed.

Lemma mul_chk_u64 a b v : mul_chk a b = Some v -> (v <= MaxU64)%N.
Proof. intros H. apply mul_chk_Some in H. lia. Qed.

Ltac u64_solve :=
  first [ assumption | eapply add_chk_u64; eassumption | eapply mul_chk_u64; eassumption
        | unfold MaxU64; lia ].

Lemma fees_MulSum_equiv (a b : dims) : length a = 5%nat -> length b = 5%nat -> u64_list a -> u64_list b ->
  fees_MulSum (zs a) (zs b) = Some (err_u64 (mul_sum a b)).
Proof.
  intros La Lb Ua Ub.
  destruct a as [|a0 [|a1 [|a2 [|a3 [|a4 [|]]]]]]; try discriminate La.
  destruct b as [|b0 [|b1 [|b2 [|b3 [|b4 [|]]]]]]; try discriminate Lb.
  unfold fees_MulSum, mul_sum. change (go_range 0 5) with [0; 1; 2; 3; 4].
  cbn [go_for zs map mul_sum_from].
  inversion_clear Ua as [|? ? Ha0 Ua1]. inversion_clear Ua1 as [|? ? Ha1 Ua2]. inversion_clear Ua2 as [|? ? Ha2 Ua3].
  inversion_clear Ua3 as [|? ? Ha3 Ua4]. inversion_clear Ua4 as [|? ? Ha4 _].
  inversion_clear Ub as [|? ? Hb0 Ub1]. inversion_clear Ub1 as [|? ? Hb1 Ub2]. inversion_clear Ub2 as [|? ? Hb2 Ub3].
  inversion_clear Ub3 as [|? ? Hb3 Ub4]. inversion_clear Ub4 as [|? ? Hb4 _].
  do 5 (simp_idx; rewrite safemath_mul_chk by u64_solve;
        match goal with |- context [mul_chk ?x ?y] => destruct (mul_chk x y) eqn:? end;
        cbn [is_nil negb err_u64]; [|reflexivity];
        try match goal with |- context [safemath_add ?e 64 0 (Z.of_N ?v)] =>
              change (safemath_add e 64 0 (Z.of_N v)) with (safemath_add e 64 (Z.of_N 0) (Z.of_N v)) end;
        rewrite safemath_add_chk by u64_solve;
        match goal with |- context [add_chk ?x ?y] => destruct (add_chk x y) eqn:? end;
        cbn [is_nil negb err_u64]; [|reflexivity]).
  reflexivity.
Qed.

Ltac inv5 U H0 H1 H2 H3 H4 :=
  let U1 := fresh in let U2 := fresh in let U3 := fresh in let U4 := fresh in
  inversion_clear U as [|? ? H0 U1]; inversion_clear U1 as [|? ? H1 U2]; inversion_clear U2 as [|? ? H2 U3];
  inversion_clear U3 as [|? ? H3 U4]; inversion_clear U4 as [|? ? H4 _].

Lemma fees_Dimensions_CanAdd_equiv (d a l : dims) :
  length d = 5%nat -> length a = 5%nat -> length l = 5%nat -> u64_list d -> u64_list a ->
  fees_Dimensions_CanAdd (zs d) (zs a) (zs l) = Some (can_add d a l).
Proof.
  intros Ld La Ll Ud Ua.
  destruct d as [|d0 [|d1 [|d2 [|d3 [|d4 [|]]]]]]; try discriminate Ld.
  destruct a as [|a0 [|a1 [|a2 [|a3 [|a4 [|]]]]]]; try discriminate La.
  destruct l as [|l0 [|l1 [|l2 [|l3 [|l4 [|]]]]]]; try discriminate Ll.
  unfold fees_Dimensions_CanAdd, can_add. change (go_range 0 5) with [0; 1; 2; 3; 4].
  cbn [go_for zs map forallb idx5 dget nth].
  inv5 Ud Hd0 Hd1 Hd2 Hd3 Hd4. inv5 Ua Ha0 Ha1 Ha2 Ha3 Ha4.
  do 5 (simp_idx; rewrite safemath_add_chk by u64_solve;
        match goal with |- context [add_chk ?x ?y] => destruct (add_chk x y) eqn:? end;
        cbn [is_nil negb andb]; [|reflexivity];
        simp_idx; rewrite Z.gtb_ltb;
        match goal with |- context [Z.of_N ?x <? Z.of_N ?y] =>
          destruct (Z.ltb_spec (Z.of_N x) (Z.of_N y)); destruct (N.ltb_spec x y); try lia end;
        cbn [negb andb]; [reflexivity|]).
  reflexivity.
Qed.

(* fees.Dimensions.Greater has no counterpart in the hand-written models (it guards a fatal error
   path); its specification is stated here: every component of d is >= the one of o *)
Definition dims_greater (d o : dims) : bool := forallb (fun k => negb (dget d k <? dget o k)%N) idx5.

Lemma fees_Dimensions_Greater_equiv (d o : dims) : length d = 5%nat -> length o = 5%nat ->
  fees_Dimensions_Greater (zs d) (zs o) = Some (dims_greater d o).
Proof.
  intros Ld Lo.
  destruct d as [|d0 [|d1 [|d2 [|d3 [|d4 [|]]]]]]; try discriminate Ld.
  destruct o as [|o0 [|o1 [|o2 [|o3 [|o4 [|]]]]]]; try discriminate Lo.
  unfold fees_Dimensions_Greater, dims_greater. change (go_range 0 5) with [0; 1; 2; 3; 4].
  cbn [go_for zs map forallb idx5 dget nth].
  do 5 (simp_idx;
        match goal with |- context [Z.of_N ?x <? Z.of_N ?y] =>
          destruct (Z.ltb_spec (Z.of_N x) (Z.of_N y)); destruct (N.ltb_spec x y); try lia end;
        cbn [negb andb]; [reflexivity|]).
  reflexivity.
Qed.

(* ------------------------------------------------------------------ state/metadata *)
Lemma bytes_has_prefix_zs (s p : bytes) : bytes_has_prefix (zs s) (zs p) = has_prefix s p.
Proof.
  revert s. induction p as [|y p IH]; intros s; [reflexivity|].
  destruct s as [|x s]; [reflexivity|]. cbn [zs map bytes_has_prefix has_prefix].
  fold (zs s). fold (zs p). rewrite IH. f_equal.
  destruct (Z.eqb_spec (Z.of_N x) (Z.of_N y)); destruct (N.eqb_spec x y); lia.
Qed.

Definition zss (l : list bytes) : list (list Z) := map zs l.

Lemma inner_loop_eq (p : bytes) (verified : list bytes) :
  go_for (zss verified)
    (fun (vp : list Z) (_ : unit) =>
       if bytes_has_prefix (zs p) vp || bytes_has_prefix vp (zs p) then @Return unit bool true else Next tt) tt
  = if conflicts_any p verified then Return true else Next tt.
Proof.
  induction verified as [|q vs IH]; [reflexivity|].
  cbn [zss map go_for conflicts_any existsb]. unfold conflicts at 1.
  rewrite !bytes_has_prefix_zs.
  destruct (has_prefix p q || has_prefix q p); [reflexivity|]. exact IH.
Qed.

Lemma outer_loop_eq (ps verified : list bytes) :
  go_for (zss ps)
    (fun (p : list Z) (verifiedPrefixes : list (list Z)) =>
       match go_for verifiedPrefixes
               (fun (vp : list Z) (_ : unit) =>
                  if bytes_has_prefix p vp || bytes_has_prefix vp p then @Return unit bool true else Next tt) tt with
       | Next _ => Next (verifiedPrefixes ++ [p])
       | Return r' => Return r'
       end) (zss verified)
  = if has_conflict_from verified ps then Return true else Next (zss (verified ++ ps)).
Proof.
  revert verified. induction ps as [|p ps IH]; intros verified.
  - cbn [zss map go_for has_conflict_from]. rewrite app_nil_r. reflexivity.
  - cbn [zss map go_for has_conflict_from]. fold (zss ps). fold (zss verified).
    rewrite inner_loop_eq. destruct (conflicts_any p verified); [reflexivity|].
    replace (zss verified ++ [zs p]) with (zss (verified ++ [p])) by (unfold zss; rewrite map_app; reflexivity).
    rewrite IH. rewrite <- app_assoc. reflexivity.
Qed.

(* parameter order of the generated function: the niladic methods of chain.MetadataManager in
   declaration order (HeightPrefix, TimestampPrefix, FeePrefix) *)
Lemma metadata_HasConflictingPrefixes_equiv (height fee timestamp : bytes) (vm : list bytes) :
  metadata_HasConflictingPrefixes (zs height) (zs timestamp) (zs fee) (zss vm)
  = has_conflicting_prefixes height fee timestamp vm.
Proof.
  unfold metadata_HasConflictingPrefixes, has_conflicting_prefixes. cbv zeta.
  change ([zs height; zs fee; zs timestamp] ++ zss vm) with (zss ([height; fee; timestamp] ++ vm)).
  pose proof (outer_loop_eq ([height; fee; timestamp] ++ vm) []) as H.
  change (zss []) with (@nil (list Z)) in H. rewrite H.
  destruct (has_conflict_from [] ([height; fee; timestamp] ++ vm)); reflexivity.
Qed.

(* ------------------------------------------------------------------ internal/fees/manager.go *)
(* mulDiv never panics: bits.Div64 is reached only with hi < c *)
Lemma ifees_mulDiv_equiv (a b c : N) : (a <= MaxU64)%N -> (b <= MaxU64)%N -> (c <= MaxU64)%N ->
  ifees_mulDiv (Z.of_N a) (Z.of_N b) (Z.of_N c) = Some (Z.of_N (mul_div a b c)).
Proof.
  unfold MaxU64. intros Ha Hb Hc. unfold ifees_mulDiv, bits_mul64, mul_div, W64, MaxU64.
  change (2 ^ 64) with 18446744073709551616.
  set (p := (a * b)%N).
  replace (Z.of_N a * Z.of_N b) with (Z.of_N p) by (unfold p; lia).
  rewrite Z.quot_div_nonneg, Z.rem_mod_nonneg by lia.
  change 18446744073709551616 with (Z.of_N 18446744073709551616).
  rewrite <- N2Z.inj_div, <- N2Z.inj_mod.
  set (hi := (p / 18446744073709551616)%N). set (lo := (p mod 18446744073709551616)%N).
  rewrite Z.geb_leb.
  destruct (Z.leb_spec (Z.of_N c) (Z.of_N hi)); destruct (N.leb_spec c hi); try lia; [reflexivity|].
  unfold bits_div64_ok, bits_div64.
  destruct (Z.eqb_spec (Z.of_N c) 0); [lia|].
  destruct (Z.ltb_spec (Z.of_N hi) (Z.of_N c)); [|lia]. cbn [negb andb].
  f_equal. rewrite Z.quot_div_nonneg by lia.
  rewrite N2Z.inj_div, N2Z.inj_add, N2Z.inj_mul. reflexivity.
Qed.

(* ------------------------------------------------------------------ Model/Units.v (C12)
   carries its own copies of keys.Valid and keys.MaxChunks; they are the same functions *)
Lemma units_max_chunks_eq (k : bytes) : Units.max_chunks k = Keys.max_chunks k.
Proof.
  unfold Units.max_chunks. destruct (Nat.ltb_spec (length k) 2) as [Hs|Hs].
  - symmetry. apply max_chunks_short'. exact Hs.
  - destruct (split_last2 k Hs) as [pre [hi [lo ->]]]. rewrite max_chunks_app2.
    rewrite app_length. cbn [length].
    rewrite (skipn_app_exact pre [hi; lo]) by lia.
    unfold be_dec. cbn [fold_left]. f_equal; lia.
Qed.

Lemma keys_MaxChunks_equiv_units (k : bytes) : len_ok k ->
  keys_MaxChunks (zs k) = Some (ok_pair (Units.max_chunks k)).
Proof. intros H. rewrite units_max_chunks_eq. apply keys_MaxChunks_equiv. exact H. Qed.

Lemma keys_Valid_equiv_units (k : bytes) : keys_Valid (zs k) = Units.key_valid k.
Proof. apply keys_Valid_equiv. Qed.

(* ------------------------------------------------------------------ internal/window/window.go
   A Window is [80]byte = 10 big-endian uint64; Model/Fees.v keeps the 10 slot values.
   [win_bytes w] is the byte array of the slot list [w]. *)
Definition win_bytes (w : window) : list Z := zs (flat_map be64 w).

Lemma win_bytes_cons x w : win_bytes (x :: w) = zs (be64 x) ++ win_bytes w.
Proof. unfold win_bytes. cbn [flat_map]. apply zs_app. Qed.

Lemma win_bytes_app a b : win_bytes (a ++ b) = win_bytes a ++ win_bytes b.
Proof. unfold win_bytes. rewrite flat_map_app. apply zs_app. Qed.

Lemma zs_length l : length (zs l) = length l.
Proof. apply map_length. Qed.

Lemma zs_be64_length x : length (zs (be64 x)) = 8%nat.
Proof. rewrite zs_length. apply be64_length. Qed.

Lemma win_bytes_length w : length (win_bytes w) = (8 * length w)%nat.
Proof.
  induction w as [|x w IH]; [reflexivity|].
  rewrite win_bytes_cons, app_length, zs_be64_length, IH. cbn [length]. lia.
Qed.

Lemma skipn_app_plus {A} (a b : list A) n m : length a = n -> skipn (n + m) (a ++ b) = skipn m b.
Proof.
  intros <-. rewrite skipn_app. rewrite skipn_all2 by lia.
  replace (length a + m - length a)%nat with m by lia. reflexivity.
Qed.

Lemma firstn_app_plus {A} (a b : list A) n m : length a = n -> firstn (n + m) (a ++ b) = a ++ firstn m b.
Proof.
  intros <-. rewrite firstn_app. rewrite firstn_all2 by lia.
  replace (length a + m - length a)%nat with m by lia. reflexivity.
Qed.

Lemma skipn_win k : forall w, skipn (8 * k) (win_bytes w) = win_bytes (skipn k w).
Proof.
  induction k as [|k IH]; intros w; [reflexivity|].
  destruct w as [|x w]; [rewrite !skipn_nil; reflexivity|].
  rewrite win_bytes_cons. replace (8 * S k)%nat with (8 + 8 * k)%nat by lia.
  rewrite skipn_app_plus by apply zs_be64_length. cbn [skipn]. apply IH.
Qed.

Lemma firstn_win k : forall w, firstn (8 * k) (win_bytes w) = win_bytes (firstn k w).
Proof.
  induction k as [|k IH]; intros w; [reflexivity|].
  destruct w as [|x w]; [rewrite !firstn_nil; reflexivity|].
  rewrite win_bytes_cons. replace (8 * S k)%nat with (8 + 8 * k)%nat by lia.
  rewrite firstn_app_plus by apply zs_be64_length. cbn [firstn]. rewrite win_bytes_cons, IH. reflexivity.
Qed.

(* x[lo:] of the byte array = the bytes of the slots from lo/8 on *)
Lemma go_slice_win (w : window) (k : nat) :
  go_slice (win_bytes w) (Z.of_nat (8 * k)) (go_len (win_bytes w)) = win_bytes (skipn k w).
Proof.
  unfold go_slice, go_len. rewrite Nat2Z.id, skipn_win. apply firstn_all2.
  rewrite !win_bytes_length, skipn_length. lia.
Qed.

(* reading a big-endian uint64 *)
Lemma be_uint_from_app (l1 l2 : list Z) : forall m acc,
  be_uint_from (length l1 + m) (l1 ++ l2) acc = be_uint_from m l2 (fold_left (fun a b => a * 256 + b) l1 acc).
Proof.
  induction l1 as [|x l1 IH]; intros m acc; [reflexivity|].
  cbn [length Nat.add app be_uint_from fold_left]. apply IH.
Qed.

Lemma fold_left_zs (l : list N) : forall a : N,
  fold_left (fun a b => a * 256 + b) (zs l) (Z.of_N a) = Z.of_N (fold_left (fun acc b => acc * 256 + b)%N l a).
Proof.
  induction l as [|x l IH]; intros a; [reflexivity|].
  cbn [zs map fold_left]. fold (zs l). rewrite <- IH. f_equal. lia.
Qed.

Lemma be_uint64_be64 (x : N) (rest : list Z) : (x <= MaxU64)%N ->
  be_uint64 (zs (be64 x) ++ rest) = Z.of_N x.
Proof.
  intros Hx. unfold be_uint64.
  change 8%nat with (8 + 0)%nat. rewrite <- (zs_be64_length x) at 1.
  rewrite be_uint_from_app. cbn [be_uint_from].
  change 0 with (Z.of_N 0). rewrite fold_left_zs.
  change (fold_left (fun acc b : N => (acc * 256 + b)%N) (be64 x) 0%N) with (be_dec (be64 x)).
  rewrite be64_roundtrip by exact Hx. reflexivity.
Qed.

(* writing a big-endian uint64 *)
Lemma zs_be_enc n : forall v, zs (be_enc n v) = be_bytes n (Z.of_N v).
Proof.
  induction n as [|n IH]; intros v; [reflexivity|].
  cbn [be_enc be_bytes]. rewrite zs_app, IH. f_equal.
  - f_equal. rewrite Z.shiftr_div_pow2 by lia. rewrite N2Z.inj_div. reflexivity.
  - unfold zs. cbn [map]. unfold wrap_u8, wrap_u. rewrite N2Z.inj_mod. reflexivity.
Qed.

Lemma go_range_cons lo hi : lo < hi -> go_range lo hi = lo :: go_range (lo + 1) hi.
Proof.
  intros H. unfold go_range.
  replace (Z.to_nat (hi - lo)) with (S (Z.to_nat (hi - (lo + 1)))) by lia.
  cbn [seq map]. f_equal; [lia|].
  rewrite <- seq_shift, map_map. apply map_ext. intros k. lia.
Qed.

Lemma go_range_nil lo hi : hi <= lo -> go_range lo hi = [].
Proof. intros H. unfold go_range. replace (Z.to_nat (hi - lo)) with 0%nat by lia. reflexivity. Qed.

(* wsum_from with the overflow made explicit *)
Fixpoint wsum_opt (l : list N) (acc : N) : option N :=
  match l with
  | [] => Some acc
  | x :: l' => match add_chk acc x with None => None | Some s => wsum_opt l' s end
  end.

Lemma wsum_from_opt l : forall acc, wsum_from l acc = match wsum_opt l acc with Some s => s | None => MaxU64 end.
Proof.
  induction l as [|x l IH]; intros acc; [reflexivity|].
  cbn [wsum_from wsum_opt]. destruct (add_chk acc x); [apply IH|reflexivity].
Qed.

Lemma skipn_cons_nth {A} (d : A) (l : list A) i : (i < length l)%nat -> skipn i l = nth i l d :: skipn (S i) l.
Proof.
  revert l. induction i as [|i IH]; intros [|x l] H; cbn [length] in H; try lia; [reflexivity|].
  cbn [skipn nth]. rewrite (IH l) by lia. reflexivity.
Qed.

Lemma Forall_nth_u64 (w : list N) i : u64_list w -> (i < length w)%nat -> (nth i w 0%N <= MaxU64)%N.
Proof. intros H Hi. unfold u64_list in H. rewrite Forall_forall in H. apply H. apply nth_In. exact Hi. Qed.

Lemma window_Sum_loop (w : window) : u64_list w -> Z.of_nat (8 * length w) < 2 ^ 63 ->
  forall j i acc, (i + j = length w)%nat -> (acc <= MaxU64)%N ->
  go_for (go_range (Z.of_nat i) (Z.of_nat (i + j)))
    (fun (i : Z) (st' : Z * option go_error) =>
       let '(sum, overflow) := st' in
       if go_slice_ok (wrap_i64 (8 * i)) (go_len (win_bytes w)) (go_len (win_bytes w))
          && (8 <=? go_len (go_slice (win_bytes w) (wrap_i64 (8 * i)) (go_len (win_bytes w))))
       then
         let '(sum0, overflow0) :=
           safemath_add E_safemath_ErrOverflow 64 sum
             (be_uint64 (go_slice (win_bytes w) (wrap_i64 (8 * i)) (go_len (win_bytes w)))) in
         if negb (is_nil overflow0) then Return (Some 18446744073709551615) else Next (sum0, overflow0)
       else Return None)
    (Z.of_N acc, None)
  = match wsum_opt (skipn i w) acc with
    | Some s => Next (Z.of_N s, None)
    | None => Return (Some 18446744073709551615)
    end.
Proof.
  intros Hu Hlen j. induction j as [|j IH]; intros i acc Hij Hacc.
  - rewrite go_range_nil by lia. rewrite skipn_all2 by lia. reflexivity.
  - rewrite go_range_cons by lia. cbn [go_for].
    assert (Hi : (i < length w)%nat) by lia.
    rewrite wrap_i64_small by (unfold in_i64; lia).
    replace (8 * Z.of_nat i) with (Z.of_nat (8 * i)) by lia.
    rewrite go_slice_win. rewrite (skipn_cons_nth 0%N w i Hi). rewrite win_bytes_cons.
    match goal with |- context [if (?a && ?b) then _ else Return None] => replace (a && b) with true end.
    2:{ symmetry. unfold go_slice_ok, go_len. rewrite app_length, zs_be64_length, !win_bytes_length. lia. }
    rewrite be_uint64_be64 by (apply Forall_nth_u64; assumption).
    rewrite safemath_add_chk by (try assumption; apply Forall_nth_u64; assumption).
    cbn [wsum_opt]. destruct (add_chk acc (nth i w 0%N)) as [s|] eqn:E; cbn [is_nil negb]; [|reflexivity].
    replace (Z.of_nat i + 1) with (Z.of_nat (S i)) by lia.
    replace (i + S j)%nat with (S i + j)%nat by lia.
    apply IH; [lia | eapply add_chk_u64; exact E].
Qed.

Lemma window_Sum_equiv (w : window) : length w = 10%nat -> u64_list w ->
  window_Sum (win_bytes w) = Some (Z.of_N (wsum w)).
Proof.
  intros Hl Hu. unfold window_Sum, wsum. cbv zeta.
  pose proof (window_Sum_loop w Hu) as H. rewrite Hl in H.
  specialize (H ltac:(cbn; lia) 10%nat 0%nat 0%N ltac:(lia) ltac:(unfold MaxU64; lia)).
  change (Z.of_nat 0) with 0 in H. change (Z.of_nat (0 + 10)) with 10 in H. change (Z.of_N 0) with 0 in H.
  rewrite H. change (skipn 0 w) with w. rewrite wsum_from_opt.
  destruct (wsum_opt w 0%N); reflexivity.
Qed.

Lemma skipn_repeat {A} (a : A) n m : skipn n (repeat a m) = repeat a (m - n).
Proof.
  revert m. induction n as [|n IH]; intros m; [rewrite Nat.sub_0_r; reflexivity|].
  destruct m as [|m]; [reflexivity|]. cbn [repeat skipn Nat.sub]. apply IH.
Qed.

Lemma firstn_repeat {A} (a : A) n m : (n <= m)%nat -> firstn n (repeat a m) = repeat a n.
Proof.
  revert m. induction n as [|n IH]; intros m H; [reflexivity|].
  destruct m as [|m]; [lia|]. cbn [repeat firstn]. f_equal. apply IH. lia.
Qed.

Lemma win_bytes_zeros k : win_bytes (repeat 0%N k) = repeat 0 (8 * k).
Proof.
  induction k as [|k IH]; [reflexivity|].
  cbn [repeat]. rewrite win_bytes_cons, IH. replace (8 * S k)%nat with (8 + 8 * k)%nat by lia.
  rewrite repeat_app. reflexivity.
Qed.

Lemma roll_small (w : window) (k : nat) : length w = 10%nat -> (k <= 10)%nat ->
  firstn 10 (skipn k w ++ zero_window) = skipn k w ++ repeat 0%N k.
Proof.
  intros Hl Hk. rewrite firstn_app, skipn_length, Hl.
  rewrite firstn_all2 by (rewrite skipn_length; lia). f_equal.
  unfold zero_window. rewrite firstn_repeat by lia. f_equal. lia.
Qed.

Lemma window_Roll_equiv (w : window) (r : N) : length w = 10%nat -> (r <= MaxU64)%N ->
  window_Roll (win_bytes w) (Z.of_N r) = Some (win_bytes (roll w r)).
Proof.
  unfold MaxU64. intros Hl Hr. unfold window_Roll, roll, WindowSize. cbv zeta. rewrite Z.gtb_ltb.
  destruct (Z.ltb_spec 10 (Z.of_N r)) as [H|H]; destruct (N.ltb_spec 10 r) as [H'|H']; try lia; [reflexivity|].
  set (k := N.to_nat r). assert (Hk : (k <= 10)%nat) by lia.
  replace (wrap_u64 (Z.of_N r * 8)) with (Z.of_nat (8 * k))
    by (unfold wrap_u64, wrap_u; rewrite Z.mod_small by lia; lia).
  rewrite go_slice_win. rewrite roll_small by assumption.
  cond_true.
  2:{ unfold go_slice_ok, go_len. change (go_zeros 80) with (repeat 0 80%nat). rewrite win_bytes_length, Hl, repeat_length. lia. }
  f_equal. rewrite win_bytes_app, win_bytes_zeros.
  unfold go_copy_at. change (go_zeros 80) with (repeat 0 80%nat). change (Z.to_nat 0) with 0%nat.
  rewrite repeat_length. change (firstn 0 (repeat 0 80%nat)) with (@nil Z). rewrite app_nil_l, Nat.add_0_l, Nat.sub_0_r.
  assert (HS : length (win_bytes (skipn k w)) = (8 * (10 - k))%nat)
    by (rewrite win_bytes_length, skipn_length, Hl; reflexivity).
  rewrite HS. rewrite Nat.min_r by lia. rewrite <- HS, firstn_all, HS. f_equal.
  rewrite skipn_repeat. f_equal. lia.
Qed.

Lemma wupdate_app (pre post : list N) x v :
  wupdate (pre ++ x :: post) (length pre) v = pre ++ sat_add x v :: post.
Proof. induction pre as [|p pre IH]; [reflexivity|]. cbn [app length wupdate]. rewrite IH. reflexivity. Qed.

Lemma split_at {A} (d : A) (l : list A) i : (i < length l)%nat ->
  l = firstn i l ++ nth i l d :: skipn (S i) l.
Proof. intros H. rewrite <- (skipn_cons_nth d l i H). symmetry. apply firstn_skipn. Qed.

Lemma wupdate_split (w : list N) : forall slot v, (slot < length w)%nat ->
  wupdate w slot v = firstn slot w ++ sat_add (nth slot w 0%N) v :: skipn (S slot) w.
Proof.
  induction w as [|a w IH]; intros slot v H; cbn [length] in H; [lia|].
  destruct slot as [|slot]; [reflexivity|].
  cbn [wupdate firstn nth skipn app]. f_equal. apply IH. lia.
Qed.

Lemma window_Update_equiv (w : window) (slot : nat) (v : N) :
  (slot < length w)%nat -> Z.of_nat (8 * length w) < 2 ^ 63 -> u64_list w -> (v <= MaxU64)%N ->
  window_Update (win_bytes w) (Z.of_nat (8 * slot)) (Z.of_N v) = Some (win_bytes (wupdate w slot v)).
Proof.
  intros Hs Hlen Hu Hv. unfold window_Update.
  rewrite go_slice_win.
  set (x := nth slot w 0%N). assert (Hx : (x <= MaxU64)%N) by (apply Forall_nth_u64; assumption).
  rewrite (skipn_cons_nth 0%N w slot Hs). fold x. rewrite win_bytes_cons.
  cond_true.
  2:{ unfold go_slice_ok, go_len. rewrite app_length, zs_be64_length, !win_bytes_length. lia. }
  cbv zeta. rewrite be_uint64_be64 by exact Hx. rewrite safemath_add_chk by assumption.
  assert (Hput : forall t : N,
    (if go_slice_ok (Z.of_nat (8 * slot)) (go_len (win_bytes w)) (go_len (win_bytes w))
        && (8 <=? go_len (win_bytes w) - Z.of_nat (8 * slot))
     then Some (be_put_uint 8 (win_bytes w) (Z.of_nat (8 * slot)) (Z.of_N t)) else None)
    = Some (win_bytes (firstn slot w ++ t :: skipn (S slot) w))).
  { intros t. cond_true.
    2:{ unfold go_slice_ok, go_len. rewrite !win_bytes_length. lia. }
    f_equal. unfold be_put_uint. rewrite Nat2Z.id. change (Z.to_nat 8) with 8%nat.
    rewrite firstn_win. replace (8 * slot + 8)%nat with (8 * S slot)%nat by lia. rewrite skipn_win.
    rewrite <- zs_be_enc. rewrite win_bytes_app, win_bytes_cons. reflexivity. }
  rewrite (wupdate_split w slot v Hs). fold x. unfold sat_add.
  destruct (add_chk x v) as [s|]; cbn [is_nil negb].
  - apply Hput.
  - change 18446744073709551615 with (Z.of_N MaxU64). apply Hput.
Qed.

Lemma window_Last_equiv (w : window) : length w = 10%nat -> u64_list w ->
  window_Last (win_bytes w) = Some (Z.of_N (wlast w)).
Proof.
  intros Hl Hu. unfold window_Last, wlast.
  change 72 with (Z.of_nat (8 * 9)). rewrite go_slice_win.
  rewrite (skipn_cons_nth 0%N w 9) by lia. rewrite win_bytes_cons.
  cond_true.
  2:{ unfold go_slice_ok, go_len. rewrite app_length, zs_be64_length, !win_bytes_length. lia. }
  rewrite be_uint64_be64 by (apply Forall_nth_u64; [assumption|lia]). reflexivity.
Qed.

(* ------------------------------------------------------------------ internal/fees/manager.go: computeNextPriceWindow *)
Lemma In_firstn' {A} (x : A) n l : In x (firstn n l) -> In x l.
Proof. intros H. rewrite <- (firstn_skipn n l). apply in_or_app. left. exact H. Qed.
Lemma In_skipn' {A} (x : A) n l : In x (skipn n l) -> In x l.
Proof. intros H. rewrite <- (firstn_skipn n l). apply in_or_app. right. exact H. Qed.

Lemma roll_u64 (w : window) r : u64_list w -> u64_list (roll w r).
Proof.
  intros Hu. unfold roll, u64_list, zero_window.
  destruct (WindowSize <? r)%N.
  - apply Forall_forall. intros x Hx. apply repeat_spec in Hx. subst. unfold MaxU64. lia.
  - apply Forall_forall. intros x Hx. apply In_firstn' in Hx. apply in_app_or in Hx. destruct Hx as [Hx|Hx].
    + apply In_skipn' in Hx. unfold u64_list in Hu. rewrite Forall_forall in Hu. apply Hu. exact Hx.
    + apply repeat_spec in Hx. subst. unfold MaxU64. lia.
Qed.

Lemma roll_len10 (w : window) r : length w = 10%nat -> length (roll w r) = 10%nat.
Proof.
  intros Hl. unfold roll, zero_window. destruct (WindowSize <? r)%N; [apply repeat_length|].
  rewrite firstn_length, app_length, skipn_length, repeat_length. lia.
Qed.

Lemma wupdate_u64 (w : window) : forall s v, u64_list w -> u64_list (wupdate w s v).
Proof.
  induction w as [|a w IH]; intros s v Hu; [constructor|].
  inversion_clear Hu as [|? ? Ha Hw]. destruct s as [|s]; cbn [wupdate].
  - constructor; [apply sat_add_u64|exact Hw].
  - constructor; [exact Ha|apply IH; exact Hw].
Qed.

Lemma wupdate_len (w : window) : forall s v, length (wupdate w s v) = length w.
Proof. induction w as [|a w IH]; intros [|s] v; cbn [wupdate length]; try reflexivity. rewrite IH. reflexivity. Qed.

Lemma ltb_N a b : (Z.of_N a <? Z.of_N b) = (a <? b)%N.
Proof. destruct (Z.ltb_spec (Z.of_N a) (Z.of_N b)); destruct (N.ltb_spec a b); lia. Qed.
Lemma gtb_N a b : (Z.of_N a >? Z.of_N b) = (b <? a)%N.
Proof. rewrite Z.gtb_ltb. apply ltb_N. Qed.
Lemma eqb_N a b : (Z.of_N a =? Z.of_N b) = (a =? b)%N.
Proof. destruct (Z.eqb_spec (Z.of_N a) (Z.of_N b)); destruct (N.eqb_spec a b); lia. Qed.
Lemma quot_N a b : Z.quot (Z.of_N a) (Z.of_N b) = Z.of_N (a / b).
Proof.
  destruct (N.eq_dec b 0) as [->|Hb]; [destruct a; reflexivity|].
  rewrite Z.quot_div_nonneg by lia. symmetry. apply N2Z.inj_div.
Qed.
Lemma div_u64 a b : (a <= MaxU64)%N -> (a / b <= MaxU64)%N.
Proof.
  intros H. destruct (N.eq_dec b 0) as [->|Hb]; [replace (a / 0)%N with 0%N by (destruct a; reflexivity); unfold MaxU64; lia|].
  pose proof (N.div_le_mono a MaxU64 b Hb H). pose proof (N.div_le_upper_bound MaxU64 b MaxU64 Hb).
  assert (MaxU64 <= b * MaxU64)%N by nia. lia.
Qed.

Lemma safemath_sub_chk (e : go_error) a b : (a <= MaxU64)%N -> (b <= MaxU64)%N ->
  safemath_sub e 64 (Z.of_N a) (Z.of_N b) =
  match sub_chk a b with Some v => (Z.of_N v, None) | None => (0, Some e) end.
Proof.
  unfold safemath_sub, sub_chk, wrap_u, MaxU64. intros Ha Hb. rewrite ltb_N.
  destruct (N.ltb_spec a b); destruct (N.leb_spec b a); try lia; [reflexivity|].
  change (2 ^ 64) with 18446744073709551616. rewrite Z.mod_small by lia. f_equal. lia.
Qed.

Ltac u64s :=
  first [ assumption | apply mul_div_u64 | apply div_u64; u64s
        | eapply add_chk_u64; eassumption | eapply mul_chk_u64; eassumption
        | unfold MaxU64 in *; lia ].

Lemma sub_chk_u64 a b v : (a <= MaxU64)%N -> sub_chk a b = Some v -> (v <= MaxU64)%N.
Proof. intros Ha H. apply sub_chk_Some in H. lia. Qed.

Ltac fin :=
  repeat (first
    [ match goal with |- context [if (?a <? ?b)%N then _ else _] =>
        lazymatch a with
        | context [add_chk] => fail | context [mul_chk] => fail | context [sub_chk] => fail
        | _ => destruct (a <? b)%N eqn:?
        end
      end
    | rewrite safemath_add_chk by u64s
    | rewrite safemath_mul_chk by u64s
    | rewrite safemath_sub_chk by u64s
    | progress rewrite ?ltb_N, ?quot_N
    | match goal with |- context [match add_chk ?a ?b with _ => _ end] => destruct (add_chk a b) eqn:? end
    | match goal with |- context [match mul_chk ?a ?b with _ => _ end] => destruct (mul_chk a b) eqn:? end
    | match goal with |- context [match sub_chk ?a ?b with _ => _ end] => destruct (sub_chk a b) eqn:? end
    | progress cbn [is_nil negb]
    | progress cbv beta iota ]);
  try reflexivity; try congruence.

Lemma ifees_computeNextPriceWindow_equiv (w : window) (pc pp target denom minp since : N) :
  length w = 10%nat -> u64_list w ->
  (pc <= MaxU64)%N -> (pp <= MaxU64)%N -> (target <= MaxU64)%N -> (denom <= MaxU64)%N -> (minp <= MaxU64)%N ->
  (since <= MaxU64)%N -> (0 < denom)%N ->
  ifees_computeNextPriceWindow (win_bytes w) (Z.of_N pc) (Z.of_N pp) (Z.of_N target) (Z.of_N denom)
                               (Z.of_N minp) (Z.of_N since)
  = Some (Z.of_N (fst (compute_next_price_window w pc pp target denom minp since)),
          win_bytes (snd (compute_next_price_window w pc pp target denom minp since))).
Proof.
  intros Hl Hu Hpc Hpp Htg Hdn Hmp Hsi Hd0.
  unfold ifees_computeNextPriceWindow, compute_next_price_window. cbn [fst snd].
  rewrite window_Roll_equiv by assumption.
  set (rw := roll w since).
  assert (Hrl : length rw = 10%nat) by (apply roll_len10; exact Hl).
  assert (Hru : u64_list rw) by (apply roll_u64; exact Hu).
  set (nw := Fees.new_window w pc since).
  assert (Hnl : length nw = 10%nat).
  { unfold nw, Fees.new_window. fold rw. destruct (since <? WindowSize)%N; [rewrite wupdate_len|]; exact Hrl. }
  assert (Hnu : u64_list nw).
  { unfold nw, Fees.new_window. fold rw. destruct (since <? WindowSize)%N; [apply wupdate_u64|]; exact Hru. }
  (* the part after the window update is a function [tail] of the window bytes *)
  cbv beta iota.
  match goal with
  | |- (if _ then match _ with Some x => @?K x | None => None end else _) = _ => set (tail := K)
  end.
  match goal with |- (if _ then _ else ?B) = _ => change B with (tail (win_bytes rw)) end.
  assert (Hwin : (if Z.of_N since <? 10 then
                    match window_Update (win_bytes rw) (wrap_i64 (wrap_i64 (9 - wrap_i64 (Z.of_N since)) * 8)) (Z.of_N pc) with
                    | Some x => tail x | None => None end
                  else tail (win_bytes rw)) = tail (win_bytes nw)).
  { unfold nw, Fees.new_window, WindowSize. fold rw.
    destruct (Z.ltb_spec (Z.of_N since) 10) as [H|H]; destruct (N.ltb_spec since 10) as [H'|H']; try lia; [|reflexivity].
    rewrite (wrap_i64_small (Z.of_N since)) by (unfold in_i64; lia).
    rewrite (wrap_i64_small (9 - Z.of_N since)) by (unfold in_i64; lia).
    rewrite wrap_i64_small by (unfold in_i64; lia).
    replace ((9 - Z.of_N since) * 8) with (Z.of_nat (8 * (9 - N.to_nat since))) by lia.
    rewrite window_Update_equiv by (try assumption; rewrite ?Hrl; cbn; lia). reflexivity. }
  match type of Hwin with ?L = _ => match goal with |- ?G = _ => change G with L end end.
  rewrite Hwin. clear Hwin. unfold tail. clear tail. cbv beta.
  rewrite window_Sum_equiv by assumption.
  assert (HT : (wsum nw <= MaxU64)%N) by (rewrite wsum_spec; lia).
  set (T := wsum nw) in *. set (W := win_bytes nw).
  unfold next_price, WindowSize, sat_add, sat_mul, sat_sub.
  change 18446744073709551615 with (Z.of_N MaxU64). change 1 with (Z.of_N 1). change 0 with (Z.of_N 0).
  change 10 with (Z.of_N 10).
  rewrite !gtb_N, !ltb_N, !eqb_N.
  destruct (N.eqb_spec denom 0) as [Hz|_]; [lia|]. cbn [negb].
  destruct (N.ltb_spec target T) as [Hup|Hup].
  - replace (wrap_u64 (Z.of_N T - Z.of_N target)) with (Z.of_N (T - target))
      by (unfold wrap_u64, wrap_u, MaxU64 in *; rewrite Z.mod_small by lia; lia).
    rewrite ifees_mulDiv_equiv by u64s. cbv beta iota. rewrite !quot_N, !ltb_N.
    fin.
  - destruct (N.ltb_spec T target) as [Hdown|Hdown]; [|fin].
    replace (wrap_u64 (Z.of_N target - Z.of_N T)) with (Z.of_N (target - T))
      by (unfold wrap_u64, wrap_u, MaxU64 in *; rewrite Z.mod_small by lia; lia).
    rewrite ifees_mulDiv_equiv by u64s. cbv beta iota. rewrite !quot_N, !ltb_N.
    fin.
Qed.

(* ------------------------------------------------------------------ summary *)
Definition gen_tie_all :=
  (keys_Valid_equiv, keys_MaxChunks_equiv, keys_DecodeChunks_equiv, keys_numChunks_equiv, keys_NumChunks_equiv,
   keys_VerifyValue_equiv, keys_Verify_equiv, keys_Encode_equiv, keys_EncodeChunks_equiv,
   state_Permissions_Has_equiv, validitywindow_VerifyTimestamp_equiv, validitywindow_VerifyTimestamp_equiv_static,
   fees_Add_equiv, fees_MulSum_equiv, fees_Dimensions_CanAdd_equiv, fees_Dimensions_Greater_equiv,
   metadata_HasConflictingPrefixes_equiv, ifees_mulDiv_equiv, keys_MaxChunks_equiv_units, keys_Valid_equiv_units,
   window_Sum_equiv, window_Roll_equiv, window_Update_equiv, window_Last_equiv, ifees_computeNextPriceWindow_equiv).
Print Assumptions gen_tie_all.
