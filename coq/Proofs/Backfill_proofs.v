(* Proofs about Model/Backfill.v: what the backfill client emits is always the hash-linked
   ancestry of the start block, whatever the peers answer. *)
From Coq Require Import List NArith ZArith Bool Lia ZifyN ZifyNat ZifyBool.
Import ListNotations.
From HV Require Import Model.ValidityWindow Model.Backfill Proofs.ValidityWindow_proofs.
Local Open Scope Z_scope.

(* [chain_from tree start l]: l = parent of start, grandparent, ... (each one the block the tree
   holds for the previous one's parent id), in this order *)
Inductive chain_from (tree : index) : block -> list block -> Prop :=
| cf_nil start : chain_from tree start []
| cf_cons start b l : tree (b_parent start) = Some b -> chain_from tree b l -> chain_from tree start (b :: l).

Lemma last_indep {A} : forall (l : list A) (d d' : A), l <> [] -> last l d = last l d'.
Proof.
  induction l as [|a l IH]; intros d d' Hne; [contradiction|].
  destruct l as [|c l]; [reflexivity|]. cbn [last]. cbn [last] in IH. apply IH. discriminate.
Qed.

Lemma chain_snoc tree : forall l start b,
  chain_from tree start l -> tree (b_parent (last l start)) = Some b -> chain_from tree start (l ++ [b]).
Proof.
  induction l as [|a l IH]; intros start b Hc Hb; cbn [app].
  - cbn [last] in Hb. constructor; [exact Hb | constructor].
  - inversion Hc; subst. constructor; [assumption|]. apply IH; [assumption|].
    destruct l as [|c l]; [exact Hb|].
    rewrite (last_indep (c :: l) a start); [|discriminate]. exact Hb.
Qed.

Lemma last_snoc {A} (l : list A) (x d : A) : last (l ++ [x]) d = x.
Proof. induction l as [|a l IH]; [reflexivity|]. cbn [app]. destruct (l ++ [x]) eqn:E; [destruct l; discriminate | exact IH]. Qed.

Section Client.
Variable R : Type.
Variable parse : R -> option block.
Variable tree : index.
(* hash oracle: every parseable byte string is a block whose id is its hash, and [tree] is the
   inverse of the hash on blocks: an id determines the block *)
Hypothesis ORACLE : forall r b, parse r = Some b -> tree (b_id b) = Some b.

(* ---- extension: the emitted list only grows ---- *)
Lemma consume_ext min : forall raws expected last acc,
  exists ext, snd (fst (consume parse min expected raws last acc)) = acc ++ ext.
Proof.
  induction raws as [|raw raws IH]; intros expected last acc; cbn [consume].
  - exists []. cbn. rewrite app_nil_r. reflexivity.
  - destruct (parse raw) as [b|]; [|exists []; cbn; rewrite app_nil_r; reflexivity].
    destruct (negb (expected =? b_id b)%N); [exists []; cbn; rewrite app_nil_r; reflexivity|].
    destruct (fin min b); [exists [b]; reflexivity|].
    destruct (IH (b_parent b) b (acc ++ [b])) as [ext Hext]. exists (b :: ext).
    rewrite Hext, <- app_assoc. reflexivity.
Qed.

Lemma client_ext : forall resps min last acc reqs,
  exists ext, fst (fst (client parse resps min last acc reqs)) = acc ++ ext.
Proof.
  induction resps as [|r resps IH]; intros min last acc reqs; cbn [client].
  - destruct (fin min last); exists []; cbn; rewrite app_nil_r; reflexivity.
  - destruct (fin min last); [exists []; cbn; rewrite app_nil_r; reflexivity|].
    destruct (r_blocks r) as [raws|]; [|apply IH].
    destruct (consume_ext (r_min r) raws (b_parent last) last acc) as [e1 He1].
    destruct (snd (consume parse (r_min r) (b_parent last) raws last acc)).
    + exists e1. cbn [fst]. exact He1.
    + destruct (IH (r_min r) (fst (fst (consume parse (r_min r) (b_parent last) raws last acc)))
                  (snd (fst (consume parse (r_min r) (b_parent last) raws last acc)))
                  (reqs ++ [pred64 (b_height last)])) as [e2 He2].
      exists (e1 ++ e2). rewrite He2, He1, app_assoc. reflexivity.
Qed.

(* ---- linkage ---- *)
Definition InvC (start last : block) (acc : list block) : Prop :=
  chain_from tree start acc /\ last = List.last acc start.

Lemma consume_inv min start : forall raws last acc,
  InvC start last acc ->
  InvC start (fst (fst (consume parse min (b_parent last) raws last acc)))
             (snd (fst (consume parse min (b_parent last) raws last acc))).
Proof.
  induction raws as [|raw raws IH]; intros last acc HI; cbn [consume]; [exact HI|].
  destruct (parse raw) as [b|] eqn:Hp; [|exact HI].
  destruct (N.eqb_spec (b_parent last) (b_id b)) as [Heq|Hne]; cbn [negb]; [|exact HI].
  assert (InvC start b (acc ++ [b])) as HI'.
  { destruct HI as [Hc Hl]. split; [|symmetry; apply last_snoc].
    apply chain_snoc; [exact Hc|]. rewrite <- Hl, Heq. exact (ORACLE _ _ Hp). }
  destruct (fin min b); [exact HI'|]. apply IH. exact HI'.
Qed.

Lemma client_inv start : forall resps min last acc reqs,
  InvC start last acc -> chain_from tree start (fst (fst (client parse resps min last acc reqs))).
Proof.
  induction resps as [|r resps IH]; intros min last acc reqs HI; cbn [client].
  - destruct (fin min last); exact (proj1 HI).
  - destruct (fin min last); [exact (proj1 HI)|].
    destruct (r_blocks r) as [raws|]; [|apply IH; exact HI].
    pose proof (consume_inv (r_min r) start raws last acc HI) as HI'.
    destruct (snd (consume parse (r_min r) (b_parent last) raws last acc)); [exact (proj1 HI')|].
    apply IH. exact HI'.
Qed.

(* ---- exactness for a constant minimum ---- *)
(* [l] ends with its first block that passes the completion test (ts < min, or genesis) *)
Definition below_last (min : Z) (l : list block) : Prop :=
  exists l' z, l = l' ++ [z] /\ fin min z = true /\ forall b, In b l' -> fin min b = false.

Lemma consume_exact min : forall raws expected last acc,
  (forall b, In b acc -> fin min b = false) -> fin min last = false ->
  let c := consume parse min expected raws last acc in
  if snd c then below_last min (snd (fst c))
  else (forall b, In b (snd (fst c)) -> fin min b = false) /\ fin min (fst (fst c)) = false.
Proof.
  induction raws as [|raw raws IH]; intros expected last acc Hacc Hl; cbn [consume]; [cbn; tauto|].
  destruct (parse raw) as [b|]; [|cbn; tauto].
  destruct (negb (expected =? b_id b)%N); [cbn; tauto|].
  destruct (fin min b) eqn:Hf.
  - cbn [snd fst]. exists acc, b. repeat split; assumption.
  - apply IH; [|exact Hf]. intros x Hx. apply in_app_or in Hx. destruct Hx as [Hx|[<-|[]]]; [apply Hacc; exact Hx | exact Hf].
Qed.

Lemma client_exact min : forall resps last acc reqs,
  (forall r, In r resps -> r_min r = min) ->
  (forall b, In b acc -> fin min b = false) -> fin min last = false ->
  snd (fst (client parse resps min last acc reqs)) = true ->
  below_last min (fst (fst (client parse resps min last acc reqs))).
Proof.
  induction resps as [|r resps IH]; intros last acc reqs Hmin Hacc Hl; cbn [client]; rewrite Hl.
  - discriminate.
  - rewrite (Hmin r (or_introl eq_refl)).
    assert (forall r', In r' resps -> r_min r' = min) as Hmin' by (intros; apply Hmin; right; assumption).
    destruct (r_blocks r) as [raws|]; [|apply IH; assumption].
    pose proof (consume_exact min raws (b_parent last) last acc Hacc Hl) as Hc. cbn zeta in Hc.
    destruct (snd (consume parse min (b_parent last) raws last acc)).
    + intros _. exact Hc.
    + destruct Hc as [Hacc' Hl']. apply IH; assumption.
Qed.

(* ---- stuck at a non-genesis block whose parent id names no block (before the F-22 fix this
   also covered genesis itself) ---- *)
Lemma consume_stuck min last acc : tree (b_parent last) = None ->
  forall raws, consume parse min (b_parent last) raws last acc = (last, acc, false).
Proof.
  intros Hnone [|raw raws]; cbn [consume]; [reflexivity|].
  destruct (parse raw) as [b|] eqn:Hp; [|reflexivity].
  destruct (N.eqb_spec (b_parent last) (b_id b)) as [Heq|Hne]; cbn [negb]; [|reflexivity].
  exfalso. rewrite Heq, (ORACLE _ _ Hp) in Hnone. discriminate.
Qed.

Lemma client_stuck last acc : tree (b_parent last) = None ->
  forall resps min reqs,
  fin min last = false -> (forall r, In r resps -> fin (r_min r) last = false) ->
  client parse resps min last acc reqs =
    (acc, false, reqs ++ repeat (pred64 (b_height last)) (length resps)).
Proof.
  intros Hnone. induction resps as [|r resps IH]; intros min reqs Hmin Hr; cbn [client length repeat]; rewrite Hmin.
  - rewrite app_nil_r. reflexivity.
  - assert (fin (r_min r) last = false) as Hr0 by (apply Hr; left; reflexivity).
    assert (forall r', In r' resps -> fin (r_min r') last = false) as Hr' by (intros; apply Hr; right; assumption).
    destruct (r_blocks r) as [raws|].
    + rewrite (consume_stuck (r_min r) last acc Hnone raws). cbn [fst snd].
      rewrite (IH (r_min r) _ Hr0 Hr'), <- app_assoc. reflexivity.
    + rewrite (IH (r_min r) _ Hr0 Hr'), <- app_assoc. reflexivity.
Qed.

(* ---- progress: a response that starts with the real next ancestor extends the prefix ---- *)
Lemma client_progress r resps min last acc reqs raw rest b :
  fin min last = false ->
  r_blocks r = Some (raw :: rest) -> parse raw = Some b -> b_id b = b_parent last ->
  exists tail, fst (fst (client parse (r :: resps) min last acc reqs)) = acc ++ b :: tail.
Proof.
  intros Hmin Hr Hp Hid. cbn [client]. rewrite Hmin.
  rewrite Hr. cbn [consume]. rewrite Hp, Hid, N.eqb_refl. cbn [negb].
  destruct (fin (r_min r) b).
  - cbn [snd fst]. exists []. reflexivity.
  - destruct (consume_ext (r_min r) rest (b_parent b) b (acc ++ [b])) as [e1 He1].
    destruct (snd (consume parse (r_min r) (b_parent b) rest b (acc ++ [b]))).
    + cbn [fst]. exists e1. rewrite He1, <- app_assoc. reflexivity.
    + destruct (client_ext resps (r_min r)
                  (fst (fst (consume parse (r_min r) (b_parent b) rest b (acc ++ [b]))))
                  (snd (fst (consume parse (r_min r) (b_parent b) rest b (acc ++ [b]))))
                  (reqs ++ [pred64 (b_height last)])) as [e2 He2].
      exists (e1 ++ e2). rewrite He2, He1, <- !app_assoc. reflexivity.
Qed.

End Client.

(* ---- syncer: what ends up tracked ---- *)
Lemma em_add1_In_nz s it p : In p (em_add1 s it) -> In p s \/ (p = it /\ snd it <> 0).
Proof.
  unfold em_add1. destruct (Z.eqb_spec (snd it) 0); [tauto|]. destruct (em_has s (fst it)); [tauto|].
  intros [H|H]; [right; split; [symmetry; exact H | assumption] | left; exact H].
Qed.

Lemma em_add_In_nz its : forall s p, In p (em_add s its) -> In p s \/ (In p its /\ snd p <> 0).
Proof.
  unfold em_add. induction its as [|it its IH]; intros s p H; cbn [fold_left] in H; [left; exact H|].
  apply IH in H. destruct H as [H|[H Hnz]]; [|right; split; [right; exact H | exact Hnz]].
  apply em_add1_In_nz in H. destruct H as [H|[-> Hnz]]; [left; exact H | right; split; [left; reflexivity | exact Hnz]].
Qed.

Lemma historical_tracked : forall saved w x,
  em_has (seen (fold_left accept_historical saved w)) x = true <->
  em_has (seen w) x = true \/ exists b e, In b saved /\ In (x, e) (b_items b) /\ e <> 0.
Proof.
  induction saved as [|b saved IH]; intros w x; cbn [fold_left].
  - split; [left; assumption | intros [H|[b [e [[] _]]]]; exact H].
  - rewrite IH. cbn [accept_historical seen]. split.
    + intros [H|[b' [e [Hin [Hx He]]]]].
      * apply em_has_In in H. destruct H as [e H]. apply em_add_In_nz in H. destruct H as [H|[H Hnz]].
        -- left. apply em_has_In. exists e. exact H.
        -- right. exists b, e. split; [left; reflexivity | split; [exact H | exact Hnz]].
      * right. exists b', e. split; [right; exact Hin | split; assumption].
    + intros [H|[b' [e [[<-|Hin] [Hx He]]]]].
      * left. eapply em_has_mono; [apply em_add_incl | exact H].
      * left. eapply em_add_has_new; eassumption.
      * right. exists b', e. split; [exact Hin | split; assumption].
Qed.

(* ---- handler: the answer to a request for height h starts with the block at height h ---- *)
Lemma handler_ext byh min : forall fuel h acc l,
  handler_fetch byh min fuel h acc = Some l -> exists ext, l = acc ++ ext.
Proof.
  induction fuel as [|f IH]; intros h acc l H; cbn [handler_fetch] in H.
  - inversion H. exists []. rewrite app_nil_r. reflexivity.
  - destruct (byh h) as [b|].
    + destruct ((pred64 h =? 0)%N || (b_ts b <? min)).
      * inversion H. exists [b]. reflexivity.
      * apply IH in H. destruct H as [ext ->]. exists (b :: ext). rewrite <- app_assoc. reflexivity.
    + destruct acc; [discriminate|]. inversion H. exists []. rewrite app_nil_r. reflexivity.
Qed.

Lemma handler_nonempty byh min : forall fuel h (acc : list block),
  acc <> [] -> handler_fetch byh min fuel h acc <> None.
Proof.
  induction fuel as [|f IH]; intros h acc Hne; cbn [handler_fetch]; [discriminate|].
  destruct (byh h) as [b|].
  - destruct ((pred64 h =? 0)%N || (b_ts b <? min)); [discriminate|].
    apply IH. destruct acc; discriminate.
  - destruct acc; [contradiction | discriminate].
Qed.

Lemma handler_serves_next byh min fuel h b :
  byh h = Some b -> exists tail, handler_fetch byh min (S fuel) h [] = Some (b :: tail).
Proof.
  intros Hb. cbn [handler_fetch]. rewrite Hb. cbn [app].
  destruct ((pred64 h =? 0)%N || (b_ts b <? min)); [exists []; reflexivity|].
  destruct (handler_fetch byh min fuel (pred64 h) [b]) as [l|] eqn:Hf.
  - destruct (handler_ext _ _ _ _ _ _ Hf) as [ext ->]. exists ext. reflexivity.
  - exfalso. apply (handler_nonempty byh min fuel (pred64 h) [b]); [discriminate | exact Hf].
Qed.

(* ================================================================== C22 round 2 additions *)

(* the first n hash-linked ancestors of [start] (nearest first); shorter if the tree has no block
   for a parent id *)
Fixpoint ancestors (tree : index) (n : nat) (start : block) : list block :=
  match n with
  | O => []
  | S n' => match tree (b_parent start) with
            | None => []
            | Some p => p :: ancestors tree n' p
            end
  end.

Lemma chain_from_ancestors tree : forall l start,
  chain_from tree start l <-> l = ancestors tree (length l) start.
Proof.
  induction l as [|b l IH]; intros start; cbn [length ancestors].
  - split; [reflexivity | constructor].
  - split.
    + intros Hc. inversion Hc as [|s b' l' Hb Hl]; subst. rewrite Hb. f_equal. apply IH. exact Hl.
    + intros He. destruct (tree (b_parent start)) as [p|] eqn:Hp; [|discriminate].
      inversion He as [[Hbp Hl]]. subst p. constructor; [exact Hp|]. rewrite <- Hl. apply IH. exact Hl.
Qed.

Lemma ancestors_chain tree : forall n start, chain_from tree start (ancestors tree n start).
Proof.
  induction n as [|n IH]; intros start; cbn [ancestors]; [constructor|].
  destruct (tree (b_parent start)) as [p|] eqn:Hp; [|constructor].
  constructor; [exact Hp | apply IH].
Qed.

(* determinism of the ancestry: two hash-linked chains from the same block agree on their common
   length *)
Lemma chain_from_prefix tree : forall l1 start l2,
  chain_from tree start l1 -> chain_from tree start l2 -> (length l1 <= length l2)%nat ->
  l1 = firstn (length l1) l2.
Proof.
  induction l1 as [|b l1 IH]; intros start l2 H1 H2 Hlen; [reflexivity|].
  destruct l2 as [|c l2]; [cbn in Hlen; lia|].
  inversion H1 as [|s1 b1 l1' Hb1 Hl1]; subst. inversion H2 as [|s2 c2 l2' Hc2 Hl2]; subst.
  rewrite Hb1 in Hc2. inversion Hc2; subst c. cbn [length firstn]. f_equal.
  apply (IH b); [assumption | assumption | cbn in Hlen; lia].
Qed.

Lemma chain_from_app_inv tree : forall l1 l2 start,
  chain_from tree start (l1 ++ l2) -> chain_from tree start l1 /\ chain_from tree (last l1 start) l2.
Proof.
  induction l1 as [|a l1 IH]; intros l2 start Hc; cbn [app] in Hc.
  - split; [constructor | exact Hc].
  - inversion Hc as [|s b l Hb Hl]; subst. destruct (IH _ _ Hl) as [H1 H2].
    split; [constructor; assumption|].
    destruct l1 as [|c l1]; [exact H2|].
    change (last (a :: c :: l1) start) with (last (c :: l1) start).
    rewrite (last_indep (c :: l1) start a); [exact H2 | discriminate].
Qed.

Lemma chain_from_app tree : forall l1 l2 start,
  chain_from tree start l1 -> chain_from tree (last l1 start) l2 -> chain_from tree start (l1 ++ l2).
Proof.
  induction l1 as [|a l1 IH]; intros l2 start H1 H2; cbn [app]; [exact H2|].
  inversion H1 as [|s b l Hb Hl]; subst. constructor; [assumption|]. apply IH; [assumption|].
  destruct l1 as [|c l1]; [exact H2|].
  rewrite (last_indep (c :: l1) a start); [exact H2 | discriminate].
Qed.

Lemma in_firstn_in {A} (n : nat) (l : list A) (x : A) : In x (firstn n l) -> In x l.
Proof. intros H. rewrite <- (firstn_skipn n l). apply in_or_app. left. exact H. Qed.

(* a chain that ends at the first block below min is unique *)
Lemma below_last_unique tree min start l1 l2 :
  chain_from tree start l1 -> chain_from tree start l2 ->
  below_last min l1 -> below_last min l2 -> l1 = l2.
Proof.
  intros H1 H2 B1 B2.
  assert (forall la lb, chain_from tree start la -> chain_from tree start lb ->
            below_last min la -> below_last min lb -> (length la <= length lb)%nat -> la = lb) as Hgen.
  { clear. intros la lb Ha Hb [la' [za [-> [Hza Hla]]]] [lb' [zb [-> [Hzb Hlb]]]] Hlen.
    pose proof (chain_from_prefix tree _ _ _ Ha Hb Hlen) as Hp.
    rewrite !app_length in *. cbn [length] in *.
    destruct (Nat.eq_dec (length la') (length lb')) as [He|Hne].
    - replace (length la' + 1)%nat with (length (lb' ++ [zb])) in Hp by (rewrite app_length; cbn [length]; lia).
      rewrite firstn_all in Hp. exact Hp.
    - exfalso. rewrite firstn_app in Hp.
      replace (length la' + 1 - length lb')%nat with 0%nat in Hp by lia.
      cbn [firstn] in Hp. rewrite app_nil_r in Hp.
      assert (In za lb') as Hin.
      { apply (in_firstn_in (length la' + 1)). rewrite <- Hp. apply in_or_app. right. left. reflexivity. }
      apply Hlb in Hin. congruence. }
  destruct (Nat.le_ge_cases (length l1) (length l2)) as [Hle|Hle].
  - apply Hgen; assumption.
  - symmetry. apply Hgen; assumption.
Qed.

(* ---- the client with its full loop state exposed ---- *)
Record cstate := mkCS { cs_min : Z; cs_last : block; cs_acc : list block; cs_reqs : list N; cs_closed : bool }.

Section Client2.
Variable R : Type.
Variable parse : R -> option block.

Fixpoint client_st (resps : list (resp R)) (min : Z) (last : block) (acc : list block) (reqs : list N) : cstate :=
  if fin min last then mkCS min last acc reqs true
  else match resps with
       | [] => mkCS min last acc reqs false
       | r :: rest =>
           let reqs' := reqs ++ [pred64 (b_height last)] in
           match r_blocks r with
           | None => client_st rest (r_min r) last acc reqs'
           | Some raws =>
               let c := consume parse (r_min r) (b_parent last) raws last acc in
               if snd c then mkCS (r_min r) (fst (fst c)) (snd (fst c)) reqs' true
               else client_st rest (r_min r) (fst (fst c)) (snd (fst c)) reqs'
           end
       end.

Lemma client_st_proj : forall resps min last acc reqs,
  client parse resps min last acc reqs =
  (cs_acc (client_st resps min last acc reqs), cs_closed (client_st resps min last acc reqs),
   cs_reqs (client_st resps min last acc reqs)).
Proof.
  induction resps as [|r resps IH]; intros min last acc reqs; cbn [client client_st].
  - destruct (fin min last); reflexivity.
  - destruct (fin min last); [reflexivity|].
    destruct (r_blocks r) as [raws|]; [|apply IH].
    destruct (snd (consume parse (r_min r) (b_parent last) raws last acc)); [reflexivity | apply IH].
Qed.

Definition resume (s : cstate) (resps : list (resp R)) : cstate :=
  if cs_closed s then s else client_st resps (cs_min s) (cs_last s) (cs_acc s) (cs_reqs s).

(* running on r1 ++ r2 = running on r1, then (unless the channel was closed) on r2 *)
Lemma client_st_app : forall r1 r2 min last acc reqs,
  client_st (r1 ++ r2) min last acc reqs = resume (client_st r1 min last acc reqs) r2.
Proof.
  induction r1 as [|r r1 IH]; intros r2 min last acc reqs; cbn [app].
  - unfold resume. cbn [client_st]. destruct (fin min last) eqn:E; cbn [cs_closed]; [|reflexivity].
    destruct r2; cbn [client_st]; rewrite E; reflexivity.
  - cbn [client_st]. destruct (fin min last); [reflexivity|].
    destruct (r_blocks r) as [raws|]; [|apply IH].
    destruct (snd (consume parse (r_min r) (b_parent last) raws last acc)); [reflexivity | apply IH].
Qed.

(* the state at loop head, when the channel is still open, is not below the minimum *)
Lemma client_st_open : forall resps min last acc reqs,
  cs_closed (client_st resps min last acc reqs) = false ->
  fin (cs_min (client_st resps min last acc reqs)) (cs_last (client_st resps min last acc reqs)) = false.
Proof.
  induction resps as [|r resps IH]; intros min last acc reqs; cbn [client_st].
  - destruct (fin min last) eqn:E; cbn [cs_closed cs_last cs_min]; [discriminate | intros _; exact E].
  - destruct (fin min last) eqn:E; cbn [cs_closed]; [discriminate|].
    destruct (r_blocks r) as [raws|]; [|apply IH].
    destruct (snd (consume parse (r_min r) (b_parent last) raws last acc)); cbn [cs_closed]; [discriminate | apply IH].
Qed.

(* constant minimum *)
Lemma client_st_min min : forall resps last acc reqs,
  (forall r, In r resps -> r_min r = min) -> cs_min (client_st resps min last acc reqs) = min.
Proof.
  induction resps as [|r resps IH]; intros last acc reqs Hm; cbn [client_st].
  - destruct (fin min last); reflexivity.
  - destruct (fin min last); [reflexivity|].
    rewrite (Hm r (or_introl eq_refl)).
    assert (forall r', In r' resps -> r_min r' = min) as Hm' by (intros; apply Hm; right; assumption).
    destruct (r_blocks r) as [raws|]; [|apply IH; exact Hm'].
    destruct (snd (consume parse min (b_parent last) raws last acc)); [reflexivity | apply IH; exact Hm'].
Qed.

(* every emitted block was parsed from a raw of some response *)
Definition from_resps (resps : list (resp R)) (b : block) : Prop :=
  exists r raws raw, In r resps /\ r_blocks r = Some raws /\ In raw raws /\ parse raw = Some b.

Lemma consume_parsed min : forall raws expected last acc b,
  In b (snd (fst (consume parse min expected raws last acc))) ->
  In b acc \/ exists raw, In raw raws /\ parse raw = Some b.
Proof.
  induction raws as [|raw raws IH]; intros expected last acc b; cbn [consume]; [cbn; tauto|].
  destruct (parse raw) as [b0|] eqn:Hp; [|cbn; tauto].
  destruct (negb (expected =? b_id b0)%N); [cbn; tauto|].
  destruct (fin min b0).
  - cbn [snd fst]. intros Hin. apply in_app_or in Hin. destruct Hin as [Hin|[<-|[]]]; [left; exact Hin|].
    right. exists raw. split; [left; reflexivity | exact Hp].
  - intros Hin. apply IH in Hin. destruct Hin as [Hin|[raw' [Hr Hp']]].
    + apply in_app_or in Hin. destruct Hin as [Hin|[<-|[]]]; [left; exact Hin|].
      right. exists raw. split; [left; reflexivity | exact Hp].
    + right. exists raw'. split; [right; exact Hr | exact Hp'].
Qed.

Lemma client_st_parsed : forall resps min last acc reqs b,
  In b (cs_acc (client_st resps min last acc reqs)) -> In b acc \/ from_resps resps b.
Proof.
  induction resps as [|r resps IH]; intros min last acc reqs b; cbn [client_st].
  - destruct (fin min last); cbn; tauto.
  - destruct (fin min last); [cbn; tauto|].
    assert (forall b, from_resps resps b -> from_resps (r :: resps) b) as Hmono.
    { intros b0 [r0 [raws [raw [Hr H]]]]. exists r0, raws, raw. split; [right; exact Hr | exact H]. }
    destruct (r_blocks r) as [raws|] eqn:Hrb.
    + assert (forall b, In b (snd (fst (consume parse (r_min r) (b_parent last) raws last acc))) ->
                        In b acc \/ from_resps (r :: resps) b) as Hc.
      { intros b0 Hin. apply consume_parsed in Hin. destruct Hin as [Hin|[raw [Hraw Hp]]]; [left; exact Hin|].
        right. exists r, raws, raw. split; [left; reflexivity | repeat split; assumption]. }
      destruct (snd (consume parse (r_min r) (b_parent last) raws last acc)).
      * cbn [cs_acc]. apply Hc.
      * intros Hin. apply IH in Hin. destruct Hin as [Hin|Hin]; [apply Hc; exact Hin | right; apply Hmono; exact Hin].
    + intros Hin. apply IH in Hin. destruct Hin as [Hin|Hin]; [left; exact Hin | right; apply Hmono; exact Hin].
Qed.

(* while the channel is open (constant minimum) nothing emitted is below the minimum *)
Lemma client_st_open_ge min : forall resps last acc reqs,
  (forall r, In r resps -> r_min r = min) ->
  (forall b, In b acc -> fin min b = false) ->
  cs_closed (client_st resps min last acc reqs) = false ->
  forall b, In b (cs_acc (client_st resps min last acc reqs)) -> fin min b = false.
Proof.
  induction resps as [|r resps IH]; intros last acc reqs Hm Hacc; cbn [client_st].
  - destruct (fin min last); cbn [cs_closed cs_acc]; [discriminate | intros _; exact Hacc].
  - destruct (fin min last) eqn:Hge; cbn [cs_closed]; [discriminate|].
    rewrite (Hm r (or_introl eq_refl)).
    assert (forall r', In r' resps -> r_min r' = min) as Hm' by (intros; apply Hm; right; assumption).
    destruct (r_blocks r) as [raws|]; [|apply IH; assumption].
    pose proof (consume_exact R parse min raws (b_parent last) last acc Hacc Hge) as Hc. cbn zeta in Hc.
    destruct (snd (consume parse min (b_parent last) raws last acc)); cbn [cs_closed]; [discriminate|].
    apply IH; [exact Hm' | exact (proj1 Hc)].
Qed.

Variable tree : index.
Hypothesis ORACLE : forall r b, parse r = Some b -> tree (b_id b) = Some b.

Lemma client_st_inv start : forall resps min last acc reqs,
  InvC tree start last acc ->
  InvC tree start (cs_last (client_st resps min last acc reqs)) (cs_acc (client_st resps min last acc reqs)).
Proof.
  induction resps as [|r resps IH]; intros min last acc reqs HI; cbn [client_st].
  - destruct (fin min last); exact HI.
  - destruct (fin min last); [exact HI|].
    destruct (r_blocks r) as [raws|]; [|apply IH; exact HI].
    pose proof (consume_inv R parse tree ORACLE (r_min r) start raws last acc HI) as HI'.
    destruct (snd (consume parse (r_min r) (b_parent last) raws last acc)); [exact HI' | apply IH; exact HI'].
Qed.

(* ---- the prefix theorem ---- *)
Lemma client_prefix start resps min :
  let out := fst (fst (client parse resps min start [] [])) in
  out = ancestors tree (length out) start /\
  (forall b, In b out -> from_resps resps b /\ tree (b_id b) = Some b).
Proof.
  cbn zeta. split.
  - apply chain_from_ancestors. apply (client_inv R parse tree ORACLE). split; [constructor | reflexivity].
  - intros b Hin. rewrite client_st_proj in Hin. cbn [fst] in Hin.
    apply client_st_parsed in Hin. destruct Hin as [[]|Hf]. split; [exact Hf|].
    destruct Hf as [r [raws [raw [_ [_ [_ Hp]]]]]]. exact (ORACLE _ _ Hp).
Qed.

(* ---- exactness, both directions (constant minimum) ---- *)
Lemma client_closed_iff start min resps :
  (forall r, In r resps -> r_min r = min) -> fin min start = false ->
  let out := fst (fst (client parse resps min start [] [])) in
  (snd (fst (client parse resps min start [] [])) = true <-> below_last min out) /\
  (snd (fst (client parse resps min start [] [])) = false -> forall b, In b out -> fin min b = false).
Proof.
  intros Hm Hs. cbn zeta. split; [split|].
  - apply (client_exact R parse min); [exact Hm | intros b [] | exact Hs].
  - intros [l' [z [Heq [Hz _]]]].
    destruct (snd (fst (client parse resps min start [] []))) eqn:Hc; [reflexivity|]. exfalso.
    rewrite client_st_proj in Hc, Heq. cbn [fst snd] in Hc, Heq.
    pose proof (client_st_open_ge min resps start [] [] Hm (fun b (H : In b []) => match H with end) Hc z) as Hge.
    rewrite Heq in Hge. assert (In z (l' ++ [z])) as Hin by (apply in_or_app; right; left; reflexivity). specialize (Hge Hin). congruence.
  - intros Hc b Hin. rewrite client_st_proj in Hc, Hin. cbn [fst snd] in Hc, Hin.
    exact (client_st_open_ge min resps start [] [] Hm (fun b (H : In b []) => match H with end) Hc b Hin).
Qed.

(* ---- progress and completion ---- *)
(* response r answers the request made after the fault sequence [pre]: its first raw parses to the
   block whose id is the parent id of the last block received so far *)
Definition next_expected (start : block) (min : Z) (pre : list (resp R)) : N :=
  b_parent (last (fst (fst (client parse pre min start [] []))) start).
Definition serves (r : resp R) (expected : N) : Prop :=
  exists raw rest b, r_blocks r = Some (raw :: rest) /\ parse raw = Some b /\ b_id b = expected.

Lemma client_step_progress start min pre r :
  (forall r', In r' (pre ++ [r]) -> r_min r' = min) -> fin min start = false ->
  snd (fst (client parse pre min start [] [])) = false ->
  serves r (next_expected start min pre) ->
  exists b tail, b_id b = next_expected start min pre /\
    fst (fst (client parse (pre ++ [r]) min start [] [])) =
    fst (fst (client parse pre min start [] [])) ++ b :: tail.
Proof.
  intros Hm Hs Hopen [raw [rest [b [Hr [Hp Hid]]]]]. unfold next_expected in *.
  rewrite !client_st_proj in *. cbn [fst snd] in *. rewrite client_st_app.
  set (s := client_st pre min start [] []) in *.
  unfold resume. rewrite Hopen.
  pose proof (client_st_inv start pre min start [] [] (conj (cf_nil tree start) eq_refl)) as [_ Hl]. fold s in Hl.
  rewrite <- Hl in Hid.
  pose proof (client_st_open pre min start [] [] Hopen) as Hge. fold s in Hge.
  destruct (client_progress R parse r [] (cs_min s) (cs_last s) (cs_acc s) (cs_reqs s) raw rest b) as [tail Ht];
    [exact Hge | exact Hr | exact Hp | exact Hid |].
  rewrite client_st_proj in Ht. cbn [fst] in Ht. exists b, tail. split; [rewrite <- Hl; exact Hid | exact Ht].
Qed.

(* [serving_run start min pre rest n]: in the fault sequence pre ++ rest, at least n of the
   responses of [rest] answer the request they were sent for (the others are arbitrary faults) *)
Inductive serving_run (start : block) (min : Z) : list (resp R) -> list (resp R) -> nat -> Prop :=
| sr_nil pre : serving_run start min pre [] 0
| sr_fault pre r rest n : serving_run start min (pre ++ [r]) rest n -> serving_run start min pre (r :: rest) n
| sr_good pre r rest n : serves r (next_expected start min pre) ->
    serving_run start min (pre ++ [r]) rest n -> serving_run start min pre (r :: rest) (S n).

Lemma emitted_mono min start pre r :
  exists ext, cs_acc (client_st (pre ++ [r]) min start [] []) = cs_acc (client_st pre min start [] []) ++ ext.
Proof.
  rewrite client_st_app. unfold resume. destruct (cs_closed (client_st pre min start [] [])).
  - exists []. rewrite app_nil_r. reflexivity.
  - destruct (client_ext R parse [r] (cs_min (client_st pre min start [] [])) (cs_last (client_st pre min start [] []))
                (cs_acc (client_st pre min start [] [])) (cs_reqs (client_st pre min start [] []))) as [ext He].
    rewrite client_st_proj in He. cbn [fst] in He. exists ext. exact He.
Qed.

Lemma closed_stable min start pre r :
  cs_closed (client_st pre min start [] []) = true -> cs_closed (client_st (pre ++ [r]) min start [] []) = true.
Proof. intros H. rewrite client_st_app. unfold resume. rewrite H. exact H. Qed.

Lemma client_completes start min full :
  chain_from tree start full -> below_last min full -> fin min start = false ->
  forall pre rest n, serving_run start min pre rest n ->
  (forall r, In r (pre ++ rest) -> r_min r = min) ->
  (length full <= length (cs_acc (client_st pre min start [] [])) + n)%nat ->
  cs_closed (client_st (pre ++ rest) min start [] []) = true.
Proof.
  intros Hfull Hbl Hs pre rest n Hrun.
  induction Hrun as [pre | pre r rest n Hrun IH | pre r rest n Hserve Hrun IH]; intros Hm Hlen.
  - rewrite app_nil_r in *. destruct (cs_closed (client_st pre min start [] [])) eqn:Hc; [reflexivity|]. exfalso.
    pose proof (client_st_inv start pre min start [] [] (conj (cf_nil tree start) eq_refl)) as [Hch _].
    pose proof (client_st_open_ge min pre start [] [] Hm (fun b (H : In b []) => match H with end) Hc) as Hge.
    destruct Hbl as [l' [z [Heq [Hz _]]]].
    assert (length full <= length (cs_acc (client_st pre min start [] [])))%nat as Hlen' by lia.
    pose proof (chain_from_prefix tree _ _ _ Hfull Hch Hlen') as Hp.
    assert (In z (cs_acc (client_st pre min start [] []))) as Hin.
    { apply (in_firstn_in (length full)). rewrite <- Hp, Heq. apply in_or_app. right. left. reflexivity. }
    apply Hge in Hin. congruence.
  - rewrite (app_assoc pre [r] rest : pre ++ r :: rest = (pre ++ [r]) ++ rest) in *. apply IH; [exact Hm|].
    destruct (emitted_mono min start pre r) as [ext He]. rewrite He, app_length. lia.
  - rewrite (app_assoc pre [r] rest : pre ++ r :: rest = (pre ++ [r]) ++ rest) in *.
    destruct (cs_closed (client_st pre min start [] [])) eqn:Hc.
    + pose proof (closed_stable min start pre r Hc) as Hc'.
      rewrite client_st_app. unfold resume. rewrite Hc'. exact Hc'.
    + apply IH; [exact Hm|].
      destruct (client_step_progress start min pre r) as [b [tail [_ He]]].
      * intros r' Hin. apply Hm. apply in_or_app. left. exact Hin.
      * exact Hs.
      * rewrite client_st_proj. exact Hc.
      * exact Hserve.
      * rewrite !client_st_proj in He. cbn [fst] in He. rewrite He, app_length. cbn [length]. lia.
Qed.

(* final form: a fault sequence containing at least |full| serving responses completes, and then
   the emitted blocks are exactly [full] *)
Lemma client_liveness start min full resps n :
  chain_from tree start full -> below_last min full -> fin min start = false ->
  (forall r, In r resps -> r_min r = min) ->
  serving_run start min [] resps n -> (length full <= n)%nat ->
  client parse resps min start [] [] = (full, true, snd (client parse resps min start [] [])).
Proof.
  intros Hfull Hbl Hs Hm Hrun Hlen.
  pose proof (client_completes start min full Hfull Hbl Hs [] resps n Hrun Hm) as Hc.
  cbn [app] in Hc. specialize (Hc ltac:(lia)).
  pose proof (client_closed_iff start min resps Hm Hs) as [[Hex _] _].
  rewrite client_st_proj in *. cbn [fst snd] in *.
  rewrite Hc. f_equal. f_equal.
  apply (below_last_unique tree min start); [|exact Hfull| apply Hex; exact Hc | exact Hbl].
  exact (proj1 (client_st_inv start resps min start [] [] (conj (cf_nil tree start) eq_refl))).
Qed.

End Client2.

(* ---- Syncer.Start: the blocks found locally are the nearest ancestors of the target ---- *)
Lemma pop_walk_chain tree idx oldest head : sub idx tree ->
  forall fuel parent acc l L c,
  acc = rev l ++ [head] -> chain_from tree head l -> parent = last l head ->
  (forall b, In b l -> oldest <= b_ts b) ->
  pop_walk idx oldest fuel parent acc = (L, c) ->
  exists l', L = rev l' ++ [head] /\ chain_from tree head l' /\
             (c = false -> forall b, In b l' -> oldest <= b_ts b).
Proof.
  intros Hsub. induction fuel as [|f IH]; intros parent acc l L c Hacc Hch Hpar Hge Hpw; cbn [pop_walk] in Hpw.
  - inversion Hpw; subst. exists l. repeat split; [assumption | intros _; exact Hge].
  - destruct (b_height parent =? 0)%N.
    + inversion Hpw; subst. exists l. repeat split; [assumption | intros _; exact Hge].
    + destruct (idx (b_parent parent)) as [p|] eqn:Hp.
      * apply Hsub in Hp.
        assert (chain_from tree head (l ++ [p])) as Hch' by (apply chain_snoc; [exact Hch | rewrite <- Hpar; exact Hp]).
        assert (p :: acc = rev (l ++ [p]) ++ [head]) as Hacc' by (rewrite rev_app_distr, Hacc; reflexivity).
        destruct (Z.ltb_spec (b_ts p) oldest) as [Hlt|Hge'].
        -- inversion Hpw; subst L c. exists (l ++ [p]). repeat split; [exact Hacc' | exact Hch' | discriminate].
        -- apply (IH p (p :: acc) (l ++ [p]) L c Hacc' Hch'); [symmetry; apply last_snoc | | exact Hpw].
           intros b Hin. apply in_app_or in Hin. destruct Hin as [Hin|[<-|[]]]; [apply Hge; exact Hin | exact Hge'].
      * inversion Hpw; subst. exists l. repeat split; [assumption | intros _; exact Hge].
Qed.

Lemma hd_rev_last {A} (l : list A) (d : A) : hd d (rev l ++ [d]) = last l d.
Proof.
  induction l as [|a l IH] using rev_ind; [reflexivity|].
  rewrite rev_app_distr, last_snoc. reflexivity.
Qed.

(* the blocks the syncer saves, together with the blocks it found locally, are the hash-linked
   ancestors of the target, nearest first; on completion they end with the first one below the
   minimum; what is tracked afterwards is what the local blocks gave plus the non-zero-expiry
   items of the saved blocks *)
Section Syncer.
Variable R : Type.
Variable parse : R -> option block.
Variable tree : index.
Hypothesis ORACLE : forall r b, parse r = Some b -> tree (b_id b) = Some b.

Lemma syncer_spec idx w W target resps :
  sub idx tree ->
  let min := oldest_allowed W (b_ts target) in
  let p := populate idx w W target in
  let s := syncer parse idx w W target resps in
  let saved := snd (fst (fst s)) in
  exists local,
    snd (fst p) = rev local ++ [target] /\
    chain_from tree target (local ++ saved) /\
    (forall b, In b saved -> from_resps R parse resps b /\ tree (b_id b) = Some b) /\
    (forall x, em_has (seen (fst (fst (fst s)))) x = true <->
               em_has (seen (fst (fst p))) x = true \/
               exists b e, In b saved /\ In (x, e) (b_items b) /\ e <> 0) /\
    (snd p = true -> saved = [] /\ snd (fst s) = true) /\
    (snd p = false -> (forall r, In r resps -> r_min r = min) ->
       (forall b, In b local -> min <= b_ts b) /\
       (fin min (last local target) = true -> saved = [] /\ snd (fst s) = true) /\
       (fin min (last local target) = false ->
          (snd (fst s) = true <-> below_last min saved) /\
          (snd (fst s) = false -> forall b, In b saved -> fin min b = false))).
Proof.
  intros Hsub. cbn zeta. unfold syncer, populate. cbn [fst snd].
  destruct (pop_walk idx (oldest_allowed W (b_ts target)) (fuel_of target) target [target]) as [L c] eqn:Hpw.
  cbn [fst snd].
  destruct (pop_walk_chain tree idx (oldest_allowed W (b_ts target)) target Hsub (fuel_of target) target [target] [] L c
              eq_refl (cf_nil _ _) eq_refl (fun b (H : In b []) => match H with end) Hpw) as [local [HL [Hch Hge]]].
  exists local. split; [exact HL|].
  destruct c; cbn [fst snd].
  - rewrite app_nil_r. split; [exact Hch|]. split; [intros b []|]. split.
    + intros x. split; [left; assumption | intros [H|[b [e [[] _]]]]; exact H].
    + split; [intros _; split; reflexivity | discriminate].
  - set (oldest := hd target L).
    assert (oldest = last local target) as Hold by (unfold oldest; rewrite HL; apply hd_rev_last).
    set (min := oldest_allowed W (b_ts target)) in *.
    pose proof (client_prefix R parse tree ORACLE oldest resps min) as [Hanc Hparsed]. cbn zeta in Hanc, Hparsed.
    split; [|split; [exact Hparsed|split; [apply historical_tracked|split; [discriminate|]]]].
    + apply chain_from_app; [exact Hch|]. rewrite <- Hold. apply chain_from_ancestors. exact Hanc.
    + intros _ Hm. specialize (Hge eq_refl). rewrite <- Hold. split; [exact Hge|]. split.
      * intros Hf. destruct resps as [|r0 resps0]; cbn [client]; rewrite Hf; split; reflexivity.
      * intros Hf. exact (client_closed_iff R parse oldest min resps Hm Hf).
Qed.
End Syncer.

(* ---- F-22 (repaired by the fix commit in /repo): once genesis has been received the client completes,
   also when genesis.ts >= min.  Before the fix this configuration never completed: the client kept
   requesting height 2^64-1 for every continuation of the fault sequence. ---- *)
Definition f22_genesis : block := mkB 10 0 0 5 [(7%N, 9)].
Definition f22_start : block := mkB 11 10 1 6 [].
Definition f22_tree : index := tree_of [f22_genesis; f22_start].
Definition f22_parse (_ : unit) : option block := Some f22_genesis.
Definition f22_serve : resp unit := mkResp 2 (Some [tt]).

Lemma f22_oracle : forall r b, f22_parse r = Some b -> f22_tree (b_id b) = Some b.
Proof. intros r b H. inversion H; subst. reflexivity. Qed.

Lemma f22_completes : forall resps : list (resp unit),
  client f22_parse (f22_serve :: resps) 2 f22_start [] [] = ([f22_genesis], true, [0%N]).
Proof. intros resps. reflexivity. Qed.

(* readable form of the completion test *)
Lemma fin_true min b : fin min b = true <-> b_ts b < min \/ b_height b = 0%N.
Proof. unfold fin. rewrite orb_true_iff, Z.ltb_lt, N.eqb_eq. tauto. Qed.
Lemma fin_false min b : fin min b = false <-> min <= b_ts b /\ b_height b <> 0%N.
Proof. unfold fin. rewrite orb_false_iff, Z.ltb_ge, N.eqb_neq. tauto. Qed.
