(* Proofs about Model/Backfill.v: what the backfill client emits is always the hash-linked
   ancestry of the start block, whatever the peers answer. *)
From Coq Require Import List NArith ZArith Bool Lia ZifyN ZifyNat ZifyBool.
Import ListNotations.
From HV Require Import Model.ValidityWindow Model.Backfill Proofs.ValidityWindow_proofs.
Local Open Scope Z_scope.

(* [chain_from tree start l]: l = parent of start, grandparent, ... (each one the block the tree
   holds for the previous one's parent id), in this order *)
Inductive chain_from (tree : index) : block -> list block -> Prop :=
| cf_nil start : chain_from tree start []
| cf_cons start b l : tree (b_parent start) = Some b -> chain_from tree b l -> chain_from tree start (b :: l).

Lemma last_indep {A} : forall (l : list A) (d d' : A), l <> [] -> last l d = last l d'.
Proof.
  induction l as [|a l IH]; intros d d' Hne; [contradiction|].
  destruct l as [|c l]; [reflexivity|]. cbn [last]. cbn [last] in IH. apply IH. discriminate.
Qed.

Lemma chain_snoc tree : forall l start b,
  chain_from tree start l -> tree (b_parent (last l start)) = Some b -> chain_from tree start (l ++ [b]).
Proof.
  induction l as [|a l IH]; intros start b Hc Hb; cbn [app].
  - cbn [last] in Hb. constructor; [exact Hb | constructor].
  - inversion Hc; subst. constructor; [assumption|]. apply IH; [assumption|].
    destruct l as [|c l]; [exact Hb|].
    rewrite (last_indep (c :: l) a start); [|discriminate]. exact Hb.
Qed.

Lemma last_snoc {A} (l : list A) (x d : A) : last (l ++ [x]) d = x.
Proof. induction l as [|a l IH]; [reflexivity|]. cbn [app]. destruct (l ++ [x]) eqn:E; [destruct l; discriminate | exact IH]. Qed.

Section Client.
Variable R : Type.
Variable parse : R -> option block.
Variable tree : index.
(* hash oracle: every parseable byte string is a block whose id is its hash, and [tree] is the
   inverse of the hash on blocks: an id determines the block *)
Hypothesis ORACLE : forall r b, parse r = Some b -> tree (b_id b) = Some b.

(* ---- extension: the emitted list only grows ---- *)
Lemma consume_ext min : forall raws expected last acc,
  exists ext, snd (fst (consume parse min expected raws last acc)) = acc ++ ext.
Proof.
  induction raws as [|raw raws IH]; intros expected last acc; cbn [consume].
  - exists []. cbn. rewrite app_nil_r. reflexivity.
  - destruct (parse raw) as [b|]; [|exists []; cbn; rewrite app_nil_r; reflexivity].
    destruct (negb (expected =? b_id b)%N); [exists []; cbn; rewrite app_nil_r; reflexivity|].
    destruct (b_ts b <? min); [exists [b]; reflexivity|].
    destruct (IH (b_parent b) b (acc ++ [b])) as [ext Hext]. exists (b :: ext).
    rewrite Hext, <- app_assoc. reflexivity.
Qed.

Lemma client_ext : forall resps min last acc reqs,
  exists ext, fst (fst (client parse resps min last acc reqs)) = acc ++ ext.
Proof.
  induction resps as [|r resps IH]; intros min last acc reqs; cbn [client].
  - destruct (b_ts last <? min); exists []; cbn; rewrite app_nil_r; reflexivity.
  - destruct (b_ts last <? min); [exists []; cbn; rewrite app_nil_r; reflexivity|].
    destruct (r_blocks r) as [raws|]; [|apply IH].
    destruct (consume_ext (r_min r) raws (b_parent last) last acc) as [e1 He1].
    destruct (snd (consume parse (r_min r) (b_parent last) raws last acc)).
    + exists e1. cbn [fst]. exact He1.
    + destruct (IH (r_min r) (fst (fst (consume parse (r_min r) (b_parent last) raws last acc)))
                  (snd (fst (consume parse (r_min r) (b_parent last) raws last acc)))
                  (reqs ++ [pred64 (b_height last)])) as [e2 He2].
      exists (e1 ++ e2). rewrite He2, He1, app_assoc. reflexivity.
Qed.

(* ---- linkage ---- *)
Definition InvC (start last : block) (acc : list block) : Prop :=
  chain_from tree start acc /\ last = List.last acc start.

Lemma consume_inv min start : forall raws last acc,
  InvC start last acc ->
  InvC start (fst (fst (consume parse min (b_parent last) raws last acc)))
             (snd (fst (consume parse min (b_parent last) raws last acc))).
Proof.
  induction raws as [|raw raws IH]; intros last acc HI; cbn [consume]; [exact HI|].
  destruct (parse raw) as [b|] eqn:Hp; [|exact HI].
  destruct (N.eqb_spec (b_parent last) (b_id b)) as [Heq|Hne]; cbn [negb]; [|exact HI].
  assert (InvC start b (acc ++ [b])) as HI'.
  { destruct HI as [Hc Hl]. split; [|symmetry; apply last_snoc].
    apply chain_snoc; [exact Hc|]. rewrite <- Hl, Heq. exact (ORACLE _ _ Hp). }
  destruct (b_ts b <? min); [exact HI'|]. apply IH. exact HI'.
Qed.

Lemma client_inv start : forall resps min last acc reqs,
  InvC start last acc -> chain_from tree start (fst (fst (client parse resps min last acc reqs))).
Proof.
  induction resps as [|r resps IH]; intros min last acc reqs HI; cbn [client].
  - destruct (b_ts last <? min); exact (proj1 HI).
  - destruct (b_ts last <? min); [exact (proj1 HI)|].
    destruct (r_blocks r) as [raws|]; [|apply IH; exact HI].
    pose proof (consume_inv (r_min r) start raws last acc HI) as HI'.
    destruct (snd (consume parse (r_min r) (b_parent last) raws last acc)); [exact (proj1 HI')|].
    apply IH. exact HI'.
Qed.

(* ---- exactness for a constant minimum ---- *)
Definition below_last (min : Z) (l : list block) : Prop :=
  exists l' z, l = l' ++ [z] /\ b_ts z < min /\ forall b, In b l' -> min <= b_ts b.

Lemma consume_exact min : forall raws expected last acc,
  (forall b, In b acc -> min <= b_ts b) -> min <= b_ts last ->
  let c := consume parse min expected raws last acc in
  if snd c then below_last min (snd (fst c))
  else (forall b, In b (snd (fst c)) -> min <= b_ts b) /\ min <= b_ts (fst (fst c)).
Proof.
  induction raws as [|raw raws IH]; intros expected last acc Hacc Hl; cbn [consume]; [cbn; tauto|].
  destruct (parse raw) as [b|]; [|cbn; tauto].
  destruct (negb (expected =? b_id b)%N); [cbn; tauto|].
  destruct (Z.ltb_spec (b_ts b) min) as [Hlt|Hge].
  - cbn [snd fst]. exists acc, b. repeat split; assumption.
  - apply IH; [|exact Hge]. intros x Hx. apply in_app_or in Hx. destruct Hx as [Hx|[<-|[]]]; [apply Hacc; exact Hx | exact Hge].
Qed.

Lemma client_exact min : forall resps last acc reqs,
  (forall r, In r resps -> r_min r = min) ->
  (forall b, In b acc -> min <= b_ts b) -> min <= b_ts last ->
  snd (fst (client parse resps min last acc reqs)) = true ->
  below_last min (fst (fst (client parse resps min last acc reqs))).
Proof.
  induction resps as [|r resps IH]; intros last acc reqs Hmin Hacc Hl; cbn [client].
  - destruct (Z.ltb_spec (b_ts last) min); [lia | discriminate].
  - destruct (Z.ltb_spec (b_ts last) min); [lia|].
    rewrite (Hmin r (or_introl eq_refl)).
    assert (forall r', In r' resps -> r_min r' = min) as Hmin' by (intros; apply Hmin; right; assumption).
    destruct (r_blocks r) as [raws|]; [|apply IH; assumption].
    pose proof (consume_exact min raws (b_parent last) last acc Hacc Hl) as Hc. cbn zeta in Hc.
    destruct (snd (consume parse min (b_parent last) raws last acc)).
    + intros _. exact Hc.
    + destruct Hc as [Hacc' Hl']. apply IH; assumption.
Qed.

(* ---- F-22: stuck at a block whose parent id names no block (genesis) ---- *)
Lemma consume_stuck min last acc : tree (b_parent last) = None ->
  forall raws, consume parse min (b_parent last) raws last acc = (last, acc, false).
Proof.
  intros Hnone [|raw raws]; cbn [consume]; [reflexivity|].
  destruct (parse raw) as [b|] eqn:Hp; [|reflexivity].
  destruct (N.eqb_spec (b_parent last) (b_id b)) as [Heq|Hne]; cbn [negb]; [|reflexivity].
  exfalso. rewrite Heq, (ORACLE _ _ Hp) in Hnone. discriminate.
Qed.

Lemma client_stuck last acc : tree (b_parent last) = None ->
  forall resps min reqs,
  min <= b_ts last -> (forall r, In r resps -> r_min r <= b_ts last) ->
  client parse resps min last acc reqs =
    (acc, false, reqs ++ repeat (pred64 (b_height last)) (length resps)).
Proof.
  intros Hnone. induction resps as [|r resps IH]; intros min reqs Hmin Hr; cbn [client length repeat].
  - destruct (Z.ltb_spec (b_ts last) min); [lia|]. rewrite app_nil_r. reflexivity.
  - destruct (Z.ltb_spec (b_ts last) min); [lia|].
    assert (r_min r <= b_ts last) as Hr0 by (apply Hr; left; reflexivity).
    assert (forall r', In r' resps -> r_min r' <= b_ts last) as Hr' by (intros; apply Hr; right; assumption).
    destruct (r_blocks r) as [raws|].
    + rewrite (consume_stuck (r_min r) last acc Hnone raws). cbn [fst snd].
      rewrite (IH (r_min r) _ Hr0 Hr'), <- app_assoc. reflexivity.
    + rewrite (IH (r_min r) _ Hr0 Hr'), <- app_assoc. reflexivity.
Qed.

(* ---- progress: a response that starts with the real next ancestor extends the prefix ---- *)
Lemma client_progress r resps min last acc reqs raw rest b :
  min <= b_ts last ->
  r_blocks r = Some (raw :: rest) -> parse raw = Some b -> b_id b = b_parent last ->
  exists tail, fst (fst (client parse (r :: resps) min last acc reqs)) = acc ++ b :: tail.
Proof.
  intros Hmin Hr Hp Hid. cbn [client].
  destruct (Z.ltb_spec (b_ts last) min); [lia|].
  rewrite Hr. cbn [consume]. rewrite Hp, Hid, N.eqb_refl. cbn [negb].
  destruct (b_ts b <? r_min r).
  - cbn [snd fst]. exists []. reflexivity.
  - destruct (consume_ext (r_min r) rest (b_parent b) b (acc ++ [b])) as [e1 He1].
    destruct (snd (consume parse (r_min r) (b_parent b) rest b (acc ++ [b]))).
    + cbn [fst]. exists e1. rewrite He1, <- app_assoc. reflexivity.
    + destruct (client_ext resps (r_min r)
                  (fst (fst (consume parse (r_min r) (b_parent b) rest b (acc ++ [b]))))
                  (snd (fst (consume parse (r_min r) (b_parent b) rest b (acc ++ [b]))))
                  (reqs ++ [pred64 (b_height last)])) as [e2 He2].
      exists (e1 ++ e2). rewrite He2, He1, <- !app_assoc. reflexivity.
Qed.

End Client.

(* ---- syncer: what ends up tracked ---- *)
Lemma em_add1_In_nz s it p : In p (em_add1 s it) -> In p s \/ (p = it /\ snd it <> 0).
Proof.
  unfold em_add1. destruct (Z.eqb_spec (snd it) 0); [tauto|]. destruct (em_has s (fst it)); [tauto|].
  intros [H|H]; [right; split; [symmetry; exact H | assumption] | left; exact H].
Qed.

Lemma em_add_In_nz its : forall s p, In p (em_add s its) -> In p s \/ (In p its /\ snd p <> 0).
Proof.
  unfold em_add. induction its as [|it its IH]; intros s p H; cbn [fold_left] in H; [left; exact H|].
  apply IH in H. destruct H as [H|[H Hnz]]; [|right; split; [right; exact H | exact Hnz]].
  apply em_add1_In_nz in H. destruct H as [H|[-> Hnz]]; [left; exact H | right; split; [left; reflexivity | exact Hnz]].
Qed.

Lemma historical_tracked : forall saved w x,
  em_has (seen (fold_left accept_historical saved w)) x = true <->
  em_has (seen w) x = true \/ exists b e, In b saved /\ In (x, e) (b_items b) /\ e <> 0.
Proof.
  induction saved as [|b saved IH]; intros w x; cbn [fold_left].
  - split; [left; assumption | intros [H|[b [e [[] _]]]]; exact H].
  - rewrite IH. cbn [accept_historical seen]. split.
    + intros [H|[b' [e [Hin [Hx He]]]]].
      * apply em_has_In in H. destruct H as [e H]. apply em_add_In_nz in H. destruct H as [H|[H Hnz]].
        -- left. apply em_has_In. exists e. exact H.
        -- right. exists b, e. split; [left; reflexivity | split; [exact H | exact Hnz]].
      * right. exists b', e. split; [right; exact Hin | split; assumption].
    + intros [H|[b' [e [[<-|Hin] [Hx He]]]]].
      * left. eapply em_has_mono; [apply em_add_incl | exact H].
      * left. eapply em_add_has_new; eassumption.
      * right. exists b', e. split; [exact Hin | split; assumption].
Qed.

(* ---- handler: the answer to a request for height h starts with the block at height h ---- *)
Lemma handler_ext byh min : forall fuel h acc l,
  handler_fetch byh min fuel h acc = Some l -> exists ext, l = acc ++ ext.
Proof.
  induction fuel as [|f IH]; intros h acc l H; cbn [handler_fetch] in H.
  - inversion H. exists []. rewrite app_nil_r. reflexivity.
  - destruct (byh h) as [b|].
    + destruct ((pred64 h =? 0)%N || (b_ts b <? min)).
      * inversion H. exists [b]. reflexivity.
      * apply IH in H. destruct H as [ext ->]. exists (b :: ext). rewrite <- app_assoc. reflexivity.
    + destruct acc; [discriminate|]. inversion H. exists []. rewrite app_nil_r. reflexivity.
Qed.

Lemma handler_nonempty byh min : forall fuel h (acc : list block),
  acc <> [] -> handler_fetch byh min fuel h acc <> None.
Proof.
  induction fuel as [|f IH]; intros h acc Hne; cbn [handler_fetch]; [discriminate|].
  destruct (byh h) as [b|].
  - destruct ((pred64 h =? 0)%N || (b_ts b <? min)); [discriminate|].
    apply IH. destruct acc; discriminate.
  - destruct acc; [contradiction | discriminate].
Qed.

Lemma handler_serves_next byh min fuel h b :
  byh h = Some b -> exists tail, handler_fetch byh min (S fuel) h [] = Some (b :: tail).
Proof.
  intros Hb. cbn [handler_fetch]. rewrite Hb. cbn [app].
  destruct ((pred64 h =? 0)%N || (b_ts b <? min)); [exists []; reflexivity|].
  destruct (handler_fetch byh min fuel (pred64 h) [b]) as [l|] eqn:Hf.
  - destruct (handler_ext _ _ _ _ _ _ Hf) as [ext ->]. exists ext. reflexivity.
  - exfalso. apply (handler_nonempty byh min fuel (pred64 h) [b]); [discriminate | exact Hf].
Qed.
